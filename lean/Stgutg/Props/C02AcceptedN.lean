/-
  C02 — `C02_accepted_statement` for N ≤ 10 000 UEs and ARBITRARY repetition counts, THROUGH `emulate`: test mode (NG Setup, the
  registration loop, the loops over `EstablishPDU`, `ServiceRequest`, `ReleasePDU`, `DeregisterUE` with the `Min` clamps of `main`)
  writes its uplink messages and the reference AMF/SMF judges them `accept`. Eighth module of C02.
    `C02_accepted_n_for_downlink`  what the emulator READS as hypotheses (registration: `DlReads`; later: decodable, and
                                   `EstablishPDU` extracts the assigned triple)
    `C02_accepted_n`               the downlink side SPECIFIED (Spec/AmfDownlink.lean)
-/
import Stgutg.Props.C02AcceptedOne
import Stgutg.Proofs.EmulatorLifeLoops

namespace Stgutg.Props.C02
open Stgutg Stgutg.Model.Emulator Stgutg.Proofs.Emulator Stgutg.Builders
open Stgutg.Model.NasProtect Stgutg.Proofs.NasProtect Stgutg.Spec.NasSecurity
open Stgutg.Proofs.BuildersRoles Stgutg.Proofs.UeIdentity Stgutg.Proofs.EmulatorRun Stgutg.Proofs.EmulatorSubscriber
open Stgutg.Proofs.EmulatorLife Stgutg.Props.C01 Stgutg.Proofs.KeyDerivation Stgutg.Proofs.EmulatorDownlink
open Stgutg.Proofs.EmulatorDlLife Stgutg.Proofs.EmulatorLifeReenc Stgutg.Proofs.EmulatorLifeArgs Stgutg.Proofs.EmulatorLifeN
open Stgutg.Model.KeyDerivation
open Stgutg.Spec.Ts35206 (BlockCipher)

theorem flatMap_single {α β : Type} (l : List α) (f : α → β) : l.flatMap (fun i => [f i]) = l.map f := by
  induction l with
  | nil => rfl
  | cons a l ih => simp [List.flatMap_cons, ih]

theorem flatMap_nil' {α β : Type} (l : List α) : l.flatMap (fun _ => ([] : List β)) = [] := by
  induction l with
  | nil => rfl
  | cons a l ih => simp [List.flatMap_cons, ih]

theorem natMin_eq (a b : Int) : Spec.Amf.natMin a b = min a.toNat b.toNat := by
  unfold Spec.Amf.natMin; split <;> omega

/-- the downlink messages of a whole test-mode run, in the order the emulator reads them: NG SETUP RESPONSE; four per registration;
    one per establishment; one per service request; two per de-registration -/
def lifeDls (d1 : Bytes) (dn : Nat → Bytes × Bytes × Bytes × Bytes) (de ds : Nat → Bytes) (dd : Nat → Bytes × Bytes)
    (N est svc der : Nat) : List Bytes :=
  d1 :: (dlsOf dn 0 N ++ ((List.range est).map de ++ ((List.range svc).map ds ++
    (List.range der).flatMap fun j => [(dd j).1, (dd j).2])))

/-- **C02_accepted_n_for_downlink.** Test mode for `N ≤ 10 000` UEs and ANY repetition counts (`Test_ue_pdu_establishment`,
    `Test_ue_service`, `Test_ue_pdu_release`, `Test_ue_deregistration`: any integers — the loops run `est = min(N, pdu)`,
    `min(est, svc)`, `min(est, rel)`, `min(N, dereg)` times, `C02_numbers_are_min`), through `emulate`, with the downlink side as
    hypotheses: `DlReads` for every registration; every later downlink message decodable; `EstablishPDU` extracts from UE `j`'s
    setup request the triple the AMF assigned to `j`. The emulator completes and the reference AMF/SMF ACCEPTS the transcript:
    no clause on any of the `1 + 5N + 2·est + 2·svc + 3·rel + 2·dereg` uplink messages (the UEs' histories interleave: loop by loop,
    UE by UE), the expected numbers of procedures, reported = assigned. -/
theorem C02_accepted_n_for_downlink (P : Prims) (hP : PrimsOk P) (hH : MacLen P.hmac) (cfg : Cfg) (scfg : Spec.Amf.Cfg)
    (chs : List Spec.Amf.Choice) (E : Model.Convert.Ext) (N : Nat) (hN4 : N ≤ 10000)
    (hreg : cfg.reg = (N : Int))
    (hsc : scfg.reg = cfg.reg ∧ scfg.pdu = cfg.pdu ∧ scfg.svc = cfg.svc ∧ scfg.rel = cfg.rel ∧ scfg.dereg = cfg.dereg ∧
      scfg.hist = false)
    (himsi : scfg.imsi = cfg.imsi) (hd : DecimalImsi cfg.imsi) {w : Nat} (hw : w = 2 ∨ w = 3) (hmncl : cfg.mnc.length = w)
    (hmcc : scfg.mcc = cfg.imsi.take 3) (hmnc : scfg.mnc = (cfg.imsi.drop 3).take w) (hlen : 3 + w < cfg.imsi.length)
    (hfit : MsinFits cfg.imsi (3 + w) N)
    (h22 : 22 ≤ cfg.bitlength) (h32 : cfg.bitlength ≤ 32) (hg : cfg.gnbId.length = (cfg.bitlength + 7) / 8)
    (hc : Canonical cfg.gnbId cfg.bitlength) (hname : 1 ≤ cfg.name.length)
    (m : Bytes) (hplmn : Model.Suci.ngSetupPlmn cfg.imsi cfg.mnc.length = .ok m) (hm : m.length = 3)
    (hcfg : Spec.Amf.plmnOf scfg = some m)
    (s1 s2 s3 : UInt8) (hsd : E.hexDecode cfg.sd = ([s1, s2, s3], false)) (hgtp : cls E .ip (.str cfg.gnbGtp) = 2)
    -- registration
    (d1 : Bytes) (v1 : Aper.Val) (hdec1 : ngapDecode (d1.take 2048) = .ok v1)
    (chf : Nat → Spec.Amf.Choice) (akaf : Nat → Spec.Ts33501A.Aka) (dn : Nat → Bytes × Bytes × Bytes × Bytes)
    (keysf : Nat → Model.KeyDerivation.UeKeys)
    (hch : ∀ j, j < N → chs[j]? = some (chf j)) (hvec : ∀ j, j < N → Spec.Amf.vector P scfg j (chf j) = some (akaf j))
    (hamf : ∀ j, j < N → (chf j).amfUeNgapId < 2 ^ 40)
    (hD : ∀ j, j < N → DlReads P cfg (createUE cfg j) (dn j).1 (dn j).2.1 (dn j).2.2.1 (dn j).2.2.2 (chf j).amfUeNgapId (keysf j)
      (createUE cfg j))
    (hkeys : ∀ j, j < N → (keysf j).resStar = (akaf j).resStar ∧ (keysf j).knasEnc = (akaf j).knasEnc ∧
      (keysf j).knasInt = (akaf j).knasInt)
    -- after registration
    (est svc rel der : Nat) (hest : est = min N cfg.pdu.toNat) (hsvc : svc = min est cfg.svc.toNat)
    (hrel : rel = min est cfg.rel.toNat) (hder : der = min N cfg.dereg.toNat)
    (de ds : Nat → Bytes) (dd : Nat → Bytes × Bytes) (msgE msgS m1 m2 : Nat → Aper.Val)
    (hdecE : ∀ j, j < est → ngapDecode ((de j).take 2048) = .ok (msgE j))
    (hrepE : ∀ j, j < est → extractReport (msgE j) = .ok { ip := (chf j).ueIp, teid := (chf j).teid, upf := (chf j).upfIp })
    (hdecS : ∀ j, j < svc → ngapDecode ((ds j).take 2048) = .ok (msgS j))
    (hdecD1 : ∀ j, j < der → ngapDecode ((dd j).1.take 2048) = .ok (m1 j))
    (hdecD2 : ∀ j, j < der → ngapDecode ((dd j).2.take 2048) = .ok (m2 j)) :
    let t := emulate P E cfg (lifeDls d1 dn de ds dd N est svc der)
    t.outcome = .completed ∧
    Spec.Amf.judge P true scfg chs t.uls (some (t.reports.map fun r => { ip := r.ip, teid := r.teid, upf := r.upf }))
      (t.outcome == .completed) = .accept := by
  obtain ⟨hs1, hs2, hs3, hs4, hs5, hs6⟩ := hsc
  have hN : Spec.Amf.subscribers scfg = N := by simp [Spec.Amf.subscribers, hs1, hreg]
  have hpop : PopOK cfg E N m chf := ⟨hd, hN4, msinFits_fits hd hfit, hm, hamf, hgtp⟩
  have hestN : est ≤ N := by omega
  have hsvcN : svc ≤ N := by omega
  have hrelN : rel ≤ N := by omega
  have hderN : der ≤ N := by omega
  -- the loop bounds
  have hnum := C02_numbers_are_min (countsOf cfg)
  have hregs : (genRegistrations (countsOf cfg)).toNat = N := by rw [(genNumbers_eq (countsOf cfg)).2]; simp [countsOf, hreg]
  have hb1 : (genNumbers (countsOf cfg)).establish.toNat = est := by
    rw [hnum.1, hest]; show min cfg.reg.toNat cfg.pdu.toNat = _; rw [hreg, Int.toNat_natCast]
  have hb2 : (genNumbers (countsOf cfg)).service.toNat = svc := by
    rw [hnum.2.1, hb1, hsvc]; rfl
  have hb3 : (genNumbers (countsOf cfg)).release.toNat = rel := by
    rw [hnum.2.2.1, hb1, hrel]; rfl
  have hb4 : (genNumbers (countsOf cfg)).deregister.toNat = der := by
    rw [hnum.2.2.2, hder]; show min cfg.reg.toNat cfg.dereg.toNat = _; rw [hreg, Int.toNat_natCast]
  -- NG Setup
  obtain ⟨b1, hrun1, hstep1⟩ := C01_step_ng_setup_request P scfg chs {} 0 E [] cfg.gnbId m cfg.name (cfg.bitlength : Int) hm
    (by exact_mod_cast h22) (by exact_mod_cast h32) (by simpa using hg) (by simpa using hc) hname hcfg rfl
  have hsetup := manageNGSetup_run E cfg { dls := lifeDls d1 dn de ds dd N est svc der } m b1 d1 _ v1 hplmn hrun1 rfl hdec1
  have hJ1 : Judged P scfg chs { dls := dlsOf dn 0 N ++ ((List.range est).map de ++ ((List.range svc).map ds ++
      (List.range der).flatMap fun j => [(dd j).1, (dd j).2])), ulsRev := [b1], plmn := m } (regSt (usOf cfg chf akaf 0)) := by
    show Spec.Amf.run P true scfg chs {} 0 [b1] = _
    rw [run_clean_step P true scfg chs {} 0 b1 _ rfl (by rw [hstep1]), hstep1, run_nil]
    rfl
  -- the registration loop
  obtain ⟨w2, secf2, hloopR, hdls2, hplmn2, hrp2, hJ2, hlive2⟩ := register_loop P hP hH cfg scfg chs E N hN hN4 himsi hd hw hmncl hmcc hmnc
    hlen hfit m hm chf akaf dn keysf hch hvec hamf hD hkeys N 0 [] _ _ (by omega) rfl rfl hJ1
  simp only [Nat.zero_add, List.nil_append] at hloopR hJ2 hlive2
  have hlist : ((List.range' 0 N).map fun j => mkUe cfg chf (fun j => (keysf j).kamf) j (secf2 j)) =
      ueList N (mkUe cfg chf fun j => (keysf j).kamf) secf2 := by
    simp [ueList, List.range_eq_range']
  rw [hlist] at hloopR
  have hG2 : Glob cfg chf N 0 (regSt (usOf cfg chf akaf N)) (u0 cfg chf akaf) secf2 (fun _ => 1) :=
    { clean := rfl, setup := rfl, ues := rfl,
      idj := fun j _ => ⟨rfl, (ranOf_eq cfg j).symm⟩,
      per := fun j _ hj => ⟨rfl, hlive2 j (Nat.zero_le j) hj, rfl, .inl rfl⟩ }
  -- establishment
  obtain ⟨w3, secf3, st3, uf3, cf3, hloopE, hplmn3, hdls3, hJ3, hG3, hsess3, hcf3, hE3, hV3, hR3, hD3, hRP3⟩ :=
    proc_loop P hP scfg chs hpop s1 s2 s3 (mkUe cfg chf fun j => (keysf j).kamf) (mkUe_sec cfg chf _) .establish
      (establishPDU P E cfg) est hestN (fun i => [de i])
      (fun i => [({ ip := (chf i).ueIp, teid := (chf i).teid, upf := (chf i).upfIp } : Report)])
      (est_emul P E hpop s1 s2 s3 hsd _ de msgE _ est hestN hdecE hrepE)
      (fun _ => .none) (fun _ => .established) (fun _ _ => rfl) 1 (by decide) _ w2 secf2 _ _ _ hplmn2
      (by rw [hdls2, flatMap_single]) hJ2 hG2 (fun _ _ => rfl) (fun _ _ => Nat.le_refl 1)
  -- service requests
  have hS2 : ∀ j, j < svc → sessAfter (if j < est then Spec.Amf.Sess.established else .none) .service = some .established := by
    intro j hj; rw [if_pos (by omega)]; rfl
  obtain ⟨w4, secf4, st4, uf4, cf4, hloopS, hplmn4, hdls4, hJ4, hG4, hsess4, hcf4, hE4, hV4, hR4, hD4, hRP4⟩ :=
    proc_loop P hP scfg chs hpop s1 s2 s3 (mkUe cfg chf fun j => (keysf j).kamf) (mkUe_sec cfg chf _) .service
      (serviceRequest P E cfg) svc hsvcN (fun i => [ds i]) (fun _ => [])
      (svc_emul P E hpop s1 s2 s3 _ ds msgS svc hsvcN hdecS)
      (fun j => if j < est then .established else .none) (fun _ => .established) hS2 2 (by decide) _ w3 secf3 st3 uf3 cf3 hplmn3
      (by rw [hdls3, flatMap_single]) hJ3 hG3 hsess3 hcf3
  -- releases
  have hS3 : ∀ j, j < rel → sessAfter (if j < svc then Spec.Amf.Sess.established else if j < est then .established else .none)
      .release = some .released := by
    intro j hj
    by_cases h1 : j < svc
    · rw [if_pos h1]; rfl
    · rw [if_neg h1, if_pos (by omega)]; rfl
  obtain ⟨w5, secf5, st5, uf5, cf5, hloopL, hplmn5, hdls5, hJ5, hG5, hsess5, hcf5, hE5, hV5, hR5, hD5, hRP5⟩ :=
    proc_loop P hP scfg chs hpop s1 s2 s3 (mkUe cfg chf fun j => (keysf j).kamf) (mkUe_sec cfg chf _) .release
      (releasePDU P E cfg) rel hrelN (fun _ => []) (fun _ => [])
      (rel_emul P E hpop s1 s2 s3 hsd _ rel hrelN)
      (fun j => if j < svc then .established else if j < est then .established else .none) (fun _ => .released) hS3 3 (by decide)
      _ w4 secf4 st4 uf4 cf4 hplmn4 (by rw [hdls4, flatMap_nil']; rfl) hJ4 hG4 hsess4 hcf4
  -- de-registrations
  have hd' : DecimalImsi scfg.imsi := by rw [himsi]; exact hd
  have hsuci : ∀ i, i < der → ∃ suci, Model.Suci.encodeSuci (Model.Suci.trimImsiPrefix (createUE cfg i).ctx.supi) cfg.mnc.length = .ok suci ∧
      suci.length < 65536 ∧ Spec.Amf.suciIs scfg i suci = true := by
    intro i hi
    obtain ⟨suci, hsu, hslen, hsub⟩ := C01_subscriber_identified scfg hd' hw (by rw [himsi]; exact hmcc) (by rw [himsi]; exact hmnc)
      (by rw [himsi]; exact hlen) (by rw [himsi, hN]; exact hfit) (j := i) (by rw [hN]; omega) cfg.k cfg.opc cfg.op
    refine ⟨suci, ?_, ?_, by have := List.find?_some hsub; exact this⟩
    · rw [hmncl]
      have : (createUE cfg i).ctx = Model.UeIdentity.createUE scfg.imsi ((i : Nat) : Int) cfg.k cfg.opc cfg.op := by
        rw [himsi]; rfl
      rw [this]; exact hsu
    · have h18 := hd.short
      rw [himsi] at hslen
      omega
  obtain ⟨w6, secf6, st6, hloopD, hdls6, hJ6, hclean6, hE6, hV6, hR6, hD6, hRP6⟩ :=
    dereg_loop P hP scfg chs hpop (fun j => (keysf j).kamf) der hderN dd m1 m2 hdecD1 hdecD2 hsuci 5 (by decide) [] w5 secf5 st5 uf5 cf5
      hplmn5 (by rw [hdls5, List.append_nil]; rfl) hJ5 hG5 hcf5
  -- test mode as a whole
  have hrunall : testMode P E cfg { dls := lifeDls d1 dn de ds dd N est svc der } = (w6, .ok ()) := by
    unfold testMode
    simp only [Proofs.Emulator.bind_apply, hsetup, hregs, hb1, hb2, hb3, hb4]
    simp only [hloopR, hloopE, hloopS, hloopL, hloopD]
    rfl
  have huls : (emulate P E cfg (lifeDls d1 dn de ds dd N est svc der)).uls = w6.ulsRev.reverse := by
    unfold emulate; rw [hrunall]; rfl
  have hreps : (emulate P E cfg (lifeDls d1 dn de ds dd N est svc der)).reports = w6.reportsRev.reverse := by
    unfold emulate; rw [hrunall]; rfl
  have hout : (emulate P E cfg (lifeDls d1 dn de ds dd N est svc der)).outcome = .completed := by
    unfold emulate; rw [hrunall]; rfl
  refine ⟨hout, ?_⟩
  simp only [huls, hreps, hout]
  unfold Spec.Amf.judge Spec.Amf.clauses
  have hJ6' : Spec.Amf.run P true scfg chs {} 0 w6.ulsRev.reverse = st6 := hJ6
  rw [hJ6']
  -- the numbers
  have e1 : st6.established = List.range est := by rw [hE6, hE5, hE4, hE3]; simp [regSt]
  have e2 : st6.services = svc := by rw [hV6, hV5, hV4, hV3]; simp [regSt]
  have e3 : st6.releases = rel := by rw [hR6, hR5, hR4, hR3]; simp [regSt]
  have e4 : st6.deregs = der := by rw [hD6, hD5, hD4, hD3]; simp [regSt]
  have x1 : Spec.Amf.expectedEstablished scfg = est := by
    simp only [Spec.Amf.expectedEstablished, hs6, Bool.false_eq_true, if_false, natMin_eq, hs1, hs2, hreg, Int.toNat_natCast]
    exact hest.symm
  have x2 : Spec.Amf.expectedServices scfg = svc := by
    simp only [Spec.Amf.expectedServices, x1, natMin_eq, hs3, Int.toNat_natCast]; exact hsvc.symm
  have x3 : Spec.Amf.expectedReleases scfg = rel := by
    simp only [Spec.Amf.expectedReleases, x1, natMin_eq, hs4, Int.toNat_natCast]; exact hrel.symm
  have x4 : Spec.Amf.expectedDeregs scfg = der := by
    simp only [Spec.Amf.expectedDeregs, natMin_eq, hs1, hs5, hreg, Int.toNat_natCast]; exact hder.symm
  have hrepsEq : w6.reportsRev.reverse = (List.range est).map fun i =>
      ({ ip := (chf i).ueIp, teid := (chf i).teid, upf := (chf i).upfIp } : Report) := by
    rw [hRP6, hRP5, hRP4, hRP3, hrp2]
    simp [flatMap_single, flatMap_nil']
  have hbeq : (Outcome.completed == Outcome.completed) = true := rfl
  rw [hbeq, finish_clean scfg chs st6 _ _ hclean6 (by rw [e1, x1]; simp) (by rw [e2, x2]) (by rw [e3, x3]) (by rw [e4, x4]) ?_]
  · rfl
  · intro rs hrs
    cases hrs
    rw [hrepsEq, e1, List.map_map]
    clear * - hch hestN
    induction est with
    | zero => rfl
    | succ n ih =>
      rw [List.range_succ, List.map_append, List.filterMap_append, ← ih (by omega)]
      simp [hch n (by omega)]

/-- what the emulator's decoder makes of a downlink message (`.nil` if it does not decode) -/
def decOr (b : Bytes) : Aper.Val :=
  match ngapDecode (b.take 2048) with
  | .ok v => v
  | .error _ => .nil

theorem decOr_of {b : Bytes} {v : Aper.Val} (h : ngapDecode (b.take 2048) = .ok v) : decOr b = v := by
  unfold decOr; rw [h]

/-- the DL NAS COUNT of the Deregistration Accept for UE `j`: 0, 1, 2 were used during registration, one more for the PDU SESSION
    ESTABLISHMENT ACCEPT and one for the SERVICE ACCEPT if `j` had them -/
def deregDlCount (est svc j : Nat) : Nat := 3 + (if j < est then 1 else 0) + (if j < svc then 1 else 0)

/-- **C02_accepted_n.** The statement of C02 (`C02_accepted_statement`) for `N ≤ 10 000` UEs and ANY repetition counts, with the
    downlink side SPECIFIED: for every well-formed configuration (as in `C01_accepted_n`; `Test_ue_registation` = N; the other four
    counts any integers; S-NSSAI SD of three octets; a gNB GTP address the builders accept) and every choice of a conformant
    AMF/SMF for every UE (RAND of 16 octets, SQN of 6, AMF field of 2, any ngKSI, AMF-UE-NGAP-ID below 2^40, IPv4 UE and UPF addresses,
    TEID below 2^32), when the AMF sends — all built with the SPECIFICATION encoders only, each within the 2048-octet receive buffer —
      the NG SETUP RESPONSE; for UE 0 … N−1 the four messages of `Spec.AmfDl.dl`;
      for UE 0 … est−1 (`est = min(N, pdu)`) `Spec.AmfDl.dlEstablish` for the PSI `(supi+14) mod 15 + 1` and PTI 1 of the request, DL NAS COUNT 3;
      for UE 0 … min(est, svc)−1 `Spec.AmfDl.dlService` (DL NAS COUNT 4, K_gNB of UL NAS COUNT 3);
      (nothing for the releases;) for UE 0 … min(N, dereg)−1 the two messages of `Spec.AmfDl.dlDeregister`,
    the emulator completes and the reference AMF/SMF ACCEPTS its whole transcript (C02 clauses: ids, one PSI, PTI, prerequisites,
    NAS COUNT and MAC per UE; the expected numbers of procedures; reported = assigned):
      judge true (emulate cfg dls).uls (some reports) = accept. -/
theorem C02_accepted_n (P : Prims) (hP : PrimsOk P) (hE : BlockCipher P.aes) (hH : MacLen P.hmac) (cfg : Cfg) (scfg : Spec.Amf.Cfg)
    (chs : List Spec.Amf.Choice) (E : Model.Convert.Ext) (N : Nat) (hN4 : N ≤ 10000)
    (hreg : cfg.reg = (N : Int))
    (hsc : scfg.reg = cfg.reg ∧ scfg.pdu = cfg.pdu ∧ scfg.svc = cfg.svc ∧ scfg.rel = cfg.rel ∧ scfg.dereg = cfg.dereg ∧
      scfg.hist = false)
    (himsi : scfg.imsi = cfg.imsi) (hd : DecimalImsi cfg.imsi) (h5 : 5 ≤ cfg.imsi.length) (h15 : cfg.imsi.length ≤ 15)
    {w : Nat} (hw : w = 2 ∨ w = 3) (hmncl : cfg.mnc.length = w) (hmcc3 : cfg.mcc.length = 3)
    (hmccB : scfg.mcc = cfg.mcc) (hmncB : scfg.mnc = cfg.mnc)
    (hmcc : scfg.mcc = cfg.imsi.take 3) (hmnc : scfg.mnc = (cfg.imsi.drop 3).take w) (hlen : 3 + w < cfg.imsi.length)
    (hfit : MsinFits cfg.imsi (3 + w) N)
    (h22 : 22 ≤ cfg.bitlength) (h32 : cfg.bitlength ≤ 32) (hg : cfg.gnbId.length = (cfg.bitlength + 7) / 8)
    (hc : Canonical cfg.gnbId cfg.bitlength) (hname : 1 ≤ cfg.name.length)
    (m : Bytes) (hplmn : Model.Suci.ngSetupPlmn cfg.imsi cfg.mnc.length = .ok m) (hm : m.length = 3)
    (hcfg : Spec.Amf.plmnOf scfg = some m)
    (k opc : Bytes) (hk : hexDecode cfg.k = some k) (hk' : Spec.Amf.hexText scfg.k = some k) (hk16 : k.length = 16)
    (hopcne : cfg.opc ≠ []) (hopc : hexDecode cfg.opc = some opc) (hopc' : Spec.Amf.opcOf P scfg = some opc)
    (hopc16 : opc.length = 16) (habba : 2 ≤ scfg.abba.length ∧ scfg.abba.length < 256)
    (s1 s2 s3 : UInt8) (hsd : E.hexDecode cfg.sd = ([s1, s2, s3], false)) (hgtp : cls E .ip (.str cfg.gnbGtp) = 2)
    -- the AMF's choices, one per UE
    (chf : Nat → Spec.Amf.Choice) (hch : ∀ j, j < N → chs[j]? = some (chf j))
    (hchWF : ∀ j, j < N → (chf j).amfUeNgapId < 2 ^ 40 ∧ (chf j).rand.length = 16 ∧ (chf j).sqn.length = 6 ∧ (chf j).amf.length = 2 ∧
      (chf j).ueIp.length = 4 ∧ (chf j).upfIp.length = 4 ∧ (chf j).teid < 2 ^ 32)
    -- the numbers of procedures
    (est svc rel der : Nat) (hest : est = min N cfg.pdu.toNat) (hsvc : svc = min est cfg.svc.toNat)
    (hrel : rel = min est cfg.rel.toNat) (hder : der = min N cfg.dereg.toNat)
    -- the downlink messages are those of the specification
    (caps : Nat → Bytes) (d1 : Bytes) (dn : Nat → Bytes × Bytes × Bytes × Bytes) (de ds : Nat → Bytes) (dd : Nat → Bytes × Bytes)
    (hd1 : Spec.AmfDl.ngap (Spec.AmfDl.ngSetupResponse m) = some d1) (hb1 : d1.length ≤ 2048)
    (hdl : ∀ j, j < N → Spec.AmfDl.dl P scfg j (chf j) (createUE cfg j).ctx.ranUeNgapId (caps j) =
      some [d1, (dn j).1, (dn j).2.1, (dn j).2.2.1, (dn j).2.2.2])
    (hbuf : ∀ j, j < N → (dn j).1.length ≤ 2048 ∧ (dn j).2.1.length ≤ 2048 ∧ (dn j).2.2.1.length ≤ 2048 ∧ (dn j).2.2.2.length ≤ 2048)
    (hdE : ∀ j, j < est → Spec.AmfDl.dlEstablish P scfg j (chf j) (createUE cfg j).ctx.ranUeNgapId
      (pduIdOf ((Model.UeIdentity.decVal cfg.imsi + j : Nat) : Int)).toNat 1 3 = some (de j) ∧ (de j).length ≤ 2048)
    (hdS : ∀ j, j < svc → Spec.AmfDl.dlService P scfg j (chf j) (createUE cfg j).ctx.ranUeNgapId
      (pduIdOf ((Model.UeIdentity.decVal cfg.imsi + j : Nat) : Int)).toNat 3 4 = some (ds j) ∧ (ds j).length ≤ 2048)
    (hdD : ∀ j, j < der → Spec.AmfDl.dlDeregister P scfg j (chf j) (createUE cfg j).ctx.ranUeNgapId (deregDlCount est svc j) =
      some (dd j) ∧ (dd j).1.length ≤ 2048 ∧ (dd j).2.length ≤ 2048) :
    let t := emulate P E cfg (lifeDls d1 dn de ds dd N est svc der)
    t.outcome = .completed ∧
    Spec.Amf.judge P true scfg chs t.uls (some (t.reports.map fun r => { ip := r.ip, teid := r.teid, upf := r.upf }))
      (t.outcome == .completed) = .accept := by
  have hFits := msinFits_fits hd hfit
  unfold Fits at hFits
  have hpop : PopOK cfg E N m chf := ⟨hd, hN4, msinFits_fits hd hfit, hm, fun j hj => (hchWF j hj).1, hgtp⟩
  -- per UE: the vector, the keys, the reads of registration
  have hper : ∀ j, j < N → ∃ aka keys, Spec.Amf.vector P scfg j (chf j) = some aka ∧
      Nonempty (DlReads P cfg (createUE cfg j) (dn j).1 (dn j).2.1 (dn j).2.2.1 (dn j).2.2.2 (chf j).amfUeNgapId keys (createUE cfg j)) ∧
      keys.resStar = aka.resStar ∧ keys.knasEnc = aka.knasEnc ∧ keys.knasInt = aka.knasInt := by
    intro j hj
    obtain ⟨ha, hr, hs, hf, _⟩ := hchWF j hj
    obtain ⟨hbb2, hbb3, hbb4, hbb5⟩ := hbuf j hj
    obtain ⟨x1, x2, x3, x4, x5, aka, keys, v1, heq, hvec, _, _, hD, hk1, hk2, hk3⟩ := C01_dlReads_of_spec P hE hH cfg scfg himsi hd h5 h15
      hmcc3 (by rw [hmncl]; exact hw) hmccB hmncB m hm hcfg k opc hk hk' hk16 hopcne hopc hopc' hopc16 habba j (by omega) (chf j) ha hr hs hf
      (caps j) _ (hdl j hj) (by
        intro d hdm
        simp only [List.mem_cons, List.not_mem_nil, or_false] at hdm
        rcases hdm with rfl | rfl | rfl | rfl | rfl <;> assumption)
    simp only [List.cons.injEq, and_true] at heq
    obtain ⟨_, rfl, rfl, rfl, rfl⟩ := heq
    exact ⟨aka, keys, hvec, hD, hk1, hk2, hk3⟩
  let akaf : Nat → Spec.Ts33501A.Aka := fun j =>
    if h : j < N then Classical.choose (hper j h) else ⟨[], [], [], [], [], []⟩
  let keysf : Nat → Model.KeyDerivation.UeKeys := fun j =>
    if h : j < N then Classical.choose (Classical.choose_spec (hper j h)) else ⟨[], [], [], []⟩
  have hspec : ∀ j (h : j < N), Spec.Amf.vector P scfg j (chf j) = some (akaf j) ∧
      Nonempty (DlReads P cfg (createUE cfg j) (dn j).1 (dn j).2.1 (dn j).2.2.1 (dn j).2.2.2 (chf j).amfUeNgapId (keysf j)
        (createUE cfg j)) ∧
      (keysf j).resStar = (akaf j).resStar ∧ (keysf j).knasEnc = (akaf j).knasEnc ∧ (keysf j).knasInt = (akaf j).knasInt := by
    intro j h
    simp only [akaf, keysf, dif_pos h]
    exact Classical.choose_spec (Classical.choose_spec (hper j h))
  obtain ⟨x1, hx1, hdec1⟩ := Proofs.EmulatorDownlink.ngsr_roundtrip m hm
  have : x1 = d1 := Option.some.inj (hx1.symm.trans hd1)
  subst this
  -- identifiers of UE j
  have hids : ∀ j, j < N → (0 : Int) ≤ (chf j).amfUeNgapId ∧ ((chf j).amfUeNgapId : Int) < 2 ^ 40 ∧
      0 ≤ (createUE cfg j).ctx.ranUeNgapId ∧ (createUE cfg j).ctx.ranUeNgapId < 2 ^ 32 := fun j hj =>
    ⟨Int.natCast_nonneg _, by exact_mod_cast (hchWF j hj).1, ran_range cfg hd j (hpop.j62 j hj)⟩
  have hestN : est ≤ N := by omega
  have hsvcN : svc ≤ N := by omega
  have hderN : der ≤ N := by omega
  -- the later downlink messages: decodable, and the setup request yields the assigned triple
  have hE' : ∀ j, j < est → ngapDecode ((de j).take 2048) = .ok (decOr (de j)) ∧
      extractReport (decOr (de j)) = .ok { ip := (chf j).ueIp, teid := (chf j).teid, upf := (chf j).upfIp } := by
    intro j hj
    have hjN : j < N := by omega
    obtain ⟨ha0, ha1, hr0, hr1⟩ := hids j hjN
    obtain ⟨_, _, _, _, hip, hupf, hteid⟩ := hchWF j hjN
    obtain ⟨_, _, _, hp1, hp15⟩ := psiOf_facts hpop j hjN
    unfold psiOf at hp1 hp15
    obtain ⟨hdEj, hbE⟩ := hdE j hj
    obtain ⟨nE, hnE, hngE⟩ := dlEstablish_some P scfg j (chf j) _ _ 1 3 (de j) (akaf j) (hspec j hjN).1 hdEj
    have hpsi255 : (((pduIdOf ((Model.UeIdentity.decVal cfg.imsi + j : Nat) : Int)).toNat : Nat) : Int) ≤ 255 := by
      have := Nat.le_trans hp15 (by decide : 15 ≤ 255)
      exact_mod_cast this
    obtain ⟨xE, hxE, hdecE⟩ := setupReq_roundtrip (chf j).amfUeNgapId (createUE cfg j).ctx.ranUeNgapId
      (((pduIdOf ((Model.UeIdentity.decVal cfg.imsi + j : Nat) : Int)).toNat : Nat) : Int) nE
      (Spec.AmfDl.setupTransfer (chf j).upfIp (chf j).teid).encode ha0 ha1 hr0 hr1 (Int.natCast_nonneg _) hpsi255
    have : xE = de j := Option.some.inj (hxE.symm.trans hngE)
    rw [this] at hdecE
    rw [← take2048 _ hbE] at hdecE
    have hdec := hdecE
    rw [decOr_of hdec]
    exact ⟨hdec, extractReport_spec P hP (Spec.AmfDl.ctxOf (akaf j)) rfl rfl 3 _ 1 (chf j).ueIp (chf j).upfIp (chf j).teid hip hupf hteid
      _ _ _ nE hnE⟩
  have hS' : ∀ j, j < svc → ngapDecode ((ds j).take 2048) = .ok (decOr (ds j)) := by
    intro j hj
    have hjN : j < N := by omega
    obtain ⟨ha0, ha1, hr0, hr1⟩ := hids j hjN
    obtain ⟨hdSj, hbS⟩ := hdS j hj
    obtain ⟨nS, hngS⟩ := dlService_some P scfg j (chf j) _ _ 3 4 (ds j) (akaf j) (hspec j hjN).1 m hcfg hdSj
    obtain ⟨xS, hxS, hdecS⟩ := icsReq_roundtrip m hm (chf j).amfUeNgapId (createUE cfg j).ctx.ranUeNgapId
      (Spec.AmfDl.kgnbAt P (akaf j).kamf 3) nS ha0 ha1 hr0 hr1 (by unfold Spec.AmfDl.kgnbAt Spec.Ts33501A.kdf; exact hH _ _)
    have : xS = ds j := Option.some.inj (hxS.symm.trans hngS)
    rw [this] at hdecS
    rw [← take2048 _ hbS] at hdecS
    rw [decOr_of hdecS]; exact hdecS
  have hD' : ∀ j, j < der → ngapDecode ((dd j).1.take 2048) = .ok (decOr (dd j).1) ∧
      ngapDecode ((dd j).2.take 2048) = .ok (decOr (dd j).2) := by
    intro j hj
    have hjN : j < N := by omega
    obtain ⟨ha0, ha1, hr0, hr1⟩ := hids j hjN
    obtain ⟨hdDj, hbD1, hbD2⟩ := hdD j hj
    obtain ⟨nD, hngD1, hngD2⟩ := dlDeregister_some P scfg j (chf j) _ _ (dd j).1 (dd j).2 hdDj
    obtain ⟨xD1, hxD1, hdecD1⟩ := dnt_roundtrip (chf j).amfUeNgapId (createUE cfg j).ctx.ranUeNgapId nD ha0 ha1 hr0 hr1
    have e1 : xD1 = (dd j).1 := Option.some.inj (hxD1.symm.trans hngD1)
    rw [e1] at hdecD1
    obtain ⟨xD2, hxD2, hdecD2⟩ := ueCtxRel_roundtrip (chf j).amfUeNgapId (createUE cfg j).ctx.ranUeNgapId ha0 ha1 hr0 hr1
    have e2 : xD2 = (dd j).2 := Option.some.inj (hxD2.symm.trans hngD2)
    rw [e2] at hdecD2
    rw [← take2048 _ hbD1] at hdecD1
    rw [← take2048 _ hbD2] at hdecD2
    rw [decOr_of hdecD1, decOr_of hdecD2]; exact ⟨hdecD1, hdecD2⟩
  exact C02_accepted_n_for_downlink P hP hH cfg scfg chs E N hN4 hreg hsc himsi hd hw hmncl hmcc hmnc hlen hfit h22 h32 hg hc hname
    m hplmn hm hcfg s1 s2 s3 hsd hgtp x1 _ (by rw [take2048 _ hb1]; exact hdec1) chf akaf dn keysf hch (fun j h => (hspec j h).1)
    (fun j h => (hchWF j h).1) (fun j h => Classical.choice (hspec j h).2.1) (fun j h => (hspec j h).2.2)
    est svc rel der hest hsvc hrel hder de ds dd (fun j => decOr (de j)) (fun j => decOr (ds j)) (fun j => decOr (dd j).1)
    (fun j => decOr (dd j).2) (fun j h => (hE' j h).1) (fun j h => (hE' j h).2) hS' (fun j h => (hD' j h).1) (fun j h => (hD' j h).2)

open Stgutg.Proofs.EmulatorWitness in
set_option maxRecDepth 1000000 in
/-- the downlink hypotheses of `C02_accepted_one` / `C02_accepted_n` beyond those of `C01_accepted_n` are satisfiable: for the
    configuration and choice of the recorded registration (RAN-UE-NGAP-ID 6, PDU session identity 11; `cheapPrims` satisfy the
    hypotheses on primitives: `cheapPrims_ok`) the specification encoders produce the setup request, the INITIAL CONTEXT SETUP
    REQUEST with the Service Accept, and the two messages of de-registration, all within the receive buffer, and the assigned
    addresses / TEID are in range. (That `C02_accepted_n_for_downlink`'s reading hypotheses are satisfiable is what
    `C02_accepted_n` shows: it derives them from these messages. The evaluated end-to-end witness is `C02_accepted_witness`.) -/
example : (match reg1Choices.head? with
    | some ch =>
      (match Spec.AmfDl.dlEstablish cheapPrims (specOf reg1Cfg reg1Abba) 0 ch 6 11 1 3,
             Spec.AmfDl.dlService cheapPrims (specOf reg1Cfg reg1Abba) 0 ch 6 11 3 4,
             Spec.AmfDl.dlDeregister cheapPrims (specOf reg1Cfg reg1Abba) 0 ch 6 (deregDlCount 1 1 0) with
       | some dE, some dS, some (dD1, dD2) =>
         decide (dE.length ≤ 2048) && decide (dS.length ≤ 2048) && decide (dD1.length ≤ 2048) && decide (dD2.length ≤ 2048) &&
         decide (ch.ueIp.length = 4) && decide (ch.upfIp.length = 4) && decide (ch.teid < 2 ^ 32)
       | _, _, _ => false)
    | none => false) = true := by decide +kernel

/-- … and the identifiers the example uses are the emulator's: `CreateUE` gives the first UE of that configuration the
    RAN-UE-NGAP-ID 6 and the procedures compute the PDU session identity 11 -/
example : (createUE Proofs.EmulatorWitness.reg1Cfg 0).ctx.ranUeNgapId = 6 ∧
    (pduIdOf ((Model.UeIdentity.decVal Proofs.EmulatorWitness.reg1Cfg.imsi + 0 : Nat) : Int)).toNat = 11 := by decide +kernel

/-- the clamps of the statement for counts above, below and at N, negative and zero: N = 3, pdu = 5, svc = 2, rel = 7, dereg = −1
    give est = 3, svc = 2, rel = 3, der = 0 -/
example : min 3 (5 : Int).toNat = 3 ∧ min 3 (2 : Int).toNat = 2 ∧ min 3 (7 : Int).toNat = 3 ∧ min 3 (-1 : Int).toNat = 0 := by decide

end Stgutg.Props.C02
