/-
  C11 — subscriber and PLMN identities are encoded per TS 24.501 / TS 38.413.
  Property theorems only; helper lemmas live in Stgutg/Proofs/Suci.lean.

  Digits are `Nat`s below 10; `asc ds` is the ASCII text the Go code receives. `ValidImsi mcc mnc msin` (defined in
  Proofs/Suci.lean): 3-digit MCC, 2- or 3-digit MNC, MSIN of at least one digit, every digit below 10.
  Models: Model/Suci.lean (EncodeSuci, the NG Setup PLMN, the builders' copies), Model/Convert.lean (PlmnIDToNas).
  Specification: Spec/Ts24501Identity.lean (figure 9.11.3.4.3 with an independent decoder, the 3-octet PLMN).
-/
import Stgutg.Proofs.Suci

namespace Stgutg.Props.C11
open Stgutg Stgutg.Proofs.Suci

/-- the hypotheses are satisfiable: the shipped configuration 001/01 and a 3-digit-MNC IMSI with an odd MSIN -/
example : ValidImsi [0, 0, 1] [0, 1] [0, 0, 0, 0, 0, 0, 0, 0, 0, 1] := ⟨rfl, .inl rfl, by decide, by decide⟩
example : ValidImsi [3, 1, 0] [4, 1, 0] [1, 2, 3, 4, 5, 6, 7, 8, 9] := ⟨rfl, .inr rfl, by decide, by decide⟩

/-- **C11, SUCI.** For every MCC, every 2- or 3-digit MNC and every MSIN (odd or even length) the mobile identity
    built by `EncodeSuci` is read by the independent TS 24.501 9.11.3.4 decoder as the null-scheme SUCI of exactly
    that IMSI: same MCC, MNC and MSIN, routing indicator 0, protection scheme 0, home network key identifier 0. -/
theorem C11_suci {mcc mnc msin : List Nat} (h : ValidImsi mcc mnc msin) :
    ∃ buf, Model.Suci.encodeSuci (asc (mcc ++ mnc ++ msin)) (mnc.length : Int) = .ok buf ∧
      Spec.Identity.decodeSuci buf = some (Spec.Identity.nullSchemeSuci mcc mnc msin) :=
  suci_decodes h

/-- **C11, SUCI = the figure's encoding.** The same buffer is what the specification's own encoder produces. -/
theorem C11_suci_is_spec_encoding {mcc mnc msin : List Nat} (h : ValidImsi mcc mnc msin) :
    ∃ buf, Model.Suci.encodeSuci (asc (mcc ++ mnc ++ msin)) (mnc.length : Int) = .ok buf ∧
      Spec.Identity.encodeSuci (Spec.Identity.nullSchemeSuci mcc mnc msin) = some buf := by
  obtain ⟨o5, o6, o7, hp, hb⟩ := suci_buffer h
  refine ⟨_, hb, ?_⟩
  have hm : Spec.Identity.allDigits msin = true := by
    simp only [Spec.Identity.allDigits, List.all_eq_true, Spec.Identity.isDigit, decide_eq_true_eq]
    exact fun d hd => h.digits d (by simp [hd])
  have hne : (!msin.isEmpty) = true := by
    have := h.msin1
    cases msin <;> simp_all
  have h0 : Spec.Identity.octet 15 0 = 0xf0 ∧ Spec.Identity.octet 15 15 = 0xff ∧ Spec.Identity.octet 0 0 = 0 := by decide
  have hr : Spec.Identity.allDigits [0] = true := by decide
  simp only [Spec.Identity.encodeSuci, Spec.Identity.nullSchemeSuci, hp, Spec.Identity.routingEncode, hm, hne, hr,
    h0.1, h0.2.1, h0.2.2]
  rfl

/-- **C11, NG Setup PLMN.** The PLMN identity `ManageNGSetup` announces — octets 1..3 of the SUCI buffer of the
    configured IMSI, given with or without the "imsi-" prefix — is the 3-octet PLMN encoding of its MCC and MNC. -/
theorem C11_plmn_ngsetup {mcc mnc msin : List Nat} (h : ValidImsi mcc mnc msin) (withPrefix : Bool) :
    ∃ p, Spec.Identity.plmn3 mcc mnc = some p ∧
      Model.Suci.ngSetupPlmn ((if withPrefix then [105, 109, 115, 105, 45] else []) ++ asc (mcc ++ mnc ++ msin))
        (mnc.length : Int) = .ok p := by
  obtain ⟨o5, o6, o7, hp, hb⟩ := suci_buffer h
  refine ⟨_, hp, ?_⟩
  have htrim : Model.Suci.trimImsiPrefix ((if withPrefix then [105, 109, 115, 105, 45] else []) ++ asc (mcc ++ mnc ++ msin))
      = asc (mcc ++ mnc ++ msin) := by
    cases withPrefix
    · obtain ⟨h3, _, _, hd⟩ := h
      match mcc, h3 with
      | [c1, c2, c3], _ =>
        exact trim_digits c1 _ (hd c1 (by simp))
    · exact trim_prefix _
  unfold Model.Suci.ngSetupPlmn
  rw [htrim, hb]
  rfl

/-- **C11, agreement with the library.** `nasConvert.PlmnIDToNas` on the same MCC/MNC strings returns the same three
    octets: the NG Setup PLMN, the SUCI's PLMN octets and the library conversion agree. -/
theorem C11_plmn_agrees {mcc mnc msin : List Nat} (h : ValidImsi mcc mnc msin) :
    Model.Convert.plmnIDToNas (asc mcc) (asc mnc) =
      Model.Suci.ngSetupPlmn (asc (mcc ++ mnc ++ msin)) (mnc.length : Int) := by
  obtain ⟨p, hp, hn⟩ := C11_plmn_ngsetup h false
  simp only [Bool.false_eq_true, if_false, List.nil_append] at hn
  rw [hn]
  obtain ⟨h3, h23, _, hd⟩ := h
  match mcc, h3 with
  | [c1, c2, c3], _ =>
    have hc1 : c1 < 10 := hd c1 (by simp)
    have hc2 : c2 < 10 := hd c2 (by simp)
    have hc3 : c3 < 10 := hd c3 (by simp)
    rcases h23 with h2 | h3'
    · match mnc, h2 with
      | [n1, n2], _ =>
        have hn1 : n1 < 10 := hd n1 (by simp)
        have hn2 : n2 < 10 := hd n2 (by simp)
        have hall : (Spec.Identity.allDigits [c1, c2, c3] && Spec.Identity.allDigits [n1, n2]) = true := by
          simp [Spec.Identity.allDigits, Spec.Identity.isDigit, hc1, hc2, hc3, hn1, hn2]
        simp only [Spec.Identity.plmn3, hall, if_true] at hp
        injection hp with hp; subst hp
        show Model.Convert.plmnIDToNas [UInt8.ofNat (48 + c1), UInt8.ofNat (48 + c2), UInt8.ofNat (48 + c3)]
          [UInt8.ofNat (48 + n1), UInt8.ofNat (48 + n2)] = _
        unfold Model.Convert.plmnIDToNas
        dsimp only
        rw [atoi_digit hc1, atoi_digit hc2, atoi_digit hc3, atoi_digit hn1, atoi_digit hn2,
          nib_octet (by omega) (by omega), nib_octet (by omega) (by omega), nib_octet (by omega) (by omega)]
    · match mnc, h3' with
      | [n1, n2, n3], _ =>
        have hn1 : n1 < 10 := hd n1 (by simp)
        have hn2 : n2 < 10 := hd n2 (by simp)
        have hn3 : n3 < 10 := hd n3 (by simp)
        have hall : (Spec.Identity.allDigits [c1, c2, c3] && Spec.Identity.allDigits [n1, n2, n3]) = true := by
          simp [Spec.Identity.allDigits, Spec.Identity.isDigit, hc1, hc2, hc3, hn1, hn2, hn3]
        simp only [Spec.Identity.plmn3, hall, if_true] at hp
        injection hp with hp; subst hp
        show Model.Convert.plmnIDToNas [UInt8.ofNat (48 + c1), UInt8.ofNat (48 + c2), UInt8.ofNat (48 + c3)]
          [UInt8.ofNat (48 + n1), UInt8.ofNat (48 + n2), UInt8.ofNat (48 + n3)] = _
        unfold Model.Convert.plmnIDToNas
        dsimp only
        rw [atoi_digit hc1, atoi_digit hc2, atoi_digit hc3, atoi_digit hn1, atoi_digit hn2, atoi_digit hn3,
          nib_octet (by omega) (by omega), nib_octet (by omega) (by omega), nib_octet (by omega) (by omega)]

/-- **C11, user location.** After NG Setup every PLMN field the builders fill — Global gNB ID and broadcast PLMN of
    the NG Setup Request, NR-CGI and TAI of the user location information of later messages — is that same PLMN. -/
theorem C11_uli_same_plmn {mcc mnc msin : List Nat} (h : ValidImsi mcc mnc msin) :
    ∃ p, Spec.Identity.plmn3 mcc mnc = some p ∧
      Model.Suci.ngSetupFields (asc (mcc ++ mnc ++ msin)) (mnc.length : Int) =
        .ok { globalGnb := p, broadcast := p, uliNrCgi := p, uliTai := p } := by
  obtain ⟨p, hp, hn⟩ := C11_plmn_ngsetup h false
  simp only [Bool.false_eq_true, if_false, List.nil_append] at hn
  exact ⟨p, hp, by unfold Model.Suci.ngSetupFields; rw [hn]; rfl⟩

/-- **C11, read-back.** An independent reader of the three octets recovers the MCC and the MNC (and its length). -/
theorem C11_plmn_decodes (mcc mnc : List Nat) (p : Bytes) (h : Spec.Identity.plmn3 mcc mnc = some p) :
    Spec.Identity.plmn3Decode p = some (mcc, mnc) := plmn3Decode_plmn3 mcc mnc p h

/-! ### TS 38.413 9.3.3.5 read literally

    The property text treats "the TS 38.413 / TS 24.501 PLMN encoding" as one layout, and `plmn3` is the TS 24.501
    (TS 24.008) one. TS 38.413 9.3.3.5 read literally orders the six digits MCC1 MCC2 MCC3 MNC1 MNC2 MNC3, which puts
    MNC digit 1 (not 3) next to MCC digit 3. The two readings coincide for every 2-digit MNC and differ for a 3-digit MNC
    unless its three digits are equal. -/

theorem C11_ngap_literal_mnc2 (mcc mnc : List Nat) (hc : mcc.length = 3) (h : mnc.length = 2) :
    Spec.Identity.plmn3Ngap38413Literal mcc mnc = Spec.Identity.plmn3 mcc mnc := by
  match mcc, hc, mnc, h with
  | [c1, c2, c3], _, [n1, n2], _ => simp [Spec.Identity.plmn3Ngap38413Literal, Spec.Identity.plmn3]

theorem C11_ngap_literal_mnc3 (c1 c2 c3 n1 n2 n3 : Nat) (hd : ∀ d ∈ [c1, c2, c3, n1, n2, n3], d < 10) :
    Spec.Identity.plmn3Ngap38413Literal [c1, c2, c3] [n1, n2, n3] = Spec.Identity.plmn3 [c1, c2, c3] [n1, n2, n3]
      ↔ (n1 = n2 ∧ n2 = n3) := by
  have hc3 : c3 < 10 := hd c3 (by simp)
  have hn1 : n1 < 10 := hd n1 (by simp)
  have hn2 : n2 < 10 := hd n2 (by simp)
  have hn3 : n3 < 10 := hd n3 (by simp)
  have hall : (Spec.Identity.allDigits [c1, c2, c3] && Spec.Identity.allDigits [n1, n2, n3]) = true := by
    simp [Spec.Identity.allDigits, Spec.Identity.isDigit, hd c1, hd c2, hc3, hn1, hn2, hn3]
  simp only [Spec.Identity.plmn3Ngap38413Literal, Spec.Identity.plmn3, List.cons_append, List.nil_append, hall, if_true,
    Option.some.injEq, List.cons.injEq, and_true, true_and]
  constructor
  · rintro ⟨h2, h3⟩
    have a := octet_inj (by omega) (by omega) (by omega) (by omega) h2
    have b := octet_inj (by omega) (by omega) (by omega) (by omega) h3
    omega
  · rintro ⟨rfl, rfl⟩
    exact ⟨rfl, rfl⟩

/-- 310/410: TS 24.501 gives 13 00 14, the literal TS 38.413 order gives 13 40 01 -/
theorem C11_ngap_literal_differs_310_410 :
    Spec.Identity.plmn3 [3, 1, 0] [4, 1, 0] = some [0x13, 0x00, 0x14] ∧
    Spec.Identity.plmn3Ngap38413Literal [3, 1, 0] [4, 1, 0] = some [0x13, 0x40, 0x01] := by decide

end Stgutg.Props.C11
