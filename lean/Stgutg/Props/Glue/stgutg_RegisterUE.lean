/-
  Glue pin (see Spec/GluePinned.lean, harness/cmd/gen/procs.go): the function is still the text its model was written from.
  One module per function, so that an edit breaks the obligations of exactly the properties that list it.
-/
import Stgutg.Gen.Procs
import Stgutg.Spec.GluePinned

namespace Stgutg.Props.GluePinned

/-- `stgutg.RegisterUE` -/
theorem stgutg_RegisterUE : Gen.Procs.stgutg_RegisterUE = Spec.GluePinned.stgutg_RegisterUE := rfl

end Stgutg.Props.GluePinned
