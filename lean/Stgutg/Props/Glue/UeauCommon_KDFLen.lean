/-
  Glue pin (see Spec/GluePinned.lean, harness/cmd/gen/procs.go): the function is still the text its model was written from.
  One module per function, so that an edit breaks the obligations of exactly the properties that list it.
-/
import Stgutg.Gen.Procs
import Stgutg.Spec.GluePinned

namespace Stgutg.Props.GluePinned

/-- `UeauCommon.KDFLen` -/
theorem UeauCommon_KDFLen : Gen.Procs.UeauCommon_KDFLen = Spec.GluePinned.UeauCommon_KDFLen := rfl

end Stgutg.Props.GluePinned
