/-
  Glue pin (see Spec/GluePinned.lean, harness/cmd/gen/procs.go): the function is still the text its model was written from.
  One module per function, so that an edit breaks the obligations of exactly the properties that list it.
-/
import Stgutg.Gen.Procs
import Stgutg.Spec.GluePinned

namespace Stgutg.Props.GluePinned

/-- `tglib.RanUeContext_Get5GMMCapability` -/
theorem tglib_RanUeContext_Get5GMMCapability : Gen.Procs.tglib_RanUeContext_Get5GMMCapability = Spec.GluePinned.tglib_RanUeContext_Get5GMMCapability := rfl

end Stgutg.Props.GluePinned
