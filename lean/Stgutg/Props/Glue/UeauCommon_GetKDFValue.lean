/-
  Glue pin (see Spec/GluePinned.lean, harness/cmd/gen/procs.go): the function is still the text its model was written from.
  One module per function, so that an edit breaks the obligations of exactly the properties that list it.
-/
import Stgutg.Gen.Procs
import Stgutg.Spec.GluePinned

namespace Stgutg.Props.GluePinned

/-- `UeauCommon.GetKDFValue` -/
theorem UeauCommon_GetKDFValue : Gen.Procs.UeauCommon_GetKDFValue = Spec.GluePinned.UeauCommon_GetKDFValue := rfl

end Stgutg.Props.GluePinned
