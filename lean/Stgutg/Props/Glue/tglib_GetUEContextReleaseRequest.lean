/-
  Glue pin (see Spec/GluePinned.lean, harness/cmd/gen/procs.go): the function is still the text its model was written from.
  One module per function, so that an edit breaks the obligations of exactly the properties that list it.
-/
import Stgutg.Gen.Procs
import Stgutg.Spec.GluePinned

namespace Stgutg.Props.GluePinned

/-- `tglib.GetUEContextReleaseRequest` -/
theorem tglib_GetUEContextReleaseRequest : Gen.Procs.tglib_GetUEContextReleaseRequest = Spec.GluePinned.tglib_GetUEContextReleaseRequest := rfl

end Stgutg.Props.GluePinned
