/-
  Glue pin (see Spec/GluePinned.lean, harness/cmd/gen/procs.go): the function is still the text its model was written from.
  One module per function, so that an edit breaks the obligations of exactly the properties that list it.
-/
import Stgutg.Gen.Procs
import Stgutg.Spec.GluePinned

namespace Stgutg.Props.GluePinned

/-- `tglib.RanUeContext_DerivateKamf` -/
theorem tglib_RanUeContext_DerivateKamf : Gen.Procs.tglib_RanUeContext_DerivateKamf = Spec.GluePinned.tglib_RanUeContext_DerivateKamf := rfl

end Stgutg.Props.GluePinned
