/-
  Glue pin (see Spec/GluePinned.lean, harness/cmd/gen/procs.go): the function is still the text its model was written from.
  One module per function, so that an edit breaks the obligations of exactly the properties that list it.
-/
import Stgutg.Gen.Procs
import Stgutg.Spec.GluePinned

namespace Stgutg.Props.GluePinned

/-- the set of glue functions is the reviewed one (a new function, a removed one, a renamed one) -/
theorem names : Gen.Procs.names = Spec.GluePinned.names := rfl

end Stgutg.Props.GluePinned
