/-
  Glue pin (see Spec/GluePinned.lean, harness/cmd/gen/procs.go): the function is still the text its model was written from.
  One module per function, so that an edit breaks the obligations of exactly the properties that list it.
-/
import Stgutg.Gen.Procs
import Stgutg.Spec.GluePinned

namespace Stgutg.Props.GluePinned

/-- `stgutg.DecodePDUSessionNASPDU` -/
theorem stgutg_DecodePDUSessionNASPDU : Gen.Procs.stgutg_DecodePDUSessionNASPDU = Spec.GluePinned.stgutg_DecodePDUSessionNASPDU := rfl

end Stgutg.Props.GluePinned
