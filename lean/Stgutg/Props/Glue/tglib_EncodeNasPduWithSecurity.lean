/-
  Glue pin (see Spec/GluePinned.lean, harness/cmd/gen/procs.go): the function is still the text its model was written from.
  One module per function, so that an edit breaks the obligations of exactly the properties that list it.
-/
import Stgutg.Gen.Procs
import Stgutg.Spec.GluePinned

namespace Stgutg.Props.GluePinned

/-- `tglib.EncodeNasPduWithSecurity` -/
theorem tglib_EncodeNasPduWithSecurity : Gen.Procs.tglib_EncodeNasPduWithSecurity = Spec.GluePinned.tglib_EncodeNasPduWithSecurity := rfl

end Stgutg.Props.GluePinned
