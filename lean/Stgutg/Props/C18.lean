/-
  C18 — configuration file and command line reach the procedures unchanged.
  Property theorems only.

  Generated tables (Gen/Wiring.lean, from utils.go struct tags, src/config.yaml, README.md, stg-utg.go), the hand
  model of GetMode/Min (Model/Config.lean) and the hand-written expectation (Spec/ConfigWiring.lean).
  Not covered by theorems: what yaml.v2 makes of a scalar (external; validated by the `config` correspondence domain).
-/
import Stgutg.Model.Config
import Stgutg.Spec.ConfigWiring

namespace Stgutg.Props.C18
open Stgutg Stgutg.Model.Config Stgutg.Spec.ConfigWiring Stgutg.Gen.Wiring

/-- the yaml tags of the configuration struct -/
def tags : List String := fields.map (·.1)

/-- Go kind → kind of value in the documentation -/
def kindClass (k : String) : String := if k = "string" then "string" else "int"

/-! ### keys -/

/-- **The struct tags are exactly the documented keys** of src/config.yaml: 24 each, no duplicates, each tag a
    documented key and each documented key a tag (so the correspondence is a bijection). -/
theorem C18_keys :
    tags.length = 24 ∧ documentedKeys.length = 24 ∧ tags.Nodup ∧ documentedKeys.Nodup ∧
    (∀ t ∈ tags, t ∈ documentedKeys) ∧ (∀ k ∈ documentedKeys, k ∈ tags) := by decide

/-- the keys of the sample file are the 24 keys of the hand-written specification, and every field has the kind of
    value the documentation shows for its key -/
theorem C18_keys_spec :
    (∀ k ∈ documentedKeys, k ∈ keys) ∧ (∀ k ∈ keys, k ∈ documentedKeys) ∧ keys.Nodup ∧
    (∀ f ∈ fields, documented.lookup f.1 = some (kindClass f.2.2)) := by decide

/-- every key that the README shows in its configuration snippets is a key the program reads -/
theorem C18_readme_keys : ∀ k ∈ readmeKeys, k ∈ tags := by decide

/-! ### wiring -/

/-- the source is this expression over keys, symbolically -/
def srcMatches : Src → KeyExpr → Bool
  | .field f, .key k => keyOfField f == some k
  | .min a b, .min x y => srcMatches a x && srcMatches b y
  | _, _ => false

theorem eval_of_matches {V : Type} (cfg : String → V) (mn : V → V → V) :
    ∀ (s : Src) (e : KeyExpr), srcMatches s e = true → s.eval cfg mn = some (e.eval cfg mn) := by
  intro s
  induction s with
  | field f =>
    intro e h
    cases e with
    | key k =>
      simp only [srcMatches, beq_iff_eq] at h
      simp [Src.eval, KeyExpr.eval, h]
    | min x y => simp [srcMatches] at h
  | min a b iha ihb =>
    intro e h
    cases e with
    | key k => simp [srcMatches] at h
    | min x y =>
      simp only [srcMatches, Bool.and_eq_true] at h
      simp [Src.eval, KeyExpr.eval, iha x h.1, ihb y h.2]
  | other t => intro e h; cases e <;> simp [srcMatches] at h

/-- the table fact behind `C18_wiring` -/
theorem flows_symbolic : ∀ f ∈ expectedFlows,
    ((argAt f.mode f.callee f.occ f.pos).map (srcMatches · (.key f.key))) = some true := by decide

/-- **Wiring.** For every assignment `cfg` of values to keys (any type of values), in each mode the argument at every
    expected (procedure call, position) evaluates to the value of the expected key — amf_ngap_ip → ConnectToAmf
    argument 0, …, key by key as listed in `Spec.ConfigWiring.expectedFlows`. -/
theorem C18_wiring {V : Type} (cfg : String → V) (mn : V → V → V) :
    ∀ f ∈ expectedFlows, (argAt f.mode f.callee f.occ f.pos).bind (Src.eval cfg mn) = some (cfg f.key) := by
  intro f hf
  have h := flows_symbolic f hf
  cases hs : argAt f.mode f.callee f.occ f.pos with
  | none => simp [hs] at h
  | some s =>
    simp only [hs, Option.map_some, Option.some.injEq] at h
    simpa [KeyExpr.eval] using eval_of_matches cfg mn s (.key f.key) h

/-- the positions are the parameters the documentation means (names from the procedures' declarations) -/
theorem C18_wiring_params : ∀ f ∈ expectedFlows, (signatures.lookup f.callee).bind (·[f.pos]?) = some f.param := by
  decide

/-- all flows of configuration values into procedure arguments that `main` contains -/
def generatedFlows : List Flow :=
  modes.flatMap fun (m, calls) =>
    (List.range calls.length).flatMap fun i =>
      match calls[i]? with
      | none => []
      | some c =>
        let occ := ((calls.take i).filter (fun d => d.callee == c.callee)).length
        (List.range c.args.length).flatMap fun p =>
          match c.args[p]? with
          | some (Src.field f) =>
            match keyOfField f, (signatures.lookup c.callee).bind (·[p]?) with
            | some k, some prm => [⟨m, c.callee, occ, p, prm, k⟩]
            | _, _ => [⟨m, c.callee, occ, p, "?", "?"⟩]
          | some (Src.min _ _) => [⟨m, c.callee, occ, p, "?", "min"⟩]
          | _ => []

/-- **No other flow.** The configuration-derived arguments in `main` are exactly the expected ones, in order: no key
    reaches a parameter it is not meant for, none is passed twice, none through `Min`. -/
theorem C18_wiring_complete : generatedFlows = expectedFlows := by decide

/-! ### repetitions -/

def boundMatches : Option Bound → Option KeyExpr → Bool
  | some .none, none => true
  | some (.upto s), some e => srcMatches s e
  | some (.each _ s), some e => srcMatches s e
  | _, _ => false

theorem repetitions_symbolic : ∀ r ∈ expectedRepetitions, boundMatches (boundAt r.mode r.callee r.occ) r.times = true := by
  decide

/-- the number of turns of the loop around a call, under a configuration -/
def Bound.times {V : Type} (cfg : String → V) (mn : V → V → V) : Bound → Option (Option V)
  | .none => some none
  | .upto s => (s.eval cfg mn).map some
  | .each _ s => (s.eval cfg mn).map some

/-- **Repetitions.** For every configuration, each procedure runs once or as many times as the expected expression
    over ue_number / the five test counts says (`Min` is the cap; with `mn := goMin` on integers it is Go's `Min`). -/
theorem C18_repetitions {V : Type} (cfg : String → V) (mn : V → V → V) :
    ∀ r ∈ expectedRepetitions,
      (boundAt r.mode r.callee r.occ).bind (Bound.times cfg mn) = some (r.times.map (KeyExpr.eval cfg mn)) := by
  intro r hr
  have h := repetitions_symbolic r hr
  cases hb : boundAt r.mode r.callee r.occ with
  | none => simp [hb, boundMatches] at h
  | some b =>
    rw [hb] at h
    cases b with
    | none =>
      cases ht : r.times with
      | none => simp [Bound.times]
      | some e => simp [ht, boundMatches] at h
    | upto s =>
      cases ht : r.times with
      | none => simp [ht, boundMatches] at h
      | some e =>
        simp only [ht, boundMatches] at h
        simp [Bound.times, eval_of_matches cfg mn s e h]
    | each l s =>
      cases ht : r.times with
      | none => simp [ht, boundMatches] at h
      | some e =>
        simp only [ht, boundMatches] at h
        simp [Bound.times, eval_of_matches cfg mn s e h]

/-- every procedure call of `main` has an expected repetition (none is left out) -/
theorem C18_repetitions_complete :
    (modes.flatMap fun (m, calls) => calls.map fun c => (m, c.callee)) =
      expectedRepetitions.map fun r => (r.mode, r.callee) := by decide

/-- `Min` on integers is the smaller of the two -/
theorem goMin_spec (x y : Int) : goMin x y = min x y := by
  unfold goMin
  omega

/-- **Every documented key is used**: it reaches a procedure parameter or a repetition count in some mode -/
theorem C18_every_key_reaches : ∀ k ∈ keys,
    k ∈ expectedFlows.map (·.key) ∨
    k ∈ expectedRepetitions.flatMap (fun r => match r.times with | some e => e.keysOf | none => []) := by decide

/-! ### command line -/

/-- **Mode selection** as `main` calls it (`GetMode(os.Args)`): -/
theorem C18_mode_traffic (argv : List String) : getMode argv argv = .ok 1 ↔ argv.length = 1 := by
  unfold getMode
  constructor
  · intro h
    split at h
    · assumption
    · split at h
      · split at h
        · cases h
        · split at h <;> cases h
      · cases h
  · intro h; simp [h]

theorem C18_mode_test (argv : List String) : getMode argv argv = .ok 2 ↔ ∃ a, argv = [a, "-t"] := by
  constructor
  · intro h
    match argv, h with
    | [], h => simp [getMode] at h
    | [_], h => simp [getMode] at h
    | [a, b], h =>
      simp only [getMode, List.length_cons, List.length_nil] at h
      simp at h
      exact ⟨a, by rw [h]⟩
    | _ :: _ :: _ :: _, h => simp [getMode] at h
  · rintro ⟨a, rfl⟩
    simp [getMode]

/-- anything else: GetMode answers 0 (it never traps when given the process arguments) and `main` starts no procedure -/
theorem C18_mode_other (argv : List String) (h1 : argv.length ≠ 1) (h2 : ¬ ∃ a, argv = [a, "-t"]) :
    getMode argv argv = .ok 0 ∧ proceduresStarted argv = [] := by
  have h0 : getMode argv argv = .ok 0 := by
    match argv, h1, h2 with
    | [], _, _ => simp [getMode]
    | [_], h1, _ => simp at h1
    | [a, b], _, h2 =>
      have : b ≠ "-t" := fun hb => h2 ⟨a, by rw [hb]⟩
      simp [getMode, this]
    | _ :: _ :: _ :: _, _, _ => simp [getMode]
  refine ⟨h0, ?_⟩
  simp only [proceduresStarted, h0]
  decide

/-- the three cases in one: GetMode computes the documented mode for every argument vector -/
theorem C18_mode_spec (argv : List String) : getMode argv argv = .ok (modeOf argv) := by
  match argv with
  | [] => simp [getMode, modeOf]
  | [_] => simp [getMode, modeOf]
  | [a, b] =>
    by_cases hb : b = "-t"
    · subst hb; simp [getMode, modeOf]
    · simp only [getMode, List.length_cons, List.length_nil]
      simp [hb]
      unfold modeOf
      split <;> simp_all
  | _ :: _ :: _ :: _ => simp [getMode, modeOf]

/-- before the mode switch `main` only reads the configuration and the mode; the switch has exactly the branches 1 and 2 -/
theorem C18_main_shape :
    preamble = ["c.GetConfiguration", "stgutg.GetMode(os.Args)"] ∧ modes.map (·.1) = [1, 2] ∧ callsOfMode 0 = [] := by
  decide

/-- GetMode compares `os.Args[1]`, not its parameter: harmless in `main` (it passes os.Args), visible otherwise -/
theorem getMode_reads_process_args :
    getMode ["stg", "-t"] ["stg"] = .error .panic ∧ getMode ["stg", "x"] ["stg", "-t"] = .ok 2 := by
  constructor <;> rfl

/-- the hypotheses of the mode theorems are inhabited: one vector per case -/
example : getMode ["stg"] ["stg"] = .ok 1 ∧ getMode ["stg", "-t"] ["stg", "-t"] = .ok 2 ∧
    getMode ["stg", "-x"] ["stg", "-x"] = .ok 0 ∧ getMode ["stg", "-t", "-t"] ["stg", "-t", "-t"] = .ok 0 ∧
    getMode [] [] = .ok 0 := by
  refine ⟨rfl, rfl, ?_, rfl, rfl⟩
  simp [getMode]

end Stgutg.Props.C18
