/-
  C01 — NG Setup + UE registration is accepted by a conformant AMF.
  Property theorems only; helper lemmas live in Stgutg/Proofs/Emulator.lean.

  Model: Model/Emulator.lean (`manageNGSetup`, `registerUE`, test mode), tied to the code by the `convo-reg` correspondence
         domain (the real binary and in-process procedure calls against the scripted AMF; byte-identical uplink messages).
  Spec:  Spec/Amf.lean — the reference AMF as a judge of the uplink transcript (TS 38.413 message / mandatory IEs / ids,
         TS 24.501 parse, SUCI/PLMN, RES* = XRES*, header type, MAC, NAS COUNT).

  The statement's clauses, each for ALL configurations and ALL AMF choices (primitives AES / HMAC / CMAC / CTR are parameters):
    C01_res_star                 RES* returned and K_AMF / K_NASenc / K_NASint installed = the network's vector (C05 + TS 33.102 AUTN)
    C01_authentication_response_accepted  the judge's step on the Authentication Response built from that RES* raises no clause (C09);
                                 a different RES* is refused (`C01_wrong_res_star_refused`)
    C01_registration_protected   Security Mode Complete: header type 4, NAS COUNT 0; Registration Complete: header type 2,
                                 NAS COUNT 1 (= previous + 1); both pass the reference AMF's NAS-security clause (MAC valid
                                 under the network-derived keys, the plain message recovered) (C06)
    C01_suci / C01_plmn          the SUCI of UE i decodes to the configured MCC/MNC and MSIN + i; the NG Setup PLMN is the
                                 configured PLMN (C11, C16)
    C01_security_capability      the capability announces the algorithms the AMF selects (C16)
    C01_ngap_*                   every NGAP message of the exchange is the TS 38.413 message expected at its step (class,
                                 procedure code), has its mandatory IEs with the assigned criticality, and carries the
                                 AMF-UE-NGAP-ID / RAN-UE-NGAP-ID / NAS-PDU it was given (C13)
    C01_*_seen                   for ALL in-range arguments (gNB id of 22..32 bits, AMF-UE-NGAP-ID < 2^40, RAN-UE-NGAP-ID < 2^32,
                                 3-octet PLMN, any NAS-PDU) the wrapper returns octets and the reference AMF's decoder returns
                                 exactly the built PDU: the `ConfPdu` / `regular` hypotheses of `C01_amf_sees_built_pdu` are
                                 discharged by C13's static analysis of the builder skeletons (`C01_builder_seen`)
    C01_step_*                   the judge's `step` (Spec/Amf.lean) on each of the six uplink messages, in conversation order: NG SETUP
                                 REQUEST, REGISTRATION REQUEST in INITIAL UE MESSAGE, AUTHENTICATION RESPONSE, SECURITY MODE COMPLETE,
                                 INITIAL CONTEXT SETUP RESPONSE, REGISTRATION COMPLETE — each raises NO clause (NGAP and NAS) and
                                 moves the judge's state as the conversation expects
    C01_subscriber_identified    the judge attributes the SUCI of the emulator's UE j to subscriber j (its own decimal arithmetic =
                                 the emulator's `%0*d` of IMSI + j; distinct UEs, distinct MSINs)
    C01_registration_script_accepted / C01_registration_accepted_for_config
                                 `Spec.Amf.judge … = accept` on the six-message uplink script of NG Setup + one registration, for
                                 ALL decimal-IMSI configurations (MNC of 2 or 3 digits), gNB ids of 22..32 bits, RAN-UE-NGAP-ID
                                 < 2^32 and ALL AMF choices (RAND, SQN, AMF field, AMF-UE-NGAP-ID < 2^40), with the SUCI and
                                 capability the emulator really builds
    C01_accepted_for_downlink / C01_accepted_partial
                                 `C01_accepted_statement` for one registration THROUGH `emulate` (Proofs/EmulatorRun.lean executes the
                                 emulator model symbolically: `manageNGSetup_run`, `registerUE_run`, `emulate_run`):
                                 judge (emulate cfg dls).uls = accept, given what the emulator READS from the five downlink messages
    C01_accepted / C01_accepted_n
                                 the full statement: judge (emulate cfg (dl cfg choices)).uls = accept with `dl` = `Spec.AmfDl.dl`
                                 (Spec/AmfDownlink.lean: the conformant AMF's five downlink messages per UE, built with the X.691 /
                                 TS 24.501 SPECIFICATION encoders), for one UE and for N ≤ 10 000 UEs (`C01_registration_block`,
                                 `C01_register_one`, `C01_register_loop`: the registration loop folded; `C01_dlReads_of_spec`: what the
                                 emulator reads from the specified downlink — Proofs/EmulatorDownlink(.Nas).lean)
  `C01_accepted_statement` is proved in the form `C01_accepted_n`. Its hypotheses beyond well-formed configuration and AMF
  choices: `Spec.AmfDl.dl` is defined for every UE (the three protected NAS messages exist — a property of the primitives' output
  lengths), every downlink message fits the emulator's 2048-octet read buffer, N ≤ 10 000 (C16's distinct-id range), and nothing
  is requested after registration (the procedures after it are C02's: `Props.C02.C02_script_accepted`). The reference AMF is also
  evaluated on every real transcript (spec column of the `convo` op), and `C01_accepted_witness` evaluates one whole
  conversation with real crypto in the kernel. Traffic mode (XDP) is not modelled.
-/
import Stgutg.Proofs.Emulator
import Stgutg.Proofs.EmulatorWitness
import Stgutg.Proofs.BuildersPath
import Stgutg.Proofs.BuildersJudge
import Stgutg.Proofs.EmulatorSubscriber
import Stgutg.Proofs.EmulatorRun
import Stgutg.Proofs.EmulatorReencode
import Stgutg.Proofs.EmulatorDownlinkNas
import Stgutg.Props.C09
import Stgutg.Props.C11

namespace Stgutg.Props.C01
open Stgutg Stgutg.Model.Emulator Stgutg.Proofs.Emulator Stgutg.Builders
open Stgutg.Model.NasProtect Stgutg.Proofs.NasProtect Stgutg.Spec.NasSecurity
open Stgutg.Model.KeyDerivation Stgutg.Proofs.KeyDerivation Stgutg.Proofs.Milenage
open Stgutg.Spec.Ts35206 (BlockCipher)

/-! ### RES* = XRES*, keys = the network's keys -/

/-- TS 33.102 6.3.2: the first six octets of AUTN are SQN ⊕ AK -/
theorem autn_take6 (P : Prims) (k opc rand sqn amf : Bytes) (hE : BlockCipher P.aes) (hk : k.length = 16) (hopc : opc.length = 16)
    (hrand : rand.length = 16) (hsqn : sqn.length = 6) :
    (Spec.Ts35206.autn P.aes k opc rand sqn amf).take 6 = xorBytes sqn (Spec.Ts35206.f5 P.aes k opc rand) := by
  unfold Spec.Ts35206.autn
  have h6 : (xorBytes sqn (Spec.Ts35206.f5 P.aes k opc rand)).length = 6 := by
    rw [Proofs.Milenage.xorBytes_length, f5_length hE hk hopc hrand, hsqn]; rfl
  rw [List.append_assoc, List.take_left' h6]

/-- **C01_res_star.** For every K, OPc, RAND, SQN, AMF field, MCC, 2- or 3-digit MNC and SUPI of 5..15 digits: given the
    AUTN the network sends for its choice (TS 33.102: SQN ⊕ AK ‖ AMF ‖ MAC-A), `DeriveRESstarAndSetKey` succeeds, the RES* it
    returns is the XRES* of the network's vector (`Spec.Amf.vector`: TS 35.206 + TS 33.501 Annex A over the SQN the network
    chose), and the K_AMF, K_NASenc, K_NASint it installs are the network's. (OPc configured; OP-only configurations reduce
    to this by `Props.C05.op_opc`.) -/
theorem C01_res_star (P : Prims) (hE : BlockCipher P.aes) (hH : MacLen P.hmac)
    (cfg : Spec.Amf.Cfg) (ch : Spec.Amf.Choice) (j : Nat) (aka : Spec.Ts33501A.Aka)
    (a : AuthSubs) (amf k opc digits : Bytes) (ds : List Nat)
    (hvec : Spec.Amf.vector P cfg j ch = some aka)
    (hk : hexDecode a.k = some k) (hk' : Spec.Amf.hexText cfg.k = some k) (hk16 : k.length = 16)
    (hopcne : a.opc ≠ []) (hopc : hexDecode a.opc = some opc) (hopc' : Spec.Amf.opcOf P cfg = some opc) (hopc16 : opc.length = 16)
    (hamf : hexDecode a.amf = some amf) (hamf2 : 2 ≤ amf.length)
    (hrand : ch.rand.length = 16) (hsqn : ch.sqn.length = 6)
    (hds : Spec.Amf.supiDigits cfg j = some ds) (hdig : Spec.Amf.asciiDigits ds = digits)
    (hd : digits.all isDigit = true) (h5 : 5 ≤ digits.length) (h15 : digits.length ≤ 15)
    (hmcc : cfg.mcc.length = 3) (hmnc : cfg.mnc.length = 2 ∨ cfg.mnc.length = 3) :
    ∃ keys, DeriveRESstarAndSetKey P (Props.C05.imsiPrefix ++ digits) 0 2 a
        (Spec.Ts35206.autn P.aes k opc ch.rand ch.sqn ch.amf) ch.rand (snName cfg.mnc cfg.mcc) cfg.mnc cfg.mcc = .ok keys ∧
      keys.resStar = aka.resStar ∧ keys.kamf = aka.kamf ∧ keys.knasEnc = aka.knasEnc ∧ keys.knasInt = aka.knasInt := by
  refine ⟨_, Props.C05.derive_eq_spec P hE hH a amf k opc ch.rand _ cfg.mcc cfg.mnc digits 0 2 hamf hamf2 hk hk16 hopcne hopc hopc16
    hrand hd h5 h15 hmcc hmnc, ?_⟩
  unfold Spec.Amf.vector at hvec
  simp only [hk', hopc', hds, hdig] at hvec
  injection hvec with hvec
  subst hvec
  simp only [Props.C05.specKeys, autn_take6 P k opc ch.rand ch.sqn ch.amf hE hk16 hopc16 hrand hsqn]
  exact ⟨rfl, rfl, rfl, rfl⟩

/-- the hypotheses about the configuration are satisfiable: K and OPc of the shipped src/config.yaml are read alike, as 16
    octets, by the code's `hex.DecodeString` model and by the reference AMF's reader; subscriber 2 of IMSI 001010000000001 -/
example :
    hexDecode (str ['4', '6', '5', 'B', '5', 'C', 'E', '8', 'B', '1', '9', '9', 'B', '4', '9', 'F', 'A', 'A', '5', 'F', '0', 'A', '2', 'E', 'E', '2', '3', '8', 'A', '6', 'B', 'C'])
      = Spec.Amf.hexText (str ['4', '6', '5', 'B', '5', 'C', 'E', '8', 'B', '1', '9', '9', 'B', '4', '9', 'F', 'A', 'A', '5', 'F', '0', 'A', '2', 'E', 'E', '2', '3', '8', 'A', '6', 'B', 'C']) ∧
    (hexDecode (str ['4', '6', '5', 'B', '5', 'C', 'E', '8', 'B', '1', '9', '9', 'B', '4', '9', 'F', 'A', 'A', '5', 'F', '0', 'A', '2', 'E', 'E', '2', '3', '8', 'A', '6', 'B', 'C'])).map List.length = some 16 ∧
    hexDecode (str ['E', '8', 'E', 'D', '2', '8', '9', 'D', 'E', 'B', 'A', '9', '5', '2', 'E', '4', '2', '8', '3', 'B', '5', '4', 'E', '8', '8', 'E', '6', '1', '8', '3', 'C', 'A'])
      = Spec.Amf.hexText (str ['E', '8', 'E', 'D', '2', '8', '9', 'D', 'E', 'B', 'A', '9', '5', '2', 'E', '4', '2', '8', '3', 'B', '5', '4', 'E', '8', '8', 'E', '6', '1', '8', '3', 'C', 'A']) ∧
    Spec.Amf.supiDigits { imsi := str ['0', '0', '1', '0', '1', '0', '0', '0', '0', '0', '0', '0', '0', '0', '1'], mcc := [], mnc := [], k := [], opc := [], op := [],
                          gnbId := [], bitLength := 0, name := [], abba := [], reg := 1, pdu := 0, svc := 0, rel := 0, dereg := 0 } 2
      = some [0, 0, 1, 0, 1, 0, 0, 0, 0, 0, 0, 0, 0, 0, 3] :=
  ⟨by decide, by decide, by decide, by decide⟩

theorem table_authenticationResponse :
    Spec.Ts24501.tableByName "AuthenticationResponse" = some Spec.Ts24501.authenticationResponse := by rfl

/-- **C01_authentication_response_accepted.** The reference AMF's step on the AUTHENTICATION RESPONSE: for every 16-octet
    RES* equal to the XRES* of the network's vector (which `C01_res_star` gives for what `DeriveRESstarAndSetKey` returns), the
    octets `GetAuthenticationResponse(resStar, "")` produces parse, with the standard's parser under table 8.2.2.1.1, as an
    AUTHENTICATION RESPONSE whose authentication response parameter is XRES*: the judge raises no clause and moves the UE from
    "authentication request sent" to "security mode command sent" (C09 + the judge's definition). -/
theorem C01_authentication_response_accepted (s : Spec.Amf.St) (k : Nat) (u : Spec.Amf.UeSt) (resStar : Bytes)
    (h16 : resStar.length = 16) (hreg : u.reg = .authSent) (hres : resStar = u.aka.resStar) :
    ∃ bs, Nas.Ctor.encodeWith Gen.Nas.layout_AuthenticationResponse (Nas.Ctor.authenticationResponse resStar []) = .ok bs ∧
      Spec.Amf.onPlainUplink s k u bs = s.setUe { u with reg := .smcSent } := by
  obtain ⟨w, bs, hw, henc, hparse⟩ := Props.C09.C09_ctor_authenticationResponse resStar [] (.inl h16)
  refine ⟨bs, henc, ?_⟩
  have hne : resStar ≠ [] := by intro h; simp [h] at h16
  have hw' : Spec.Ts24501.authenticationResponse.wire = some w := by
    unfold Props.C09.wireOf at hw
    have : Gen.Nas.layout_AuthenticationResponse.name = "AuthenticationResponse" := rfl
    rw [this, table_authenticationResponse] at hw
    exact hw
  unfold Spec.Amf.onPlainUplink Spec.Amf.parseNas
  rw [hw']
  rw [if_neg hne, if_neg (fun h => hne h.1)] at hparse
  simp only [Option.bind_some, hparse]
  simp [Spec.Ts24501.Intended.authenticationResponse, Spec.Ts24501.Intended.present, Spec.Amf.optIE, hreg, hres]

/-- … and a RES* that differs from XRES* is refused under the clause `res-star` -/
theorem C01_wrong_res_star_refused (s : Spec.Amf.St) (k : Nat) (u : Spec.Amf.UeSt) (resStar : Bytes)
    (h16 : resStar.length = 16) (hreg : u.reg = .authSent) (hres : resStar ≠ u.aka.resStar) :
    ∃ bs, Nas.Ctor.encodeWith Gen.Nas.layout_AuthenticationResponse (Nas.Ctor.authenticationResponse resStar []) = .ok bs ∧
      Spec.Amf.onPlainUplink s k u bs = (s.fail k "res-star").setUe { u with reg := .smcSent } := by
  obtain ⟨w, bs, hw, henc, hparse⟩ := Props.C09.C09_ctor_authenticationResponse resStar [] (.inl h16)
  refine ⟨bs, henc, ?_⟩
  have hne : resStar ≠ [] := by intro h; simp [h] at h16
  have hw' : Spec.Ts24501.authenticationResponse.wire = some w := by
    unfold Props.C09.wireOf at hw
    have : Gen.Nas.layout_AuthenticationResponse.name = "AuthenticationResponse" := rfl
    rw [this, table_authenticationResponse] at hw
    exact hw
  unfold Spec.Amf.onPlainUplink Spec.Amf.parseNas
  rw [hw']
  rw [if_neg hne, if_neg (fun h => hne h.1)] at hparse
  simp only [Option.bind_some, hparse]
  simp [Spec.Ts24501.Intended.authenticationResponse, Spec.Ts24501.Intended.present, Spec.Amf.optIE, hreg, hres]

/-! ### security header type, MAC, NAS COUNT -/

/-- **C01_registration_protected.** For every pair of plain messages, every key pair and primitives: when the UE context holds
    the keys and algorithms of the network's vector, what `EncodeNasPduWithSecurity(ue, smc, 4, true, true)` returns is
    accepted by the reference AMF's NAS-security clause as header type 4 under NAS COUNT 0 with plain message `smc`
    (Security Mode Complete starts the count at 0), and what `EncodeNasPduWithSecurity(ue, rc, 2, true, false)` returns next is
    accepted as header type 2 under NAS COUNT exactly one above (1) with plain message `rc` — the MAC is valid under the
    network-derived K_NASint over sequence number ‖ message, and the stored UL NAS COUNT afterwards is 2. -/
theorem C01_registration_protected (P : Prims) (hP : PrimsOk P) (sec : UeSec) (u : Spec.Amf.UeSt) (hin : InStep sec u)
    (smc rc : Bytes) :
    let r1 := Model.NasProtect.encodeNasPduWithSecurity P sec smc 4 true true
    let r2 := Model.NasProtect.encodeNasPduWithSecurity P r1.1 rc 2 true false
    ∃ o1 o2, r1.2 = .ok o1 ∧ r2.2 = .ok o2 ∧
      Spec.Amf.byteAt o1 1 = 4 ∧ Spec.Amf.byteAt o2 1 = 2 ∧
      Spec.Amf.receiveUl P u true [4] o1 = .ok (smc, 0) ∧
      Spec.Amf.receiveUl P (Spec.Amf.accepted u 4 0) true [2] o2 = .ok (rc, 1) ∧
      cval r2.1.ulCount = 2 ∧ InStep r2.1 (Spec.Amf.accepted (Spec.Amf.accepted u 4 0) 2 1) := by
  intro r1 r2
  obtain ⟨o1, ho1, a1, a6, ar, ain, ac⟩ := protected_step P hP sec u hin smc 4 true rfl
  simp only [if_true] at a6 ar ac
  have hin1 : InStep r1.1 (Spec.Amf.accepted u 4 0) := ⟨by rw [ain.1]; rfl, ain.2⟩
  obtain ⟨o2, ho2, b1, b6, br, bin, bc⟩ := protected_step P hP r1.1 (Spec.Amf.accepted u 4 0) hin1 rc 2 false rfl
  simp only [Bool.false_eq_true, if_false] at b6 br bc
  have hc1 : cval r1.1.ulCount = 1 := ac.trans (by decide)
  rw [hc1] at b6 br bc
  refine ⟨o1, o2, ho1, ho2, a1, b1, ?_, ?_, bc.trans (by decide), ⟨by rw [bin.1]; rfl, bin.2⟩⟩
  · exact receiveUl_of_receive P u true [4] o1 smc 0 (by rw [a1]; rfl) (by rw [a1]; rfl) (by rw [a1]; rfl) ar
  · exact receiveUl_of_receive P _ true [2] o2 rc 1 (by rw [b1]; rfl) (by rw [b1]; rfl) (by rw [b1]; rfl) br

/-- the hypotheses are satisfiable: the toy primitives, and the real SP 800-38A CTR / RFC 4493 CMAC over AES-128 -/
example : ∃ P, PrimsOk P := ⟨toyPrims, toyPrims_ok⟩
example : PrimsOk Crypto.prims := cryptoPrims_ok
example : InStep { ulCount := 7, dlCount := 9, cipheringAlg := 0, integrityAlg := 2, knasEnc := [1], knasInt := [2] }
    { j := 0, ran := 1, ch := { rand := [], sqn := [], amf := [], ngKsi := 0, amfUeNgapId := 5, ueIp := [], teid := 0, upfIp := [] },
      aka := { resStar := [], kausf := [], kseaf := [], kamf := [], knasEnc := [1], knasInt := [2] } } :=
  ⟨rfl, Or.inr rfl, Or.inl rfl⟩

/-! ### SUCI and PLMN identify the configured subscriber -/

open Stgutg.Proofs.UeIdentity in
/-- **C01_suci.** The mobile identity in the Registration Request of UE `i` (the index in the registration loop) is read by
    the independent TS 24.501 9.11.3.4 decoder as the null-scheme SUCI with the configured MCC and MNC and
    MSIN = configured MSIN + i: it identifies subscriber `i` of the configured range (C16 / C11). -/
theorem C01_suci (cfg : Cfg) (h : DecimalImsi cfg.imsi) {m n : Nat} (hm : m = 2 ∨ m = 3) (hmnc : cfg.mnc.length = m)
    (hlen : 3 + m < cfg.imsi.length) (hfit : MsinFits cfg.imsi (3 + m) n) {i : Nat} (hi : i < n) :
    ∃ buf, Model.Suci.encodeSuci (Model.Suci.trimImsiPrefix (createUE cfg i).ctx.supi) cfg.mnc.length = .ok buf ∧
      Spec.Identity.decodeSuci buf = some (Spec.Identity.nullSchemeSuci (digitsOf (cfg.imsi.take 3))
        (digitsOf ((cfg.imsi.drop 3).take m))
        (digitsOf (Model.UeIdentity.decW (cfg.imsi.length - (3 + m)) (Model.UeIdentity.decVal (cfg.imsi.drop (3 + m)) + i)))) := by
  rw [hmnc]
  exact Props.C16.C16_suci_of_ue h hm hlen hfit hi cfg.k cfg.opc cfg.op

open Stgutg.Proofs.Suci in
/-- **C01_plmn.** The PLMN identity `ManageNGSetup` announces in Global RAN Node ID / Supported TA List (and every later
    builder copies into user location information) is the 3-octet encoding of the configured MCC and MNC (2 or 3 digits),
    the PLMN of the SUCIs above (C11). -/
theorem C01_plmn {mcc mnc msin : List Nat} (h : ValidImsi mcc mnc msin) :
    ∃ p, Spec.Identity.plmn3 mcc mnc = some p ∧
      Model.Suci.ngSetupPlmn (asc (mcc ++ mnc ++ msin)) ((asc mnc).length : Int) = .ok p ∧
      Spec.Identity.plmn3Decode p = some (mcc, mnc) := by
  obtain ⟨p, hp, hn⟩ := Props.C11.C11_plmn_ngsetup h false
  refine ⟨p, hp, ?_, Props.C11.C11_plmn_decodes mcc mnc p hp⟩
  simpa [asc] using hn

/-- **C01_security_capability.** The UE security capability of every created UE announces 5G-EA0 and 128-5G-IA2 — the
    algorithms the reference AMF selects — and no other (C16). -/
theorem C01_security_capability (cfg : Cfg) (i : Int) :
    Spec.Identity.eaSupported (secCapVal (createUE cfg i)).data Spec.Amf.selectedEa = true ∧
    Spec.Identity.iaSupported (secCapVal (createUE cfg i)).data Spec.Amf.selectedIa = true := by
  have := Props.C16.C16_capability_of_created_ue cfg.imsi i cfg.k cfg.opc cfg.op
  exact ⟨(this 0).1.mpr rfl, (this 2).2.mpr rfl⟩

/-! ### the NGAP messages of the exchange -/

open Stgutg.Spec.NgapView Stgutg.Spec.Ts38413

/-- what C13 gives for a PDU a wrapper hands to the encoder: message class and procedure code of TS 38.413 9.4.3, and
    every mandatory IE of the message's table with its assigned criticality -/
def IsMessage (pdu : Aper.Val) (m : Spec.Ts38413.Msg) : Prop :=
  pduPresent pdu = some ((msgClass m).index + 1) ∧ pduProc pdu = some (procCode m : Int) ∧
  ∀ ms, mandatory m = some ms → ∃ hs : List (Int × Nat), headers pdu = some (hs.map some) ∧ ∀ x ∈ ms, ((x.1 : Int), x.2) ∈ hs

theorem isMessage_of_shaped (E : Model.Convert.Ext) (t : Template) (ht : t ∈ Proofs.Builders.allTable) (plmn : Bytes)
    (args : List Aper.Val) (pdu : Aper.Val) (h : Proofs.Builders.Shaped E t plmn args pdu) : IsMessage pdu t.message :=
  ⟨(Props.C13.C13_class E t ht plmn args pdu h).1, (Props.C13.C13_class E t ht plmn args pdu h).2,
   fun ms hm => Props.C13.C13_mandatory E t ht ms hm plmn args pdu h⟩

/-- **C01_ngap_initial_ue_message.** UL2: `GetInitialUEMessage(ran, nas, "")` is INITIAL UE MESSAGE with RAN-UE-NGAP-ID `ran`,
    NAS-PDU `nas`, user location information and RRC establishment cause. -/
theorem C01_ngap_initial_ue_message (E : Model.Convert.Ext) (plmn : Bytes) (ran : Int) (nas : Bytes) (pdu : Aper.Val)
    (hb : Wrapper.pdu E .GetInitialUEMessage plmn [.int ran, .octs nas, .str []] = .ok pdu) :
    IsMessage pdu .InitialUEMessage ∧
    (∃ v, ieValuesById pdu (ieRANUENGAPID : Int) = some [some v] ∧ Val.at [0] v = some (.int ran)) ∧
    (∃ v, ieValuesById pdu (ieNASPDU : Int) = some [some v] ∧ Val.at [0] v = some (.octs nas)) := by
  have ht : tInitialUEMessage ∈ Proofs.Builders.allTable := mem_allTable_hand (by simp [handTable])
  have hsh := Proofs.Builders.build_shaped E tInitialUEMessage plmn _ pdu (show build E tInitialUEMessage plmn [.int ran, .octs nas, .str []] = .ok pdu from hb)
  refine ⟨isMessage_of_shaped E _ ht plmn _ pdu hsh, ?_, ?_⟩
  · exact Props.C13.C13_carries_ran E _ ht 0 (by decide) plmn _ pdu hsh (.int ran) rfl
  · have := Props.C13.C13_carries_nas E _ ht 1 (by decide) plmn _ pdu hsh (.octs nas) rfl
    simpa [bytesOf, tInitialUEMessage] using this

/-- **C01_ngap_uplink_nas_transport.** UL3, UL4, UL6 (and every later NAS message): `GetUplinkNASTransport(amf, ran, nas)` is
    UPLINK NAS TRANSPORT carrying the AMF-UE-NGAP-ID it was given (the one the emulator took from the Authentication Request's
    DOWNLINK NAS TRANSPORT), the UE's RAN-UE-NGAP-ID and the NAS-PDU. -/
theorem C01_ngap_uplink_nas_transport (E : Model.Convert.Ext) (plmn : Bytes) (amf ran : Int) (nas : Bytes) (pdu : Aper.Val)
    (hb : Wrapper.pdu E .GetUplinkNASTransport plmn [.int amf, .int ran, .octs nas] = .ok pdu) :
    IsMessage pdu .UplinkNASTransport ∧
    (∃ v, ieValuesById pdu (ieAMFUENGAPID : Int) = some [some v] ∧ Val.at [0] v = some (.int amf)) ∧
    (∃ v, ieValuesById pdu (ieRANUENGAPID : Int) = some [some v] ∧ Val.at [0] v = some (.int ran)) ∧
    (∃ v, ieValuesById pdu (ieNASPDU : Int) = some [some v] ∧ Val.at [0] v = some (.octs nas)) := by
  have ht : tUplinkNasTransport ∈ Proofs.Builders.allTable := mem_allTable_hand (by simp [handTable])
  have hsh := Proofs.Builders.build_shaped E tUplinkNasTransport plmn _ pdu (show build E tUplinkNasTransport plmn [.int amf, .int ran, .octs nas] = .ok pdu from hb)
  refine ⟨isMessage_of_shaped E _ ht plmn _ pdu hsh, ?_, ?_, ?_⟩
  · have := Props.C13.C13_carries_amf E _ ht 0 (by decide) plmn _ pdu hsh (.int amf) rfl
    simpa [amfIe, tUplinkNasTransport] using this
  · exact Props.C13.C13_carries_ran E _ ht 1 (by decide) plmn _ pdu hsh (.int ran) rfl
  · have := Props.C13.C13_carries_nas E _ ht 2 (by decide) plmn _ pdu hsh (.octs nas) rfl
    simpa [bytesOf, tUplinkNasTransport] using this

/-- **C01_ngap_initial_context_setup_response.** UL5: `GetInitialContextSetupResponse(amf, ran)` is INITIAL CONTEXT SETUP
    RESPONSE with both identifiers. -/
theorem C01_ngap_initial_context_setup_response (E : Model.Convert.Ext) (plmn : Bytes) (amf ran : Int) (pdu : Aper.Val)
    (hb : Wrapper.pdu E .GetInitialContextSetupResponse plmn [.int amf, .int ran] = .ok pdu) :
    IsMessage pdu .InitialContextSetupResponse ∧
    (∃ v, ieValuesById pdu (ieAMFUENGAPID : Int) = some [some v] ∧ Val.at [0] v = some (.int amf)) ∧
    (∃ v, ieValuesById pdu (ieRANUENGAPID : Int) = some [some v] ∧ Val.at [0] v = some (.int ran)) := by
  have ht : tInitialContextSetupResponseForRegistraionTest ∈ Proofs.Builders.allTable := mem_allTable_hand (by simp [handTable])
  have hsh := Proofs.Builders.build_shaped E tInitialContextSetupResponseForRegistraionTest plmn _ pdu
    (show build E tInitialContextSetupResponseForRegistraionTest plmn [.int amf, .int ran] = .ok pdu from hb)
  refine ⟨isMessage_of_shaped E _ ht plmn _ pdu hsh, ?_, ?_⟩
  · have := Props.C13.C13_carries_amf E _ ht 0 (by decide) plmn _ pdu hsh (.int amf) rfl
    simpa [amfIe, tInitialContextSetupResponseForRegistraionTest] using this
  · exact Props.C13.C13_carries_ran E _ ht 1 (by decide) plmn _ pdu hsh (.int ran) rfl

/-! ### what the AMF decodes is what was built -/

/-- **C01_amf_sees_built_pdu.** "The AMF's decoder inverts the encoder on this PDU", from the composite APER round trip
    (C04) and the canonical-encoding theorem (C03): whenever the PDU a wrapper hands to `ngap.Encoder` is within its
    constraints (`ConfPdu`: the identifiers in range — AMF-UE-NGAP-ID < 2^40, RAN-UE-NGAP-ID < 2^32, PDU session ID ≤ 255 —,
    the NAS-PDU and every open-type content shorter than 16384 octets) and regular, the reference AMF decodes the octets on
    the wire to exactly that PDU. Every C13 fact above (`C01_ngap_*`) is then a fact about what the AMF sees. The two
    hypotheses are decidable predicates on the value; that the builder templates satisfy them for ALL in-range arguments is
    `C01_builder_seen` below (from C13's `skeleton_table` + `tmOK_sound`). -/
theorem C01_amf_sees_built_pdu (v : Aper.Val) (b : Bytes)
    (hc : Props.C04.ConfPdu Spec.Amf.ngapFuel v)
    (hr : Proofs.AperSpec.regular Gen.Ngap.schema Spec.Amf.ngapFuel (.struct Gen.Ngap.pduId) false v = true)
    (h : Builders.encodePdu v = .ok b) : Spec.Amf.decodeNgap b = some v :=
  amf_sees_built_pdu v b hc hr h

set_option maxRecDepth 1000000 in
/-- the hypotheses are satisfiable: C04's NG SETUP REQUEST (four IEs in open types) -/
example : Props.C04.ConfPdu Spec.Amf.ngapFuel Props.C04.ngSetupRequest ∧
    Proofs.AperSpec.regular Gen.Ngap.schema Spec.Amf.ngapFuel (.struct Gen.Ngap.pduId) false Props.C04.ngSetupRequest = true :=
  ⟨Props.C04.ngSetupRequest_conf, by decide +kernel⟩

/-! ### the `ConfPdu` / `regular` hypotheses discharged from the argument ranges (C13: `InRange`) -/

open Stgutg.Proofs.BuildersRange Stgutg.Proofs.BuildersRoles Stgutg.Proofs.BuildersPath in
/-- **C01_builder_seen.** For every builder of the table and all in-range arguments (`InRange true`, C13), the builder
    returns a PDU, `ngap.Encoder` returns octets, and the reference AMF decodes these octets to exactly that PDU: the
    `ConfPdu` and `regular` hypotheses of `C01_amf_sees_built_pdu` follow from the static analysis of the builder's
    skeleton (`Props.C13.skeleton_table`) and the ranges of the arguments. -/
theorem C01_builder_seen (E : Model.Convert.Ext) (t : Template) (ht : t ∈ Proofs.Builders.allTable) (plmn : Bytes)
    (args : List Aper.Val) (h : InRange true E t plmn args)
    (hnc : Props.C13.NonCanonicalConst t = false) :
    ∃ pdu b, build E t plmn args = .ok pdu ∧ encodePdu pdu = .ok b ∧ Spec.Amf.decodeNgap b = some pdu := by
  obtain ⟨c, tm, hsel, hout, hob⟩ := h
  have hsk : skOK true tm = true := by
    rcases (Props.C13.skeleton_facts t ht c (selected_mem E t plmn args c hsel) tm hout).1.2 with h2 | h2
    · exact h2
    · rw [hnc] at h2; cases h2
  obtain ⟨hb, hv⟩ := selected_builds true E t plmn args c tm hsel hout hsk hob
  obtain ⟨b, h1, _⟩ := okV_pdu_encodes true _ hv
  refine ⟨_, b, hb, h1, ?_⟩
  apply amf_sees_built_pdu _ b ?_ ?_ h1
  · rw [← fuel_eq]; exact Proofs.BuildersOk.okV_conf _ _ _ _ _ hv
  · rw [← fuel_eq]; exact Proofs.BuildersOk.okV_regular _ _ _ _ _ _ _ hv

open Stgutg.Proofs.BuildersRange Stgutg.Proofs.BuildersRoles Stgutg.Proofs.BuildersPath in
/-- **C01_ng_setup_request_seen.** UL1, for every configuration with a gNB id of `bitlength` = 22..32 bits held in
    ⌈bitlength/8⌉ octets (unused bits clear), a PLMN of 3 octets (what `C01_plmn` gives) and a non-empty gNB name:
    `GetNGSetupRequest` returns octets, the reference AMF decodes them to the PDU the wrapper built, and that PDU is NG SETUP
    REQUEST with its mandatory IEs, the configured name and gNB id. -/
theorem C01_ng_setup_request_seen (E : Model.Convert.Ext) (plmn g m name : Bytes) (bl : Int)
    (hm : m.length = 3) (h22 : 22 ≤ bl) (h32 : bl ≤ 32) (hg : g.length = (bl.toNat + 7) / 8)
    (hc : Canonical g bl.toNat) (hname : 1 ≤ name.length) :
    ∃ pdu b, Wrapper.run E .GetNGSetupRequest plmn [.octs g, .octs m, .int bl, .str name] = .ok (.ok b) ∧
      Spec.Amf.decodeNgap b = some pdu ∧ IsMessage pdu .NGSetupRequest ∧
      (∃ v, ieValuesById pdu (ieRANNodeName : Int) = some [some v] ∧ Val.at [0] v = some (.str name)) ∧
      (∃ v, ieValuesById pdu (ieGlobalRANNodeID : Int) = some [some v] ∧ Val.at [1, 0, 1, 1, 0] v = some (.bits g bl.toNat)) := by
  have ht : tGetNGSetupRequest ∈ Proofs.Builders.allTable := List.mem_append_right _ (by simp)
  obtain ⟨pdu, b, hb, he, hd⟩ := C01_builder_seen E _ ht plmn _
    (inRange_ngSetupRequest E plmn g m name bl hm h22 h32 hg hc hname) rfl
  have hsh := Proofs.Builders.build_shaped E _ plmn _ pdu hb
  refine ⟨pdu, b, ?_, hd, isMessage_of_shaped E _ ht plmn _ pdu hsh, ?_, ?_⟩
  · unfold Wrapper.run
    rw [ngsetup_wrapper_eq, hb]
    simp only [he]
  · exact Props.C13.C13_carries_name E _ ht 3 (by decide) plmn _ pdu hsh (.str name) rfl
  · exact Props.C13.C13_carries_gnbid_ngsetup E _ ht 0 2 (by decide) (by decide) plmn _ pdu hsh (.octs g) (.int bl) rfl rfl

open Stgutg.Proofs.BuildersRange Stgutg.Proofs.BuildersRoles Stgutg.Proofs.BuildersPath in
/-- **C01_initial_ue_message_seen.** UL2, for every RAN-UE-NGAP-ID in 0..2^32−1, every NAS-PDU and every announced 3-octet
    PLMN: `GetInitialUEMessage(ran, nas, "")` returns octets which the reference AMF decodes to INITIAL UE MESSAGE with its
    mandatory IEs, that RAN-UE-NGAP-ID and that NAS-PDU. -/
theorem C01_initial_ue_message_seen (E : Model.Convert.Ext) (plmn : Bytes) (hplmn : plmn.length = 3) (ran : Int) (nas : Bytes)
    (hr0 : 0 ≤ ran) (hr1 : ran < 2 ^ 32) :
    ∃ pdu b, Wrapper.run E .GetInitialUEMessage plmn [.int ran, .octs nas, .str []] = .ok (.ok b) ∧
      Spec.Amf.decodeNgap b = some pdu ∧ IsMessage pdu .InitialUEMessage ∧
      (∃ v, ieValuesById pdu (ieRANUENGAPID : Int) = some [some v] ∧ Val.at [0] v = some (.int ran)) ∧
      (∃ v, ieValuesById pdu (ieNASPDU : Int) = some [some v] ∧ Val.at [0] v = some (.octs nas)) := by
  have ht : tInitialUEMessage ∈ Proofs.Builders.allTable := mem_allTable_hand (by simp [handTable])
  obtain ⟨pdu, b, hb, he, hd⟩ := C01_builder_seen E _ ht plmn _
    (inRange_initialUEMessage E plmn hplmn ran nas hr0 hr1) rfl
  have hw : Wrapper.pdu E .GetInitialUEMessage plmn [.int ran, .octs nas, .str []] = .ok pdu := hb
  obtain ⟨h1, h2, h3⟩ := C01_ngap_initial_ue_message E plmn ran nas pdu hw
  exact ⟨pdu, b, by unfold Wrapper.run; rw [hw]; simp only [he], hd, h1, h2, h3⟩

open Stgutg.Proofs.BuildersRange Stgutg.Proofs.BuildersRoles Stgutg.Proofs.BuildersPath in
/-- **C01_uplink_nas_transport_seen.** UL3, UL4, UL6, for every AMF-UE-NGAP-ID the AMF may assign (0..2^40−1), every
    RAN-UE-NGAP-ID in 0..2^32−1 and every NAS-PDU: `GetUplinkNASTransport` returns octets which the reference AMF decodes
    to UPLINK NAS TRANSPORT with its mandatory IEs and exactly these three values. -/
theorem C01_uplink_nas_transport_seen (E : Model.Convert.Ext) (plmn : Bytes) (hplmn : plmn.length = 3) (amf ran : Int)
    (nas : Bytes) (ha0 : 0 ≤ amf) (ha1 : amf < 2 ^ 40) (hr0 : 0 ≤ ran) (hr1 : ran < 2 ^ 32) :
    ∃ pdu b, Wrapper.run E .GetUplinkNASTransport plmn [.int amf, .int ran, .octs nas] = .ok (.ok b) ∧
      Spec.Amf.decodeNgap b = some pdu ∧ IsMessage pdu .UplinkNASTransport ∧
      (∃ v, ieValuesById pdu (ieAMFUENGAPID : Int) = some [some v] ∧ Val.at [0] v = some (.int amf)) ∧
      (∃ v, ieValuesById pdu (ieRANUENGAPID : Int) = some [some v] ∧ Val.at [0] v = some (.int ran)) ∧
      (∃ v, ieValuesById pdu (ieNASPDU : Int) = some [some v] ∧ Val.at [0] v = some (.octs nas)) := by
  have ht : tUplinkNasTransport ∈ Proofs.Builders.allTable := mem_allTable_hand (by simp [handTable])
  obtain ⟨pdu, b, hb, he, hd⟩ := C01_builder_seen E _ ht plmn _
    (inRange_uplinkNasTransport E plmn hplmn amf ran nas ha0 ha1 hr0 hr1) rfl
  have hw : Wrapper.pdu E .GetUplinkNASTransport plmn [.int amf, .int ran, .octs nas] = .ok pdu := hb
  obtain ⟨h1, h2, h3, h4⟩ := C01_ngap_uplink_nas_transport E plmn amf ran nas pdu hw
  exact ⟨pdu, b, by unfold Wrapper.run; rw [hw]; simp only [he], hd, h1, h2, h3, h4⟩

open Stgutg.Proofs.BuildersRange Stgutg.Proofs.BuildersRoles Stgutg.Proofs.BuildersPath in
/-- **C01_initial_context_setup_response_seen.** UL5. -/
theorem C01_initial_context_setup_response_seen (E : Model.Convert.Ext) (plmn : Bytes) (hplmn : plmn.length = 3)
    (amf ran : Int) (ha0 : 0 ≤ amf) (ha1 : amf < 2 ^ 40) (hr0 : 0 ≤ ran) (hr1 : ran < 2 ^ 32) :
    ∃ pdu b, Wrapper.run E .GetInitialContextSetupResponse plmn [.int amf, .int ran] = .ok (.ok b) ∧
      Spec.Amf.decodeNgap b = some pdu ∧ IsMessage pdu .InitialContextSetupResponse ∧
      (∃ v, ieValuesById pdu (ieAMFUENGAPID : Int) = some [some v] ∧ Val.at [0] v = some (.int amf)) ∧
      (∃ v, ieValuesById pdu (ieRANUENGAPID : Int) = some [some v] ∧ Val.at [0] v = some (.int ran)) := by
  have ht : tInitialContextSetupResponseForRegistraionTest ∈ Proofs.Builders.allTable := mem_allTable_hand (by simp [handTable])
  obtain ⟨pdu, b, hb, he, hd⟩ := C01_builder_seen E _ ht plmn _
    (inRange_initialContextSetupResponse E plmn hplmn amf ran ha0 ha1 hr0 hr1) rfl
  have hw : Wrapper.pdu E .GetInitialContextSetupResponse plmn [.int amf, .int ran] = .ok pdu := hb
  obtain ⟨h1, h2, h3⟩ := C01_ngap_initial_context_setup_response E plmn amf ran pdu hw
  exact ⟨pdu, b, by unfold Wrapper.run; rw [hw]; simp only [he], hd, h1, h2, h3⟩

/-! ### the reference AMF's `step` on the uplink messages of the exchange (Spec/Amf.lean), in conversation order

  Each theorem: for ALL configurations / AMF choices in the stated ranges, the octets the emulator's wrapper returns make the
  judge's `step` raise no clause and move its state as the conversation expects. Together they are the per-message
  obligations of `C01_accepted_statement`; what is not threaded yet is listed at `C01_accepted_statement`. -/

open Stgutg.Proofs.BuildersJudge Stgutg.Proofs.BuildersRoles in
/-- **C01_step_ng_setup_request.** UL1: on the NG SETUP REQUEST `ManageNGSetup` sends (gNB id of 22..32 bits, non-empty
    name, the 3-octet PLMN `m` of the configuration: `C01_plmn`), an AMF configured with that PLMN that has not seen an NG Setup
    on the association raises no clause and records the setup. -/
theorem C01_step_ng_setup_request (P : Prims) (cfg : Spec.Amf.Cfg) (chs : List Spec.Amf.Choice) (s : Spec.Amf.St) (k : Nat)
    (E : Model.Convert.Ext) (plmn g m name : Bytes) (bl : Int)
    (hm : m.length = 3) (h22 : 22 ≤ bl) (h32 : bl ≤ 32) (hg : g.length = (bl.toNat + 7) / 8)
    (hc : Canonical g bl.toNat) (hname : 1 ≤ name.length)
    (hcfg : Spec.Amf.plmnOf cfg = some m) (hfirst : s.ngSetup = false) :
    ∃ b, Wrapper.run E .GetNGSetupRequest plmn [.octs g, .octs m, .int bl, .str name] = .ok (.ok b) ∧
      Spec.Amf.step P cfg chs s k b = { s with ngSetup := true } := by
  obtain ⟨pdu, b, hw, hd, f1, f2, f3, f4⟩ := ngSetupRequest_wire E plmn g m name bl hm h22 h32 hg hc hname
  exact ⟨b, hw, step_ngSetupRequest P cfg chs s k b pdu m hd f1 f2 f3 f4 hcfg hfirst⟩

open Stgutg.Proofs.BuildersJudge in
/-- **C01_step_initial_ue_message.** UL2, NGAP layer: after NG Setup the INITIAL UE MESSAGE carrying a plain Registration
    Request `nas` raises no NGAP clause (decodable, expected message, mandatory IEs) and the judge goes on with
    `onRegistrationRequest` on exactly the RAN-UE-NGAP-ID and NAS-PDU the emulator passed. -/
theorem C01_step_initial_ue_message (P : Prims) (cfg : Spec.Amf.Cfg) (chs : List Spec.Amf.Choice) (s : Spec.Amf.St) (k : Nat)
    (E : Model.Convert.Ext) (plmn : Bytes) (hplmn : plmn.length = 3) (ran : Int) (nas : Bytes)
    (hr0 : 0 ≤ ran) (hr1 : ran < 2 ^ 32) (hsetup : s.ngSetup = true)
    (hplain : Spec.Amf.byteAt nas 1 % 16 = 0) (hty : Spec.Amf.byteAt nas 2 = 0x41) :
    ∃ pdu b, Wrapper.run E .GetInitialUEMessage plmn [.int ran, .octs nas, .str []] = .ok (.ok b) ∧
      Spec.Amf.ieInt pdu ieRANUENGAPID = some ran ∧
      Spec.Amf.step P cfg chs s k b = Spec.Amf.onRegistrationRequest P cfg chs s k pdu nas := by
  obtain ⟨pdu, b, hw, hd, f1, f2, f3, f4, f5⟩ := initialUEMessage_wire E plmn hplmn ran nas hr0 hr1
  exact ⟨pdu, b, hw, f4, step_initialUEMessage P cfg chs s k b pdu nas hd f1 f2 f3 f5 hsetup hplain hty⟩

open Stgutg.Proofs.BuildersJudge in
/-- **C01_step_uplink_nas_transport.** UL3, UL4, UL6, NGAP layer: UPLINK NAS TRANSPORT from the UE the AMF knows under this
    RAN-UE-NGAP-ID, with the AMF-UE-NGAP-ID the AMF assigned (any value in 0..2^40−1): no NGAP clause (decodable, expected
    message, mandatory IEs, both identifiers as assigned); the NAS-PDU goes to the plain / protected NAS handler unchanged. -/
theorem C01_step_uplink_nas_transport (P : Prims) (cfg : Spec.Amf.Cfg) (chs : List Spec.Amf.Choice) (s : Spec.Amf.St) (k : Nat)
    (E : Model.Convert.Ext) (plmn : Bytes) (hplmn : plmn.length = 3) (ran : Int) (nas : Bytes)
    (hr0 : 0 ≤ ran) (hr1 : ran < 2 ^ 32)
    (u : Spec.Amf.UeSt) (hu : s.ues.find? (·.ran == ran) = some u) (ha1 : u.ch.amfUeNgapId < 2 ^ 40) :
    ∃ b, Wrapper.run E .GetUplinkNASTransport plmn [.int u.ch.amfUeNgapId, .int ran, .octs nas] = .ok (.ok b) ∧
      Spec.Amf.step P cfg chs s k b =
        if Spec.Amf.byteAt nas 1 % 16 == 0 then Spec.Amf.onPlainUplink s k u nas
        else Spec.Amf.onProtectedUplink P cfg s k u false nas := by
  obtain ⟨pdu, b, hw, hd, f1, f2, f3, f4, f5, f6⟩ := uplinkNasTransport_wire E plmn hplmn (u.ch.amfUeNgapId : Int) ran nas
    (by omega) (by exact_mod_cast ha1) hr0 hr1
  exact ⟨b, hw, step_uplinkNasTransport P cfg chs s k b pdu _ ran nas hd f1 f2 f3 f4 f5 f6 u hu rfl⟩

open Stgutg.Proofs.BuildersJudge in
/-- **C01_step_initial_context_setup_response.** UL5: INITIAL CONTEXT SETUP RESPONSE with the assigned identifiers from a UE
    whose INITIAL CONTEXT SETUP REQUEST is outstanding: no clause; the response is recorded (the UE is REGISTERED once
    Registration Complete has been seen as well). -/
theorem C01_step_initial_context_setup_response (P : Prims) (cfg : Spec.Amf.Cfg) (chs : List Spec.Amf.Choice) (s : Spec.Amf.St)
    (k : Nat) (E : Model.Convert.Ext) (plmn : Bytes) (hplmn : plmn.length = 3) (ran : Int) (hr0 : 0 ≤ ran) (hr1 : ran < 2 ^ 32)
    (u : Spec.Amf.UeSt) (hu : s.ues.find? (·.ran == ran) = some u) (ha1 : u.ch.amfUeNgapId < 2 ^ 40)
    (hsvc : u.svcPending = false) (c : Bool) (hreg : u.reg = .ctxSetup false c) :
    ∃ b, Wrapper.run E .GetInitialContextSetupResponse plmn [.int u.ch.amfUeNgapId, .int ran] = .ok (.ok b) ∧
      Spec.Amf.step P cfg chs s k b = s.setUe { u with reg := if c then .registered else .ctxSetup true c } := by
  obtain ⟨pdu, b, hw, hd, f1, f2, f3, f4, f5⟩ := initialContextSetupResponse_wire E plmn hplmn (u.ch.amfUeNgapId : Int) ran
    (by omega) (by exact_mod_cast ha1) hr0 hr1
  exact ⟨b, hw, step_initialContextSetupResponse P cfg chs s k b pdu _ ran hd f1 f2 f3 f4 f5 u hu rfl hsvc c hreg⟩

set_option maxRecDepth 100000 in
theorem wire_authenticationResponse_mand :
    (Props.C09.wireOf Gen.Nas.layout_AuthenticationResponse).map (·.mand) = some [.v 1, .v 1, .v 1] := by decide +kernel

open Stgutg.Proofs.BuildersJudge in
/-- **C01_step_authentication_response.** UL3 complete: UPLINK NAS TRANSPORT carrying the AUTHENTICATION RESPONSE built from
    a 16-octet RES* equal to the XRES* of the network's vector (`C01_res_star`), from the UE in state "authentication request
    sent": the judge's `step` raises NO clause — NGAP and NAS — and moves the UE to "security mode command sent". -/
theorem C01_step_authentication_response (P : Prims) (cfg : Spec.Amf.Cfg) (chs : List Spec.Amf.Choice) (s : Spec.Amf.St) (k : Nat)
    (E : Model.Convert.Ext) (plmn : Bytes) (hplmn : plmn.length = 3) (ran : Int) (hr0 : 0 ≤ ran) (hr1 : ran < 2 ^ 32)
    (u : Spec.Amf.UeSt) (hu : s.ues.find? (·.ran == ran) = some u) (ha1 : u.ch.amfUeNgapId < 2 ^ 40)
    (resStar : Bytes) (h16 : resStar.length = 16) (hreg : u.reg = .authSent) (hres : resStar = u.aka.resStar) :
    ∃ nas b, Nas.Ctor.encodeWith Gen.Nas.layout_AuthenticationResponse (Nas.Ctor.authenticationResponse resStar []) = .ok nas ∧
      Wrapper.run E .GetUplinkNASTransport plmn [.int u.ch.amfUeNgapId, .int ran, .octs nas] = .ok (.ok b) ∧
      Spec.Amf.step P cfg chs s k b = s.setUe { u with reg := .smcSent } := by
  obtain ⟨nas, henc, hplainStep⟩ := C01_authentication_response_accepted s k u resStar h16 hreg hres
  obtain ⟨w, nas', hw, henc', hparse⟩ := Props.C09.C09_ctor_authenticationResponse resStar [] (.inl h16)
  rw [henc] at henc'
  cases henc'
  have hmand : w.mand = [.v 1, .v 1, .v 1] := by
    have := wire_authenticationResponse_mand
    rw [hw] at this
    simpa using this
  obtain ⟨_, hb1, _⟩ := parse_header w nas _ [] hmand hparse 0x7E 0x00 0x57 [] rfl
  obtain ⟨b, hrun, hstep⟩ := C01_step_uplink_nas_transport P cfg chs s k E plmn hplmn ran nas hr0 hr1 u hu ha1
  refine ⟨nas, b, henc, hrun, ?_⟩
  rw [hstep, hb1]
  simp only [UInt8.toNat_ofNat, Nat.zero_mod, beq_self_eq_true, if_true]
  exact hplainStep

theorem table_registrationComplete :
    Spec.Ts24501.tableByName "RegistrationComplete" = some Spec.Ts24501.registrationComplete := by rfl

set_option maxRecDepth 100000 in
theorem wire_registrationComplete_mand :
    (Props.C09.wireOf Gen.Nas.layout_RegistrationComplete).map (·.mand) = some [.v 1, .v 1, .v 1] := by decide +kernel

/-- the judge's protected-NAS handler on an accepted REGISTRATION COMPLETE -/
theorem onProtected_registrationComplete (P : Prims) (cfg : Spec.Amf.Cfg) (s : Spec.Amf.St) (k : Nat) (u : Spec.Amf.UeSt)
    (nas rc : Bytes) (c : Nat) (ics cflag : Bool) (hsht : Spec.Amf.byteAt nas 1 = 2) (hreg : u.reg = .ctxSetup ics cflag)
    (hrul : Spec.Amf.receiveUl P u true [2] nas = .ok (rc, c))
    (hb0 : Spec.Amf.byteAt rc 0 = 0x7E) (hb1 : Spec.Amf.byteAt rc 1 = 0) (hb2 : Spec.Amf.byteAt rc 2 = 0x43)
    (hparse : (Spec.Amf.parseNas Spec.Ts24501.registrationComplete rc).isSome = true) :
    Spec.Amf.onProtectedUplink P cfg s k u false nas =
      s.setUe { Spec.Amf.accepted u 2 c with reg := if ics then .registered else .ctxSetup ics true } := by
  have hsmc : (Spec.Amf.Reg.ctxSetup ics cflag == Spec.Amf.Reg.smcSent) = false := by cases ics <;> cases cflag <;> rfl
  have haccreg : (Spec.Amf.accepted u 2 c).reg = .ctxSetup ics cflag := by
    simp [Spec.Amf.accepted, Spec.NasSecurity.newContext, hreg]
  unfold Spec.Amf.onProtectedUplink
  simp only [hsht, hreg, hsmc, Bool.false_eq_true, if_false, hrul, hb0, hb1, hb2, hparse, if_true]
  simp [haccreg]

open Stgutg.Proofs.BuildersJudge in
/-- **C01_step_registration_complete.** UL6 complete: the REGISTRATION COMPLETE the emulator builds, protected by
    `EncodeNasPduWithSecurity(ue, rc, 2, true, false)` under the keys of the network's vector (`InStep`) and the UL NAS COUNT
    one above the last the AMF accepted (`C01_registration_protected`: 1 after Security Mode Complete's 0), sent in UPLINK NAS
    TRANSPORT with the assigned identifiers by a UE whose INITIAL CONTEXT SETUP REQUEST was sent: the judge's `step` raises NO
    clause — NGAP, security header type 2, NAS COUNT = previous + 1 and never used, MAC, the plain message parses as
    REGISTRATION COMPLETE — accepts the COUNT and marks Registration Complete seen (REGISTERED when the INITIAL CONTEXT SETUP
    RESPONSE was seen before, as in the emulator's order). -/
theorem C01_step_registration_complete (P : Prims) (hP : PrimsOk P) (cfg : Spec.Amf.Cfg) (chs : List Spec.Amf.Choice)
    (s : Spec.Amf.St) (k : Nat) (E : Model.Convert.Ext) (plmn : Bytes) (hplmn : plmn.length = 3) (ran : Int)
    (hr0 : 0 ≤ ran) (hr1 : ran < 2 ^ 32)
    (u : Spec.Amf.UeSt) (hu : s.ues.find? (·.ran == ran) = some u) (ha1 : u.ch.amfUeNgapId < 2 ^ 40)
    (sec : UeSec) (hin : InStep sec u) (l : Nat) (hlast : u.last = some l) (hcnt : cval sec.ulCount = l + 1)
    (hused : u.used.contains (l + 1) = false) (ics cflag : Bool) (hreg : u.reg = .ctxSetup ics cflag) :
    ∃ rc o2 b, Nas.Ctor.encodeWith Gen.Nas.layout_RegistrationComplete (Nas.Ctor.registrationComplete none) = .ok rc ∧
      (Model.NasProtect.encodeNasPduWithSecurity P sec rc 2 true false).2 = .ok o2 ∧
      Wrapper.run E .GetUplinkNASTransport plmn [.int u.ch.amfUeNgapId, .int ran, .octs o2] = .ok (.ok b) ∧
      Spec.Amf.step P cfg chs s k b =
        s.setUe { Spec.Amf.accepted u 2 (l + 1) with reg := if ics then .registered else .ctxSetup ics true } := by
  obtain ⟨w, rc, hw, henc, hparse⟩ := Props.C09.C09_ctor_registrationComplete none (by simp)
  have hmand : w.mand = [.v 1, .v 1, .v 1] := by
    have := wire_registrationComplete_mand
    rw [hw] at this
    simpa using this
  obtain ⟨hb0, hb1, hb2⟩ := parse_header w rc _ [] hmand hparse 0x7E 0x00 0x43 [] rfl
  have hw' : Spec.Ts24501.registrationComplete.wire = some w := by
    unfold Props.C09.wireOf at hw
    have : Gen.Nas.layout_RegistrationComplete.name = "RegistrationComplete" := rfl
    rw [this, table_registrationComplete] at hw
    exact hw
  obtain ⟨o2, ho2, b1, b6, hrecv, _, _⟩ := protected_step P hP sec u hin rc 2 false rfl
  simp only [Bool.false_eq_true, if_false] at b6 hrecv
  rw [hcnt] at b6 hrecv
  have hb1' : Spec.Amf.byteAt o2 1 = 2 := b1
  have hrul : Spec.Amf.receiveUl P u true [2] o2 = .ok (rc, l + 1) := by
    apply receiveUl_of_receive P u true [2] o2 rc (l + 1)
    · rw [hb1']; rfl
    · rw [hb1']; simp [Spec.Amf.expectedCount, Spec.NasSecurity.newContext, hlast]
    · rw [hb1']; simp [Spec.Amf.fresh, Spec.NasSecurity.newContext, hlast]; simpa using hused
    · exact hrecv
  obtain ⟨b, hrun, hstep⟩ := C01_step_uplink_nas_transport P cfg chs s k E plmn hplmn ran o2 hr0 hr1 u hu ha1
  refine ⟨rc, o2, b, henc, ho2, hrun, ?_⟩
  rw [hstep, hb1']
  have hparse' : (Spec.Amf.parseNas Spec.Ts24501.registrationComplete rc).isSome = true := by
    unfold Spec.Amf.parseNas
    rw [hw']
    simp [hparse]
  simp only [show ((2 : Nat) % 16 == 0) = false from rfl, Bool.false_eq_true, if_false]
  exact onProtected_registrationComplete P cfg s k u o2 rc (l + 1) ics cflag hb1' hreg hrul hb0 hb1 hb2 hparse'

theorem table_registrationRequest :
    Spec.Ts24501.tableByName "RegistrationRequest" = some Spec.Ts24501.registrationRequest := by rfl

theorem table_securityModeComplete :
    Spec.Ts24501.tableByName "SecurityModeComplete" = some Spec.Ts24501.securityModeComplete := by rfl

set_option maxRecDepth 100000 in
theorem wire_heads :
    (Props.C09.wireOf Gen.Nas.layout_RegistrationRequest).map (·.mand.take 3) = some [.v 1, .v 1, .v 1] ∧
    (Props.C09.wireOf Gen.Nas.layout_SecurityModeComplete).map (·.mand.take 3) = some [.v 1, .v 1, .v 1] := by decide +kernel

/-- the judge's handler on a parsed plain REGISTRATION REQUEST: with the subscriber identified from the SUCI, a choice and
    vector for it, no reuse of SUPI / RAN-UE-NGAP-ID, and a security capability announcing the selected algorithms, no clause
    is raised and the UE's state is opened -/
theorem onRegistrationRequest_ok (P : Prims) (cfg : Spec.Amf.Cfg) (chs : List Spec.Amf.Choice) (s : Spec.Amf.St) (k : Nat)
    (pdu : Aper.Val) (nas suci cap : Bytes) (ran : Int) (w : Spec.Ts24501.Wire)
    (hw : Spec.Ts24501.registrationRequest.wire = some w) (o10 : Option Bytes)
    (hparse : Spec.Ts24501.parse w nas = some (Spec.Ts24501.Intended.registrationRequest 1 suci none (some cap) o10 none none))
    (hran : Spec.Amf.ieInt pdu ieRANUENGAPID = some ran)
    (j : Nat) (ch : Spec.Amf.Choice) (aka : Spec.Ts33501A.Aka) (hsub : Spec.Amf.subscriberOf cfg suci = some j)
    (hch : chs[j]? = some ch) (hvec : Spec.Amf.vector P cfg j ch = some aka)
    (hnew : s.ues.any (·.j == j) = false) (hnewran : s.ues.any (·.ran == ran) = false)
    (hea : Spec.Identity.eaSupported cap Spec.Amf.selectedEa = true) (hia : Spec.Identity.iaSupported cap Spec.Amf.selectedIa = true) :
    Spec.Amf.onRegistrationRequest P cfg chs s k pdu nas =
      { s with ues := s.ues ++ [{ j := j, ran := ran, ch := ch, aka := aka }] } := by
  unfold Spec.Amf.onRegistrationRequest Spec.Amf.parseNas
  rw [hw]
  simp only [Option.bind_some, hparse]
  have hopt : Spec.Amf.optIE (Spec.Ts24501.Intended.registrationRequest 1 suci none (some cap) o10 none none) 0x2E = some cap := by
    cases o10 <;> simp [Spec.Amf.optIE, Spec.Ts24501.Intended.registrationRequest, Spec.Ts24501.Intended.present]
  simp [Spec.Ts24501.Intended.registrationRequest, hsub, hch, hran, hvec, hnew, hnewran] at hopt ⊢
  simp [hopt, hea, hia]

open Stgutg.Proofs.BuildersJudge in
/-- **C01_step_registration_request.** UL2 complete, given that the reference AMF identifies subscriber `j` from the SUCI
    (`hsub`; C01_suci states the SUCI's content for every configuration — carrying it into the reference AMF's own decimal
    arithmetic is the part not done): the INITIAL UE MESSAGE with the REGISTRATION REQUEST the emulator builds (registration
    type 1, the SUCI `mi`, the UE security capability `secCap`) raises NO clause in the judge's `step` — NGAP and NAS — and opens
    the UE's state with the RAN-UE-NGAP-ID it carries. -/
theorem C01_step_registration_request (P : Prims) (cfg : Spec.Amf.Cfg) (chs : List Spec.Amf.Choice) (s : Spec.Amf.St) (k : Nat)
    (E : Model.Convert.Ext) (plmn : Bytes) (hplmn : plmn.length = 3) (ran : Int) (hr0 : 0 ≤ ran) (hr1 : ran < 2 ^ 32)
    (hsetup : s.ngSetup = true) (mi secCap : Nas.Val)
    (hmi : mi.iei = 0 ∧ mi.len = mi.data.length ∧ mi.data.length < 65536)
    (hsc : secCap.iei = 0x2E ∧ secCap.len = secCap.data.length ∧ secCap.data.length < 256)
    (hea : Spec.Identity.eaSupported secCap.data Spec.Amf.selectedEa = true)
    (hia : Spec.Identity.iaSupported secCap.data Spec.Amf.selectedIa = true)
    (j : Nat) (ch : Spec.Amf.Choice) (aka : Spec.Ts33501A.Aka) (hsub : Spec.Amf.subscriberOf cfg mi.data = some j)
    (hch : chs[j]? = some ch) (hvec : Spec.Amf.vector P cfg j ch = some aka)
    (hnew : s.ues.any (·.j == j) = false) (hnewran : s.ues.any (·.ran == ran) = false) :
    ∃ nas b, Nas.Ctor.encodeWith Gen.Nas.layout_RegistrationRequest
        (Nas.Ctor.registrationRequest 1 mi none (some secCap) none none none) = .ok nas ∧
      Wrapper.run E .GetInitialUEMessage plmn [.int ran, .octs nas, .str []] = .ok (.ok b) ∧
      Spec.Amf.step P cfg chs s k b = { s with ues := s.ues ++ [{ j := j, ran := ran, ch := ch, aka := aka }] } := by
  obtain ⟨w, nas, hw, henc, hparse⟩ := Props.C09.C09_ctor_registrationRequest 1 mi none (some secCap) none none none
    (by decide) hmi (by intro x hx; cases hx) (by intro x hx; cases hx; exact hsc) (by intro x hx; cases hx)
    (by intro x hx; cases hx) (by intro c hc; cases hc)
  have hhead : w.mand.take 3 = [.v 1, .v 1, .v 1] := by
    have := wire_heads.1
    rw [hw] at this
    simpa using this
  obtain ⟨_, hb1, hb2⟩ := parse_header' w nas _ hhead hparse 0x7E 0x00 0x41 _ rfl
  have hw' : Spec.Ts24501.registrationRequest.wire = some w := by
    unfold Props.C09.wireOf at hw
    have : Gen.Nas.layout_RegistrationRequest.name = "RegistrationRequest" := rfl
    rw [this, table_registrationRequest] at hw
    exact hw
  obtain ⟨pdu, b, hrun, hran, hstep⟩ := C01_step_initial_ue_message P cfg chs s k E plmn hplmn ran nas hr0 hr1 hsetup
    (by rw [hb1]; rfl) (by rw [hb2]; rfl)
  refine ⟨nas, b, henc, hrun, ?_⟩
  rw [hstep]
  exact onRegistrationRequest_ok P cfg chs s k pdu nas mi.data secCap.data ran w hw' none hparse hran j ch aka hsub hch hvec
    hnew hnewran hea hia

/-- the judge's protected-NAS handler on an accepted SECURITY MODE COMPLETE whose NAS message container holds a complete
    Registration Request naming the same subscriber and announcing the selected algorithms -/
theorem onProtected_securityModeComplete (P : Prims) (cfg : Spec.Amf.Cfg) (s : Spec.Amf.St) (k : Nat) (u : Spec.Amf.UeSt)
    (nas smc rr suci cap : Bytes) (hsht : Spec.Amf.byteAt nas 1 = 4) (hreg : u.reg = .smcSent)
    (hrul : Spec.Amf.receiveUl P u true [4] nas = .ok (smc, 0))
    (hb0 : Spec.Amf.byteAt smc 0 = 0x7E) (hb1 : Spec.Amf.byteAt smc 1 = 0) (hb2 : Spec.Amf.byteAt smc 2 = 0x5E)
    (w : Spec.Ts24501.Wire) (hw : Spec.Ts24501.securityModeComplete.wire = some w)
    (hparse : Spec.Ts24501.parse w smc = some (Spec.Ts24501.Intended.securityModeComplete (some rr)))
    (w2 : Spec.Ts24501.Wire) (hw2 : Spec.Ts24501.registrationRequest.wire = some w2) (o10 : Option Bytes)
    (hparse2 : Spec.Ts24501.parse w2 rr = some (Spec.Ts24501.Intended.registrationRequest 1 suci none (some cap) o10 none none))
    (hsuci : Spec.Amf.suciIs cfg u.j suci = true)
    (hea : Spec.Identity.eaSupported cap Spec.Amf.selectedEa = true) (hia : Spec.Identity.iaSupported cap Spec.Amf.selectedIa = true) :
    Spec.Amf.onProtectedUplink P cfg s k u false nas =
      s.setUe { Spec.Amf.accepted u 4 0 with reg := .ctxSetup false false } := by
  have hj : (Spec.Amf.accepted u 4 0).j = u.j := by simp [Spec.Amf.accepted, Spec.NasSecurity.newContext]
  have hopt : Spec.Amf.optIE (Spec.Ts24501.Intended.registrationRequest 1 suci none (some cap) o10 none none) 0x2E = some cap := by
    cases o10 <;> simp [Spec.Amf.optIE, Spec.Ts24501.Intended.registrationRequest, Spec.Ts24501.Intended.present]
  have hcont : Spec.Amf.optIE (Spec.Ts24501.Intended.securityModeComplete (some rr)) 0x71 = some rr := by
    simp [Spec.Amf.optIE, Spec.Ts24501.Intended.securityModeComplete, Spec.Ts24501.Intended.present]
  have hm4 : (Spec.Ts24501.Intended.registrationRequest 1 suci none (some cap) o10 none none).mand[4]?.getD [] = suci := by
    simp [Spec.Ts24501.Intended.registrationRequest]
  unfold Spec.Amf.onProtectedUplink
  simp only [hsht, hreg, beq_self_eq_true, if_true, hrul, hb0, hb1, hb2]
  simp only [Spec.Amf.parseNas, hw, hw2, Option.bind_some, hparse, hcont, hparse2, hm4, hopt, hj, hsuci, hea, hia]
  simp

open Stgutg.Proofs.BuildersJudge in
/-- **C01_step_security_mode_complete.** UL4 complete, given that the SUCI names the UE's subscriber in the reference AMF's
    arithmetic (`hsuci`, as in `C01_step_registration_request`) and that the complete Registration Request fits the NAS message
    container (`hrr`: below 64 KiB — it is 3 + 1 + 2 + |SUCI| + 3 + 2 + |capability| octets): the SECURITY MODE COMPLETE the
    emulator builds (IMEISV, NAS message container = the Registration Request with the 5GMM capability), protected by
    `EncodeNasPduWithSecurity(ue, smc, 4, true, true)` under the keys of the network's vector, sent in UPLINK NAS TRANSPORT with
    the assigned identifiers by a UE in state "security mode command sent": the judge's `step` raises NO clause — NGAP, header
    type 4, NAS COUNT 0, MAC, SECURITY MODE COMPLETE parses, the container parses as a Registration Request naming the same
    subscriber and announcing the selected algorithms — and takes the new context into use (COUNT 0 accepted). -/
theorem C01_step_security_mode_complete (P : Prims) (hP : PrimsOk P) (cfg : Spec.Amf.Cfg) (chs : List Spec.Amf.Choice)
    (s : Spec.Amf.St) (k : Nat) (E : Model.Convert.Ext) (plmn : Bytes) (hplmn : plmn.length = 3) (ran : Int)
    (hr0 : 0 ≤ ran) (hr1 : ran < 2 ^ 32)
    (u : Spec.Amf.UeSt) (hu : s.ues.find? (·.ran == ran) = some u) (ha1 : u.ch.amfUeNgapId < 2 ^ 40)
    (sec : UeSec) (hin : InStep sec u) (hreg : u.reg = .smcSent) (mi secCap : Nas.Val)
    (hmi : mi.iei = 0 ∧ mi.len = mi.data.length ∧ mi.data.length < 65536)
    (hsc : secCap.iei = 0x2E ∧ secCap.len = secCap.data.length ∧ secCap.data.length < 256)
    (hea : Spec.Identity.eaSupported secCap.data Spec.Amf.selectedEa = true)
    (hia : Spec.Identity.iaSupported secCap.data Spec.Amf.selectedIa = true)
    (hsuci : Spec.Amf.suciIs cfg u.j mi.data = true)
    (hrr : ∀ rr, Nas.Ctor.encodeWith Gen.Nas.layout_RegistrationRequest
      (Nas.Ctor.registrationRequest 1 mi none (some secCap) (some cap5GMMVal) none none) = .ok rr → rr.length < 65536) :
    ∃ rr smc o1 b,
      Nas.Ctor.encodeWith Gen.Nas.layout_RegistrationRequest
        (Nas.Ctor.registrationRequest 1 mi none (some secCap) (some cap5GMMVal) none none) = .ok rr ∧
      Nas.Ctor.encodeWith Gen.Nas.layout_SecurityModeComplete (Nas.Ctor.securityModeComplete (some rr)) = .ok smc ∧
      (Model.NasProtect.encodeNasPduWithSecurity P sec smc 4 true true).2 = .ok o1 ∧
      Wrapper.run E .GetUplinkNASTransport plmn [.int u.ch.amfUeNgapId, .int ran, .octs o1] = .ok (.ok b) ∧
      Spec.Amf.step P cfg chs s k b = s.setUe { Spec.Amf.accepted u 4 0 with reg := .ctxSetup false false } ∧
      InStep (Model.NasProtect.encodeNasPduWithSecurity P sec smc 4 true true).1 u ∧
      cval (Model.NasProtect.encodeNasPduWithSecurity P sec smc 4 true true).1.ulCount = 1 := by
  obtain ⟨w2, rr, hw2, henc2, hparse2⟩ := Props.C09.C09_ctor_registrationRequest 1 mi none (some secCap) (some cap5GMMVal) none none
    (by decide) hmi (by intro x hx; cases hx) (by intro x hx; cases hx; exact hsc)
    (by intro x hx; cases hx) (by intro x hx; cases hx; decide) (by intro c hc; cases hc)
  obtain ⟨w, smc, hw, henc, hparse⟩ := Props.C09.C09_ctor_securityModeComplete (some rr) (by intro c hc; cases hc; exact hrr rr henc2)
  have hhead : w.mand.take 3 = [.v 1, .v 1, .v 1] := by
    have := wire_heads.2
    rw [hw] at this
    simpa using this
  obtain ⟨hb0, hb1, hb2⟩ := parse_header' w smc _ hhead hparse 0x7E 0x00 0x5E _ rfl
  have hw' : Spec.Ts24501.securityModeComplete.wire = some w := by
    unfold Props.C09.wireOf at hw
    have : Gen.Nas.layout_SecurityModeComplete.name = "SecurityModeComplete" := rfl
    rw [this, table_securityModeComplete] at hw
    exact hw
  have hw2' : Spec.Ts24501.registrationRequest.wire = some w2 := by
    unfold Props.C09.wireOf at hw2
    have : Gen.Nas.layout_RegistrationRequest.name = "RegistrationRequest" := rfl
    rw [this, table_registrationRequest] at hw2
    exact hw2
  obtain ⟨o1, ho1, a1, a6, hrecv, hin1, hc1⟩ := protected_step P hP sec u hin smc 4 true rfl
  simp only [if_true] at a6 hrecv hc1
  have ha1' : Spec.Amf.byteAt o1 1 = 4 := a1
  have hrul : Spec.Amf.receiveUl P u true [4] o1 = .ok (smc, 0) :=
    receiveUl_of_receive P u true [4] o1 smc 0 (by rw [ha1']; rfl) (by rw [ha1']; rfl) (by rw [ha1']; rfl) hrecv
  obtain ⟨b, hrun, hstep⟩ := C01_step_uplink_nas_transport P cfg chs s k E plmn hplmn ran o1 hr0 hr1 u hu ha1
  refine ⟨rr, smc, o1, b, henc2, henc, ho1, hrun, ?_, hin1, hc1.trans (by decide)⟩
  rw [hstep, ha1']
  simp only [show ((4 : Nat) % 16 == 0) = false from rfl, Bool.false_eq_true, if_false]
  exact onProtected_securityModeComplete P cfg s k u o1 smc rr mi.data secCap.data ha1' hreg hrul hb0 hb1 hb2 w hw' hparse
    w2 hw2' _ hparse2 hsuci hea hia

/-! ### the whole uplink script of NG Setup + one registration, judged -/

/-- a step that raises no clause is simply taken (the attribution of clauses to C01 / C02 has nothing to attribute) -/
theorem run_clean_step (P : Prims) (life : Bool) (cfg : Spec.Amf.Cfg) (chs : List Spec.Amf.Choice) (s : Spec.Amf.St) (k : Nat)
    (ul : Bytes) (rest : List Bytes) (hs : s.fails = []) (hs' : (Spec.Amf.step P cfg chs s k ul).fails = []) :
    Spec.Amf.run P life cfg chs s k (ul :: rest) = Spec.Amf.run P life cfg chs (Spec.Amf.step P cfg chs s k ul) (k + 1) rest := by
  conv => lhs; unfold Spec.Amf.run
  generalize Spec.Amf.step P cfg chs s k ul = s' at hs' ⊢
  cases s'
  simp only at hs'
  subst hs'
  simp only [hs]
  cases Spec.Amf.registrationPhase s ul <;> simp

/-- the judge's UE state of the conversation, after each accepted message -/
def convUe (ran : Int) (ch : Spec.Amf.Choice) (aka : Spec.Ts33501A.Aka) (reg : Spec.Amf.Reg) (last : Option Nat) (used : List Nat) :
    Spec.Amf.UeSt := { j := 0, ran := ran, ch := ch, aka := aka, reg := reg, last := last, used := used }

def convSt (u : Spec.Amf.UeSt) : Spec.Amf.St := { ngSetup := true, ues := [u] }

theorem convSt_find (u : Spec.Amf.UeSt) : (convSt u).ues.find? (·.ran == u.ran) = some u := by
  simp [convSt]

theorem convSt_setUe (u u' : Spec.Amf.UeSt) (hj : u'.j = u.j) : (convSt u).setUe u' = convSt u' := by
  simp [convSt, Spec.Amf.St.setUe, hj]

open Stgutg.Proofs.BuildersRoles in
/-- **C01_registration_script_accepted.** The judge accepts the whole uplink script of NG Setup + one registration, for ALL
    configurations and AMF choices in the stated ranges (primitives AES / CMAC / CTR are parameters): the six messages are
    what the emulator's wrappers return for
      UL1 `GetNGSetupRequest(gnbId, plmn, bitlength, name)`,
      UL2 `GetInitialUEMessage(ran, RegistrationRequest(SUCI, capability), "")`,
      UL3 `GetUplinkNASTransport(amf, ran, AuthenticationResponse(RES*))` with RES* = the vector's XRES* (`C01_res_star`),
      UL4 `GetUplinkNASTransport(amf, ran, protect(SecurityModeComplete(RegistrationRequest + 5GMM capability), 4, new context))`,
      UL5 `GetInitialContextSetupResponse(amf, ran)`,
      UL6 `GetUplinkNASTransport(amf, ran, protect(RegistrationComplete, 2))` under the security state UL4 left,
    with `amf` the AMF-UE-NGAP-ID of the AMF's choice (any value below 2^40), `TestPlmn` = the announced PLMN from UL2 on.
    `Spec.Amf.judge … = accept`: every message decodes as the TS 38.413 message expected in the UE's state with its mandatory
    IEs and the assigned identifiers, the PLMN is the configured one, the NAS messages parse, the capability announces the
    selected algorithms, RES* = XRES*, header types 4 then 2, MACs valid, NAS COUNT 0 then 1, and the registration completes.
    Hypotheses that stand for parts not threaded: `hsub` (the reference AMF identifies subscriber 0 from the SUCI, in its own
    decimal arithmetic), `hrr` (the complete Registration Request fits a NAS message container), `hin` (the UE context holds
    the keys of the network's vector: `C01_res_star`), and that the emulator makes exactly these calls (its reading of the
    downlink messages). -/
theorem C01_registration_script_accepted (P : Prims) (hP : PrimsOk P) (cfg : Spec.Amf.Cfg) (chs : List Spec.Amf.Choice)
    (E : Model.Convert.Ext) (plmn0 g m name : Bytes) (bl : Int)
    (hm : m.length = 3) (h22 : 22 ≤ bl) (h32 : bl ≤ 32) (hg : g.length = (bl.toNat + 7) / 8)
    (hc : Canonical g bl.toNat) (hname : 1 ≤ name.length) (hcfg : Spec.Amf.plmnOf cfg = some m)
    (hone : Spec.Amf.subscribers cfg = 1)
    (ran : Int) (hr0 : 0 ≤ ran) (hr1 : ran < 2 ^ 32) (mi secCap : Nas.Val)
    (hmi : mi.iei = 0 ∧ mi.len = mi.data.length ∧ mi.data.length < 65536)
    (hsc : secCap.iei = 0x2E ∧ secCap.len = secCap.data.length ∧ secCap.data.length < 256)
    (hea : Spec.Identity.eaSupported secCap.data Spec.Amf.selectedEa = true)
    (hia : Spec.Identity.iaSupported secCap.data Spec.Amf.selectedIa = true)
    (ch : Spec.Amf.Choice) (aka : Spec.Ts33501A.Aka) (hsub : Spec.Amf.subscriberOf cfg mi.data = some 0)
    (hch : chs[0]? = some ch) (hvec : Spec.Amf.vector P cfg 0 ch = some aka)
    (hamf : ch.amfUeNgapId < 2 ^ 40) (hres : aka.resStar.length = 16)
    (sec : UeSec) (hin : InStep sec (convUe ran ch aka .authSent none []))
    (hrr : ∀ rr, Nas.Ctor.encodeWith Gen.Nas.layout_RegistrationRequest
      (Nas.Ctor.registrationRequest 1 mi none (some secCap) (some cap5GMMVal) none none) = .ok rr → rr.length < 65536) :
    ∃ b1 nas2 b2 nas3 b3 rr smc o1 b4 b5 rc o2 b6,
      Wrapper.run E .GetNGSetupRequest plmn0 [.octs g, .octs m, .int bl, .str name] = .ok (.ok b1) ∧
      Nas.Ctor.encodeWith Gen.Nas.layout_RegistrationRequest
        (Nas.Ctor.registrationRequest 1 mi none (some secCap) none none none) = .ok nas2 ∧
      Wrapper.run E .GetInitialUEMessage m [.int ran, .octs nas2, .str []] = .ok (.ok b2) ∧
      Nas.Ctor.encodeWith Gen.Nas.layout_AuthenticationResponse (Nas.Ctor.authenticationResponse aka.resStar []) = .ok nas3 ∧
      Wrapper.run E .GetUplinkNASTransport m [.int ch.amfUeNgapId, .int ran, .octs nas3] = .ok (.ok b3) ∧
      Nas.Ctor.encodeWith Gen.Nas.layout_RegistrationRequest
        (Nas.Ctor.registrationRequest 1 mi none (some secCap) (some cap5GMMVal) none none) = .ok rr ∧
      Nas.Ctor.encodeWith Gen.Nas.layout_SecurityModeComplete (Nas.Ctor.securityModeComplete (some rr)) = .ok smc ∧
      (Model.NasProtect.encodeNasPduWithSecurity P sec smc 4 true true).2 = .ok o1 ∧
      Wrapper.run E .GetUplinkNASTransport m [.int ch.amfUeNgapId, .int ran, .octs o1] = .ok (.ok b4) ∧
      Wrapper.run E .GetInitialContextSetupResponse m [.int ch.amfUeNgapId, .int ran] = .ok (.ok b5) ∧
      Nas.Ctor.encodeWith Gen.Nas.layout_RegistrationComplete (Nas.Ctor.registrationComplete none) = .ok rc ∧
      (Model.NasProtect.encodeNasPduWithSecurity P (Model.NasProtect.encodeNasPduWithSecurity P sec smc 4 true true).1 rc 2 true false).2
        = .ok o2 ∧
      Wrapper.run E .GetUplinkNASTransport m [.int ch.amfUeNgapId, .int ran, .octs o2] = .ok (.ok b6) ∧
      Spec.Amf.judge P false cfg chs [b1, b2, b3, b4, b5, b6] none true = .accept := by
  have hsuci : Spec.Amf.suciIs cfg 0 mi.data = true := by
    have := List.find?_some hsub
    exact this
  -- UL1
  obtain ⟨b1, hrun1, hstep1⟩ := C01_step_ng_setup_request P cfg chs {} 0 E plmn0 g m name bl hm h22 h32 hg hc hname hcfg rfl
  -- UL2
  obtain ⟨nas2, b2, henc2, hrun2, hstep2⟩ := C01_step_registration_request P cfg chs { ({} : Spec.Amf.St) with ngSetup := true } 1
    E m hm ran hr0 hr1 rfl mi secCap hmi hsc hea hia 0 ch aka hsub hch hvec rfl rfl
  have hstep2' : Spec.Amf.step P cfg chs { ({} : Spec.Amf.St) with ngSetup := true } 1 b2 =
      convSt (convUe ran ch aka .authSent none []) := hstep2
  -- UL3
  obtain ⟨nas3, b3, henc3, hrun3, hstep3⟩ := C01_step_authentication_response P cfg chs (convSt (convUe ran ch aka .authSent none [])) 2
    E m hm ran hr0 hr1 (convUe ran ch aka .authSent none []) (convSt_find _) hamf aka.resStar hres rfl rfl
  have hstep3' : Spec.Amf.step P cfg chs (convSt (convUe ran ch aka .authSent none [])) 2 b3 =
      convSt (convUe ran ch aka .smcSent none []) := by
    rw [hstep3]; exact convSt_setUe _ _ rfl
  -- UL4
  obtain ⟨rr, smc, o1, b4, hencrr, hencsmc, ho1, hrun4, hstep4, hin1, hcnt1⟩ := C01_step_security_mode_complete P hP cfg chs
    (convSt (convUe ran ch aka .smcSent none [])) 3 E m hm ran hr0 hr1 (convUe ran ch aka .smcSent none []) (convSt_find _) hamf
    sec ⟨hin.1, hin.2⟩ rfl mi secCap hmi hsc hea hia hsuci hrr
  have hstep4' : Spec.Amf.step P cfg chs (convSt (convUe ran ch aka .smcSent none [])) 3 b4 =
      convSt (convUe ran ch aka (.ctxSetup false false) (some 0) [0]) := by
    rw [hstep4]; exact convSt_setUe _ _ rfl
  -- UL5
  obtain ⟨b5, hrun5, hstep5⟩ := C01_step_initial_context_setup_response P cfg chs
    (convSt (convUe ran ch aka (.ctxSetup false false) (some 0) [0])) 4 E m hm ran hr0 hr1
    (convUe ran ch aka (.ctxSetup false false) (some 0) [0]) (convSt_find _) hamf rfl false rfl
  have hstep5' : Spec.Amf.step P cfg chs (convSt (convUe ran ch aka (.ctxSetup false false) (some 0) [0])) 4 b5 =
      convSt (convUe ran ch aka (.ctxSetup true false) (some 0) [0]) := by
    rw [hstep5]; exact convSt_setUe _ _ rfl
  -- UL6
  obtain ⟨rc, o2, b6, hencrc, ho2, hrun6, hstep6⟩ := C01_step_registration_complete P hP cfg chs
    (convSt (convUe ran ch aka (.ctxSetup true false) (some 0) [0])) 5 E m hm ran hr0 hr1
    (convUe ran ch aka (.ctxSetup true false) (some 0) [0]) (convSt_find _) hamf
    (Model.NasProtect.encodeNasPduWithSecurity P sec smc 4 true true).1 ⟨hin1.1, hin1.2⟩ 0 rfl hcnt1 rfl true false rfl
  have hstep6' : Spec.Amf.step P cfg chs (convSt (convUe ran ch aka (.ctxSetup true false) (some 0) [0])) 5 b6 =
      convSt (convUe ran ch aka .registered (some 1) [1, 0]) := by
    rw [hstep6]; exact convSt_setUe _ _ rfl
  refine ⟨b1, nas2, b2, nas3, b3, rr, smc, o1, b4, b5, rc, o2, b6, hrun1, henc2, hrun2, henc3, hrun3, hencrr, hencsmc, ho1, hrun4,
    hrun5, hencrc, ho2, hrun6, ?_⟩
  unfold Spec.Amf.judge Spec.Amf.clauses
  rw [run_clean_step P false cfg chs {} 0 b1 _ rfl (by rw [hstep1]), hstep1,
    run_clean_step P false cfg chs _ 1 b2 _ rfl (by rw [hstep2']; rfl), hstep2',
    run_clean_step P false cfg chs _ 2 b3 _ rfl (by rw [hstep3']; rfl), hstep3',
    run_clean_step P false cfg chs _ 3 b4 _ rfl (by rw [hstep4']; rfl), hstep4',
    run_clean_step P false cfg chs _ 4 b5 _ rfl (by rw [hstep5']; rfl), hstep5',
    run_clean_step P false cfg chs _ 5 b6 _ rfl (by rw [hstep6']; rfl), hstep6']
  unfold Spec.Amf.run
  simp [Spec.Amf.finish, convSt, convUe, hone, Spec.Amf.isRegisteredOrLater]

open Stgutg.Proofs.UeIdentity Stgutg.Proofs.EmulatorSubscriber in
/-- **C01_subscriber_identified.** The reference AMF attributes the SUCI of the emulator's UE `j` to subscriber `j`, for every
    decimal IMSI configuration (MCC = first 3 digits, MNC = next 2 or 3) whose MSIN digits accommodate the configured
    population: the emulator's `%0*d` of IMSI + j and the judge's digit arithmetic agree, and distinct UEs have distinct MSINs.
    The SUCI buffer has at most 8 + |IMSI| octets. -/
theorem C01_subscriber_identified (scfg : Spec.Amf.Cfg) (h : DecimalImsi scfg.imsi) {m : Nat} (hm : m = 2 ∨ m = 3)
    (hmcc : scfg.mcc = scfg.imsi.take 3) (hmnc : scfg.mnc = (scfg.imsi.drop 3).take m) (hlen : 3 + m < scfg.imsi.length)
    (hfit : MsinFits scfg.imsi (3 + m) (Spec.Amf.subscribers scfg)) {j : Nat} (hj : j < Spec.Amf.subscribers scfg)
    (k opc op : Bytes) :
    ∃ buf, Model.Suci.encodeSuci (Model.Suci.trimImsiPrefix (Model.UeIdentity.createUE scfg.imsi (j : Int) k opc op).supi) (m : Int)
        = .ok buf ∧ buf.length ≤ 8 + scfg.imsi.length ∧ Spec.Amf.subscriberOf scfg buf = some j := by
  obtain ⟨buf, hb, hdec⟩ := suci_of_created_ue h hm hlen hfit hj k opc op
  exact ⟨buf, hb, suci_of_created_ue_short h hm hlen hfit hj k opc op buf hb,
    subscriberOf_eq scfg h hmcc hmnc hlen hfit hj buf hdec⟩

/-- the UE security capability IE `RegisterUE` passes to the constructors -/
theorem secCapVal_shape (cfg : Cfg) (i : Int) :
    (secCapVal (createUE cfg i)).iei = 0x2E ∧ (secCapVal (createUE cfg i)).len = (secCapVal (createUE cfg i)).data.length ∧
    (secCapVal (createUE cfg i)).data.length < 256 := ⟨rfl, rfl, by show (2 : Nat) < 256; omega⟩

open Stgutg.Proofs.EmulatorSubscriber in
/-- the complete Registration Request (with the 5GMM capability) is short: it fits the NAS message container -/
theorem registrationRequest_short (mi secCap : Nas.Val)
    (hmi : mi.iei = 0 ∧ mi.len = mi.data.length ∧ mi.data.length < 65536)
    (hsc : secCap.iei = 0x2E ∧ secCap.len = secCap.data.length ∧ secCap.data.length < 256)
    (hshort : mi.data.length ≤ 26) (rr : Bytes)
    (hrr : Nas.Ctor.encodeWith Gen.Nas.layout_RegistrationRequest
      (Nas.Ctor.registrationRequest 1 mi none (some secCap) (some cap5GMMVal) none none) = .ok rr) : rr.length < 65536 := by
  obtain ⟨w, rr', _, henc, hparse⟩ := Props.C09.C09_ctor_registrationRequest 1 mi none (some secCap) (some cap5GMMVal) none none
    (by decide) hmi (by intro x hx; cases hx) (by intro x hx; cases hx; exact hsc)
    (by intro x hx; cases hx) (by intro x hx; cases hx; decide) (by intro c hc; cases hc)
  have henc' : Nas.Ctor.encodeWith Gen.Nas.layout_RegistrationRequest
      (Nas.Ctor.registrationRequest 1 mi none (some secCap) (some cap5GMMVal) none none) = .ok rr' := henc
  rw [hrr] at henc'
  cases henc'
  have := parse_length w rr _ hparse
  simp [mandBound, optBound, Spec.Ts24501.Intended.registrationRequest, Spec.Ts24501.Intended.present,
    Spec.Ts24501.Intended.halves, cap5GMMVal] at this
  omega

open Stgutg.Proofs.BuildersRoles Stgutg.Proofs.UeIdentity in
/-- **C01_registration_accepted_for_config.** `C01_registration_script_accepted` with the SUCI and the UE security capability
    the emulator really builds for its first UE (`CreateUE(imsi, 0, …)`, `EncodeSuci`, `GetUESecurityCapability`) and the
    judge's subscriber identification PROVED: for every decimal IMSI configuration (MCC 3 digits, MNC 2 or 3 digits, at least
    one MSIN digit, at most 18 digits — what `Atoi` reads —, one configured subscriber), every gNB id of 22..32 bits, name,
    RAN-UE-NGAP-ID below 2^32, and every choice of the AMF (RAND, SQN, AMF field, AMF-UE-NGAP-ID below 2^40 — through `aka` and
    `ch`), the reference AMF ACCEPTS the six uplink messages of NG Setup + registration. Remaining hypotheses: `hin` (the UE
    context holds the keys of the network's vector when Security Mode Complete is protected: `C01_res_star`), `hres` (XRES* has
    16 octets), and that the emulator makes exactly these calls (its reading of the downlink messages is not threaded). -/
theorem C01_registration_accepted_for_config (P : Prims) (hP : PrimsOk P) (cfg : Cfg) (scfg : Spec.Amf.Cfg)
    (chs : List Spec.Amf.Choice) (E : Model.Convert.Ext) (plmn0 g m name : Bytes) (bl : Int)
    (hm : m.length = 3) (h22 : 22 ≤ bl) (h32 : bl ≤ 32) (hg : g.length = (bl.toNat + 7) / 8)
    (hc : Canonical g bl.toNat) (hname : 1 ≤ name.length) (hcfg : Spec.Amf.plmnOf scfg = some m)
    (himsi : scfg.imsi = cfg.imsi) (hd : DecimalImsi cfg.imsi) {w : Nat} (hw : w = 2 ∨ w = 3) (hmncl : cfg.mnc.length = w)
    (hmcc : scfg.mcc = cfg.imsi.take 3) (hmnc : scfg.mnc = (cfg.imsi.drop 3).take w) (hlen : 3 + w < cfg.imsi.length)
    (hfit : MsinFits cfg.imsi (3 + w) 1) (hone : Spec.Amf.subscribers scfg = 1)
    (ran : Int) (hr0 : 0 ≤ ran) (hr1 : ran < 2 ^ 32)
    (ch : Spec.Amf.Choice) (aka : Spec.Ts33501A.Aka) (hch : chs[0]? = some ch) (hvec : Spec.Amf.vector P scfg 0 ch = some aka)
    (hamf : ch.amfUeNgapId < 2 ^ 40) (hres : aka.resStar.length = 16)
    (sec : UeSec) (hin : InStep sec (convUe ran ch aka .authSent none [])) :
    ∃ suci b1 nas2 b2 nas3 b3 rr smc o1 b4 b5 rc o2 b6,
      Model.Suci.encodeSuci (Model.Suci.trimImsiPrefix (createUE cfg 0).ctx.supi) cfg.mnc.length = .ok suci ∧
      Wrapper.run E .GetNGSetupRequest plmn0 [.octs g, .octs m, .int bl, .str name] = .ok (.ok b1) ∧
      Nas.Ctor.encodeWith Gen.Nas.layout_RegistrationRequest
        (Nas.Ctor.registrationRequest 1 (suciVal suci) none (some (secCapVal (createUE cfg 0))) none none none) = .ok nas2 ∧
      Wrapper.run E .GetInitialUEMessage m [.int ran, .octs nas2, .str []] = .ok (.ok b2) ∧
      Nas.Ctor.encodeWith Gen.Nas.layout_AuthenticationResponse (Nas.Ctor.authenticationResponse aka.resStar []) = .ok nas3 ∧
      Wrapper.run E .GetUplinkNASTransport m [.int ch.amfUeNgapId, .int ran, .octs nas3] = .ok (.ok b3) ∧
      Nas.Ctor.encodeWith Gen.Nas.layout_RegistrationRequest
        (Nas.Ctor.registrationRequest 1 (suciVal suci) none (some (secCapVal (createUE cfg 0))) (some cap5GMMVal) none none) = .ok rr ∧
      Nas.Ctor.encodeWith Gen.Nas.layout_SecurityModeComplete (Nas.Ctor.securityModeComplete (some rr)) = .ok smc ∧
      (Model.NasProtect.encodeNasPduWithSecurity P sec smc 4 true true).2 = .ok o1 ∧
      Wrapper.run E .GetUplinkNASTransport m [.int ch.amfUeNgapId, .int ran, .octs o1] = .ok (.ok b4) ∧
      Wrapper.run E .GetInitialContextSetupResponse m [.int ch.amfUeNgapId, .int ran] = .ok (.ok b5) ∧
      Nas.Ctor.encodeWith Gen.Nas.layout_RegistrationComplete (Nas.Ctor.registrationComplete none) = .ok rc ∧
      (Model.NasProtect.encodeNasPduWithSecurity P (Model.NasProtect.encodeNasPduWithSecurity P sec smc 4 true true).1 rc 2 true false).2
        = .ok o2 ∧
      Wrapper.run E .GetUplinkNASTransport m [.int ch.amfUeNgapId, .int ran, .octs o2] = .ok (.ok b6) ∧
      Spec.Amf.judge P false scfg chs [b1, b2, b3, b4, b5, b6] none true = .accept := by
  have hd' : DecimalImsi scfg.imsi := by rw [himsi]; exact hd
  obtain ⟨suci, hsuci, hslen, hsub⟩ := C01_subscriber_identified scfg hd' hw (by rw [himsi]; exact hmcc) (by rw [himsi]; exact hmnc)
    (by rw [himsi]; exact hlen) (by rw [himsi, hone]; exact hfit) (j := 0) (by rw [hone]; omega) cfg.k cfg.opc cfg.op
  have hsuci' : Model.Suci.encodeSuci (Model.Suci.trimImsiPrefix (createUE cfg 0).ctx.supi) cfg.mnc.length = .ok suci := by
    rw [hmncl]
    have : (createUE cfg 0).ctx = Model.UeIdentity.createUE scfg.imsi ((0 : Nat) : Int) cfg.k cfg.opc cfg.op := by
      rw [himsi]; rfl
    rw [this]
    exact hsuci
  have h18 := hd.short
  have hsl : suci.length < 65536 := by rw [himsi] at hslen; omega
  have hmi : (suciVal suci).iei = 0 ∧ (suciVal suci).len = (suciVal suci).data.length ∧ (suciVal suci).data.length < 65536 :=
    ⟨rfl, by show suci.length % 65536 = suci.length; omega, hsl⟩
  have hcapS := C01_security_capability cfg 0
  have hrr : ∀ rr, Nas.Ctor.encodeWith Gen.Nas.layout_RegistrationRequest
      (Nas.Ctor.registrationRequest 1 (suciVal suci) none (some (secCapVal (createUE cfg 0))) (some cap5GMMVal) none none) = .ok rr →
      rr.length < 65536 := by
    intro rr hrr
    exact registrationRequest_short (suciVal suci) (secCapVal (createUE cfg 0)) hmi (secCapVal_shape cfg 0) (by rw [himsi] at hslen; show suci.length ≤ 26; omega) rr hrr
  obtain ⟨b1, nas2, b2, nas3, b3, rr, smc, o1, b4, b5, rc, o2, b6, h1, h2, h3, h4, h5, h6, h7, h8, h9, h10, h11, h12, h13, h14⟩ :=
    C01_registration_script_accepted P hP scfg chs E plmn0 g m name bl hm h22 h32 hg hc hname hcfg hone ran hr0 hr1
      (suciVal suci) (secCapVal (createUE cfg 0)) hmi (secCapVal_shape cfg 0) hcapS.1 hcapS.2 ch aka hsub hch hvec hamf hres sec hin hrr
  exact ⟨suci, b1, nas2, b2, nas3, b3, rr, smc, o1, b4, b5, rc, o2, b6, hsuci', h1, h2, h3, h4, h5, h6, h7, h8, h9, h10, h11, h12, h13, h14⟩

/-- XRES* of the network's vector has 16 octets (HMAC-SHA-256 output of 32 octets, the 128 least significant bits) -/
theorem vector_resStar_length (P : Prims) (hH : MacLen P.hmac) (cfg : Spec.Amf.Cfg) (j : Nat) (ch : Spec.Amf.Choice)
    (aka : Spec.Ts33501A.Aka) (hvec : Spec.Amf.vector P cfg j ch = some aka) : aka.resStar.length = 16 := by
  unfold Spec.Amf.vector at hvec
  split at hvec
  · simp only [Option.some.injEq] at hvec
    subst hvec
    simp only [Spec.Ts33501A.aka, Spec.Ts33501A.resStar, Spec.Ts33501A.low128, Spec.Ts33501A.kdf, List.length_drop, hH _ _]
  · cases hvec

/-- **C01_keys_in_step.** The hypothesis `hin` of the two theorems above, from `C01_res_star`: once `RegisterUE` has installed the
    K_NASenc / K_NASint that `DeriveRESstarAndSetKey` returned, and these are the keys of the network's vector (the conclusion of
    `C01_res_star`), the UE context of a created UE is in step with the judge's UE state — same keys, the algorithms the AMF
    selects (5G-EA0, 128-5G-IA2), which are supported ones. -/
theorem C01_keys_in_step (cfg : Cfg) (i : Int) (knasEnc knasInt : Bytes) (u : Spec.Amf.UeSt)
    (henc : knasEnc = u.aka.knasEnc) (hint : knasInt = u.aka.knasInt) (ul dl : UInt32) :
    InStep { (createUE cfg i).sec with knasEnc := knasEnc, knasInt := knasInt, ulCount := ul, dlCount := dl } u := by
  subst henc hint
  exact ⟨rfl, .inr rfl, .inl rfl⟩

open Stgutg.Proofs.BuildersRoles Stgutg.Proofs.UeIdentity Stgutg.Proofs.EmulatorRun in
/-- **C01_accepted_partial.** `C01_accepted_statement` for one registration (`Test_ue_registation` = 1, nothing after it),
    THROUGH `emulate`: for every decimal-IMSI configuration (MNC of 2 or 3 digits, at least one MSIN digit), gNB id of 22..32
    bits in ⌈n/8⌉ octets with the unused bits clear, non-empty name, and every choice of the AMF (RAND, SQN, AMF field — via
    `aka` —, AMF-UE-NGAP-ID below 2^40), the reference AMF ACCEPTS the transcript the emulator model produces
    (`judge (emulate …).uls … = accept`, the emulator completing).
    What is assumed instead of proved is collected in `R : RegReads` and `hkeys`, i.e. what the emulator READS:
      * the five downlink messages are decodable by the library decoder (`hdec*`), the first DOWNLINK NAS TRANSPORT yields,
        through `GetNasPdu` and `authParams`, an Authentication Request with some AUTN / RAND, and its first IE the
        AMF-UE-NGAP-ID of the AMF's choice (`hamfid`);
      * `DeriveRESstarAndSetKey` on that AUTN / RAND returns the RES* and NAS keys of the network's vector (`hkeys`: this is
        the conclusion of `C01_res_star` when AUTN / RAND are the network's);
      * `PlainNasDecode` followed by `PlainNasEncode` reproduces the octets of the two NAS constructors that are protected (C08);
      * the library calls of the exchange return octets (`hrun*`, `henc*`, `ho*` inside `R`: each one is a CONCLUSION of a
        theorem above — `C01_*_seen`, C09's constructor theorems, `protected_step` — they are restated as the equations that
        name the octets).
    So the missing part of `C01_accepted_statement` is exactly a specification of the downlink side (`dl`): that a conformant
    AMF's messages have these properties, and more than one UE. -/
theorem C01_accepted_partial (P : Prims) (hP : PrimsOk P) (hH : MacLen P.hmac) (cfg : Cfg) (scfg : Spec.Amf.Cfg)
    (chs : List Spec.Amf.Choice) (E : Model.Convert.Ext) (d1 d2 d3 d4 d5 : Bytes)
    -- the configuration
    (hreg : cfg.reg = 1) (hpdu : cfg.pdu = 0) (hdereg : cfg.dereg = 0) (hone : Spec.Amf.subscribers scfg = 1)
    (himsi : scfg.imsi = cfg.imsi) (hd : DecimalImsi cfg.imsi) {w : Nat} (hw : w = 2 ∨ w = 3) (hmncl : cfg.mnc.length = w)
    (hmcc : scfg.mcc = cfg.imsi.take 3) (hmnc : scfg.mnc = (cfg.imsi.drop 3).take w) (hlen : 3 + w < cfg.imsi.length)
    (hfit : MsinFits cfg.imsi (3 + w) 1)
    (h22 : 22 ≤ cfg.bitlength) (h32 : cfg.bitlength ≤ 32) (hg : cfg.gnbId.length = (cfg.bitlength + 7) / 8)
    (hc : Canonical cfg.gnbId cfg.bitlength) (hname : 1 ≤ cfg.name.length)
    (m : Bytes) (hplmn : Model.Suci.ngSetupPlmn cfg.imsi cfg.mnc.length = .ok m) (hm : m.length = 3)
    (hcfg : Spec.Amf.plmnOf scfg = some m)
    -- the AMF's choice and vector
    (ch : Spec.Amf.Choice) (aka : Spec.Ts33501A.Aka) (hch : chs[0]? = some ch) (hvec : Spec.Amf.vector P scfg 0 ch = some aka)
    (hamf : ch.amfUeNgapId < 2 ^ 40)
    -- what the emulator reads and what its library calls return
    (v1 : Aper.Val) (hdec1 : ngapDecode (d1.take 2048) = .ok v1) (b1 : Bytes)
    (hrun1 : Wrapper.run E .GetNGSetupRequest [] [.octs cfg.gnbId, .octs m, .int cfg.bitlength, .str cfg.name] = .ok (.ok b1))
    (suci nas2 b2 nas3 b3 rr smc o1 b4 b5 rc o2 b6 : Bytes) (keys : Model.KeyDerivation.UeKeys) (ue1 : Ue)
    (R : RegReads P E cfg (createUE cfg 0) m d2 d3 d4 d5 suci nas2 b2 nas3 b3 rr smc o1 b4 b5 rc o2 b6 ch.amfUeNgapId keys ue1)
    (hue1 : ue1.ctx = (createUE cfg 0).ctx ∧ ue1.sec.cipheringAlg = 0 ∧ ue1.sec.integrityAlg = 2)
    (hkeys : keys.resStar = aka.resStar ∧ keys.knasEnc = aka.knasEnc ∧ keys.knasInt = aka.knasInt) :
    Spec.Amf.judge P false scfg chs (emulate P E cfg [d1, d2, d3, d4, d5]).uls none
      ((emulate P E cfg [d1, d2, d3, d4, d5]).outcome == .completed) = .accept := by
  obtain ⟨huls, hout⟩ := emulate_run P E cfg d1 d2 d3 d4 d5 hreg hpdu hdereg m b1 v1 hplmn hrun1 hdec1
    suci nas2 b2 nas3 b3 rr smc o1 b4 b5 rc o2 b6 ch.amfUeNgapId keys ue1 R
  rw [huls, hout]
  -- the RAN-UE-NGAP-ID of the created UE
  have hran : (createUE cfg 0).ctx.ranUeNgapId = (((Model.UeIdentity.decVal cfg.imsi + 0) % 10000 : Nat) : Int) :=
    createUE_ranId hd 0 (by decide) cfg.k cfg.opc cfg.op
  have hr0 : 0 ≤ (createUE cfg 0).ctx.ranUeNgapId := by rw [hran]; omega
  have hr1 : (createUE cfg 0).ctx.ranUeNgapId < 2 ^ 32 := by rw [hran]; omega
  have hin : InStep (secAfterKeys ue1 keys) (convUe (createUE cfg 0).ctx.ranUeNgapId ch aka .authSent none []) := by
    refine ⟨?_, ?_⟩
    · simp [Proofs.NasProtect.ctxOf, Spec.Amf.ctxOf, convUe, hue1.2.1, hue1.2.2, hkeys.2.1, hkeys.2.2,
        Spec.Amf.selectedIa, Spec.Amf.selectedEa]
    · exact ⟨.inr hue1.2.2, .inl hue1.2.1⟩
  obtain ⟨suci', b1', nas2', b2', nas3', b3', rr', smc', o1', b4', b5', rc', o2', b6', e0, e1, e2, e3, e4, e5, e6, e7, e8, e9,
      e10, e11, e12, e13, hacc⟩ :=
    C01_registration_accepted_for_config P hP cfg scfg chs E [] cfg.gnbId m cfg.name (cfg.bitlength : Int) hm
      (by exact_mod_cast h22) (by exact_mod_cast h32) (by simpa using hg) (by simpa using hc) hname hcfg himsi hd hw hmncl hmcc hmnc
      hlen hfit hone (createUE cfg 0).ctx.ranUeNgapId hr0 hr1 ch aka hch hvec hamf (vector_resStar_length P hH scfg 0 ch aka hvec)
      (secAfterKeys ue1 keys) hin
  -- the octets are determined by the equations that name them
  have hs : suci' = suci := by have := e0.symm.trans R.hsuci; exact Except.ok.inj this
  subst hs
  have h1 : b1' = b1 := by have := e1.symm.trans hrun1; exact Except.ok.inj (Except.ok.inj this)
  subst h1
  have h2 : nas2' = nas2 := Except.ok.inj (e2.symm.trans R.henc2)
  subst h2
  have h3 : b2' = b2 := Except.ok.inj (Except.ok.inj (e3.symm.trans R.hrun2))
  subst h3
  have h4 : nas3' = nas3 := by
    have := R.henc3; rw [hkeys.1] at this
    exact Except.ok.inj (e4.symm.trans this)
  subst h4
  have h5 : b3' = b3 := by
    have := R.hrun3; rw [hue1.1] at this
    exact Except.ok.inj (Except.ok.inj (e5.symm.trans this))
  subst h5
  have h6 : rr' = rr := Except.ok.inj (e6.symm.trans R.hencrr)
  subst h6
  have h7 : smc' = smc := Except.ok.inj (e7.symm.trans R.hencsmc)
  subst h7
  have h8 : o1' = o1 := Except.ok.inj (e8.symm.trans R.ho1)
  subst h8
  have h9 : b4' = b4 := by
    have := R.hrun4; rw [hue1.1] at this
    exact Except.ok.inj (Except.ok.inj (e9.symm.trans this))
  subst h9
  have h10 : b5' = b5 := by
    have := R.hrun5; rw [hue1.1] at this
    exact Except.ok.inj (Except.ok.inj (e10.symm.trans this))
  subst h10
  have h11 : rc' = rc := Except.ok.inj (e11.symm.trans R.hencrc)
  subst h11
  have h12 : o2' = o2 := Except.ok.inj (e12.symm.trans R.ho2)
  subst h12
  have h13 : b6' = b6 := by
    have := R.hrun6; rw [hue1.1] at this
    exact Except.ok.inj (Except.ok.inj (e13.symm.trans this))
  subst h13
  exact hacc

open Stgutg.Proofs.BuildersRoles Stgutg.Proofs.UeIdentity Stgutg.Proofs.EmulatorRun in
/-- **C01_accepted_for_downlink.** `C01_accepted_partial` with every uplink-side hypothesis discharged: the hypotheses are the
    configuration's well-formedness, the AMF's choice, and the DOWNLINK side alone (`DlReads`: the five downlink messages are
    decodable; the first DOWNLINK NAS TRANSPORT yields the AMF-UE-NGAP-ID of the choice and an Authentication Request from
    whose AUTN / RAND `DeriveRESstarAndSetKey` obtains the RES* and NAS keys of the network's vector). C08's re-encoding
    identity on the two protected constructor outputs is proved (Proofs/EmulatorReencode.lean). Conclusion: the emulator completes and the reference AMF accepts
    its transcript — every uplink message exists (the builders encode, the constructors encode, the protection succeeds:
    all proved), is what the judge expects in its state, and the registration completes. -/
theorem C01_accepted_for_downlink (P : Prims) (hP : PrimsOk P) (hH : MacLen P.hmac) (cfg : Cfg) (scfg : Spec.Amf.Cfg)
    (chs : List Spec.Amf.Choice) (E : Model.Convert.Ext) (d1 d2 d3 d4 d5 : Bytes)
    (hreg : cfg.reg = 1) (hpdu : cfg.pdu = 0) (hdereg : cfg.dereg = 0) (hone : Spec.Amf.subscribers scfg = 1)
    (himsi : scfg.imsi = cfg.imsi) (hd : DecimalImsi cfg.imsi) {w : Nat} (hw : w = 2 ∨ w = 3) (hmncl : cfg.mnc.length = w)
    (hmcc : scfg.mcc = cfg.imsi.take 3) (hmnc : scfg.mnc = (cfg.imsi.drop 3).take w) (hlen : 3 + w < cfg.imsi.length)
    (hfit : MsinFits cfg.imsi (3 + w) 1)
    (h22 : 22 ≤ cfg.bitlength) (h32 : cfg.bitlength ≤ 32) (hg : cfg.gnbId.length = (cfg.bitlength + 7) / 8)
    (hc : Canonical cfg.gnbId cfg.bitlength) (hname : 1 ≤ cfg.name.length)
    (m : Bytes) (hplmn : Model.Suci.ngSetupPlmn cfg.imsi cfg.mnc.length = .ok m) (hm : m.length = 3)
    (hcfg : Spec.Amf.plmnOf scfg = some m)
    (ch : Spec.Amf.Choice) (aka : Spec.Ts33501A.Aka) (hch : chs[0]? = some ch) (hvec : Spec.Amf.vector P scfg 0 ch = some aka)
    (hamf : ch.amfUeNgapId < 2 ^ 40)
    (v1 : Aper.Val) (hdec1 : ngapDecode (d1.take 2048) = .ok v1)
    (keys : Model.KeyDerivation.UeKeys) (ue1 : Ue)
    (D : DlReads P cfg (createUE cfg 0) d2 d3 d4 d5 ch.amfUeNgapId keys ue1)
    (hue1 : ue1.ctx = (createUE cfg 0).ctx ∧ ue1.sec.cipheringAlg = 0 ∧ ue1.sec.integrityAlg = 2)
    (hkeys : keys.resStar = aka.resStar ∧ keys.knasEnc = aka.knasEnc ∧ keys.knasInt = aka.knasInt) :
    (emulate P E cfg [d1, d2, d3, d4, d5]).outcome = .completed ∧
    Spec.Amf.judge P false scfg chs (emulate P E cfg [d1, d2, d3, d4, d5]).uls none
      ((emulate P E cfg [d1, d2, d3, d4, d5]).outcome == .completed) = .accept := by
  have hran : (createUE cfg 0).ctx.ranUeNgapId = (((Model.UeIdentity.decVal cfg.imsi + 0) % 10000 : Nat) : Int) :=
    createUE_ranId hd 0 (by decide) cfg.k cfg.opc cfg.op
  have hr0 : 0 ≤ (createUE cfg 0).ctx.ranUeNgapId := by rw [hran]; omega
  have hr1 : (createUE cfg 0).ctx.ranUeNgapId < 2 ^ 32 := by rw [hran]; omega
  have hin : InStep (secAfterKeys ue1 keys) (convUe (createUE cfg 0).ctx.ranUeNgapId ch aka .authSent none []) := by
    refine ⟨?_, ?_⟩
    · simp [Proofs.NasProtect.ctxOf, Spec.Amf.ctxOf, convUe, hue1.2.1, hue1.2.2, hkeys.2.1, hkeys.2.2,
        Spec.Amf.selectedIa, Spec.Amf.selectedEa]
    · exact ⟨.inr hue1.2.2, .inl hue1.2.1⟩
  obtain ⟨suci, b1, nas2, b2, nas3, b3, rr, smc, o1, b4, b5, rc, o2, b6, e0, e1, e2, e3, e4, e5, e6, e7, e8, e9,
      e10, e11, e12, e13, hacc⟩ :=
    C01_registration_accepted_for_config P hP cfg scfg chs E [] cfg.gnbId m cfg.name (cfg.bitlength : Int) hm
      (by exact_mod_cast h22) (by exact_mod_cast h32) (by simpa using hg) (by simpa using hc) hname hcfg himsi hd hw hmncl hmcc hmnc
      hlen hfit hone (createUE cfg 0).ctx.ranUeNgapId hr0 hr1 ch aka hch hvec hamf (vector_resStar_length P hH scfg 0 ch aka hvec)
      (secAfterKeys ue1 keys) hin
  have hrrlen : rr.length < 65536 := by
    obtain ⟨suci', hs', hslen, _⟩ := C01_subscriber_identified scfg (by rw [himsi]; exact hd) hw (by rw [himsi]; exact hmcc)
      (by rw [himsi]; exact hmnc) (by rw [himsi]; exact hlen) (by rw [himsi, hone]; exact hfit) (j := 0) (by rw [hone]; omega)
      cfg.k cfg.opc cfg.op
    have hs'' : Model.Suci.encodeSuci (Model.Suci.trimImsiPrefix (createUE cfg 0).ctx.supi) cfg.mnc.length = .ok suci' := by
      rw [hmncl]
      have : (createUE cfg 0).ctx = Model.UeIdentity.createUE scfg.imsi ((0 : Nat) : Int) cfg.k cfg.opc cfg.op := by
        rw [himsi]; rfl
      rw [this]; exact hs'
    have : suci' = suci := Except.ok.inj (hs''.symm.trans e0)
    subst this
    have h18 := hd.short
    rw [himsi] at hslen
    exact registrationRequest_short (suciVal suci') (secCapVal (createUE cfg 0))
      ⟨rfl, by show suci'.length % 65536 = suci'.length; omega, by show suci'.length < 65536; omega⟩ (secCapVal_shape cfg 0)
      (by show suci'.length ≤ 26; omega) rr e6
  obtain ⟨pm4, hpd4, hpe4⟩ := Proofs.EmulatorReencode.reenc_smc rr smc hrrlen e7
  obtain ⟨pm6, hpd6, hpe6⟩ := Proofs.EmulatorReencode.reenc_rc rc e11
  have R : RegReads P E cfg (createUE cfg 0) m d2 d3 d4 d5 suci nas2 b2 nas3 b3 rr smc o1 b4 b5 rc o2 b6 ch.amfUeNgapId keys ue1 :=
    { hsuci := e0, henc2 := e2, hrun2 := e3, v2 := D.v2, dnt := D.dnt, hdec2 := D.hdec2, hdnt := D.hdnt, pm := D.pm, hgn := D.hgn,
      autn := D.autn, rand := D.rand, hauth := D.hauth, hkeys := D.hkeys, hamf := D.hamf,
      henc3 := by rw [hkeys.1]; exact e4, hrun3 := by rw [hue1.1]; exact e5, v3 := D.v3, hdec3 := D.hdec3,
      hencrr := e6, hencsmc := e7, pm4 := pm4, hpd4 := hpd4, hpe4 := hpe4, ho1 := e8,
      hrun4 := by rw [hue1.1]; exact e9, v4 := D.v4, hdec4 := D.hdec4, hrun5 := by rw [hue1.1]; exact e10,
      hencrc := e11, pm6 := pm6, hpd6 := hpd6, hpe6 := hpe6, ho2 := e12, hrun6 := by rw [hue1.1]; exact e13, hdec5 := D.hdec5 }
  obtain ⟨huls, hout⟩ := emulate_run P E cfg d1 d2 d3 d4 d5 hreg hpdu hdereg m b1 v1 hplmn e1 hdec1
    suci nas2 b2 nas3 b3 rr smc o1 b4 b5 rc o2 b6 ch.amfUeNgapId keys ue1 R
  refine ⟨hout, ?_⟩
  rw [huls, hout]
  exact hacc

open Stgutg.Proofs.UeIdentity Stgutg.Proofs.EmulatorRun Stgutg.Proofs.EmulatorSubscriber in
/-- **C01_keys_of_network_challenge.** The `hkeys` hypothesis of `C01_accepted_for_downlink` from `C01_res_star`: when the
    Authentication Request the emulator reads carries the AUTN and RAND of the network's choice (what a conformant AMF sends:
    AUTN = SQN ⊕ AK ‖ AMF ‖ MAC-A for its RAND), then what `DeriveRESstarAndSetKey` returned (`D.hkeys`) is the RES* and the NAS
    keys of the network's vector — for every K, OPc (hexadecimal, 16 octets, read alike by the code and by the reference AMF),
    RAND, SQN, AMF field, and IMSI of 5..15 digits. -/
theorem C01_keys_of_network_challenge (P : Prims) (hE : BlockCipher P.aes) (hH : MacLen P.hmac) (cfg : Cfg) (scfg : Spec.Amf.Cfg)
    (himsi : scfg.imsi = cfg.imsi) (hd : DecimalImsi cfg.imsi) (h5 : 5 ≤ cfg.imsi.length) (h15 : cfg.imsi.length ≤ 15)
    (hmccB : scfg.mcc = cfg.mcc) (hmncB : scfg.mnc = cfg.mnc) (hmcc3 : cfg.mcc.length = 3)
    (hmnc23 : cfg.mnc.length = 2 ∨ cfg.mnc.length = 3)
    (ch : Spec.Amf.Choice) (aka : Spec.Ts33501A.Aka) (hvec : Spec.Amf.vector P scfg 0 ch = some aka)
    (k opc : Bytes) (hk : hexDecode cfg.k = some k) (hk' : Spec.Amf.hexText scfg.k = some k) (hk16 : k.length = 16)
    (hopcne : cfg.opc ≠ []) (hopc : hexDecode cfg.opc = some opc) (hopc' : Spec.Amf.opcOf P scfg = some opc)
    (hopc16 : opc.length = 16) (hrand : ch.rand.length = 16) (hsqn : ch.sqn.length = 6)
    (d2 d3 d4 d5 : Bytes) (amf : Int) (keys : Model.KeyDerivation.UeKeys) (ue1 : Ue)
    (D : DlReads P cfg (createUE cfg 0) d2 d3 d4 d5 amf keys ue1) (hue1 : ue1.ctx = (createUE cfg 0).ctx)
    (hautn : D.autn = Spec.Ts35206.autn P.aes k opc ch.rand ch.sqn ch.amf) (hrandD : D.rand = ch.rand) :
    keys.resStar = aka.resStar ∧ keys.knasEnc = aka.knasEnc ∧ keys.knasInt = aka.knasInt := by
  have hd' : DecimalImsi scfg.imsi := by rw [himsi]; exact hd
  have hfitall : Model.UeIdentity.decVal cfg.imsi + 0 < 10 ^ cfg.imsi.length := by
    have := decVal_lt cfg.imsi hd.digits; omega
  have hsupi : (createUE cfg 0).ctx.supi = Model.UeIdentity.imsiPrefix ++ Model.UeIdentity.decW cfg.imsi.length
      (Model.UeIdentity.decVal cfg.imsi + 0) := createUE_supi hd 0 hfitall cfg.k cfg.opc cfg.op
  have hds := supiDigits_eq scfg hd' 0
  rw [himsi] at hds
  have hdigs := decW_digits cfg.imsi.length (Model.UeIdentity.decVal cfg.imsi + 0)
  obtain ⟨keys', hder, e1, _, e3, e4⟩ := C01_res_star P hE hH scfg ch 0 aka
    { amf := (createUE cfg 0).ctx.amf, k := (createUE cfg 0).ctx.k, opc := (createUE cfg 0).ctx.opc, op := (createUE cfg 0).ctx.op }
    [0x80, 0x00] k opc (Model.UeIdentity.decW cfg.imsi.length (Model.UeIdentity.decVal cfg.imsi + 0)) _ hvec
    hk hk' hk16 hopcne hopc hopc' hopc16 (show hexDecode [56, 48, 48, 48] = some [0x80, 0x00] by decide) (by decide) hrand hsqn hds
    (asc_digitsOf _ hdigs)
    (by rw [List.all_eq_true]; intro c hc; exact hdigs c hc)
    (by rw [decW_length]; exact h5) (by rw [decW_length]; exact h15)
    (by rw [hmccB]; exact hmcc3) (by rw [hmncB]; exact hmnc23)
  have hD := D.hkeys
  rw [hue1, hsupi, hautn, hrandD] at hD
  rw [hmccB, hmncB] at hder
  have : keys' = keys := Except.ok.inj (hder.symm.trans hD)
  subst this
  exact ⟨e1, e3, e4⟩

theorem take2048 (d : Bytes) (h : d.length ≤ 2048) : d.take 2048 = d := List.take_of_length_le h

open Stgutg.Proofs.BuildersRoles Stgutg.Proofs.UeIdentity Stgutg.Proofs.EmulatorRun Stgutg.Proofs.EmulatorSubscriber
  Stgutg.Proofs.EmulatorDownlink in
/-- **C01_accepted.** The statement of C01 for one UE, with the downlink side SPECIFIED: for every well-formed configuration
    (decimal IMSI of 5..15 digits with MCC = its first 3 digits and MNC = the next 2 or 3, at least one MSIN digit; K and OPc
    hexadecimal 16-octet values read alike by the code and by the reference AMF; gNB id of 22..32 bits in ⌈n/8⌉ octets with the
    unused bits clear; non-empty gNB name; ABBA of 2..255 octets; one registration requested and nothing after it) and every
    choice of a conformant AMF (RAND of 16 octets, SQN of 6, AMF field of 2, any ngKSI, AMF-UE-NGAP-ID below 2^40), when the
    AMF sends the five downlink messages of `Spec.AmfDl.dl` — built with the SPECIFICATION encoders only (X.691, TS 24.501,
    TS 33.501 / TS 35.206 for the challenge) — and they fit the emulator's 2048-octet receive buffer, the emulator completes
    and the reference AMF ACCEPTS its transcript:
      judge (emulate cfg (dl cfg choice)).uls = accept.
    (`hdl`: the specification encoders do encode — `Spec.AmfDl.dl … = some dls`; the NGAP encodings exist by the theorems used
    here, the three protected NAS messages are the remaining content of that hypothesis. Primitives AES / HMAC / CMAC / CTR are
    parameters: block cipher on 16 octets, 32-octet MAC, CTR a keystream cipher, CMAC tag of at least 4 octets.) -/
theorem C01_accepted (P : Prims) (hP : PrimsOk P) (hE : BlockCipher P.aes) (hH : MacLen P.hmac) (cfg : Cfg) (scfg : Spec.Amf.Cfg)
    (chs : List Spec.Amf.Choice) (E : Model.Convert.Ext)
    -- the configuration
    (hreg : cfg.reg = 1) (hpdu : cfg.pdu = 0) (hdereg : cfg.dereg = 0) (hone : Spec.Amf.subscribers scfg = 1)
    (himsi : scfg.imsi = cfg.imsi) (hd : DecimalImsi cfg.imsi) (h5 : 5 ≤ cfg.imsi.length) (h15 : cfg.imsi.length ≤ 15)
    {w : Nat} (hw : w = 2 ∨ w = 3) (hmncl : cfg.mnc.length = w) (hmcc3 : cfg.mcc.length = 3)
    (hmccB : scfg.mcc = cfg.mcc) (hmncB : scfg.mnc = cfg.mnc)
    (hmcc : scfg.mcc = cfg.imsi.take 3) (hmnc : scfg.mnc = (cfg.imsi.drop 3).take w) (hlen : 3 + w < cfg.imsi.length)
    (hfit : MsinFits cfg.imsi (3 + w) 1)
    (h22 : 22 ≤ cfg.bitlength) (h32 : cfg.bitlength ≤ 32) (hg : cfg.gnbId.length = (cfg.bitlength + 7) / 8)
    (hc : Canonical cfg.gnbId cfg.bitlength) (hname : 1 ≤ cfg.name.length)
    (m : Bytes) (hplmn : Model.Suci.ngSetupPlmn cfg.imsi cfg.mnc.length = .ok m) (hm : m.length = 3)
    (hcfg : Spec.Amf.plmnOf scfg = some m)
    (k opc : Bytes) (hk : hexDecode cfg.k = some k) (hk' : Spec.Amf.hexText scfg.k = some k) (hk16 : k.length = 16)
    (hopcne : cfg.opc ≠ []) (hopc : hexDecode cfg.opc = some opc) (hopc' : Spec.Amf.opcOf P scfg = some opc)
    (hopc16 : opc.length = 16) (habba : 2 ≤ scfg.abba.length ∧ scfg.abba.length < 256)
    -- the AMF's choice
    (ch : Spec.Amf.Choice) (hch : chs[0]? = some ch) (hamf : ch.amfUeNgapId < 2 ^ 40)
    (hrand : ch.rand.length = 16) (hsqn : ch.sqn.length = 6) (hamfF : ch.amf.length = 2)
    -- the downlink messages are those of the specification
    (cap : Bytes) (dls : List Bytes)
    (hdl : Spec.AmfDl.dl P scfg 0 ch (createUE cfg 0).ctx.ranUeNgapId cap = some dls)
    (hbuf : ∀ d ∈ dls, d.length ≤ 2048) :
    (emulate P E cfg dls).outcome = .completed ∧
    Spec.Amf.judge P false scfg chs (emulate P E cfg dls).uls none ((emulate P E cfg dls).outcome == .completed) = .accept := by
  obtain ⟨plmn, aka, autn, ar, n3, n4, n5, d1, d2, d3, d4, d5, e1, hvec, e3, e4, e5, e6, e7, e8, e9, rfl⟩ :=
    dl_some P scfg 0 ch _ cap dls hdl
  have hpm : plmn = m := Option.some.inj (e1.symm.trans hcfg)
  subst hpm
  -- the RAN-UE-NGAP-ID of the created UE
  have hran : (createUE cfg 0).ctx.ranUeNgapId = (((Model.UeIdentity.decVal cfg.imsi + 0) % 10000 : Nat) : Int) :=
    createUE_ranId hd 0 (by decide) cfg.k cfg.opc cfg.op
  have hr0 : 0 ≤ (createUE cfg 0).ctx.ranUeNgapId := by rw [hran]; omega
  have hr1 : (createUE cfg 0).ctx.ranUeNgapId < 2 ^ 32 := by rw [hran]; omega
  have ha0 : (0 : Int) ≤ ch.amfUeNgapId := by omega
  have ha1 : (ch.amfUeNgapId : Int) < 2 ^ 40 := by exact_mod_cast hamf
  -- AUTN
  have hautn : autn = Spec.Ts35206.autn P.aes k opc ch.rand ch.sqn ch.amf := by
    unfold Spec.Amf.autnOf at e3
    rw [hk', hopc'] at e3
    exact (Option.some.inj e3).symm
  have hautn16 : autn.length = 16 := by
    rw [hautn]
    unfold Spec.Ts35206.autn
    have h5' := f5_length (rand := ch.rand) hE hk16 hopc16 hrand
    have h1' := f1_length (rand := ch.rand) hE hk16 hopc16 hrand hsqn hamfF
    simp only [List.length_append, Proofs.Milenage.xorBytes_length, h5', h1', hsqn, hamfF]
    rfl
  -- the downlink messages decode
  have hb := hbuf
  simp only [List.mem_cons, List.not_mem_nil, or_false, forall_eq_or_imp, forall_eq] at hb
  obtain ⟨hb1, hb2, hb3, hb4, hb5⟩ := hb
  obtain ⟨x1, hx1, hdec1⟩ := ngsr_roundtrip plmn hm
  have : x1 = d1 := Option.some.inj (hx1.symm.trans e4); subst this
  obtain ⟨x2, hx2, hdec2⟩ := dnt_roundtrip ch.amfUeNgapId (createUE cfg 0).ctx.ranUeNgapId ar ha0 ha1 hr0 hr1
  have : x2 = d2 := Option.some.inj (hx2.symm.trans e6); subst this
  obtain ⟨x3, hx3, hdec3⟩ := dnt_roundtrip ch.amfUeNgapId (createUE cfg 0).ctx.ranUeNgapId n3 ha0 ha1 hr0 hr1
  have : x3 = d3 := Option.some.inj (hx3.symm.trans e7); subst this
  obtain ⟨x4, hx4, hdec4⟩ := icsReq_roundtrip plmn hm ch.amfUeNgapId (createUE cfg 0).ctx.ranUeNgapId (Spec.AmfDl.kgnb P aka.kamf) n4
    ha0 ha1 hr0 hr1 (by unfold Spec.AmfDl.kgnb Spec.Ts33501A.kdf; exact hH _ _)
  have : x4 = d4 := Option.some.inj (hx4.symm.trans e8); subst this
  obtain ⟨x5, hx5, hdec5⟩ := dnt_roundtrip ch.amfUeNgapId (createUE cfg 0).ctx.ranUeNgapId n5 ha0 ha1 hr0 hr1
  have : x5 = d5 := Option.some.inj (hx5.symm.trans e9); subst this
  -- the Authentication Request
  obtain ⟨pm, r, hpd, hauth, har⟩ := ar_decodes ch.ngKsi scfg.abba ch.rand autn habba.2 habba.1 hrand hautn16 ar e5
  subst har
  -- the keys
  have hd' : DecimalImsi scfg.imsi := by rw [himsi]; exact hd
  have hfitall : Model.UeIdentity.decVal cfg.imsi + 0 < 10 ^ cfg.imsi.length := by
    have := decVal_lt cfg.imsi hd.digits; omega
  have hsupi : (createUE cfg 0).ctx.supi = Model.UeIdentity.imsiPrefix ++ Model.UeIdentity.decW cfg.imsi.length
      (Model.UeIdentity.decVal cfg.imsi + 0) := createUE_supi hd 0 hfitall cfg.k cfg.opc cfg.op
  have hds := supiDigits_eq scfg hd' 0
  rw [himsi] at hds
  have hdigs := decW_digits cfg.imsi.length (Model.UeIdentity.decVal cfg.imsi + 0)
  obtain ⟨keys, hder, k1, _, k3, k4⟩ := C01_res_star P hE hH scfg ch 0 aka
    { amf := (createUE cfg 0).ctx.amf, k := (createUE cfg 0).ctx.k, opc := (createUE cfg 0).ctx.opc, op := (createUE cfg 0).ctx.op }
    [0x80, 0x00] k opc (Model.UeIdentity.decW cfg.imsi.length (Model.UeIdentity.decVal cfg.imsi + 0)) _ hvec
    hk hk' hk16 hopcne hopc hopc' hopc16 (show hexDecode [56, 48, 48, 48] = some [0x80, 0x00] by decide) (by decide) hrand hsqn hds
    (asc_digitsOf _ hdigs)
    (by rw [List.all_eq_true]; intro c hc; exact hdigs c hc)
    (by rw [decW_length]; exact h5) (by rw [decW_length]; exact h15)
    (by rw [hmccB]; exact hmcc3) (by rw [hmncB, hmncl]; exact hw)
  rw [hmccB, hmncB, ← hautn] at hder
  have D : DlReads P cfg (createUE cfg 0) x2 x3 x4 x5 ch.amfUeNgapId keys (createUE cfg 0) :=
    { v2 := _, dnt := _, hdec2 := by rw [take2048 _ hb2]; exact hdec2, hdnt := dnt_alt _ _ _,
      pm := some pm, hgn := fun w => dnt_getNasPdu P _ _ _ r pm hpd w, autn := autn, rand := ch.rand, hauth := hauth,
      hkeys := by rw [hsupi]; exact hder, hamf := dnt_amf _ _ _,
      v3 := _, hdec3 := by rw [take2048 _ hb3]; exact hdec3, v4 := _, hdec4 := by rw [take2048 _ hb4]; exact hdec4,
      hdec5 := by rw [take2048 _ hb5, hdec5]; exact ⟨by simp, by simp⟩ }
  exact C01_accepted_for_downlink P hP hH cfg scfg chs E x1 x2 x3 x4 x5 hreg hpdu hdereg hone himsi hd hw hmncl hmcc hmnc hlen hfit
    h22 h32 hg hc hname plmn hplmn hm hcfg ch aka hch hvec hamf _ (by rw [take2048 _ hb1]; exact hdec1) keys (createUE cfg 0) D
    ⟨rfl, rfl, rfl⟩ ⟨k1, k3, k4⟩

open Stgutg.Proofs.EmulatorWitness in
set_option maxRecDepth 1000000 in
/-- the downlink hypotheses of `C01_accepted` are satisfiable: for the configuration and choice of the recorded conversation
    `reg1` (with primitives that are cheap in the kernel) the specification encoders encode all five messages, each far below
    2048 octets. (With the real AES / SHA-256 the octets of DL2, DL3 and DL5 are byte for byte those the scripted AMF of the
    correspondence harness sent in that conversation — evaluated once outside the build.) -/
example : (match reg1Choices.head?.bind fun ch => Spec.AmfDl.dl cheapPrims (specOf reg1Cfg reg1Abba) 0 ch 6 [0x80, 0x20] with
    | some dls => dls.length == 5 && dls.all fun d => decide (d.length ≤ 2048)
    | none => false) = true := by decide +kernel

/-! ### N UEs: the registration of UE `j` as a block, from any state of the judge in which `j` and its RAN-UE-NGAP-ID are new -/

/-- the judge's state of subscriber `j` -/
def regUe (j : Nat) (ran : Int) (ch : Spec.Amf.Choice) (aka : Spec.Ts33501A.Aka) (reg : Spec.Amf.Reg) (last : Option Nat)
    (used : List Nat) : Spec.Amf.UeSt := { j := j, ran := ran, ch := ch, aka := aka, reg := reg, last := last, used := used }

/-- NG Setup done, these UEs known, no clause raised -/
def regSt (us : List Spec.Amf.UeSt) : Spec.Amf.St := { ngSetup := true, ues := us }

theorem regSt_find (us : List Spec.Amf.UeSt) (u : Spec.Amf.UeSt) (h : ∀ x ∈ us, x.ran ≠ u.ran) :
    (regSt (us ++ [u])).ues.find? (·.ran == u.ran) = some u := by
  simp only [regSt, List.find?_append]
  have : us.find? (·.ran == u.ran) = none := by
    rw [List.find?_eq_none]; intro x hx; simpa using h x hx
  rw [this]; simp

theorem regSt_setUe (us : List Spec.Amf.UeSt) (u u' : Spec.Amf.UeSt) (hj : u'.j = u.j) (h : ∀ x ∈ us, x.j ≠ u.j) :
    (regSt (us ++ [u])).setUe u' = regSt (us ++ [u']) := by
  simp only [regSt, Spec.Amf.St.setUe, List.map_append, List.map_cons, List.map_nil, hj, beq_self_eq_true, if_true]
  congr 2
  conv => rhs; rw [← List.map_id us]
  apply List.map_congr_left
  intro x hx
  have := h x hx
  simp [this]

/-- **C01_registration_block.** The five uplink messages of the registration of subscriber `j` (UL2 … UL6 of
    `C01_registration_script_accepted`), judged (for C01 or for C02: `life`) from ANY state in which NG Setup is done, no clause is raised, and neither `j` nor
    its RAN-UE-NGAP-ID occurs among the UEs known so far: the judge raises no clause and ends with `j` REGISTERED after the
    others — whatever follows in the transcript is judged from that state. -/
theorem C01_registration_block (P : Prims) (hP : PrimsOk P) (life : Bool) (cfg : Spec.Amf.Cfg) (chs : List Spec.Amf.Choice)
    (E : Model.Convert.Ext) (m : Bytes) (hm : m.length = 3) (us : List Spec.Amf.UeSt) (j : Nat) (k : Nat)
    (ran : Int) (hr0 : 0 ≤ ran) (hr1 : ran < 2 ^ 32) (hnew : ∀ x ∈ us, x.ran ≠ ran ∧ x.j ≠ j) (mi secCap : Nas.Val)
    (hmi : mi.iei = 0 ∧ mi.len = mi.data.length ∧ mi.data.length < 65536)
    (hsc : secCap.iei = 0x2E ∧ secCap.len = secCap.data.length ∧ secCap.data.length < 256)
    (hea : Spec.Identity.eaSupported secCap.data Spec.Amf.selectedEa = true)
    (hia : Spec.Identity.iaSupported secCap.data Spec.Amf.selectedIa = true)
    (ch : Spec.Amf.Choice) (aka : Spec.Ts33501A.Aka) (hsub : Spec.Amf.subscriberOf cfg mi.data = some j)
    (hch : chs[j]? = some ch) (hvec : Spec.Amf.vector P cfg j ch = some aka)
    (hamf : ch.amfUeNgapId < 2 ^ 40) (hres : aka.resStar.length = 16)
    (sec : UeSec) (hin : InStep sec (regUe j ran ch aka .authSent none []))
    (hrr : ∀ rr, Nas.Ctor.encodeWith Gen.Nas.layout_RegistrationRequest
      (Nas.Ctor.registrationRequest 1 mi none (some secCap) (some cap5GMMVal) none none) = .ok rr → rr.length < 65536) :
    ∃ nas2 b2 nas3 b3 rr smc o1 b4 b5 rc o2 b6,
      Nas.Ctor.encodeWith Gen.Nas.layout_RegistrationRequest
        (Nas.Ctor.registrationRequest 1 mi none (some secCap) none none none) = .ok nas2 ∧
      Wrapper.run E .GetInitialUEMessage m [.int ran, .octs nas2, .str []] = .ok (.ok b2) ∧
      Nas.Ctor.encodeWith Gen.Nas.layout_AuthenticationResponse (Nas.Ctor.authenticationResponse aka.resStar []) = .ok nas3 ∧
      Wrapper.run E .GetUplinkNASTransport m [.int ch.amfUeNgapId, .int ran, .octs nas3] = .ok (.ok b3) ∧
      Nas.Ctor.encodeWith Gen.Nas.layout_RegistrationRequest
        (Nas.Ctor.registrationRequest 1 mi none (some secCap) (some cap5GMMVal) none none) = .ok rr ∧
      Nas.Ctor.encodeWith Gen.Nas.layout_SecurityModeComplete (Nas.Ctor.securityModeComplete (some rr)) = .ok smc ∧
      (Model.NasProtect.encodeNasPduWithSecurity P sec smc 4 true true).2 = .ok o1 ∧
      Wrapper.run E .GetUplinkNASTransport m [.int ch.amfUeNgapId, .int ran, .octs o1] = .ok (.ok b4) ∧
      Wrapper.run E .GetInitialContextSetupResponse m [.int ch.amfUeNgapId, .int ran] = .ok (.ok b5) ∧
      Nas.Ctor.encodeWith Gen.Nas.layout_RegistrationComplete (Nas.Ctor.registrationComplete none) = .ok rc ∧
      (Model.NasProtect.encodeNasPduWithSecurity P (Model.NasProtect.encodeNasPduWithSecurity P sec smc 4 true true).1 rc 2 true false).2
        = .ok o2 ∧
      Wrapper.run E .GetUplinkNASTransport m [.int ch.amfUeNgapId, .int ran, .octs o2] = .ok (.ok b6) ∧
      ∀ (rest : List Bytes),
        Spec.Amf.run P life cfg chs (regSt us) k (b2 :: b3 :: b4 :: b5 :: b6 :: rest) =
          Spec.Amf.run P life cfg chs (regSt (us ++ [regUe j ran ch aka .registered (some 1) [1, 0]])) (k + 5) rest := by
  have hsuci : Spec.Amf.suciIs cfg j mi.data = true := by
    have := List.find?_some hsub
    exact this
  have hran : ∀ x ∈ us, x.ran ≠ ran := fun x hx => (hnew x hx).1
  have hj : ∀ x ∈ us, x.j ≠ j := fun x hx => (hnew x hx).2
  have hanyj : (regSt us).ues.any (·.j == j) = false := by
    simp only [regSt, List.any_eq_false, beq_iff_eq]; exact hj
  have hanyr : (regSt us).ues.any (·.ran == ran) = false := by
    simp only [regSt, List.any_eq_false, beq_iff_eq]; exact hran
  have hfind : ∀ (reg : Spec.Amf.Reg) (last : Option Nat) (used : List Nat),
      (regSt (us ++ [regUe j ran ch aka reg last used])).ues.find? (·.ran == ran) = some (regUe j ran ch aka reg last used) :=
    fun reg last used => regSt_find us (regUe j ran ch aka reg last used) hran
  obtain ⟨nas2, b2, henc2, hrun2, hstep2⟩ := C01_step_registration_request P cfg chs (regSt us) k
    E m hm ran hr0 hr1 rfl mi secCap hmi hsc hea hia j ch aka hsub hch hvec hanyj hanyr
  have hstep2' : Spec.Amf.step P cfg chs (regSt us) k b2 = regSt (us ++ [regUe j ran ch aka .authSent none []]) := hstep2
  obtain ⟨nas3, b3, henc3, hrun3, hstep3⟩ := C01_step_authentication_response P cfg chs
    (regSt (us ++ [regUe j ran ch aka .authSent none []])) (k + 1) E m hm ran hr0 hr1 (regUe j ran ch aka .authSent none [])
    (hfind _ _ _) hamf aka.resStar hres rfl rfl
  have hstep3' : Spec.Amf.step P cfg chs (regSt (us ++ [regUe j ran ch aka .authSent none []])) (k + 1) b3 =
      regSt (us ++ [regUe j ran ch aka .smcSent none []]) := by
    rw [hstep3]; exact regSt_setUe us _ _ rfl hj
  obtain ⟨rr, smc, o1, b4, hencrr, hencsmc, ho1, hrun4, hstep4, hin1, hcnt1⟩ := C01_step_security_mode_complete P hP cfg chs
    (regSt (us ++ [regUe j ran ch aka .smcSent none []])) (k + 2) E m hm ran hr0 hr1 (regUe j ran ch aka .smcSent none [])
    (hfind _ _ _) hamf sec ⟨hin.1, hin.2⟩ rfl mi secCap hmi hsc hea hia hsuci hrr
  have hstep4' : Spec.Amf.step P cfg chs (regSt (us ++ [regUe j ran ch aka .smcSent none []])) (k + 2) b4 =
      regSt (us ++ [regUe j ran ch aka (.ctxSetup false false) (some 0) [0]]) := by
    rw [hstep4]; exact regSt_setUe us _ _ rfl hj
  obtain ⟨b5, hrun5, hstep5⟩ := C01_step_initial_context_setup_response P cfg chs
    (regSt (us ++ [regUe j ran ch aka (.ctxSetup false false) (some 0) [0]])) (k + 3) E m hm ran hr0 hr1
    (regUe j ran ch aka (.ctxSetup false false) (some 0) [0]) (hfind _ _ _) hamf rfl false rfl
  have hstep5' : Spec.Amf.step P cfg chs (regSt (us ++ [regUe j ran ch aka (.ctxSetup false false) (some 0) [0]])) (k + 3) b5 =
      regSt (us ++ [regUe j ran ch aka (.ctxSetup true false) (some 0) [0]]) := by
    rw [hstep5]; exact regSt_setUe us _ _ rfl hj
  obtain ⟨rc, o2, b6, hencrc, ho2, hrun6, hstep6⟩ := C01_step_registration_complete P hP cfg chs
    (regSt (us ++ [regUe j ran ch aka (.ctxSetup true false) (some 0) [0]])) (k + 4) E m hm ran hr0 hr1
    (regUe j ran ch aka (.ctxSetup true false) (some 0) [0]) (hfind _ _ _) hamf
    (Model.NasProtect.encodeNasPduWithSecurity P sec smc 4 true true).1 ⟨hin1.1, hin1.2⟩ 0 rfl hcnt1 rfl true false rfl
  have hstep6' : Spec.Amf.step P cfg chs (regSt (us ++ [regUe j ran ch aka (.ctxSetup true false) (some 0) [0]])) (k + 4) b6 =
      regSt (us ++ [regUe j ran ch aka .registered (some 1) [1, 0]]) := by
    rw [hstep6]; exact regSt_setUe us _ _ rfl hj
  refine ⟨nas2, b2, nas3, b3, rr, smc, o1, b4, b5, rc, o2, b6, henc2, hrun2, henc3, hrun3, hencrr, hencsmc, ho1, hrun4, hrun5,
    hencrc, ho2, hrun6, fun rest => ?_⟩
  rw [run_clean_step P life cfg chs _ k b2 _ rfl (by rw [hstep2']; rfl), hstep2',
    run_clean_step P life cfg chs _ (k + 1) b3 _ rfl (by rw [hstep3']; rfl), hstep3',
    run_clean_step P life cfg chs _ (k + 2) b4 _ rfl (by rw [hstep4']; rfl), hstep4',
    run_clean_step P life cfg chs _ (k + 3) b5 _ rfl (by rw [hstep5']; rfl), hstep5',
    run_clean_step P life cfg chs _ (k + 4) b6 _ rfl (by rw [hstep6']; rfl), hstep6']

open Stgutg.Proofs.BuildersRoles Stgutg.Proofs.UeIdentity Stgutg.Proofs.EmulatorRun in
/-- **C01_register_one.** One iteration of the registration loop, emulator and judge together: `RegisterUE` for UE `j` of a
    population of `N` (`CreateUE(imsi, j, …)`), reading the four downlink messages `DlReads` describes, writes five uplink
    messages; judged at position `k` from a state in which NG Setup is done and `j` / its RAN-UE-NGAP-ID are new, they raise no
    clause and leave `j` REGISTERED. -/
theorem C01_register_one (P : Prims) (hP : PrimsOk P) (hH : MacLen P.hmac) (cfg : Cfg) (scfg : Spec.Amf.Cfg)
    (chs : List Spec.Amf.Choice) (E : Model.Convert.Ext) (N : Nat) (hN : Spec.Amf.subscribers scfg = N)
    (himsi : scfg.imsi = cfg.imsi) (hd : DecimalImsi cfg.imsi) {w : Nat} (hw : w = 2 ∨ w = 3) (hmncl : cfg.mnc.length = w)
    (hmcc : scfg.mcc = cfg.imsi.take 3) (hmnc : scfg.mnc = (cfg.imsi.drop 3).take w) (hlen : 3 + w < cfg.imsi.length)
    (hfit : MsinFits cfg.imsi (3 + w) N) (m : Bytes) (hm : m.length = 3)
    (j : Nat) (hj : j < N) (us : List Spec.Amf.UeSt)
    (hnew : ∀ x ∈ us, x.ran ≠ (createUE cfg j).ctx.ranUeNgapId ∧ x.j ≠ j)
    (ch : Spec.Amf.Choice) (aka : Spec.Ts33501A.Aka) (hch : chs[j]? = some ch) (hvec : Spec.Amf.vector P scfg j ch = some aka)
    (hamf : ch.amfUeNgapId < 2 ^ 40)
    (d2 d3 d4 d5 : Bytes) (keys : Model.KeyDerivation.UeKeys)
    (D : DlReads P cfg (createUE cfg j) d2 d3 d4 d5 ch.amfUeNgapId keys (createUE cfg j))
    (hkeys : keys.resStar = aka.resStar ∧ keys.knasEnc = aka.knasEnc ∧ keys.knasInt = aka.knasInt)
    (k : Nat) (wd : World) (rest : List Bytes) (hdls : wd.dls = d2 :: d3 :: d4 :: d5 :: rest) (hplmn : wd.plmn = m) :
    ∃ r b2 b3 b4 b5 b6,
      registerUE P E cfg (createUE cfg j) wd =
        ({ wd with dls := rest, ulsRev := b6 :: b5 :: b4 :: b3 :: b2 :: wd.ulsRev }, .ok r) ∧
      ∀ tail, Spec.Amf.run P false scfg chs (regSt us) k (b2 :: b3 :: b4 :: b5 :: b6 :: tail) =
        Spec.Amf.run P false scfg chs
          (regSt (us ++ [regUe j (createUE cfg j).ctx.ranUeNgapId ch aka .registered (some 1) [1, 0]])) (k + 5) tail := by
  have h18 := hd.short
  have hjlt : j < 2 ^ 62 := by
    have := hfit.2
    have h10 : 10 ^ (cfg.imsi.length - (3 + w)) ≤ 10 ^ 18 := Nat.pow_le_pow_right (by omega) (by omega)
    have : N ≤ 10 ^ 18 := by omega
    have : (10 : Nat) ^ 18 < 2 ^ 62 := by decide
    omega
  have hran : (createUE cfg j).ctx.ranUeNgapId = (((Model.UeIdentity.decVal cfg.imsi + j) % 10000 : Nat) : Int) :=
    createUE_ranId hd j hjlt cfg.k cfg.opc cfg.op
  have hr0 : 0 ≤ (createUE cfg j).ctx.ranUeNgapId := by rw [hran]; omega
  have hr1 : (createUE cfg j).ctx.ranUeNgapId < 2 ^ 32 := by rw [hran]; omega
  have hd' : DecimalImsi scfg.imsi := by rw [himsi]; exact hd
  obtain ⟨suci, hsuci, hslen, hsub⟩ := C01_subscriber_identified scfg hd' hw (by rw [himsi]; exact hmcc) (by rw [himsi]; exact hmnc)
    (by rw [himsi]; exact hlen) (by rw [himsi, hN]; exact hfit) (j := j) (by rw [hN]; exact hj) cfg.k cfg.opc cfg.op
  have hsuci' : Model.Suci.encodeSuci (Model.Suci.trimImsiPrefix (createUE cfg j).ctx.supi) cfg.mnc.length = .ok suci := by
    rw [hmncl]
    have : (createUE cfg j).ctx = Model.UeIdentity.createUE scfg.imsi ((j : Nat) : Int) cfg.k cfg.opc cfg.op := by
      rw [himsi]; rfl
    rw [this]
    exact hsuci
  rw [himsi] at hslen
  have hmi : (suciVal suci).iei = 0 ∧ (suciVal suci).len = (suciVal suci).data.length ∧ (suciVal suci).data.length < 65536 :=
    ⟨rfl, by show suci.length % 65536 = suci.length; omega, by show suci.length < 65536; omega⟩
  have hcapS := C01_security_capability cfg j
  have hrr : ∀ rr, Nas.Ctor.encodeWith Gen.Nas.layout_RegistrationRequest
      (Nas.Ctor.registrationRequest 1 (suciVal suci) none (some (secCapVal (createUE cfg j))) (some cap5GMMVal) none none) = .ok rr →
      rr.length < 65536 := fun rr hrr =>
    registrationRequest_short (suciVal suci) (secCapVal (createUE cfg j)) hmi (secCapVal_shape cfg j)
      (by show suci.length ≤ 26; omega) rr hrr
  have hin : InStep (secAfterKeys (createUE cfg j) keys) (regUe j (createUE cfg j).ctx.ranUeNgapId ch aka .authSent none []) := by
    refine ⟨?_, ?_⟩
    · simp [Proofs.NasProtect.ctxOf, Spec.Amf.ctxOf, regUe, hkeys.2.1, hkeys.2.2, Spec.Amf.selectedIa, Spec.Amf.selectedEa]
      exact ⟨rfl, rfl⟩
    · exact ⟨.inr rfl, .inl rfl⟩
  obtain ⟨nas2, b2, nas3, b3, rr, smc, o1, b4, b5, rc, o2, b6, e2, e3, e4, e5, e6, e7, e8, e9, e10, e11, e12, e13, hrun⟩ :=
    C01_registration_block P hP false scfg chs E m hm us j k (createUE cfg j).ctx.ranUeNgapId hr0 hr1 hnew
      (suciVal suci) (secCapVal (createUE cfg j)) hmi (secCapVal_shape cfg j) hcapS.1 hcapS.2 ch aka hsub hch hvec hamf
      (vector_resStar_length P hH scfg j ch aka hvec) (secAfterKeys (createUE cfg j) keys) hin hrr
  obtain ⟨pm4, hpd4, hpe4⟩ := Proofs.EmulatorReencode.reenc_smc rr smc (hrr rr e6) e7
  obtain ⟨pm6, hpd6, hpe6⟩ := Proofs.EmulatorReencode.reenc_rc rc e11
  have R : RegReads P E cfg (createUE cfg j) wd.plmn d2 d3 d4 d5 suci nas2 b2 nas3 b3 rr smc o1 b4 b5 rc o2 b6 ch.amfUeNgapId keys
      (createUE cfg j) :=
    { hsuci := hsuci', henc2 := e2, hrun2 := by rw [hplmn]; exact e3, v2 := D.v2, dnt := D.dnt, hdec2 := D.hdec2, hdnt := D.hdnt,
      pm := D.pm, hgn := D.hgn, autn := D.autn, rand := D.rand, hauth := D.hauth, hkeys := D.hkeys, hamf := D.hamf,
      henc3 := by rw [hkeys.1]; exact e4, hrun3 := by rw [hplmn]; exact e5, v3 := D.v3, hdec3 := D.hdec3,
      hencrr := e6, hencsmc := e7, pm4 := pm4, hpd4 := hpd4, hpe4 := hpe4, ho1 := e8,
      hrun4 := by rw [hplmn]; exact e9, v4 := D.v4, hdec4 := D.hdec4, hrun5 := by rw [hplmn]; exact e10,
      hencrc := e11, pm6 := pm6, hpd6 := hpd6, hpe6 := hpe6, ho2 := e12, hrun6 := by rw [hplmn]; exact e13, hdec5 := D.hdec5 }
  obtain ⟨r, hreg⟩ := registerUE_run P E cfg (createUE cfg j) wd d2 d3 d4 d5 rest hdls
    suci nas2 b2 nas3 b3 rr smc o1 b4 b5 rc o2 b6 ch.amfUeNgapId keys (createUE cfg j) R
  exact ⟨r, b2, b3, b4, b5, b6, hreg, hrun⟩

/-- the downlink messages UE `j`'s registration reads, for `j = i, …, i + n − 1`, in order -/
def dlsOf (dn : Nat → Bytes × Bytes × Bytes × Bytes) (i n : Nat) : List Bytes :=
  (List.range' i n).flatMap fun j => [(dn j).1, (dn j).2.1, (dn j).2.2.1, (dn j).2.2.2]

/-- the judge's UEs after the registrations of UEs 0 … i − 1 -/
def usOf (cfg : Cfg) (chf : Nat → Spec.Amf.Choice) (akaf : Nat → Spec.Ts33501A.Aka) (i : Nat) : List Spec.Amf.UeSt :=
  (List.range i).map fun j => regUe j (createUE cfg j).ctx.ranUeNgapId (chf j) (akaf j) .registered (some 1) [1, 0]

open Stgutg.Proofs.UeIdentity Stgutg.Proofs.EmulatorRun in
/-- **C01_register_loop.** The registration loop of test mode for UEs `i … i + n − 1` of a population of `N ≤ 10 000`, emulator and
    judge together: the loop reads `4·n` downlink messages, writes `5·n` uplink messages and completes; judged at position `k`
    from the state "UEs 0 … i − 1 registered", they raise no clause and leave UEs 0 … i + n − 1 registered (the judge keys UEs by
    RAN-UE-NGAP-ID: distinct by C16; and by subscriber index). -/
theorem C01_register_loop (P : Prims) (hP : PrimsOk P) (hH : MacLen P.hmac) (cfg : Cfg) (scfg : Spec.Amf.Cfg)
    (chs : List Spec.Amf.Choice) (E : Model.Convert.Ext) (N : Nat) (hN : Spec.Amf.subscribers scfg = N) (hN4 : N ≤ 10000)
    (himsi : scfg.imsi = cfg.imsi) (hd : DecimalImsi cfg.imsi) {w : Nat} (hw : w = 2 ∨ w = 3) (hmncl : cfg.mnc.length = w)
    (hmcc : scfg.mcc = cfg.imsi.take 3) (hmnc : scfg.mnc = (cfg.imsi.drop 3).take w) (hlen : 3 + w < cfg.imsi.length)
    (hfit : MsinFits cfg.imsi (3 + w) N) (m : Bytes) (hm : m.length = 3)
    (chf : Nat → Spec.Amf.Choice) (akaf : Nat → Spec.Ts33501A.Aka) (dn : Nat → Bytes × Bytes × Bytes × Bytes)
    (keysf : Nat → Model.KeyDerivation.UeKeys)
    (hch : ∀ j, j < N → chs[j]? = some (chf j)) (hvec : ∀ j, j < N → Spec.Amf.vector P scfg j (chf j) = some (akaf j))
    (hamf : ∀ j, j < N → (chf j).amfUeNgapId < 2 ^ 40)
    (hD : ∀ j, j < N → DlReads P cfg (createUE cfg j) (dn j).1 (dn j).2.1 (dn j).2.2.1 (dn j).2.2.2 (chf j).amfUeNgapId (keysf j)
      (createUE cfg j))
    (hkeys : ∀ j, j < N → (keysf j).resStar = (akaf j).resStar ∧ (keysf j).knasEnc = (akaf j).knasEnc ∧
      (keysf j).knasInt = (akaf j).knasInt) :
    ∀ (n i : Nat) (ues : List Ue) (wd : World) (tailDls : List Bytes) (k : Nat), i + n ≤ N →
      wd.dls = dlsOf dn i n ++ tailDls → wd.plmn = m →
      ∃ wd' ues' uls, registerLoop P E cfg n i ues wd = (wd', .ok ues') ∧ wd'.dls = tailDls ∧
        wd'.ulsRev = uls.reverse ++ wd.ulsRev ∧ wd'.plmn = m ∧
        ∀ tail, Spec.Amf.run P false scfg chs (regSt (usOf cfg chf akaf i)) k (uls ++ tail) =
          Spec.Amf.run P false scfg chs (regSt (usOf cfg chf akaf (i + n))) (k + 5 * n) tail := by
  intro n
  induction n with
  | zero =>
    intro i ues wd tailDls k _ hdls hplmn
    refine ⟨wd, ues, [], rfl, by simpa [dlsOf] using hdls, by simp, hplmn, fun tail => by simp⟩
  | succ n ih =>
    intro i ues wd tailDls k hle hdls hplmn
    have hi : i < N := by omega
    have hnew : ∀ x ∈ usOf cfg chf akaf i, x.ran ≠ (createUE cfg i).ctx.ranUeNgapId ∧ x.j ≠ i := by
      intro x hx
      simp only [usOf, List.mem_map, List.mem_range] at hx
      obtain ⟨j', hj', rfl⟩ := hx
      refine ⟨?_, by simp [regUe]; omega⟩
      exact (Props.C16.C16_ran_id_distinct hd hN4 (by omega : j' < N) hi (by omega) cfg.k cfg.opc cfg.op cfg.k cfg.opc cfg.op).1
    have hdls' : wd.dls = (dn i).1 :: (dn i).2.1 :: (dn i).2.2.1 :: (dn i).2.2.2 :: (dlsOf dn (i + 1) n ++ tailDls) := by
      rw [hdls]; simp [dlsOf, List.range'_succ]
    obtain ⟨r, b2, b3, b4, b5, b6, hreg, hrun⟩ := C01_register_one P hP hH cfg scfg chs E N hN himsi hd hw hmncl hmcc hmnc hlen hfit
      m hm i hi (usOf cfg chf akaf i) hnew (chf i) (akaf i) (hch i hi) (hvec i hi) (hamf i hi)
      (dn i).1 (dn i).2.1 (dn i).2.2.1 (dn i).2.2.2 (keysf i) (hD i hi) (hkeys i hi) k wd _ hdls' hplmn
    obtain ⟨wd', ues', uls', hloop, h1, h2, h3, h4⟩ := ih (i + 1)
      (ues ++ [{ createUE cfg i with amfUeNgapId := r.amfUeNgapId, kamf := r.kamf, sec := r.sec }])
      { wd with dls := dlsOf dn (i + 1) n ++ tailDls, ulsRev := b6 :: b5 :: b4 :: b3 :: b2 :: wd.ulsRev } tailDls (k + 5)
      (by omega) rfl hplmn
    refine ⟨wd', ues', b2 :: b3 :: b4 :: b5 :: b6 :: uls', ?_, h1, ?_, h3, fun tail => ?_⟩
    · simp only [registerLoop, Proofs.Emulator.bind_apply, hreg]
      exact hloop
    · rw [h2]; simp
    · have hus : usOf cfg chf akaf (i + 1) = usOf cfg chf akaf i ++
          [regUe i (createUE cfg i).ctx.ranUeNgapId (chf i) (akaf i) .registered (some 1) [1, 0]] := by
        simp [usOf, List.range_succ]
      have := hrun (uls' ++ tail)
      simp only [List.cons_append] at this ⊢
      rw [this, ← hus, h4 tail]
      have e1 : i + 1 + n = i + (n + 1) := by omega
      have e2 : k + 5 + 5 * n = k + 5 * (n + 1) := by omega
      rw [e1, e2]

theorem run_nil (P : Prims) (life : Bool) (cfg : Spec.Amf.Cfg) (chs : List Spec.Amf.Choice) (s : Spec.Amf.St) (k : Nat) :
    Spec.Amf.run P life cfg chs s k [] = s := by
  unfold Spec.Amf.run; rfl

open Stgutg.Proofs.BuildersRoles Stgutg.Proofs.UeIdentity Stgutg.Proofs.EmulatorRun in
/-- **C01_accepted_n_for_downlink.** NG Setup + the registration of `N ≤ 10 000` UEs (`Test_ue_registation` = N, nothing after
    it), through `emulate`, with the downlink side as hypotheses (`DlReads` for every UE): the emulator completes and the
    reference AMF accepts the whole transcript of `1 + 5·N` uplink messages. -/
theorem C01_accepted_n_for_downlink (P : Prims) (hP : PrimsOk P) (hH : MacLen P.hmac) (cfg : Cfg) (scfg : Spec.Amf.Cfg)
    (chs : List Spec.Amf.Choice) (E : Model.Convert.Ext) (N : Nat) (hN : Spec.Amf.subscribers scfg = N) (hN4 : N ≤ 10000)
    (hreg : cfg.reg = (N : Int)) (hpdu : cfg.pdu = 0) (hdereg : cfg.dereg = 0)
    (himsi : scfg.imsi = cfg.imsi) (hd : DecimalImsi cfg.imsi) {w : Nat} (hw : w = 2 ∨ w = 3) (hmncl : cfg.mnc.length = w)
    (hmcc : scfg.mcc = cfg.imsi.take 3) (hmnc : scfg.mnc = (cfg.imsi.drop 3).take w) (hlen : 3 + w < cfg.imsi.length)
    (hfit : MsinFits cfg.imsi (3 + w) N)
    (h22 : 22 ≤ cfg.bitlength) (h32 : cfg.bitlength ≤ 32) (hg : cfg.gnbId.length = (cfg.bitlength + 7) / 8)
    (hc : Canonical cfg.gnbId cfg.bitlength) (hname : 1 ≤ cfg.name.length)
    (m : Bytes) (hplmn : Model.Suci.ngSetupPlmn cfg.imsi cfg.mnc.length = .ok m) (hm : m.length = 3)
    (hcfg : Spec.Amf.plmnOf scfg = some m)
    (d1 : Bytes) (v1 : Aper.Val) (hdec1 : ngapDecode (d1.take 2048) = .ok v1)
    (chf : Nat → Spec.Amf.Choice) (akaf : Nat → Spec.Ts33501A.Aka) (dn : Nat → Bytes × Bytes × Bytes × Bytes)
    (keysf : Nat → Model.KeyDerivation.UeKeys)
    (hch : ∀ j, j < N → chs[j]? = some (chf j)) (hvec : ∀ j, j < N → Spec.Amf.vector P scfg j (chf j) = some (akaf j))
    (hamf : ∀ j, j < N → (chf j).amfUeNgapId < 2 ^ 40)
    (hD : ∀ j, j < N → DlReads P cfg (createUE cfg j) (dn j).1 (dn j).2.1 (dn j).2.2.1 (dn j).2.2.2 (chf j).amfUeNgapId (keysf j)
      (createUE cfg j))
    (hkeys : ∀ j, j < N → (keysf j).resStar = (akaf j).resStar ∧ (keysf j).knasEnc = (akaf j).knasEnc ∧
      (keysf j).knasInt = (akaf j).knasInt) :
    (emulate P E cfg (d1 :: dlsOf dn 0 N)).outcome = .completed ∧
    Spec.Amf.judge P false scfg chs (emulate P E cfg (d1 :: dlsOf dn 0 N)).uls none
      ((emulate P E cfg (d1 :: dlsOf dn 0 N)).outcome == .completed) = .accept := by
  -- NG Setup
  obtain ⟨b1, hrun1, hstep1⟩ := C01_step_ng_setup_request P scfg chs {} 0 E [] cfg.gnbId m cfg.name (cfg.bitlength : Int) hm
    (by exact_mod_cast h22) (by exact_mod_cast h32) (by simpa using hg) (by simpa using hc) hname hcfg rfl
  have hsetup := manageNGSetup_run E cfg { dls := d1 :: dlsOf dn 0 N } m b1 d1 (dlsOf dn 0 N) v1 hplmn hrun1 rfl hdec1
  -- the registration loop
  obtain ⟨wd', ues', uls, hloop, hdls', hrev, _, hjudge⟩ := C01_register_loop P hP hH cfg scfg chs E N hN hN4 himsi hd hw hmncl hmcc hmnc
    hlen hfit m hm chf akaf dn keysf hch hvec hamf hD hkeys N 0 [] { dls := dlsOf dn 0 N, ulsRev := [b1], plmn := m } [] 1
    (by omega) (by simp) rfl
  -- the loop bounds
  have hnum := Props.C02.genNumbers_eq (countsOf cfg)
  have hregs : (genRegistrations (countsOf cfg)).toNat = N := by rw [hnum.2]; simp [countsOf, hreg]
  have hest : (genNumbers (countsOf cfg)).establish.toNat = 0 := by
    rw [hnum.1]; simp only [numbers, countsOf, hreg, hpdu, Model.FailStop.goMin]
    split <;> simp <;> omega
  have hsvc : (genNumbers (countsOf cfg)).service.toNat = 0 := by
    rw [hnum.1]; simp only [numbers, countsOf, hreg, hpdu, Model.FailStop.goMin]
    split <;> split <;> simp <;> omega
  have hrel : (genNumbers (countsOf cfg)).release.toNat = 0 := by
    rw [hnum.1]; simp only [numbers, countsOf, hreg, hpdu, Model.FailStop.goMin]
    split <;> split <;> simp <;> omega
  have hder : (genNumbers (countsOf cfg)).deregister.toNat = 0 := by
    rw [hnum.1]; simp only [numbers, countsOf, hreg, hdereg, Model.FailStop.goMin]
    split <;> simp <;> omega
  have hrunall : testMode P E cfg { dls := d1 :: dlsOf dn 0 N } = (wd', .ok ()) := by
    unfold testMode
    simp only [Proofs.Emulator.bind_apply, hsetup, hregs, hest, hsvc, hrel, hder, hloop, forUes, Proofs.Emulator.pure_apply]
  have huls : (emulate P E cfg (d1 :: dlsOf dn 0 N)).uls = b1 :: uls := by
    unfold emulate; rw [hrunall]; simp [transcriptOf, hrev]
  have hout : (emulate P E cfg (d1 :: dlsOf dn 0 N)).outcome = .completed := by
    unfold emulate; rw [hrunall]; rfl
  refine ⟨hout, ?_⟩
  rw [huls, hout]
  unfold Spec.Amf.judge Spec.Amf.clauses
  have hj := hjudge []
  rw [List.append_nil, run_nil] at hj
  have h0 : usOf cfg chf akaf 0 = [] := rfl
  rw [h0] at hj
  rw [run_clean_step P false scfg chs {} 0 b1 _ rfl (by rw [hstep1]), hstep1]
  have hst : ({ ({} : Spec.Amf.St) with ngSetup := true }) = regSt [] := rfl
  rw [hst, hj]
  have hall : ∀ x ∈ usOf cfg chf akaf N, Spec.Amf.isRegisteredOrLater x = true := by
    intro x hx
    simp only [usOf, List.mem_map] at hx
    obtain ⟨j, _, rfl⟩ := hx
    rfl
  have hlen : (usOf cfg chf akaf N).length = N := by simp [usOf]
  simp only [Nat.zero_add]
  simp [Spec.Amf.finish, regSt, hN]
  rw [if_pos ⟨hlen, hall⟩]
  rfl

open Stgutg.Proofs.UeIdentity Stgutg.Proofs.EmulatorRun Stgutg.Proofs.EmulatorSubscriber Stgutg.Proofs.EmulatorDownlink in
/-- **C01_dlReads_of_spec.** The downlink side of UE `j`'s registration, PROVED for the specified messages: when the AMF sends
    `Spec.AmfDl.dl` for subscriber `j` under its choice `ch` (and the messages fit the receive buffer), the NG SETUP RESPONSE is
    decodable and the other four satisfy `DlReads` — they decode (C04 on the downlink values), `GetNasPdu` / `PlainNasDecode` /
    `authParams` obtain the AUTN and RAND of the choice from the Authentication Request (C09), `List[0]` is the AMF-UE-NGAP-ID,
    and `DeriveRESstarAndSetKey` returns the RES* and NAS keys of the network's vector (`C01_res_star`). -/
theorem C01_dlReads_of_spec (P : Prims) (hE : BlockCipher P.aes) (hH : MacLen P.hmac) (cfg : Cfg) (scfg : Spec.Amf.Cfg)
    (himsi : scfg.imsi = cfg.imsi) (hd : DecimalImsi cfg.imsi) (h5 : 5 ≤ cfg.imsi.length) (h15 : cfg.imsi.length ≤ 15)
    (hmcc3 : cfg.mcc.length = 3) (hmnc23 : cfg.mnc.length = 2 ∨ cfg.mnc.length = 3)
    (hmccB : scfg.mcc = cfg.mcc) (hmncB : scfg.mnc = cfg.mnc)
    (m : Bytes) (hm : m.length = 3) (hcfg : Spec.Amf.plmnOf scfg = some m)
    (k opc : Bytes) (hk : hexDecode cfg.k = some k) (hk' : Spec.Amf.hexText scfg.k = some k) (hk16 : k.length = 16)
    (hopcne : cfg.opc ≠ []) (hopc : hexDecode cfg.opc = some opc) (hopc' : Spec.Amf.opcOf P scfg = some opc)
    (hopc16 : opc.length = 16) (habba : 2 ≤ scfg.abba.length ∧ scfg.abba.length < 256)
    (j : Nat) (hjfit : Model.UeIdentity.decVal cfg.imsi + j < 10 ^ cfg.imsi.length)
    (ch : Spec.Amf.Choice) (hamf : ch.amfUeNgapId < 2 ^ 40)
    (hrand : ch.rand.length = 16) (hsqn : ch.sqn.length = 6) (hamfF : ch.amf.length = 2)
    (cap : Bytes) (dls : List Bytes)
    (hdl : Spec.AmfDl.dl P scfg j ch (createUE cfg j).ctx.ranUeNgapId cap = some dls) (hbuf : ∀ d ∈ dls, d.length ≤ 2048) :
    ∃ d1 d2 d3 d4 d5 aka keys v1, dls = [d1, d2, d3, d4, d5] ∧ Spec.Amf.vector P scfg j ch = some aka ∧
      Spec.AmfDl.ngap (Spec.AmfDl.ngSetupResponse m) = some d1 ∧ ngapDecode (d1.take 2048) = .ok v1 ∧
      Nonempty (DlReads P cfg (createUE cfg j) d2 d3 d4 d5 ch.amfUeNgapId keys (createUE cfg j)) ∧
      keys.resStar = aka.resStar ∧ keys.knasEnc = aka.knasEnc ∧ keys.knasInt = aka.knasInt := by
  obtain ⟨plmn, aka, autn, ar, n3, n4, n5, d1, d2, d3, d4, d5, e1, hvec, e3, e4, e5, e6, e7, e8, e9, rfl⟩ :=
    dl_some P scfg j ch _ cap dls hdl
  have hpm : plmn = m := Option.some.inj (e1.symm.trans hcfg)
  subst hpm
  have h18 := hd.short
  have hjlt : j < 2 ^ 62 := by
    have h10 : 10 ^ cfg.imsi.length ≤ 10 ^ 18 := Nat.pow_le_pow_right (by omega) (by omega)
    have : (10 : Nat) ^ 18 < 2 ^ 62 := by decide
    omega
  have hran : (createUE cfg j).ctx.ranUeNgapId = (((Model.UeIdentity.decVal cfg.imsi + j) % 10000 : Nat) : Int) :=
    createUE_ranId hd j hjlt cfg.k cfg.opc cfg.op
  have hr0 : 0 ≤ (createUE cfg j).ctx.ranUeNgapId := by rw [hran]; omega
  have hr1 : (createUE cfg j).ctx.ranUeNgapId < 2 ^ 32 := by rw [hran]; omega
  have ha0 : (0 : Int) ≤ ch.amfUeNgapId := by omega
  have ha1 : (ch.amfUeNgapId : Int) < 2 ^ 40 := by exact_mod_cast hamf
  have hautn : autn = Spec.Ts35206.autn P.aes k opc ch.rand ch.sqn ch.amf := by
    unfold Spec.Amf.autnOf at e3
    rw [hk', hopc'] at e3
    exact (Option.some.inj e3).symm
  have hautn16 : autn.length = 16 := by
    rw [hautn]
    unfold Spec.Ts35206.autn
    have h5' := f5_length (rand := ch.rand) hE hk16 hopc16 hrand
    have h1' := f1_length (rand := ch.rand) hE hk16 hopc16 hrand hsqn hamfF
    simp only [List.length_append, Proofs.Milenage.xorBytes_length, h5', h1', hsqn, hamfF]
    rfl
  have hb := hbuf
  simp only [List.mem_cons, List.not_mem_nil, or_false, forall_eq_or_imp, forall_eq] at hb
  obtain ⟨hb1, hb2, hb3, hb4, hb5⟩ := hb
  obtain ⟨x1, hx1, hdec1⟩ := ngsr_roundtrip plmn hm
  have : x1 = d1 := Option.some.inj (hx1.symm.trans e4); subst this
  obtain ⟨x2, hx2, hdec2⟩ := dnt_roundtrip ch.amfUeNgapId (createUE cfg j).ctx.ranUeNgapId ar ha0 ha1 hr0 hr1
  have : x2 = d2 := Option.some.inj (hx2.symm.trans e6); subst this
  obtain ⟨x3, hx3, hdec3⟩ := dnt_roundtrip ch.amfUeNgapId (createUE cfg j).ctx.ranUeNgapId n3 ha0 ha1 hr0 hr1
  have : x3 = d3 := Option.some.inj (hx3.symm.trans e7); subst this
  obtain ⟨x4, hx4, hdec4⟩ := icsReq_roundtrip plmn hm ch.amfUeNgapId (createUE cfg j).ctx.ranUeNgapId (Spec.AmfDl.kgnb P aka.kamf) n4
    ha0 ha1 hr0 hr1 (by unfold Spec.AmfDl.kgnb Spec.Ts33501A.kdf; exact hH _ _)
  have : x4 = d4 := Option.some.inj (hx4.symm.trans e8); subst this
  obtain ⟨x5, hx5, hdec5⟩ := dnt_roundtrip ch.amfUeNgapId (createUE cfg j).ctx.ranUeNgapId n5 ha0 ha1 hr0 hr1
  have : x5 = d5 := Option.some.inj (hx5.symm.trans e9); subst this
  obtain ⟨pm, r, hpd, hauth, har⟩ := ar_decodes ch.ngKsi scfg.abba ch.rand autn habba.2 habba.1 hrand hautn16 ar e5
  subst har
  have hd' : DecimalImsi scfg.imsi := by rw [himsi]; exact hd
  have hsupi : (createUE cfg j).ctx.supi = Model.UeIdentity.imsiPrefix ++ Model.UeIdentity.decW cfg.imsi.length
      (Model.UeIdentity.decVal cfg.imsi + j) := createUE_supi hd j hjfit cfg.k cfg.opc cfg.op
  have hds := supiDigits_eq scfg hd' j
  rw [himsi] at hds
  have hdigs := decW_digits cfg.imsi.length (Model.UeIdentity.decVal cfg.imsi + j)
  obtain ⟨keys, hder, k1, _, k3, k4⟩ := C01_res_star P hE hH scfg ch j aka
    { amf := (createUE cfg j).ctx.amf, k := (createUE cfg j).ctx.k, opc := (createUE cfg j).ctx.opc, op := (createUE cfg j).ctx.op }
    [0x80, 0x00] k opc (Model.UeIdentity.decW cfg.imsi.length (Model.UeIdentity.decVal cfg.imsi + j)) _ hvec
    hk hk' hk16 hopcne hopc hopc' hopc16 (show hexDecode [56, 48, 48, 48] = some [0x80, 0x00] by decide) (by decide) hrand hsqn hds
    (asc_digitsOf _ hdigs)
    (by rw [List.all_eq_true]; intro c hc; exact hdigs c hc)
    (by rw [decW_length]; exact h5) (by rw [decW_length]; exact h15)
    (by rw [hmccB]; exact hmcc3) (by rw [hmncB]; exact hmnc23)
  rw [hmccB, hmncB, ← hautn] at hder
  refine ⟨x1, x2, x3, x4, x5, aka, keys, _, rfl, hvec, e4, by rw [take2048 _ hb1]; exact hdec1, ⟨?_⟩, k1, k3, k4⟩
  exact
    { v2 := _, dnt := _, hdec2 := by rw [take2048 _ hb2]; exact hdec2, hdnt := dnt_alt _ _ _,
      pm := some pm, hgn := fun w => dnt_getNasPdu P _ _ _ r pm hpd w, autn := autn, rand := ch.rand, hauth := hauth,
      hkeys := by rw [hsupi]; exact hder, hamf := dnt_amf _ _ _,
      v3 := _, hdec3 := by rw [take2048 _ hb3]; exact hdec3, v4 := _, hdec4 := by rw [take2048 _ hb4]; exact hdec4,
      hdec5 := by rw [take2048 _ hb5, hdec5]; exact ⟨by simp, by simp⟩ }

open Stgutg.Proofs.BuildersRoles Stgutg.Proofs.UeIdentity Stgutg.Proofs.EmulatorRun in
/-- **C01_accepted_n.** The statement of C01 for `N ≤ 10 000` UEs with the downlink side SPECIFIED: for every well-formed
    configuration (as in `C01_accepted`; the MSIN digits accommodate the population; `Test_ue_registation` = N, nothing after it)
    and every choice of a conformant AMF for every UE (RAND of 16 octets, SQN of 6, AMF field of 2, any ngKSI, AMF-UE-NGAP-ID
    below 2^40), when the AMF sends the NG SETUP RESPONSE and then, for UE 0, 1, …, N − 1 in order, the four messages of
    `Spec.AmfDl.dl` for that UE (each within the 2048-octet receive buffer), the emulator completes and the reference AMF
    ACCEPTS its transcript of 1 + 5·N uplink messages. -/
theorem C01_accepted_n (P : Prims) (hP : PrimsOk P) (hE : BlockCipher P.aes) (hH : MacLen P.hmac) (cfg : Cfg) (scfg : Spec.Amf.Cfg)
    (chs : List Spec.Amf.Choice) (E : Model.Convert.Ext) (N : Nat) (hN : Spec.Amf.subscribers scfg = N) (hN4 : N ≤ 10000)
    (hreg : cfg.reg = (N : Int)) (hpdu : cfg.pdu = 0) (hdereg : cfg.dereg = 0)
    (himsi : scfg.imsi = cfg.imsi) (hd : DecimalImsi cfg.imsi) (h5 : 5 ≤ cfg.imsi.length) (h15 : cfg.imsi.length ≤ 15)
    {w : Nat} (hw : w = 2 ∨ w = 3) (hmncl : cfg.mnc.length = w) (hmcc3 : cfg.mcc.length = 3)
    (hmccB : scfg.mcc = cfg.mcc) (hmncB : scfg.mnc = cfg.mnc)
    (hmcc : scfg.mcc = cfg.imsi.take 3) (hmnc : scfg.mnc = (cfg.imsi.drop 3).take w) (hlen : 3 + w < cfg.imsi.length)
    (hfit : MsinFits cfg.imsi (3 + w) N)
    (h22 : 22 ≤ cfg.bitlength) (h32 : cfg.bitlength ≤ 32) (hg : cfg.gnbId.length = (cfg.bitlength + 7) / 8)
    (hc : Canonical cfg.gnbId cfg.bitlength) (hname : 1 ≤ cfg.name.length)
    (m : Bytes) (hplmn : Model.Suci.ngSetupPlmn cfg.imsi cfg.mnc.length = .ok m) (hm : m.length = 3)
    (hcfg : Spec.Amf.plmnOf scfg = some m)
    (k opc : Bytes) (hk : hexDecode cfg.k = some k) (hk' : Spec.Amf.hexText scfg.k = some k) (hk16 : k.length = 16)
    (hopcne : cfg.opc ≠ []) (hopc : hexDecode cfg.opc = some opc) (hopc' : Spec.Amf.opcOf P scfg = some opc)
    (hopc16 : opc.length = 16) (habba : 2 ≤ scfg.abba.length ∧ scfg.abba.length < 256)
    -- the AMF's choices, one per UE
    (chf : Nat → Spec.Amf.Choice) (hch : ∀ j, j < N → chs[j]? = some (chf j))
    (hchWF : ∀ j, j < N → (chf j).amfUeNgapId < 2 ^ 40 ∧ (chf j).rand.length = 16 ∧ (chf j).sqn.length = 6 ∧ (chf j).amf.length = 2)
    -- the downlink messages are those of the specification
    (caps : Nat → Bytes) (d1 : Bytes) (dn : Nat → Bytes × Bytes × Bytes × Bytes)
    (hd1 : Spec.AmfDl.ngap (Spec.AmfDl.ngSetupResponse m) = some d1) (hb1 : d1.length ≤ 2048)
    (hdl : ∀ j, j < N → Spec.AmfDl.dl P scfg j (chf j) (createUE cfg j).ctx.ranUeNgapId (caps j) =
      some [d1, (dn j).1, (dn j).2.1, (dn j).2.2.1, (dn j).2.2.2])
    (hbuf : ∀ j, j < N → (dn j).1.length ≤ 2048 ∧ (dn j).2.1.length ≤ 2048 ∧ (dn j).2.2.1.length ≤ 2048 ∧ (dn j).2.2.2.length ≤ 2048) :
    (emulate P E cfg (d1 :: dlsOf dn 0 N)).outcome = .completed ∧
    Spec.Amf.judge P false scfg chs (emulate P E cfg (d1 :: dlsOf dn 0 N)).uls none
      ((emulate P E cfg (d1 :: dlsOf dn 0 N)).outcome == .completed) = .accept := by
  have hFits := msinFits_fits hd hfit
  unfold Fits at hFits
  -- per UE: the vector, the keys, the reads
  have hper : ∀ j, j < N → ∃ aka keys, Spec.Amf.vector P scfg j (chf j) = some aka ∧
      Nonempty (DlReads P cfg (createUE cfg j) (dn j).1 (dn j).2.1 (dn j).2.2.1 (dn j).2.2.2 (chf j).amfUeNgapId keys (createUE cfg j)) ∧
      keys.resStar = aka.resStar ∧ keys.knasEnc = aka.knasEnc ∧ keys.knasInt = aka.knasInt := by
    intro j hj
    obtain ⟨ha, hr, hs, hf⟩ := hchWF j hj
    obtain ⟨hbb2, hbb3, hbb4, hbb5⟩ := hbuf j hj
    obtain ⟨x1, x2, x3, x4, x5, aka, keys, v1, heq, hvec, _, _, hD, hk1, hk2, hk3⟩ := C01_dlReads_of_spec P hE hH cfg scfg himsi hd h5 h15
      hmcc3 (by rw [hmncl]; exact hw) hmccB hmncB m hm hcfg k opc hk hk' hk16 hopcne hopc hopc' hopc16 habba j (by omega) (chf j) ha hr hs hf
      (caps j) _ (hdl j hj) (by
        intro d hdm
        simp only [List.mem_cons, List.not_mem_nil, or_false] at hdm
        rcases hdm with rfl | rfl | rfl | rfl | rfl <;> assumption)
    simp only [List.cons.injEq, and_true] at heq
    obtain ⟨_, rfl, rfl, rfl, rfl⟩ := heq
    exact ⟨aka, keys, hvec, hD, hk1, hk2, hk3⟩
  -- as functions of the index
  let akaf : Nat → Spec.Ts33501A.Aka := fun j =>
    if h : j < N then Classical.choose (hper j h) else ⟨[], [], [], [], [], []⟩
  let keysf : Nat → Model.KeyDerivation.UeKeys := fun j =>
    if h : j < N then Classical.choose (Classical.choose_spec (hper j h)) else ⟨[], [], [], []⟩
  have hspec : ∀ j (h : j < N), Spec.Amf.vector P scfg j (chf j) = some (akaf j) ∧
      Nonempty (DlReads P cfg (createUE cfg j) (dn j).1 (dn j).2.1 (dn j).2.2.1 (dn j).2.2.2 (chf j).amfUeNgapId (keysf j)
        (createUE cfg j)) ∧
      (keysf j).resStar = (akaf j).resStar ∧ (keysf j).knasEnc = (akaf j).knasEnc ∧ (keysf j).knasInt = (akaf j).knasInt := by
    intro j h
    simp only [akaf, keysf, dif_pos h]
    exact Classical.choose_spec (Classical.choose_spec (hper j h))
  obtain ⟨x1, hx1, hdec1⟩ := Proofs.EmulatorDownlink.ngsr_roundtrip m hm
  have : x1 = d1 := Option.some.inj (hx1.symm.trans hd1)
  subst this
  exact C01_accepted_n_for_downlink P hP hH cfg scfg chs E N hN hN4 hreg hpdu hdereg himsi hd hw hmncl hmcc hmnc hlen hfit h22 h32 hg hc
    hname m hplmn hm hcfg x1 _ (by rw [take2048 _ hb1]; exact hdec1) chf akaf dn keysf hch (fun j h => (hspec j h).1)
    (fun j h => (hchWF j h).1) (fun j h => Classical.choice (hspec j h).2.1) (fun j h => (hspec j h).2.2)

/-- the hypotheses of `C01_ng_setup_request_seen` are satisfiable: the gNB id 000102 of 22 bits (src/config.yaml), PLMN 02f839 -/
example : ([0x00, 0xf1, 0x10] : Bytes).length = 3 ∧ ([0, 1, 4] : Bytes).length = ((22 : Int).toNat + 7) / 8 ∧
    Proofs.BuildersRoles.Canonical [0, 1, 4] (22 : Int).toNat :=
  ⟨by decide, by decide, by unfold Proofs.BuildersRoles.Canonical; decide⟩

/-- what C01 asks of the model as a whole: for every well-formed configuration and every choice of a conformant AMF
    (`dl` = the downlink messages it sends), the reference AMF judges the model's transcript `accept`. -/
def C01_accepted_statement (P : Prims) (E : Model.Convert.Ext) (dl : Spec.Amf.Cfg → List Spec.Amf.Choice → List Bytes)
    (toSpec : Cfg → Spec.Amf.Cfg) (WF : Cfg → List Spec.Amf.Choice → Prop) : Prop :=
  ∀ cfg chs, WF cfg chs →
    let t := emulate P E cfg (dl (toSpec cfg) chs)
    Spec.Amf.judge P false (toSpec cfg) chs t.uls none (t.outcome == .completed) = .accept

open Stgutg.Proofs.EmulatorWitness in
/-- **C01_accepted_witness.** The end-to-end statement on a concrete conversation, evaluated by the Lean kernel with the
    executable AES-128 / SHA-256 / HMAC / CMAC (no `native_decide`): configuration IMSI 59903000000006 (MNC 03, 2 digits),
    gNB id of 22 bits, OPc and OP configured; the AMF chose RAND, SQN, AMF field, ngKSI 2, AMF-UE-NGAP-ID 107421176 and
    sent the recorded NG SETUP RESPONSE, Authentication Request, Security Mode Command, INITIAL CONTEXT SETUP REQUEST and
    Configuration Update Command. The model runs NG Setup and the registration on them and the reference AMF accepts every
    one of its six uplink messages: NGAP message / mandatory IEs / ids, SUCI and PLMN, RES* = XRES*, header types 4 and 2,
    MAC, NAS COUNT 0 and 1, completion. -/
theorem C01_accepted_witness :
    acceptedRun Crypto.prims Model.NetExt.goExt reg1Cfg reg1Abba reg1Choices reg1Dls false = true := reg1_accepted_run

end Stgutg.Props.C01
