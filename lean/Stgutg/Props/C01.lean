/-
  C01 — NG Setup + UE registration is accepted by a conformant AMF.
  Property theorems only; helper lemmas live in Stgutg/Proofs/Emulator.lean.

  Model: Model/Emulator.lean (`manageNGSetup`, `registerUE`, test mode), tied to the code by the `convo-reg` correspondence
         domain (the real binary and in-process procedure calls against the scripted AMF; byte-identical uplink messages).
  Spec:  Spec/Amf.lean — the reference AMF as a judge of the uplink transcript (TS 38.413 message / mandatory IEs / ids,
         TS 24.501 parse, SUCI/PLMN, RES* = XRES*, header type, MAC, NAS COUNT).

  The statement's clauses, each for ALL configurations and ALL AMF choices (primitives AES / HMAC / CMAC / CTR are parameters):
    C01_res_star                 RES* returned and K_AMF / K_NASenc / K_NASint installed = the network's vector (C05 + TS 33.102 AUTN)
    C01_authentication_response_accepted  the judge's step on the Authentication Response built from that RES* raises no clause (C09);
                                 a different RES* is refused (`C01_wrong_res_star_refused`)
    C01_registration_protected   Security Mode Complete: header type 4, NAS COUNT 0; Registration Complete: header type 2,
                                 NAS COUNT 1 (= previous + 1); both pass the reference AMF's NAS-security clause (MAC valid
                                 under the network-derived keys, the plain message recovered) (C06)
    C01_suci / C01_plmn          the SUCI of UE i decodes to the configured MCC/MNC and MSIN + i; the NG Setup PLMN is the
                                 configured PLMN (C11, C16)
    C01_security_capability      the capability announces the algorithms the AMF selects (C16)
    C01_ngap_*                   every NGAP message of the exchange is the TS 38.413 message expected at its step (class,
                                 procedure code), has its mandatory IEs with the assigned criticality, and carries the
                                 AMF-UE-NGAP-ID / RAN-UE-NGAP-ID / NAS-PDU it was given (C13)
  Partial: the end-to-end composition `C01_accepted_statement` (judge (emulate cfg (dl cfg choices)) = accept) is NOT proved:
  it needs the templates' `ConfPdu` for all in-range arguments (then `C01_amf_sees_built_pdu` = C04 + C03 gives "the AMF's decoder
  inverts the encoder on these PDUs") and the NAS parse lemmas threaded through the judge's state machine. The reference AMF is evaluated on every real transcript instead
  (spec column of the `convo` op), and the clauses above are its per-step obligations. Traffic mode (XDP) is not modelled.
-/
import Stgutg.Proofs.Emulator
import Stgutg.Proofs.EmulatorWitness
import Stgutg.Props.C09
import Stgutg.Props.C11

namespace Stgutg.Props.C01
open Stgutg Stgutg.Model.Emulator Stgutg.Proofs.Emulator Stgutg.Builders
open Stgutg.Model.NasProtect Stgutg.Proofs.NasProtect Stgutg.Spec.NasSecurity
open Stgutg.Model.KeyDerivation Stgutg.Proofs.KeyDerivation Stgutg.Proofs.Milenage
open Stgutg.Spec.Ts35206 (BlockCipher)

/-! ### RES* = XRES*, keys = the network's keys -/

/-- TS 33.102 6.3.2: the first six octets of AUTN are SQN ⊕ AK -/
theorem autn_take6 (P : Prims) (k opc rand sqn amf : Bytes) (hE : BlockCipher P.aes) (hk : k.length = 16) (hopc : opc.length = 16)
    (hrand : rand.length = 16) (hsqn : sqn.length = 6) :
    (Spec.Ts35206.autn P.aes k opc rand sqn amf).take 6 = xorBytes sqn (Spec.Ts35206.f5 P.aes k opc rand) := by
  unfold Spec.Ts35206.autn
  have h6 : (xorBytes sqn (Spec.Ts35206.f5 P.aes k opc rand)).length = 6 := by
    rw [Proofs.Milenage.xorBytes_length, f5_length hE hk hopc hrand, hsqn]; rfl
  rw [List.append_assoc, List.take_left' h6]

/-- **C01_res_star.** For every K, OPc, RAND, SQN, AMF field, MCC, 2- or 3-digit MNC and SUPI of 5..15 digits: given the
    AUTN the network sends for its choice (TS 33.102: SQN ⊕ AK ‖ AMF ‖ MAC-A), `DeriveRESstarAndSetKey` succeeds, the RES* it
    returns is the XRES* of the network's vector (`Spec.Amf.vector`: TS 35.206 + TS 33.501 Annex A over the SQN the network
    chose), and the K_AMF, K_NASenc, K_NASint it installs are the network's. (OPc configured; OP-only configurations reduce
    to this by `Props.C05.op_opc`.) -/
theorem C01_res_star (P : Prims) (hE : BlockCipher P.aes) (hH : MacLen P.hmac)
    (cfg : Spec.Amf.Cfg) (ch : Spec.Amf.Choice) (j : Nat) (aka : Spec.Ts33501A.Aka)
    (a : AuthSubs) (amf k opc digits : Bytes) (ds : List Nat)
    (hvec : Spec.Amf.vector P cfg j ch = some aka)
    (hk : hexDecode a.k = some k) (hk' : Spec.Amf.hexText cfg.k = some k) (hk16 : k.length = 16)
    (hopcne : a.opc ≠ []) (hopc : hexDecode a.opc = some opc) (hopc' : Spec.Amf.opcOf P cfg = some opc) (hopc16 : opc.length = 16)
    (hamf : hexDecode a.amf = some amf) (hamf2 : 2 ≤ amf.length)
    (hrand : ch.rand.length = 16) (hsqn : ch.sqn.length = 6)
    (hds : Spec.Amf.supiDigits cfg j = some ds) (hdig : Spec.Amf.asciiDigits ds = digits)
    (hd : digits.all isDigit = true) (h5 : 5 ≤ digits.length) (h15 : digits.length ≤ 15)
    (hmcc : cfg.mcc.length = 3) (hmnc : cfg.mnc.length = 2 ∨ cfg.mnc.length = 3) :
    ∃ keys, DeriveRESstarAndSetKey P (Props.C05.imsiPrefix ++ digits) 0 2 a
        (Spec.Ts35206.autn P.aes k opc ch.rand ch.sqn ch.amf) ch.rand (snName cfg.mnc cfg.mcc) cfg.mnc cfg.mcc = .ok keys ∧
      keys.resStar = aka.resStar ∧ keys.kamf = aka.kamf ∧ keys.knasEnc = aka.knasEnc ∧ keys.knasInt = aka.knasInt := by
  refine ⟨_, Props.C05.derive_eq_spec P hE hH a amf k opc ch.rand _ cfg.mcc cfg.mnc digits 0 2 hamf hamf2 hk hk16 hopcne hopc hopc16
    hrand hd h5 h15 hmcc hmnc, ?_⟩
  unfold Spec.Amf.vector at hvec
  simp only [hk', hopc', hds, hdig] at hvec
  injection hvec with hvec
  subst hvec
  simp only [Props.C05.specKeys, autn_take6 P k opc ch.rand ch.sqn ch.amf hE hk16 hopc16 hrand hsqn]
  exact ⟨rfl, rfl, rfl, rfl⟩

/-- the hypotheses about the configuration are satisfiable: K and OPc of the shipped src/config.yaml are read alike, as 16
    octets, by the code's `hex.DecodeString` model and by the reference AMF's reader; subscriber 2 of IMSI 001010000000001 -/
example :
    hexDecode (str ['4', '6', '5', 'B', '5', 'C', 'E', '8', 'B', '1', '9', '9', 'B', '4', '9', 'F', 'A', 'A', '5', 'F', '0', 'A', '2', 'E', 'E', '2', '3', '8', 'A', '6', 'B', 'C'])
      = Spec.Amf.hexText (str ['4', '6', '5', 'B', '5', 'C', 'E', '8', 'B', '1', '9', '9', 'B', '4', '9', 'F', 'A', 'A', '5', 'F', '0', 'A', '2', 'E', 'E', '2', '3', '8', 'A', '6', 'B', 'C']) ∧
    (hexDecode (str ['4', '6', '5', 'B', '5', 'C', 'E', '8', 'B', '1', '9', '9', 'B', '4', '9', 'F', 'A', 'A', '5', 'F', '0', 'A', '2', 'E', 'E', '2', '3', '8', 'A', '6', 'B', 'C'])).map List.length = some 16 ∧
    hexDecode (str ['E', '8', 'E', 'D', '2', '8', '9', 'D', 'E', 'B', 'A', '9', '5', '2', 'E', '4', '2', '8', '3', 'B', '5', '4', 'E', '8', '8', 'E', '6', '1', '8', '3', 'C', 'A'])
      = Spec.Amf.hexText (str ['E', '8', 'E', 'D', '2', '8', '9', 'D', 'E', 'B', 'A', '9', '5', '2', 'E', '4', '2', '8', '3', 'B', '5', '4', 'E', '8', '8', 'E', '6', '1', '8', '3', 'C', 'A']) ∧
    Spec.Amf.supiDigits { imsi := str ['0', '0', '1', '0', '1', '0', '0', '0', '0', '0', '0', '0', '0', '0', '1'], mcc := [], mnc := [], k := [], opc := [], op := [],
                          gnbId := [], bitLength := 0, name := [], abba := [], reg := 1, pdu := 0, svc := 0, rel := 0, dereg := 0 } 2
      = some [0, 0, 1, 0, 1, 0, 0, 0, 0, 0, 0, 0, 0, 0, 3] :=
  ⟨by decide, by decide, by decide, by decide⟩

theorem table_authenticationResponse :
    Spec.Ts24501.tableByName "AuthenticationResponse" = some Spec.Ts24501.authenticationResponse := by rfl

/-- **C01_authentication_response_accepted.** The reference AMF's step on the AUTHENTICATION RESPONSE: for every 16-octet
    RES* equal to the XRES* of the network's vector (which `C01_res_star` gives for what `DeriveRESstarAndSetKey` returns), the
    octets `GetAuthenticationResponse(resStar, "")` produces parse, with the standard's parser under table 8.2.2.1.1, as an
    AUTHENTICATION RESPONSE whose authentication response parameter is XRES*: the judge raises no clause and moves the UE from
    "authentication request sent" to "security mode command sent" (C09 + the judge's definition). -/
theorem C01_authentication_response_accepted (s : Spec.Amf.St) (k : Nat) (u : Spec.Amf.UeSt) (resStar : Bytes)
    (h16 : resStar.length = 16) (hreg : u.reg = .authSent) (hres : resStar = u.aka.resStar) :
    ∃ bs, Nas.Ctor.encodeWith Gen.Nas.layout_AuthenticationResponse (Nas.Ctor.authenticationResponse resStar []) = .ok bs ∧
      Spec.Amf.onPlainUplink s k u bs = s.setUe { u with reg := .smcSent } := by
  obtain ⟨w, bs, hw, henc, hparse⟩ := Props.C09.C09_ctor_authenticationResponse resStar [] (.inl h16)
  refine ⟨bs, henc, ?_⟩
  have hne : resStar ≠ [] := by intro h; simp [h] at h16
  have hw' : Spec.Ts24501.authenticationResponse.wire = some w := by
    unfold Props.C09.wireOf at hw
    have : Gen.Nas.layout_AuthenticationResponse.name = "AuthenticationResponse" := rfl
    rw [this, table_authenticationResponse] at hw
    exact hw
  unfold Spec.Amf.onPlainUplink Spec.Amf.parseNas
  rw [hw']
  rw [if_neg hne, if_neg (fun h => hne h.1)] at hparse
  simp only [Option.bind_some, hparse]
  simp [Spec.Ts24501.Intended.authenticationResponse, Spec.Ts24501.Intended.present, Spec.Amf.optIE, hreg, hres]

/-- … and a RES* that differs from XRES* is refused under the clause `res-star` -/
theorem C01_wrong_res_star_refused (s : Spec.Amf.St) (k : Nat) (u : Spec.Amf.UeSt) (resStar : Bytes)
    (h16 : resStar.length = 16) (hreg : u.reg = .authSent) (hres : resStar ≠ u.aka.resStar) :
    ∃ bs, Nas.Ctor.encodeWith Gen.Nas.layout_AuthenticationResponse (Nas.Ctor.authenticationResponse resStar []) = .ok bs ∧
      Spec.Amf.onPlainUplink s k u bs = (s.fail k "res-star").setUe { u with reg := .smcSent } := by
  obtain ⟨w, bs, hw, henc, hparse⟩ := Props.C09.C09_ctor_authenticationResponse resStar [] (.inl h16)
  refine ⟨bs, henc, ?_⟩
  have hne : resStar ≠ [] := by intro h; simp [h] at h16
  have hw' : Spec.Ts24501.authenticationResponse.wire = some w := by
    unfold Props.C09.wireOf at hw
    have : Gen.Nas.layout_AuthenticationResponse.name = "AuthenticationResponse" := rfl
    rw [this, table_authenticationResponse] at hw
    exact hw
  unfold Spec.Amf.onPlainUplink Spec.Amf.parseNas
  rw [hw']
  rw [if_neg hne, if_neg (fun h => hne h.1)] at hparse
  simp only [Option.bind_some, hparse]
  simp [Spec.Ts24501.Intended.authenticationResponse, Spec.Ts24501.Intended.present, Spec.Amf.optIE, hreg, hres]

/-! ### security header type, MAC, NAS COUNT -/

/-- **C01_registration_protected.** For every pair of plain messages, every key pair and primitives: when the UE context holds
    the keys and algorithms of the network's vector, what `EncodeNasPduWithSecurity(ue, smc, 4, true, true)` returns is
    accepted by the reference AMF's NAS-security clause as header type 4 under NAS COUNT 0 with plain message `smc`
    (Security Mode Complete starts the count at 0), and what `EncodeNasPduWithSecurity(ue, rc, 2, true, false)` returns next is
    accepted as header type 2 under NAS COUNT exactly one above (1) with plain message `rc` — the MAC is valid under the
    network-derived K_NASint over sequence number ‖ message, and the stored UL NAS COUNT afterwards is 2. -/
theorem C01_registration_protected (P : Prims) (hP : PrimsOk P) (sec : UeSec) (u : Spec.Amf.UeSt) (hin : InStep sec u)
    (smc rc : Bytes) :
    let r1 := Model.NasProtect.encodeNasPduWithSecurity P sec smc 4 true true
    let r2 := Model.NasProtect.encodeNasPduWithSecurity P r1.1 rc 2 true false
    ∃ o1 o2, r1.2 = .ok o1 ∧ r2.2 = .ok o2 ∧
      Spec.Amf.byteAt o1 1 = 4 ∧ Spec.Amf.byteAt o2 1 = 2 ∧
      Spec.Amf.receiveUl P u true [4] o1 = .ok (smc, 0) ∧
      Spec.Amf.receiveUl P (Spec.Amf.accepted u 4 0) true [2] o2 = .ok (rc, 1) ∧
      cval r2.1.ulCount = 2 ∧ InStep r2.1 (Spec.Amf.accepted (Spec.Amf.accepted u 4 0) 2 1) := by
  intro r1 r2
  obtain ⟨o1, ho1, a1, a6, ar, ain, ac⟩ := protected_step P hP sec u hin smc 4 true rfl
  simp only [if_true] at a6 ar ac
  have hin1 : InStep r1.1 (Spec.Amf.accepted u 4 0) := ⟨by rw [ain.1]; rfl, ain.2⟩
  obtain ⟨o2, ho2, b1, b6, br, bin, bc⟩ := protected_step P hP r1.1 (Spec.Amf.accepted u 4 0) hin1 rc 2 false rfl
  simp only [Bool.false_eq_true, if_false] at b6 br bc
  have hc1 : cval r1.1.ulCount = 1 := ac.trans (by decide)
  rw [hc1] at b6 br bc
  refine ⟨o1, o2, ho1, ho2, a1, b1, ?_, ?_, bc.trans (by decide), ⟨by rw [bin.1]; rfl, bin.2⟩⟩
  · exact receiveUl_of_receive P u true [4] o1 smc 0 (by rw [a1]; rfl) (by rw [a1]; rfl) (by rw [a1]; rfl) ar
  · exact receiveUl_of_receive P _ true [2] o2 rc 1 (by rw [b1]; rfl) (by rw [b1]; rfl) (by rw [b1]; rfl) br

/-- the hypotheses are satisfiable: the toy primitives, and the real SP 800-38A CTR / RFC 4493 CMAC over AES-128 -/
example : ∃ P, PrimsOk P := ⟨toyPrims, toyPrims_ok⟩
example : PrimsOk Crypto.prims := cryptoPrims_ok
example : InStep { ulCount := 7, dlCount := 9, cipheringAlg := 0, integrityAlg := 2, knasEnc := [1], knasInt := [2] }
    { j := 0, ran := 1, ch := { rand := [], sqn := [], amf := [], ngKsi := 0, amfUeNgapId := 5, ueIp := [], teid := 0, upfIp := [] },
      aka := { resStar := [], kausf := [], kseaf := [], kamf := [], knasEnc := [1], knasInt := [2] } } :=
  ⟨rfl, Or.inr rfl, Or.inl rfl⟩

/-! ### SUCI and PLMN identify the configured subscriber -/

open Stgutg.Proofs.UeIdentity in
/-- **C01_suci.** The mobile identity in the Registration Request of UE `i` (the index in the registration loop) is read by
    the independent TS 24.501 9.11.3.4 decoder as the null-scheme SUCI with the configured MCC and MNC and
    MSIN = configured MSIN + i: it identifies subscriber `i` of the configured range (C16 / C11). -/
theorem C01_suci (cfg : Cfg) (h : DecimalImsi cfg.imsi) {m n : Nat} (hm : m = 2 ∨ m = 3) (hmnc : cfg.mnc.length = m)
    (hlen : 3 + m < cfg.imsi.length) (hfit : MsinFits cfg.imsi (3 + m) n) {i : Nat} (hi : i < n) :
    ∃ buf, Model.Suci.encodeSuci (Model.Suci.trimImsiPrefix (createUE cfg i).ctx.supi) cfg.mnc.length = .ok buf ∧
      Spec.Identity.decodeSuci buf = some (Spec.Identity.nullSchemeSuci (digitsOf (cfg.imsi.take 3))
        (digitsOf ((cfg.imsi.drop 3).take m))
        (digitsOf (Model.UeIdentity.decW (cfg.imsi.length - (3 + m)) (Model.UeIdentity.decVal (cfg.imsi.drop (3 + m)) + i)))) := by
  rw [hmnc]
  exact Props.C16.C16_suci_of_ue h hm hlen hfit hi cfg.k cfg.opc cfg.op

open Stgutg.Proofs.Suci in
/-- **C01_plmn.** The PLMN identity `ManageNGSetup` announces in Global RAN Node ID / Supported TA List (and every later
    builder copies into user location information) is the 3-octet encoding of the configured MCC and MNC (2 or 3 digits),
    the PLMN of the SUCIs above (C11). -/
theorem C01_plmn {mcc mnc msin : List Nat} (h : ValidImsi mcc mnc msin) :
    ∃ p, Spec.Identity.plmn3 mcc mnc = some p ∧
      Model.Suci.ngSetupPlmn (asc (mcc ++ mnc ++ msin)) ((asc mnc).length : Int) = .ok p ∧
      Spec.Identity.plmn3Decode p = some (mcc, mnc) := by
  obtain ⟨p, hp, hn⟩ := Props.C11.C11_plmn_ngsetup h false
  refine ⟨p, hp, ?_, Props.C11.C11_plmn_decodes mcc mnc p hp⟩
  simpa [asc] using hn

/-- **C01_security_capability.** The UE security capability of every created UE announces 5G-EA0 and 128-5G-IA2 — the
    algorithms the reference AMF selects — and no other (C16). -/
theorem C01_security_capability (cfg : Cfg) (i : Int) :
    Spec.Identity.eaSupported (secCapVal (createUE cfg i)).data Spec.Amf.selectedEa = true ∧
    Spec.Identity.iaSupported (secCapVal (createUE cfg i)).data Spec.Amf.selectedIa = true := by
  have := Props.C16.C16_capability_of_created_ue cfg.imsi i cfg.k cfg.opc cfg.op
  exact ⟨(this 0).1.mpr rfl, (this 2).2.mpr rfl⟩

/-! ### the NGAP messages of the exchange -/

open Stgutg.Spec.NgapView Stgutg.Spec.Ts38413

/-- what C13 gives for a PDU a wrapper hands to the encoder: message class and procedure code of TS 38.413 9.4.3, and
    every mandatory IE of the message's table with its assigned criticality -/
def IsMessage (pdu : Aper.Val) (m : Spec.Ts38413.Msg) : Prop :=
  pduPresent pdu = some ((msgClass m).index + 1) ∧ pduProc pdu = some (procCode m : Int) ∧
  ∀ ms, mandatory m = some ms → ∃ hs : List (Int × Nat), headers pdu = some (hs.map some) ∧ ∀ x ∈ ms, ((x.1 : Int), x.2) ∈ hs

theorem isMessage_of_shaped (E : Model.Convert.Ext) (t : Template) (ht : t ∈ Proofs.Builders.allTable) (plmn : Bytes)
    (args : List Aper.Val) (pdu : Aper.Val) (h : Proofs.Builders.Shaped E t plmn args pdu) : IsMessage pdu t.message :=
  ⟨(Props.C13.C13_class E t ht plmn args pdu h).1, (Props.C13.C13_class E t ht plmn args pdu h).2,
   fun ms hm => Props.C13.C13_mandatory E t ht ms hm plmn args pdu h⟩

/-- **C01_ngap_initial_ue_message.** UL2: `GetInitialUEMessage(ran, nas, "")` is INITIAL UE MESSAGE with RAN-UE-NGAP-ID `ran`,
    NAS-PDU `nas`, user location information and RRC establishment cause. -/
theorem C01_ngap_initial_ue_message (E : Model.Convert.Ext) (plmn : Bytes) (ran : Int) (nas : Bytes) (pdu : Aper.Val)
    (hb : Wrapper.pdu E .GetInitialUEMessage plmn [.int ran, .octs nas, .str []] = .ok pdu) :
    IsMessage pdu .InitialUEMessage ∧
    (∃ v, ieValuesById pdu (ieRANUENGAPID : Int) = some [some v] ∧ Val.at [0] v = some (.int ran)) ∧
    (∃ v, ieValuesById pdu (ieNASPDU : Int) = some [some v] ∧ Val.at [0] v = some (.octs nas)) := by
  have ht : tInitialUEMessage ∈ Proofs.Builders.allTable := mem_allTable_hand (by simp [handTable])
  have hsh := Proofs.Builders.build_shaped E tInitialUEMessage plmn _ pdu (show build E tInitialUEMessage plmn [.int ran, .octs nas, .str []] = .ok pdu from hb)
  refine ⟨isMessage_of_shaped E _ ht plmn _ pdu hsh, ?_, ?_⟩
  · exact Props.C13.C13_carries_ran E _ ht 0 (by decide) plmn _ pdu hsh (.int ran) rfl
  · have := Props.C13.C13_carries_nas E _ ht 1 (by decide) plmn _ pdu hsh (.octs nas) rfl
    simpa [bytesOf, tInitialUEMessage] using this

/-- **C01_ngap_uplink_nas_transport.** UL3, UL4, UL6 (and every later NAS message): `GetUplinkNASTransport(amf, ran, nas)` is
    UPLINK NAS TRANSPORT carrying the AMF-UE-NGAP-ID it was given (the one the emulator took from the Authentication Request's
    DOWNLINK NAS TRANSPORT), the UE's RAN-UE-NGAP-ID and the NAS-PDU. -/
theorem C01_ngap_uplink_nas_transport (E : Model.Convert.Ext) (plmn : Bytes) (amf ran : Int) (nas : Bytes) (pdu : Aper.Val)
    (hb : Wrapper.pdu E .GetUplinkNASTransport plmn [.int amf, .int ran, .octs nas] = .ok pdu) :
    IsMessage pdu .UplinkNASTransport ∧
    (∃ v, ieValuesById pdu (ieAMFUENGAPID : Int) = some [some v] ∧ Val.at [0] v = some (.int amf)) ∧
    (∃ v, ieValuesById pdu (ieRANUENGAPID : Int) = some [some v] ∧ Val.at [0] v = some (.int ran)) ∧
    (∃ v, ieValuesById pdu (ieNASPDU : Int) = some [some v] ∧ Val.at [0] v = some (.octs nas)) := by
  have ht : tUplinkNasTransport ∈ Proofs.Builders.allTable := mem_allTable_hand (by simp [handTable])
  have hsh := Proofs.Builders.build_shaped E tUplinkNasTransport plmn _ pdu (show build E tUplinkNasTransport plmn [.int amf, .int ran, .octs nas] = .ok pdu from hb)
  refine ⟨isMessage_of_shaped E _ ht plmn _ pdu hsh, ?_, ?_, ?_⟩
  · have := Props.C13.C13_carries_amf E _ ht 0 (by decide) plmn _ pdu hsh (.int amf) rfl
    simpa [amfIe, tUplinkNasTransport] using this
  · exact Props.C13.C13_carries_ran E _ ht 1 (by decide) plmn _ pdu hsh (.int ran) rfl
  · have := Props.C13.C13_carries_nas E _ ht 2 (by decide) plmn _ pdu hsh (.octs nas) rfl
    simpa [bytesOf, tUplinkNasTransport] using this

/-- **C01_ngap_initial_context_setup_response.** UL5: `GetInitialContextSetupResponse(amf, ran)` is INITIAL CONTEXT SETUP
    RESPONSE with both identifiers. -/
theorem C01_ngap_initial_context_setup_response (E : Model.Convert.Ext) (plmn : Bytes) (amf ran : Int) (pdu : Aper.Val)
    (hb : Wrapper.pdu E .GetInitialContextSetupResponse plmn [.int amf, .int ran] = .ok pdu) :
    IsMessage pdu .InitialContextSetupResponse ∧
    (∃ v, ieValuesById pdu (ieAMFUENGAPID : Int) = some [some v] ∧ Val.at [0] v = some (.int amf)) ∧
    (∃ v, ieValuesById pdu (ieRANUENGAPID : Int) = some [some v] ∧ Val.at [0] v = some (.int ran)) := by
  have ht : tInitialContextSetupResponseForRegistraionTest ∈ Proofs.Builders.allTable := mem_allTable_hand (by simp [handTable])
  have hsh := Proofs.Builders.build_shaped E tInitialContextSetupResponseForRegistraionTest plmn _ pdu
    (show build E tInitialContextSetupResponseForRegistraionTest plmn [.int amf, .int ran] = .ok pdu from hb)
  refine ⟨isMessage_of_shaped E _ ht plmn _ pdu hsh, ?_, ?_⟩
  · have := Props.C13.C13_carries_amf E _ ht 0 (by decide) plmn _ pdu hsh (.int amf) rfl
    simpa [amfIe, tInitialContextSetupResponseForRegistraionTest] using this
  · exact Props.C13.C13_carries_ran E _ ht 1 (by decide) plmn _ pdu hsh (.int ran) rfl

/-! ### the end-to-end statement (not proved) -/

/-- **C01_amf_sees_built_pdu.** "The AMF's decoder inverts the encoder on this PDU", from the composite APER round trip
    (C04) and the canonical-encoding theorem (C03): whenever the PDU a wrapper hands to `ngap.Encoder` is within its
    constraints (`ConfPdu`: the identifiers in range — AMF-UE-NGAP-ID < 2^40, RAN-UE-NGAP-ID < 2^32, PDU session ID ≤ 255 —,
    the NAS-PDU and every open-type content shorter than 16384 octets) and regular, the reference AMF decodes the octets on
    the wire to exactly that PDU. Every C13 fact above (`C01_ngap_*`) is then a fact about what the AMF sees. The two
    hypotheses are decidable predicates on the value; that the builder templates satisfy them for ALL in-range arguments is
    not proved here (it is evaluated on every PDU of the witness and of every real transcript by the judge itself). -/
theorem C01_amf_sees_built_pdu (v : Aper.Val) (b : Bytes)
    (hc : Props.C04.ConfPdu Spec.Amf.ngapFuel v)
    (hr : Proofs.AperSpec.regular Gen.Ngap.schema Spec.Amf.ngapFuel (.struct Gen.Ngap.pduId) false v = true)
    (h : Builders.encodePdu v = .ok b) : Spec.Amf.decodeNgap b = some v :=
  amf_sees_built_pdu v b hc hr h

set_option maxRecDepth 1000000 in
/-- the hypotheses are satisfiable: C04's NG SETUP REQUEST (four IEs in open types) -/
example : Props.C04.ConfPdu Spec.Amf.ngapFuel Props.C04.ngSetupRequest ∧
    Proofs.AperSpec.regular Gen.Ngap.schema Spec.Amf.ngapFuel (.struct Gen.Ngap.pduId) false Props.C04.ngSetupRequest = true :=
  ⟨Props.C04.ngSetupRequest_conf, by decide +kernel⟩

/-- what C01 asks of the model as a whole: for every well-formed configuration and every choice of a conformant AMF
    (`dl` = the downlink messages it sends), the reference AMF judges the model's transcript `accept`. -/
def C01_accepted_statement (P : Prims) (E : Model.Convert.Ext) (dl : Spec.Amf.Cfg → List Spec.Amf.Choice → List Bytes)
    (toSpec : Cfg → Spec.Amf.Cfg) (WF : Cfg → List Spec.Amf.Choice → Prop) : Prop :=
  ∀ cfg chs, WF cfg chs →
    let t := emulate P E cfg (dl (toSpec cfg) chs)
    Spec.Amf.judge P false (toSpec cfg) chs t.uls none (t.outcome == .completed) = .accept

open Stgutg.Proofs.EmulatorWitness in
/-- **C01_accepted_witness.** The end-to-end statement on a concrete conversation, evaluated by the Lean kernel with the
    executable AES-128 / SHA-256 / HMAC / CMAC (no `native_decide`): configuration IMSI 59903000000006 (MNC 03, 2 digits),
    gNB id of 22 bits, OPc and OP configured; the AMF chose RAND, SQN, AMF field, ngKSI 2, AMF-UE-NGAP-ID 107421176 and
    sent the recorded NG SETUP RESPONSE, Authentication Request, Security Mode Command, INITIAL CONTEXT SETUP REQUEST and
    Configuration Update Command. The model runs NG Setup and the registration on them and the reference AMF accepts every
    one of its six uplink messages: NGAP message / mandatory IEs / ids, SUCI and PLMN, RES* = XRES*, header types 4 and 2,
    MAC, NAS COUNT 0 and 1, completion. -/
theorem C01_accepted_witness :
    acceptedRun Crypto.prims Model.NetExt.goExt reg1Cfg reg1Abba reg1Choices reg1Dls false = true := reg1_accepted_run

end Stgutg.Props.C01
