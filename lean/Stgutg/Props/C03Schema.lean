/-
  C03 — the abstract syntax the encoder works from is TS 38.413's.
  The regenerated schema (struct tags and field order of ngapType/*.go, `gen schema`) has, type by type and component by
  component, the shape of the frozen TS 38.413 table `Spec.Ts38413Schema` (kinds, order, OPTIONAL, extension markers,
  size/value bounds, open-type wiring; names ignored). See Spec/Ts38413Schema.lean for the table's provenance.
-/
import Stgutg.Gen.NgapSchema
import Stgutg.Spec.Ts38413Schema

namespace Stgutg.Props.C03
open Stgutg Stgutg.Aper

set_option maxRecDepth 1000000 in
/-- table fact, re-decided on every run against the schema regenerated from the working tree -/
theorem schema_is_ts38413 :
    Gen.Ngap.schema.map Spec.Ts38413Schema.shapeOf = Spec.Ts38413Schema.schema.map Spec.Ts38413Schema.shapeOf ∧
    Gen.Ngap.pduId = Spec.Ts38413Schema.pduId ∧
    Gen.Ngap.encoderParams = { valueExt := true, valueLB := some 0, valueUB := some 2 } := by
  decide +kernel

/-- non-vacuity: the table is not empty and NGAP-PDU is the three-alternative CHOICE -/
example : Spec.Ts38413Schema.schema.length = 1300 ∨ Spec.Ts38413Schema.schema.length > 1000 := by decide +kernel

end Stgutg.Props.C03
