/-
  C02 — the judge on whole procedures after registration (blocks of uplink messages) and on a UE's history.
  Third module of C02; builds on the per-message steps of Props/C02Steps.lean.
-/
import Stgutg.Props.C02Steps

namespace Stgutg.Props.C02
open Stgutg Stgutg.Model.Emulator Stgutg.Proofs.Emulator Stgutg.Builders
open Stgutg.Model.NasProtect Stgutg.Proofs.NasProtect Stgutg.Spec.NasSecurity
open Stgutg.Spec.NgapView Stgutg.Spec.Ts38413 Stgutg.Proofs.BuildersJudge Stgutg.Proofs.BuildersLife

theorem accepted_two (u : Spec.Amf.UeSt) (c : Nat) :
    Spec.Amf.accepted u 2 c = { u with last := some c, used := c :: u.used } := rfl

theorem find_ran (s : Spec.Amf.St) (ran : Int) (u : Spec.Amf.UeSt) (hu : s.ues.find? (·.ran == ran) = some u) : u.ran = ran := by
  have := List.find?_some hu
  simpa using this

/-- another UE's record is untouched by an update of this one -/
theorem setUe_find_other (s : Spec.Amf.St) (ran' : Int) (v u' : Spec.Amf.UeSt) (hv : s.ues.find? (·.ran == ran') = some v)
    (hr : u'.ran ≠ ran') (hj : v.j ≠ u'.j) : (s.setUe u').ues.find? (·.ran == ran') = some v := by
  simp only [Spec.Amf.St.setUe]
  generalize s.ues = l at hv
  induction l with
  | nil => simp at hv
  | cons x xs ih =>
    simp only [List.find?_cons] at hv
    simp only [List.map_cons, List.find?_cons]
    by_cases hx : (x.ran == ran') = true
    · have hxv : x = v := by simpa [hx] using hv
      subst hxv
      have : (x.j == u'.j) = false := by simpa using hj
      simp only [this, Bool.false_eq_true, if_false, hx]
    · simp only [hx] at hv
      by_cases hxj : (x.j == u'.j) = true
      · have : (u'.ran == ran') = false := by simpa using hr
        simp only [hxj, if_true, this]
        exact ih hv
      · simp only [hxj, Bool.false_eq_true, if_false, hx]
        exact ih hv

theorem two_steps (P : Prims) (life : Bool) (cfg : Spec.Amf.Cfg) (chs : List Spec.Amf.Choice) (s s1 s2 : Spec.Amf.St) (k : Nat)
    (b1 b2 : Bytes) (h0 : s.fails = []) (h1 : Spec.Amf.step P cfg chs s k b1 = s1) (h1f : s1.fails = [])
    (h2 : Spec.Amf.step P cfg chs s1 (k + 1) b2 = s2) (h2f : s2.fails = []) (rest : List Bytes) :
    Spec.Amf.run P life cfg chs s k (b1 :: b2 :: rest) = Spec.Amf.run P life cfg chs s2 (k + 2) rest := by
  rw [C01.run_clean_step P life cfg chs s k b1 _ h0 (by rw [h1]; exact h1f), h1,
    C01.run_clean_step P life cfg chs s1 (k + 1) b2 _ h1f (by rw [h2]; exact h2f), h2]

section
variable (P : Prims) (hP : PrimsOk P) (life : Bool) (cfg : Spec.Amf.Cfg) (chs : List Spec.Amf.Choice)
    (s : Spec.Amf.St) (k : Nat) (E : Model.Convert.Ext) (plmn : Bytes) (hplmn : plmn.length = 3) (ran : Int)
    (hr0 : 0 ≤ ran) (hr1 : ran < 2 ^ 32) (hclean : s.fails = [])
    (u : Spec.Amf.UeSt) (hu : s.ues.find? (·.ran == ran) = some u) (ha1 : u.ch.amfUeNgapId < 2 ^ 40)
    (sec : UeSec) (c : Nat) (hl : Live sec u c) (hreg : u.reg = .registered)
include hP hplmn hr0 hr1 hclean hu ha1 hl hreg

/-- **C02_establish_block.** The two uplink messages of `EstablishPDU` for a live, REGISTERED UE (no session, or one
    established / released before), judged from any clean state that knows the UE: no clause; afterwards the session is
    ESTABLISHED, the subscriber recorded, the COUNT advanced by one, and the invariant `Live` holds again. -/
theorem C02_establish_block (hc : c + 2 < 2 ^ 24) (psi rt : Nat) (dnn : Bytes) (sn : Option (Nat × UInt8 × UInt8 × UInt8))
    (h1 : 1 ≤ psi) (h15 : psi ≤ 15) (hrt : rt < 8) (hd : dnn.length ≤ 99 ∧ ∀ c ∈ dnn, c ≠ 0x2E)
    (hs : ∀ x, sn = some x → x.1 < 256) (hsess : u.sess = .none ∨ u.sess = .established ∨ u.sess = .released)
    (ip : Bytes) (hip : cls E .ip (.str ip) = 2) :
    ∃ plain o b1 b2, Nas.Ctor.encodeWith Gen.Nas.layout_ULNASTransport (Nas.Ctor.ulEstablishment (UInt8.ofNat psi) (UInt8.ofNat rt)
          dnn (sn.map fun x => ⟨UInt8.ofNat x.1, [x.2.1, x.2.2.1, x.2.2.2]⟩)) = .ok plain ∧
      (Model.NasProtect.encodeNasPduWithSecurity P sec plain 2 true false).2 = .ok o ∧
      Wrapper.run E .GetUplinkNASTransport plmn [.int u.ch.amfUeNgapId, .int ran, .octs o] = .ok (.ok b1) ∧
      Wrapper.run E .GetPDUSessionResourceSetupResponse plmn [.int u.ch.amfUeNgapId, .int ran, .int psi, .str ip] = .ok (.ok b2) ∧
      Live (Model.NasProtect.encodeNasPduWithSecurity P sec plain 2 true false).1
        { u with last := some (c + 1), used := (c + 1) :: u.used, sess := .established, psi := psi } (c + 1) ∧
      ∀ rest, Spec.Amf.run P life cfg chs s k (b1 :: b2 :: rest) =
        Spec.Amf.run P life cfg chs
          { s.setUe { u with last := some (c + 1), used := (c + 1) :: u.used, sess := .established, psi := psi } with
            established := s.established ++ [u.j] } (k + 2) rest := by
  have hur := find_ran s ran u hu
  obtain ⟨plain, o, b1, henc, ho, hrun1, hl1, hstep1⟩ := C02_step_establishment_request P cfg chs s k E plmn hplmn ran hr0 hr1 u hu ha1
    hP sec c hl hc hreg psi rt dnn sn h1 h15 hrt hd hs hsess
  rw [accepted_two] at hl1 hstep1
  have hu1 := setUe_find s ran u { u with last := some (c + 1), used := (c + 1) :: u.used, sess := .requested, psi := psi } hu rfl hur
  obtain ⟨b2, hrun2, hstep2⟩ := C02_step_setup_response P cfg chs _ (k + 1) E plmn hplmn ran hr0 hr1 _ hu1 ha1 ip hip
    (by show psi ≤ 255; omega) rfl
  refine ⟨plain, o, b1, b2, henc, ho, hrun1, hrun2, hl1.congr rfl rfl rfl, fun rest => ?_⟩
  rw [two_steps P life cfg chs s _ _ k b1 b2 hclean hstep1 hclean hstep2 hclean rest]
  have hues := congrArg Spec.Amf.St.ues (setUe_setUe s
    { u with last := some (c + 1), used := (c + 1) :: u.used, sess := .requested, psi := psi }
    { u with last := some (c + 1), used := (c + 1) :: u.used, sess := .established, psi := psi } rfl)
  simp only [Spec.Amf.St.setUe] at hues ⊢
  rw [hues]


/-- **C02_service_block.** The two uplink messages of `ServiceRequest` for a live, REGISTERED UE with an established session:
    no clause; the service request is counted and the COUNT advanced by one. -/
theorem C02_service_block (hc : c + 2 < 2 ^ 24) (hsetup : s.ngSetup = true) (hsess : u.sess = .established)
    (hp : u.psi ≤ 255) (ip : Bytes) (hip : cls E .ip (.str ip) = 2) :
    ∃ plain o b1 b2, Nas.Ctor.encodeWith Gen.Nas.layout_ServiceRequest (Nas.Ctor.serviceRequest 1) = .ok plain ∧
      (Model.NasProtect.encodeNasPduWithSecurity P sec plain 2 true false).2 = .ok o ∧
      Wrapper.run E .GetInitialUEMessage plmn [.int ran, .octs o, .str []] = .ok (.ok b1) ∧
      Wrapper.run E .GetInitialContextSetupResponseForServiceRequest plmn
        [.int u.ch.amfUeNgapId, .int ran, .int u.psi, .str ip] = .ok (.ok b2) ∧
      Live (Model.NasProtect.encodeNasPduWithSecurity P sec plain 2 true false).1
        { u with last := some (c + 1), used := (c + 1) :: u.used, svcPending := false } (c + 1) ∧
      ∀ rest, Spec.Amf.run P life cfg chs s k (b1 :: b2 :: rest) =
        Spec.Amf.run P life cfg chs
          { s.setUe { u with last := some (c + 1), used := (c + 1) :: u.used, svcPending := false } with
            services := s.services + 1 } (k + 2) rest := by
  have hur := find_ran s ran u hu
  obtain ⟨plain, o, b1, henc, ho, hrun1, hl1, hstep1⟩ := C02_step_service_request P cfg chs s k E plmn hplmn ran hr0 hr1 u hu
    hP sec c hl hc hreg hsess hsetup
  rw [accepted_two] at hl1 hstep1
  have hu1 := setUe_find s ran u { u with last := some (c + 1), used := (c + 1) :: u.used, svcPending := true } hu rfl hur
  obtain ⟨b2, hrun2, hstep2⟩ := C02_step_ics_response_service P cfg chs _ (k + 1) E plmn hplmn ran hr0 hr1 _ hu1 ha1 ip hip hp rfl
  refine ⟨plain, o, b1, b2, henc, ho, hrun1, hrun2, hl1.congr rfl rfl rfl, fun rest => ?_⟩
  rw [two_steps P life cfg chs s _ _ k b1 b2 hclean hstep1 hclean hstep2 hclean rest]
  have hues := congrArg Spec.Amf.St.ues (setUe_setUe s
    { u with last := some (c + 1), used := (c + 1) :: u.used, svcPending := true }
    { u with last := some (c + 1), used := (c + 1) :: u.used, svcPending := false } rfl)
  simp only [Spec.Amf.St.setUe] at hues ⊢
  rw [hues]

/-- **C02_deregister_block.** The two uplink messages of `DeregisterUE` for a live, REGISTERED UE: no clause; the UE is
    DEREGISTERED and the de-registration counted. -/
theorem C02_deregister_block (hc : c + 2 < 2 ^ 24) (mi : Nas.Val) (hlen : mi.len = mi.data.length) (hlt : mi.data.length < 65536)
    (hsuci : Spec.Amf.suciIs cfg u.j mi.data = true) :
    ∃ plain o b1 b2, Nas.Ctor.encodeWith Gen.Nas.layout_DeregistrationRequestUEOriginatingDeregistration
          (Nas.Ctor.deregistrationRequest 1 0 4 mi) = .ok plain ∧
      (Model.NasProtect.encodeNasPduWithSecurity P sec plain 2 true false).2 = .ok o ∧
      Wrapper.run E .GetUplinkNASTransport plmn [.int u.ch.amfUeNgapId, .int ran, .octs o] = .ok (.ok b1) ∧
      Wrapper.run E .GetUEContextReleaseComplete plmn [.int u.ch.amfUeNgapId, .int ran, .nil] = .ok (.ok b2) ∧
      ∀ rest, Spec.Amf.run P life cfg chs s k (b1 :: b2 :: rest) =
        Spec.Amf.run P life cfg chs
          { s.setUe { u with last := some (c + 1), used := (c + 1) :: u.used, reg := .deregistered } with
            deregs := s.deregs + 1 } (k + 2) rest := by
  have hur := find_ran s ran u hu
  obtain ⟨plain, o, b1, henc, ho, hrun1, hl1, hstep1⟩ := C02_step_deregistration_request P cfg chs s k E plmn hplmn ran hr0 hr1 u hu ha1
    hP sec c hl hc hreg mi hlen hlt hsuci
  rw [accepted_two] at hl1 hstep1
  have hu1 := setUe_find s ran u { u with last := some (c + 1), used := (c + 1) :: u.used, reg := .deregistering } hu rfl hur
  obtain ⟨b2, hrun2, hstep2⟩ := C02_step_ue_context_release_complete P cfg chs _ (k + 1) E plmn hplmn ran hr0 hr1 _ hu1 ha1 rfl
  refine ⟨plain, o, b1, b2, henc, ho, hrun1, hrun2, fun rest => ?_⟩
  rw [two_steps P life cfg chs s _ _ k b1 b2 hclean hstep1 hclean hstep2 hclean rest]
  have hues := congrArg Spec.Amf.St.ues (setUe_setUe s
    { u with last := some (c + 1), used := (c + 1) :: u.used, reg := .deregistering }
    { u with last := some (c + 1), used := (c + 1) :: u.used, reg := .deregistered } rfl)
  simp only [Spec.Amf.St.setUe] at hues ⊢
  rw [hues]

/-- **C02_release_block.** The three uplink messages of `ReleasePDU` (release request, NGAP release response, release
    complete) for a live, REGISTERED UE with an established session: no clause; the session is RELEASED, the release counted
    once, the COUNT advanced by two. -/
theorem C02_release_block (hc : c + 3 < 2 ^ 24) (rt : Nat) (dnn : Bytes) (sn : Option (Nat × UInt8 × UInt8 × UInt8))
    (h1 : 1 ≤ u.psi) (h15 : u.psi ≤ 15) (hrt : rt < 8) (hd : dnn.length ≤ 99 ∧ ∀ c ∈ dnn, c ≠ 0x2E)
    (hs : ∀ x, sn = some x → x.1 < 256) (hsess : u.sess = .established) :
    ∃ p1 o1 b1 b2 p3 o3 b3,
      Nas.Ctor.encodeWith Gen.Nas.layout_ULNASTransport (Nas.Ctor.ulReleaseRequest (UInt8.ofNat u.psi)) = .ok p1 ∧
      (Model.NasProtect.encodeNasPduWithSecurity P sec p1 2 true false).2 = .ok o1 ∧
      Wrapper.run E .GetUplinkNASTransport plmn [.int u.ch.amfUeNgapId, .int ran, .octs o1] = .ok (.ok b1) ∧
      Wrapper.run E .GetPDUSessionResourceReleaseResponse plmn [.int u.ch.amfUeNgapId, .int ran, .int u.psi] = .ok (.ok b2) ∧
      Nas.Ctor.encodeWith Gen.Nas.layout_ULNASTransport (Nas.Ctor.ulReleaseComplete (UInt8.ofNat u.psi) (UInt8.ofNat rt)
          dnn (sn.map fun x => ⟨UInt8.ofNat x.1, [x.2.1, x.2.2.1, x.2.2.2]⟩)) = .ok p3 ∧
      (Model.NasProtect.encodeNasPduWithSecurity P (Model.NasProtect.encodeNasPduWithSecurity P sec p1 2 true false).1
        p3 2 true false).2 = .ok o3 ∧
      Wrapper.run E .GetUplinkNASTransport plmn [.int u.ch.amfUeNgapId, .int ran, .octs o3] = .ok (.ok b3) ∧
      Live (Model.NasProtect.encodeNasPduWithSecurity P (Model.NasProtect.encodeNasPduWithSecurity P sec p1 2 true false).1
          p3 2 true false).1
        { u with last := some (c + 2), used := (c + 2) :: (c + 1) :: u.used, sess := .released } (c + 2) ∧
      ∀ rest, Spec.Amf.run P life cfg chs s k (b1 :: b2 :: b3 :: rest) =
        Spec.Amf.run P life cfg chs
          { s.setUe { u with last := some (c + 2), used := (c + 2) :: (c + 1) :: u.used, sess := .released } with
            releases := s.releases + 1 } (k + 3) rest := by
  have hur := find_ran s ran u hu
  obtain ⟨p1, o1, b1, henc1, ho1, hrun1, hl1, hstep1⟩ := C02_step_release_request P cfg chs s k E plmn hplmn ran hr0 hr1 u hu ha1
    hP sec c hl (by omega) hreg u.psi h1 h15 hsess rfl
  rw [accepted_two] at hl1 hstep1
  have hu1 := setUe_find s ran u { u with last := some (c + 1), used := (c + 1) :: u.used, sess := .releasing false false } hu rfl hur
  obtain ⟨b2, hrun2, hstep2⟩ := C02_step_release_response P cfg chs _ (k + 1) E plmn hplmn ran hr0 hr1 _ hu1 ha1
    (by show u.psi ≤ 255; omega) false false rfl
  simp only [Bool.false_eq_true, if_false] at hstep2
  have hues2 := congrArg Spec.Amf.St.ues (setUe_setUe s
    { u with last := some (c + 1), used := (c + 1) :: u.used, sess := .releasing false false }
    { u with last := some (c + 1), used := (c + 1) :: u.used, sess := .releasing true false } rfl)
  have hs2 : Spec.Amf.step P cfg chs
      (s.setUe { u with last := some (c + 1), used := (c + 1) :: u.used, sess := .releasing false false }) (k + 1) b2 =
      s.setUe { u with last := some (c + 1), used := (c + 1) :: u.used, sess := .releasing true false } := by
    rw [hstep2]
    simp only [Spec.Amf.St.setUe] at hues2 ⊢
    rw [hues2]
  have hu2 := setUe_find s ran u { u with last := some (c + 1), used := (c + 1) :: u.used, sess := .releasing true false } hu rfl hur
  obtain ⟨p3, o3, b3, henc3, ho3, hrun3, hl3, hstep3⟩ := C02_step_release_complete P cfg chs _ (k + 2) E plmn hplmn ran hr0 hr1 _ hu2 ha1
    hP _ (c + 1) (hl1.congr rfl rfl rfl) (by omega) hreg u.psi rt dnn sn h1 h15 hrt hd hs true false rfl rfl
  rw [accepted_two] at hl3 hstep3
  simp only [if_true] at hl3 hstep3
  refine ⟨p1, o1, b1, b2, p3, o3, b3, henc1, ho1, hrun1, hrun2, henc3, ho3, hrun3, hl3.congr rfl rfl rfl, fun rest => ?_⟩
  rw [C01.run_clean_step P life cfg chs s k b1 _ hclean (by rw [hstep1]; exact hclean), hstep1]
  have h23 := two_steps P life cfg chs
    (s.setUe { u with last := some (c + 1), used := (c + 1) :: u.used, sess := .releasing false false })
    (s.setUe { u with last := some (c + 1), used := (c + 1) :: u.used, sess := .releasing true false }) _ (k + 1) b2 b3
    (show (s.setUe _).fails = [] from hclean) hs2 (show (s.setUe _).fails = [] from hclean) hstep3
    (show s.fails = [] from hclean) rest
  rw [h23]
  have hues := congrArg Spec.Amf.St.ues (setUe_setUe s
    { u with last := some (c + 1), used := (c + 1) :: u.used, sess := .releasing true false }
    { u with last := some (c + 2), used := (c + 2) :: (c + 1) :: u.used, sess := .released } rfl)
  simp only [Spec.Amf.St.setUe] at hues ⊢
  rw [hues]

end

end Stgutg.Props.C02
