/-
  C16 — emulated UEs have distinct identities derived from the configured IMSI.
  Property theorems only; helper lemmas live in Stgutg/Proofs/UeIdentity.lean.

  Model: Model/UeIdentity.lean (CreateUE with strconv.Atoi / fmt.Sprintf("%0*d") modelled, NewRanUeContext,
  GetAuthSubscription, GetUESecurityCapability). Go strings are byte lists; UE indices are the loop counters 0..n-1 of
  stg-utg.go.  Capability bits: Spec/Ts24501Identity.lean (TS 24.501 9.11.3.54).
  Vocabulary (defined in Proofs/UeIdentity.lean): `DecimalImsi imsi` = non-empty decimal string of at most 18 digits;
  `Fits imsi n` = decVal imsi + n ≤ 10^|imsi|; `MsinFits imsi p n` = p ≤ |imsi| and decVal (imsi.drop p) + n ≤ 10^(|imsi| - p),
  i.e. the digits after the first p = 3 + |MNC| can accommodate n UEs.
-/
import Stgutg.Proofs.UeIdentity

namespace Stgutg.Props.C16
open Stgutg Stgutg.Model.UeIdentity Stgutg.Proofs.UeIdentity

/-- the hypotheses are satisfiable: the shipped IMSI "001010000000001" (MNC 01, p = 5) with the full population of
    10 000 UEs, and an MSIN that the last of 10 000 UEs exhausts exactly (…9999990000 + 9999) -/
example : DecimalImsi [48, 48, 49, 48, 49, 48, 48, 48, 48, 48, 48, 48, 48, 48, 49] ∧
    MsinFits [48, 48, 49, 48, 49, 48, 48, 48, 48, 48, 48, 48, 48, 48, 49] 5 10000 ∧
    Fits [48, 48, 49, 48, 49, 48, 48, 48, 48, 48, 48, 48, 48, 48, 49] 10000 := by
  refine ⟨⟨by decide, by decide, by decide⟩, ⟨by decide, by decide⟩, by unfold Fits; decide⟩
example : MsinFits [57, 57, 57, 57, 57, 57, 57, 57, 57, 57, 57, 48, 48, 48, 48] 5 10000 := ⟨by decide, by decide⟩

/-- **C16, distinct SUPIs.** UEs created from one configured IMSI with different indices have different SUPIs, for
    every population the digits can accommodate (whatever credentials they are given). -/
theorem C16_supi_distinct {imsi : Bytes} (h : DecimalImsi imsi) {n : Nat} (hfit : Fits imsi n)
    {i j : Nat} (hi : i < n) (hj : j < n) (hij : i ≠ j) (k opc op k' opc' op' : Bytes) :
    (createUE imsi (i : Int) k opc op).supi ≠ (createUE imsi (j : Int) k' opc' op').supi := by
  unfold Fits at hfit
  rw [createUE_supi h i (by omega), createUE_supi h j (by omega)]
  intro e
  have e' := congrArg decVal (List.append_cancel_left e)
  rw [decVal_decW, decVal_decW, Nat.mod_eq_of_lt (by omega), Nat.mod_eq_of_lt (by omega)] at e'
  omega

/-- **C16, SUPIs stay inside the configured PLMN.** While the MSIN digits accommodate the population, every SUPI is
    `"imsi-"` followed by as many decimal digits as the configured IMSI, starts with the configured MCC/MNC digits
    (leading zeros kept), and its MSIN is the configured MSIN plus the index. -/
theorem C16_supi_in_plmn {imsi : Bytes} (h : DecimalImsi imsi) {p n : Nat} (hfit : MsinFits imsi p n)
    {i : Nat} (hi : i < n) (k opc op : Bytes) :
    (createUE imsi (i : Int) k opc op).supi.length = 5 + imsi.length ∧
    (createUE imsi (i : Int) k opc op).supi.take (5 + p) = imsiPrefix ++ imsi.take p ∧
    (∀ c ∈ (createUE imsi (i : Int) k opc op).supi.drop 5, isDigitByte c = true) ∧
    decVal ((createUE imsi (i : Int) k opc op).supi.drop (5 + p)) = decVal (imsi.drop p) + i := by
  have hF := msinFits_fits h hfit
  obtain ⟨hp, hf⟩ := hfit
  unfold Fits at hF
  rw [createUE_supi h i (by omega)]
  have hsplit : imsi = imsi.take p ++ imsi.drop p := (List.take_append_drop p imsi).symm
  have hlt : (imsi.take p).length = p := by rw [List.length_take]; omega
  have hld : (imsi.drop p).length = imsi.length - p := List.length_drop
  have hval : decVal imsi + i = decVal (imsi.take p) * 10 ^ (imsi.length - p) + (decVal (imsi.drop p) + i) := by
    conv => lhs; rw [hsplit, decVal_append, hld]
    omega
  have hw : imsi.length = p + (imsi.length - p) := by omega
  have hdig : decW imsi.length (decVal imsi + i) = imsi.take p ++ decW (imsi.length - p) (decVal (imsi.drop p) + i) := by
    conv => lhs; rw [hw, hval]
    rw [decW_split p _ _ _ (by omega)]
    have := decW_decVal (imsi.take p) (fun c hc => h.digits c (List.mem_of_mem_take hc))
    rw [hlt] at this
    rw [this]
  have hpl : imsiPrefix.length = 5 := rfl
  refine ⟨?_, ?_, ?_, ?_⟩
  · rw [List.length_append, decW_length, hpl]
  · rw [hdig, ← List.append_assoc, List.take_left' (by rw [List.length_append, hlt, hpl])]
  · rw [List.drop_left' hpl]
    exact decW_digits _ _
  · rw [hdig, ← List.append_assoc, List.drop_left' (by rw [List.length_append, hlt, hpl]), decVal_decW,
      Nat.mod_eq_of_lt (by omega)]

/-- **C16, what the network sees.** The mobile identity `RegisterUE` / `DeregisterUE` build for UE `i`
    (`EncodeSuci(TrimPrefix(ue.Supi, "imsi-"), len(mnc))`) is read by the independent TS 24.501 decoder as the null-scheme
    SUCI with the configured MCC and MNC and MSIN = configured MSIN + i (so distinct UEs present distinct SUCIs). -/
theorem C16_suci_of_ue {imsi : Bytes} (h : DecimalImsi imsi) {m n : Nat} (hm : m = 2 ∨ m = 3)
    (hlen : 3 + m < imsi.length) (hfit : MsinFits imsi (3 + m) n) {i : Nat} (hi : i < n) (k opc op : Bytes) :
    ∃ buf, Model.Suci.encodeSuci (Model.Suci.trimImsiPrefix (createUE imsi (i : Int) k opc op).supi) (m : Int) = .ok buf ∧
      Spec.Identity.decodeSuci buf = some (Spec.Identity.nullSchemeSuci (digitsOf (imsi.take 3))
        (digitsOf ((imsi.drop 3).take m)) (digitsOf (decW (imsi.length - (3 + m)) (decVal (imsi.drop (3 + m)) + i)))) :=
  suci_of_created_ue h hm hlen hfit hi k opc op

/-- **C16, distinct RAN-UE-NGAP-IDs.** The ids `(imsi + i) mod 10^4` of a population of at most 10 000 UEs are
    pairwise distinct (and lie in 0..9999). -/
theorem C16_ran_id_distinct {imsi : Bytes} (h : DecimalImsi imsi) {n : Nat} (hn : n ≤ 10000)
    {i j : Nat} (hi : i < n) (hj : j < n) (hij : i ≠ j) (k opc op k' opc' op' : Bytes) :
    (createUE imsi (i : Int) k opc op).ranUeNgapId ≠ (createUE imsi (j : Int) k' opc' op').ranUeNgapId ∧
    0 ≤ (createUE imsi (i : Int) k opc op).ranUeNgapId ∧ (createUE imsi (i : Int) k opc op).ranUeNgapId < 10000 := by
  have h62 : (10000 : Nat) < 2 ^ 62 := by decide
  rw [createUE_ranId h i (by omega), createUE_ranId h j (by omega)]
  omega

/-- **C16, credentials.** Every UE carries the configured K, OPc and OP (and the AMF field "8000"), whatever the
    IMSI string and index. -/
theorem C16_credentials (imsi : Bytes) (idx : Int) (k opc op : Bytes) :
    (createUE imsi idx k opc op).k = k ∧ (createUE imsi idx k opc op).opc = opc ∧
    (createUE imsi idx k opc op).op = op ∧ (createUE imsi idx k opc op).amf = [56, 48, 48, 48] :=
  ⟨rfl, rfl, rfl, rfl⟩

/-- **C16, capability = algorithms (any supported pair).** The UE security capability advertises exactly the 5G-EA
    bit of the ciphering algorithm and exactly the 5G-IA bit of the integrity algorithm (TS 24.501 9.11.3.54). -/
theorem C16_capability (c i : UInt8) (hc : c ≤ 3) (hi : i ≤ 3) (k : Nat) :
    (Spec.Identity.eaSupported (getUESecurityCapability c i).buffer k = true ↔ k = c.toNat) ∧
    (Spec.Identity.iaSupported (getUESecurityCapability c i).buffer k = true ↔ k = i.toNat) := by
  have hc' : c.toNat < 4 := by rw [UInt8.le_iff_toNat_le] at hc; exact Nat.lt_succ_of_le hc
  have hi' : i.toNat < 4 := by rw [UInt8.le_iff_toNat_le] at hi; exact Nat.lt_succ_of_le hi
  by_cases hk : k < 8
  · have := cap_fin ⟨c.toNat, hc'⟩ ⟨i.toNat, hi'⟩ ⟨k, hk⟩
    simp only [UInt8.ofNat_toNat] at this
    rw [this.1, this.2]
    simp
  · obtain ⟨a, b, hb⟩ := cap_shape c i
    rw [hb]
    have hk' : decide (k < 8) = false := by simpa using hk
    simp only [Spec.Identity.eaSupported, Spec.Identity.iaSupported, hk', Bool.false_and, Bool.false_eq_true, false_iff]
    omega

/-- **C16, the created UE advertises what it uses.** `CreateUE` configures NEA0 / NIA2, and the capability built from
    that context has 5G-EA0 and 128-5G-IA2 set and no other algorithm bit. -/
theorem C16_capability_of_created_ue (imsi : Bytes) (idx : Int) (k opc op : Bytes) (a : Nat) :
    let ue := createUE imsi idx k opc op
    (Spec.Identity.eaSupported (getUESecurityCapability ue.cipheringAlg ue.integrityAlg).buffer a = true ↔ a = 0) ∧
    (Spec.Identity.iaSupported (getUESecurityCapability ue.cipheringAlg ue.integrityAlg).buffer a = true ↔ a = 2) :=
  C16_capability 0 2 (by decide) (by decide) a

end Stgutg.Props.C16
