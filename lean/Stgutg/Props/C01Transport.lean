/-
  C01, transport — the N2 association is dialled from the gNB's configured address/port to the AMF's, with the NGAP payload
  protocol identifier.

  `tglib.ConnectToAmf` is the one piece of the registration path that the `verif` hook bypasses (the harness hands the emulator a
  socket), so nothing differential reaches it; an AMF does not accept NGAP on an association that carries another payload
  protocol identifier, nor one that was dialled to the wrong endpoint. `gen transport` extracts, on every run and failing closed,
  how `ConnectToAmf(amfIP, stgIP, amfPort, stgPort)` and `getNgapIp` route the four arguments into `sctp.DialSCTP` and which PPID
  they set; C18's wiring tables tie the four arguments to the configuration keys.

    C01_transport_facts      the extracted facts are the expected ones (kernel-decided)
    C01_transport_endpoints  for ALL argument values: remote = (amfIP, amfPort), local = (stgIP, stgPort)
    C01_transport_ppid       the PPID word is 60 (NGAP, IANA "SCTP payload protocol identifiers") in network byte order as seen
                             from a little-endian host: the value 60·2^24, whose octets in memory are 00 00 00 3C
  Not covered: the SCTP stack, name resolution (`net.ResolveIPAddr`), big-endian hosts.
-/
import Stgutg.Gen.Transport

namespace Stgutg.Props.C01Transport
open Stgutg.Model.Transport

def expected : Facts := {
  adoptFirst := true,
  callArgs := [0, 1, 2, 3],
  addrs := [{ result := 0, ipParam := 0, portParam := 2 }, { result := 1, ipParam := 1, portParam := 3 }],
  returned := [0, 1],
  resolveNet := "ip",
  network := "sctp",
  dialLocal := 1,
  dialRemote := 0,
  ppid := 60 * 2 ^ 24
}

/-- **C01_transport_facts.** Table fact over what `gen transport` extracts from src/tglib/ngsetup.go on every check. -/
theorem C01_transport_facts : Gen.Transport.facts = expected := by decide

/-- an endpoint: which argument of ConnectToAmf is its address, which its port (indices into amfIP, stgIP, amfPort, stgPort) -/
structure Endpoint where
  ip : Nat
  port : Nat
  deriving DecidableEq, Repr

/-- semantics of the facts: the `k`-th value returned by getNgapIp, expressed in ConnectToAmf's own arguments -/
def returnedEndpoint (f : Facts) (k : Nat) : Option Endpoint := do
  let r ← f.returned[k]?
  let a ← f.addrs.find? (·.result == r)
  let ip ← f.callArgs[a.ipParam]?
  let port ← f.callArgs[a.portParam]?
  pure { ip := ip, port := port }

/-- the value of an endpoint for concrete arguments -/
def Endpoint.eval {A P : Type} (e : Endpoint) (amfIP stgIP : A) (amfPort stgPort : P) : Option (A × P) :=
  match e.ip, e.port with
  | 0, 2 => some (amfIP, amfPort)
  | 0, 3 => some (amfIP, stgPort)
  | 1, 2 => some (stgIP, amfPort)
  | 1, 3 => some (stgIP, stgPort)
  | _, _ => none

/-- **C01_transport_endpoints.** For all addresses and ports: `sctp.DialSCTP(network, local, remote)` is called with
    remote = (amfIP, amfPort) and local = (stgIP, stgPort), on network "sctp", each address list holding exactly the one resolved
    address (the translator admits no other shape). -/
theorem C01_transport_endpoints {A P : Type} (amfIP stgIP : A) (amfPort stgPort : P) :
    ((returnedEndpoint Gen.Transport.facts Gen.Transport.facts.dialRemote).bind (·.eval amfIP stgIP amfPort stgPort)) = some (amfIP, amfPort) ∧
    ((returnedEndpoint Gen.Transport.facts Gen.Transport.facts.dialLocal).bind (·.eval amfIP stgIP amfPort stgPort)) = some (stgIP, stgPort) ∧
    Gen.Transport.facts.network = "sctp" ∧ Gen.Transport.facts.adoptFirst = true := by
  rw [C01_transport_facts]
  exact ⟨rfl, rfl, rfl, rfl⟩

/-- the four octets of a 32-bit word in the memory of a little-endian host, lowest address first -/
def leOctets (w : Nat) : List Nat := [w % 256, w / 256 % 256, w / 65536 % 256, w / 16777216 % 256]

/-- **C01_transport_ppid.** The PPID handed to the SCTP stack is the word whose octets in memory are 00 00 00 3C: payload protocol
    identifier 60 (NGAP) in network byte order. -/
theorem C01_transport_ppid : leOctets Gen.Transport.facts.ppid = [0, 0, 0, 60] := by
  rw [C01_transport_facts]; decide

end Stgutg.Props.C01Transport
