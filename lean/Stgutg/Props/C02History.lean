/-
  C02 — the judge on a UE's whole history after registration: any sequence of the procedures `EstablishPDU`,
  `ServiceRequest`, `ReleasePDU` that respects their prerequisites, of any length the 24-bit NAS COUNT allows.
  Fourth module of C02; folds the blocks of Props/C02Life.lean.
-/
import Stgutg.Props.C02Life

namespace Stgutg.Props.C02
open Stgutg Stgutg.Model.Emulator Stgutg.Proofs.Emulator Stgutg.Builders
open Stgutg.Model.NasProtect Stgutg.Proofs.NasProtect Stgutg.Spec.NasSecurity
open Stgutg.Spec.NgapView Stgutg.Spec.Ts38413 Stgutg.Proofs.BuildersJudge Stgutg.Proofs.BuildersLife

/-- the procedures a registered UE may repeat -/
inductive Proc where
  | establish | service | release
  deriving DecidableEq, Repr

/-- the session state a procedure leaves; `none` = its prerequisite does not hold (TS 24.501 6.4.1.7: a new request for an
    existing session is allowed; service request and release need an established session) -/
def sessAfter : Spec.Amf.Sess → Proc → Option Spec.Amf.Sess
  | .none, .establish | .established, .establish | .released, .establish => some .established
  | .established, .service => some .established
  | .established, .release => some .released
  | _, _ => none

/-- the session states along a history; `none` = some prerequisite fails -/
def sessAlong : Spec.Amf.Sess → List Proc → Option Spec.Amf.Sess
  | se, [] => some se
  | se, p :: ps => (sessAfter se p).bind (sessAlong · ps)

/-- protected NAS messages a procedure sends (= by how much it advances the UL NAS COUNT) -/
def Proc.cost : Proc → Nat
  | .establish => 1 | .service => 1 | .release => 2

/-- uplink messages a procedure sends -/
def Proc.len : Proc → Nat
  | .establish => 2 | .service => 2 | .release => 3

def cost (ps : List Proc) : Nat := (ps.map Proc.cost).sum
def len (ps : List Proc) : Nat := (ps.map Proc.len).sum

/-- the arguments that stay the same along a UE's history -/
structure Args where
  plmn : Bytes
  amf : Nat
  ran : Int
  psi : Nat
  ip : Bytes
  rt : Nat
  dnn : Bytes
  sn : Option (Nat × UInt8 × UInt8 × UInt8)

def Args.snVal (a : Args) : Option Nas.Ctor.Snssai := a.sn.map fun x => ⟨UInt8.ofNat x.1, [x.2.1, x.2.2.1, x.2.2.2]⟩

structure Args.OK (E : Model.Convert.Ext) (a : Args) : Prop where
  hplmn : a.plmn.length = 3
  ha1 : a.amf < 2 ^ 40
  hr0 : 0 ≤ a.ran
  hr1 : a.ran < 2 ^ 32
  h1 : 1 ≤ a.psi
  h15 : a.psi ≤ 15
  hip : cls E .ip (.str a.ip) = 2
  hrt : a.rt < 8
  hd : a.dnn.length ≤ 99 ∧ ∀ c ∈ a.dnn, c ≠ 0x2E
  hs : ∀ x, a.sn = some x → x.1 < 256

/-- `uls` are the uplink messages the emulator's wrappers return for procedure `p` from security state `sec`, which the
    procedure leaves as `sec'` -/
def procUls (P : Prims) (E : Model.Convert.Ext) (a : Args) : Proc → UeSec → List Bytes → UeSec → Prop
  | .establish, sec, uls, sec' => ∃ plain o b1 b2,
      Nas.Ctor.encodeWith Gen.Nas.layout_ULNASTransport
        (Nas.Ctor.ulEstablishment (UInt8.ofNat a.psi) (UInt8.ofNat a.rt) a.dnn a.snVal) = .ok plain ∧
      (Model.NasProtect.encodeNasPduWithSecurity P sec plain 2 true false).2 = .ok o ∧
      Wrapper.run E .GetUplinkNASTransport a.plmn [.int a.amf, .int a.ran, .octs o] = .ok (.ok b1) ∧
      Wrapper.run E .GetPDUSessionResourceSetupResponse a.plmn [.int a.amf, .int a.ran, .int a.psi, .str a.ip] = .ok (.ok b2) ∧
      uls = [b1, b2] ∧ sec' = (Model.NasProtect.encodeNasPduWithSecurity P sec plain 2 true false).1
  | .service, sec, uls, sec' => ∃ plain o b1 b2,
      Nas.Ctor.encodeWith Gen.Nas.layout_ServiceRequest (Nas.Ctor.serviceRequest 1) = .ok plain ∧
      (Model.NasProtect.encodeNasPduWithSecurity P sec plain 2 true false).2 = .ok o ∧
      Wrapper.run E .GetInitialUEMessage a.plmn [.int a.ran, .octs o, .str []] = .ok (.ok b1) ∧
      Wrapper.run E .GetInitialContextSetupResponseForServiceRequest a.plmn
        [.int a.amf, .int a.ran, .int a.psi, .str a.ip] = .ok (.ok b2) ∧
      uls = [b1, b2] ∧ sec' = (Model.NasProtect.encodeNasPduWithSecurity P sec plain 2 true false).1
  | .release, sec, uls, sec' => ∃ p1 o1 b1 b2 p3 o3 b3,
      Nas.Ctor.encodeWith Gen.Nas.layout_ULNASTransport (Nas.Ctor.ulReleaseRequest (UInt8.ofNat a.psi)) = .ok p1 ∧
      (Model.NasProtect.encodeNasPduWithSecurity P sec p1 2 true false).2 = .ok o1 ∧
      Wrapper.run E .GetUplinkNASTransport a.plmn [.int a.amf, .int a.ran, .octs o1] = .ok (.ok b1) ∧
      Wrapper.run E .GetPDUSessionResourceReleaseResponse a.plmn [.int a.amf, .int a.ran, .int a.psi] = .ok (.ok b2) ∧
      Nas.Ctor.encodeWith Gen.Nas.layout_ULNASTransport
        (Nas.Ctor.ulReleaseComplete (UInt8.ofNat a.psi) (UInt8.ofNat a.rt) a.dnn a.snVal) = .ok p3 ∧
      (Model.NasProtect.encodeNasPduWithSecurity P (Model.NasProtect.encodeNasPduWithSecurity P sec p1 2 true false).1
        p3 2 true false).2 = .ok o3 ∧
      Wrapper.run E .GetUplinkNASTransport a.plmn [.int a.amf, .int a.ran, .octs o3] = .ok (.ok b3) ∧
      uls = [b1, b2, b3] ∧
      sec' = (Model.NasProtect.encodeNasPduWithSecurity P (Model.NasProtect.encodeNasPduWithSecurity P sec p1 2 true false).1
        p3 2 true false).1

/-- the uplink messages of a whole history -/
def histUls (P : Prims) (E : Model.Convert.Ext) (a : Args) : List Proc → UeSec → List Bytes → UeSec → Prop
  | [], sec, uls, sec' => uls = [] ∧ sec' = sec
  | p :: ps, sec, uls, sec' => ∃ u1 sec1 u2, procUls P E a p sec u1 sec1 ∧ histUls P E a ps sec1 u2 sec' ∧ uls = u1 ++ u2

/-- what the judge knows of the UE and the emulator holds for it, between two procedures -/
structure Known (a : Args) (s : Spec.Amf.St) (u : Spec.Amf.UeSt) (sec : UeSec) (c : Nat) : Prop where
  clean : s.fails = []
  setup : s.ngSetup = true
  find : s.ues.find? (·.ran == a.ran) = some u
  amf : u.ch.amfUeNgapId = a.amf
  live : Live sec u c
  reg : u.reg = .registered
  psi : u.sess = .none ∨ u.psi = a.psi

/-- the judge's record of the UE after a procedure that started with last accepted COUNT `c` -/
def ueAfter (a : Args) (u : Spec.Amf.UeSt) (c : Nat) : Proc → Spec.Amf.UeSt
  | .establish => { u with last := some (c + 1), used := (c + 1) :: u.used, sess := .established, psi := a.psi }
  | .service => { u with last := some (c + 1), used := (c + 1) :: u.used, svcPending := false }
  | .release => { u with last := some (c + 2), used := (c + 2) :: (c + 1) :: u.used, sess := .released }

/-- the judge's state after the procedure -/
def stAfter (a : Args) (s : Spec.Amf.St) (u : Spec.Amf.UeSt) (c : Nat) : Proc → Spec.Amf.St
  | .establish => { s.setUe (ueAfter a u c .establish) with established := s.established ++ [u.j] }
  | .service => { s.setUe (ueAfter a u c .service) with services := s.services + 1 }
  | .release => { s.setUe (ueAfter a u c .release) with releases := s.releases + 1 }

theorem stAfter_facts (a : Args) (s : Spec.Amf.St) (u : Spec.Amf.UeSt) (c : Nat) (p : Proc) :
    (stAfter a s u c p).fails = s.fails ∧ (stAfter a s u c p).ngSetup = s.ngSetup ∧
    (stAfter a s u c p).ues = (s.setUe (ueAfter a u c p)).ues ∧
    (stAfter a s u c p).established = s.established ++ (if p = .establish then [u.j] else []) ∧
    (stAfter a s u c p).services = s.services + (if p = .service then 1 else 0) ∧
    (stAfter a s u c p).releases = s.releases + (if p = .release then 1 else 0) ∧
    (stAfter a s u c p).deregs = s.deregs := by
  cases p <;> simp [stAfter, Spec.Amf.St.setUe]

theorem ueAfter_facts (a : Args) (u : Spec.Amf.UeSt) (c : Nat) (p : Proc) :
    (ueAfter a u c p).j = u.j ∧ (ueAfter a u c p).ran = u.ran ∧ (ueAfter a u c p).ch = u.ch ∧ (ueAfter a u c p).reg = u.reg := by
  cases p <;> simp [ueAfter]

/-- **one procedure of the history**: from a state in which the UE is known, live and REGISTERED, a procedure whose
    prerequisite holds is judged without a clause and leaves such a state again -/
theorem proc_step (P : Prims) (hP : PrimsOk P) (life : Bool) (cfg : Spec.Amf.Cfg) (chs : List Spec.Amf.Choice)
    (E : Model.Convert.Ext) (a : Args) (ha : a.OK E) (s : Spec.Amf.St) (k : Nat) (u : Spec.Amf.UeSt) (sec : UeSec) (c : Nat)
    (hk : Known a s u sec c) (p : Proc) (se : Spec.Amf.Sess) (hse : sessAfter u.sess p = some se) (hc : c + p.cost + 1 < 2 ^ 24) :
    ∃ uls sec', procUls P E a p sec uls sec' ∧ uls.length = p.len ∧
      Known a (stAfter a s u c p) (ueAfter a u c p) sec' (c + p.cost) ∧ (ueAfter a u c p).sess = se ∧
      ∀ rest, Spec.Amf.run P life cfg chs s k (uls ++ rest) = Spec.Amf.run P life cfg chs (stAfter a s u c p) (k + p.len) rest := by
  obtain ⟨hclean, hsetup, hfind, hamf, hlive, hreg, hpsi⟩ := hk
  obtain ⟨hplmn, ha1, hr0, hr1, h1, h15, hip, hrt, hd, hs⟩ := ha
  have hur := find_ran s a.ran u hfind
  have hfind' : ∀ p, (stAfter a s u c p).ues.find? (·.ran == a.ran) = some (ueAfter a u c p) := fun p => by
    rw [(stAfter_facts a s u c p).2.2.1]
    exact setUe_find s a.ran u _ hfind (ueAfter_facts a u c p).1 (by rw [(ueAfter_facts a u c p).2.1]; exact hur)
  have hamf' : u.ch.amfUeNgapId < 2 ^ 40 := by rw [hamf]; exact ha1
  cases p with
  | establish =>
    have hsess : u.sess = .none ∨ u.sess = .established ∨ u.sess = .released := by
      cases hs' : u.sess <;> simp [hs', sessAfter] at hse ⊢
    have hse' : se = .established := by
      rcases hsess with h | h | h <;> rw [h] at hse <;> simpa [sessAfter] using hse.symm
    obtain ⟨plain, o, b1, b2, h1', h2, h3, h4, hl', hrun⟩ := C02_establish_block P hP life cfg chs s k E a.plmn hplmn a.ran hr0 hr1
      hclean u hfind hamf' sec c hlive hreg (by simpa [Proc.cost] using hc) a.psi a.rt a.dnn a.sn h1 h15 hrt hd hs hsess a.ip hip
    rw [hamf] at h3 h4
    refine ⟨[b1, b2], _, ⟨plain, o, b1, b2, h1', h2, h3, h4, rfl, rfl⟩, rfl,
      ⟨hclean, hsetup, hfind' .establish, hamf, hl', hreg, .inr rfl⟩, hse'.symm, hrun⟩
  | service =>
    have hsess : u.sess = .established := by
      cases hs' : u.sess <;> simp [hs', sessAfter] at hse ⊢
    have hse' : se = .established := by rw [hsess] at hse; simpa [sessAfter] using hse.symm
    have hp : u.psi = a.psi := by rcases hpsi with h | h; · rw [hsess] at h; cases h
                                  · exact h
    obtain ⟨plain, o, b1, b2, h1', h2, h3, h4, hl', hrun⟩ := C02_service_block P hP life cfg chs s k E a.plmn hplmn a.ran hr0 hr1
      hclean u hfind hamf' sec c hlive hreg (by simpa [Proc.cost] using hc) hsetup hsess (by omega) a.ip hip
    rw [hamf, hp] at h4
    refine ⟨[b1, b2], _, ⟨plain, o, b1, b2, h1', h2, h3, h4, rfl, rfl⟩, rfl,
      ⟨hclean, hsetup, hfind' .service, hamf, hl', hreg, .inr hp⟩, by rw [hse']; exact hsess, hrun⟩
  | release =>
    have hsess : u.sess = .established := by
      cases hs' : u.sess <;> simp [hs', sessAfter] at hse ⊢
    have hse' : se = .released := by rw [hsess] at hse; simpa [sessAfter] using hse.symm
    have hp : u.psi = a.psi := by rcases hpsi with h | h; · rw [hsess] at h; cases h
                                  · exact h
    obtain ⟨p1, o1, b1, b2, p3, o3, b3, g1, g2, g3, g4, g5, g6, g7, hl', hrun⟩ := C02_release_block P hP life cfg chs s k E a.plmn
      hplmn a.ran hr0 hr1 hclean u hfind hamf' sec c hlive hreg (by simpa [Proc.cost] using hc) a.rt a.dnn a.sn
      (by omega) (by omega) hrt hd hs hsess
    rw [hamf] at g3 g4 g7
    rw [hp] at g1 g4 g5
    refine ⟨[b1, b2, b3], _, ⟨p1, o1, b1, b2, p3, o3, b3, g1, g2, g3, g4, g5, g6, g7, rfl, rfl⟩, rfl,
      ⟨hclean, hsetup, hfind' .release, hamf, hl', hreg, .inr hp⟩, hse'.symm, hrun⟩

/-- the other UEs' records are untouched by the procedure -/
theorem stAfter_other (a : Args) (s : Spec.Amf.St) (u : Spec.Amf.UeSt) (c : Nat) (p : Proc) (hur : u.ran = a.ran)
    (ran' : Int) (v : Spec.Amf.UeSt) (hr : ran' ≠ a.ran) (hj : v.j ≠ u.j) (hv : s.ues.find? (·.ran == ran') = some v) :
    (stAfter a s u c p).ues.find? (·.ran == ran') = some v := by
  rw [(stAfter_facts a s u c p).2.2.1]
  apply setUe_find_other s ran' v _ hv
  · rw [(ueAfter_facts a u c p).2.1, hur]; exact fun h => hr h.symm
  · rw [(ueAfter_facts a u c p).1]; exact hj

/-- what a history leaves of the judge's state: no clause, the UE known and live with COUNT advanced by the number of
    protected messages, each procedure counted, everything else as before -/
structure HistoryEnd (a : Args) (ps : List Proc) (s s' : Spec.Amf.St) (u u' : Spec.Amf.UeSt) (sec' : UeSec) (c : Nat) : Prop where
  known : Known a s' u' sec' (c + cost ps)
  sess : sessAlong u.sess ps = some u'.sess
  j : u'.j = u.j
  established : s'.established = s.established ++ List.replicate (ps.count .establish) u.j
  services : s'.services = s.services + ps.count .service
  releases : s'.releases = s.releases + ps.count .release
  deregs : s'.deregs = s.deregs
  others : ∀ ran' v, ran' ≠ a.ran → v.j ≠ u.j → s.ues.find? (·.ran == ran') = some v → s'.ues.find? (·.ran == ran') = some v

/-- **C02_history_accepted.** The fold over a UE's whole history after registration: ANY sequence `ps` of `EstablishPDU`,
    `ServiceRequest`, `ReleasePDU` whose prerequisites hold along the way (`sessAlong`), as long as the UL NAS COUNT stays
    below 2^24 − 1 (`cost ps` protected messages: COUNT `c + 1 … c + cost ps`, each used once, strictly increasing —
    `C02_count_unique` is the emulator's side of this), with the arguments the emulator passes in their ranges: the uplink
    messages the emulator's wrappers return (`histUls`: constructors of C09, `EncodeNasPduWithSecurity` under the threaded
    security state, wrappers of C13) are judged by the reference AMF WITHOUT A CLAUSE, from any clean state that knows the UE;
    every procedure is counted, and the other UEs' records are untouched (so histories of different UEs interleave). -/
theorem C02_history_accepted (P : Prims) (hP : PrimsOk P) (life : Bool) (cfg : Spec.Amf.Cfg) (chs : List Spec.Amf.Choice)
    (E : Model.Convert.Ext) (a : Args) (ha : a.OK E) : ∀ (ps : List Proc) (s : Spec.Amf.St) (k : Nat) (u : Spec.Amf.UeSt)
    (sec : UeSec) (c : Nat), Known a s u sec c → (sessAlong u.sess ps).isSome = true → c + cost ps + 1 < 2 ^ 24 →
    ∃ uls sec' s' u', histUls P E a ps sec uls sec' ∧ uls.length = len ps ∧ HistoryEnd a ps s s' u u' sec' c ∧
      ∀ rest, Spec.Amf.run P life cfg chs s k (uls ++ rest) = Spec.Amf.run P life cfg chs s' (k + len ps) rest := by
  intro ps
  induction ps with
  | nil =>
    intro s k u sec c hk _ _
    exact ⟨[], sec, s, u, ⟨rfl, rfl⟩, rfl,
      ⟨by simpa [cost] using hk, rfl, rfl, by simp, by simp, by simp, rfl, fun _ _ _ _ h => h⟩, fun rest => by simp [len]⟩
  | cons p ps ih =>
    intro s k u sec c hk hal hc
    simp only [sessAlong] at hal
    obtain ⟨se, hse⟩ : ∃ se, sessAfter u.sess p = some se := by
      cases h : sessAfter u.sess p with
      | none => rw [h] at hal; simp at hal
      | some se => exact ⟨se, rfl⟩
    rw [hse] at hal
    simp only [Option.bind_some] at hal
    have hcost : cost (p :: ps) = p.cost + cost ps := by simp [cost]
    have hlen : len (p :: ps) = p.len + len ps := by simp [len]
    obtain ⟨u1, sec1, hp1, hl1, hk1, hs1, hrun1⟩ := proc_step P hP life cfg chs E a ha s k u sec c hk p se hse (by omega)
    obtain ⟨u2, sec2, s2, ue2, hh2, hl2, he2, hrun2⟩ := ih (stAfter a s u c p) (k + p.len) (ueAfter a u c p) sec1 (c + p.cost) hk1
      (by rw [hs1]; exact hal) (by omega)
    have hur := find_ran s a.ran u hk.find
    obtain ⟨f1, f2, f3, f4, f5, f6, f7⟩ := stAfter_facts a s u c p
    have hj1 := (ueAfter_facts a u c p).1
    refine ⟨u1 ++ u2, sec2, s2, ue2, ⟨u1, sec1, u2, hp1, hh2, rfl⟩, by simp [hl1, hl2, hlen], ?_, fun rest => ?_⟩
    · refine ⟨?_, ?_, by rw [he2.j, hj1], ?_, ?_, ?_, by rw [he2.deregs, f7], ?_⟩
      · have := he2.known
        rw [hcost, ← Nat.add_assoc]
        exact this
      · simp only [sessAlong, hse, Option.bind_some]
        rw [← hs1]; exact he2.sess
      · rw [he2.established, f4, hj1, List.append_assoc]
        congr 1
        cases p <;> simp [List.replicate_succ']
        simp [List.replicate_succ, ← List.replicate_succ']
      · rw [he2.services, f5]
        cases p <;> simp
        omega
      · rw [he2.releases, f6]
        cases p <;> simp
        omega
      · intro ran' v hr hj hv
        exact he2.others ran' v hr (by rw [hj1]; exact hj) (stAfter_other a s u c p hur ran' v hr hj hv)
    · rw [List.append_assoc, hrun1, hrun2, hlen, Nat.add_assoc]

end Stgutg.Props.C02
