/-
  C02 — the judge on the whole uplink script of one UE: NG Setup, registration, any history of procedures whose
  prerequisites hold, de-registration. Fifth module of C02 (judge level; what remains towards `C02_accepted_statement` is
  the emulator's reading of the downlink messages of the procedures after registration).
-/
import Stgutg.Props.C02History

namespace Stgutg.Props.C02
open Stgutg Stgutg.Model.Emulator Stgutg.Proofs.Emulator Stgutg.Builders
open Stgutg.Model.NasProtect Stgutg.Proofs.NasProtect Stgutg.Spec.NasSecurity
open Stgutg.Spec.NgapView Stgutg.Spec.Ts38413 Stgutg.Proofs.BuildersJudge Stgutg.Proofs.BuildersLife Stgutg.Proofs.BuildersRoles
open Stgutg.Props.C01

/-- the five uplink messages of `RegisterUE` (UL2 … UL6 of `C01_registration_script_accepted`) from security state `sec`,
    which registration leaves as `sec'` -/
def regUls (P : Prims) (E : Model.Convert.Ext) (a : Args) (mi secCap : Nas.Val) (resStar : Bytes) (sec : UeSec)
    (uls : List Bytes) (sec' : UeSec) : Prop :=
  ∃ nas2 b2 nas3 b3 rr smc o1 b4 b5 rc o2 b6,
    Nas.Ctor.encodeWith Gen.Nas.layout_RegistrationRequest
      (Nas.Ctor.registrationRequest 1 mi none (some secCap) none none none) = .ok nas2 ∧
    Wrapper.run E .GetInitialUEMessage a.plmn [.int a.ran, .octs nas2, .str []] = .ok (.ok b2) ∧
    Nas.Ctor.encodeWith Gen.Nas.layout_AuthenticationResponse (Nas.Ctor.authenticationResponse resStar []) = .ok nas3 ∧
    Wrapper.run E .GetUplinkNASTransport a.plmn [.int a.amf, .int a.ran, .octs nas3] = .ok (.ok b3) ∧
    Nas.Ctor.encodeWith Gen.Nas.layout_RegistrationRequest
      (Nas.Ctor.registrationRequest 1 mi none (some secCap) (some cap5GMMVal) none none) = .ok rr ∧
    Nas.Ctor.encodeWith Gen.Nas.layout_SecurityModeComplete (Nas.Ctor.securityModeComplete (some rr)) = .ok smc ∧
    (Model.NasProtect.encodeNasPduWithSecurity P sec smc 4 true true).2 = .ok o1 ∧
    Wrapper.run E .GetUplinkNASTransport a.plmn [.int a.amf, .int a.ran, .octs o1] = .ok (.ok b4) ∧
    Wrapper.run E .GetInitialContextSetupResponse a.plmn [.int a.amf, .int a.ran] = .ok (.ok b5) ∧
    Nas.Ctor.encodeWith Gen.Nas.layout_RegistrationComplete (Nas.Ctor.registrationComplete none) = .ok rc ∧
    (Model.NasProtect.encodeNasPduWithSecurity P (Model.NasProtect.encodeNasPduWithSecurity P sec smc 4 true true).1 rc 2 true false).2
      = .ok o2 ∧
    Wrapper.run E .GetUplinkNASTransport a.plmn [.int a.amf, .int a.ran, .octs o2] = .ok (.ok b6) ∧
    uls = [b2, b3, b4, b5, b6] ∧
    sec' = (Model.NasProtect.encodeNasPduWithSecurity P (Model.NasProtect.encodeNasPduWithSecurity P sec smc 4 true true).1
      rc 2 true false).1

/-- the two uplink messages of `DeregisterUE` -/
def deregUls (P : Prims) (E : Model.Convert.Ext) (a : Args) (mi : Nas.Val) (sec : UeSec) (uls : List Bytes) : Prop :=
  ∃ plain o b1 b2, Nas.Ctor.encodeWith Gen.Nas.layout_DeregistrationRequestUEOriginatingDeregistration
        (Nas.Ctor.deregistrationRequest 1 0 4 mi) = .ok plain ∧
    (Model.NasProtect.encodeNasPduWithSecurity P sec plain 2 true false).2 = .ok o ∧
    Wrapper.run E .GetUplinkNASTransport a.plmn [.int a.amf, .int a.ran, .octs o] = .ok (.ok b1) ∧
    Wrapper.run E .GetUEContextReleaseComplete a.plmn [.int a.amf, .int a.ran, .nil] = .ok (.ok b2) ∧
    uls = [b1, b2]

/-- after Security Mode Complete (new context, COUNT 0) and Registration Complete (COUNT 1) the emulator's context and the
    judge's record of the REGISTERED UE are in step: last accepted COUNT 1, next COUNT 2 -/
theorem registration_live (P : Prims) (hP : PrimsOk P) (sec : UeSec) (u0 u : Spec.Amf.UeSt) (hin : InStep sec u0)
    (smc rc : Bytes) (haka : u.aka = u0.aka) (hlast : u.last = some 1) (hused : u.used = [1, 0]) :
    Live (Model.NasProtect.encodeNasPduWithSecurity P (Model.NasProtect.encodeNasPduWithSecurity P sec smc 4 true true).1
      rc 2 true false).1 u 1 := by
  obtain ⟨_, _, _, _, _, hin1, hc1⟩ := protected_step P hP sec u0 hin smc 4 true rfl
  obtain ⟨_, _, _, _, _, hin2, hc2⟩ := protected_step P hP _ u0 hin1 rc 2 false rfl
  simp only [if_true] at hc1
  simp only [Bool.false_eq_true, if_false, hc1] at hc2
  refine ⟨⟨?_, hin2.2⟩, hlast, by rw [hc2]; rfl, by rw [hused]; intro x hx; simp at hx; omega⟩
  rw [hin2.1]
  simp [Spec.Amf.ctxOf, haka]

theorem filterMap_replicate {α β : Type} (f : α → Option β) (a : α) (b : β) (h : f a = some b) (n : Nat) :
    (List.replicate n a).filterMap f = List.replicate n b := by
  induction n with
  | zero => rfl
  | succ n ih => simp [List.replicate_succ, h, ih]

/-- the completion clauses of the C02 judge on a clean state with the expected numbers of procedures and reports -/
theorem finish_clean (cfg : Spec.Amf.Cfg) (chs : List Spec.Amf.Choice) (s : Spec.Amf.St) (n : Nat)
    (reported : Option (List Spec.Amf.Reported)) (hclean : s.fails = [])
    (h1 : s.established.length = Spec.Amf.expectedEstablished cfg) (h2 : s.services = Spec.Amf.expectedServices cfg)
    (h3 : s.releases = Spec.Amf.expectedReleases cfg) (h4 : s.deregs = Spec.Amf.expectedDeregs cfg)
    (hrp : ∀ rs, reported = some rs → rs = s.established.filterMap fun j =>
      chs[j]?.map fun ch => ({ ip := ch.ueIp, teid := ch.teid, upf := ch.upfIp } : Spec.Amf.Reported)) :
    (Spec.Amf.finish true cfg chs s n reported true).fails = [] := by
  cases reported with
  | none => simp [Spec.Amf.finish, h1, h2, h3, h4, hclean]
  | some rs =>
    have := hrp rs rfl
    simp [Spec.Amf.finish, h1, h2, h3, h4, hclean, ← this]

/-- **C02_script_accepted.** The judge of C02 (`life = true`: the clauses after registration) accepts the WHOLE uplink script
    of one UE, for all configurations, AMF choices and arguments in the stated ranges, and for EVERY history:
      UL1 `GetNGSetupRequest`, UL2 … UL6 the registration (`regUls`, as in `C01_registration_script_accepted`),
      then any sequence `ps` of `EstablishPDU` / `ServiceRequest` / `ReleasePDU` whose prerequisites hold (`histUls`),
      then, if `dereg`, `DeregisterUE` (`deregUls`),
    each message being what the emulator's constructor (C09), `EncodeNasPduWithSecurity` (C06, under the security state
    threaded from the first message to the last) and wrapper (C13) return. `judge … = accept`: no NGAP clause, no NAS
    security clause (COUNT 0, 1, then 2 … strictly increasing, each used once, MAC valid under the vector's keys), contents
    and prerequisites of every 5GMM / 5GSM message, and the numbers of completed procedures are the ones the configuration
    asks for (`hE`, `hS`, `hR`, `hD` relate the history to the configured counts as `main`'s clamps do), and what is reported
    (if anything) is, per establishment, the address / TEID / UPF address the AMF assigned (`hrp`).
    Hypotheses standing for what is not threaded here: `hin` (the emulator's context holds the keys of the network's vector:
    `C01_keys_of_network_challenge`), `hsub` (`C01_subscriber_identified`), and that the emulator makes exactly these calls
    (its reading of the downlink messages: proved for registration in `C01_accepted_n`, open for the later procedures). -/
theorem C02_script_accepted (P : Prims) (hP : PrimsOk P) (cfg : Spec.Amf.Cfg) (chs : List Spec.Amf.Choice)
    (E : Model.Convert.Ext) (a : Args) (ha : a.OK E) (plmn0 g name : Bytes) (bl : Int)
    (h22 : 22 ≤ bl) (h32 : bl ≤ 32) (hg : g.length = (bl.toNat + 7) / 8)
    (hc : Canonical g bl.toNat) (hname : 1 ≤ name.length) (hcfg : Spec.Amf.plmnOf cfg = some a.plmn)
    (mi secCap : Nas.Val)
    (hmi : mi.iei = 0 ∧ mi.len = mi.data.length ∧ mi.data.length < 65536)
    (hsc : secCap.iei = 0x2E ∧ secCap.len = secCap.data.length ∧ secCap.data.length < 256)
    (hea : Spec.Identity.eaSupported secCap.data Spec.Amf.selectedEa = true)
    (hia : Spec.Identity.iaSupported secCap.data Spec.Amf.selectedIa = true)
    (ch : Spec.Amf.Choice) (aka : Spec.Ts33501A.Aka) (hsub : Spec.Amf.subscriberOf cfg mi.data = some 0)
    (hch : chs[0]? = some ch) (hvec : Spec.Amf.vector P cfg 0 ch = some aka)
    (hamf : ch.amfUeNgapId = a.amf) (hres : aka.resStar.length = 16)
    (sec : UeSec) (hin : InStep sec (regUe 0 a.ran ch aka .authSent none []))
    (hrr : ∀ rr, Nas.Ctor.encodeWith Gen.Nas.layout_RegistrationRequest
      (Nas.Ctor.registrationRequest 1 mi none (some secCap) (some cap5GMMVal) none none) = .ok rr → rr.length < 65536)
    (ps : List Proc) (dereg : Bool) (hps : (sessAlong .none ps).isSome = true) (hcount : cost ps + 4 < 2 ^ 24)
    (hE : ps.count .establish = Spec.Amf.expectedEstablished cfg) (hS : ps.count .service = Spec.Amf.expectedServices cfg)
    (hR : ps.count .release = Spec.Amf.expectedReleases cfg)
    (hD : (if dereg then 1 else 0) = Spec.Amf.expectedDeregs cfg)
    (reported : Option (List Spec.Amf.Reported))
    (hrp : ∀ rs, reported = some rs →
      rs = List.replicate (ps.count .establish) { ip := ch.ueIp, teid := ch.teid, upf := ch.upfIp }) :
    ∃ b1 r sec1 h sec2 d,
      Wrapper.run E .GetNGSetupRequest plmn0 [.octs g, .octs a.plmn, .int bl, .str name] = .ok (.ok b1) ∧
      regUls P E a mi secCap aka.resStar sec r sec1 ∧ histUls P E a ps sec1 h sec2 ∧
      (if dereg then deregUls P E a mi sec2 d else d = []) ∧
      Spec.Amf.judge P true cfg chs (b1 :: (r ++ (h ++ d))) reported true = .accept := by
  have haOK := ha
  obtain ⟨hplmn, ha1, hr0, hr1, -⟩ := ha
  have hsuci : Spec.Amf.suciIs cfg 0 mi.data = true := by
    have := List.find?_some hsub
    exact this
  -- UL1
  obtain ⟨b1, hrun1, hstep1⟩ := C01_step_ng_setup_request P cfg chs {} 0 E plmn0 g a.plmn name bl hplmn h22 h32 hg hc hname hcfg rfl
  have hstep1' : Spec.Amf.step P cfg chs {} 0 b1 = regSt [] := hstep1
  -- registration
  obtain ⟨nas2, b2, nas3, b3, rr, smc, o1, b4, b5, rc, o2, b6, e1, e2, e3, e4, e5, e6, e7, e8, e9, e10, e11, e12, hreg⟩ :=
    C01_registration_block P hP true cfg chs E a.plmn hplmn [] 0 1 a.ran hr0 hr1 (by simp) mi secCap hmi hsc hea hia ch aka hsub hch hvec
      (by rw [hamf]; exact ha1) hres sec hin hrr
  rw [hamf] at e4 e8 e9 e12
  let u0 := regUe 0 a.ran ch aka .registered (some 1) [1, 0]
  have hlive := registration_live P hP sec _ u0 hin smc rc rfl rfl rfl
  have hk0 : Known a (regSt ([] ++ [u0])) u0 _ 1 :=
    ⟨rfl, rfl, regSt_find [] u0 (by simp), hamf, hlive, rfl, .inl rfl⟩
  -- the history
  obtain ⟨h, sec2, s', u', hh, hlen, hend, hrunh⟩ := C02_history_accepted P hP true cfg chs E a haOK ps _ (1 + 5) u0 _ 1 hk0 hps (by omega)
  obtain ⟨⟨kclean, ksetup, kfind, kamf, klive, kreg, kpsi⟩, hsess, hj, hest, hsvc, hrel, hder, -⟩ := hend
  have hest' : s'.established.length = Spec.Amf.expectedEstablished cfg := by rw [hest, ← hE]; simp [regSt]
  have hsvc' : s'.services = Spec.Amf.expectedServices cfg := by rw [hsvc, ← hS]; simp [regSt]
  have hrel' : s'.releases = Spec.Amf.expectedReleases cfg := by rw [hrel, ← hR]; simp [regSt]
  have hder' : s'.deregs = 0 := by rw [hder]; rfl
  have hrp' : ∀ rs, reported = some rs → rs = s'.established.filterMap fun j =>
      chs[j]?.map fun ch => ({ ip := ch.ueIp, teid := ch.teid, upf := ch.upfIp } : Spec.Amf.Reported) := fun rs h => by
    rw [hrp rs h, hest]
    show _ = List.filterMap _ ([] ++ List.replicate _ 0)
    rw [List.nil_append, filterMap_replicate _ 0 _ (by rw [hch]; rfl)]
  have hpre : ∀ d, Spec.Amf.run P true cfg chs {} 0 (b1 :: ([b2, b3, b4, b5, b6] ++ (h ++ d))) =
      Spec.Amf.run P true cfg chs s' (1 + 5 + len ps) d := fun d => by
    rw [run_clean_step P true cfg chs {} 0 b1 _ rfl (by rw [hstep1']; rfl), hstep1']
    exact (hreg (h ++ d)).trans (hrunh d)
  cases dereg with
  | false =>
    refine ⟨b1, _, _, h, sec2, [], hrun1,
      ⟨nas2, b2, nas3, b3, rr, smc, o1, b4, b5, rc, o2, b6, e1, e2, e3, e4, e5, e6, e7, e8, e9, e10, e11, e12, rfl, rfl⟩, hh, rfl, ?_⟩
    unfold Spec.Amf.judge Spec.Amf.clauses
    rw [hpre [], run_nil]
    simp only [Bool.false_eq_true, if_false] at hD
    rw [finish_clean cfg chs s' _ reported kclean hest' hsvc' hrel' (by rw [hder', hD]) hrp']
    rfl
  | true =>
    have hmi2 := hmi.2
    obtain ⟨plain, o, d1, d2, g1, g2, g3, g4, hrund⟩ := C02_deregister_block P hP true cfg chs s' (1 + 5 + len ps) E a.plmn hplmn a.ran
      hr0 hr1 kclean u' kfind (by rw [kamf]; exact ha1) sec2 (1 + cost ps) klive kreg (by omega) mi hmi2.1 hmi2.2
      (by rw [hj]; exact hsuci)
    rw [kamf] at g3 g4
    refine ⟨b1, _, _, h, sec2, [d1, d2], hrun1,
      ⟨nas2, b2, nas3, b3, rr, smc, o1, b4, b5, rc, o2, b6, e1, e2, e3, e4, e5, e6, e7, e8, e9, e10, e11, e12, rfl, rfl⟩, hh,
      ⟨plain, o, d1, d2, g1, g2, g3, g4, rfl⟩, ?_⟩
    unfold Spec.Amf.judge Spec.Amf.clauses
    rw [hpre [d1, d2], hrund [], run_nil]
    simp only [if_true] at hD
    rw [finish_clean cfg chs
      { s'.setUe { u' with last := some (1 + cost ps + 1), used := (1 + cost ps + 1) :: u'.used, reg := .deregistered } with
        deregs := s'.deregs + 1 } _ reported kclean hest' hsvc' hrel' (by show s'.deregs + 1 = _; rw [hder', ← hD]) hrp']
    rfl

/-- the calls `procUls` / `deregUls` describe are the emulator's (Model/Emulator.lean: `establishPDU`, `serviceRequest`,
    `releasePDU`, `deregisterUE`) with `psi` = `pduId` = `(supiInt+14)%15 + 1`, request type 1 and the AMF-UE-NGAP-ID the
    context holds: `uint8(pduId)` is `UInt8.ofNat psi`, the Go `int64` arguments are the casts of `psi` and `amf`, and `psi`
    is assignable -/
theorem C02_calls_are_the_emulators (supiInt : Int) (h0 : 0 ≤ supiInt) (h63 : supiInt + 14 < 2 ^ 63) (amf : Int) (ha : 0 ≤ amf) :
    psi8 (pduIdOf supiInt) = UInt8.ofNat (pduIdOf supiInt).toNat ∧ (1 : UInt8) = UInt8.ofNat 1 ∧
    (((pduIdOf supiInt).toNat : Nat) : Int) = pduIdOf supiInt ∧ ((amf.toNat : Nat) : Int) = amf ∧
    1 ≤ (pduIdOf supiInt).toNat ∧ (pduIdOf supiInt).toNat ≤ 15 := by
  obtain ⟨e, hlo, hhi⟩ := pduId_range supiInt h0 h63
  refine ⟨?_, rfl, by omega, by omega, by omega, by omega⟩
  unfold psi8; rw [Int.emod_eq_of_lt (by omega) (by omega)]

/-- the hypotheses on the arguments and the history are satisfiable: the emulator's arguments (request type 1, DNN
    "internet", an S-NSSAI, gNB address 10.0.0.1) with the largest identifiers, and the history of test mode followed by a
    second establishment -/
example : Args.OK Model.NetExt.goExt ⟨[0x02, 0xf8, 0x39], 2 ^ 40 - 1, 2 ^ 32 - 1, 15, [49, 48, 46, 48, 46, 48, 46, 49], 1, internet,
    some (1, 1, 2, 3)⟩ :=
  ⟨rfl, by decide, by decide, by decide, by decide, by decide, by decide +kernel, by decide, ⟨by decide, by decide⟩,
   fun x h => by cases h; decide⟩

example : sessAlong .none [.establish, .service, .release, .establish] = some .established ∧
    cost [.establish, .service, .release, .establish] = 5 ∧ len [.establish, .service, .release, .establish] = 9 :=
  ⟨rfl, rfl, rfl⟩

end Stgutg.Props.C02
