/-
  C02 — `C02_accepted_statement` for one UE and every count 1, THROUGH `emulate`: the emulator model (test mode: NG Setup,
  registration, PDU session establishment, service request, release, de-registration) writes fifteen uplink messages and
  the reference AMF judges them `accept`, with what the emulator READS after registration as explicit hypotheses.
  Sixth module of C02.
-/
import Stgutg.Props.C02Script
import Stgutg.Proofs.EmulatorLife

namespace Stgutg.Props.C02
open Stgutg Stgutg.Model.Emulator Stgutg.Proofs.Emulator Stgutg.Builders
open Stgutg.Model.NasProtect Stgutg.Proofs.NasProtect Stgutg.Spec.NasSecurity
open Stgutg.Proofs.BuildersRoles Stgutg.Proofs.UeIdentity Stgutg.Proofs.EmulatorRun Stgutg.Proofs.EmulatorSubscriber
open Stgutg.Proofs.EmulatorLife Stgutg.Props.C01 Stgutg.Proofs.KeyDerivation

/-- **C02_accepted_partial.** `C02_accepted_statement` for one UE with `Test_ue_registation` = `Test_ue_pdu_establishment` =
    `Test_ue_service` = `Test_ue_pdu_release` = `Test_ue_deregistration` = 1, through `emulate`: for every decimal-IMSI
    configuration (MNC of 2 or 3 digits), gNB id of 22..32 bits, S-NSSAI SD of three octets, gNB address the builders accept,
    and every AMF choice (RAND, SQN, AMF field, AMF-UE-NGAP-ID < 2^40), the emulator completes, writes the fifteen uplink
    messages and reports one triple, and `Spec.Amf.judge` (C02 clauses, numbers of procedures, reported = assigned) says
    `accept`. Hypotheses = what is not threaded: the DOWNLINK side — registration as in `C01_accepted_for_downlink` (`D`,
    `hue1`, `hkeys`; discharged for the specified downlink by `C01_dlReads_of_spec`), and after it: the four further downlink
    messages are decodable and `EstablishPDU` extracts from the setup request the triple the AMF assigned (`hrep`, `hrepch`:
    C12's subject) — and C08 on three of the seven protected plain messages (`hreE`, `hre3`, `hreD`: `PlainNasDecode` /
    `PlainNasEncode` inside `EncodeNasPduWithSecurity` reproduce the constructors' octets; proved for the two of registration,
    the Service Request and the release request: Proofs/EmulatorReencode.lean, Proofs/EmulatorLife.lean). -/
theorem C02_accepted_partial (P : Prims) (hP : PrimsOk P) (hH : MacLen P.hmac) (cfg : Cfg) (scfg : Spec.Amf.Cfg)
    (chs : List Spec.Amf.Choice) (E : Model.Convert.Ext) (d1 d2 d3 d4 d5 dE dS dD1 dD2 : Bytes)
    (hreg : cfg.reg = 1) (hpdu : cfg.pdu = 1) (hsvc : cfg.svc = 1) (hrel : cfg.rel = 1) (hdereg : cfg.dereg = 1)
    (hexp : Spec.Amf.expectedEstablished scfg = 1 ∧ Spec.Amf.expectedServices scfg = 1 ∧ Spec.Amf.expectedReleases scfg = 1 ∧
      Spec.Amf.expectedDeregs scfg = 1)
    (hone : Spec.Amf.subscribers scfg = 1)
    (himsi : scfg.imsi = cfg.imsi) (hd : DecimalImsi cfg.imsi) {w : Nat} (hw : w = 2 ∨ w = 3) (hmncl : cfg.mnc.length = w)
    (hmcc : scfg.mcc = cfg.imsi.take 3) (hmnc : scfg.mnc = (cfg.imsi.drop 3).take w) (hlen : 3 + w < cfg.imsi.length)
    (hfit : MsinFits cfg.imsi (3 + w) 1)
    (h22 : 22 ≤ cfg.bitlength) (h32 : cfg.bitlength ≤ 32) (hg : cfg.gnbId.length = (cfg.bitlength + 7) / 8)
    (hc : Canonical cfg.gnbId cfg.bitlength) (hname : 1 ≤ cfg.name.length)
    (m : Bytes) (hplmn : Model.Suci.ngSetupPlmn cfg.imsi cfg.mnc.length = .ok m) (hm : m.length = 3)
    (hcfg : Spec.Amf.plmnOf scfg = some m)
    (ch : Spec.Amf.Choice) (aka : Spec.Ts33501A.Aka) (hch : chs[0]? = some ch) (hvec : Spec.Amf.vector P scfg 0 ch = some aka)
    (hamf : ch.amfUeNgapId < 2 ^ 40)
    (v1 : Aper.Val) (hdec1 : ngapDecode (d1.take 2048) = .ok v1)
    (keys : Model.KeyDerivation.UeKeys) (ue1 : Ue)
    (D : DlReads P cfg (createUE cfg 0) d2 d3 d4 d5 ch.amfUeNgapId keys ue1)
    (hue1 : ue1.ctx = (createUE cfg 0).ctx ∧ ue1.sec.cipheringAlg = 0 ∧ ue1.sec.integrityAlg = 2)
    (hkeys : keys.resStar = aka.resStar ∧ keys.knasEnc = aka.knasEnc ∧ keys.knasInt = aka.knasInt)
    -- after registration
    (n : Int) (hsupi : supiInt (createUE cfg 0).ctx.supi = some (n, false)) (hn0 : 0 ≤ n) (hn63 : n + 14 < 2 ^ 63)
    (s1 s2 s3 : UInt8) (hsd : E.hexDecode cfg.sd = ([s1, s2, s3], false)) (hgtp : cls E .ip (.str cfg.gnbGtp) = 2)
    (msgE msgS m1 m2 : Aper.Val) (rep : Report)
    (hdecE : ngapDecode (dE.take 2048) = .ok msgE) (hrep : extractReport msgE = .ok rep)
    (hrepch : rep.ip = ch.ueIp ∧ rep.teid = ch.teid ∧ rep.upf = ch.upfIp)
    (hdecS : ngapDecode (dS.take 2048) = .ok msgS)
    (hdecD1 : ngapDecode (dD1.take 2048) = .ok m1) (hdecD2 : ngapDecode (dD2.take 2048) = .ok m2)
    (hreE : ∀ p, Nas.Ctor.encodeWith Gen.Nas.layout_ULNASTransport (Nas.Ctor.ulEstablishment (psi8 (pduIdOf n)) 1 internet
      (some ⟨UInt8.ofNat (cfg.sst % 256).toNat, [s1, s2, s3]⟩)) = .ok p → Reenc p)
    (hre3 : ∀ p, Nas.Ctor.encodeWith Gen.Nas.layout_ULNASTransport (Nas.Ctor.ulReleaseComplete (psi8 (pduIdOf n)) 1 internet
      (some ⟨UInt8.ofNat (cfg.sst % 256).toNat, [s1, s2, s3]⟩)) = .ok p → Reenc p)
    (hreD : ∀ suci p, Model.Suci.encodeSuci (Model.Suci.trimImsiPrefix (createUE cfg 0).ctx.supi) cfg.mnc.length = .ok suci →
      Nas.Ctor.encodeWith Gen.Nas.layout_DeregistrationRequestUEOriginatingDeregistration
        (Nas.Ctor.deregistrationRequest 1 0 4 (suciVal suci)) = .ok p → Reenc p) :
    let t := emulate P E cfg [d1, d2, d3, d4, d5, dE, dS, dD1, dD2]
    t.outcome = .completed ∧ t.uls.length = 15 ∧
    Spec.Amf.judge P true scfg chs t.uls (some (t.reports.map fun r => { ip := r.ip, teid := r.teid, upf := r.upf }))
      (t.outcome == .completed) = .accept := by
  have hran : (createUE cfg 0).ctx.ranUeNgapId = (((Model.UeIdentity.decVal cfg.imsi + 0) % 10000 : Nat) : Int) :=
    createUE_ranId hd 0 (by decide) cfg.k cfg.opc cfg.op
  have hr0 : 0 ≤ (createUE cfg 0).ctx.ranUeNgapId := by rw [hran]; omega
  have hr1 : (createUE cfg 0).ctx.ranUeNgapId < 2 ^ 32 := by rw [hran]; omega
  have hin : InStep (secAfterKeys ue1 keys) (regUe 0 (createUE cfg 0).ctx.ranUeNgapId ch aka .authSent none []) := by
    refine ⟨?_, ?_⟩
    · simp [Proofs.NasProtect.ctxOf, Spec.Amf.ctxOf, regUe, hue1.2.1, hue1.2.2, hkeys.2.1, hkeys.2.2,
        Spec.Amf.selectedIa, Spec.Amf.selectedEa]
    · exact ⟨.inr hue1.2.2, .inl hue1.2.1⟩
  -- the subscriber
  have hd' : DecimalImsi scfg.imsi := by rw [himsi]; exact hd
  obtain ⟨suci, hsuci0, hslen, hsub⟩ := C01_subscriber_identified scfg hd' hw (by rw [himsi]; exact hmcc) (by rw [himsi]; exact hmnc)
    (by rw [himsi]; exact hlen) (by rw [himsi, hone]; exact hfit) (j := 0) (by rw [hone]; omega) cfg.k cfg.opc cfg.op
  have hsuci : Model.Suci.encodeSuci (Model.Suci.trimImsiPrefix (createUE cfg 0).ctx.supi) cfg.mnc.length = .ok suci := by
    rw [hmncl]
    have : (createUE cfg 0).ctx = Model.UeIdentity.createUE scfg.imsi ((0 : Nat) : Int) cfg.k cfg.opc cfg.op := by
      rw [himsi]; rfl
    rw [this]
    exact hsuci0
  have h18 := hd.short
  have hsl : suci.length < 65536 := by rw [himsi] at hslen; omega
  have hmi : (suciVal suci).iei = 0 ∧ (suciVal suci).len = (suciVal suci).data.length ∧ (suciVal suci).data.length < 65536 :=
    ⟨rfl, by show suci.length % 65536 = suci.length; omega, hsl⟩
  have hcapS := C01_security_capability cfg 0
  have hrr : ∀ rr, Nas.Ctor.encodeWith Gen.Nas.layout_RegistrationRequest
      (Nas.Ctor.registrationRequest 1 (suciVal suci) none (some (secCapVal (createUE cfg 0))) (some cap5GMMVal) none none) = .ok rr →
      rr.length < 65536 := fun rr hrr =>
    registrationRequest_short (suciVal suci) (secCapVal (createUE cfg 0)) hmi (secCapVal_shape cfg 0)
      (by rw [himsi] at hslen; show suci.length ≤ 26; omega) rr hrr
  -- the arguments of the procedures after registration
  obtain ⟨hp8, _, hpcast, _, hp1, hp15⟩ := C02_calls_are_the_emulators n hn0 hn63 0 (le_refl 0)
  let a : Args := ⟨m, ch.amfUeNgapId, (createUE cfg 0).ctx.ranUeNgapId, (pduIdOf n).toNat, cfg.gnbGtp, 1, internet,
    some ((cfg.sst % 256).toNat, s1, s2, s3)⟩
  have ha : a.OK E := ⟨hm, hamf, hr0, hr1, hp1, hp15, hgtp, by show (1 : Nat) < 8; decide,
    ⟨by show internet.length ≤ 99; decide, by show ∀ c ∈ internet, c ≠ 0x2E; decide⟩,
    fun x hx => by cases hx; show (cfg.sst % 256).toNat < 256; omega⟩
  have hsn : snssaiOf E cfg = some ⟨UInt8.ofNat (cfg.sst % 256).toNat, [s1, s2, s3]⟩ := by simp [snssaiOf, hsd]
  obtain ⟨b1, r, sec1, h, sec2, d, hrun1, hR, hH', hD', hacc⟩ := C02_script_accepted P hP scfg chs E a ha [] cfg.gnbId cfg.name
    (cfg.bitlength : Int) (by exact_mod_cast h22) (by exact_mod_cast h32) (by simpa using hg) (by simpa using hc) hname hcfg
    (suciVal suci) (secCapVal (createUE cfg 0)) hmi (secCapVal_shape cfg 0) hcapS.1 hcapS.2 ch aka hsub hch hvec rfl
    (vector_resStar_length P hH scfg 0 ch aka hvec) (secAfterKeys ue1 keys) hin hrr [.establish, .service, .release] true rfl
    (by decide) hexp.1.symm hexp.2.1.symm hexp.2.2.1.symm hexp.2.2.2.symm
    (some [{ ip := rep.ip, teid := rep.teid, upf := rep.upf }])
    (fun rs hrs => by cases hrs; rw [hrepch.1, hrepch.2.1, hrepch.2.2]; rfl)
  -- unpack the script
  obtain ⟨nas2, b2, nas3, b3, rr, smc, o1, b4, b5, rc, o2, b6, e1, e2, e3, e4, e5, e6, e7, e8, e9, e10, e11, e12, hr, hsec1⟩ := hR
  simp only [histUls, procUls, a, Args.snVal, Option.map_some] at hH'
  obtain ⟨uE, secE, restE, ⟨pE, oE, x1, x2, f1, f2, f3, f4, huE, hsecE⟩, ⟨uS, secS, restS, ⟨pS, oS, y1, y2, g1, g2, g3, g4, huS, hsecS⟩,
    ⟨uR, secR, restR, ⟨p1, q1, z1, z2, p3, q3, z3, k1, k2, k3, k4, k5, k6, k7, huR, hsecR⟩, ⟨hnil, hsec2⟩, hrestR⟩, hrestS⟩, hh⟩ := hH'
  simp only [if_true, deregUls, a] at hD'
  obtain ⟨pD, oD, w1, w2, l1, l2, l3, l4, hd2⟩ := hD'
  simp only [a] at e2 e4 e8 e9 e12
  rw [hsec1] at hsecE f2
  rw [hsecE] at hsecS g2
  rw [hsecS] at hsecR k2 k6
  rw [hsecR] at hsec2
  rw [hsec2] at l2
  subst hr huE huS huR hnil hrestR hrestS hh hd2
  -- the emulator's calls
  have R : RegReads P E cfg (createUE cfg 0) m d2 d3 d4 d5 suci nas2 b2 nas3 b3 rr smc o1 b4 b5 rc o2 b6 ch.amfUeNgapId keys ue1 :=
    { hsuci := hsuci, henc2 := e1, hrun2 := e2, v2 := D.v2, dnt := D.dnt, hdec2 := D.hdec2, hdnt := D.hdnt, pm := D.pm, hgn := D.hgn,
      autn := D.autn, rand := D.rand, hauth := D.hauth, hkeys := D.hkeys, hamf := D.hamf,
      henc3 := by rw [hkeys.1]; exact e3, hrun3 := by rw [hue1.1]; exact e4, v3 := D.v3, hdec3 := D.hdec3,
      hencrr := e5, hencsmc := e6,
      pm4 := (Proofs.EmulatorReencode.reenc_smc rr smc (hrr rr e5) e6).choose,
      hpd4 := (Proofs.EmulatorReencode.reenc_smc rr smc (hrr rr e5) e6).choose_spec.1,
      hpe4 := (Proofs.EmulatorReencode.reenc_smc rr smc (hrr rr e5) e6).choose_spec.2, ho1 := e7,
      hrun4 := by rw [hue1.1]; exact e8, v4 := D.v4, hdec4 := D.hdec4, hrun5 := by rw [hue1.1]; exact e9,
      hencrc := e10,
      pm6 := (Proofs.EmulatorReencode.reenc_rc rc e10).choose,
      hpd6 := (Proofs.EmulatorReencode.reenc_rc rc e10).choose_spec.1,
      hpe6 := (Proofs.EmulatorReencode.reenc_rc rc e10).choose_spec.2, ho2 := e11, hrun6 := by rw [hue1.1]; exact e12,
      hdec5 := D.hdec5 }
  have f1' : Nas.Ctor.encodeWith Gen.Nas.layout_ULNASTransport (Nas.Ctor.ulEstablishment (psi8 (pduIdOf n)) 1 internet
      (some ⟨UInt8.ofNat (cfg.sst % 256).toNat, [s1, s2, s3]⟩)) = .ok pE := by rw [hp8]; exact f1
  have k1' : Nas.Ctor.encodeWith Gen.Nas.layout_ULNASTransport (Nas.Ctor.ulReleaseRequest (psi8 (pduIdOf n))) = .ok p1 := by
    rw [hp8]; exact k1
  have k5' : Nas.Ctor.encodeWith Gen.Nas.layout_ULNASTransport (Nas.Ctor.ulReleaseComplete (psi8 (pduIdOf n)) 1 internet
      (some ⟨UInt8.ofNat (cfg.sst % 256).toNat, [s1, s2, s3]⟩)) = .ok p3 := by rw [hp8]; exact k5
  have L : LifeReads P E cfg (createUE cfg 0) m ch.amfUeNgapId _ dE dS dD1 dD2 pE oE x1 x2 pS oS y1 y2 p1 q1 z1 z2 p3 q3 z3
      suci pD oD w1 w2 rep :=
    { n := n, hsupi := hsupi, sn := _, hsn := hsn, hencE := f1', hreE := hreE pE f1', hoE := f2, hrunE1 := f3, msgE := msgE,
      hdecE := hdecE, hrep := hrep, hrunE2 := by rw [← hpcast]; exact f4,
      hencS := g1, hreS := reencOK_elim _ reenc_serviceRequest pS g1, hoS := g2, hrunS1 := g3, msgS := msgS, hdecS := hdecS, hrunS2 := by rw [← hpcast]; exact g4,
      henc1 := k1', hre1 := reencOK_elim _ (reenc_releaseRequest _ (by omega)) p1 k1, ho1 := k2, hrunR1 := k3, hrunR2 := by rw [← hpcast]; exact k4,
      henc3 := k5', hre3 := hre3 p3 k5', ho3 := k6, hrunR3 := k7,
      hsuci := hsuci, hencD := l1, hreD := hreD suci pD hsuci l1, hoD := l2, hrunD1 := l3, m1 := m1, m2 := m2,
      hdecD1 := hdecD1, hdecD2 := hdecD2, hrunD2 := l4 }
  obtain ⟨huls, hreps, hout⟩ := emulate_life_run P E cfg d1 d2 d3 d4 d5 dE dS dD1 dD2 hreg hpdu hsvc hrel hdereg m b1 v1 hplmn hrun1
    hdec1 suci nas2 b2 nas3 b3 rr smc o1 b4 b5 rc o2 b6 ch.amfUeNgapId keys ue1 R pE oE x1 x2 pS oS y1 y2 p1 q1 z1 z2 p3 q3 z3
    suci pD oD w1 w2 rep L
  refine ⟨hout, by rw [huls]; rfl, ?_⟩
  rw [huls, hreps, hout]
  exact hacc

end Stgutg.Props.C02
