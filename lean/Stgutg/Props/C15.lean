/-
  C15 — the Milenage library implements TS 35.206 and accepts exactly valid AUTNs.
  Property theorems only; helper lemmas live in Stgutg/Proofs/Milenage.lean.
  Everything is stated for ALL inputs of the standard sizes and for EVERY kernel block cipher `P.aes`.
-/
import Stgutg.Proofs.Milenage
import Stgutg.Spec.MilenageUsim
namespace Stgutg.Props.C15
open Stgutg Stgutg.Spec.Ts35206 Stgutg.Model.Milenage Stgutg.Proofs.Milenage

theorem f1_eq_spec (P : Prims) (hE : BlockCipher P.aes) (opc k rand sqn amf : Bytes)
    (hopc : opc.length = 16) (hk : k.length = 16) (hrand : rand.length = 16)
    (hsqn : sqn.length = 6) (hamf : amf.length = 2) :
    milenageF1 P opc k rand sqn amf
      = .ok (f1 P.aes k opc rand sqn amf, f1star P.aes k opc rand sqn amf) := by
  rw [milenageF1_spec P hE opc k rand sqn amf hopc hk hrand hsqn (by omega), take_full hamf]

theorem f2345_eq_spec (P : Prims) (hE : BlockCipher P.aes) (opc k rand : Bytes)
    (hopc : opc.length = 16) (hk : k.length = 16) (hrand : rand.length = 16) (wRes wCk wIk wAk wAkstar : Bool) :
    milenageF2345 P opc k rand wRes wCk wIk wAk wAkstar
      = .ok { res := opt wRes (f2 P.aes k opc rand), ck := opt wCk (f3 P.aes k opc rand),
              ik := opt wIk (f4 P.aes k opc rand), ak := opt wAk (f5 P.aes k opc rand),
              akstar := opt wAkstar (f5star P.aes k opc rand) } := by
  have hro : (xorBytes rand opc).length = 16 := by rw [xorBytes_length]; omega
  have htemp : (P.aes k (xorBytes rand opc)).length = 16 := hE _ _ hk hro
  have hto : (xorBytes (P.aes k (xorBytes rand opc)) opc).length = 16 := by rw [xorBytes_length]; omega
  simp only [milenageF2345, newCipher16 hk, hrand, hopc, take_full hopc,
    xor16_eq hrand hopc, xor16_eq htemp hopc, fN_block0 hto, fN_block4 hto, fN_block8 hto, fN_block12 hto]
  simp [f2, f3, f4, f5, f5star, out2, out3, out4, out5, outN, temp, r2, r3, r4, r5, c2_eq, c3_eq, c4_eq, c5_eq,
    xorBytes_take]

theorem opc_eq_spec (P : Prims) (k op : Bytes) (hk : k.length = 16) (hop : op.length = 16) :
    GenerateOPC P k op = .ok (opc P.aes k op) := by
  simp [GenerateOPC, newCipher16 hk, hop, take_full hop, opc, xorBytes_comm]


theorem check_eq_spec (P : Prims) (hE : BlockCipher P.aes) (opc k sqn rand autn : Bytes) (resLen0 : Nat)
    (hopc : opc.length = 16) (hk : k.length = 16) (hrand : rand.length = 16)
    (hsqn : sqn.length = 6) (hautn : autn.length = 16) :
    Milenage_check P opc k sqn rand autn resLen0 = .ok (checkSpec P.aes opc k sqn rand autn) := by
  have h5 := f5_length hE hk hopc hrand
  have hrx : (xorBytes (autn.take 6) (f5 P.aes k opc rand)).length = 6 := by
    rw [xorBytes_length, h5]; simp; omega
  have ha6 : ¬ autn.length < 6 := by omega
  have ha8 : ¬ autn.length < 8 := by omega
  have hs6 : ¬ sqn.length < 6 := by omega
  unfold Milenage_check
  simp only [f2345_eq_spec P hE opc k rand hopc hk hrand, opt, if_true, Option.getD_some, ha6, if_false]
  rw [os_memcmp_eq hrx hsqn]
  simp only [lexCmp_le_zero (hrx.trans hsqn.symm)]
  unfold checkSpec sqnFresh autnSqn
  by_cases hf : beNat (xorBytes (autn.take 6) (f5 P.aes k opc rand)) ≤ beNat sqn
  · have hnf : ¬ beNat (xorBytes (autn.take 6) (f5 P.aes k opc rand)) > beNat sqn := by omega
    simp only [hf, hnf, if_true, not_false_eq_true, if_false, hs6]
    rw [milenageF1_spec P hE opc k rand sqn [0, 0] hopc hk hrand hsqn (by simp)]
    simp [auts, take_full hsqn]
  · have hnf : beNat (xorBytes (autn.take 6) (f5 P.aes k opc rand)) > beNat sqn := by omega
    simp only [hf, hnf, if_false, not_true_eq_false, ha8]
    have hamf : 2 ≤ (autn.drop 6).length := by simp; omega
    rw [milenageF1_spec P hE opc k rand _ (autn.drop 6) hopc hk hrand hrx hamf]
    have hamf2 : ((autn.drop 6).take 2).length = 2 := by simp; omega
    have hmac := f1_length hE hk hopc hrand hrx hamf2
    have hd8 : (autn.drop 8).length = 8 := by simp; omega
    simp only []
    rw [os_memcmp_eq hmac hd8]
    simp only [ne_eq, lexCmp_eq_zero (hmac.trans hd8.symm), macOk, autnSqn]
    by_cases hm : f1 P.aes k opc rand (xorBytes (autn.take 6) (f5 P.aes k opc rand)) ((autn.drop 6).take 2) = autn.drop 8
    · simp [hm]
    · have : ¬ autn.drop 8 = f1 P.aes k opc rand (xorBytes (autn.take 6) (f5 P.aes k opc rand)) ((autn.drop 6).take 2) :=
        fun e => hm e.symm
      simp [hm, this]


theorem generate_eq_spec (P : Prims) (hE : BlockCipher P.aes) (opc amf k sqn rand : Bytes) (resLen : Nat)
    (hopc : opc.length = 16) (hk : k.length = 16) (hrand : rand.length = 16)
    (hsqn : sqn.length = 6) (hamf : amf.length = 2) (hres : 8 ≤ resLen) :
    MilenageGenerate P opc amf k sqn rand resLen
      = .ok ⟨8, autn P.aes k opc rand sqn amf, f4 P.aes k opc rand, f3 P.aes k opc rand,
             f5 P.aes k opc rand, f2 P.aes k opc rand⟩ := by
  have h8 : ¬ resLen < 8 := by omega
  unfold MilenageGenerate
  simp only [h8, if_false, f1_eq_spec P hE opc k rand sqn amf hopc hk hrand hsqn hamf,
    f2345_eq_spec P hE opc k rand hopc hk hrand, opt, if_true, Option.getD_some, take_full hsqn, take_full hamf]
  rfl

theorem auts_eq_spec (P : Prims) (hE : BlockCipher P.aes) (opc k rand auts : Bytes)
    (hopc : opc.length = 16) (hk : k.length = 16) (hrand : rand.length = 16) (hauts : auts.length = 14) :
    Milenage_auts P opc k rand auts = .ok (autsSpec P.aes opc k rand auts) := by
  have h5 := f5star_length hE hk hopc hrand
  have hsq : (xorBytes (auts.take 6) (f5star P.aes k opc rand)).length = 6 := by
    rw [xorBytes_length, h5]; simp; omega
  have ha6 : ¬ auts.length < 6 := by omega
  have ha14 : ¬ auts.length < 14 := by omega
  have hd : (auts.drop 6).take 8 = auts.drop 6 := take_full (by simp; omega)
  unfold Milenage_auts
  simp only [f2345_eq_spec P hE opc k rand hopc hk hrand, opt, if_true, Option.getD_some, ha6, if_false]
  rw [milenageF1_spec P hE opc k rand _ [0, 0] hopc hk hrand hsq (by simp)]
  simp only [ha14, if_false, hd, autsSpec, autsOk, autsSqn, List.take]
  by_cases hm : f1star P.aes k opc rand (xorBytes (auts.take 6) (f5star P.aes k opc rand)) [0, 0] = auts.drop 6
  · simp [hm]
  · have : ¬ auts.drop 6 = f1star P.aes k opc rand (xorBytes (auts.take 6) (f5star P.aes k opc rand)) [0, 0] :=
      fun e => hm e.symm
    simp [hm, this]


/-! ### Corollaries: accept-iff-valid, generate/check inverse, resynchronisation -/

/-- `Milenage_check` returns 0 if and only if MAC-A is exactly f1 over the concealed SQN and the AMF
    and that SQN is greater than the UE's (48-bit big-endian integers). -/
theorem check_iff (P : Prims) (hE : BlockCipher P.aes) (opc k sqn rand autn : Bytes) (resLen0 : Nat)
    (hopc : opc.length = 16) (hk : k.length = 16) (hrand : rand.length = 16)
    (hsqn : sqn.length = 6) (hautn : autn.length = 16) :
    (∃ o, Milenage_check P opc k sqn rand autn resLen0 = .ok o ∧ o.ret = 0)
      ↔ (macOk P.aes k opc rand autn ∧ sqnFresh P.aes k opc rand autn sqn) := by
  rw [check_eq_spec P hE opc k sqn rand autn resLen0 hopc hk hrand hsqn hautn]
  unfold checkSpec
  by_cases hf : sqnFresh P.aes k opc rand autn sqn <;> by_cases hm : macOk P.aes k opc rand autn <;>
    simp [hf, hm]

/-- on acceptance the outputs are RES = f2, CK = f3, IK = f4, *res_len = 8 and AUTS is untouched -/
theorem check_accept (P : Prims) (hE : BlockCipher P.aes) (opc k sqn rand autn : Bytes) (resLen0 : Nat)
    (hopc : opc.length = 16) (hk : k.length = 16) (hrand : rand.length = 16)
    (hsqn : sqn.length = 6) (hautn : autn.length = 16)
    (hm : macOk P.aes k opc rand autn) (hf : sqnFresh P.aes k opc rand autn sqn) :
    Milenage_check P opc k sqn rand autn resLen0
      = .ok ⟨0, 8, f2 P.aes k opc rand, f3 P.aes k opc rand, f4 P.aes k opc rand, zeros 14⟩ := by
  rw [check_eq_spec P hE opc k sqn rand autn resLen0 hopc hk hrand hsqn hautn]
  simp [checkSpec, hf, hm]

/-- an accepted AUTN is exactly the AUTN that generation produces for the SQN it conceals and its AMF:
    no other 128-bit string is accepted -/
theorem check_accepts_only_generated (P : Prims) (hE : BlockCipher P.aes) (opc k sqn rand autn : Bytes)
    (resLen0 : Nat) (hopc : opc.length = 16) (hk : k.length = 16) (hrand : rand.length = 16)
    (hsqn : sqn.length = 6) (hautn : autn.length = 16) (o : CheckOut)
    (h : Milenage_check P opc k sqn rand autn resLen0 = .ok o) (h0 : o.ret = 0) :
    autn = Spec.Ts35206.autn P.aes k opc rand (autnSqn P.aes k opc rand autn) ((autn.drop 6).take 2) := by
  have hiff := (check_iff P hE opc k sqn rand autn resLen0 hopc hk hrand hsqn hautn).mp ⟨o, h, h0⟩
  have hm : autn.drop 8 = _ := hiff.1
  have h5 := f5_length hE hk hopc hrand
  have hc : xorBytes (xorBytes (autn.take 6) (f5 P.aes k opc rand)) (f5 P.aes k opc rand) = autn.take 6 :=
    xorBytes_cancel (by rw [h5]; simp; omega)
  unfold Spec.Ts35206.autn
  rw [← hm]
  unfold autnSqn
  rw [hc]
  have : (autn.drop 6).take 2 ++ autn.drop 8 = autn.drop 6 := by
    have := List.take_append_drop 2 (autn.drop 6)
    rw [List.drop_drop] at this
    exact this
  rw [List.append_assoc, this, List.take_append_drop]

section inverse
variable (P : Prims) (hE : BlockCipher P.aes) (opc k rand sqnNet sqnUE amf : Bytes)
  (hopc : opc.length = 16) (hk : k.length = 16) (hrand : rand.length = 16)
  (hnet : sqnNet.length = 6) (hue : sqnUE.length = 6) (hamf : amf.length = 2)
include hE hopc hk hrand hnet hamf
include hue

/-- AUTN generation and checking are inverse: the AUTN generated for a network SQN greater than the UE's is
    accepted and the UE obtains the same RES / CK / IK that generation produced -/
theorem generate_check_inverse (resLen resLen0 : Nat) (hres : 8 ≤ resLen) (hgt : beNat sqnNet > beNat sqnUE) :
    ∃ g, MilenageGenerate P opc amf k sqnNet rand resLen = .ok g ∧
      Milenage_check P opc k sqnUE rand g.autn resLen0 = .ok ⟨0, 8, g.res, g.ck, g.ik, zeros 14⟩ := by
  refine ⟨_, generate_eq_spec P hE opc amf k sqnNet rand resLen hopc hk hrand hnet hamf hres, ?_⟩
  apply check_accept P hE opc k sqnUE rand _ resLen0 hopc hk hrand hue
    (autn_length hE hk hopc hrand hnet hamf)
    (macOk_autn hE hk hopc hrand hnet hamf)
  unfold sqnFresh
  rw [autnSqn_autn hE hk hopc hrand hnet]
  exact hgt

/-- …and when the network SQN is not greater, the generated AUTN is answered by resynchronisation (-2) -/
theorem generate_check_stale (resLen resLen0 : Nat) (hres : 8 ≤ resLen) (hle : beNat sqnNet ≤ beNat sqnUE) :
    ∃ g o, MilenageGenerate P opc amf k sqnNet rand resLen = .ok g ∧
      Milenage_check P opc k sqnUE rand g.autn resLen0 = .ok o ∧ o.ret = -2 := by
  refine ⟨_, _, generate_eq_spec P hE opc amf k sqnNet rand resLen hopc hk hrand hnet hamf hres,
    check_eq_spec P hE opc k sqnUE rand _ resLen0 hopc hk hrand hue
      (autn_length hE hk hopc hrand hnet hamf), ?_⟩
  have : ¬ sqnFresh P.aes k opc rand (autn P.aes k opc rand sqnNet amf) sqnUE := by
    unfold sqnFresh
    rw [autnSqn_autn hE hk hopc hrand hnet]; omega
  simp [checkSpec, this]
end inverse

/-- resynchronisation: whenever the received SQN is not greater than the UE's, `Milenage_check` returns -2 and
    the AUTS it produced is accepted by the network-side `Milenage_auts`, which recovers exactly the UE's SQN -/
theorem resync (P : Prims) (hE : BlockCipher P.aes) (opc k sqn rand autn : Bytes) (resLen0 : Nat)
    (hopc : opc.length = 16) (hk : k.length = 16) (hrand : rand.length = 16)
    (hsqn : sqn.length = 6) (hautn : autn.length = 16)
    (hnf : ¬ sqnFresh P.aes k opc rand autn sqn) :
    ∃ o, Milenage_check P opc k sqn rand autn resLen0 = .ok o ∧ o.ret = -2 ∧
      o.auts = auts P.aes k opc rand sqn ∧
      Milenage_auts P opc k rand o.auts = .ok (0, sqn) := by
  have h5 := f5star_length hE hk hopc hrand
  have h1 := f1star_length hE hk hopc hrand hsqn (show ([0, 0] : Bytes).length = 2 from rfl)
  have hx : (xorBytes sqn (f5star P.aes k opc rand)).length = 6 := by rw [xorBytes_length]; omega
  have hal : (auts P.aes k opc rand sqn).length = 14 := by simp [auts, hx, h1]
  have hsq : autsSqn P.aes k opc rand (auts P.aes k opc rand sqn) = sqn := by
    unfold autsSqn auts
    rw [List.take_left' hx]
    exact xorBytes_cancel (by omega)
  have hok : autsOk P.aes k opc rand (auts P.aes k opc rand sqn) := by
    unfold autsOk
    rw [hsq]
    unfold auts
    rw [List.drop_left' hx]
  refine ⟨_, check_eq_spec P hE opc k sqn rand autn resLen0 hopc hk hrand hsqn hautn, ?_, ?_, ?_⟩
  · simp [checkSpec, hnf]
  · simp [checkSpec, hnf]
  · simp only [checkSpec, hnf, not_false_eq_true, if_true]
    rw [auts_eq_spec P hE opc k rand _ hopc hk hrand hal]
    simp [autsSpec, hok, hsq]

/-- the network accepts an AUTS if and only if its MAC-S is exactly f1* over the concealed SQN_MS and AMF = 0 -/
theorem auts_iff (P : Prims) (hE : BlockCipher P.aes) (opc k rand auts : Bytes)
    (hopc : opc.length = 16) (hk : k.length = 16) (hrand : rand.length = 16) (hauts : auts.length = 14) :
    (∃ s, Milenage_auts P opc k rand auts = .ok (0, s)) ↔ autsOk P.aes k opc rand auts := by
  rw [auts_eq_spec P hE opc k rand auts hopc hk hrand hauts]
  by_cases h : autsOk P.aes k opc rand auts <;> simp [autsSpec, h]

/-- the hypotheses are satisfiable: e.g. `E k x = k ⊻ x` maps 128-bit blocks to 128-bit blocks, and with it a
    network SQN of 1 against a UE SQN of 0 is accepted -/
example : ∃ P : Prims, BlockCipher P.aes :=
  ⟨{ aes := xorBytes, ctr := fun _ _ m => m, cmac := fun _ m => m, hmac := fun _ m => m },
   fun k x hk hx => by rw [xorBytes_length]; omega⟩

example : ∃ (P : Prims) (opc k sqn rand autn : Bytes) (o : CheckOut),
    BlockCipher P.aes ∧ Milenage_check P opc k sqn rand autn 0 = .ok o ∧ o.ret = 0 := by
  let P : Prims := { aes := xorBytes, ctr := fun _ _ m => m, cmac := fun _ m => m, hmac := fun _ m => m }
  have hE : BlockCipher P.aes := fun k x hk hx => by rw [xorBytes_length]; omega
  obtain ⟨g, _, hc⟩ := generate_check_inverse P hE (zeros 16) (zeros 16) (zeros 16) [0, 0, 0, 0, 0, 1] (zeros 6) [0x80, 0]
    rfl rfl rfl rfl rfl rfl 8 0 (by omega) (by decide)
  exact ⟨P, _, _, _, _, _, _, hE, hc, rfl⟩

end Stgutg.Props.C15
