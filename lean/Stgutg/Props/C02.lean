/-
  C02 — session life cycle for N UEs: establish, service request, release, deregister.
  Property theorems only; helper lemmas live in Stgutg/Proofs/Emulator.lean.

  Model: Model/Emulator.lean (`testMode`: the `stgutg.Min` clamps and the five loops of stg-utg.go's test mode over
         `registerUE`, `establishPDU`, `serviceRequest`, `releasePDU`, `deregisterUE`), tied to the code by the `convo-life`
         correspondence domain (real binary and in-process procedure calls, byte-identical uplink messages and reports).
  Spec:  Spec/Amf.lean (the reference AMF/SMF as a judge of the uplink transcript), Spec/NasSecurity.lean, Spec/SetupRequest.lean.

  What is proved for ALL configurations / counts / choices, and what is not:
    C02_generated_bounds       the loop bounds `gen script` extracts from stg-utg.go on every run are the expected Min clamps
    C02_prerequisites          all integer counts (negative, zero, above N), the extracted bounds: every invocation index of a
                               later loop is below the number of completed prerequisite procedures              — full
    C02_lifecycle              a completed test-mode run: the UE list is CreateUE(imsi, 0..n-1) in order, no loop indexes beyond
                               it, and no procedure changes a UE's SUPI / RAN-UE-NGAP-ID / credentials / AMF-UE-NGAP-ID — full
    C02_ids                    distinct SUPIs and RAN-UE-NGAP-IDs (C16) for the created population                — full (C16's domain)
    C02_count_unique           uplink NAS COUNTs of one UE under one key are pairwise distinct for < 2^24 messages, each message
                               is recovered by the conformant receiver under its COUNT (C06)                    — full
    C02_protected_step_accepted the reference AMF's NAS-security clause accepts the next protected message      — full (one step; iterate)
    C02_reports                reported (UE IP, TEID, UPF IP) = what the network encoded (C12)                    — full for spec-built items
    C02_one_psi                one PDU session identity (1..15) in the 5GSM header, the UL NAS TRANSPORT IE and the NGAP response
                               — full (false before the F14 repair a0d23df: `uint8(supi mod 10^4)` vs `supi mod 10^4`)
  The end-to-end statement "the judge accepts the model's whole transcript" (`C02_accepted_statement` below) is proved in the later
  modules of C02 — Props/C02Steps, C02Life, C02History, C02Script (judge level), C02Accepted (one UE, reads as hypotheses),
  C02AcceptedOne (one UE, downlink specified), C02AcceptedN (`C02_accepted_n`: N ≤ 10 000 UEs, arbitrary repetition counts,
  the downlink side built with the specification encoders, Spec/AmfDownlink.lean) and C02Statement
  (`C02_accepted_statement_spec`: the statement below instantiated, with a kernel-checked well-formed witness).
  The judge is also run on every real transcript (spec column of the `convo` op).
-/
import Stgutg.Proofs.Emulator
import Stgutg.Proofs.EmulatorWitness
import Stgutg.Props.C09

namespace Stgutg.Props.C02
open Stgutg Stgutg.Model.Emulator Stgutg.Proofs.Emulator Stgutg.Builders
open Stgutg.Model.NasProtect Stgutg.Proofs.NasProtect Stgutg.Spec.NasSecurity

/-! ### prerequisites: the `Min` clamps, read from the source on every run -/

open Stgutg.Model.FailStop in
/-- **C02_generated_bounds.** Table fact over the script `gen script` extracts from stg-utg.go on every check (variables
    inlined): the loop that calls `RegisterUE` runs `ue_registration` times, and the loops that call `EstablishPDU`,
    `ServiceRequest`, `ReleasePDU`, `DeregisterUE` are bounded by exactly these `stgutg.Min` expressions. An edit of a clamp
    in stg-utg.go (another operand, a dropped `Min`) changes the generated expression and breaks this theorem. -/
theorem C02_generated_bounds :
    loopBound "RegisterUE" = .cfg "Test_ue_registation" ∧
    loopBound "EstablishPDU" = .min (.cfg "Test_ue_registation") (.cfg "Test_ue_pdu_establishment") ∧
    loopBound "ServiceRequest" = .min (.min (.cfg "Test_ue_registation") (.cfg "Test_ue_pdu_establishment")) (.cfg "Test_ue_service") ∧
    loopBound "ReleasePDU" = .min (.min (.cfg "Test_ue_registation") (.cfg "Test_ue_pdu_establishment")) (.cfg "Test_ue_pdu_release") ∧
    loopBound "DeregisterUE" = .min (.cfg "Test_ue_registation") (.cfg "Test_ue_deregistration") := by decide

/-- the bounds test mode uses (the generated expressions, evaluated) are the clamps as one reads them in the source -/
theorem genNumbers_eq (c : Model.FailStop.Counts) :
    genNumbers c = numbers c.reg c.pdu c.svc c.rel c.dereg ∧ genRegistrations c = c.reg := by
  obtain ⟨h0, h1, h2, h3, h4⟩ := C02_generated_bounds
  simp [genNumbers, genRegistrations, h0, h1, h2, h3, h4, numbers, Model.FailStop.CountExpr.eval, Model.FailStop.Counts.get]

/-- **C02_prerequisites.** For all integer repetition counts — negative, zero, larger than the number of UEs — and the loop
    bounds extracted from the source: every invocation index `i` of the establishment loop is below the number of
    registrations, every index of the service request and release loops is below the number of establishments, every
    index of the de-registration loop is below the number of registrations: no procedure is attempted for a UE that has
    not completed its prerequisite. -/
theorem C02_prerequisites (c : Model.FailStop.Counts) (i : Nat) :
    let n := genNumbers c
    ((i : Int) < n.establish → (i : Int) < genRegistrations c) ∧
    ((i : Int) < n.service → (i : Int) < n.establish) ∧
    ((i : Int) < n.release → (i : Int) < n.establish) ∧
    ((i : Int) < n.deregister → (i : Int) < genRegistrations c) := by
  rw [(genNumbers_eq c).1, (genNumbers_eq c).2]
  simp only [numbers, Model.FailStop.goMin]
  refine ⟨?_, ?_, ?_, ?_⟩ <;> (repeat' split) <;> omega

/-- the clamps are the specification's numbers: min(requested, completed prerequisites), never negative -/
theorem C02_numbers_are_min (c : Model.FailStop.Counts) :
    let n := genNumbers c
    n.establish.toNat = min c.reg.toNat c.pdu.toNat ∧ n.service.toNat = min n.establish.toNat c.svc.toNat ∧
    n.release.toNat = min n.establish.toNat c.rel.toNat ∧ n.deregister.toNat = min c.reg.toNat c.dereg.toNat := by
  rw [(genNumbers_eq c).1]
  simp only [numbers, Model.FailStop.goMin]
  refine ⟨?_, ?_, ?_, ?_⟩ <;> (repeat' split) <;> omega

example : genNumbers { reg := 2, pdu := 5, svc := 1, rel := 7, dereg := -3 }
    = { establish := 2, service := 1, release := 2, deregister := -3 } := by decide
/-- both `ue_pdu` and `ue_pdu_release` above the one registered UE: one release, not two -/
example : (genNumbers { reg := 1, pdu := 2, svc := 0, rel := 2, dereg := 1 }).release = 1 := by decide

/-! ### life cycle: which UE each loop iteration acts on -/

theorem bind_ok {α β : Type} (m : M α) (f : α → M β) (w w' : World) (b : β) (h : (m >>= f) w = (w', .ok b)) :
    ∃ w1 a, m w = (w1, .ok a) ∧ f a w1 = (w', .ok b) := by
  rw [bind_apply] at h
  cases hm : m w with
  | mk w1 r =>
    rw [hm] at h
    cases r with
    | error e => simp only at h; injection h with _ h2; exact absurd h2 (by simp)
    | ok a => exact ⟨w1, a, rfl, h⟩

/-- **C02_lifecycle.** Whenever a test-mode run completes (whatever the peer sent): the UE list after the registration loop
    is `CreateUE(imsi, 0), …, CreateUE(imsi, n−1)` in order (n = the registration count, 0 if negative); each of the four later
    loops used only indices inside that list (no `ueList[i]` trap), in increasing order from 0; and after every loop each UE
    still has the SUPI, RAN-UE-NGAP-ID and credentials it was created with and the AMF-UE-NGAP-ID it was given at
    registration — the procedures only advance the NAS security state. -/
theorem C02_lifecycle (P : Prims) (E : Model.Convert.Ext) (cfg : Cfg) (w w' : World) (h : testMode P E cfg w = (w', .ok ())) :
    ∃ ues₀ ues₁ ues₂ ues₃ ues₄ : List Ue,
      ues₀.map (·.ctx) = (List.range cfg.reg.toNat).map (fun k : Nat => (createUE cfg (k : Int)).ctx) ∧
      ues₁.map ident = ues₀.map ident ∧ ues₂.map ident = ues₀.map ident ∧
      ues₃.map ident = ues₀.map ident ∧ ues₄.map ident = ues₀.map ident ∧
      (genNumbers (countsOf cfg)).establish.toNat ≤ ues₀.length ∧
      (genNumbers (countsOf cfg)).service.toNat ≤ ues₀.length ∧
      (genNumbers (countsOf cfg)).release.toNat ≤ ues₀.length ∧
      (genNumbers (countsOf cfg)).deregister.toNat ≤ ues₀.length := by
  unfold testMode at h
  obtain ⟨w1, _, _, h⟩ := bind_ok _ _ _ _ _ h
  obtain ⟨w2, ues₀, h0, h⟩ := bind_ok _ _ _ _ _ h
  obtain ⟨w3, ues₁, h1, h⟩ := bind_ok _ _ _ _ _ h
  obtain ⟨w4, ues₂, h2, h⟩ := bind_ok _ _ _ _ _ h
  obtain ⟨w5, ues₃, h3, h⟩ := bind_ok _ _ _ _ _ h
  obtain ⟨w6, ues₄, h4, _⟩ := bind_ok _ _ _ _ _ h
  have r0 := registerLoop_ok P E cfg _ _ _ _ _ _ h0
  obtain ⟨i1, l1⟩ := forUes_ok _ _ _ _ _ _ _ h1
  obtain ⟨i2, l2⟩ := forUes_ok _ _ _ _ _ _ _ h2
  obtain ⟨i3, l3⟩ := forUes_ok _ _ _ _ _ _ _ h3
  obtain ⟨i4, l4⟩ := forUes_ok _ _ _ _ _ _ _ h4
  have len (a b : List Ue) (e : a.map ident = b.map ident) : a.length = b.length := by
    have := congrArg List.length e; simpa using this
  have e1 := len _ _ i1
  have e2 := len _ _ (i2.trans i1)
  have e3 := len _ _ (i3.trans (i2.trans i1))
  refine ⟨ues₀, ues₁, ues₂, ues₃, ues₄, ?_, i1, i2.trans i1, i3.trans (i2.trans i1), i4.trans (i3.trans (i2.trans i1)), ?_, ?_, ?_, ?_⟩
  · rw [r0, (genNumbers_eq (countsOf cfg)).2]; simp [List.range_eq_range', countsOf]
  · omega
  · omega
  · omega
  · omega

/-! ### identities -/

/-- **C02_ids.** The UEs test mode creates from one configured IMSI have pairwise distinct SUPIs and RAN-UE-NGAP-IDs
    (populations the IMSI digits accommodate, at most 10 000: C16), and by `C02_lifecycle` they keep them. -/
theorem C02_ids (cfg : Cfg) (h : Proofs.UeIdentity.DecimalImsi cfg.imsi) {n : Nat} (hfit : Proofs.UeIdentity.Fits cfg.imsi n)
    (hn : n ≤ 10000) {i j : Nat} (hi : i < n) (hj : j < n) (hij : i ≠ j) :
    (createUE cfg i).ctx.supi ≠ (createUE cfg j).ctx.supi ∧
    (createUE cfg i).ctx.ranUeNgapId ≠ (createUE cfg j).ctx.ranUeNgapId :=
  ⟨Props.C16.C16_supi_distinct h hfit hi hj hij _ _ _ _ _ _, (Props.C16.C16_ran_id_distinct h hn hi hj hij _ _ _ _ _ _).1⟩

/-- the hypotheses are satisfiable: the shipped IMSI "001010000000001" with six UEs -/
example : Proofs.UeIdentity.DecimalImsi [48, 48, 49, 48, 49, 48, 48, 48, 48, 48, 48, 48, 48, 48, 49] ∧
    Proofs.UeIdentity.Fits [48, 48, 49, 48, 49, 48, 48, 48, 48, 48, 48, 48, 48, 48, 49] 6 :=
  ⟨⟨by decide, by decide, by decide⟩, by unfold Proofs.UeIdentity.Fits; decide⟩

/-! ### one PDU session identity -/

/-- the PDU session identity `(supiInt+14)%15 + 1` for every SUPI number `strconv.Atoi` can return without the sum
    overflowing (every decimal SUPI of up to 18 digits): a value in 1..15 -/
theorem pduId_range (supiInt : Int) (h0 : 0 ≤ supiInt) (h63 : supiInt + 14 < 2 ^ 63) :
    pduIdOf supiInt = (supiInt + 14) % 15 + 1 ∧ 1 ≤ pduIdOf supiInt ∧ pduIdOf supiInt ≤ 15 := by
  have hw : Model.UeIdentity.wrap64 (supiInt + 14) = supiInt + 14 := by
    unfold Model.UeIdentity.wrap64; omega
  have e : pduIdOf supiInt = (supiInt + 14) % 15 + 1 := by
    unfold pduIdOf; rw [hw, Int.tmod_eq_emod_of_nonneg (by omega)]
  refine ⟨e, ?_, ?_⟩ <;> rw [e] <;> omega

/-- **C02_one_psi.** For every SUPI (history: before commit a0d23df of /repo the identity was `supi mod 10^4`, cast to
    `uint8` for NAS only — finding F14 — and the statement was false, e.g. 44 vs 300 for a SUPI ending in 0300) the value
    `psi` = `(supi+14) mod 15 + 1` ∈ 1..15 is used everywhere: `uint8(pduId)` is `psi`; (a) the UL NAS TRANSPORT built by
    `GetUlNasTransport_PduSessionEstablishmentRequest(uint8(pduId), …)` parses, with the standard's parser, to a message
    whose PDU session ID IE (0x12) is `psi` and whose payload container holds a 5GSM message with `psi` in its header (C09);
    (b) the PDU SESSION RESOURCE SETUP RESPONSE built by `GetPDUSessionResourceSetupResponse(amf, ran, pduId, ip)` carries
    `psi` as the PDU Session ID of its item (C13). -/
theorem C02_one_psi (supiInt : Int) (h0 : 0 ≤ supiInt) (h63 : supiInt + 14 < 2 ^ 63)
    (sn : Option (Nat × UInt8 × UInt8 × UInt8)) (hs : ∀ x, sn = some x → x.1 < 256)
    (E : Model.Convert.Ext) (plmn : Bytes) (amf ran gtp : Aper.Val) (pdu : Aper.Val)
    (hb : Wrapper.pdu E .GetPDUSessionResourceSetupResponse plmn [amf, ran, .int (pduIdOf supiInt), gtp] = .ok pdu) :
    let psi := (pduIdOf supiInt).toNat
    1 ≤ psi ∧ psi ≤ 15 ∧ psi8 (pduIdOf supiInt) = UInt8.ofNat psi ∧ ((psi : Nat) : Int) = pduIdOf supiInt ∧
    (∃ w bs, Props.C09.wireOf Gen.Nas.layout_ULNASTransport = some w ∧
      Nas.Ctor.encodeWith Gen.Nas.layout_ULNASTransport (Nas.Ctor.ulEstablishment (psi8 (pduIdOf supiInt)) 1 internet
        (sn.map fun x => ⟨UInt8.ofNat x.1, [x.2.1, x.2.2.1, x.2.2.2]⟩)) = .ok bs ∧
      Spec.Ts24501.parse w bs = some (Spec.Ts24501.Intended.ulNasTransport
        ([0x2E, UInt8.ofNat psi, 0x01, 0xC1, 0xFF, 0xFF, 0x91, 0x7B, 0x00, 0x0A] ++ Spec.Ts24501.Intended.pco) psi (some 1) internet
        (sn.map fun x => (x.1, [x.2.1, x.2.2.1, x.2.2.2])))) ∧
    (∃ v, Spec.NgapView.ieValuesById pdu (Spec.Ts38413.iePDUSessionResourceSetupListSURes : Int) = some [some v] ∧
      Spec.NgapView.Val.at [0, 0, 0, 0] v = some (.int (pduIdOf supiInt))) := by
  obtain ⟨e, hlo, hhi⟩ := pduId_range supiInt h0 h63
  have hpsi : (pduIdOf supiInt).toNat < 256 := by omega
  have hcast : (((pduIdOf supiInt).toNat : Nat) : Int) = pduIdOf supiInt := by omega
  have h8 : psi8 (pduIdOf supiInt) = UInt8.ofNat (pduIdOf supiInt).toNat := by
    unfold psi8; rw [Int.emod_eq_of_lt (by omega) (by omega)]
  refine ⟨by omega, by omega, h8, hcast, ?_, ?_⟩
  · rw [h8]
    have := Props.C09.C09_ctor_ulEstablishment (pduIdOf supiInt).toNat 1 internet sn hpsi (by decide)
      ⟨by decide, by decide⟩ hs
    exact this
  · have hsh := Proofs.Builders.build_shaped E tPDUSessionResourceSetupResponseForRegistrationTest plmn _ pdu hb
    obtain ⟨id, v, hid, hv, hat⟩ := Props.C13.C13_carries_psi E _ (mem_allTable_hand (by simp [handTable])) 2 (by decide) plmn _ pdu hsh
      (.int (pduIdOf supiInt)) rfl
    have : id = Spec.Ts38413.iePDUSessionResourceSetupListSURes := by
      simp [Spec.Ts38413.psiItemIe, tPDUSessionResourceSetupResponseForRegistrationTest] at hid
      exact hid.symm
    subst this
    exact ⟨v, hv, hat⟩

/-- the same identity in all three procedures: `EstablishPDU`, `ServiceRequest` and `ReleasePDU` compute it from the SUPI
    alone, so one UE uses one PDU session identity throughout -/
example : pduIdOf 1010000000300 = 5 ∧ pduIdOf 1010000000001 = 6 ∧ pduIdOf 0 = 15 := by decide

/-! ### reported values -/

/-- a decoded PDU SESSION RESOURCE SETUP REQUEST whose setup list `FindPDUSessionResourceSetupListSUReq` finds and whose
    first item carries these octets as NAS-PDU and transfer -/
def CarriesItem (msg : Aper.Val) (nasPdu transfer : Bytes) : Prop :=
  ∃ l item rest, findSetupList msg = some l ∧ field 0 l = some (.slice (item :: rest)) ∧
    ((field 1 item).bind deref |>.bind (field 0)) = some (.octs nasPdu) ∧ field 3 item = some (.octs transfer)

open Stgutg.Spec.SetupRequest in
/-- **C02_reports.** When the item's NAS-PDU is a protected DL NAS TRANSPORT carrying any well-formed PDU SESSION
    ESTABLISHMENT ACCEPT of table 8.3.2.1.1 with the IPv4 address `ip`, and its transfer is any well-formed
    PDUSessionResourceSetupRequestTransfer with the GTP tunnel (`tla`, `teid`), `EstablishPDU` reports exactly
    (`ip`, `teid`, `tla`) — the values the network assigned (C12 through the glue of `EstablishPDU`). -/
theorem C02_reports (msg : Aper.Val) (h : SecHeader) (pct : UInt8) (a : Accept) (psi2 : Option UInt8) (addInfo : Option Bytes)
    (cause5gmm backoff : Option UInt8) (ip : Bytes) (t : Transfer)
    (hmac : h.mac.length = 4) (hwf : a.WellFormed) (haddr : a.pduAddress = some (pduAddressV4 ip)) (hip : ip.length = 4)
    (hlen : a.encode.length < 65530) (htwf : t.WellFormed) (h4 : t.tla.length = 4)
    (hc : CarriesItem msg (nasPdu h pct a psi2 addInfo cause5gmm backoff) t.encode) :
    extractReport msg = .ok { ip := ip, teid := beNat t.teid, upf := t.tla } := by
  obtain ⟨l, item, rest, h1, h2, h3, h4'⟩ := hc
  unfold extractReport
  simp only [h1, h2, h3, h4']
  rw [Props.C12.C12_ip_pdu h pct a psi2 addInfo cause5gmm backoff ip [] hmac hwf haddr hip hlen,
    Props.C12.C12_teid_upf t [] htwf h4]

/-- a setup request without a setup list, or with an empty one, ends in `ManageError` (exit 1), not in a trap -/
theorem C02_no_list_is_an_error (msg : Aper.Val) (h : findSetupList msg = none) : extractReport msg = .error .exit1 := by
  unfold extractReport; rw [h]

/-! ### NAS COUNT -/

/-- **C02_count_unique.** For any run of fewer than 2^24 protected uplink messages of one UE under one key (any plain
    messages, header types 1..4, no new context in between, from any stored counter word): message `k` leaves under NAS COUNT
    (start + k) mod 2^24, the conformant receiver holding the same keys recovers its plain message under exactly that COUNT,
    and the COUNTs of any two messages of the run differ — no uplink NAS COUNT is used twice under the same key. -/
theorem C02_count_unique (P : Prims) (hP : PrimsOk P) (ue : UeSec) (ops : List UlOp) (hs : Supported ue)
    (hsc : ∀ op ∈ ops, UlInScope op) (hall : ∀ op ∈ ops, op.ctxAvail = true ∧ op.newCtx = false)
    (hlen : ops.length ≤ 2 ^ 24) (i j : Nat) (opi opj : UlOp) (hij : i < j)
    (hi : ops[i]? = some opi) (hj : ops[j]? = some opj) :
    ∃ ci cj oi oj, (runEncode P ue ops).2[i]? = some (.ok oi) ∧ (runEncode P ue ops).2[j]? = some (.ok oj) ∧
      receive P (ctxOf ue) uplink ci oi = some opi.plain ∧ receive P (ctxOf ue) uplink cj oj = some opj.plain ∧
      ci = (cval ue.ulCount + i) % 2 ^ 24 ∧ cj = (cval ue.ulCount + j) % 2 ^ 24 ∧ ci ≠ cj := by
  obtain ⟨ci, oi, h1, h2, h3⟩ := Props.C06.receiver_recovers_plain P hP ue ops hs hsc i opi hi (hall opi (List.mem_of_getElem? hi)).1
  obtain ⟨cj, oj, g1, g2, g3⟩ := Props.C06.receiver_recovers_plain P hP ue ops hs hsc j opj hj (hall opj (List.mem_of_getElem? hj)).1
  have hcounts := ueRun_counts P (ctxOf ue) (ops.map toSend) (cval ue.ulCount) (cval_lt _) (by
    intro m hm
    obtain ⟨op, hop, rfl⟩ := List.mem_map.mp hm
    exact hall op hop)
  have hjl : j < ops.length := (List.getElem?_eq_some_iff.mp hj).1
  have key : ∀ k c o, k < ops.length → (ueRun P (ctxOf ue) ⟨cval ue.ulCount⟩ (ops.map toSend)).2[k]? = some (some c, some o) →
      c = (cval ue.ulCount + k) % 2 ^ 24 := by
    intro k c o hk hk2
    have := congrArg (·[k]?) hcounts
    simp only [List.getElem?_map, hk2, Option.map_some, List.length_map] at this
    rw [List.getElem?_range hk] at this
    simpa using this
  have ei := key i ci oi (by omega) h2
  have ej := key j cj oj hjl g2
  refine ⟨ci, cj, oi, oj, h1, g1, h3, g3, ei, ej, ?_⟩
  rw [ei, ej]
  omega

/-- the hypotheses are satisfiable: the six protected messages of one UE's life after Security Mode Complete -/
example : ∃ ops : List UlOp, ops.length = 6 ∧ (∀ op ∈ ops, UlInScope op) ∧ (∀ op ∈ ops, op.ctxAvail = true ∧ op.newCtx = false) :=
  ⟨List.replicate 6 { plain := [0x7e, 0, 0x43], epd := 0x7e, sht := 2, ctxAvail := true, newCtx := false }, rfl,
   fun op h => by rw [List.eq_of_mem_replicate h]; exact fun _ => rfl,
   fun op h => by rw [List.eq_of_mem_replicate h]; exact ⟨rfl, rfl⟩⟩

/-- **C02_protected_step_accepted.** The reference AMF's NAS-security clause on the next protected uplink message after
    registration (estimate of TS 24.501 4.4.3.1, strictly above the last accepted COUNT, never used before, MAC under the
    network-derived keys): if the UE context holds the network's keys, the AMF last accepted COUNT `c`, the UE's stored UL
    NAS COUNT is `c + 1` and every COUNT used so far is ≤ `c`, then what `EncodeNasPduWithSecurity(ue, plain, sht, true,
    false)` returns is accepted with COUNT `c + 1` and plain message `plain`; afterwards the same invariant holds with
    `c + 1` (so the clause accepts the whole history, message after message, up to COUNT 2^24 − 2). -/
theorem C02_protected_step_accepted (P : Prims) (hP : PrimsOk P) (sec : UeSec) (u : Spec.Amf.UeSt) (hin : InStep sec u)
    (c : Nat) (hlast : u.last = some c) (hcnt : cval sec.ulCount = c + 1) (hc : c + 2 < 2 ^ 24)
    (hused : ∀ x ∈ u.used, x ≤ c)
    (plain : Bytes) (sht : UInt8) (allowed : List Nat) (hsht : sht = 1 ∨ sht = 2) (hall : allowed.contains sht.toNat = true) :
    ∃ out, (Model.NasProtect.encodeNasPduWithSecurity P sec plain sht true false).2 = .ok out ∧
      Spec.Amf.receiveUl P u false allowed out = .ok (plain, c + 1) ∧
      InStep (Model.NasProtect.encodeNasPduWithSecurity P sec plain sht true false).1 (Spec.Amf.accepted u sht.toNat (c + 1)) ∧
      (Spec.Amf.accepted u sht.toNat (c + 1)).last = some (c + 1) ∧
      cval (Model.NasProtect.encodeNasPduWithSecurity P sec plain sht true false).1.ulCount = c + 2 ∧
      ∀ x ∈ (Spec.Amf.accepted u sht.toNat (c + 1)).used, x ≤ c + 1 := by
  have hpt : protectedType sht.toNat = true := by rcases hsht with rfl | rfl <;> rfl
  have hnc : newContext sht.toNat = false := by rcases hsht with rfl | rfl <;> rfl
  obtain ⟨out, ho, hb1, hb6, hr, hin', hc'⟩ := protected_step P hP sec u hin plain sht false hpt
  simp only [Bool.false_eq_true, if_false] at hb6 hr hc'
  rw [hcnt] at hb6 hr hc'
  refine ⟨out, ho, ?_, ?_, ?_, ?_, ?_⟩
  · apply receiveUl_of_receive P u false allowed out plain (c + 1) (by rw [hb1]; exact hall) _ _ hr
    · simp only [Spec.Amf.expectedCount, hb1, hnc, Bool.false_eq_true, if_false, hlast, Option.map_some, hb6]
      have := estimate_next c (by omega)
      unfold sqnOf at this
      rw [this]
    · simp only [Spec.Amf.fresh, hb1, hnc, hlast, Bool.false_or, Bool.and_eq_true, decide_eq_true_eq, Bool.not_eq_true']
      refine ⟨by omega, ?_⟩
      cases hcon : u.used.contains (c + 1) with
      | false => rfl
      | true =>
        have := hused (c + 1) (by simpa using hcon)
        omega
  · obtain ⟨h1, h2⟩ := hin'
    refine ⟨?_, h2⟩
    rw [h1]
    simp [Spec.Amf.accepted, hnc, Spec.Amf.ctxOf]
  · simp [Spec.Amf.accepted, hnc]
  · rw [hc']; omega
  · intro x hx
    simp only [Spec.Amf.accepted, hnc, Bool.false_eq_true, if_false, List.mem_cons] at hx
    rcases hx with rfl | hx
    · omega
    · have := hused x hx; omega

/-! ### the end-to-end statement (proved with the downlink side specified, for N ≤ 10 000 UEs and arbitrary counts, as
    `C02_accepted_n` in Props/C02AcceptedN.lean; at judge level — the whole uplink script of a UE, for every history — it is
    `C02_script_accepted` in Props/C02Script.lean, built on Props/C02Steps.lean, C02Life.lean, C02History.lean) -/

/-- what C02 asks of the model as a whole: for every configuration and every AMF behaviour `dl` that answers as a conformant
    AMF does, the reference AMF judges the model's transcript `accept`. `C02_accepted_statement_spec` (Props/C02Statement.lean)
    proves it for `dl` = the specified downlink of Spec/AmfDownlink.lean (through `C02_accepted_n`, Props/C02AcceptedN.lean);
    the check also evaluates the judge on real transcripts. -/
def C02_accepted_statement (P : Prims) (E : Model.Convert.Ext) (dl : Spec.Amf.Cfg → List Spec.Amf.Choice → List Bytes)
    (toSpec : Cfg → Spec.Amf.Cfg) (WF : Cfg → List Spec.Amf.Choice → Prop) : Prop :=
  ∀ cfg chs, WF cfg chs →
    let t := emulate P E cfg (dl (toSpec cfg) chs)
    Spec.Amf.judge P true (toSpec cfg) chs t.uls (some (t.reports.map fun r => { ip := r.ip, teid := r.teid, upf := r.upf }))
      (t.outcome == .completed) = .accept

open Stgutg.Proofs.EmulatorWitness in
/-- the primitives of the witness below satisfy every hypothesis the theorems of C01 / C02 make about primitives -/
theorem cheapPrims_ok : PrimsOk cheapPrims ∧ Spec.Ts35206.BlockCipher cheapPrims.aes ∧ Proofs.KeyDerivation.MacLen cheapPrims.hmac :=
  ⟨⟨⟨fun _ iv n => List.replicate n (iv.getD 4 0 ||| 0x80), fun _ _ _ => by simp, fun _ _ _ => rfl⟩, fun _ _ => by simp [cheapPrims]⟩,
   fun k x hk hx => by simp only [cheapPrims]; rw [Proofs.Milenage.xorBytes_length]; omega,
   fun _ _ => by simp [cheapPrims]⟩

open Stgutg.Proofs.EmulatorWitness in
/-- **C02_accepted_witness.** The end-to-end statement on a concrete conversation, evaluated by the Lean kernel (no
    `native_decide`; primitives `cheapPrims`, which satisfy the hypotheses of all theorems above): IMSI 63382321230004 (MNC 823,
    3 digits), OP only, gNB id of 28 bits, AMF-UE-NGAP-ID 900013228284 (40 bits), one UE, all counts 1 — NG
    Setup, registration, PDU session establishment, service request, release, de-registration against the recorded downlink
    messages (the setup request assigns UE address, TEID and UPF address). The reference AMF/SMF accepts all fifteen uplink
    messages of the model — ids, one PSI in 1..15 everywhere, assigned PTI, prerequisite order, COUNT 0..6 each used once,
    MAC — finds the expected number of procedures completed and the reported triple equal to the assigned one. -/
theorem C02_accepted_witness :
    acceptedRun cheapPrims Model.NetExt.goExt life1Cfg life1Abba life1Choices life1Dls true = true := life1_accepted_run

end Stgutg.Props.C02
