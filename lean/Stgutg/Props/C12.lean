/-
  C12 — UE address, TEID and UPF address are extracted exactly from the setup request.
  Property theorems only; helper lemmas live in Stgutg/Proofs/Extract.lean.

  Model: Stgutg/Model/Extract.lean (DecodePDUSessionNASPDU, DecodePDUSessionResourceSetupRequestTransfer with Go slice
  semantics incl. hidden capacity, the IE selection of EstablishPDU). Specification: Stgutg/Spec/SetupRequest.lean
  (TS 24.501 encoders, X.691 ALIGNED PER of the TS 38.413 transfer).
-/
import Stgutg.Proofs.Extract

namespace Stgutg.Props.C12
open Stgutg Stgutg.Model.Extract Stgutg.Spec.SetupRequest

/-- **UE address.** For every PDU SESSION ESTABLISHMENT ACCEPT of table 8.3.2.1.1 — any PSI/PTI/SSC mode, QoS rules
    of any length, any session-AMBR, every optional IE present or absent in table order with any contents — that
    carries an IPv4 PDU address `ip`, inside a DL NAS TRANSPORT (any payload container type, any of its own optional
    IEs) behind any 7-octet security header, and whatever octets lie behind the slice in its backing array:
    the extraction returns exactly `ip`. It does so in both variants of the IEI walk and with any fuel ≥ 2.
    The only size hypothesis is that the accept is shorter than 65530 octets (the extractor's uint16 offsets). -/
theorem C12_ip (h : SecHeader) (pct : UInt8) (a : Accept) (psi2 : Option UInt8) (addInfo : Option Bytes)
    (cause5gmm backoff : Option UInt8) (ty : UInt8) (ip slack : Bytes) (stop : Bool) (fuel : Nat)
    (hmac : h.mac.length = 4) (hwf : a.WellFormed) (haddr : a.pduAddress = some (ty :: ip)) (hip : ip.length = 4)
    (hlen : a.encode.length < 65530) (hfuel : 2 ≤ fuel) :
    decodeNas stop fuel (Sl.ofBytes (nasPdu h pct a psi2 addInfo cause5gmm backoff) slack) = .ok ip :=
  Proofs.Extract.decodeNas_spec h pct a psi2 addInfo cause5gmm backoff ty ip slack stop fuel hmac hwf haddr hip hlen hfuel

/-- … in particular for the function as the driver runs it (fuel = capacity + 1) and the IPv4 contents of 9.11.4.10 -/
theorem C12_ip_pdu (h : SecHeader) (pct : UInt8) (a : Accept) (psi2 : Option UInt8) (addInfo : Option Bytes)
    (cause5gmm backoff : Option UInt8) (ip slack : Bytes)
    (hmac : h.mac.length = 4) (hwf : a.WellFormed) (haddr : a.pduAddress = some (pduAddressV4 ip)) (hip : ip.length = 4)
    (hlen : a.encode.length < 65530) :
    decodeNasPdu (Sl.ofBytes (nasPdu h pct a psi2 addInfo cause5gmm backoff) slack) = .ok ip := by
  unfold decodeNasPdu
  exact C12_ip h pct a psi2 addInfo cause5gmm backoff 0x01 ip slack _ _ hmac hwf haddr hip hlen
    (by simp [fuelFor, Sl.ofBytes, nasPdu, protect])

/-- the size hypothesis of `C12_ip` in terms of the fields: it holds whenever the variable-length fields together stay
    below 65 000 octets (QoS rules of 4 000 octets leave 61 000 for the optional IEs) -/
theorem C12_ip_size (a : Accept) (hambr : a.ambr.length = 6) (ip : Bytes) (hip : ip.length = 4) (ty : UInt8)
    (haddr : a.pduAddress = some (ty :: ip))
    (hsum : a.qosRules.length + (a.snssai.elim 0 List.length) + (a.mappedEps.elim 0 List.length)
      + (a.eap.elim 0 List.length) + (a.qosFlowDescr.elim 0 List.length) + (a.epco.elim 0 List.length)
      + (a.dnn.elim 0 List.length) ≤ 65000) :
    a.encode.length < 65530 := by
  rw [Proofs.Extract.accept_encode_length a hambr]
  have e1 : ∀ (i : UInt8) (o : Option Bytes), (opt (tlvE i) o).length ≤ 3 + o.elim 0 List.length := by
    intro i o; cases o <;> simp [opt, tlvE, Spec.SetupRequest.be16]; omega
  have e2 : ∀ (i : UInt8) (o : Option Bytes), (opt (tlv i) o).length ≤ 2 + o.elim 0 List.length := by
    intro i o; cases o <;> simp [opt, tlv]; omega
  have e3 : ∀ (i : UInt8) (o : Option UInt8), (opt (tv i) o).length ≤ 2 := by
    intro i o; cases o <;> simp [opt, tv]
  have e4 : (opt (fun b : UInt8 => [0x80 ||| (b &&& 1)]) a.alwaysOn).length ≤ 1 := by
    cases a.alwaysOn <;> simp [opt]
  have h1 := e3 0x59 a.cause
  have h2 := e3 0x56 a.rqTimer
  have h3 := e2 0x22 a.snssai
  have h4 := e1 0x75 a.mappedEps
  have h5 := e1 0x78 a.eap
  have h6 := e1 0x79 a.qosFlowDescr
  have h7 := e1 0x7B a.epco
  have h8 := e2 0x25 a.dnn
  have h9 : (opt (tlv 0x29) (some (ty :: ip))).length = 7 := by simp [opt, tlv, hip]
  simp only [Accept.optionalIEs, Accept.afterAddress, haddr, List.length_append]
  omega

/-- the hypotheses are satisfiable: QoS rules of 4 000 octets, every optional IE present -/
def exampleAccept : Accept :=
  { psi := 1, pti := 1, sscAndType := 0x11, qosRules := List.replicate 4000 0, ambr := [1, 0, 1, 1, 0, 1],
    cause := some 50, pduAddress := some (pduAddressV4 [10, 45, 0, 2]), rqTimer := some 0, snssai := some [1, 1, 2, 3],
    alwaysOn := some 1, mappedEps := some [0], eap := some [1, 2], qosFlowDescr := some [1, 2, 3],
    epco := some [0x80], dnn := some [8, 105, 110, 116, 101, 114, 110, 101, 116] }

theorem exampleAccept_ok : exampleAccept.WellFormed ∧ exampleAccept.qosRules.length = 4000 ∧
    exampleAccept.pduAddress = some (pduAddressV4 [10, 45, 0, 2]) ∧ exampleAccept.encode.length < 65530 ∧
    exampleAccept.cause.isSome ∧ exampleAccept.rqTimer.isSome ∧ exampleAccept.snssai.isSome ∧
    exampleAccept.alwaysOn.isSome ∧ exampleAccept.mappedEps.isSome ∧ exampleAccept.eap.isSome ∧
    exampleAccept.qosFlowDescr.isSome ∧ exampleAccept.epco.isSome ∧ exampleAccept.dnn.isSome := by
  have hq : exampleAccept.qosRules.length = 4000 := List.length_replicate ..
  have ho : exampleAccept.optionalIEs.length = 48 := by decide
  refine ⟨⟨by rw [hq]; omega, rfl⟩, hq, rfl, ?_, rfl, rfl, rfl, rfl, rfl, rfl, rfl, rfl, rfl⟩
  rw [Proofs.Extract.accept_encode_length _ rfl, hq, ho]
  omega

/-- `C12_ip_pdu` applied to it: the 4 000-octet accept behind a header, with two hidden octets of capacity -/
example : decodeNasPdu (Sl.ofBytes (nasPdu ⟨2, [0xaa, 0xbb, 0xcc, 0xdd], 7⟩ 1 exampleAccept (some 5)) [9, 9])
    = .ok [10, 45, 0, 2] :=
  C12_ip_pdu _ _ _ _ _ _ _ _ _ rfl exampleAccept_ok.1 exampleAccept_ok.2.2.1 rfl exampleAccept_ok.2.2.2.1

/-- **TEID and UPF address.** For every ProtocolIE-Container in X.691 ALIGNED PER whose tunnel IE (id 139, GTP tunnel with a
    32-bit transport layer address `tla` and TEID `teid`) is the first IE or the second one after the PDU session AMBR
    (id 130, any bit rates in 0 … 4·10¹²), followed by any further IEs whatsoever, and whatever lies behind the slice:
    the extraction returns (`teid` as a big-endian number, `tla`). -/
theorem C12_teid_upf_container (ambr : Option (Nat × Nat)) (tla teid slack : Bytes) (tail : List (Nat × Nat × Bytes))
    (fuel : Nat) (hambr : ∀ dl ul, ambr = some (dl, ul) → dl ≤ 4000000000000 ∧ ul ≤ 4000000000000)
    (hteid : teid.length = 4) (h4 : tla.length = 4) (hfuel : 2 ≤ fuel) :
    decodeTransfer fuel
      (Sl.ofBytes (encodeContainer (Proofs.Extract.ambrIes ambr ++ ((139, 0, upTnlValue tla teid) :: tail))) slack)
      = .ok (beNat teid, tla) :=
  Proofs.Extract.decodeTransfer_container ambr tla teid slack tail fuel hambr hteid h4 hfuel

/-- … in particular for every spec-built PDUSessionResourceSetupRequestTransfer (AMBR optional, PDU session type and
    QoS flow list optional) -/
theorem C12_teid_upf (t : Transfer) (slack : Bytes) (hwf : t.WellFormed) (h4 : t.tla.length = 4) :
    decodeTransferPdu (Sl.ofBytes t.encode slack) = .ok (beNat t.teid, t.tla) := by
  unfold decodeTransferPdu Transfer.encode
  rw [Proofs.Extract.transfer_ies_eq]
  have hne : 1 ≤ (Sl.ofBytes (encodeContainer (Proofs.Extract.ambrIes t.ambr ++
      ((139, 0, upTnlValue t.tla t.teid) :: t.tailIes))) slack).mem.length := by
    rw [Proofs.Extract.container_eq]; simp [Sl.ofBytes]
  exact C12_teid_upf_container t.ambr t.tla t.teid slack t.tailIes _ hwf.1 hwf.2.1 h4 (by simp only [fuelFor]; omega)

/-- the hypotheses are satisfiable: both bit rates at the top of the range, all four IEs -/
def exampleTransfer : Transfer :=
  { ambr := some (4000000000000, 4000000000000), tla := [10, 0, 0, 1], teid := [0, 0, 0, 5], pduType := some 0,
    qos := some [{ qfi := 9, fiveQI := 9, arp := 1, cap := 0, vul := 0 }] }

theorem exampleTransfer_ok : exampleTransfer.WellFormed ∧ exampleTransfer.tla.length = 4 :=
  ⟨⟨by intro dl ul h; cases h; exact ⟨Nat.le_refl _, Nat.le_refl _⟩, rfl, by decide, by decide,
    by intro p h; cases h; decide, by intro l h; cases h; simp⟩, rfl⟩

/-- `C12_teid_upf` applied to it, with three hidden octets of capacity -/
example : decodeTransferPdu (Sl.ofBytes exampleTransfer.encode [1, 2, 3]) = .ok (5, [10, 0, 0, 1]) :=
  C12_teid_upf exampleTransfer [1, 2, 3] exampleTransfer_ok.1 exampleTransfer_ok.2

/-- **Termination** (the code after the F9 repair): on any slice whatsoever — any contents, any length, any capacity —
    the NAS extraction does not use up fuel that exceeds the capacity, i.e. the Go loop returns. -/
theorem C12_terminates_nas (s : Sl) (fuel : Nat) (hf : s.mem.length < fuel) : decodeNas true fuel s ≠ .error .hang :=
  Proofs.Extract.decodeNas_ne_hang s fuel hf

theorem C12_terminates_nas_pdu (s : Sl) : decodeNasPdu s ≠ .error .hang :=
  C12_terminates_nas s _ (by simp [fuelFor])

/-- the model runs the repaired variant -/
theorem model_is_repaired : stopOnUnknownIei = true := rfl

/-- **Termination** of the transfer extraction on any slice: fuel above the length is never used up. -/
theorem C12_terminates_transfer (s : Sl) (fuel : Nat) (hf : s.len < fuel) : decodeTransfer fuel s ≠ .error .hang :=
  Proofs.Extract.decodeTransfer_ne_hang s fuel hf

/-- with a well-formed slice (len ≤ cap) the driver's fuel suffices -/
theorem C12_terminates_transfer_pdu (s : Sl) (h : s.len ≤ s.mem.length) : decodeTransferPdu s ≠ .error .hang :=
  C12_terminates_transfer s _ (by simp only [fuelFor]; omega)

/-- **F9** (the original code, `stop = false`): the corpus witness — IEI 0x7A, which has no entry in the length table,
    in front of the PDU address — exhausts every amount of fuel. -/
def f9Witness : Sl := Sl.ofBytes
  [0x7e, 0x02, 0, 0, 0, 0, 0, 0x7e, 0x00, 0x68, 0x01, 0x00, 0x16, 0x2e, 0x01, 0x01, 0xc2, 0x11, 0x00, 0x00,
   0x06, 1, 2, 3, 4, 5, 6, 0x7a, 0x29, 0x05, 0x01, 0x0a, 0x00, 0x00, 0x01] []

theorem F9_original_never_returns : ∀ fuel, decodeNas false fuel f9Witness = .error .hang := by
  intro fuel
  have h := Proofs.Extract.decodeNas_layout' false fuel [0x7e, 0x02, 0, 0, 0, 0, 0] [0x7e, 0x00, 0x68, 0x01]
    [0x2e, 0x01, 0x01, 0xc2, 0x11] [] [0x06, 1, 2, 3, 4, 5, 6] [0x7a, 0x29, 0x05, 0x01, 0x0a, 0x00, 0x00, 0x01] []
    0x00 0x16 0x00 0x00 35 rfl rfl rfl rfl (by decide) (by decide) (by decide) (by decide)
  have h' : decodeNas false fuel f9Witness = nasLoop false ⟨[0x7a, 0x29, 0x05, 0x01, 0x0a, 0x00, 0x00, 0x01], 8⟩ fuel 0 := h
  rw [h']
  exact Proofs.Extract.nasLoop_stuck _ 0x7a (by decide) (by simp [Sl.idx]) (by decide) (by decide) (by decide) fuel

/-- … and the repaired code returns on it (without an address: the IE in front is unknown to this release's table) -/
theorem F9_repaired_returns : decodeNasPdu f9Witness = .ok [] := by
  have h := Proofs.Extract.decodeNas_layout' true 36 [0x7e, 0x02, 0, 0, 0, 0, 0] [0x7e, 0x00, 0x68, 0x01]
    [0x2e, 0x01, 0x01, 0xc2, 0x11] [] [0x06, 1, 2, 3, 4, 5, 6] [0x7a, 0x29, 0x05, 0x01, 0x0a, 0x00, 0x00, 0x01] []
    0x00 0x16 0x00 0x00 35 rfl rfl rfl rfl (by decide) (by decide) (by decide) (by decide)
  have h' : decodeNasPdu f9Witness = nasLoop true ⟨[0x7a, 0x29, 0x05, 0x01, 0x0a, 0x00, 0x00, 0x01], 8⟩ 36 0 := h
  rw [h']
  exact Proofs.Extract.nasLoop_stops _ 0x7a (by decide) (by simp [Sl.idx]) (by decide) (by decide) (by decide) 35

/-- **Setup list selection in EstablishPDU** (the code after the F16 repair): in every PDU SESSION RESOURCE SETUP REQUEST
    of TS 38.413 9.2.1.1, with or without RAN Paging Priority and NAS-PDU, the IE selected is the setup list. -/
theorem C12_setup_list_selected (rpp nas : Bool) :
    ∃ i, selectSetupList (setupRequestIds rpp nas) = .ok i ∧ (setupRequestIds rpp nas)[i]? = some 74 := by
  cases rpp <;> cases nas <;> exact ⟨_, rfl, rfl⟩

/-- **F16** (the original code): `ProtocolIEs.List[2]` is the setup list only when both optional IEs are absent -/
theorem F16_positional_selection (rpp nas : Bool) :
    selectPositional (setupRequestIds rpp nas) = if rpp || nas then .error .panic else .ok 2 := by
  cases rpp <;> cases nas <;> rfl

/-- the table entries the walk relies on for the only IE that can precede the PDU address (generated from pdu.go) -/
theorem table_cause : lookupLen 0x59 = 2 ∧ isHalfByte 0x59 = false := by decide

end Stgutg.Props.C12
