def hello := "world"
