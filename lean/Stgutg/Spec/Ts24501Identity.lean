/-
  Identities of TS 24.501 (v15) written from the specification, not from the code:

  * 9.11.3.4  5GS mobile identity, type of identity "SUCI", SUPI format "IMSI"
              (figure 9.11.3.4.3, table 9.11.3.4.1), null protection scheme;
  * the 3-octet PLMN identity (MCC/MNC digits of octets 5..7 of that figure; the same layout is
    TS 24.008 10.5.1.3 and the layout used by every NAS IE that carries a PLMN);
  * TS 38.413 9.3.3.5 PLMN Identity read literally (digit 2n-1 in bits 4..1, digit 2n in bits 8..5 of
    octet n; "3 digits from MCC followed by either a filler digit plus 2 digits from MNC or 3 digits
    from MNC") — kept as a separate definition because it coincides with the NAS layout only for a
    2-digit MNC (see Props/C11);
  * 9.11.3.54 UE security capability, octets 3 and 4.

  A decimal digit is a `Nat` below 10; 15 (binary 1111) is the filler.
-/
import Stgutg.Base.Hex

namespace Stgutg.Spec.Identity
open Stgutg

def isDigit (d : Nat) : Bool := d < 10
def allDigits (l : List Nat) : Bool := l.all isDigit

/-- bits 4..1 and bits 8..5 of an octet -/
def lo (o : UInt8) : Nat := o.toNat % 16
def hi (o : UInt8) : Nat := o.toNat / 16
/-- an octet from its two half octets (both below 16) -/
def octet (high low : Nat) : UInt8 := UInt8.ofNat (high * 16 + low)

/-! ### PLMN identity, NAS layout (TS 24.501 figure 9.11.3.4.3 octets 5..7, TS 24.008 10.5.1.3)

      octet 1 :  MCC digit 2 | MCC digit 1
      octet 2 :  MNC digit 3 | MCC digit 3        (MNC digit 3 = 1111 for a 2-digit MNC)
      octet 3 :  MNC digit 2 | MNC digit 1                                                   -/

def plmn3 (mcc mnc : List Nat) : Option Bytes :=
  match mcc, mnc with
  | [c1, c2, c3], [n1, n2] =>
    if allDigits mcc && allDigits mnc then some [octet c2 c1, octet 15 c3, octet n2 n1] else none
  | [c1, c2, c3], [n1, n2, n3] =>
    if allDigits mcc && allDigits mnc then some [octet c2 c1, octet n3 c3, octet n2 n1] else none
  | _, _ => none

/-- the independent reader of the three octets: `(mcc, mnc)` -/
def plmn3Decode (b : Bytes) : Option (List Nat × List Nat) :=
  match b with
  | [o1, o2, o3] =>
    let mcc := [lo o1, hi o1, lo o2]
    let mnc := if hi o2 = 15 then [lo o3, hi o3] else [lo o3, hi o3, hi o2]
    if allDigits mcc && allDigits mnc then some (mcc, mnc) else none
  | _ => none

/-! ### PLMN Identity of TS 38.413 9.3.3.5 read literally: the six digits
    `MCC1 MCC2 MCC3 (F MNC1 MNC2 | MNC1 MNC2 MNC3)`, digit 2n-1 in bits 4..1 of octet n. -/
def plmn3Ngap38413Literal (mcc mnc : List Nat) : Option Bytes :=
  let six := match mnc with
    | [n1, n2] => some (mcc ++ [15, n1, n2])
    | [_, _, _] => some (mcc ++ mnc)
    | _ => none
  match six with
  | some [d1, d2, d3, d4, d5, d6] =>
    if allDigits mcc && allDigits mnc then some [octet d2 d1, octet d4 d3, octet d6 d5] else none
  | _ => none

/-! ### SUCI, SUPI format IMSI (figure 9.11.3.4.3; value part of the IE, i.e. from octet 4 on)

      octet 4  : 0 | SUPI format (3 bits) | 0 | type of identity (3 bits)     format IMSI = 0, SUCI = 1
      octet 5-7: MCC / MNC as above
      octet 8  : routing indicator digit 2 | digit 1
      octet 9  : routing indicator digit 4 | digit 3           (1..4 digits, unused = 1111)
      octet 10 : 0 0 0 0 | protection scheme id                 (null scheme = 0)
      octet 11 : home network public key identifier             (0 with the null scheme)
      octet 12…: scheme output; for the null scheme the MSIN, BCD, digit 2k-1 in bits 4..1, digit 2k in
                 bits 8..5, bits 8..5 of the last octet 1111 when the number of digits is odd.      -/

structure Suci where
  mcc : List Nat
  mnc : List Nat
  routing : List Nat
  scheme : Nat
  hnKey : Nat
  msin : List Nat
  deriving DecidableEq, Repr

/-- BCD digits, low half octet first; a filler is allowed only as the very last half octet. -/
def bcdDecode : Bytes → Option (List Nat)
  | [] => some []
  | [o] =>
    if lo o < 10 then
      if hi o = 15 then some [lo o] else if hi o < 10 then some [lo o, hi o] else none
    else none
  | o :: rest =>
    if lo o < 10 && hi o < 10 then (bcdDecode rest).map (fun t => lo o :: hi o :: t) else none

def bcdEncode : List Nat → Bytes
  | [] => []
  | [d] => [octet 15 d]
  | d1 :: d2 :: rest => octet d2 d1 :: bcdEncode rest

/-- routing indicator: 1 to 4 digits, then fillers only -/
def routingDecode (o8 o9 : UInt8) : Option (List Nat) :=
  let hs := [lo o8, hi o8, lo o9, hi o9]
  let ds := hs.takeWhile (· < 10)
  if ds.length ≥ 1 && (hs.drop ds.length).all (· = 15) then some ds else none

def routingEncode (r : List Nat) : Option (UInt8 × UInt8) :=
  match r with
  | [a] => some (octet 15 a, octet 15 15)
  | [a, b] => some (octet b a, octet 15 15)
  | [a, b, c] => some (octet b a, octet 15 c)
  | [a, b, c, d] => some (octet b a, octet d c)
  | _ => none

/-- The independent decoder (null scheme only: any other scheme output is not an MSIN). -/
def decodeSuci (b : Bytes) : Option Suci :=
  match b with
  | o4 :: o5 :: o6 :: o7 :: o8 :: o9 :: o10 :: o11 :: out =>
    if o4 ≠ 0x01 then none            -- spare bits 0, SUPI format IMSI (000), type of identity SUCI (001)
    else match plmn3Decode [o5, o6, o7], routingDecode o8 o9, bcdDecode out with
      | some (mcc, mnc), some routing, some msin =>
        if hi o10 = 0 && lo o10 = 0 && !msin.isEmpty then
          some { mcc := mcc, mnc := mnc, routing := routing, scheme := lo o10, hnKey := o11.toNat, msin := msin }
        else none
      | _, _, _ => none
  | _ => none

/-- The encoder of the same figure (null scheme). -/
def encodeSuci (s : Suci) : Option Bytes :=
  match plmn3 s.mcc s.mnc, routingEncode s.routing with
  | some p, some (r1, r2) =>
    if s.scheme = 0 && s.hnKey < 256 && allDigits s.routing && allDigits s.msin && !s.msin.isEmpty then
      some ([0x01] ++ p ++ [r1, r2, octet 0 s.scheme, UInt8.ofNat s.hnKey] ++ bcdEncode s.msin)
    else none
  | _, _ => none

/-- What the emulator is to send for an IMSI: routing indicator 0, null scheme, key identifier 0. -/
def nullSchemeSuci (mcc mnc msin : List Nat) : Suci :=
  { mcc := mcc, mnc := mnc, routing := [0], scheme := 0, hnKey := 0, msin := msin }

/-! ### UE security capability (9.11.3.54): octet 3 bit 8 = 5G-EA0, bit 7 = 128-5G-EA1, …, bit 1 = 5G-EA7;
    octet 4 bit 8 = 5G-IA0, bit 7 = 128-5G-IA1, …, bit 1 = 5G-IA7. `cap` is the value part (octet 3 on). -/

def bitOf (o : UInt8) (bitNo : Nat) : Bool := o.toNat / 2 ^ (bitNo - 1) % 2 = 1

def eaSupported (cap : Bytes) (k : Nat) : Bool :=
  match cap with
  | o3 :: _ => k < 8 && bitOf o3 (8 - k)
  | _ => false

def iaSupported (cap : Bytes) (k : Nat) : Bool :=
  match cap with
  | _ :: o4 :: _ => k < 8 && bitOf o4 (8 - k)
  | _ => false

end Stgutg.Spec.Identity
