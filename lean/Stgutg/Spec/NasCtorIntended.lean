/-
  What the 14 emulator-path NAS constructors are meant to put on the wire, written from TS 24.501
  (clauses 8.2/8.3 tables, 9.11 IE codings, 7.3.1 PTI handling; TS 23.003 9.1 for the DNN) as abstract
  messages (`SMsg`) over the arguments — independent of the Go code and of its model.  Core Lean only.
-/
import Stgutg.Spec.Ts24501
namespace Stgutg.Spec.Ts24501.Intended
open Stgutg Stgutg.Spec.Ts24501

def u8 (n : Nat) : UInt8 := UInt8.ofNat n

/-- 9.11.3.32 NAS key set identifier as a half octet: TSC (bit 4), key set identifier (bits 3..1) -/
def ngKSI (tsc ksi : Nat) : Nat := tsc % 2 * 8 + ksi % 8

/-- 9.11.3.7 5GS registration type as a half octet: FOR (bit 4), registration type value (bits 3..1) -/
def regType (for_ t : Nat) : Nat := for_ % 2 * 8 + t % 8

/-- 9.11.3.20 De-registration type: switch off (bit 4), re-registration required (bit 3), access type (bits 2..1) -/
def deregType (switchOff rereg access : Nat) : Nat := switchOff % 2 * 8 + rereg % 2 * 4 + access % 4

/-- two half-octet rows of a table share an octet: the first row is bits 4..1, the second bits 8..5 -/
def halves (first second : Nat) : Bytes := [u8 (second % 16 * 16 + first % 16)]

/-- TS 23.003 9.1: a DNN is a sequence of labels, each preceded by its length -/
def dnnLabels (s : Bytes) : Bytes :=
  let rec go (cur : Bytes) : Bytes → Bytes
    | [] => u8 cur.length :: cur
    | c :: rest => if c = 0x2E then u8 cur.length :: (cur ++ go [] rest) else go (cur ++ [c]) rest
  go [] s

/-- 7.3.1: a UE-requested 5GSM procedure uses an assigned PTI (1..254); the constructors do not take it as an
    argument, so any assigned value is accepted: the one found on the wire if it is assigned, else 1 -/
def assignedPti (found : Nat) : Nat := if 1 ≤ found ∧ found ≤ 254 then found else 1

/-- an optional IE argument handed through as a struct: (IEI, value) -/
abbrev IE := Nat × Bytes

def present (o : Option Bytes) (iei : Nat) : List IE :=
  match o with
  | some v => [(iei, v)]
  | none => []

/-- 8.2.6 REGISTRATION REQUEST: FOR = 1 ("follow-on request pending"), ngKSI = native / "no key is available" -/
def registrationRequest (regT : Nat) (mobileIdentity : Bytes) (requestedNSSAI ueSecCap cap5GMM nasContainer uplinkDataStatus : Option Bytes) : SMsg :=
  { mand := [[0x7E], [0x00], [0x41], halves (regType 1 regT) (ngKSI 0 7), mobileIdentity],
    opt := present cap5GMM 0x10 ++ present ueSecCap 0x2E ++ present requestedNSSAI 0x2F ++
           present uplinkDataStatus 0x40 ++ present nasContainer 0x71 }

/-- the PCO the emulator asks for (IP address allocation via NAS signalling, DNS server IPv4 / IPv6 address request);
    its marshalling is C17's subject, here it is a given octet string -/
def pco : Bytes := [0x80, 0x00, 0x0a, 0x00, 0x00, 0x0d, 0x00, 0x00, 0x03, 0x00]

/-- 8.3.1 PDU SESSION ESTABLISHMENT REQUEST: full data rate in both directions, PDU session type IPv4 -/
def pduSessionEstablishmentRequest (psi pti : Nat) : SMsg :=
  { mand := [[0x2E], [u8 psi], [u8 (assignedPti pti)], [0xC1], [0xFF, 0xFF]],
    opt := [(0x9, [1]), (0x7B, pco)] }

def gsmHeaderOnly (msgType : UInt8) (psi pti : Nat) : SMsg :=
  { mand := [[0x2E], [u8 psi], [u8 (assignedPti pti)], [msgType]], opt := [] }

/-- 8.3.7 / 8.3.12 / 8.3.15 without optional IEs -/
def pduSessionModificationRequest := gsmHeaderOnly 0xC9
def pduSessionReleaseRequest := gsmHeaderOnly 0xD1
def pduSessionReleaseComplete := gsmHeaderOnly 0xD4

/-- 8.2.10 UL NAS TRANSPORT carrying an N1 SM information container -/
def ulNasTransport (payload : Bytes) (psi : Nat) (requestType : Option Nat) (dnn : Bytes) (snssai : Option (Nat × Bytes)) : SMsg :=
  { mand := [[0x7E], [0x00], [0x67], halves 1 0, payload],
    opt := [(0x12, [u8 psi])] ++
           (match requestType with | some rt => [(0x8, [u8 (rt % 8)])] | none => []) ++
           (match snssai with | some (sst, sd) => [(0x22, u8 sst :: sd)] | none => []) ++
           (if dnn.isEmpty then [] else [(0x25, dnnLabels dnn)]) }

/-- 9.11.3.4 5G-S-TMSI: octet 1 = 1111 0 100 (type of identity "5G-S-TMSI"), AMF set ID (10 bits), AMF pointer
    (6 bits), 5G-TMSI (4 octets) -/
def sTmsi (amfSetId amfPointer : Nat) (tmsi : Bytes) : Bytes :=
  [0xF4, u8 (amfSetId / 4), u8 (amfSetId % 4 * 64 + amfPointer % 64)] ++ tmsi

/-- 8.2.16 SERVICE REQUEST as the emulator sends it: ngKSI native/1, a made-up 5G-S-TMSI (AMF set 0x3F8, pointer 0,
    TMSI 00000001); data → uplink data status, mobile terminated → allowed PDU session status -/
def serviceRequest (serviceType : Nat) : SMsg :=
  { mand := [[0x7E], [0x00], [0x4C], halves (ngKSI 0 1) serviceType, sTmsi 0x3F8 0 [0, 0, 0, 1]],
    opt := if serviceType = 1 then [(0x40, [0x00, 0x04])] else if serviceType = 2 then [(0x25, [0x00, 0x08])] else [] }

/-- 8.2.2 AUTHENTICATION RESPONSE -/
def authenticationResponse (res : Option Bytes) (eap : Option Bytes) : SMsg :=
  { mand := [[0x7E], [0x00], [0x57]], opt := present res 0x2D ++ present eap 0x78 }

/-- 8.2.8 REGISTRATION COMPLETE -/
def registrationComplete (sor : Option Bytes) : SMsg :=
  { mand := [[0x7E], [0x00], [0x43]], opt := present sor 0x73 }

/-- 8.2.26 SECURITY MODE COMPLETE with the emulator's IMEISV (type of identity IMEISV, even number of digits,
    digits 1,1,1 then zeros) -/
def securityModeComplete (nasContainer : Option Bytes) : SMsg :=
  { mand := [[0x7E], [0x00], [0x5E]],
    opt := [(0x77, [0x15, 0x11, 0, 0, 0, 0, 0, 0, 0])] ++ present nasContainer 0x71 }

/-- 8.2.12 DEREGISTRATION REQUEST (UE originating): native security context, key set identifier as given -/
def deregistrationRequest (accessType switchOff ksi : Nat) (mobileIdentity : Bytes) : SMsg :=
  { mand := [[0x7E], [0x00], [0x45], halves (deregType switchOff 0 accessType) (ngKSI 0 ksi), mobileIdentity], opt := [] }

end Stgutg.Spec.Ts24501.Intended
