/-
  3GPP TS 35.206 (MILENAGE algorithm set), written from the specification text (clause 4.1), plus the
  AUTN / AUTS token formats and the USIM acceptance rule of TS 33.102 clauses 6.3.2, 6.3.3, 6.3.5.

  128-bit values are 16-octet strings; bit 0 is the most significant bit of octet 0 (clause 2.3).
  The kernel block cipher is a parameter `E key block` (clause 5.1 recommends Rijndael).
-/
import Stgutg.Base.Hex

namespace Stgutg.Spec.Ts35206

/-- the eight bits of an octet, most significant first -/
def byteBits (b : UInt8) : List Bool := (List.range 8).map fun i => b.toNat.testBit (7 - i)

/-- x[0] ‖ x[1] ‖ … : the bit string of an octet string -/
def bits (x : Bytes) : List Bool := x.flatMap byteBits

def bitsToByte (l : List Bool) : UInt8 := UInt8.ofNat (l.foldl (fun a b => 2 * a + b.toNat) 0)

/-- octet string of a bit string whose length is a multiple of 8 -/
def unbits : List Bool → Bytes
  | b0 :: b1 :: b2 :: b3 :: b4 :: b5 :: b6 :: b7 :: rest => bitsToByte [b0, b1, b2, b3, b4, b5, b6, b7] :: unbits rest
  | _ => []

/-- clause 2.3 / 4.1: `rot(x, r)` = x[r] ‖ x[r+1] ‖ … ‖ x[127] ‖ x[0] ‖ … ‖ x[r-1]
    (cyclic rotation by r bit positions towards the most significant bit). -/
def rot (x : Bytes) (r : Nat) : Bytes := unbits ((bits x).drop r ++ (bits x).take r)

/-- the 128-bit constant whose only non-zero bit is bit `i` -/
def oneBit (i : Nat) : Bytes := unbits ((List.range 128).map (· == i))

/-! clause 4.1: the constants -/
def r1 : Nat := 64
def r2 : Nat := 0
def r3 : Nat := 32
def r4 : Nat := 64
def r5 : Nat := 96
def c1 : Bytes := List.replicate 16 0
def c2 : Bytes := oneBit 127
def c3 : Bytes := oneBit 126
def c4 : Bytes := oneBit 125
def c5 : Bytes := oneBit 124

abbrev Cipher := Bytes → Bytes → Bytes

/-- the kernel `E` is a block cipher on 128-bit blocks under 128-bit keys (clause 5.1) -/
def BlockCipher (E : Cipher) : Prop := ∀ k x : Bytes, k.length = 16 → x.length = 16 → (E k x).length = 16

scoped infixl:65 " ⊻ " => xorBytes

/-- OP_C = OP ⊻ E[OP]_K -/
def opc (E : Cipher) (k op : Bytes) : Bytes := op ⊻ E k op

/-- TEMP = E[RAND ⊻ OP_C]_K -/
def temp (E : Cipher) (k opc rand : Bytes) : Bytes := E k (rand ⊻ opc)

/-- IN1 = SQN ‖ AMF ‖ SQN ‖ AMF -/
def in1 (sqn amf : Bytes) : Bytes := sqn ++ amf ++ sqn ++ amf

/-- OUT1 = E[TEMP ⊻ rot(IN1 ⊻ OP_C, r1) ⊻ c1]_K ⊻ OP_C -/
def out1 (E : Cipher) (k opc rand sqn amf : Bytes) : Bytes :=
  E k (temp E k opc rand ⊻ rot (in1 sqn amf ⊻ opc) r1 ⊻ c1) ⊻ opc

/-- OUTi = E[rot(TEMP ⊻ OP_C, ri) ⊻ ci]_K ⊻ OP_C  for i = 2..5 -/
def outN (E : Cipher) (k opc rand : Bytes) (r : Nat) (c : Bytes) : Bytes :=
  E k (rot (temp E k opc rand ⊻ opc) r ⊻ c) ⊻ opc

def out2 (E : Cipher) (k opc rand : Bytes) : Bytes := outN E k opc rand r2 c2
def out3 (E : Cipher) (k opc rand : Bytes) : Bytes := outN E k opc rand r3 c3
def out4 (E : Cipher) (k opc rand : Bytes) : Bytes := outN E k opc rand r4 c4
def out5 (E : Cipher) (k opc rand : Bytes) : Bytes := outN E k opc rand r5 c5

/-- f1 = MAC-A = OUT1[0] … OUT1[63] -/
def f1 (E : Cipher) (k opc rand sqn amf : Bytes) : Bytes := (out1 E k opc rand sqn amf).take 8
/-- f1* = MAC-S = OUT1[64] … OUT1[127] -/
def f1star (E : Cipher) (k opc rand sqn amf : Bytes) : Bytes := (out1 E k opc rand sqn amf).drop 8
/-- f2 = RES = OUT2[64] … OUT2[127] -/
def f2 (E : Cipher) (k opc rand : Bytes) : Bytes := (out2 E k opc rand).drop 8
/-- f3 = CK = OUT3 -/
def f3 (E : Cipher) (k opc rand : Bytes) : Bytes := out3 E k opc rand
/-- f4 = IK = OUT4 -/
def f4 (E : Cipher) (k opc rand : Bytes) : Bytes := out4 E k opc rand
/-- f5 = AK = OUT2[0] … OUT2[47] -/
def f5 (E : Cipher) (k opc rand : Bytes) : Bytes := (out2 E k opc rand).take 6
/-- f5* = AK (resynchronisation) = OUT5[0] … OUT5[47] -/
def f5star (E : Cipher) (k opc rand : Bytes) : Bytes := (out5 E k opc rand).take 6

/-! TS 33.102 -/

/-- 6.3.2: AUTN = SQN ⊻ AK ‖ AMF ‖ MAC-A -/
def autn (E : Cipher) (k opc rand sqn amf : Bytes) : Bytes :=
  (sqn ⊻ f5 E k opc rand) ++ amf ++ f1 E k opc rand sqn amf

/-- 6.3.3: AUTS = SQN_MS ⊻ AK* ‖ MAC-S with MAC-S = f1*(SQN_MS ‖ RAND ‖ AMF = 0x0000) -/
def auts (E : Cipher) (k opc rand sqnMS : Bytes) : Bytes :=
  (sqnMS ⊻ f5star E k opc rand) ++ f1star E k opc rand sqnMS [0, 0]

/-- the SQN concealed in an AUTN: (SQN ⊻ AK) ⊻ AK -/
def autnSqn (E : Cipher) (k opc rand autn : Bytes) : Bytes := autn.take 6 ⊻ f5 E k opc rand

/-- 6.3.3: XMAC = f1(SQN ‖ RAND ‖ AMF) equals the MAC included in AUTN -/
def macOk (E : Cipher) (k opc rand autn : Bytes) : Prop :=
  autn.drop 8 = f1 E k opc rand (autnSqn E k opc rand autn) ((autn.drop 6).take 2)

/-- the received SQN is fresh: greater than the SQN stored in the USIM, as 48-bit unsigned integers -/
def sqnFresh (E : Cipher) (k opc rand autn sqnMS : Bytes) : Prop :=
  beNat (autnSqn E k opc rand autn) > beNat sqnMS

instance (E : Cipher) (k opc rand autn : Bytes) : Decidable (macOk E k opc rand autn) := by
  unfold macOk; exact inferInstance
instance (E : Cipher) (k opc rand autn sqnMS : Bytes) : Decidable (sqnFresh E k opc rand autn sqnMS) := by
  unfold sqnFresh; exact inferInstance

/-- 6.3.5 (HE/AuC side): the AUTS is accepted iff MAC-S verifies for the SQN_MS it conceals -/
def autsSqn (E : Cipher) (k opc rand auts : Bytes) : Bytes := auts.take 6 ⊻ f5star E k opc rand

def autsOk (E : Cipher) (k opc rand auts : Bytes) : Prop :=
  auts.drop 6 = f1star E k opc rand (autsSqn E k opc rand auts) [0, 0]

instance (E : Cipher) (k opc rand auts : Bytes) : Decidable (autsOk E k opc rand auts) := by
  unfold autsOk; exact inferInstance

end Stgutg.Spec.Ts35206
