/-
  3GPP TS 38.413 (NGAP, Release 15) — the tables C13 needs, transcribed from the standard, not from the code:

    * clause 9.4.7 (Constants): procedure codes and protocol IE ids
    * clause 9.4.3 (Elementary procedure definitions): which message is the initiating message / successful outcome /
      unsuccessful outcome of which procedure
    * clause 9.2 (message functional definition and content) with 9.4.4 (PDU definitions): for the messages the
      emulator sends, every IE with presence M together with its assigned criticality
    * clause 9.3.3: the value ranges of the identifiers the builders take

  Core Lean only; nothing here looks at the Go code.
-/
namespace Stgutg.Spec.Ts38413

/-- the messages that have a builder in src/tglib/ngapTestpacket/build.go -/
inductive Msg where
  | NGSetupRequest | NGSetupResponse | NGReset | NGResetAcknowledge | InitialUEMessage | ErrorIndication
  | UEContextReleaseRequest | UEContextReleaseComplete | UEContextModificationResponse | UEContextModificationFailure
  | UplinkNASTransport | InitialContextSetupResponse | InitialContextSetupFailure | PathSwitchRequest
  | HandoverRequestAcknowledge | HandoverFailure | HandoverRequired | HandoverNotify | HandoverCancel
  | PDUSessionResourceReleaseResponse | PDUSessionResourceReleaseCommand | PDUSessionResourceSetupResponse
  | PDUSessionResourceModifyResponse | PDUSessionResourceModifyIndication | PDUSessionResourceModifyConfirm
  | PDUSessionResourceNotify | AMFConfigurationUpdate | AMFConfigurationUpdateAcknowledge | AMFConfigurationUpdateFailure
  | RANConfigurationUpdate | RANConfigurationUpdateAcknowledge | RANConfigurationUpdateFailure
  | UERadioCapabilityCheckRequest | UERadioCapabilityCheckResponse | UERadioCapabilityInfoIndication
  | LocationReportingFailureIndication | LocationReport | RRCInactiveTransitionReport | UplinkRANStatusTransfer
  | NASNonDeliveryIndication | UplinkRANConfigurationTransfer | UplinkUEAssociatedNRPPaTransport
  | UplinkNonUEAssociatedNRPPaTransport | CellTrafficTrace | OverloadStart | OverloadStop
  deriving DecidableEq, Repr, Inhabited

/-- message class = which alternative of NGAP-PDU carries the message -/
inductive Class where
  | initiating | successful | unsuccessful
  deriving DecidableEq, Repr, Inhabited

/-- the index the class has on the wire (NGAP-PDU is a CHOICE of three alternatives and an extension marker) -/
def Class.index : Class → Nat
  | .initiating => 0
  | .successful => 1
  | .unsuccessful => 2

/-! ### procedure codes, clause 9.4.7 -/
def idAMFConfigurationUpdate : Nat := 0
def idCellTrafficTrace : Nat := 2
def idErrorIndication : Nat := 9
def idHandoverCancel : Nat := 10
def idHandoverNotification : Nat := 11
def idHandoverPreparation : Nat := 12
def idHandoverResourceAllocation : Nat := 13
def idInitialContextSetup : Nat := 14
def idInitialUEMessage : Nat := 15
def idLocationReportingFailureIndication : Nat := 17
def idLocationReport : Nat := 18
def idNASNonDeliveryIndication : Nat := 19
def idNGReset : Nat := 20
def idNGSetup : Nat := 21
def idOverloadStart : Nat := 22
def idOverloadStop : Nat := 23
def idPathSwitchRequest : Nat := 25
def idPDUSessionResourceModify : Nat := 26
def idPDUSessionResourceModifyIndication : Nat := 27
def idPDUSessionResourceRelease : Nat := 28
def idPDUSessionResourceSetup : Nat := 29
def idPDUSessionResourceNotify : Nat := 30
def idRANConfigurationUpdate : Nat := 35
def idRRCInactiveTransitionReport : Nat := 37
def idUEContextModification : Nat := 40
def idUEContextRelease : Nat := 41
def idUEContextReleaseRequest : Nat := 42
def idUERadioCapabilityCheck : Nat := 43
def idUERadioCapabilityInfoIndication : Nat := 44
def idUplinkNASTransport : Nat := 46
def idUplinkNonUEAssociatedNRPPaTransport : Nat := 47
def idUplinkRANConfigurationTransfer : Nat := 48
def idUplinkRANStatusTransfer : Nat := 49
def idUplinkUEAssociatedNRPPaTransport : Nat := 50

/-- clause 9.4.3: the elementary procedure a message belongs to, and its role in it -/
def row : Msg → Nat × Class
  -- class 1 procedures (initiating message, successful outcome, unsuccessful outcome)
  | .AMFConfigurationUpdate => (idAMFConfigurationUpdate, .initiating)
  | .AMFConfigurationUpdateAcknowledge => (idAMFConfigurationUpdate, .successful)
  | .AMFConfigurationUpdateFailure => (idAMFConfigurationUpdate, .unsuccessful)
  | .HandoverCancel => (idHandoverCancel, .initiating)
  | .HandoverRequired => (idHandoverPreparation, .initiating)
  | .HandoverRequestAcknowledge => (idHandoverResourceAllocation, .successful)
  | .HandoverFailure => (idHandoverResourceAllocation, .unsuccessful)
  | .InitialContextSetupResponse => (idInitialContextSetup, .successful)
  | .InitialContextSetupFailure => (idInitialContextSetup, .unsuccessful)
  | .NGReset => (idNGReset, .initiating)
  | .NGResetAcknowledge => (idNGReset, .successful)
  | .NGSetupRequest => (idNGSetup, .initiating)
  | .NGSetupResponse => (idNGSetup, .successful)
  | .PathSwitchRequest => (idPathSwitchRequest, .initiating)
  | .PDUSessionResourceModifyResponse => (idPDUSessionResourceModify, .successful)
  | .PDUSessionResourceModifyIndication => (idPDUSessionResourceModifyIndication, .initiating)
  | .PDUSessionResourceModifyConfirm => (idPDUSessionResourceModifyIndication, .successful)
  | .PDUSessionResourceReleaseCommand => (idPDUSessionResourceRelease, .initiating)
  | .PDUSessionResourceReleaseResponse => (idPDUSessionResourceRelease, .successful)
  | .PDUSessionResourceSetupResponse => (idPDUSessionResourceSetup, .successful)
  | .RANConfigurationUpdate => (idRANConfigurationUpdate, .initiating)
  | .RANConfigurationUpdateAcknowledge => (idRANConfigurationUpdate, .successful)
  | .RANConfigurationUpdateFailure => (idRANConfigurationUpdate, .unsuccessful)
  | .UEContextModificationResponse => (idUEContextModification, .successful)
  | .UEContextModificationFailure => (idUEContextModification, .unsuccessful)
  | .UEContextReleaseComplete => (idUEContextRelease, .successful)
  | .UERadioCapabilityCheckRequest => (idUERadioCapabilityCheck, .initiating)
  | .UERadioCapabilityCheckResponse => (idUERadioCapabilityCheck, .successful)
  -- class 2 procedures (initiating message only)
  | .CellTrafficTrace => (idCellTrafficTrace, .initiating)
  | .ErrorIndication => (idErrorIndication, .initiating)
  | .HandoverNotify => (idHandoverNotification, .initiating)
  | .InitialUEMessage => (idInitialUEMessage, .initiating)
  | .LocationReport => (idLocationReport, .initiating)
  | .LocationReportingFailureIndication => (idLocationReportingFailureIndication, .initiating)
  | .NASNonDeliveryIndication => (idNASNonDeliveryIndication, .initiating)
  | .OverloadStart => (idOverloadStart, .initiating)
  | .OverloadStop => (idOverloadStop, .initiating)
  | .PDUSessionResourceNotify => (idPDUSessionResourceNotify, .initiating)
  | .RRCInactiveTransitionReport => (idRRCInactiveTransitionReport, .initiating)
  | .UEContextReleaseRequest => (idUEContextReleaseRequest, .initiating)
  | .UERadioCapabilityInfoIndication => (idUERadioCapabilityInfoIndication, .initiating)
  | .UplinkNASTransport => (idUplinkNASTransport, .initiating)
  | .UplinkNonUEAssociatedNRPPaTransport => (idUplinkNonUEAssociatedNRPPaTransport, .initiating)
  | .UplinkRANConfigurationTransfer => (idUplinkRANConfigurationTransfer, .initiating)
  | .UplinkRANStatusTransfer => (idUplinkRANStatusTransfer, .initiating)
  | .UplinkUEAssociatedNRPPaTransport => (idUplinkUEAssociatedNRPPaTransport, .initiating)

def procCode (m : Msg) : Nat := (row m).1
def msgClass (m : Msg) : Class := (row m).2

/-! ### criticality (clause 9.3.1.x / ASN.1 `Criticality ::= ENUMERATED { reject, ignore, notify }`) -/
def reject : Nat := 0
def ignore : Nat := 1
def notify : Nat := 2

/-! ### protocol IE ids, clause 9.4.7 (those that are mandatory in some message below, and the identifiers C13 follows) -/
def ieAMFUENGAPID : Nat := 10
def ieCause : Nat := 15
def ieDefaultPagingDRX : Nat := 21
def ieGlobalRANNodeID : Nat := 27
def ieHandoverType : Nat := 29
def ieNASPDU : Nat := 38
def iePDUSessionResourceAdmittedList : Nat := 53
def iePDUSessionResourceListHORqd : Nat := 61
def iePDUSessionResourceReleasedListRelRes : Nat := 70
def iePDUSessionResourceToBeSwitchedDLList : Nat := 76
def ieRANNodeName : Nat := 82
def ieRANUENGAPID : Nat := 85
def ieRRCEstablishmentCause : Nat := 90
def ieSourceAMFUENGAPID : Nat := 100
def ieSourceToTargetTransparentContainer : Nat := 101
def ieSupportedTAList : Nat := 102
def ieTargetID : Nat := 105
def ieTargetToSourceTransparentContainer : Nat := 106
def ieUESecurityCapabilities : Nat := 119
def ieUserLocationInformation : Nat := 121

/-- clause 9.2 / 9.4.4: the IEs with presence M of the messages the emulator sends, as (IE id, assigned criticality),
    in the order of the tabular definition. `none` = the message is not on the emulator's path (no table transcribed). -/
def mandatory : Msg → Option (List (Nat × Nat))
  -- 9.2.6.1 NG SETUP REQUEST (RAN node name is optional)
  | .NGSetupRequest => some [(ieGlobalRANNodeID, reject), (ieSupportedTAList, reject), (ieDefaultPagingDRX, ignore)]
  -- 9.2.5.1 INITIAL UE MESSAGE (5G-S-TMSI, AMF set id, UE context request, allowed NSSAI are optional)
  | .InitialUEMessage => some [(ieRANUENGAPID, reject), (ieNASPDU, reject), (ieUserLocationInformation, reject),
      (ieRRCEstablishmentCause, ignore)]
  -- 9.2.5.3 UPLINK NAS TRANSPORT
  | .UplinkNASTransport => some [(ieAMFUENGAPID, reject), (ieRANUENGAPID, reject), (ieNASPDU, reject),
      (ieUserLocationInformation, ignore)]
  -- 9.2.2.2 INITIAL CONTEXT SETUP RESPONSE (both PDU session lists and criticality diagnostics are optional)
  | .InitialContextSetupResponse => some [(ieAMFUENGAPID, ignore), (ieRANUENGAPID, ignore)]
  -- 9.2.1.2 PDU SESSION RESOURCE SETUP RESPONSE (both lists and criticality diagnostics are optional)
  | .PDUSessionResourceSetupResponse => some [(ieAMFUENGAPID, ignore), (ieRANUENGAPID, ignore)]
  -- 9.2.1.4 PDU SESSION RESOURCE RELEASE RESPONSE (user location information, criticality diagnostics optional)
  | .PDUSessionResourceReleaseResponse => some [(ieAMFUENGAPID, ignore), (ieRANUENGAPID, ignore),
      (iePDUSessionResourceReleasedListRelRes, ignore)]
  -- 9.2.2.5 UE CONTEXT RELEASE COMPLETE (everything else optional)
  | .UEContextReleaseComplete => some [(ieAMFUENGAPID, ignore), (ieRANUENGAPID, ignore)]
  -- 9.2.2.3 UE CONTEXT RELEASE REQUEST (the PDU session resource list is optional)
  | .UEContextReleaseRequest => some [(ieAMFUENGAPID, reject), (ieRANUENGAPID, reject), (ieCause, ignore)]
  -- 9.2.3.8 PATH SWITCH REQUEST (the failed-to-setup list is optional)
  | .PathSwitchRequest => some [(ieRANUENGAPID, reject), (ieSourceAMFUENGAPID, reject), (ieUserLocationInformation, ignore),
      (ieUESecurityCapabilities, ignore), (iePDUSessionResourceToBeSwitchedDLList, reject)]
  -- 9.2.3.1 HANDOVER REQUIRED (direct forwarding path availability is optional)
  | .HandoverRequired => some [(ieAMFUENGAPID, reject), (ieRANUENGAPID, reject), (ieHandoverType, reject), (ieCause, ignore),
      (ieTargetID, reject), (iePDUSessionResourceListHORqd, reject), (ieSourceToTargetTransparentContainer, reject)]
  -- 9.2.3.5 HANDOVER REQUEST ACKNOWLEDGE (the failed-to-setup list and criticality diagnostics are optional)
  | .HandoverRequestAcknowledge => some [(ieAMFUENGAPID, ignore), (ieRANUENGAPID, ignore),
      (iePDUSessionResourceAdmittedList, ignore), (ieTargetToSourceTransparentContainer, reject)]
  -- 9.2.3.7 HANDOVER NOTIFY
  | .HandoverNotify => some [(ieAMFUENGAPID, reject), (ieRANUENGAPID, reject), (ieUserLocationInformation, ignore)]
  | _ => none

/-! ### where a message carries the identifiers (clause 9.2, tabular definitions) -/

def iePDUSessionResourceSetupListCxtRes : Nat := 72
def iePDUSessionResourceSetupListSURes : Nat := 75
def iePDUSessionResourceListCxtRelCpl : Nat := 60
def iePDUSessionResourceListCxtRelReq : Nat := 133

/-- the IE that carries the AMF UE NGAP ID the RAN node knows: in PATH SWITCH REQUEST (9.2.3.8) it is the
    Source AMF UE NGAP ID, everywhere else the AMF UE NGAP ID -/
def amfIe : Msg → Nat
  | .PathSwitchRequest => ieSourceAMFUENGAPID
  | _ => ieAMFUENGAPID

/-- the list IE whose items start with the PDU Session ID of the session the gNB answers for
    (9.2.2.2, 9.2.1.2, 9.2.1.4: … Setup Response List / Released List; item = PDU Session ID + transfer) -/
def psiItemIe : Msg → Option Nat
  | .InitialContextSetupResponse => some iePDUSessionResourceSetupListCxtRes
  | .PDUSessionResourceSetupResponse => some iePDUSessionResourceSetupListSURes
  | .PDUSessionResourceReleaseResponse => some iePDUSessionResourceReleasedListRelRes
  | _ => none

/-- the PDU Session Resource List of UE CONTEXT RELEASE COMPLETE (9.2.2.5) / UE CONTEXT RELEASE REQUEST (9.2.2.3) -/
def psiListIe : Msg → Option Nat
  | .UEContextReleaseComplete => some iePDUSessionResourceListCxtRelCpl
  | .UEContextReleaseRequest => some iePDUSessionResourceListCxtRelReq
  | _ => none

/-! ### value ranges, clause 9.3.3.1 / 9.3.3.2 / 9.3.1.50 -/
/-- AMF-UE-NGAP-ID ::= INTEGER (0..1099511627775) -/
def amfUeNgapIdMax : Int := 1099511627775
/-- RAN-UE-NGAP-ID ::= INTEGER (0..4294967295) -/
def ranUeNgapIdMax : Int := 4294967295
/-- PDUSessionID ::= INTEGER (0..255) -/
def pduSessionIdMax : Int := 255

def amfInRange (v : Int) : Prop := 0 ≤ v ∧ v ≤ amfUeNgapIdMax
def ranInRange (v : Int) : Prop := 0 ≤ v ∧ v ≤ ranUeNgapIdMax
def psiInRange (v : Int) : Prop := 0 ≤ v ∧ v ≤ pduSessionIdMax

instance (v : Int) : Decidable (amfInRange v) := by unfold amfInRange; exact inferInstance
instance (v : Int) : Decidable (ranInRange v) := by unfold ranInRange; exact inferInstance
instance (v : Int) : Decidable (psiInRange v) := by unfold psiInRange; exact inferInstance

end Stgutg.Spec.Ts38413
