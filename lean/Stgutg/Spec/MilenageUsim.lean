/-
  The outcome property C15 prescribes for the USIM-side check of an AUTN and the network-side check of an
  AUTS, in terms of TS 35.206 / TS 33.102 only (`Spec/Ts35206.lean`). The model is imported solely for the
  record type `CheckOut` in which `Milenage_check` reports (return code, *res_len, RES, CK, IK, AUTS).
  Used by the C15 theorems (right-hand side) and by the driver (specification oracle) alike.
-/
import Stgutg.Spec.Ts35206
import Stgutg.Model.Milenage

namespace Stgutg.Spec.Ts35206
open Stgutg.Model.Milenage (CheckOut zeros)

/-- 0: MAC-A verifies and SQN is fresh; -2: SQN not fresh, AUTS for the UE's SQN is produced;
    -1: SQN fresh but MAC-A wrong. RES / CK / IK are f2 / f3 / f4 in every case. -/
def checkSpec (E : Cipher) (opc k sqn rand autn : Bytes) : CheckOut :=
  if ¬ sqnFresh E k opc rand autn sqn then
    ⟨-2, 8, f2 E k opc rand, f3 E k opc rand, f4 E k opc rand, auts E k opc rand sqn⟩
  else if macOk E k opc rand autn then ⟨0, 8, f2 E k opc rand, f3 E k opc rand, f4 E k opc rand, zeros 14⟩
  else ⟨-1, 8, f2 E k opc rand, f3 E k opc rand, f4 E k opc rand, zeros 14⟩

/-- 0 iff MAC-S verifies; the SQN_MS concealed in the AUTS is recovered either way -/
def autsSpec (E : Cipher) (opc k rand auts : Bytes) : Int × Bytes :=
  (if autsOk E k opc rand auts then 0 else -1, autsSqn E k opc rand auts)

end Stgutg.Spec.Ts35206
