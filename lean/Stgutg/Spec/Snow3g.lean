/-
  SNOW 3G as specified in ETSI/SAGE "Specification of the 3GPP Confidentiality and Integrity
  Algorithms UEA2 & UIA2. Document 2: SNOW 3G Specification" (TS 35.216), written from the
  specification: S-boxes are *defined by their algebraic formulas* (SR = Rijndael S-box,
  SQ = Dickson polynomial g49 + 0x25), not copied from the source tables.
-/
import Stgutg.Base.Hex
import Stgutg.Model.Snow3g

namespace Stgutg.Spec.Snow3g
open Stgutg.Model.Snow3g (State pack4 iter)

/-! ### GF(2^8) arithmetic on `Nat` (fast in the kernel) -/

/-- multiply by x modulo the degree-8 polynomial `0x100 + c`. -/
def xtime (c v : Nat) : Nat := if v ≥ 128 then ((2 * v) % 256).xor c else 2 * v

def gfMulAux (c : Nat) : Nat → Nat → Nat → Nat → Nat
  | 0, _, _, acc => acc
  | n + 1, a, b, acc =>
    gfMulAux c n (xtime c a) (b / 2) (if b % 2 = 1 then acc.xor a else acc)

/-- product in GF(2^8) = GF(2)[x]/(x^8 + c). -/
def gfMul (c a b : Nat) : Nat := gfMulAux c 8 a b 0

def rotl8 (v k : Nat) : Nat := ((v * 2 ^ k) % 256) + v / 2 ^ (8 - k)

/-- x^254 = x^2·x^4·x^8·x^16·x^32·x^64·x^128 : the multiplicative inverse (0 ↦ 0). -/
def gfInv (c x : Nat) : Nat :=
  let m := gfMul c
  let x2 := m x x; let x4 := m x2 x2; let x8 := m x4 x4; let x16 := m x8 x8
  let x32 := m x16 x16; let x64 := m x32 x32; let x128 := m x64 x64
  m x2 (m x4 (m x8 (m x16 (m x32 (m x64 x128)))))

/-- Rijndael S-box (FIPS-197 5.1.1): multiplicative inverse in GF(2^8)/0x11B, then the affine map. -/
def SRnat (x : Nat) : Nat :=
  let b := gfInv 0x1b x
  ((((b.xor (rotl8 b 1)).xor (rotl8 b 2)).xor (rotl8 b 3)).xor (rotl8 b 4)).xor 0x63

/-- SQ (TS 35.216 3.3.2): Dickson polynomial g49(x) = x + x^9 + x^13 + x^15 + x^33 + x^41 + x^45 + x^47 + x^49
    over GF(2^8) defined by x^8 + x^6 + x^5 + x^3 + 1, plus 0x25. -/
def SQnat (x : Nat) : Nat :=
  let m := gfMul 0x69
  let x2 := m x x; let x4 := m x2 x2; let x8 := m x4 x4; let x16 := m x8 x8; let x32 := m x16 x16
  let x9 := m x8 x; let x13 := m x9 x4; let x15 := m x13 x2
  let x33 := m x32 x; let x41 := m x33 x8; let x45 := m x41 x4; let x47 := m x45 x2; let x49 := m x33 x16
  ((((((((x.xor x9).xor x13).xor x15).xor x33).xor x41).xor x45).xor x47).xor x49).xor 0x25

def SRtable : List Nat := (List.range 256).map SRnat
def SQtable : List Nat := (List.range 256).map SQnat

/-! ### The generator (TS 35.216 clause 3 and 4) -/

/-- 3.1.1 MULx -/
def MULx (v c : UInt8) : UInt8 := if v &&& 0x80 != 0 then (v <<< 1) ^^^ c else v <<< 1

/-- 3.1.2 MULxPOW -/
def MULxPOW (v : UInt8) (i : Nat) (c : UInt8) : UInt8 :=
  match i with
  | 0 => v
  | n + 1 => MULx (MULxPOW v n c) c

def SR (b : UInt8) : UInt8 := UInt8.ofNat (SRtable.getD b.toNat 0)
def SQ (b : UInt8) : UInt8 := UInt8.ofNat (SQtable.getD b.toNat 0)

def byte0 (w : UInt32) : UInt8 := (w >>> 24).toUInt8
def byte1 (w : UInt32) : UInt8 := (w >>> 16).toUInt8
def byte2 (w : UInt32) : UInt8 := (w >>> 8).toUInt8
def byte3 (w : UInt32) : UInt8 := w.toUInt8

/-- 3.3.1 S1 -/
def S1 (w : UInt32) : UInt32 :=
  let (w0, w1, w2, w3) := (byte0 w, byte1 w, byte2 w, byte3 w)
  pack4 (MULx (SR w0) 0x1B ^^^ SR w1 ^^^ SR w2 ^^^ MULx (SR w3) 0x1B ^^^ SR w3)
        (MULx (SR w0) 0x1B ^^^ SR w0 ^^^ MULx (SR w1) 0x1B ^^^ SR w2 ^^^ SR w3)
        (SR w0 ^^^ MULx (SR w1) 0x1B ^^^ SR w1 ^^^ MULx (SR w2) 0x1B ^^^ SR w3)
        (SR w0 ^^^ SR w1 ^^^ MULx (SR w2) 0x1B ^^^ SR w2 ^^^ MULx (SR w3) 0x1B)

/-- 3.3.2 S2 -/
def S2 (w : UInt32) : UInt32 :=
  let (w0, w1, w2, w3) := (byte0 w, byte1 w, byte2 w, byte3 w)
  pack4 (MULx (SQ w0) 0x69 ^^^ SQ w1 ^^^ SQ w2 ^^^ MULx (SQ w3) 0x69 ^^^ SQ w3)
        (MULx (SQ w0) 0x69 ^^^ SQ w0 ^^^ MULx (SQ w1) 0x69 ^^^ SQ w2 ^^^ SQ w3)
        (SQ w0 ^^^ MULx (SQ w1) 0x69 ^^^ SQ w1 ^^^ MULx (SQ w2) 0x69 ^^^ SQ w3)
        (SQ w0 ^^^ SQ w1 ^^^ MULx (SQ w2) 0x69 ^^^ SQ w2 ^^^ MULx (SQ w3) 0x69)

/-- 3.4.2 MULα -/
def MULα (c : UInt8) : UInt32 :=
  pack4 (MULxPOW c 23 0xA9) (MULxPOW c 245 0xA9) (MULxPOW c 48 0xA9) (MULxPOW c 239 0xA9)

/-- 3.4.3 DIVα -/
def DIVα (c : UInt8) : UInt32 :=
  pack4 (MULxPOW c 16 0xA9) (MULxPOW c 39 0xA9) (MULxPOW c 6 0xA9) (MULxPOW c 64 0xA9)

/-- 3.4.4/3.4.5: v = (s0,1‖s0,2‖s0,3‖0x00) ⊕ MULα(s0,0) ⊕ s2 ⊕ (0x00‖s11,0‖s11,1‖s11,2) ⊕ DIVα(s11,3) [⊕ F] -/
def lfsrV (st : State) : UInt32 :=
  (st.s0 <<< 8) ^^^ MULα (byte0 st.s0) ^^^ st.s2 ^^^ (st.s11 >>> 8) ^^^ DIVα (byte3 st.s11)

def shift (st : State) (v : UInt32) : State :=
  { st with s0 := st.s1, s1 := st.s2, s2 := st.s3, s3 := st.s4, s4 := st.s5, s5 := st.s6,
            s6 := st.s7, s7 := st.s8, s8 := st.s9, s9 := st.s10, s10 := st.s11, s11 := st.s12,
            s12 := st.s13, s13 := st.s14, s14 := st.s15, s15 := v }

/-- 3.4.6 clocking the FSM: F = (s15 ⊞ R1) ⊕ R2; r = R2 ⊞ (R3 ⊕ s5); R3 = S2(R2); R2 = S1(R1); R1 = r -/
def clockFSM (st : State) : UInt32 × State :=
  let F := (st.s15 + st.r0) ^^^ st.r1
  let r := st.r1 + (st.r2 ^^^ st.s5)
  (F, { st with r2 := S2 st.r1, r1 := S1 st.r0, r0 := r })

def initStep (st : State) : State :=
  let (F, st') := clockFSM st
  shift st' (lfsrV st' ^^^ F)

/-- 4.1 Initialisation -/
def init (k0 k1 k2 k3 iv0 iv1 iv2 iv3 : UInt32) : State :=
  let one : UInt32 := 0xffffffff
  iter initStep 32
    { s15 := k3 ^^^ iv0, s14 := k2, s13 := k1, s12 := k0 ^^^ iv1,
      s11 := k3 ^^^ one, s10 := k2 ^^^ one ^^^ iv2, s9 := k1 ^^^ one ^^^ iv3, s8 := k0 ^^^ one,
      s7 := k3, s6 := k2, s5 := k1, s4 := k0,
      s3 := k3 ^^^ one, s2 := k2 ^^^ one, s1 := k1 ^^^ one, s0 := k0 ^^^ one,
      r0 := 0, r1 := 0, r2 := 0 }

def words : Nat → State → List UInt32
  | 0, _ => []
  | n + 1, st =>
    let (F, st1) := clockFSM st
    (F ^^^ st1.s0) :: words n (shift st1 (lfsrV st1))

/-- 4.2 Generation of keystream: FSM clocked once (output discarded), LFSR clocked, then n words. -/
def keystream (n : Nat) (st : State) : List UInt32 :=
  let (_, st1) := clockFSM st
  words n (shift st1 (lfsrV st1))

end Stgutg.Spec.Snow3g
