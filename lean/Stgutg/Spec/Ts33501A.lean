/-
  The generic KDF of 3GPP TS 33.220 Annex B.2 and the 5G key derivations of TS 33.501 Annex A
  (A.2 K_AUSF, A.4 RES*, A.6 K_SEAF, A.7 K_AMF, A.8 algorithm keys), plus the serving network name of
  TS 24.501 clause 9.12.1. Written from the specifications. The MAC `hmac key msg` (HMAC-SHA-256) and the
  Milenage kernel `E` are parameters; Milenage itself is `Spec/Ts35206.lean`.
-/
import Stgutg.Spec.Ts35206

namespace Stgutg.Spec.Ts33501A
open Stgutg.Spec

abbrev Mac := Bytes → Bytes → Bytes

/-- the octets of an ASCII string given as a list of characters (reduces in the kernel) -/
def ascii (cs : List Char) : Bytes := cs.map fun c => UInt8.ofNat c.toNat

/-- TS 33.220 B.2.0: Li = two-octet representation of the number of octets of Pi (big endian) -/
def lenField (p : Bytes) : Bytes := natBE 2 p.length

/-- S = FC ‖ P0 ‖ L0 ‖ P1 ‖ L1 ‖ … ‖ Pn ‖ Ln -/
def kdfInput (fc : UInt8) (ps : List Bytes) : Bytes := fc :: ps.flatMap fun p => p ++ lenField p

/-- derived key = HMAC-SHA-256(Key, S) -/
def kdf (hmac : Mac) (key : Bytes) (fc : UInt8) (ps : List Bytes) : Bytes := hmac key (kdfInput fc ps)

/-- "the 128 least significant bits of the 256 bits of the KDF output" -/
def low128 (out : Bytes) : Bytes := out.drop (out.length - 16)

/-- TS 24.501 9.12.1 / TS 23.003 28.7.9: SNN = "5G:" ‖ "mnc<MNC>.mcc<MCC>.3gppnetwork.org"; the MNC is written
    with three digits, "if there are only 2 significant digits in the MNC, one '0' digit shall be inserted
    at the left side". `mcc`, `mnc` are ASCII digit strings. -/
def snName (mcc mnc : Bytes) : Bytes :=
  ascii ['5', 'G', ':', 'm', 'n', 'c'] ++ (List.replicate (3 - mnc.length) 0x30 ++ mnc) ++ ascii ['.', 'm', 'c', 'c'] ++ mcc ++
    ascii ['.', '3', 'g', 'p', 'p', 'n', 'e', 't', 'w', 'o', 'r', 'k', '.', 'o', 'r', 'g']

#guard snName "208".toUTF8.toList "93".toUTF8.toList = "5G:mnc093.mcc208.3gppnetwork.org".toUTF8.toList
#guard snName "310".toUTF8.toList "410".toUTF8.toList = "5G:mnc410.mcc310.3gppnetwork.org".toUTF8.toList

/-! FC values (TS 33.220 B.2.2 allocation for TS 33.501) and A.8 algorithm type distinguishers -/
def fcAlgKey : UInt8 := 0x69
def fcKausf : UInt8 := 0x6A
def fcResStar : UInt8 := 0x6B
def fcKseaf : UInt8 := 0x6C
def fcKamf : UInt8 := 0x6D
def nNasEncAlg : UInt8 := 0x01
def nNasIntAlg : UInt8 := 0x02

/-- A.2: K_AUSF = KDF(CK ‖ IK, 0x6A, SN name, SQN ⊕ AK) -/
def kausf (hmac : Mac) (ck ik snn sqnXorAk : Bytes) : Bytes := kdf hmac (ck ++ ik) fcKausf [snn, sqnXorAk]

/-- A.4: RES* = 128 LSBs of KDF(CK ‖ IK, 0x6B, SN name, RAND, RES) -/
def resStar (hmac : Mac) (ck ik snn rand res : Bytes) : Bytes :=
  low128 (kdf hmac (ck ++ ik) fcResStar [snn, rand, res])

/-- A.6: K_SEAF = KDF(K_AUSF, 0x6C, SN name) -/
def kseaf (hmac : Mac) (kausf snn : Bytes) : Bytes := kdf hmac kausf fcKseaf [snn]

/-- A.7: K_AMF = KDF(K_SEAF, 0x6D, SUPI, ABBA); for an IMSI-based SUPI, P0 is the IMSI digit string -/
def kamf (hmac : Mac) (kseaf supi abba : Bytes) : Bytes := kdf hmac kseaf fcKamf [supi, abba]

/-- A.8: algorithm key = 128 LSBs of KDF(K_AMF, 0x69, algorithm type distinguisher, algorithm identity) -/
def algKey (hmac : Mac) (kamf : Bytes) (distinguisher algId : UInt8) : Bytes :=
  low128 (kdf hmac kamf fcAlgKey [[distinguisher], [algId]])

/-- the ABBA parameter of TS 33.501 Annex A.7.1 for this release: 0x0000 -/
def abba0 : Bytes := [0x00, 0x00]

/-- what 5G-AKA yields at the UE (and, from the same inputs, at UDM/AUSF/SEAF/AMF) -/
structure Aka where
  resStar : Bytes
  kausf : Bytes
  kseaf : Bytes
  kamf : Bytes
  knasEnc : Bytes
  knasInt : Bytes
  deriving DecidableEq, Repr

/-- Milenage f2..f4 (TS 35.206) followed by A.4, A.2, A.6, A.7, A.8.
    `sqnXorAk` is the first six octets of AUTN; `supi` the IMSI digit string; `encAlg`/`intAlg` the 5G-EA/5G-IA identities. -/
def aka (E : Ts35206.Cipher) (hmac : Mac) (k opc rand sqnXorAk mcc mnc supi : Bytes) (encAlg intAlg : UInt8) : Aka :=
  let res := Ts35206.f2 E k opc rand
  let ck := Ts35206.f3 E k opc rand
  let ik := Ts35206.f4 E k opc rand
  let snn := snName mcc mnc
  let kausf := kausf hmac ck ik snn sqnXorAk
  let kseaf := kseaf hmac kausf snn
  let kamf := kamf hmac kseaf supi abba0
  { resStar := resStar hmac ck ik snn rand res, kausf := kausf, kseaf := kseaf, kamf := kamf,
    knasEnc := algKey hmac kamf nNasEncAlg encAlg, knasInt := algKey hmac kamf nNasIntAlg intAlg }

end Stgutg.Spec.Ts33501A
