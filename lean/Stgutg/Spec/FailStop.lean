/-!
# C19: what the property statement fixes about the test-mode conversation (written from properties.jsonl C19 and the
conversation skeleton of DESIGN.md Appendix C, not from the code)

* counts: `ue_registration` registrations; establishments = min(registrations, `ue_pdu`); service requests and releases =
  min(establishments, `ue_service` | `ue_pdu_release`); de-registrations = min(registrations, `ue_deregistration`)
  (non-positive counts mean none).
* the program reads one answer for NG Setup, four per registration (Authentication Request, Security Mode Command,
  Initial Context Setup Request, and the message after Registration Complete), one per establishment, one per service
  request, none per release, two per de-registration; it sends 1, 5, 2, 2, 3 and 2 messages in these procedures.
* the fault classes: the peer closes before answering read `k` — any `k`; the peer answers read `k` with undecodable
  octets — any `k` except the message after Registration Complete, i.e. the fourth read of a registration.
-/
namespace Stgutg.Spec.FailStop

structure Counts where
  reg : Int
  pdu : Int
  svc : Int
  rel : Int
  dereg : Int

def nReg (c : Counts) : Nat := c.reg.toNat
def nPdu (c : Counts) : Nat := (min c.reg c.pdu).toNat
def nSvc (c : Counts) : Nat := (min (min c.reg c.pdu) c.svc).toNat
def nRel (c : Counts) : Nat := (min (min c.reg c.pdu) c.rel).toNat
def nDereg (c : Counts) : Nat := (min c.reg c.dereg).toNat

/-- downlink messages the program consumes in a fault-free conversation -/
def totalReads (c : Counts) : Nat := 1 + 4 * nReg c + nPdu c + nSvc c + 2 * nDereg c

/-- uplink messages of a fault-free conversation -/
def totalWrites (c : Counts) : Nat := 1 + 5 * nReg c + 2 * nPdu c + 2 * nSvc c + 3 * nRel c + 2 * nDereg c

/-- read `k` (0 = NG Setup Response) is the message after Registration Complete of some UE -/
def excludedRead (c : Counts) (k : Nat) : Bool := decide (4 ≤ k) && k % 4 == 0 && decide (k / 4 ≤ nReg c)

/-- the property demands fail-stop for "undecodable octets as answer `k`" -/
def garbageInScope (c : Counts) (k : Nat) : Bool := decide (k < totalReads c) && !excludedRead c k

/-- the property demands fail-stop for "the peer closes instead of answer `k`" -/
def closeInScope (c : Counts) (k : Nat) : Bool := decide (k < totalReads c)

/-- the property demands fail-stop for "the peer closes right after uplink message `j`" while the program still has
    something to send (after the last message it does no I/O and cannot notice) -/
def closeAfterUplinkInScope (c : Counts) (j : Nat) : Bool := decide (j + 1 < totalWrites c)

end Stgutg.Spec.FailStop
