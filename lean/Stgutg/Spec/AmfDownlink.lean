/-
  C01 — the DOWNLINK side of NG Setup + one registration: what a conformant AMF sends, built with the SPECIFICATION encoders
  only (Spec/X691.lean over the TS 38.413-constrained schema for NGAP, Spec/Ts24501.lean for plain NAS, Spec/NasSecurity.lean
  for the protection of the downlink NAS messages, Spec/Ts33501A.lean + Spec/Ts35206.lean for the challenge).

      DL1  NG SETUP RESPONSE (TS 38.413 9.2.6.2): AMF name, served GUAMI, relative AMF capacity, PLMN support list
      DL2  DOWNLINK NAS TRANSPORT (9.2.5.2) [ AUTHENTICATION REQUEST (TS 24.501 8.2.1): ngKSI, ABBA, RAND, AUTN ]
      DL3  DOWNLINK NAS TRANSPORT [ SECURITY MODE COMMAND (8.2.25), integrity protected with new 5G NAS security context (type 3) ]
      DL4  INITIAL CONTEXT SETUP REQUEST (9.2.2.1) [ REGISTRATION ACCEPT (8.2.7), integrity protected and ciphered (type 2) ]
      DL5  DOWNLINK NAS TRANSPORT [ CONFIGURATION UPDATE COMMAND (8.2.19), type 2 ]

  The choices of the AMF are `Spec.Amf.Choice` (RAND, SQN, AMF field, ngKSI, AMF-UE-NGAP-ID); its identity (name, region, set,
  pointer, capacity, slice) is the fixed one of the scripted peer of the correspondence harness (harness/peer/build.go) — the
  property does not quantify over it. `none` = the specification encoders do not encode (a value outside its constraints).

  C02 — the downlink side of the procedures after registration (section "after registration" below), same encoders plus
  Spec/SetupRequest.lean (TS 24.501 8.3.2 / 8.2.11 and the X.691 encoding of the TS 38.413 9.3.4.1 transfer):

      DLE  PDU SESSION RESOURCE SETUP REQUEST (9.2.1.1) [ item: PDU session ID, NAS-PDU = DL NAS TRANSPORT (8.2.11) carrying
           PDU SESSION ESTABLISHMENT ACCEPT (8.3.2) with the assigned IPv4 address, type 2; S-NSSAI; transfer with the assigned
           GTP tunnel (UPF address, TEID) ]
      DLS  INITIAL CONTEXT SETUP REQUEST [ SERVICE ACCEPT (8.2.17) with the PDU session status, type 2 ]
      DLD1 DOWNLINK NAS TRANSPORT [ DEREGISTRATION ACCEPT (8.2.13), type 2 ]
      DLD2 UE CONTEXT RELEASE COMMAND (9.2.2.5): UE NGAP ID pair, cause NAS / deregister
  PDU session release: this AMF sends nothing the emulator reads (`ReleasePDU` does not read; the scripted peer's default).
  Core Lean only.
-/
import Stgutg.Spec.Amf
import Stgutg.Spec.SetupRequest

namespace Stgutg.Spec.AmfDl
open Stgutg Stgutg.Aper Stgutg.Spec.Ts24501

/-! ### NGAP values -/

/-- a CHOICE value: `Present = k`, alternative `k` (of `n`) set -/
def choiceV (n k : Nat) (v : Val) : Val :=
  .struct (.int k :: (List.replicate (k - 1) .nil ++ [.ptr v] ++ List.replicate (n - k) .nil))

def reject : Nat := 0
def ignore : Nat := 1

/-- one protocol IE: id, criticality, value = alternative `k` of the `n` of the message's IE value set -/
def ieV (id : Int) (crit n k : Nat) (v : Val) : Val :=
  .struct [.struct [.int id], .struct [.enum crit], choiceV n k v]

/-- NGAP-PDU: class `cls` (1 initiating message of 52, 2 successful outcome of 18), procedure code, criticality, message -/
def pduV (cls : Nat) (code : Int) (crit nMsgs k : Nat) (ies : List Val) : Val :=
  choiceV 3 cls (.struct [.struct [.int code], .struct [.enum crit], choiceV nMsgs k (.struct [.struct [.slice ies]])])

def plmnV (plmn : Bytes) : Val := .struct [.octs plmn]

/-- the AMF's identity (harness/peer): region 0xca, set 0x3f8 (10 bits), pointer 0 (6 bits) -/
def guamiV (plmn : Bytes) : Val :=
  .struct [plmnV plmn, .struct [.bits [0xca] 8], .struct [.bits [0xfe, 0x00] 10], .struct [.bits [0x00] 6], .nil]

/-- S-NSSAI: SST 1, SD 010203 -/
def snssaiV : Val := .struct [.struct [.octs [1]], .ptr (.struct [.octs [1, 2, 3]]), .nil]

/-- "AMF" -/
def amfName : Bytes := [0x41, 0x4d, 0x46]

/-- DL1: NG SETUP RESPONSE -/
def ngSetupResponse (plmn : Bytes) : Val :=
  pduV 2 21 reject 18 7 [
    ieV 1 reject 5 1 (.struct [.str amfName]),
    ieV 96 reject 5 2 (.struct [.slice [.struct [guamiV plmn, .nil, .nil]]]),
    ieV 86 ignore 5 3 (.struct [.int 255]),
    ieV 80 reject 5 4 (.struct [.slice [.struct [plmnV plmn, .struct [.slice [.struct [snssaiV, .nil]]], .nil]]])]

/-- DL2, DL3, DL5: DOWNLINK NAS TRANSPORT — AMF-UE-NGAP-ID first, RAN-UE-NGAP-ID, NAS-PDU -/
def downlinkNasTransport (amf ran : Int) (nas : Bytes) : Val :=
  pduV 1 4 ignore 52 22 [
    ieV 10 reject 9 1 (.struct [.int amf]),
    ieV 85 reject 9 2 (.struct [.int ran]),
    ieV 38 reject 9 5 (.struct [.octs nas])]

/-- DL4: INITIAL CONTEXT SETUP REQUEST — ids, GUAMI, allowed NSSAI, UE security capabilities (128-NIA2), K_gNB, NAS-PDU -/
def initialContextSetupRequest (amf ran : Int) (plmn kgnb nas : Bytes) : Val :=
  pduV 1 14 reject 52 5 [
    ieV 10 reject 19 1 (.struct [.int amf]),
    ieV 85 reject 19 2 (.struct [.int ran]),
    ieV 28 reject 19 6 (guamiV plmn),
    ieV 0 reject 19 8 (.struct [.slice [.struct [snssaiV, .nil]]]),
    ieV 119 reject 19 9 (.struct [.struct [.bits [0, 0] 16], .struct [.bits [0x40, 0] 16], .struct [.bits [0, 0] 16],
      .struct [.bits [0, 0] 16], .nil]),
    ieV 94 reject 19 10 (.struct [.bits kgnb 256]),
    ieV 38 ignore 19 16 (.struct [.octs nas])]

/-- the complete X.691 encoding under the TS 38.413-constrained schema -/
def ngap (v : Val) : Option Bytes :=
  Spec.X691.encodePdu Spec.Amf.specSchema Spec.Amf.ngapFuel (.struct Gen.Ngap.pduId) Gen.Ngap.encoderParams v

/-! ### NAS messages (abstract: value parts, header first) -/

/-- 8.2.1 AUTHENTICATION REQUEST: native ngKSI, ABBA, RAND (IEI 21), AUTN (IEI 20) -/
def authenticationRequest (ngKsi : Nat) (abba rand autn : Bytes) : SMsg :=
  { mand := [[0x7E], [0x00], [0x56], [UInt8.ofNat ngKsi], abba], opt := [(0x21, rand), (0x20, autn)] }

/-- 8.2.25 SECURITY MODE COMMAND: the selected algorithms, ngKSI, the replayed UE security capabilities, IMEISV requested -/
def securityModeCommand (ngKsi : Nat) (cap : Bytes) : SMsg :=
  { mand := [[0x7E], [0x00], [0x5D], [UInt8.ofNat (Spec.Amf.selectedEa * 16 + Spec.Amf.selectedIa)], [UInt8.ofNat ngKsi], cap],
    opt := [(0xE, [1])] }

/-- 5G-GUTI (figure 9.11.3.4.1) of the AMF's identity with 5G-TMSI 1 -/
def guti (plmn : Bytes) : Bytes := [0xf2] ++ plmn ++ [0xca, 0xfe, 0x00, 0, 0, 0, 1]

/-- 8.2.7 REGISTRATION ACCEPT: 3GPP access, 5G-GUTI, TAI list (one TAC), allowed NSSAI, T3512 -/
def registrationAccept (plmn : Bytes) : SMsg :=
  { mand := [[0x7E], [0x00], [0x42], [0x01]],
    opt := [(0x77, guti plmn), (0x54, [0x00] ++ plmn ++ [0, 0, 1]), (0x15, [4, 1, 1, 2, 3]), (0x5E, [0x5e])] }

/-- 8.2.19 CONFIGURATION UPDATE COMMAND with a network name -/
def configurationUpdateCommand : SMsg :=
  { mand := [[0x7E], [0x00], [0x54]], opt := [(0x43, [0x90, 0x76, 0x65, 0x72, 0x69, 0x66])] }

def nas (t : Table) (m : SMsg) : Option Bytes := t.wire.bind fun w => encode w m

/-- K_gNB (TS 33.501 A.9) for the uplink NAS COUNT of the message that completed the security mode procedure (0), 3GPP access -/
def kgnb (P : Prims) (kamf : Bytes) : Bytes := Spec.Ts33501A.kdf P.hmac kamf 0x6E [[0, 0, 0, 0], [0x01]]

/-! ### the five downlink messages -/

/-- the three protected NAS messages, in order, under the DL NAS COUNTs 0 (new context), 1, 2:
    SECURITY MODE COMMAND (type 3), REGISTRATION ACCEPT (type 2), CONFIGURATION UPDATE COMMAND (type 2) -/
def protectedNas (P : Prims) (ctx : Spec.NasSecurity.SecCtx) (ngKsi : Nat) (cap plmn : Bytes) : Option (Bytes × Bytes × Bytes) := do
  let smc ← nas Spec.Ts24501.securityModeCommand (securityModeCommand ngKsi cap)
  let s3 := Spec.NasSecurity.amfProtect P ctx ⟨0⟩ 0 0x7E 3 smc
  let n3 ← s3.2.2
  let ra ← nas Spec.Ts24501.registrationAccept (registrationAccept plmn)
  let s4 := Spec.NasSecurity.amfProtect P ctx s3.1 0 0x7E 2 ra
  let n4 ← s4.2.2
  let cuc ← nas Spec.Ts24501.configurationUpdateCommand configurationUpdateCommand
  let s5 := Spec.NasSecurity.amfProtect P ctx s4.1 0 0x7E 2 cuc
  let n5 ← s5.2.2
  pure (n3, n4, n5)

/-- what the AMF sends to subscriber `j` (RAN-UE-NGAP-ID `ran`, UE security capabilities `cap` as received in the Registration
    Request) under its choice `ch`: `none` when a specification encoder does not encode -/
def dl (P : Prims) (cfg : Spec.Amf.Cfg) (j : Nat) (ch : Spec.Amf.Choice) (ran : Int) (cap : Bytes) : Option (List Bytes) := do
  let plmn ← Spec.Amf.plmnOf cfg
  let aka ← Spec.Amf.vector P cfg j ch
  let autn ← Spec.Amf.autnOf P cfg ch
  let d1 ← ngap (ngSetupResponse plmn)
  let ar ← nas Spec.Ts24501.authenticationRequest (authenticationRequest ch.ngKsi cfg.abba ch.rand autn)
  let d2 ← ngap (downlinkNasTransport ch.amfUeNgapId ran ar)
  let pn ← protectedNas P { ia := Spec.Amf.selectedIa, ea := Spec.Amf.selectedEa, kNasInt := aka.knasInt, kNasEnc := aka.knasEnc }
    ch.ngKsi cap plmn
  let d3 ← ngap (downlinkNasTransport ch.amfUeNgapId ran pn.1)
  let d4 ← ngap (initialContextSetupRequest ch.amfUeNgapId ran plmn (kgnb P aka.kamf) pn.2.1)
  let d5 ← ngap (downlinkNasTransport ch.amfUeNgapId ran pn.2.2)
  pure [d1, d2, d3, d4, d5]

/-! ### after registration: PDU session establishment, service request, de-registration (C02) -/

/-- PDU SESSION RESOURCE SETUP REQUEST (TS 38.413 9.2.1.1): AMF-UE-NGAP-ID, RAN-UE-NGAP-ID, setup list with one item —
    PDU session ID, NAS-PDU, S-NSSAI, PDUSessionResourceSetupRequestTransfer (an OCTET STRING holding the transfer's encoding) -/
def pduSessionResourceSetupRequest (amf ran psi : Int) (nas transfer : Bytes) : Val :=
  pduV 1 29 reject 52 12 [
    ieV 10 reject 5 1 (.struct [.int amf]),
    ieV 85 reject 5 2 (.struct [.int ran]),
    ieV 74 reject 5 5 (.struct [.slice [.struct [.struct [.int psi], .ptr (.struct [.octs nas]), snssaiV, .octs transfer, .nil]]])]

/-- UE CONTEXT RELEASE COMMAND (9.2.2.5): UE NGAP IDs (the pair), cause = NAS / deregister -/
def ueContextReleaseCommand (amf ran : Int) : Val :=
  pduV 1 41 reject 52 16 [
    ieV 114 reject 2 1 (choiceV 3 1 (.struct [.struct [.int amf], .struct [.int ran], .nil])),
    ieV 15 ignore 2 2 (choiceV 6 3 (.struct [.enum 2]))]

/-- the S-NSSAI of the AMF's identity as a NAS value part: SST 1, SD 010203 -/
def snssaiNas : Bytes := [1, 1, 2, 3]

/-- "internet" as a DNN value part (one label) -/
def dnnInternet : Bytes := [8, 105, 110, 116, 101, 114, 110, 101, 116]

/-- 8.3.2 PDU SESSION ESTABLISHMENT ACCEPT for the requested session (PSI and PTI of the request): SSC mode 1, IPv4, one default
    QoS rule (QFI 1), session-AMBR 100 Mbit/s both ways, the ASSIGNED IPv4 address `ueIp`, S-NSSAI, DNN -/
def establishmentAccept (psi pti : Nat) (ueIp : Bytes) : Spec.SetupRequest.Accept :=
  { psi := UInt8.ofNat psi, pti := UInt8.ofNat pti, sscAndType := 0x11,
    qosRules := [0x01, 0x00, 0x06, 0x31, 0x31, 0x01, 0x01, 0xff, 0x01], ambr := [0x06, 0x00, 0x64, 0x06, 0x00, 0x64],
    pduAddress := some (Spec.SetupRequest.pduAddressV4 ueIp), snssai := some snssaiNas, dnn := some dnnInternet }

/-- 8.2.11 DL NAS TRANSPORT: payload container type N1 SM information, the accept, PDU session ID -/
def dlNasTransportAccept (psi pti : Nat) (ueIp : Bytes) : Bytes :=
  Spec.SetupRequest.DlNasTransport.encode
    { pct := 1, payload := (establishmentAccept psi pti ueIp).encode, psi2 := some (UInt8.ofNat psi) }

/-- TS 38.413 9.3.4.1 PDUSessionResourceSetupRequestTransfer: session AMBR, the ASSIGNED uplink tunnel (UPF address, TEID as
    four octets), PDU session type IPv4, one QoS flow (QFI 1, 5QI 9, ARP 8) -/
def setupTransfer (upfIp : Bytes) (teid : Nat) : Spec.SetupRequest.Transfer :=
  { ambr := some (100000000, 100000000), tla := upfIp, teid := natBE 4 teid, pduType := some 0,
    qos := some [{ qfi := 1, fiveQI := 9, arp := 8, cap := 0, vul := 0 }] }

/-- 8.2.17 SERVICE ACCEPT with the PDU session status (IEI 50): the bit of the UE's session set -/
def serviceAccept (psi : Nat) : SMsg :=
  { mand := [[0x7E], [0x00], [0x4E]], opt := [(0x50, [UInt8.ofNat (2 ^ psi % 256), UInt8.ofNat (2 ^ psi / 256)])] }

/-- 8.2.13 DEREGISTRATION ACCEPT (UE originating de-registration) -/
def deregistrationAccept : SMsg := { mand := [[0x7E], [0x00], [0x46]], opt := [] }

/-- K_gNB (TS 33.501 A.9) for the uplink NAS COUNT of the Service Request -/
def kgnbAt (P : Prims) (kamf : Bytes) (ulCount : Nat) : Bytes :=
  Spec.Ts33501A.kdf P.hmac kamf 0x6E [natBE 4 ulCount, [0x01]]

/-- the security context of the network's vector: the selected algorithms and the NAS keys -/
def ctxOf (aka : Spec.Ts33501A.Aka) : Spec.NasSecurity.SecCtx :=
  { ia := Spec.Amf.selectedIa, ea := Spec.Amf.selectedEa, kNasInt := aka.knasInt, kNasEnc := aka.knasEnc }

/-- a NAS message integrity protected and ciphered (type 2) by the AMF under the DL NAS COUNT `dlCount` -/
def protectAt (P : Prims) (ctx : Spec.NasSecurity.SecCtx) (dlCount : Nat) (plain : Bytes) : Option Bytes :=
  (Spec.NasSecurity.amfProtect P ctx ⟨dlCount⟩ 0 0x7E 2 plain).2.2

/-- DLE: what the AMF/SMF answers to the PDU SESSION ESTABLISHMENT REQUEST (PSI `psi`, PTI `pti`) of subscriber `j`, the NAS
    message under the DL NAS COUNT `dlCount`: the address, TEID and UPF address are those of the choice `ch` -/
def dlEstablish (P : Prims) (cfg : Spec.Amf.Cfg) (j : Nat) (ch : Spec.Amf.Choice) (ran : Int) (psi pti dlCount : Nat) :
    Option Bytes := do
  let aka ← Spec.Amf.vector P cfg j ch
  let n ← protectAt P (ctxOf aka) dlCount (dlNasTransportAccept psi pti ch.ueIp)
  ngap (pduSessionResourceSetupRequest ch.amfUeNgapId ran psi n (setupTransfer ch.upfIp ch.teid).encode)

/-- DLS: what the AMF answers to the SERVICE REQUEST received under the UL NAS COUNT `ulCount` -/
def dlService (P : Prims) (cfg : Spec.Amf.Cfg) (j : Nat) (ch : Spec.Amf.Choice) (ran : Int) (psi ulCount dlCount : Nat) :
    Option Bytes := do
  let plmn ← Spec.Amf.plmnOf cfg
  let aka ← Spec.Amf.vector P cfg j ch
  let sa ← nas Spec.Ts24501.serviceAccept (serviceAccept psi)
  let n ← protectAt P (ctxOf aka) dlCount sa
  ngap (initialContextSetupRequest ch.amfUeNgapId ran plmn (kgnbAt P aka.kamf ulCount) n)

/-- DLD1, DLD2: what the AMF answers to the DEREGISTRATION REQUEST -/
def dlDeregister (P : Prims) (cfg : Spec.Amf.Cfg) (j : Nat) (ch : Spec.Amf.Choice) (ran : Int) (dlCount : Nat) :
    Option (Bytes × Bytes) := do
  let aka ← Spec.Amf.vector P cfg j ch
  let da ← nas Spec.Ts24501.deregistrationAcceptUEOriginating deregistrationAccept
  let n ← protectAt P (ctxOf aka) dlCount da
  let d1 ← ngap (downlinkNasTransport ch.amfUeNgapId ran n)
  let d2 ← ngap (ueContextReleaseCommand ch.amfUeNgapId ran)
  pure (d1, d2)

end Stgutg.Spec.AmfDl
