/-
  What the network puts into a PDU SESSION RESOURCE SETUP REQUEST item, written from the standards:

  (a) TS 24.501: a security protected 5GS NAS message (9.1.1: EPD, security header type, MAC, sequence number)
      carrying DL NAS TRANSPORT (table 8.2.11.1.1) whose payload container holds a
      PDU SESSION ESTABLISHMENT ACCEPT (table 8.3.2.1.1).
  (b) ITU-T X.691 ALIGNED PER of the TS 38.413 PDUSessionResourceSetupRequestTransfer (9.3.4.1).

  Nothing here looks at the Go code. Core Lean only.
-/
import Stgutg.Base.Hex

namespace Stgutg.Spec.SetupRequest
open Stgutg

/-! ## (a) TS 24.501 -/

/-- a 2-octet length / number, most significant octet first -/
def be16 (n : Nat) : Bytes := [UInt8.ofNat (n / 256), UInt8.ofNat (n % 256)]

/-- format TV, 2 octets -/
def tv (iei v : UInt8) : Bytes := [iei, v]
/-- format TLV -/
def tlv (iei : UInt8) (v : Bytes) : Bytes := iei :: UInt8.ofNat v.length :: v
/-- format TLV-E -/
def tlvE (iei : UInt8) (v : Bytes) : Bytes := iei :: (be16 v.length ++ v)
/-- format LV -/
def lv (v : Bytes) : Bytes := UInt8.ofNat v.length :: v
/-- format LV-E -/
def lvE (v : Bytes) : Bytes := be16 v.length ++ v
/-- an optional information element -/
def opt {α : Type} (f : α → Bytes) : Option α → Bytes
  | none => []
  | some a => f a

/-- PDU SESSION ESTABLISHMENT ACCEPT, table 8.3.2.1.1 (information elements in table order) -/
structure Accept where
  psi : UInt8
  pti : UInt8
  /-- octet 5: selected SSC mode (bits 7–5) and selected PDU session type (bits 3–1) -/
  sscAndType : UInt8
  /-- authorized QoS rules, LV-E -/
  qosRules : Bytes
  /-- session-AMBR, LV, 6 octets of value -/
  ambr : Bytes
  /-- 59 5GSM cause, TV -/
  cause : Option UInt8 := none
  /-- 29 PDU address, TLV; contents = PDU session type octet followed by the address information -/
  pduAddress : Option Bytes := none
  /-- 56 RQ timer value, TV -/
  rqTimer : Option UInt8 := none
  /-- 22 S-NSSAI, TLV -/
  snssai : Option Bytes := none
  /-- 8- always-on PDU session indication, TV half octet; the APSI bit -/
  alwaysOn : Option UInt8 := none
  /-- 75 mapped EPS bearer contexts, TLV-E -/
  mappedEps : Option Bytes := none
  /-- 78 EAP message, TLV-E -/
  eap : Option Bytes := none
  /-- 79 authorized QoS flow descriptions, TLV-E -/
  qosFlowDescr : Option Bytes := none
  /-- 7B extended protocol configuration options, TLV-E -/
  epco : Option Bytes := none
  /-- 25 DNN, TLV -/
  dnn : Option Bytes := none

/-- the optional information elements after the PDU address, in table order -/
def Accept.afterAddress (a : Accept) : Bytes :=
  opt (tv 0x56) a.rqTimer ++ opt (tlv 0x22) a.snssai ++ opt (fun b => [0x80 ||| (b &&& 1)]) a.alwaysOn ++
  opt (tlvE 0x75) a.mappedEps ++ opt (tlvE 0x78) a.eap ++ opt (tlvE 0x79) a.qosFlowDescr ++
  opt (tlvE 0x7B) a.epco ++ opt (tlv 0x25) a.dnn

def Accept.optionalIEs (a : Accept) : Bytes :=
  opt (tv 0x59) a.cause ++ (opt (tlv 0x29) a.pduAddress ++ a.afterAddress)

/-- extended protocol discriminator 2E, PDU session identity, PTI, message type C2, then the table -/
def Accept.encode (a : Accept) : Bytes :=
  [0x2E, a.psi, a.pti, 0xC2, a.sscAndType] ++ (lvE a.qosRules ++ (lv a.ambr ++ a.optionalIEs))

/-- PDU address contents for PDU session type IPv4 (9.11.4.10): type value 001, then the four address octets -/
def pduAddressV4 (ip : Bytes) : Bytes := 0x01 :: ip

/-- the field lengths fit their length indicators and the fixed-size values have their size -/
def Accept.WellFormed (a : Accept) : Prop :=
  a.qosRules.length < 65536 ∧ a.ambr.length = 6

/-- DL NAS TRANSPORT, table 8.2.11.1.1 -/
structure DlNasTransport where
  /-- payload container type (low half octet; 1 = N1 SM information) -/
  pct : UInt8
  payload : Bytes
  /-- 12 PDU session ID, TV -/
  psi2 : Option UInt8 := none
  /-- 24 additional information, TLV -/
  addInfo : Option Bytes := none
  /-- 58 5GMM cause, TV -/
  cause5gmm : Option UInt8 := none
  /-- 37 back-off timer value, TLV (one octet of value) -/
  backoff : Option UInt8 := none

def DlNasTransport.trailer (d : DlNasTransport) : Bytes :=
  opt (tv 0x12) d.psi2 ++ opt (tlv 0x24) d.addInfo ++ opt (tv 0x58) d.cause5gmm ++ opt (fun b => tlv 0x37 [b]) d.backoff

/-- EPD 7E, security header type 0 (plain), message type 68, payload container type, payload container LV-E -/
def DlNasTransport.encode (d : DlNasTransport) : Bytes :=
  [0x7E, 0x00, 0x68, d.pct] ++ (lvE d.payload ++ d.trailer)

/-- security protected 5GS NAS message (9.1.1): EPD, security header type, MAC (4), sequence number, plain message
    (with 5G-EA0 the plain message is carried unchanged) -/
structure SecHeader where
  sht : UInt8
  mac : Bytes
  sqn : UInt8

def protect (h : SecHeader) (plain : Bytes) : Bytes :=
  0x7E :: h.sht :: (h.mac ++ (h.sqn :: plain))

/-- the NAS-PDU of the setup item -/
def nasPdu (h : SecHeader) (pct : UInt8) (a : Accept) (psi2 : Option UInt8 := none) (addInfo : Option Bytes := none)
    (cause5gmm : Option UInt8 := none) (backoff : Option UInt8 := none) : Bytes :=
  protect h (DlNasTransport.encode { pct, payload := a.encode, psi2, addInfo, cause5gmm, backoff })

/-! ## (b) X.691 ALIGNED PER

  The encoding is a bit string built field by field (10.1); in the ALIGNED variant some fields are
  "octet-aligned": zero bits are inserted so that the field starts on an octet boundary. The writer keeps the
  completed octets and the (fewer than eight) bits of the octet under construction. -/

abbrev Bits := List Bool

/-- the `w` least significant bits of `n`, most significant first -/
def natBits : Nat → Nat → Bits
  | 0, _ => []
  | w + 1, n => (n / 2 ^ w % 2 == 1) :: natBits w n

/-- up to eight bits, most significant first, zero padded on the right, as an octet -/
def octetOfBits (b : Bits) : UInt8 :=
  UInt8.ofNat ((b ++ List.replicate (8 - b.length) false).foldl (fun a x => 2 * a + (if x then 1 else 0)) 0)

structure W where
  done : Bytes := []
  pend : Bits := []

namespace W
def bit (w : W) (b : Bool) : W :=
  let p := w.pend ++ [b]
  if p.length = 8 then ⟨w.done ++ [octetOfBits p], []⟩ else ⟨w.done, p⟩

def bits (w : W) (bs : Bits) : W := bs.foldl bit w

/-- pad with zero bits to the next octet boundary -/
def align (w : W) : W :=
  if w.pend.isEmpty then w else ⟨w.done ++ [octetOfBits w.pend], []⟩

/-- an octet-aligned field of whole octets -/
def octets (w : W) (bs : Bytes) : W :=
  let w := w.align
  ⟨w.done ++ bs, []⟩

/-- 10.1: a complete encoding is a whole number of octets, at least one -/
def finish (w : W) : Bytes :=
  let w := w.align
  if w.done.isEmpty then [0] else w.done
end W

/-- number of bits needed for the values 0 … range-1 (range ≥ 2) -/
def bitWidth (range : Nat) : Nat := Nat.log2 (range - 1) + 1

/-- number of octets of the minimal non-negative-binary-integer encoding (10.3) -/
def octetLen (v : Nat) : Nat := Nat.log2 v / 8 + 1

/-- 10.5 constrained whole number `v` in `lb … ub` (ALIGNED variant, 10.5.7) -/
def cwn (w : W) (lb ub v : Nat) : W :=
  let range := ub - lb + 1
  let n := v - lb
  if range = 1 then w
  else if range ≤ 255 then w.bits (natBits (bitWidth range) n)              -- 10.5.7.1 bit-field, not aligned
  else if range = 256 then w.octets (natBE 1 n)                               -- 10.5.7.2
  else if range ≤ 65536 then w.octets (natBE 2 n)                             -- 10.5.7.3
  else                                                                         -- 10.5.7.4 indefinite length case:
    let maxLen := octetLen (ub - lb)                                           -- length in 1 … maxLen as a bit-field,
    let len := octetLen n                                                      -- then the octets, aligned
    (w.bits (natBits (bitWidth maxLen) (len - 1))).octets (natBE len n)

/-- 12 / 13: INTEGER or ENUMERATED with an extension marker whose value is in the root: extension bit 0 first -/
def cwnExt (w : W) (lb ub v : Nat) : W := cwn (w.bit false) lb ub v

/-- 10.9 general length determinant for an unconstrained length below 16 K -/
def lengthDet (n : Nat) : Bytes :=
  if n < 128 then [UInt8.ofNat n] else [UInt8.ofNat (128 + n / 256), UInt8.ofNat (n % 256)]

/-- 10.2 open type field: the complete encoding of the value as an octet-aligned field preceded by its length -/
def openType (w : W) (value : Bytes) : W := w.octets (lengthDet value.length ++ value)

/-! ### TS 38.413 types (9.3.4.1 and the types it uses; criticalities from the table) -/

/-- BitRate ::= INTEGER (0..4000000000000, ...) -/
def bitRate (w : W) (v : Nat) : W := cwnExt w 0 4000000000000 v

/-- PDUSessionAggregateMaximumBitRate ::= SEQUENCE { dL BitRate, uL BitRate, iE-Extensions OPTIONAL, ... } -/
def ambrValue (dl ul : Nat) : Bytes :=
  (bitRate (bitRate ((({} : W).bit false).bit false) dl) ul).finish

/-- UPTransportLayerInformation ::= CHOICE { gTPTunnel GTPTunnel, choice-Extensions … } (index in one bit);
    GTPTunnel ::= SEQUENCE { transportLayerAddress, gTP-TEID, iE-Extensions OPTIONAL, ... };
    TransportLayerAddress ::= BIT STRING (SIZE(1..160, ...)): extension bit, length, octet-aligned bits;
    GTP-TEID ::= OCTET STRING (SIZE(4)): fixed size above two octets, octet-aligned, no length -/
def upTnlValue (tla teid : Bytes) : Bytes :=
  let w := ((({} : W).bit false).bit false).bit false        -- CHOICE index 0, extension bit, iE-Extensions absent
  let w := cwn (w.bit false) 1 160 (8 * tla.length)           -- size in the root; length of the bit string
  let w := w.octets tla
  (w.octets teid).finish

/-- PDUSessionType ::= ENUMERATED { ipv4, ipv6, ipv4v6, ethernet, unstructured, ... } -/
def pduTypeValue (t : Nat) : Bytes := (cwnExt {} 0 4 t).finish

/-- one QosFlowSetupRequestItem with a non-dynamic 5QI and no optional component -/
structure QosFlow where
  qfi : Nat
  fiveQI : Nat
  arp : Nat
  cap : Nat
  vul : Nat

def qosFlowItem (w : W) (q : QosFlow) : W :=
  let w := ((w.bit false).bit false).bit false          -- QosFlowSetupRequestItem: extension bit, e-RAB-ID, iE-Extensions
  let w := cwnExt w 0 63 q.qfi                          -- QosFlowIdentifier ::= INTEGER (0..63, ...)
  let w := w.bits [false, false, false, false, false]   -- QosFlowLevelQosParameters: extension bit, four OPTIONALs
  let w := cwn w 0 2 0                                  -- QosCharacteristics CHOICE of three: nonDynamic5QI
  let w := w.bits [false, false, false, false, false]   -- NonDynamic5QIDescriptor: extension bit, four OPTIONALs
  let w := cwnExt w 0 255 q.fiveQI                      -- FiveQI ::= INTEGER (0..255, ...)
  let w := w.bits [false, false]                        -- AllocationAndRetentionPriority: extension bit, iE-Extensions
  let w := cwn w 1 15 q.arp                             -- PriorityLevelARP ::= INTEGER (1..15)
  let w := cwnExt w 0 1 q.cap                           -- Pre-emptionCapability ::= ENUMERATED {…, ...}
  cwnExt w 0 1 q.vul                                    -- Pre-emptionVulnerability

/-- QosFlowSetupRequestList ::= SEQUENCE (SIZE(1..maxnoofQosFlows)) OF QosFlowSetupRequestItem, maxnoofQosFlows = 64 -/
def qosListValue (l : List QosFlow) : Bytes :=
  (l.foldl qosFlowItem (cwn {} 1 64 l.length)).finish

/-- ProtocolIE-Field: id ProtocolIE-ID (0..65535), criticality ENUMERATED {reject, ignore, notify}, value open type -/
def protocolIE (w : W) (id crit : Nat) (value : Bytes) : W :=
  openType (cwn (cwn w 0 65535 id) 0 2 crit) value

structure Transfer where
  /-- id 130 PDU Session Aggregate Maximum Bit Rate (DL, UL), optional -/
  ambr : Option (Nat × Nat) := none
  /-- id 139 UL NG-U UP TNL Information: transport layer address octets and GTP-TEID -/
  tla : Bytes
  teid : Bytes
  /-- id 134 PDU Session Type -/
  pduType : Option Nat := none
  /-- id 136 QoS Flow Setup Request List -/
  qos : Option (List QosFlow) := none

/-- the protocol IEs (id, criticality, value) in the order of the table in 9.3.4.1; all four have criticality reject -/
def Transfer.ambrIes (t : Transfer) : List (Nat × Nat × Bytes) :=
  match t.ambr with
  | some (dl, ul) => [(130, 0, ambrValue dl ul)]
  | none => []

def Transfer.tailIes (t : Transfer) : List (Nat × Nat × Bytes) :=
  (match t.pduType with | some p => [(134, 0, pduTypeValue p)] | none => []) ++
  (match t.qos with | some l => [(136, 0, qosListValue l)] | none => [])

def Transfer.ies (t : Transfer) : List (Nat × Nat × Bytes) :=
  t.ambrIes ++ ((139, 0, upTnlValue t.tla t.teid) :: t.tailIes)

/-- PDUSessionResourceSetupRequestTransfer ::= SEQUENCE { protocolIEs ProtocolIE-Container {{…}}, ... }:
    extension bit; ProtocolIE-Container ::= SEQUENCE (SIZE(0..65535)) OF ProtocolIE-Field -/
def encodeContainer (ies : List (Nat × Nat × Bytes)) : Bytes :=
  let w := cwn (({} : W).bit false) 0 65535 ies.length
  (ies.foldl (fun w ie => protocolIE w ie.1 ie.2.1 ie.2.2) w).finish

def Transfer.encode (t : Transfer) : Bytes := encodeContainer t.ies

/-- the value ranges of the types -/
def Transfer.WellFormed (t : Transfer) : Prop :=
  (∀ dl ul, t.ambr = some (dl, ul) → dl ≤ 4000000000000 ∧ ul ≤ 4000000000000) ∧
  t.teid.length = 4 ∧ 1 ≤ t.tla.length ∧ t.tla.length ≤ 20 ∧
  (∀ p, t.pduType = some p → p ≤ 4) ∧
  (∀ l, t.qos = some l → 1 ≤ l.length ∧ l.length ≤ 64 ∧
     ∀ q ∈ l, q.qfi ≤ 63 ∧ q.fiveQI ≤ 255 ∧ 1 ≤ q.arp ∧ q.arp ≤ 15 ∧ q.cap ≤ 1 ∧ q.vul ≤ 1)

/-! ### TS 38.413 9.2.1.1 PDU SESSION RESOURCE SETUP REQUEST: the protocol IE ids in table order -/

/-- AMF UE NGAP ID (10), RAN UE NGAP ID (85), RAN Paging Priority (83, optional), NAS-PDU (38, optional),
    PDU Session Resource Setup Request List (74) -/
def setupRequestIds (ranPagingPriority nasPdu : Bool) : List Nat :=
  [10, 85] ++ (if ranPagingPriority then [83] else []) ++ (if nasPdu then [38] else []) ++ [74]

end Stgutg.Spec.SetupRequest
