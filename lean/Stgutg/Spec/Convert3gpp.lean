/-
  The encodings the conversion helpers are to produce, written from the specifications:

  * S-NSSAI            TS 24.501 9.11.2.8  (value part: length of contents, SST, optional SD of 3 octets)
  * AMF identifier     TS 23.003 2.10.1    (AMF Region ID 8 bits ‖ AMF Set ID 10 bits ‖ AMF Pointer 6 bits)
  * transport layer address  TS 38.414 5.1 (BIT STRING: 32 bits IPv4, 128 bits IPv6, 160 bits = IPv4 then IPv6)
  * protocol configuration options  TS 24.008 10.5.6.3 (octet 3 = ext 1 | spare 0000 | configuration protocol 000,
                         then units: identifier 2 octets, length 1 octet, contents)
  * DNN                TS 24.501 9.11.2.1A / TS 23.003 9.1 as carried by `util_3gpp.Dnn`: length octet, value
  The 3-octet PLMN is in Spec/Ts24501Identity.lean.
-/
import Stgutg.Base.Hex

namespace Stgutg.Spec.Convert
open Stgutg

/-! ### S-NSSAI -/

structure Snssai where
  sst : Nat
  sd : Option (UInt8 × UInt8 × UInt8)
  deriving DecidableEq, Repr

def snssaiEncode (s : Snssai) : Bytes :=
  match s.sd with
  | none => [1, UInt8.ofNat s.sst]
  | some (a, b, c) => [4, UInt8.ofNat s.sst, a, b, c]

/-- reader of the length-1 and length-4 forms (the forms with a mapped HPLMN SST are not produced here) -/
def snssaiDecode (b : Bytes) : Option Snssai :=
  match b with
  | [1, sst] => some { sst := sst.toNat, sd := none }
  | [4, sst, a, b, c] => some { sst := sst.toNat, sd := some (a, b, c) }
  | _ => none

/-! ### AMF identifier: a 24-bit number -/

structure AmfId where
  region : Nat
  set : Nat
  pointer : Nat
  deriving DecidableEq, Repr

def amfIdSplit (n : Nat) : AmfId :=
  { region := n / 2 ^ 16 % 2 ^ 8, set := n / 2 ^ 6 % 2 ^ 10, pointer := n % 2 ^ 6 }

def amfIdJoin (a : AmfId) : Nat := a.region * 2 ^ 16 + a.set * 2 ^ 6 + a.pointer

/-- the three octets of the identifier, most significant first (its textual form is their 6 hex digits) -/
def amfIdOctets (n : Nat) : Bytes := [UInt8.ofNat (n / 2 ^ 16), UInt8.ofNat (n / 2 ^ 8), UInt8.ofNat n]

/-! ### transport layer address -/

structure BitString where
  bytes : Bytes
  bitLength : Nat
  deriving DecidableEq, Repr

/-- `v4` has 4 octets, `v6` has 16 -/
def tlaEncode (v4 v6 : Option Bytes) : Option BitString :=
  match v4, v6 with
  | some a, none => if a.length = 4 then some { bytes := a, bitLength := 32 } else none
  | none, some b => if b.length = 16 then some { bytes := b, bitLength := 128 } else none
  | some a, some b => if a.length = 4 ∧ b.length = 16 then some { bytes := a ++ b, bitLength := 160 } else none
  | none, none => none

def tlaDecode (t : BitString) : Option (Option Bytes × Option Bytes) :=
  if t.bitLength = 32 ∧ t.bytes.length = 4 then some (some t.bytes, none)
  else if t.bitLength = 128 ∧ t.bytes.length = 16 then some (none, some t.bytes)
  else if t.bitLength = 160 ∧ t.bytes.length = 20 then some (some (t.bytes.take 4), some (t.bytes.drop 4))
  else none

/-! ### protocol configuration options -/

structure Container where
  id : Nat
  contents : Bytes
  deriving DecidableEq, Repr

def pcoEncodeUnits : List Container → Bytes
  | [] => []
  | c :: rest =>
    [UInt8.ofNat (c.id / 256), UInt8.ofNat c.id, UInt8.ofNat c.contents.length] ++ c.contents ++ pcoEncodeUnits rest

def pcoEncode (l : List Container) : Bytes := 0x80 :: pcoEncodeUnits l

/-- reader of the unit list; every unit takes at least three octets, so `fuel = length` is enough -/
def pcoDecodeUnits : Nat → Bytes → Option (List Container)
  | _, [] => some []
  | 0, _ => none
  | fuel + 1, i1 :: i2 :: l :: rest =>
    if rest.length < l.toNat then none
    else (pcoDecodeUnits fuel (rest.drop l.toNat)).map
      (fun t => { id := i1.toNat * 256 + i2.toNat, contents := rest.take l.toNat } :: t)
  | _ + 1, _ => none

def pcoDecode (b : Bytes) : Option (List Container) :=
  match b with
  | 0x80 :: rest => pcoDecodeUnits rest.length rest
  | _ => none

/-! ### DNN -/

def dnnEncode (d : Bytes) : Bytes := UInt8.ofNat d.length :: d

def dnnDecode (b : Bytes) : Option Bytes :=
  match b with
  | l :: v => if l.toNat = v.length then some v else none
  | [] => none

end Stgutg.Spec.Convert
