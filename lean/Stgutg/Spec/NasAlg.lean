/-
  128-EEA1 / 128-EIA1 (TS 35.215 with the TS 33.401 Annex B.1.2/B.2.2 input mapping),
  128-EEA2 / 128-EIA2 (TS 33.401 Annex B.1.3 / B.2.3). Written from the specifications.
-/
import Stgutg.Base.Prims
import Stgutg.Base.Words
import Stgutg.Spec.Snow3g

namespace Stgutg.Spec.NasAlg
open Stgutg.Spec

/-- octets `A ‖ B ‖ C ‖ D` as a 32-bit word -/
abbrev word := be32
abbrev wordBytes := u32Bytes
abbrev dword := be64

/-- BEARER[0..4] ‖ DIRECTION[0] ‖ 0^26 as a 32-bit word -/
def bearerDirWord (bearer dir : Nat) : UInt32 := UInt32.ofNat (bearer * 2 ^ 27 + dir * 2 ^ 26)

/-- TS 35.215 f8 keystream: K3 = CK[0..31] … K0 = CK[96..127]; IV3 = COUNT, IV2 = BEARER‖DIR‖0^26, IV1 = IV3, IV0 = IV2. -/
def eea1Keystream (ck : Bytes) (count : UInt32) (bearer dir : Nat) (nOctets : Nat) : Bytes :=
  let k3 := word (ck.take 4)
  let k2 := word ((ck.drop 4).take 4)
  let k1 := word ((ck.drop 8).take 4)
  let k0 := word ((ck.drop 12).take 4)
  let iv2 := bearerDirWord bearer dir
  let st := Snow3g.init k0 k1 k2 k3 iv2 count iv2 count
  ((Snow3g.keystream ((8 * nOctets + 31) / 32) st).flatMap wordBytes).take nOctets

/-- 128-EEA1: output = input ⊕ keystream, octet for octet. -/
def eea1 (ck : Bytes) (count : UInt32) (bearer dir : Nat) (msg : Bytes) : Bytes :=
  xorBytes msg (eea1Keystream ck count bearer dir msg.length)

/-! TS 35.215 f9 -/
def MUL64x (v c : UInt64) : UInt64 := if v &&& 0x8000000000000000 != 0 then (v <<< 1) ^^^ c else v <<< 1
def MUL64xPOW (v : UInt64) (i : Nat) (c : UInt64) : UInt64 :=
  match i with
  | 0 => v
  | n + 1 => MUL64x (MUL64xPOW v n c) c
def MUL64 (v p c : UInt64) : UInt64 :=
  (List.range 64).foldl (fun r i => if (p >>> (UInt64.ofNat i)) &&& 1 == 1 then r ^^^ MUL64xPOW v i c else r) 0


/-- the message split into 64-bit blocks M_0 … M_{D-2}, the last one zero padded (at least one block). -/
def blocks64 : Nat → Bytes → List UInt64
  | 0, _ => []
  | fuel + 1, m =>
    if m.length ≤ 8 then [dword (m ++ List.replicate (8 - m.length) 0)]
    else dword (m.take 8) :: blocks64 fuel (m.drop 8)

/-- 128-EIA1 (UIA2 with COUNT-I = COUNT, FRESH = BEARER‖0^27):
    IV3 = COUNT, IV2 = FRESH, IV1 = COUNT ⊕ (DIR ≪ 31), IV0 = FRESH ⊕ (DIR ≪ 15). -/
def eia1 (ik : Bytes) (count : UInt32) (bearer dir : Nat) (msg : Bytes) : Bytes :=
  let k3 := word (ik.take 4)
  let k2 := word ((ik.drop 4).take 4)
  let k1 := word ((ik.drop 8).take 4)
  let k0 := word ((ik.drop 12).take 4)
  let fresh := UInt32.ofNat (bearer * 2 ^ 27)
  let iv1 := count ^^^ UInt32.ofNat (dir * 2 ^ 31)
  let iv0 := fresh ^^^ UInt32.ofNat (dir * 2 ^ 15)
  let st := Snow3g.init k0 k1 k2 k3 iv0 iv1 fresh count
  match Snow3g.keystream 5 st with
  | [z1, z2, z3, z4, z5] =>
    let P := (z1.toUInt64 <<< 32) ||| z2.toUInt64
    let Q := (z3.toUInt64 <<< 32) ||| z4.toUInt64
    let ev := (blocks64 (msg.length / 8 + 1) msg).foldl (fun e m => MUL64 (e ^^^ m) P 0x1b) 0
    let ev := ev ^^^ UInt64.ofNat (8 * msg.length)
    let ev := MUL64 ev Q 0x1b
    wordBytes ((ev >>> 32).toUInt32 ^^^ z5)
  | _ => []

/-- COUNT[0..31] ‖ BEARER[0..4] ‖ DIRECTION ‖ 0^26 as 8 octets -/
def countBearerDir (count : UInt32) (bearer dir : Nat) : Bytes :=
  wordBytes count ++ [UInt8.ofNat (bearer * 8 + dir * 4), 0, 0, 0]

/-- 128-EEA2: AES-128 CTR with T1 = COUNT ‖ BEARER ‖ DIRECTION ‖ 0^26 ‖ 0^64. -/
def eea2 (P : Prims) (key : Bytes) (count : UInt32) (bearer dir : Nat) (msg : Bytes) : Bytes :=
  P.ctr key (countBearerDir count bearer dir ++ List.replicate 8 0) msg

/-- 128-EIA2: AES-CMAC over COUNT ‖ BEARER ‖ DIRECTION ‖ 0^26 ‖ MESSAGE, Tlen = 32. -/
def eia2 (P : Prims) (key : Bytes) (count : UInt32) (bearer dir : Nat) (msg : Bytes) : Bytes :=
  (P.cmac key (countBearerDir count bearer dir ++ msg)).take 4

/-- the cipher selected by a 5G-EA identifier (TS 33.501 5.11.1.1); `none` = not defined here. -/
def nea (P : Prims) (alg : Nat) (key : Bytes) (count : UInt32) (bearer dir : Nat) (msg : Bytes) : Option Bytes :=
  match alg with
  | 0 => some msg
  | 1 => some (eea1 key count bearer dir msg)
  | 2 => some (eea2 P key count bearer dir msg)
  | _ => none

def nia (P : Prims) (alg : Nat) (key : Bytes) (count : UInt32) (bearer dir : Nat) (msg : Bytes) : Option Bytes :=
  match alg with
  | 1 => some (eia1 key count bearer dir msg)
  | 2 => some (eia2 P key count bearer dir msg)
  | _ => none

end Stgutg.Spec.NasAlg
