/-
  TS 24.501 v15.3.0 — message tables of clauses 8.2 (5GMM) and 8.3 (5GSM), and an independent
  encoder / parser for the standard L3 message structure (TS 24.007 clause 11): V, LV, LV-E mandatory
  part, then optional IEs of type 1 (T½V½), type 3 (TV), type 4 (TLV) and type 6 (TLV-E).

  Written from the standard, not from the Go code.  Lengths are the "Length" column of the tables
  (whole IE, including IEI and length octets); `none` = "n" (no upper bound).  Core Lean only.
-/
import Stgutg.Base.Hex
namespace Stgutg.Spec.Ts24501
open Stgutg

/-- format of an IE in the mandatory (imperative) part -/
inductive MFmt where
  | half                              -- V, ½ octet (two consecutive halves share an octet; first row = bits 4..1)
  | v (n : Nat)                       -- V, n octets
  | vRest (min : Nat)                 -- V, min–n octets, to the end of the message (only 8.2.28)
  | lv (min : Nat) (max : Option Nat) -- LV
  | lve (min : Nat) (max : Option Nat) -- LV-E
  deriving DecidableEq, Repr, Inhabited

structure MRow where
  name : String
  fmt : MFmt
  deriving Repr, Inhabited

inductive OFmt where
  | tvHalf   -- TV, length 1: IEI in bits 8..5, value in bits 4..1
  | tv       -- TV, fixed length
  | tlv      -- TLV
  | tlve     -- TLV-E
  deriving DecidableEq, Repr, Inhabited

structure ORow where
  iei : Nat
  name : String
  fmt : OFmt
  min : Nat
  max : Option Nat
  deriving Repr, Inhabited

structure Table where
  clause : String
  name : String
  /-- 5GSM header (EPD, PDU session ID, PTI, message type) rather than the 5GMM header
      (EPD, security header type ½ + spare ½, message type) -/
  gsm : Bool
  /-- message type octet (table 9.7.1 / 9.7.2); `none` for the security protected 5GS NAS message -/
  msgType : Option Nat
  /-- imperative part after the header -/
  mand : List MRow
  opt : List ORow
  deriving Repr, Inhabited

def epd5GMM : Nat := 0x7E
def epd5GSM : Nat := 0x2E

private def o (iei : Nat) (name : String) (fmt : OFmt) (min : Nat) (max : Option Nat) : ORow := ⟨iei, name, fmt, min, max⟩
private def fx (iei : Nat) (name : String) (fmt : OFmt) (n : Nat) : ORow := ⟨iei, name, fmt, n, some n⟩
private def h (iei : Nat) (name : String) : ORow := ⟨iei, name, .tvHalf, 1, some 1⟩

-- rows that recur
private def eapOpt : ORow := o 0x78 "EAP message" .tlve 7 (some 1503)
private def epco : ORow := o 0x7B "Extended protocol configuration options" .tlve 4 (some 65538)
private def cause5GMM : MRow := ⟨"5GMM cause", .v 1⟩
private def cause5GSM : MRow := ⟨"5GSM cause", .v 1⟩
private def pduSessionStatus : ORow := o 0x50 "PDU session status" .tlv 4 (some 34)

/-! ### 8.2 5GS mobility management messages -/

def authenticationRequest : Table := ⟨"8.2.1", "AuthenticationRequest", false, some 0x56,
  [⟨"ngKSI", .half⟩, ⟨"Spare half octet", .half⟩, ⟨"ABBA", .lv 3 none⟩],
  [fx 0x21 "Authentication parameter RAND (5G authentication challenge)" .tv 17,
   fx 0x20 "Authentication parameter AUTN (5G authentication challenge)" .tlv 18,
   eapOpt]⟩

def authenticationResponse : Table := ⟨"8.2.2", "AuthenticationResponse", false, some 0x57, [],
  [fx 0x2D "Authentication response parameter" .tlv 18, eapOpt]⟩

def authenticationResult : Table := ⟨"8.2.3", "AuthenticationResult", false, some 0x5A,
  [⟨"ngKSI", .half⟩, ⟨"Spare half octet", .half⟩, ⟨"EAP message", .lve 6 (some 1502)⟩],
  [o 0x38 "ABBA" .tlv 4 none]⟩

def authenticationFailure : Table := ⟨"8.2.4", "AuthenticationFailure", false, some 0x59, [cause5GMM],
  [fx 0x30 "Authentication failure parameter" .tlv 16]⟩

def authenticationReject : Table := ⟨"8.2.5", "AuthenticationReject", false, some 0x58, [], [eapOpt]⟩

def registrationRequest : Table := ⟨"8.2.6", "RegistrationRequest", false, some 0x41,
  [⟨"5GS registration type", .half⟩, ⟨"ngKSI", .half⟩, ⟨"5GS mobile identity", .lve 6 none⟩],
  [h 0xC "Non-current native NAS key set identifier",
   o 0x10 "5GMM capability" .tlv 3 (some 15),
   o 0x2E "UE security capability" .tlv 4 (some 10),
   o 0x2F "Requested NSSAI" .tlv 4 (some 74),
   fx 0x52 "Last visited registered TAI" .tv 7,
   o 0x17 "S1 UE network capability" .tlv 4 (some 15),
   o 0x40 "Uplink data status" .tlv 4 (some 34),
   pduSessionStatus,
   h 0xB "MICO indication",
   fx 0x2B "UE status" .tlv 3,
   fx 0x77 "Additional GUTI" .tlve 14,
   o 0x25 "Allowed PDU session status" .tlv 4 (some 34),
   fx 0x18 "UE's usage setting" .tlv 3,
   fx 0x51 "Requested DRX parameters" .tlv 3,
   o 0x70 "EPS NAS message container" .tlve 4 none,
   o 0x74 "LADN indication" .tlve 3 (some 811),
   o 0x7B "Payload container" .tlve 4 (some 65538),
   h 0x9 "Network slicing indication",
   fx 0x53 "5GS update type" .tlv 3,
   o 0x71 "NAS message container" .tlve 4 none]⟩

def registrationAccept : Table := ⟨"8.2.7", "RegistrationAccept", false, some 0x42,
  [⟨"5GS registration result", .lv 2 (some 2)⟩],
  [fx 0x77 "5G-GUTI" .tlve 14,
   o 0x4A "Equivalent PLMNs" .tlv 5 (some 47),
   o 0x54 "TAI list" .tlv 9 (some 114),
   o 0x15 "Allowed NSSAI" .tlv 4 (some 74),
   o 0x11 "Rejected NSSAI" .tlv 4 (some 42),
   o 0x31 "Configured NSSAI" .tlv 4 (some 146),
   o 0x21 "5GS network feature support" .tlv 3 (some 5),
   pduSessionStatus,
   o 0x26 "PDU session reactivation result" .tlv 4 (some 34),
   o 0x72 "PDU session reactivation result error cause" .tlve 5 (some 515),
   o 0x79 "LADN information" .tlve 12 (some 1715),
   h 0xB "MICO indication",
   h 0x9 "Network slicing indication",
   o 0x27 "Service area list" .tlv 6 (some 114),
   fx 0x5E "T3512 value" .tlv 3,
   fx 0x5D "Non-3GPP de-registration timer value" .tlv 3,
   fx 0x16 "T3502 value" .tlv 3,
   o 0x34 "Emergency number list" .tlv 5 (some 50),
   o 0x7A "Extended emergency number list" .tlve 7 (some 65538),
   o 0x73 "SOR transparent container" .tlve 20 none,
   eapOpt,
   h 0xA "NSSAI inclusion mode",
   o 0x76 "Operator-defined access category definitions" .tlve 3 none,
   fx 0x51 "Negotiated DRX parameters" .tlv 3]⟩

def registrationComplete : Table := ⟨"8.2.8", "RegistrationComplete", false, some 0x43, [],
  [fx 0x73 "SOR transparent container" .tlve 20]⟩

def registrationReject : Table := ⟨"8.2.9", "RegistrationReject", false, some 0x44, [cause5GMM],
  [fx 0x5F "T3346 value" .tlv 3, fx 0x16 "T3502 value" .tlv 3, eapOpt]⟩

def ulNasTransport : Table := ⟨"8.2.10", "ULNASTransport", false, some 0x67,
  [⟨"Payload container type", .half⟩, ⟨"Spare half octet", .half⟩, ⟨"Payload container", .lve 3 (some 65537)⟩],
  [fx 0x12 "PDU session ID" .tv 2,
   fx 0x59 "Old PDU session ID" .tv 2,
   h 0x8 "Request type",
   o 0x22 "S-NSSAI" .tlv 3 (some 10),
   o 0x25 "DNN" .tlv 3 (some 102),
   o 0x24 "Additional information" .tlv 3 none]⟩

def dlNasTransport : Table := ⟨"8.2.11", "DLNASTransport", false, some 0x68,
  [⟨"Payload container type", .half⟩, ⟨"Spare half octet", .half⟩, ⟨"Payload container", .lve 3 (some 65537)⟩],
  [fx 0x12 "PDU session ID" .tv 2,
   o 0x24 "Additional information" .tlv 3 none,
   fx 0x58 "5GMM cause" .tv 2,
   fx 0x37 "Back-off timer value" .tlv 3]⟩

def deregistrationRequestUEOriginating : Table := ⟨"8.2.12", "DeregistrationRequestUEOriginatingDeregistration", false, some 0x45,
  [⟨"De-registration type", .half⟩, ⟨"ngKSI", .half⟩, ⟨"5GS mobile identity", .lve 6 none⟩], []⟩

def deregistrationAcceptUEOriginating : Table := ⟨"8.2.13", "DeregistrationAcceptUEOriginatingDeregistration", false, some 0x46, [], []⟩

def deregistrationRequestUETerminated : Table := ⟨"8.2.14", "DeregistrationRequestUETerminatedDeregistration", false, some 0x47,
  [⟨"De-registration type", .half⟩, ⟨"Spare half octet", .half⟩],
  [fx 0x58 "5GMM cause" .tv 2, fx 0x5F "T3346 value" .tlv 3]⟩

def deregistrationAcceptUETerminated : Table := ⟨"8.2.15", "DeregistrationAcceptUETerminatedDeregistration", false, some 0x48, [], []⟩

def serviceRequest : Table := ⟨"8.2.16", "ServiceRequest", false, some 0x4C,
  [⟨"ngKSI", .half⟩, ⟨"Service type", .half⟩, ⟨"5G-S-TMSI", .lve 9 (some 9)⟩],
  [o 0x40 "Uplink data status" .tlv 4 (some 34),
   pduSessionStatus,
   o 0x25 "Allowed PDU session status" .tlv 4 (some 34),
   o 0x71 "NAS message container" .tlve 4 none]⟩

def serviceAccept : Table := ⟨"8.2.17", "ServiceAccept", false, some 0x4E, [],
  [pduSessionStatus,
   o 0x26 "PDU session reactivation result" .tlv 4 (some 34),
   o 0x72 "PDU session reactivation result error cause" .tlve 5 (some 515),
   eapOpt]⟩

def serviceReject : Table := ⟨"8.2.18", "ServiceReject", false, some 0x4D, [cause5GMM],
  [pduSessionStatus, fx 0x5F "T3346 value" .tlv 3, eapOpt]⟩

def configurationUpdateCommand : Table := ⟨"8.2.19", "ConfigurationUpdateCommand", false, some 0x54, [],
  [h 0xD "Configuration update indication",
   fx 0x77 "5G-GUTI" .tlve 14,
   o 0x54 "TAI list" .tlv 9 (some 114),
   o 0x15 "Allowed NSSAI" .tlv 4 (some 74),
   o 0x27 "Service area list" .tlv 6 (some 114),
   o 0x43 "Full name for network" .tlv 3 none,
   o 0x45 "Short name for network" .tlv 3 none,
   fx 0x46 "Local time zone" .tv 2,
   fx 0x47 "Universal time and local time zone" .tv 8,
   fx 0x49 "Network daylight saving time" .tlv 3,
   o 0x79 "LADN information" .tlve 3 (some 1715),
   h 0xB "MICO indication",
   h 0x9 "Network slicing indication",
   o 0x31 "Configured NSSAI" .tlv 4 (some 146),
   o 0x11 "Rejected NSSAI" .tlv 4 (some 42),
   o 0x76 "Operator-defined access category definitions" .tlve 3 none,
   h 0xF "SMS indication"]⟩

def configurationUpdateComplete : Table := ⟨"8.2.20", "ConfigurationUpdateComplete", false, some 0x55, [], []⟩

def identityRequest : Table := ⟨"8.2.21", "IdentityRequest", false, some 0x5B,
  [⟨"Identity type", .half⟩, ⟨"Spare half octet", .half⟩], []⟩

def identityResponse : Table := ⟨"8.2.22", "IdentityResponse", false, some 0x5C,
  [⟨"Mobile identity", .lve 3 none⟩], []⟩

def notification : Table := ⟨"8.2.23", "Notification", false, some 0x65,
  [⟨"Access type", .half⟩, ⟨"Spare half octet", .half⟩], []⟩

def notificationResponse : Table := ⟨"8.2.24", "NotificationResponse", false, some 0x66, [], [pduSessionStatus]⟩

def securityModeCommand : Table := ⟨"8.2.25", "SecurityModeCommand", false, some 0x5D,
  [⟨"Selected NAS security algorithms", .v 1⟩, ⟨"ngKSI", .half⟩, ⟨"Spare half octet", .half⟩,
   ⟨"Replayed UE security capabilities", .lv 3 (some 9)⟩],
  [h 0xE "IMEISV request",
   fx 0x57 "Selected EPS NAS security algorithms" .tv 2,
   fx 0x36 "Additional 5G security information" .tlv 3,
   eapOpt,
   o 0x38 "ABBA" .tlv 4 none,
   o 0x19 "Replayed S1 UE security capabilities" .tlv 4 (some 7)]⟩

def securityModeComplete : Table := ⟨"8.2.26", "SecurityModeComplete", false, some 0x5E, [],
  [fx 0x77 "IMEISV" .tlve 12, o 0x71 "NAS message container" .tlve 4 none]⟩

def securityModeReject : Table := ⟨"8.2.27", "SecurityModeReject", false, some 0x5F, [cause5GMM], []⟩

def securityProtected5GSNASMessage : Table := ⟨"8.2.28", "SecurityProtected5GSNASMessage", false, none,
  [⟨"Message authentication code", .v 4⟩, ⟨"Sequence number", .v 1⟩, ⟨"Plain 5GS NAS message", .vRest 3⟩], []⟩

def status5GMM : Table := ⟨"8.2.29", "Status5GMM", false, some 0x64, [cause5GMM], []⟩

/-! ### 8.3 5GS session management messages -/

def pduSessionEstablishmentRequest : Table := ⟨"8.3.1", "PDUSessionEstablishmentRequest", true, some 0xC1,
  [⟨"Integrity protection maximum data rate", .v 2⟩],
  [h 0x9 "PDU session type",
   h 0xA "SSC mode",
   o 0x28 "5GSM capability" .tlv 3 (some 15),
   fx 0x55 "Maximum number of supported packet filters" .tv 3,
   h 0xB "Always-on PDU session requested",
   o 0x39 "SM PDU DN request container" .tlv 3 (some 255),
   epco]⟩

def pduSessionEstablishmentAccept : Table := ⟨"8.3.2", "PDUSessionEstablishmentAccept", true, some 0xC2,
  [⟨"Selected PDU session type", .half⟩, ⟨"Selected SSC mode", .half⟩,
   ⟨"Authorized QoS rules", .lve 6 (some 65538)⟩, ⟨"Session AMBR", .lv 7 (some 7)⟩],
  [fx 0x59 "5GSM cause" .tv 2,
   o 0x29 "PDU address" .tlv 7 (some 15),
   fx 0x56 "RQ timer value" .tv 2,
   o 0x22 "S-NSSAI" .tlv 3 (some 10),
   h 0x8 "Always-on PDU session indication",
   o 0x75 "Mapped EPS bearer contexts" .tlve 7 (some 65538),
   eapOpt,
   o 0x79 "Authorized QoS flow descriptions" .tlve 6 (some 65538),
   epco,
   o 0x25 "DNN" .tlv 3 (some 102)]⟩

def pduSessionEstablishmentReject : Table := ⟨"8.3.3", "PDUSessionEstablishmentReject", true, some 0xC3, [cause5GSM],
  [fx 0x37 "Back-off timer value" .tlv 3, h 0xF "Allowed SSC mode", eapOpt, epco]⟩

def pduSessionAuthenticationCommand : Table := ⟨"8.3.4", "PDUSessionAuthenticationCommand", true, some 0xC5,
  [⟨"EAP message", .lve 6 (some 1502)⟩], [epco]⟩

def pduSessionAuthenticationComplete : Table := ⟨"8.3.5", "PDUSessionAuthenticationComplete", true, some 0xC6,
  [⟨"EAP message", .lve 6 (some 1502)⟩], [epco]⟩

def pduSessionAuthenticationResult : Table := ⟨"8.3.6", "PDUSessionAuthenticationResult", true, some 0xC7, [],
  [eapOpt, epco]⟩

def pduSessionModificationRequest : Table := ⟨"8.3.7", "PDUSessionModificationRequest", true, some 0xC9, [],
  [o 0x28 "5GSM capability" .tlv 3 (some 15),
   fx 0x59 "5GSM cause" .tv 2,
   fx 0x55 "Maximum number of supported packet filters" .tv 3,
   h 0xB "Always-on PDU session requested",
   fx 0x13 "Integrity protection maximum data rate" .tv 3,
   o 0x7A "Requested QoS rules" .tlve 7 (some 65538),
   o 0x79 "Requested QoS flow descriptions" .tlve 6 (some 65538),
   -- 7F in tables 8.3.7.1.1 and 8.3.9.1.1 of Rel-15 (75 only in the establishment accept, 8.3.2.1.1)
   o 0x7F "Mapped EPS bearer contexts" .tlve 7 (some 65538),
   epco]⟩

def pduSessionModificationReject : Table := ⟨"8.3.8", "PDUSessionModificationReject", true, some 0xCA, [cause5GSM],
  [fx 0x37 "Back-off timer value" .tlv 3, epco]⟩

def pduSessionModificationCommand : Table := ⟨"8.3.9", "PDUSessionModificationCommand", true, some 0xCB, [],
  [fx 0x59 "5GSM cause" .tv 2,
   fx 0x2A "Session AMBR" .tlv 8,
   fx 0x56 "RQ timer value" .tv 2,
   h 0x8 "Always-on PDU session indication",
   o 0x7A "Authorized QoS rules" .tlve 7 (some 65538),
   o 0x7F "Mapped EPS bearer contexts" .tlve 7 (some 65538),
   o 0x79 "Authorized QoS flow descriptions" .tlve 6 (some 65538),
   epco]⟩

def pduSessionModificationComplete : Table := ⟨"8.3.10", "PDUSessionModificationComplete", true, some 0xCC, [], [epco]⟩

def pduSessionModificationCommandReject : Table := ⟨"8.3.11", "PDUSessionModificationCommandReject", true, some 0xCD,
  [cause5GSM], [epco]⟩

def pduSessionReleaseRequest : Table := ⟨"8.3.12", "PDUSessionReleaseRequest", true, some 0xD1, [],
  [fx 0x59 "5GSM cause" .tv 2, epco]⟩

def pduSessionReleaseReject : Table := ⟨"8.3.13", "PDUSessionReleaseReject", true, some 0xD2, [cause5GSM], [epco]⟩

def pduSessionReleaseCommand : Table := ⟨"8.3.14", "PDUSessionReleaseCommand", true, some 0xD3, [cause5GSM],
  [fx 0x37 "Back-off timer value" .tlv 3, eapOpt, epco]⟩

def pduSessionReleaseComplete : Table := ⟨"8.3.15", "PDUSessionReleaseComplete", true, some 0xD4, [],
  [fx 0x59 "5GSM cause" .tv 2, epco]⟩

def status5GSM : Table := ⟨"8.3.16", "Status5GSM", true, some 0xD6, [cause5GSM], []⟩

/-- all 45 tables, in the order of the standard -/
def tables : List Table := [
  authenticationRequest, authenticationResponse, authenticationResult, authenticationFailure, authenticationReject,
  registrationRequest, registrationAccept, registrationComplete, registrationReject, ulNasTransport, dlNasTransport,
  deregistrationRequestUEOriginating, deregistrationAcceptUEOriginating, deregistrationRequestUETerminated,
  deregistrationAcceptUETerminated, serviceRequest, serviceAccept, serviceReject, configurationUpdateCommand,
  configurationUpdateComplete, identityRequest, identityResponse, notification, notificationResponse,
  securityModeCommand, securityModeComplete, securityModeReject, securityProtected5GSNASMessage, status5GMM,
  pduSessionEstablishmentRequest, pduSessionEstablishmentAccept, pduSessionEstablishmentReject,
  pduSessionAuthenticationCommand, pduSessionAuthenticationComplete, pduSessionAuthenticationResult,
  pduSessionModificationRequest, pduSessionModificationReject, pduSessionModificationCommand,
  pduSessionModificationComplete, pduSessionModificationCommandReject, pduSessionReleaseRequest,
  pduSessionReleaseReject, pduSessionReleaseCommand, pduSessionReleaseComplete, status5GSM]

def tableByName (n : String) : Option Table := tables.find? (·.name == n)

/-! ### wire structure (TS 24.007 clause 11.2) -/

/-- one element of the imperative part as it lies on the wire (two half-octet rows make one octet) -/
inductive MWire where
  | v (n : Nat)
  | vRest (min : Nat)
  | lv (fixed : Option Nat)     -- one length octet; `fixed` = number of value octets when the table fixes it
  | lve (fixed : Option Nat)    -- two length octets
  deriving DecidableEq, Repr, Inhabited

/-- one optional IE as it lies on the wire -/
inductive OKind where
  | half                        -- type 1
  | tv (valueLen : Nat)         -- type 3: IEI + valueLen octets
  | tlv                         -- type 4
  | tlve                        -- type 6
  deriving DecidableEq, Repr, Inhabited

structure OWire where
  iei : Nat
  kind : OKind
  /-- table bounds on the number of value octets (TLV / TLV-E) -/
  minVal : Nat
  maxVal : Option Nat
  deriving DecidableEq, Repr, Inhabited

structure Wire where
  mand : List MWire
  opt : List OWire
  deriving DecidableEq, Repr, Inhabited

def fixedOf (overhead min : Nat) (max : Option Nat) : Option Nat :=
  match max with
  | some mx => if mx = min then some (min - overhead) else none
  | none => none

/-- pair the half-octet rows; `none` if a half octet is left unpaired -/
def mandWire : List MRow → Option (List MWire)
  | [] => some []
  | ⟨_, .half⟩ :: ⟨_, .half⟩ :: rest => (mandWire rest).map (.v 1 :: ·)
  | ⟨_, .half⟩ :: _ => none
  | ⟨_, .v n⟩ :: rest => (mandWire rest).map (.v n :: ·)
  | ⟨_, .vRest mn⟩ :: rest => (mandWire rest).map (.vRest mn :: ·)
  | ⟨_, .lv mn mx⟩ :: rest => (mandWire rest).map (.lv (fixedOf 1 mn mx) :: ·)
  | ⟨_, .lve mn mx⟩ :: rest => (mandWire rest).map (.lve (fixedOf 2 mn mx) :: ·)

def headerRows (gsm : Bool) (hasType : Bool) : List MRow :=
  if gsm then [⟨"Extended protocol discriminator", .v 1⟩, ⟨"PDU session ID", .v 1⟩,
               ⟨"PTI", .v 1⟩, ⟨"Message type", .v 1⟩]
  else [⟨"Extended protocol discriminator", .v 1⟩, ⟨"Security header type", .half⟩, ⟨"Spare half octet", .half⟩] ++
       (if hasType then [⟨"Message type", .v 1⟩] else [])

def optWire (r : ORow) : OWire :=
  match r.fmt with
  | .tvHalf => ⟨r.iei, .half, 0, some 0⟩
  | .tv => ⟨r.iei, .tv (r.min - 1), r.min - 1, some (r.min - 1)⟩
  | .tlv => ⟨r.iei, .tlv, r.min - 2, r.max.map (· - 2)⟩
  | .tlve => ⟨r.iei, .tlve, r.min - 3, r.max.map (· - 3)⟩

/-- the wire structure of a whole message: header, imperative part, optional IEs -/
def Table.wire (t : Table) : Option Wire :=
  (mandWire (headerRows t.gsm t.msgType.isSome ++ t.mand)).map fun m => ⟨m, t.opt.map optWire⟩

/-! ### abstract message, encoder, parser -/

/-- a message as the standard sees it: the value part of every imperative element (one entry per wire
    element, header octets first) and the optional IEs present, each as (IEI, value part).  The value
    part of a type 1 IE is one octet holding the value nibble. -/
structure SMsg where
  mand : List Bytes
  opt : List (Nat × Bytes)
  deriving DecidableEq, Repr, Inhabited

def be16 (n : Nat) : Bytes := [UInt8.ofNat (n / 256), UInt8.ofNat n]

/-- a length the table fixes must be the length sent (TS 24.501 7.5: otherwise the mandatory IE is syntactically incorrect) -/
def fixedOK (fx : Option Nat) (n : Nat) : Bool :=
  match fx with
  | some k => k == n
  | none => true

def encMand : List MWire → List Bytes → Option Bytes
  | [], [] => some []
  | .v n :: ws, b :: bs => if b.length = n then (encMand ws bs).map (b ++ ·) else none
  | .vRest mn :: ws, b :: bs => if mn ≤ b.length then (encMand ws bs).map (b ++ ·) else none
  | .lv fx :: ws, b :: bs =>
    if b.length < 256 ∧ fixedOK fx b.length = true then (encMand ws bs).map ([UInt8.ofNat b.length] ++ b ++ ·) else none
  | .lve fx :: ws, b :: bs =>
    if b.length < 65536 ∧ fixedOK fx b.length = true then (encMand ws bs).map (be16 b.length ++ b ++ ·) else none
  | _, _ => none

def encOptIE (w : OWire) (val : Bytes) : Option Bytes :=
  match w.kind with
  | .half =>
    match val with
    | [x] => if x.toNat < 16 ∧ 8 ≤ w.iei ∧ w.iei < 16 then some [UInt8.ofNat (w.iei * 16 + x.toNat)] else none
    | _ => none
  | .tv n => if val.length = n ∧ w.iei < 128 then some (UInt8.ofNat w.iei :: val) else none
  | .tlv => if val.length < 256 ∧ w.iei < 128 then some (UInt8.ofNat w.iei :: UInt8.ofNat val.length :: val) else none
  | .tlve => if val.length < 65536 ∧ w.iei < 128 then some (UInt8.ofNat w.iei :: (be16 val.length ++ val)) else none

def encOpts (ws : List OWire) : List (Nat × Bytes) → Option Bytes
  | [] => some []
  | (iei, val) :: rest =>
    match ws.find? (·.iei == iei) with
    | none => none
    | some w =>
      match encOptIE w val, encOpts ws rest with
      | some a, some b => some (a ++ b)
      | _, _ => none

/-- TS 24.007 11.2: imperative part, then the optional IEs in the order given -/
def encode (w : Wire) (m : SMsg) : Option Bytes :=
  match encMand w.mand m.mand, encOpts w.opt m.opt with
  | some a, some b => some (a ++ b)
  | _, _ => none

def takeN (n : Nat) (bs : Bytes) : Option (Bytes × Bytes) :=
  if n ≤ bs.length then some (bs.take n, bs.drop n) else none

def parseMand : List MWire → Bytes → Option (List Bytes × Bytes)
  | [], bs => some ([], bs)
  | .v n :: ws, bs =>
    match takeN n bs with
    | none => none
    | some (a, r) => (parseMand ws r).map fun (vs, r') => (a :: vs, r')
  | .vRest mn :: ws, bs => if mn ≤ bs.length then (parseMand ws []).map fun (vs, r') => (bs :: vs, r') else none
  | .lv fx :: ws, bs =>
    match bs with
    | [] => none
    | l :: r =>
      if fixedOK fx l.toNat = false then none else
      match takeN l.toNat r with
      | none => none
      | some (a, r') => (parseMand ws r').map fun (vs, r'') => (a :: vs, r'')
  | .lve fx :: ws, bs =>
    match bs with
    | l1 :: l2 :: r =>
      if fixedOK fx (l1.toNat * 256 + l2.toNat) = false then none else
      match takeN (l1.toNat * 256 + l2.toNat) r with
      | none => none
      | some (a, r') => (parseMand ws r').map fun (vs, r'') => (a :: vs, r'')
    | _ => none

/-- the non-imperative part: an octet with bit 8 set starts a type 1 IE (IEI = bits 8..5), any other
    octet is a full IEI whose format comes from the message table.  An IEI that is not in the table is
    reported (`none`): the standard's skipping rules for unknown IEs are outside what C09 compares. -/
def parseOpts (ws : List OWire) : Nat → Bytes → Option (List (Nat × Bytes))
  | _, [] => some []
  | 0, _ :: _ => none
  | fuel + 1, b :: r =>
    let iei := if b.toNat ≥ 128 then b.toNat / 16 else b.toNat
    match ws.find? (·.iei == iei) with
    | none => none
    | some w =>
      match w.kind with
      | .half =>
        if b.toNat ≥ 128 then (parseOpts ws fuel r).map ((iei, [UInt8.ofNat (b.toNat % 16)]) :: ·) else none
      | .tv n =>
        if b.toNat ≥ 128 then none else
        match takeN n r with
        | none => none
        | some (a, r') => (parseOpts ws fuel r').map ((iei, a) :: ·)
      | .tlv =>
        if b.toNat ≥ 128 then none else
        match r with
        | [] => none
        | l :: r1 =>
          match takeN l.toNat r1 with
          | none => none
          | some (a, r') => (parseOpts ws fuel r').map ((iei, a) :: ·)
      | .tlve =>
        if b.toNat ≥ 128 then none else
        match r with
        | l1 :: l2 :: r1 =>
          match takeN (l1.toNat * 256 + l2.toNat) r1 with
          | none => none
          | some (a, r') => (parseOpts ws fuel r').map ((iei, a) :: ·)
        | _ => none

def parse (w : Wire) (bs : Bytes) : Option SMsg :=
  match parseMand w.mand bs with
  | none => none
  | some (vs, r) => (parseOpts w.opt r.length r).map fun os => ⟨vs, os⟩

/-- no "rest of the message" element (only 8.2.28 has one) -/
def noRest (w : Wire) : Bool := w.mand.all fun | .vRest _ => false | _ => true

/-- value-length bounds of the table (what a receiver may treat as "syntactically incorrect") -/
def valLenOK (w : OWire) (n : Nat) : Bool :=
  w.minVal ≤ n && (match w.maxVal with | some mx => n ≤ mx | none => true)

end Stgutg.Spec.Ts24501
