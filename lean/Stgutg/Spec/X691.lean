/-
  ITU-T X.691 (02/2021) — ALIGNED variant of PER, canonical (CANONICAL-PER rules coincide for the types used by
  NGAP: no SET, no DEFAULT components, no unrestricted character strings), written from the Recommendation.

  The abstract syntax is read off the schema: `Ty` gives the ASN.1 type kind, `Params` the PER-visible constraints
  (`valueLB..valueUB[, ...]` value range with extension marker `valueExt`, `SIZE(sizeLB..sizeUB[, ...])` with
  `sizeExt`, `OPTIONAL`, open type governed by the component named `refField`).
  A struct is a CHOICE iff its first Go field is `Present` (one alternative per remaining field) else a SEQUENCE.

  `none` = the value does not satisfy its constraints, or needs something outside the stated scope of C03
  (extension additions, OBJECT IDENTIFIER, semi-constrained INTEGER, a SEQUENCE OF count of 16384 or more that is
  not a constrained whole number).
  Strings and open types of 16384 items or more are fragmented as 11.9.3.8 prescribes (`lengthAndItems`).
-/
import Stgutg.Base.Bits
import Stgutg.Model.AperTypes

namespace Stgutg.Spec.X691
open Stgutg Stgutg.Aper

/-- smallest number of bits b with 2^b ≥ n (n ≥ 1): the field width for a range of n values (11.5.7) -/
def bitsFor (n : Nat) : Nat :=
  (List.range 65).find? (fun b => decide (2 ^ b ≥ n)) |>.getD 64

/-- number of octets of the minimal non-negative-binary-integer encoding of n (11.3): at least one -/
def octetsFor (n : Nat) : Nat :=
  (List.range 10).find? (fun k => decide (k ≥ 1 ∧ n < 256 ^ k)) |>.getD 9

/-- 10.? alignment: zero bits up to the next octet boundary (ALIGNED variant) -/
def pad (pos : Nat) : Bits := List.replicate ((8 - pos % 8) % 8) false

/-- 11.5 constrained whole number `v` in `lb..ub` (offset n = v − lb, range r = ub − lb + 1) -/
def constrainedWholeNumber (pos : Nat) (n r : Nat) : Option Bits :=
  if r = 0 ∨ n ≥ r then none
  else if r = 1 then some []                                   -- 11.5.4: nothing
  else if r ≤ 255 then some (natToBits (bitsFor r) n)            -- 11.5.7.1: bit-field, not aligned
  else if r = 256 then some (pad pos ++ natToBits 8 n)           -- 11.5.7.2: one octet, aligned
  else if r ≤ 65536 then some (pad pos ++ natToBits 16 n)        -- 11.5.7.3: two octets, aligned
  else
    -- 11.5.7.4: indefinite-length case: length (octets, 1..octetsFor(r−1)) as a constrained whole number,
    -- then the minimal octets, aligned
    let k := octetsFor n
    let maxk := octetsFor (r - 1)
    let lenBits := natToBits (bitsFor maxk) (k - 1)
    some (lenBits ++ pad (pos + lenBits.length) ++ natToBits (8 * k) n)

/-- 11.9 length determinant for a length `n` with constraint `lb..ub` (ub = none: unbounded or ≥ 64K), as a single
    field: the constrained form 11.9.3.3/11.9.4.1, or the one- and two-octet general forms 11.9.3.6/11.9.3.7.
    A general length of 16384 or more is not a single field (11.9.3.8): see `lengthAndItems`. -/
def lengthDeterminant (pos : Nat) (n lb : Nat) (ub : Option Nat) : Option Bits :=
  match ub with
  | some u =>
    if u < 65536 then
      if n < lb ∨ n > u then none else constrainedWholeNumber pos (n - lb) (u - lb + 1)   -- 11.9.3.3 / 11.9.4.1
    else if n < 128 then some (pad pos ++ natToBits 8 n)
    else if n < 16384 then some (pad pos ++ [true, false] ++ natToBits 14 n)
    else none
  | none =>
    if n < 128 then some (pad pos ++ natToBits 8 n)                         -- 11.9.3.6
    else if n < 16384 then some (pad pos ++ [true, false] ++ natToBits 14 n) -- 11.9.3.7
    else none

/-- 11.9.3.5 – 11.9.3.8: a general (unconstrained) length `n` followed by the `n` items of `unit` bits each
    (`items` holds exactly those n·unit bits), ALIGNED variant.
    * n < 16K (11.9.3.6 / 11.9.3.7): the length in one or two octets, octet-aligned; then, unless n = 0, the items
      octet-aligned (16.11, 17.8, 11.2).
    * n ≥ 16K (11.9.3.8): a single octet `11` followed by m in six bits, octet-aligned, m the largest of 1..4 with
      m·16K ≤ n; the first m·16K items; then the remaining n − m·16K items coded by the same rule, so that the last
      fragment is always followed by a length below 16K — the length 0 when n is a multiple of 16K (11.9.3.8.3).
    The fuel `n / 16384 + 1` suffices (every fragment takes at least 16K items). -/
def lengthAndItems (unit : Nat) : Nat → Nat → Nat → Bits → Bits
  | 0, _, _, _ => []
  | fuel + 1, pos, n, items =>
    if n < 16384 then
      let l := pad pos ++ (if n < 128 then natToBits 8 n else [true, false] ++ natToBits 14 n)
      if n = 0 then l else l ++ pad (pos + l.length) ++ items
    else
      let m := min 4 (n / 16384)
      let l := pad pos ++ [true, true] ++ natToBits 6 m
      let pos1 := pos + l.length
      let frag := items.take (m * 16384 * unit)
      l ++ pad pos1 ++ frag ++
        lengthAndItems unit fuel (pos1 + (pad pos1).length + frag.length) (n - m * 16384) (items.drop (m * 16384 * unit))

/-- two's complement in `8k` bits -/
def twosComplement (k : Nat) (v : Int) : Bits := natToBits (8 * k) (v % (2 ^ (8 * k) : Int)).toNat

/-- minimal number of octets of a 2's-complement-binary-integer (11.4) -/
def octetsForSigned (v : Int) : Nat :=
  (List.range 10).find? (fun k => decide (k ≥ 1 ∧ -(2 ^ (8 * k - 1) : Int) ≤ v ∧ v < (2 ^ (8 * k - 1) : Int))) |>.getD 9

/-- 13 INTEGER -/
def integer (pos : Nat) (v : Int) (ext : Bool) (lbP ubP : Option Int) : Option Bits :=
  match lbP, ubP with
  | some lb, some ub =>
    if lb ≤ v ∧ v ≤ ub then
      -- 13.1: extension bit 0 when extensible, then 13.2: constrained whole number
      (constrainedWholeNumber (pos + (if ext then 1 else 0)) (v - lb).toNat (ub - lb + 1).toNat).map
        (fun b => (if ext then [false] else []) ++ b)
    else if ext ∧ v > ub then
      -- 13.1: extension bit 1, then unconstrained (11.8): length in octets + 2's complement, aligned
      let k := octetsForSigned v
      some ([true] ++ pad (pos + 1) ++ natToBits 8 k ++ twosComplement k v)
    else none
  | none, none =>
    let k := octetsForSigned v
    some (pad pos ++ natToBits 8 k ++ twosComplement k v)                -- 13.2.4 / 11.8
  | _, _ => none                                                          -- semi-constrained: not used by NGAP

/-- 14 ENUMERATED with root indices 0..ub (the Go value is the index) -/
def enumerated (pos : Nat) (idx : Nat) (ext : Bool) (lbP ubP : Option Int) : Option Bits :=
  match lbP, ubP with
  | some 0, some ub =>
    if (idx : Int) ≤ ub then
      (constrainedWholeNumber (pos + (if ext then 1 else 0)) idx (ub + 1).toNat).map
        (fun b => (if ext then [false] else []) ++ b)
    else none                                                              -- extension additions: out of scope
  | _, _ => none

/-- effective size constraint: (extension bit, lb, ub) or none when the size is illegal -/
def sizeConstraint (n : Nat) (ext : Bool) (lbP ubP : Option Int) : Option (Bits × Nat × Option Nat) :=
  match lbP, ubP with
  | some lb, some ub =>
    if lb < 0 ∨ ub < lb then none
    else if (n : Int) ≥ lb ∧ (n : Int) ≤ ub then some (if ext then [false] else [], lb.toNat, some ub.toNat)
    else if ext ∧ (n : Int) > ub then some ([true], 0, none)               -- 16.6 / 17.3: outside the root
    else none
  | some lb, none => if lb < 0 ∨ (n : Int) < lb then none else some ([], lb.toNat, none)
  | none, _ => some ([], 0, none)

/-- 16 BIT STRING (`content` = the bits, most significant first) -/
def bitString (pos : Nat) (content : Bits) (ext : Bool) (lbP ubP : Option Int) : Option Bits :=
  match sizeConstraint content.length ext lbP ubP with
  | none => none
  | some (pre, lb, ub) =>
    let pos1 := pos + pre.length
    if ub = some lb ∧ lb < 65536 then
      -- fixed size: 16.9 (≤ 16 bits: not aligned), 16.10 (aligned), no length determinant
      if lb ≤ 16 then some (pre ++ content) else some (pre ++ pad pos1 ++ content)
    else if (match ub with | some u => decide (u < 65536) | none => false) then
      -- 16.11 with 11.9.3.3: constrained length determinant, then the bits octet-aligned (nothing for an empty string)
      match lengthDeterminant pos1 content.length lb ub with
      | none => none
      | some l =>
        if content.isEmpty then some (pre ++ l)
        else some (pre ++ l ++ pad (pos1 + l.length) ++ content)
    else
      -- 16.11 with 11.9.3.5-8: general length, fragmented from 16K bits on
      some (pre ++ lengthAndItems 1 (content.length / 16384 + 1) pos1 content.length content)

/-- 17 OCTET STRING -/
def octetString (pos : Nat) (octets : Bytes) (ext : Bool) (lbP ubP : Option Int) : Option Bits :=
  match sizeConstraint octets.length ext lbP ubP with
  | none => none
  | some (pre, lb, ub) =>
    let pos1 := pos + pre.length
    let content := bytesToBits octets
    if ub = some lb ∧ lb < 65536 then
      if lb = 0 then some pre                                              -- 17.5
      else if lb ≤ 2 then some (pre ++ content)                            -- 17.6: not aligned
      else some (pre ++ pad pos1 ++ content)                               -- 17.7
    else if (match ub with | some u => decide (u < 65536) | none => false) then
      match lengthDeterminant pos1 octets.length lb ub with
      | none => none
      | some l =>
        if octets.isEmpty then some (pre ++ l)
        else some (pre ++ l ++ pad (pos1 + l.length) ++ content)            -- 17.8 with 11.9.3.3
    else
      -- 17.8 with 11.9.3.5-8: general length, fragmented from 16K octets on
      some (pre ++ lengthAndItems 8 (octets.length / 16384 + 1) pos1 octets.length content)

def isChoice (sd : StructDef) : Bool :=
  match sd.fields with
  | f :: _ => f.name == "Present"
  | [] => false

/-- the INTEGER value of the component that governs an open type (TS 38.413: `id` / `procedureCode`) -/
def governor (env : Env) : Nat → Ty → Val → Option Int
  | 0, _, _ => none
  | _ + 1, .int, .int v => some v
  | fuel + 1, .struct id, .struct fs =>
    match env[id]? with
    | none => none
    | some sd =>
      if isChoice sd then
        match fs with
        | .int p :: _ =>
          if p ≤ 0 then none else
          match sd.fields[p.toNat]?, fs[p.toNat]? with
          | some f, some v => governor env fuel f.ty v
          | _, _ => none
        | _ => none
      else
        match sd.fields, fs with
        | f0 :: _, v0 :: _ => governor env fuel f0.ty v0
        | _, _ => none
  | _ + 1, _, _ => none

/-- components of a SEQUENCE in order (19.5): absent OPTIONAL components contribute nothing -/
def components (enc : Nat → Ty → Params → Val → Option Bits) (gov : Ty → Val → Option Int)
    (allFields : List Field) (allVals : List Val) : Nat → List Field → List Val → Option Bits
  | _, [], [] => some []
  | pos, fd :: frest, v :: vrest =>
    match v, fd.params.optional with
    | .nil, true => components enc gov allFields allVals pos frest vrest
    | _, _ =>
      let p? : Option Params :=
        if fd.params.openType then
          match allFields.findIdx? (fun g => g.name == fd.params.refField) with
          | none => none
          | some k =>
            match allFields[k]?, allVals[k]? with
            | some rf, some rv => (gov rf.ty rv).map fun x => { fd.params with refValue := some x }
            | _, _ => none
        else some fd.params
      match p? with
      | none => none
      | some p =>
        match enc pos fd.ty p v with
        | none => none
        | some a =>
          match components enc gov allFields allVals (pos + a.length) frest vrest with
          | none => none
          | some b => some (a ++ b)
  | _, _, _ => none

def elements (enc : Nat → Val → Option Bits) : Nat → List Val → Option Bits
  | _, [] => some []
  | pos, v :: vs =>
    match enc pos v with
    | none => none
    | some a =>
      match elements enc (pos + a.length) vs with
      | none => none
      | some b => some (a ++ b)

/-- X.691 encoding of value `v` of the type described by (`ty`, `params`) starting at bit position `pos` -/
def encode (env : Env) : Nat → Nat → Ty → Params → Val → Option Bits
  | 0, _, _, _, _ => none
  | fuel + 1, pos, ty, params, v =>
    match ty, v with
    | .ptr t, .ptr v' => encode env fuel pos t params v'
    | .int, .int n => integer pos n params.valueExt params.valueLB params.valueUB
    | .enum, .enum n => enumerated pos n params.valueExt params.valueLB params.valueUB
    | .bool, .bool b => some [b]                                            -- 12
    | .bits, .bits bytes len =>
      if bytes.length ≠ (len + 7) / 8 then none
      else bitString pos ((bytesToBits bytes).take len) params.sizeExt params.sizeLB params.sizeUB
    | .octs, .octs b => octetString pos b params.sizeExt params.sizeLB params.sizeUB
    | .str, .str b => octetString pos b params.sizeExt params.sizeLB params.sizeUB   -- PrintableString, as the library codes it (known deviation: 30.x would use 7 bits per character for sizes it knows)
    | .slice t, .slice vs =>
      -- 20 SEQUENCE OF: extension bit for an extensible SIZE, count, then the elements
      let n := vs.length
      let elemParams := { params with sizeExt := false, sizeLB := none, sizeUB := none }
      match sizeConstraint n params.sizeExt params.sizeLB params.sizeUB with
      | none => none
      | some (pre, lb, ub) =>
        let pos1 := pos + pre.length
        let cnt : Option Bits :=
          if ub = some lb ∧ lb < 65536 then some []                          -- 20.5: fixed number
          else lengthDeterminant pos1 n lb ub                                -- 20.6
        match cnt with
        | none => none
        | some c =>
          match elements (fun p e => encode env fuel p t elemParams e) (pos1 + c.length) vs with
          | none => none
          | some es => some (pre ++ c ++ es)
    | .struct id, .struct fs =>
      match env[id]? with
      | none => none
      | some sd =>
        let pre : Bits := if params.valueExt then [false] else []           -- 19.1 / 23.5: extension bit, root only
        let pos1 := pos + pre.length
        if isChoice sd then
          match fs with
          | .int p :: alts =>
            let nAlt := sd.fields.length - 1
            if p < 1 ∨ p.toNat > nAlt then none
            else if ¬ (alts.zipIdx.all fun (a, i) => i + 1 = p.toNat || (match a with | .nil => true | _ => false)) then none
            else
              match sd.fields[p.toNat]?, fs[p.toNat]? with
              | some f, some alt =>
                if params.openType then
                  -- 11.2 open type: the complete encoding of the governed value, padded to octets (at least one),
                  -- behind an unconstrained length determinant
                  if f.params.refValue.isNone ∨ f.params.refValue ≠ params.refValue then none
                  else
                    match encode env fuel 0 f.ty f.params alt with
                    | none => none
                    | some inner =>
                      let octets := if inner.isEmpty then List.replicate 8 false else inner ++ pad inner.length
                      -- general length in octets (11.9.3.5-8), fragmented from 16K octets on
                      some (pre ++ lengthAndItems 8 (octets.length / 8 / 16384 + 1) pos1 (octets.length / 8) octets)
                else
                  -- 23.6: index of the alternative as a constrained whole number 0..n−1 (n root alternatives)
                  match params.valueUB with
                  | some ub =>
                    if ub + 1 ≠ (nAlt : Int) then none else
                    match constrainedWholeNumber pos1 (p.toNat - 1) nAlt with
                    | none => none
                    | some ib =>
                      match encode env fuel (pos1 + ib.length) f.ty f.params alt with
                      | none => none
                      | some ab => some (pre ++ ib ++ ab)
                  | none => none
              | _, _ => none
          | _ => none
        else
          if fs.length ≠ sd.fields.length then none
          else if ¬ (List.zip sd.fields fs).all (fun (fd, v) => fd.params.optional || (match v with | .nil => false | _ => true)) then none
          else
            -- 19.2/19.3: preamble with one bit per OPTIONAL component
            let bitmap : Bits := (List.zip sd.fields fs).filterMap fun (fd, v) =>
              if fd.params.optional then some (match v with | .nil => false | _ => true) else none
            match components (encode env fuel) (governor env fuel) sd.fields fs (pos1 + bitmap.length) sd.fields fs with
            | none => none
            | some body => some (pre ++ bitmap ++ body)
    | _, _ => none

/-- complete encoding (11.1): whole octets, at least one -/
def encodePdu (env : Env) (fuel : Nat) (ty : Ty) (params : Params) (v : Val) : Option Bytes :=
  match encode env fuel 0 ty params v with
  | none => none
  | some bits => if bits.isEmpty then some [0] else some (bitsToBytes bits)

end Stgutg.Spec.X691
