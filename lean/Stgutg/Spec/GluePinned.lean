/-!
# The glue functions as the models were written from them (reviewed lists)

One list per function of src/stgutg/{ngsetup,ue,pdu,service,utils}.go and src/tglib/{security,packet,decode,ranUe}.go and src/free5gclib/UeauCommon/UeauCommon.go, in the normal
form of `gen procs` (harness/cmd/gen/procs.go): one string per top-level statement, comments / formatting / progress messages
dropped, local variables renamed v0, v1, … in order of appearance. `Props/GluePinned.lean` proves that what `gen procs` extracts from
/repo on every run is still this text. The models that mirror these functions: `Model/Emulator.lean` (the procedures and main's
helpers), `Model/NasProtect.lean` (NASEncode, NASDecode, EncodeNasPduWithSecurity, GetNasPdu), `Model/KeyDerivation.lean`
(DeriveRESstarAndSetKey, DerivateKamf, DerivateAlgKey), `Model/UeIdentity.lean` (CreateUE, NewRanUeContext, capabilities),
`Model/Suci.lean`, `Model/Extract.lean`, `Model/Builders.lean` (the Get* wrappers), `Model/Config.lean` (GetMode, Min).

HOW TO CHANGE THIS FILE: only together with the model of the function concerned, after the correspondence domains of the properties
that list the function (vlib/props_C*.py, theorems `Stgutg.Props.GluePinned.*`) have been run against the new code; copy the new list
from `Gen/Procs.lean`. Frozen at /repo f4784a9.
-/
namespace Stgutg.Spec.GluePinned

/-- `stgutg.Conf.GetConfiguration` -/
def stgutg_Conf_GetConfiguration : List String := [
  "(*Conf) func() Conf",
  "v1, _ := os.ReadFile(\"config.yaml\")",
  "yaml.Unmarshal(v1, v0)",
  "return *v0"
]

/-- `stgutg.CreateUE` -/
def stgutg_CreateUE : List String := [
  "func(v0 string, v1 int, v2 string, v3 string, v4 string) *tglib.RanUeContext",
  "v5, v6 := strconv.Atoi(v0)",
  "if v6 != nil { }",
  "v7 := (v5 + v1) % 1e4",
  "v8 := fmt.Sprintf(\"imsi-%0*d\", len(v0), v5+v1)",
  "v9 := tglib.NewRanUeContext(v8, int64(v7), security.AlgCiphering128NEA0, security.AlgIntegrity128NIA2)",
  "v9.AuthenticationSubs = tglib.GetAuthSubscription(v2, v3, v4)",
  "return v9"
]

/-- `stgutg.DecodePDUSessionNASPDU` -/
def stgutg_DecodePDUSessionNASPDU : List String := [
  "func(v0 []byte) net.IP",
  "var v1 net.IP",
  "v2 := v0[7:]",
  "v3 := binary.BigEndian.Uint16(v2[4:6])",
  "v4 := v2[6 : 6+v3]",
  "v5 := binary.BigEndian.Uint16(v4[5:7])",
  "v6 := v4[5+2+v5+7:]",
  "v7 := len(v6)",
  "v8 := 0",
  "var v9 byte",
  "var v10 int",
  "_, _ = v9, v10",
  "outerloop: for v8 < v7 { v9 = v6[v8] if v9 == 0x29 { v1 = (net.IP)(v6[v8+3 : v8+7]) v8 += 7 break outerloop } for _, v11 := range PDUSessionEstablishmentAcceptOptionalElementsHalfByte { if v9&0xF0 == v11 { v8 += 1 continue outerloop } } v10 = PDUSessionEstablishmentAcceptOptionalElementsLength[v9] if v10 > 0 { v8 += v10 } else if v10 == -1 { v10 = int(v6[v8+1]) v8 += 1 + 1 + v10 } else if v10 == -2 { v10 = int(binary.BigEndian.Uint16(v6[v8+1 : v8+1+2])) v8 += 1 + 2 + v10 } else { break } }",
  "return v1"
]

/-- `stgutg.DecodePDUSessionResourceSetupRequestTransfer` -/
def stgutg_DecodePDUSessionResourceSetupRequestTransfer : List String := [
  "func(v0 []byte) (uint32, net.IP)",
  "var v1 uint32",
  "var v2 net.IP",
  "v3 := 3",
  "for v3 < len(v0) { if int(binary.BigEndian.Uint16(v0[v3:v3+2])) != 139 { v3 += 3 + int(v0[v3+3]) + 1 } else { v3 += 3 v4 := int(v0[v3]) v3 += 1 v5 := v0[v3 : v3+v4] v1 = binary.BigEndian.Uint32(v5[v4-4:]) v2 = net.IP(v5[v4-8 : v4-4]) break } }",
  "return v1, v2"
]

/-- `stgutg.DeregisterUE` -/
def stgutg_DeregisterUE : List String := [
  "func(v0 *tglib.RanUeContext, v1 string, v2 *sctp.SCTPConn)",
  "var v3 = make([]byte, 2048)",
  "v4 := EncodeSuci([]byte(strings.TrimPrefix(v0.Supi, \"imsi-\")), len(v1))",
  "v5 := nasTestpacket.GetDeregistrationRequest(nasMessage.AccessType3GPP, 0, 0x04, *v4)",
  "v5, v6 := tglib.EncodeNasPduWithSecurity(v0, v5, nas.SecurityHeaderTypeIntegrityProtectedAndCiphered, true, false)",
  "ManageError(\"Error deregistering UE\", v6)",
  "v7, v6 := tglib.GetUplinkNASTransport(v0.AmfUeNgapId, v0.RanUeNgapId, v5)",
  "ManageError(\"Error deregistering UE\", v6)",
  "_, v6 = v2.Write(v7)",
  "ManageError(\"Error deregistering UE\", v6)",
  "time.Sleep(500 * time.Millisecond)",
  "v8, v6 := v2.Read(v3)",
  "ManageError(\"Error deregistering UE\", v6)",
  "_, v6 = ngap.Decoder(v3[:v8])",
  "ManageError(\"Error deregistering UE\", v6)",
  "v8, v6 = v2.Read(v3)",
  "ManageError(\"Error deregistering UE\", v6)",
  "_, v6 = ngap.Decoder(v3[:v8])",
  "ManageError(\"Error deregistering UE\", v6)",
  "v7, v6 = tglib.GetUEContextReleaseComplete(v0.AmfUeNgapId, v0.RanUeNgapId, nil)",
  "ManageError(\"Error deregistering UE\", v6)",
  "_, v6 = v2.Write(v7)",
  "ManageError(\"Error deregistering UE\", v6)"
]

/-- `stgutg.EncodeSuci` -/
def stgutg_EncodeSuci : List String := [
  "func(v0 []byte, v1 int) *nasType.MobileIdentity5GS",
  "var v2 []byte",
  "v3 := nasType.MobileIdentity5GS{ Buffer: []uint8{nasMessage.SupiFormatImsi<<4 | nasMessage.MobileIdentity5GSTypeSuci, 0x0, 0x0, 0x0, 0xf0, 0xff, 0x00, 0x00}, }",
  "v3.Buffer[1] = hexCharToByte(v0[1])<<4 | hexCharToByte(v0[0])",
  "if v1 > 2 { v3.Buffer[2] = hexCharToByte(v0[5])<<4 | hexCharToByte(v0[2]) v3.Buffer[3] = hexCharToByte(v0[4])<<4 | hexCharToByte(v0[3]) v2 = v0[6:] } else { v3.Buffer[2] = 0xf<<4 | hexCharToByte(v0[2]) v3.Buffer[3] = hexCharToByte(v0[4])<<4 | hexCharToByte(v0[3]) v2 = v0[5:] }",
  "for v4 := 0; v4 < len(v2); v4 += 2 { v3.Buffer = append(v3.Buffer, 0x0) v5 := len(v3.Buffer) - 1 if v4+1 == len(v2) { v3.Buffer[v5] = 0xf<<4 | hexCharToByte(v2[v4]) } else { v3.Buffer[v5] = hexCharToByte(v2[v4+1])<<4 | hexCharToByte(v2[v4]) } }",
  "v3.Len = uint16(len(v3.Buffer))",
  "return &v3"
]

/-- `stgutg.EstablishPDU` -/
def stgutg_EstablishPDU : List String := [
  "func(v0 int32, v1 string, v2 *tglib.RanUeContext, v3 *sctp.SCTPConn, v4 string) (net.IP, uint32, net.IP)",
  "var v5 = make([]byte, 2048)",
  "v6 := models.Snssai{ Sst: v0, Sd: v1, }",
  "v7 := strings.Split(v2.Supi, \"-\")[1]",
  "v8, _ := strconv.Atoi(v7)",
  "v9 := int64((v8+14)%15 + 1)",
  "v10 := nasTestpacket.GetUlNasTransport_PduSessionEstablishmentRequest(uint8(v9), nasMessage.ULNASTransportRequestTypeInitialRequest, \"internet\", &v6)",
  "v10, v11 := tglib.EncodeNasPduWithSecurity(v2, v10, nas.SecurityHeaderTypeIntegrityProtectedAndCiphered, true, false)",
  "ManageError(\"Error establishing PDU\", v11)",
  "v12, v11 := tglib.GetUplinkNASTransport(v2.AmfUeNgapId, v2.RanUeNgapId, v10)",
  "ManageError(\"Error establishing PDU\", v11)",
  "_, v11 = v3.Write(v12)",
  "ManageError(\"Error establishing PDU\", v11)",
  "v13, v11 := v3.Read(v5)",
  "ManageError(\"Error establishing PDU\", v11)",
  "v14, v11 := ngap.Decoder(v5[:v13])",
  "ManageError(\"Error establishing PDU\", v11)",
  "v15 := FindPDUSessionResourceSetupListSUReq(v14)",
  "if v15 == nil || len(v15.List) == 0 { ManageError(\"Error establishing PDU\", errors.New(\"no PDU session resource setup list in the received message\")) }",
  "v16 := v15.List[0]",
  "v17 := DecodePDUSessionNASPDU(v16.PDUSessionNASPDU.Value)",
  "v18, v19 := DecodePDUSessionResourceSetupRequestTransfer(v16.PDUSessionResourceSetupRequestTransfer)",
  "v12, v11 = tglib.GetPDUSessionResourceSetupResponse(v2.AmfUeNgapId, v2.RanUeNgapId, v9, v4)",
  "ManageError(\"Error establishing PDU\", v11)",
  "_, v11 = v3.Write(v12)",
  "ManageError(\"Error establishing PDU\", v11)",
  "return v17, v18, v19"
]

/-- `stgutg.FindPDUSessionResourceSetupListSUReq` -/
def stgutg_FindPDUSessionResourceSetupListSUReq : List String := [
  "func(v0 *ngapType.NGAPPDU) *ngapType.PDUSessionResourceSetupListSUReq",
  "if v0 == nil || v0.InitiatingMessage == nil || v0.InitiatingMessage.Value.PDUSessionResourceSetupRequest == nil { return nil }",
  "for _, v1 := range v0.InitiatingMessage.Value.PDUSessionResourceSetupRequest.ProtocolIEs.List { if v1.Id.Value == ngapType.ProtocolIEIDPDUSessionResourceSetupListSUReq { return v1.Value.PDUSessionResourceSetupListSUReq } }",
  "return nil"
]

/-- `stgutg.GetMode` -/
def stgutg_GetMode : List String := [
  "func(v0 []string) int",
  "if len(v0) == 1 { return 1 } else if len(v0) == 2 { v1 := os.Args[1] if v1 == \"-t\" { return 2 } else { } } else { }",
  "return 0"
]

/-- `stgutg.ManageError` -/
def stgutg_ManageError : List String := [
  "func(v0 string, v1 error)",
  "if v1 != nil { os.Exit(1) }"
]

/-- `stgutg.ManageNGSetup` -/
def stgutg_ManageNGSetup : List String := [
  "func(v0 *sctp.SCTPConn, v1 string, v2 string, v3 string, v4 uint64, v5 string)",
  "var v6 = make([]byte, 2048)",
  "v7 := EncodeSuci([]byte(strings.TrimPrefix(v2, \"imsi-\")), len(v3)).Buffer[1:4]",
  "v8, v9 := tglib.GetNGSetupRequest([]byte(v1), v7, v4, v5)",
  "ManageError(\"Error in NG Setup\", v9)",
  "_, v9 = v0.Write(v8)",
  "ManageError(\"Error in NG Setup\", v9)",
  "v10, v9 := v0.Read(v6)",
  "ManageError(\"Error in NG Setup\", v9)",
  "_, v9 = ngap.Decoder(v6[:v10])",
  "ManageError(\"Error in NG Setup\", v9)"
]

/-- `stgutg.Min` -/
def stgutg_Min : List String := [
  "func(v0, v1 int) int",
  "if v0 > v1 { return v1 }",
  "return v0"
]

/-- `stgutg.ModifyPDU` -/
def stgutg_ModifyPDU : List String := [
  "func(v0 int32, v1 string, v2 *tglib.RanUeContext, v3 *sctp.SCTPConn) []byte",
  "var v4 = make([]byte, 2048)",
  "v5 := models.Snssai{ Sst: v0, Sd: v1, }",
  "v6 := strings.Split(v2.Supi, \"-\")[1]",
  "v7, v8 := strconv.Atoi(v6)",
  "ManageError(\"Error modifying PDU\", v8)",
  "v9 := int64((v7+14)%15 + 1)",
  "v10 := nasTestpacket.GetUlNasTransport_PduSessionModificationRequest(uint8(v9), nasMessage.ULNASTransportRequestTypeExistingPduSession, \"internet\", &v5)",
  "v10, v8 = tglib.EncodeNasPduWithSecurity(v2, v10, nas.SecurityHeaderTypeIntegrityProtectedAndCiphered, true, false)",
  "ManageError(\"Error modifying PDU\", v8)",
  "v11, v8 := tglib.GetUplinkNASTransport(v2.AmfUeNgapId, v2.RanUeNgapId, v10)",
  "ManageError(\"Error modifying PDU\", v8)",
  "_, v8 = v3.Write(v11)",
  "ManageError(\"Error modifying PDU\", v8)",
  "v12, v8 := v3.Read(v4)",
  "ManageError(\"Error establishing PDU\", v8)",
  "return v10"
]

/-- `stgutg.RegisterUE` -/
def stgutg_RegisterUE : List String := [
  "func(v0 *tglib.RanUeContext, v1 string, v2 string, v3 *sctp.SCTPConn) (*tglib.RanUeContext, []byte, *ngapType.NGAPPDU)",
  "var v4 = make([]byte, 2048)",
  "v5 := EncodeSuci([]byte(strings.TrimPrefix(v0.Supi, \"imsi-\")), len(v1))",
  "v6 := v0.GetUESecurityCapability()",
  "v7 := nasTestpacket.GetRegistrationRequest(nasMessage.RegistrationType5GSInitialRegistration, *v5, nil, v6, nil, nil, nil)",
  "v8, v9 := tglib.GetInitialUEMessage(v0.RanUeNgapId, v7, \"\")",
  "ManageError(\"Error in registering new UE\", v9)",
  "_, v9 = v3.Write(v8)",
  "ManageError(\"Error in registering new UE\", v9)",
  "v10, v9 := v3.Read(v4)",
  "ManageError(\"Error in registering new UE\", v9)",
  "v11, v9 := ngap.Decoder(v4[:v10])",
  "ManageError(\"Error in registering new UE\", v9)",
  "v12 := tglib.GetNasPdu(v0, v11.InitiatingMessage.Value.DownlinkNASTransport)",
  "v13 := v12.AuthenticationRequest.AuthenticationParameterAUTN.GetAUTN()",
  "var v14 string",
  "if len(v1) == 2 { v14 = \"5G:mnc0\" + v1 + \".mcc\" + v2 + \".3gppnetwork.org\" } else { v14 = \"5G:mnc\" + v1 + \".mcc\" + v2 + \".3gppnetwork.org\" }",
  "v15 := v12.AuthenticationRequest.GetRANDValue()",
  "v16 := v0.DeriveRESstarAndSetKey(v0.AuthenticationSubs, v13, v15[:], v14, v1, v2)",
  "v0.AmfUeNgapId = v11.InitiatingMessage.Value.DownlinkNASTransport.ProtocolIEs.List[0].Value.AMFUENGAPID.Value",
  "v17 := nasTestpacket.GetAuthenticationResponse(v16, \"\")",
  "v8, v9 = tglib.GetUplinkNASTransport(v0.AmfUeNgapId, v0.RanUeNgapId, v17)",
  "_, v9 = v3.Write(v8)",
  "ManageError(\"Error in registering new UE\", v9)",
  "v10, v9 = v3.Read(v4)",
  "ManageError(\"Error in registering new UE\", v9)",
  "_, v9 = ngap.Decoder(v4[:v10])",
  "ManageError(\"Error in registering new UE\", v9)",
  "v18 := nasTestpacket.GetRegistrationRequest(nasMessage.RegistrationType5GSInitialRegistration, *v5, nil, v6, v0.Get5GMMCapability(), nil, nil)",
  "v17 = nasTestpacket.GetSecurityModeComplete(v18)",
  "v17, v9 = tglib.EncodeNasPduWithSecurity(v0, v17, nas.SecurityHeaderTypeIntegrityProtectedAndCipheredWithNew5gNasSecurityContext, true, true)",
  "ManageError(\"Error in registering new UE\", v9)",
  "v8, v9 = tglib.GetUplinkNASTransport(v0.AmfUeNgapId, v0.RanUeNgapId, v17)",
  "ManageError(\"Error in registering new UE\", v9)",
  "_, v9 = v3.Write(v8)",
  "ManageError(\"Error in registering new UE\", v9)",
  "v10, v9 = v3.Read(v4)",
  "ManageError(\"Error in registering new UE\", v9)",
  "v19, v9 := ngap.Decoder(v4[:v10])",
  "ManageError(\"Error in registering new UE\", v9)",
  "v8, v9 = tglib.GetInitialContextSetupResponse(v0.AmfUeNgapId, v0.RanUeNgapId)",
  "ManageError(\"Error in registering new UE\", v9)",
  "_, v9 = v3.Write(v8)",
  "ManageError(\"Error in registering new UE\", v9)",
  "v17 = nasTestpacket.GetRegistrationComplete(nil)",
  "v17, v9 = tglib.EncodeNasPduWithSecurity(v0, v17, nas.SecurityHeaderTypeIntegrityProtectedAndCiphered, true, false)",
  "ManageError(\"Error in registering new UE\", v9)",
  "v8, v9 = tglib.GetUplinkNASTransport(v0.AmfUeNgapId, v0.RanUeNgapId, v17)",
  "ManageError(\"Error in registering new UE\", v9)",
  "_, v9 = v3.Write(v8)",
  "ManageError(\"Error in registering new UE\", v9)",
  "v10, v9 = v3.Read(v4)",
  "ManageError(\"Error establishing PDU\", v9)",
  "ngap.Decoder(v4[:v10])",
  "return v0, v17, v19"
]

/-- `stgutg.ReleasePDU` -/
def stgutg_ReleasePDU : List String := [
  "func(v0 int32, v1 string, v2 *tglib.RanUeContext, v3 *sctp.SCTPConn) []byte",
  "v4 := models.Snssai{ Sst: v0, Sd: v1, }",
  "v5 := strings.Split(v2.Supi, \"-\")[1]",
  "v6, v7 := strconv.Atoi(v5)",
  "ManageError(\"Error releasing PDU\", v7)",
  "v8 := int64((v6+14)%15 + 1)",
  "v9 := nasTestpacket.GetUlNasTransport_PduSessionReleaseRequest(uint8(v8))",
  "v9, v7 = tglib.EncodeNasPduWithSecurity(v2, v9, nas.SecurityHeaderTypeIntegrityProtectedAndCiphered, true, false)",
  "ManageError(\"Error releasing PDU\", v7)",
  "v10, v7 := tglib.GetUplinkNASTransport(v2.AmfUeNgapId, v2.RanUeNgapId, v9)",
  "ManageError(\"Error releasing PDU\", v7)",
  "_, v7 = v3.Write(v10)",
  "ManageError(\"Error releasing PDU\", v7)",
  "time.Sleep(100 * time.Millisecond)",
  "v10, v7 = tglib.GetPDUSessionResourceReleaseResponse(v2.AmfUeNgapId, v2.RanUeNgapId, v8)",
  "ManageError(\"Error releasing PDU\", v7)",
  "_, v7 = v3.Write(v10)",
  "ManageError(\"Error releasing PDU\", v7)",
  "time.Sleep(10 * time.Millisecond)",
  "v9 = nasTestpacket.GetUlNasTransport_PduSessionReleaseComplete(uint8(v8), nasMessage.ULNASTransportRequestTypeInitialRequest, \"internet\", &v4)",
  "v9, v7 = tglib.EncodeNasPduWithSecurity(v2, v9, nas.SecurityHeaderTypeIntegrityProtectedAndCiphered, true, false)",
  "ManageError(\"Error releasing PDU\", v7)",
  "v10, v7 = tglib.GetUplinkNASTransport(v2.AmfUeNgapId, v2.RanUeNgapId, v9)",
  "ManageError(\"Error releasing PDU\", v7)",
  "_, v7 = v3.Write(v10)",
  "ManageError(\"Error releasing PDU\", v7)",
  "time.Sleep(1 * time.Second)",
  "return v9"
]

/-- `stgutg.ServiceRequest` -/
def stgutg_ServiceRequest : List String := [
  "func(v0 []byte, v1 *tglib.RanUeContext, v2 *sctp.SCTPConn, v3 string) []byte",
  "var v4 = make([]byte, 2048)",
  "v5 := strings.Split(v1.Supi, \"-\")[1]",
  "v6, _ := strconv.Atoi(v5)",
  "v7 := int64((v6+14)%15 + 1)",
  "v0 = nasTestpacket.GetServiceRequest(nasMessage.ServiceTypeData)",
  "v0, v8 := tglib.EncodeNasPduWithSecurity(v1, v0, nas.SecurityHeaderTypeIntegrityProtectedAndCiphered, true, false)",
  "ManageError(\"Error in service Request\", v8)",
  "v9, v8 := tglib.GetInitialUEMessage(v1.RanUeNgapId, v0, \"\")",
  "ManageError(\"Error in service Request\", v8)",
  "_, v8 = v2.Write(v9)",
  "ManageError(\"Error in service Request\", v8)",
  "v10, v8 := v2.Read(v4)",
  "ManageError(\"Error in service Request\", v8)",
  "_, v8 = ngap.Decoder(v4[:v10])",
  "ManageError(\"Error in service Request\", v8)",
  "v9, v8 = tglib.GetInitialContextSetupResponseForServiceRequest(v1.AmfUeNgapId, v1.RanUeNgapId, v7, v3)",
  "_, v8 = v2.Write(v9)",
  "ManageError(\"Error in service Request\", v8)",
  "time.Sleep(1 * time.Second)",
  "return v0"
]

/-- `stgutg.hexCharToByte` -/
def stgutg_hexCharToByte : List String := [
  "func(v0 byte) byte",
  "switch { case '0' <= v0 && v0 <= '9': return v0 - '0' case 'a' <= v0 && v0 <= 'f': return v0 - 'a' + 10 case 'A' <= v0 && v0 <= 'F': return v0 - 'A' + 10 }",
  "return 0"
]

/-- `tglib.EncodeNasPduWithSecurity` -/
def tglib_EncodeNasPduWithSecurity : List String := [
  "func(v0 *RanUeContext, v1 []byte, v2 uint8, v3, v4 bool) ([]byte, error)",
  "v5 := nas.NewMessage()",
  "v6 := v5.PlainNasDecode(&v1)",
  "if v6 != nil { return nil, v6 }",
  "v5.SecurityHeader = nas.SecurityHeader{ ProtocolDiscriminator: nasMessage.Epd5GSMobilityManagementMessage, SecurityHeaderType: v2, }",
  "return NASEncode(v0, v5, v3, v4)"
]

/-- `tglib.GetAccessAndMobilitySubscriptionData` -/
def tglib_GetAccessAndMobilitySubscriptionData : List String := [
  "func() (v0 models.AccessAndMobilitySubscriptionData)",
  "return TestRegistrationProcedure.TestAmDataTable[TestRegistrationProcedure.FREE5GC_CASE]"
]

/-- `tglib.GetAmPolicyData` -/
def tglib_GetAmPolicyData : List String := [
  "func() (v0 models.AmPolicyData)",
  "return TestRegistrationProcedure.TestAmPolicyDataTable[TestRegistrationProcedure.FREE5GC_CASE]"
]

/-- `tglib.GetAuthSubscription` -/
def tglib_GetAuthSubscription : List String := [
  "func(v0, v1, v2 string) models.AuthenticationSubscription",
  "var v3 models.AuthenticationSubscription",
  "v3.PermanentKey = &models.PermanentKey{ PermanentKeyValue: v0, }",
  "v3.Opc = &models.Opc{ OpcValue: v1, }",
  "v3.Milenage = &models.Milenage{ Op: &models.Op{ OpValue: v2, }, }",
  "v3.AuthenticationManagementField = \"8000\"",
  "v3.SequenceNumber = TestGenAuthData.MilenageTestSet19.SQN",
  "v3.AuthenticationMethod = models.AuthMethod__5_G_AKA",
  "return v3"
]

/-- `tglib.GetHandoverNotify` -/
def tglib_GetHandoverNotify : List String := [
  "func(v0 int64, v1 int64) ([]byte, error)",
  "v2 := ngapTestpacket.BuildHandoverNotify(v0, v1)",
  "return ngap.Encoder(v2)"
]

/-- `tglib.GetHandoverRequestAcknowledge` -/
def tglib_GetHandoverRequestAcknowledge : List String := [
  "func(v0 int64, v1 int64) ([]byte, error)",
  "v2 := ngapTestpacket.BuildHandoverRequestAcknowledge(v0, v1)",
  "return ngap.Encoder(v2)"
]

/-- `tglib.GetHandoverRequired` -/
def tglib_GetHandoverRequired : List String := [
  "func( v0 int64, v1 int64, v2 []byte, v3 []byte) ([]byte, error)",
  "v4 := ngapTestpacket.BuildHandoverRequired(v0, v1, v2, v3)",
  "return ngap.Encoder(v4)"
]

/-- `tglib.GetInitialContextSetupResponse` -/
def tglib_GetInitialContextSetupResponse : List String := [
  "func(v0 int64, v1 int64) ([]byte, error)",
  "v2 := ngapTestpacket.BuildInitialContextSetupResponseForRegistraionTest(v0, v1)",
  "return ngap.Encoder(v2)"
]

/-- `tglib.GetInitialContextSetupResponseForServiceRequest` -/
def tglib_GetInitialContextSetupResponseForServiceRequest : List String := [
  "func( v0 int64, v1 int64, v2 int64, v3 string) ([]byte, error)",
  "v4 := ngapTestpacket.BuildInitialContextSetupResponse(v0, v1, v2, v3, nil)",
  "return ngap.Encoder(v4)"
]

/-- `tglib.GetInitialUEMessage` -/
def tglib_GetInitialUEMessage : List String := [
  "func(v0 int64, v1 []byte, v2 string) ([]byte, error)",
  "v3 := ngapTestpacket.BuildInitialUEMessage(v0, v1, v2)",
  "return ngap.Encoder(v3)"
]

/-- `tglib.GetNGSetupRequest` -/
def tglib_GetNGSetupRequest : List String := [
  "func(v0 []byte, v1 []uint8, v2 uint64, v3 string) ([]byte, error)",
  "v4 := ngapTestpacket.BuildNGSetupRequest(v1)",
  "v5 := v4.InitiatingMessage.Value.NGSetupRequest.ProtocolIEs.List[0]",
  "v6 := v5.Value.GlobalRANNodeID.GlobalGNBID.GNBID.GNBID",
  "v6.Bytes = v0",
  "v6.BitLength = v2",
  "v5 = v4.InitiatingMessage.Value.NGSetupRequest.ProtocolIEs.List[1]",
  "v5.Value.RANNodeName.Value = v3",
  "return ngap.Encoder(v4)"
]

/-- `tglib.GetNasPdu` -/
def tglib_GetNasPdu : List String := [
  "func(v0 *RanUeContext, v1 *ngapType.DownlinkNASTransport) (v2 *nas.Message)",
  "for _, v3 := range v1.ProtocolIEs.List { if v3.Id.Value == ngapType.ProtocolIEIDNASPDU { v4 := []byte(v3.Value.NASPDU.Value) v2, v5 := NASDecode(v0, nas.GetSecurityHeaderType(v4), v4) if v5 != nil { return nil } return v2 } }",
  "return nil"
]

/-- `tglib.GetPDUSessionResourceReleaseResponse` -/
def tglib_GetPDUSessionResourceReleaseResponse : List String := [
  "func(v0 int64, v1 int64, v2 int64) ([]byte, error)",
  "v3 := ngapTestpacket.BuildPDUSessionResourceReleaseResponseForReleaseTest(v0, v1, v2)",
  "return ngap.Encoder(v3)"
]

/-- `tglib.GetPDUSessionResourceSetupResponse` -/
def tglib_GetPDUSessionResourceSetupResponse : List String := [
  "func(v0 int64, v1 int64, v2 int64, v3 string) ([]byte, error)",
  "v4 := ngapTestpacket.BuildPDUSessionResourceSetupResponseForRegistrationTest(v0, v1, v2, v3)",
  "return ngap.Encoder(v4)"
]

/-- `tglib.GetPDUSessionResourceSetupResponseForPaging` -/
def tglib_GetPDUSessionResourceSetupResponseForPaging : List String := [
  "func(v0 int64, v1 int64, v2 string) ([]byte, error)",
  "v3 := ngapTestpacket.BuildPDUSessionResourceSetupResponseForPaging(v0, v1, v2)",
  "return ngap.Encoder(v3)"
]

/-- `tglib.GetPathSwitchRequest` -/
def tglib_GetPathSwitchRequest : List String := [
  "func(v0 int64, v1 int64) ([]byte, error)",
  "v2 := ngapTestpacket.BuildPathSwitchRequest(v0, v1)",
  "v2.InitiatingMessage.Value.PathSwitchRequest.ProtocolIEs.List = v2.InitiatingMessage.Value.PathSwitchRequest.ProtocolIEs.List[0:5]",
  "return ngap.Encoder(v2)"
]

/-- `tglib.GetSessionManagementSubscriptionData` -/
def tglib_GetSessionManagementSubscriptionData : List String := [
  "func() (v0 models.SessionManagementSubscriptionData)",
  "return TestRegistrationProcedure.TestSmSelDataTable[TestRegistrationProcedure.FREE5GC_CASE]"
]

/-- `tglib.GetSmPolicyData` -/
def tglib_GetSmPolicyData : List String := [
  "func() (v0 models.SmPolicyData)",
  "return TestRegistrationProcedure.TestSmPolicyDataTable[TestRegistrationProcedure.FREE5GC_CASE]"
]

/-- `tglib.GetSmfSelectionSubscriptionData` -/
def tglib_GetSmfSelectionSubscriptionData : List String := [
  "func() (v0 models.SmfSelectionSubscriptionData)",
  "return TestRegistrationProcedure.TestSmfSelDataTable[TestRegistrationProcedure.FREE5GC_CASE]"
]

/-- `tglib.GetUEContextReleaseComplete` -/
def tglib_GetUEContextReleaseComplete : List String := [
  "func(v0 int64, v1 int64, v2 []int64) ([]byte, error)",
  "v3 := ngapTestpacket.BuildUEContextReleaseComplete(v0, v1, v2)",
  "return ngap.Encoder(v3)"
]

/-- `tglib.GetUEContextReleaseRequest` -/
def tglib_GetUEContextReleaseRequest : List String := [
  "func(v0 int64, v1 int64, v2 []int64) ([]byte, error)",
  "v3 := ngapTestpacket.BuildUEContextReleaseRequest(v0, v1, v2)",
  "return ngap.Encoder(v3)"
]

/-- `tglib.GetUplinkNASTransport` -/
def tglib_GetUplinkNASTransport : List String := [
  "func(v0, v1 int64, v2 []byte) ([]byte, error)",
  "v3 := ngapTestpacket.BuildUplinkNasTransport(v0, v1, v2)",
  "return ngap.Encoder(v3)"
]

/-- `tglib.NASDecode` -/
def tglib_NASDecode : List String := [
  "func(v0 *RanUeContext, v1 uint8, v2 []byte) (v3 *nas.Message, v4 error)",
  "if v0 == nil { v4 = fmt.Errorf(\"amfUe is nil\") return }",
  "if v2 == nil { v4 = fmt.Errorf(\"Nas payload is empty\") return }",
  "v3 = new(nas.Message)",
  "if v1 == nas.SecurityHeaderTypePlainNas { v4 = v3.PlainNasDecode(&v2) return } else if v0.IntegrityAlg == security.AlgIntegrity128NIA0 { v2 = v2[3:] if v4 = security.NASEncrypt(v0.CipheringAlg, v0.KnasEnc, v0.DLCount.Get(), security.Bearer3GPP, security.DirectionDownlink, v2); v4 != nil { return nil, v4 } v4 = v3.PlainNasDecode(&v2) return } else { if v1 == nas.SecurityHeaderTypeIntegrityProtectedWithNew5gNasSecurityContext || v1 == nas.SecurityHeaderTypeIntegrityProtectedAndCipheredWithNew5gNasSecurityContext { v0.DLCount.Set(0, 0) } v5 := v2[0:6] v6 := v2[6] v7 := v5[2:] v2 = v2[6:] if v0.DLCount.SQN() > v6 { v0.DLCount.SetOverflow(v0.DLCount.Overflow() + 1) } v0.DLCount.SetSQN(v6) if v0.IntegrityAlg != security.AlgIntegrity128NIA0 { v8, v9 := security.NASMacCalculate(v0.IntegrityAlg, v0.KnasInt, v0.DLCount.Get(), security.Bearer3GPP, security.DirectionDownlink, v2) if v9 != nil { return nil, v9 } if !reflect.DeepEqual(v8, v7) { } else { } } v2 = v2[1:] if v1 == nas.SecurityHeaderTypeIntegrityProtectedAndCiphered || v1 == nas.SecurityHeaderTypeIntegrityProtectedAndCipheredWithNew5gNasSecurityContext { if v4 = security.NASEncrypt(v0.CipheringAlg, v0.KnasEnc, v0.DLCount.Get(), security.Bearer3GPP, security.DirectionDownlink, v2); v4 != nil { return nil, v4 } } }",
  "v4 = v3.PlainNasDecode(&v2)",
  "return v3, v4"
]

/-- `tglib.NASEncode` -/
def tglib_NASEncode : List String := [
  "func(v0 *RanUeContext, v1 *nas.Message, v2 bool, v3 bool) ( v4 []byte, v5 error)",
  "var v6 uint8",
  "if v0 == nil { v5 = fmt.Errorf(\"amfUe is nil\") return }",
  "if v1 == nil { v5 = fmt.Errorf(\"Nas Message is empty\") return }",
  "if !v2 { return v1.PlainNasEncode() } else { if v3 { v0.ULCount.Set(0, 0) v0.DLCount.Set(0, 0) } v6 = v0.ULCount.SQN() v4, v5 = v1.PlainNasEncode() if v5 != nil { return } if v1.SecurityHeader.SecurityHeaderType == nas.SecurityHeaderTypeIntegrityProtectedAndCiphered || v1.SecurityHeader.SecurityHeaderType == nas.SecurityHeaderTypeIntegrityProtectedAndCipheredWithNew5gNasSecurityContext { if v5 = security.NASEncrypt(v0.CipheringAlg, v0.KnasEnc, v0.ULCount.Get(), security.Bearer3GPP, security.DirectionUplink, v4); v5 != nil { return } } v4 = append([]byte{v6}, v4[:]...) v7 := make([]byte, 4) _ = v7 v7, v5 = security.NASMacCalculate(v0.IntegrityAlg, v0.KnasInt, v0.ULCount.Get(), security.Bearer3GPP, security.DirectionUplink, v4) if v5 != nil { return } v4 = append(v7, v4[:]...) v8 := []byte{v1.SecurityHeader.ProtocolDiscriminator, v1.SecurityHeader.SecurityHeaderType} v4 = append(v8, v4[:]...) v0.ULCount.AddOne() }",
  "return v4, v5"
]

/-- `tglib.NewRanUeContext` -/
def tglib_NewRanUeContext : List String := [
  "func(v0 string, v1 int64, v2, v3 uint8) *RanUeContext",
  "v4 := RanUeContext{}",
  "v4.RanUeNgapId = v1",
  "v4.Supi = v0",
  "v4.CipheringAlg = v2",
  "v4.IntegrityAlg = v3",
  "return &v4"
]

/-- `tglib.RanUeContext.DerivateAlgKey` -/
def tglib_RanUeContext_DerivateAlgKey : List String := [
  "(*RanUeContext) func()",
  "v1 := []byte{security.NNASEncAlg}",
  "v2 := UeauCommon.KDFLen(v1)",
  "v3 := []byte{v0.CipheringAlg}",
  "v4 := UeauCommon.KDFLen(v3)",
  "v5 := UeauCommon.GetKDFValue(v0.Kamf, UeauCommon.FC_FOR_ALGORITHM_KEY_DERIVATION, v1, v2, v3, v4)",
  "copy(v0.KnasEnc[:], v5[16:32])",
  "v1 = []byte{security.NNASIntAlg}",
  "v2 = UeauCommon.KDFLen(v1)",
  "v3 = []byte{v0.IntegrityAlg}",
  "v4 = UeauCommon.KDFLen(v3)",
  "v6 := UeauCommon.GetKDFValue(v0.Kamf, UeauCommon.FC_FOR_ALGORITHM_KEY_DERIVATION, v1, v2, v3, v4)",
  "copy(v0.KnasInt[:], v6[16:32])"
]

/-- `tglib.RanUeContext.DerivateKamf` -/
def tglib_RanUeContext_DerivateKamf : List String := [
  "(*RanUeContext) func(v1 []byte, v2 string, v3, v4 []byte)",
  "v5 := UeauCommon.FC_FOR_KAUSF_DERIVATION",
  "v6 := []byte(v2)",
  "v7 := v3",
  "v8 := UeauCommon.GetKDFValue(v1, v5, v6, UeauCommon.KDFLen(v6), v7, UeauCommon.KDFLen(v7))",
  "v6 = []byte(v2)",
  "v9 := UeauCommon.GetKDFValue(v8, UeauCommon.FC_FOR_KSEAF_DERIVATION, v6, UeauCommon.KDFLen(v6))",
  "v10, v11 := regexp.Compile(\"(?:imsi|supi)-([0-9]{5,15})\")",
  "if v11 != nil { fatal.Fatalf(\"regexp Compile error: %+v\", v11) }",
  "v12 := v10.FindStringSubmatch(v0.Supi)",
  "v6 = []byte(v12[1])",
  "v13 := UeauCommon.KDFLen(v6)",
  "v7 = []byte{0x00, 0x00}",
  "v14 := UeauCommon.KDFLen(v7)",
  "v0.Kamf = UeauCommon.GetKDFValue(v9, UeauCommon.FC_FOR_KAMF_DERIVATION, v6, v13, v7, v14)"
]

/-- `tglib.RanUeContext.DeriveRESstarAndSetKey` -/
def tglib_RanUeContext_DeriveRESstarAndSetKey : List String := [
  "(*RanUeContext) func( v1 models.AuthenticationSubscription, v2 [16]uint8, v3 []byte, v4 string, v5 string, v6 string) []byte",
  "v7 := make([]byte, 8)",
  "copy(v7[2:], v2[0:6])",
  "v8, v9 := hex.DecodeString(v1.AuthenticationManagementField)",
  "if v9 != nil { fatal.Fatalf(\"DecodeString error: %+v\", v9) }",
  "v10 := make([]byte, 16)",
  "_ = v10",
  "v11, v9 := hex.DecodeString(v1.PermanentKey.PermanentKeyValue)",
  "if v9 != nil { fatal.Fatalf(\"DecodeString error: %+v\", v9) }",
  "var v12 *milenage.Milenage",
  "if v1.Opc.OpcValue == \"\" { v13 := v1.Milenage.Op.OpValue var v14 []byte v14, v9 = hex.DecodeString(v13) if v9 != nil { fatal.Fatalf(\"DecodeString error: %+v\", v9) } v12 = milenage.New(v11, v14, v3, binary.LittleEndian.Uint64(v7), binary.LittleEndian.Uint16(v8)) } else { v10, v9 = hex.DecodeString(v1.Opc.OpcValue) if v9 != nil { fatal.Fatalf(\"DecodeString error: %+v\", v9) } v12 = milenage.NewWithOPc(v11, v10, v3, binary.LittleEndian.Uint64(v7), binary.LittleEndian.Uint16(v8)) }",
  "v12.F1()",
  "v12.F1Star(v7, v8)",
  "_, v15, v16, v17, v9 := v12.F2345()",
  "if v9 != nil { fatal.Fatalf(\"ComputeRES error: %+v\", v9) }",
  "v18 := append(v15, v16...)",
  "v0.DerivateKamf(v18, v4, v2[0:6], v17)",
  "v0.DerivateAlgKey()",
  "v19, v9 := v12.ComputeRESStar(v6, v5)",
  "if v9 != nil { fatal.Fatalf(\"ComputeRES error: %+v\", v9) }",
  "return v19"
]

/-- `tglib.RanUeContext.Get5GMMCapability` -/
def tglib_RanUeContext_Get5GMMCapability : List String := [
  "(*RanUeContext) func() (v1 *nasType.Capability5GMM)",
  "return &nasType.Capability5GMM{ Iei: nasMessage.RegistrationRequestCapability5GMMType, Len: 1, Octet: [13]uint8{0x07, 0x00, 0x00, 0x00, 0x00, 0x00, 0x00, 0x00, 0x00, 0x00, 0x00, 0x00, 0x00}, }"
]

/-- `tglib.RanUeContext.GetUESecurityCapability` -/
def tglib_RanUeContext_GetUESecurityCapability : List String := [
  "(*RanUeContext) func() (v1 *nasType.UESecurityCapability)",
  "v1 = &nasType.UESecurityCapability{ Iei: nasMessage.RegistrationRequestUESecurityCapabilityType, Len: 2, Buffer: []uint8{0x00, 0x00}, }",
  "switch v0.CipheringAlg { case security.AlgCiphering128NEA0: v1.SetEA0_5G(1) case security.AlgCiphering128NEA1: v1.SetEA1_128_5G(1) case security.AlgCiphering128NEA2: v1.SetEA2_128_5G(1) case security.AlgCiphering128NEA3: v1.SetEA3_128_5G(1) }",
  "switch v0.IntegrityAlg { case security.AlgIntegrity128NIA0: v1.SetIA0_5G(1) case security.AlgIntegrity128NIA1: v1.SetIA1_128_5G(1) case security.AlgIntegrity128NIA2: v1.SetIA2_128_5G(1) case security.AlgIntegrity128NIA3: v1.SetIA3_128_5G(1) }",
  "return"
]

/-- `UeauCommon.GetKDFValue` -/
def UeauCommon_GetKDFValue : List String := [
  "func(v0 []byte, v1 string, v2 ...[]byte) []byte",
  "v3 := hmac.New(sha256.New, v0)",
  "var v4 []byte",
  "if v5, v6 := hex.DecodeString(string(v1)); v6 != nil { log.Printf(\"Hex decode failed: %+v\", v6) } else { v4 = v5 }",
  "for _, v7 := range v2 { v4 = append(v4, v7...) }",
  "if _, v6 := v3.Write(v4); v6 != nil { log.Printf(\"KDF write failed: %+v\", v6) }",
  "v8 := v3.Sum(nil)",
  "return v8"
]

/-- `UeauCommon.KDFLen` -/
def UeauCommon_KDFLen : List String := [
  "func(v0 []byte) []byte",
  "var v1 = make([]byte, 2)",
  "binary.BigEndian.PutUint16(v1, uint16(len(v0)))",
  "return v1"
]

/-- the functions found, in order -/
def names : List String := ["UeauCommon_GetKDFValue", "UeauCommon_KDFLen", "stgutg_Conf_GetConfiguration", "stgutg_CreateUE", "stgutg_DecodePDUSessionNASPDU", "stgutg_DecodePDUSessionResourceSetupRequestTransfer", "stgutg_DeregisterUE", "stgutg_EncodeSuci", "stgutg_EstablishPDU", "stgutg_FindPDUSessionResourceSetupListSUReq", "stgutg_GetMode", "stgutg_ManageError", "stgutg_ManageNGSetup", "stgutg_Min", "stgutg_ModifyPDU", "stgutg_RegisterUE", "stgutg_ReleasePDU", "stgutg_ServiceRequest", "stgutg_hexCharToByte", "tglib_EncodeNasPduWithSecurity", "tglib_GetAccessAndMobilitySubscriptionData", "tglib_GetAmPolicyData", "tglib_GetAuthSubscription", "tglib_GetHandoverNotify", "tglib_GetHandoverRequestAcknowledge", "tglib_GetHandoverRequired", "tglib_GetInitialContextSetupResponse", "tglib_GetInitialContextSetupResponseForServiceRequest", "tglib_GetInitialUEMessage", "tglib_GetNGSetupRequest", "tglib_GetNasPdu", "tglib_GetPDUSessionResourceReleaseResponse", "tglib_GetPDUSessionResourceSetupResponse", "tglib_GetPDUSessionResourceSetupResponseForPaging", "tglib_GetPathSwitchRequest", "tglib_GetSessionManagementSubscriptionData", "tglib_GetSmPolicyData", "tglib_GetSmfSelectionSubscriptionData", "tglib_GetUEContextReleaseComplete", "tglib_GetUEContextReleaseRequest", "tglib_GetUplinkNASTransport", "tglib_NASDecode", "tglib_NASEncode", "tglib_NewRanUeContext", "tglib_RanUeContext_DerivateAlgKey", "tglib_RanUeContext_DerivateKamf", "tglib_RanUeContext_DeriveRESstarAndSetKey", "tglib_RanUeContext_Get5GMMCapability", "tglib_RanUeContext_GetUESecurityCapability"]

end Stgutg.Spec.GluePinned
