/-
  What the documentation says about the configuration: the 24 keys of the sample configuration file with the kind
  of value each takes, which parameter of which procedure each key is meant for (from the meaning of the keys and
  the parameter names of the procedures), and how often each procedure is to run. Written by hand; nothing here
  is derived from stg-utg.go.
-/
namespace Stgutg.Spec.ConfigWiring

/-- key ↦ kind of value ("string" | "int") -/
def documented : List (String × String) := [
  ("amf_ngap_ip", "string"), ("amf_ngap_port", "int"), ("gnb_gtp_ip", "string"),
  ("stg_ngap_ip", "string"), ("stg_ngap_port", "int"),
  ("initial_imsi", "string"), ("mcc", "string"), ("mnc", "string"),
  ("gnb_id", "string"), ("gnb_bitlength", "int"), ("gnb_name", "string"),
  ("k", "string"), ("opc", "string"), ("op", "string"),
  ("sst", "int"), ("sd", "string"),
  ("downlink_iface", "string"), ("uplink_iface", "string"),
  ("ue_number", "int"),
  ("ue_registration", "int"), ("ue_pdu", "int"), ("ue_service", "int"), ("ue_pdu_release", "int"),
  ("ue_deregistration", "int")]

def keys : List String := documented.map (·.1)

/-- an expression over configuration keys -/
inductive KeyExpr where
  | key (k : String)
  | min (a b : KeyExpr)
  deriving DecidableEq, Repr

def KeyExpr.eval {V : Type} (cfg : String → V) (mn : V → V → V) : KeyExpr → V
  | .key k => cfg k
  | .min a b => mn (a.eval cfg mn) (b.eval cfg mn)

def KeyExpr.keysOf : KeyExpr → List String
  | .key k => [k]
  | .min a b => a.keysOf ++ b.keysOf

/-- in mode `mode`, parameter `param` (position `pos`) of the `occ`-th call of `callee` receives the value of `key` -/
structure Flow where
  mode : Nat
  callee : String
  occ : Nat
  pos : Nat
  param : String
  key : String
  deriving DecidableEq, Repr

/-- mode 1 = traffic mode, mode 2 = test mode -/
def signalling (mode : Nat) : List Flow := [
  -- N2 association: AMF address/port, own address/port
  ⟨mode, "tglib.ConnectToAmf", 0, 0, "amfIP", "amf_ngap_ip"⟩,
  ⟨mode, "tglib.ConnectToAmf", 0, 1, "stgIP", "stg_ngap_ip"⟩,
  ⟨mode, "tglib.ConnectToAmf", 0, 2, "amfPort", "amf_ngap_port"⟩,
  ⟨mode, "tglib.ConnectToAmf", 0, 3, "stgPort", "stg_ngap_port"⟩,
  -- NG Setup: gNB identity, bit length, name; PLMN from the IMSI and the MNC
  ⟨mode, "stgutg.ManageNGSetup", 0, 1, "gnbId", "gnb_id"⟩,
  ⟨mode, "stgutg.ManageNGSetup", 0, 2, "imsi", "initial_imsi"⟩,
  ⟨mode, "stgutg.ManageNGSetup", 0, 3, "mnc", "mnc"⟩,
  ⟨mode, "stgutg.ManageNGSetup", 0, 4, "bitlength", "gnb_bitlength"⟩,
  ⟨mode, "stgutg.ManageNGSetup", 0, 5, "name", "gnb_name"⟩,
  -- UE: IMSI and authentication data
  ⟨mode, "stgutg.CreateUE", 0, 0, "imsi", "initial_imsi"⟩,
  ⟨mode, "stgutg.CreateUE", 0, 2, "K", "k"⟩,
  ⟨mode, "stgutg.CreateUE", 0, 3, "OPC", "opc"⟩,
  ⟨mode, "stgutg.CreateUE", 0, 4, "OP", "op"⟩,
  -- registration: serving network
  ⟨mode, "stgutg.RegisterUE", 0, 1, "mnc", "mnc"⟩,
  ⟨mode, "stgutg.RegisterUE", 0, 2, "mcc", "mcc"⟩,
  -- PDU session: slice and the gNB's N3 address
  ⟨mode, "stgutg.EstablishPDU", 0, 0, "sst", "sst"⟩,
  ⟨mode, "stgutg.EstablishPDU", 0, 1, "sd", "sd"⟩,
  ⟨mode, "stgutg.EstablishPDU", 0, 4, "gnb_gtp", "gnb_gtp_ip"⟩]

def teardown (mode : Nat) : List Flow := [
  ⟨mode, "stgutg.ReleasePDU", 0, 0, "sst", "sst"⟩,
  ⟨mode, "stgutg.ReleasePDU", 0, 1, "sd", "sd"⟩,
  ⟨mode, "stgutg.DeregisterUE", 0, 1, "mnc", "mnc"⟩]

/-- every configuration value that is to reach a procedure parameter, mode by mode in the order of the procedures -/
def expectedFlows : List Flow :=
  -- traffic mode: the two data-plane interfaces first (client-facing = downlink, UPF-facing = uplink)
  [⟨1, "net.InterfaceByName", 0, 0, "name", "downlink_iface"⟩,
   ⟨1, "net.InterfaceByName", 1, 0, "name", "uplink_iface"⟩] ++
  signalling 1 ++ teardown 1 ++
  -- test mode: additionally the service request needs the gNB's N3 address
  signalling 2 ++ [⟨2, "stgutg.ServiceRequest", 0, 3, "gnb_gtp", "gnb_gtp_ip"⟩] ++ teardown 2

/-- how often a procedure runs: once, or a number of times given by keys -/
structure Repetition where
  mode : Nat
  callee : String
  occ : Nat
  times : Option KeyExpr
  deriving DecidableEq, Repr

open KeyExpr in
/-- traffic mode: `ue_number` UEs, each created, registered, given a session, released and deregistered.
    test mode: `ue_registration` registrations; a session can only be established for a registered UE, a service
    requested or a session released only for an established session, a UE deregistered only if registered — so the
    counts are capped accordingly. -/
def expectedRepetitions : List Repetition := [
  ⟨1, "net.InterfaceByName", 0, none⟩, ⟨1, "net.InterfaceByName", 1, none⟩,
  ⟨1, "tglib.ConnectToAmf", 0, none⟩, ⟨1, "stgutg.ManageNGSetup", 0, none⟩,
  ⟨1, "stgutg.CreateUE", 0, some (key "ue_number")⟩, ⟨1, "stgutg.RegisterUE", 0, some (key "ue_number")⟩,
  ⟨1, "stgutg.EstablishPDU", 0, some (key "ue_number")⟩, ⟨1, "stgutg.ReleasePDU", 0, some (key "ue_number")⟩,
  ⟨1, "stgutg.DeregisterUE", 0, some (key "ue_number")⟩,
  ⟨2, "tglib.ConnectToAmf", 0, none⟩, ⟨2, "stgutg.ManageNGSetup", 0, none⟩,
  ⟨2, "stgutg.CreateUE", 0, some (key "ue_registration")⟩, ⟨2, "stgutg.RegisterUE", 0, some (key "ue_registration")⟩,
  ⟨2, "stgutg.EstablishPDU", 0, some (min (key "ue_registration") (key "ue_pdu"))⟩,
  ⟨2, "stgutg.ServiceRequest", 0, some (min (min (key "ue_registration") (key "ue_pdu")) (key "ue_service"))⟩,
  ⟨2, "stgutg.ReleasePDU", 0, some (min (min (key "ue_registration") (key "ue_pdu")) (key "ue_pdu_release"))⟩,
  ⟨2, "stgutg.DeregisterUE", 0, some (min (key "ue_registration") (key "ue_deregistration"))⟩]

/-- the command line: no argument → traffic mode (1); exactly `-t` → test mode (2); anything else → nothing (0) -/
def modeOf (argv : List String) : Nat :=
  match argv with
  | [_] => 1
  | [_, "-t"] => 2
  | _ => 0

end Stgutg.Spec.ConfigWiring
