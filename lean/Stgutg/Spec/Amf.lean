/-
  C01 / C02 — the reference AMF/SMF as a JUDGE of an uplink transcript.

  Given what the network knows (the subscriber data, i.e. IMSI range, K, OP/OPc, PLMN; the requested repetition counts)
  and what it chose for each UE (RAND, SQN, AMF field, ngKSI, AMF-UE-NGAP-ID, UE address, TEID, UPF address), it reads
  the uplink N2 messages in order as a state machine and records every clause under which a conformant AMF/SMF would not
  accept a message, as `(uplink index, clause)`. `accept` = no clause failed.

  Acceptance predicate = the two layers of DESIGN.md "C01 / C02 — Acceptance predicate", nothing more:
   core     decodable as an NGAP PDU whose X.691 encoding (Spec/X691.lean over the TS 38.413-constrained schema) is the
            received octets; the message expected in the UE's state; mandatory IEs with their criticality
            (Spec/Ts38413.lean); AMF-UE-NGAP-ID / RAN-UE-NGAP-ID as assigned; the NAS message parses with the TS 24.501
            parser (Spec/Ts24501.lean); SUCI and PLMN identify a configured subscriber (Spec/Ts24501Identity.lean);
            RES* = XRES* (Spec/Ts33501A.lean over Spec/Ts35206.lean); security header type, MAC and NAS COUNT
            (Spec/NasSecurity.lean `receive`, COUNT 0 with Security Mode Complete, then one above the last accepted during
            registration, strictly above and never reused afterwards); one PDU session identity in the 5GSM message, the
            UL NAS TRANSPORT IE and the NGAP response; prerequisite procedure completed; reported = assigned; completion.
   explicit TS 24.501 7.3.1 (unassigned / reserved PTI in a UE-requested 5GSM procedure), 7.3.2 (unassigned / reserved PSI),
            7.5 (mandatory IE syntactically incorrect: identity of type "no identity"), TS 38.413 10.3 (missing mandatory IE).
  Deliberately NOT judged: CM/RM state rules, timers, whether the 5G-S-TMSI is one the network assigned, header type 1 vs 2
  of the initial NAS message SERVICE REQUEST, gNB id / name values, the user location contents.

  The NGAP decoder used to FIND the value is the model of the library decoder; it is only a witness finder: the value is
  accepted when the specification encoder maps it back to the received octets.
  Core Lean only. `P : Prims` carries AES / CMAC / HMAC.
-/
import Stgutg.Spec.NgapView
import Stgutg.Spec.Ts38413
import Stgutg.Spec.Ts38413Leaf
import Stgutg.Spec.X691
import Stgutg.Spec.Ts24501
import Stgutg.Spec.Ts24501Identity
import Stgutg.Spec.Ts33501A
import Stgutg.Spec.NasSecurity
import Stgutg.Model.AperDec
import Stgutg.Gen.NgapSchema

namespace Stgutg.Spec.Amf
open Stgutg Stgutg.Aper Stgutg.Spec.NgapView

/-! ### what the network knows and chooses -/

structure Cfg where
  /-- first IMSI (ASCII digits); subscriber `j` is IMSI + j written with the same number of digits -/
  imsi : Bytes
  mcc : Bytes
  mnc : Bytes
  /-- K, OPc, OP as hexadecimal text; OPc empty = derive it from OP -/
  k : Bytes
  opc : Bytes
  op : Bytes
  gnbId : Bytes
  bitLength : Nat
  name : Bytes
  abba : Bytes
  /-- requested repetitions: registrations, establishments, service requests, releases, de-registrations -/
  reg : Int
  pdu : Int
  svc : Int
  rel : Int
  dereg : Int
  /-- long-history scenario of the correspondence harness: one UE, `pdu` establishment requests in a row -/
  hist : Bool := false
  deriving Repr

structure Choice where
  rand : Bytes
  sqn : Bytes
  amf : Bytes
  ngKsi : Nat
  amfUeNgapId : Nat
  ueIp : Bytes
  teid : Nat
  upfIp : Bytes
  deriving Repr, DecidableEq

structure Reported where
  ip : Bytes
  teid : Nat
  upf : Bytes
  deriving Repr, DecidableEq

inductive Verdict where
  | accept
  | refuse (key : String)
  deriving Repr, DecidableEq

/-! ### small helpers -/

def hexNib (c : UInt8) : Option Nat :=
  if 48 ≤ c && c ≤ 57 then some (c.toNat - 48)
  else if 97 ≤ c && c ≤ 102 then some (c.toNat - 87)
  else if 65 ≤ c && c ≤ 70 then some (c.toNat - 55)
  else none

/-- hexadecimal text → octets -/
def hexText : Bytes → Option Bytes
  | [] => some []
  | [_] => none
  | a :: b :: rest =>
    match hexNib a, hexNib b, hexText rest with
    | some x, some y, some r => some (UInt8.ofNat (x * 16 + y) :: r)
    | _, _, _ => none

def digitsOf (s : Bytes) : Option (List Nat) :=
  s.mapM fun c => if 48 ≤ c && c ≤ 57 then some (c.toNat - 48) else none

def digitsVal (ds : List Nat) : Nat := ds.foldl (fun a d => a * 10 + d) 0

/-- the `w` low decimal digits of `n`, most significant first -/
def toDigits : Nat → Nat → List Nat
  | 0, _ => []
  | w + 1, n => toDigits w (n / 10) ++ [n % 10]

def asciiDigits (ds : List Nat) : Bytes := ds.map fun d => UInt8.ofNat (48 + d)

/-- the IMSI of subscriber `j` as digits -/
def supiDigits (cfg : Cfg) (j : Nat) : Option (List Nat) :=
  (digitsOf cfg.imsi).map fun ds => toDigits ds.length (digitsVal ds + j)

/-- number of configured subscribers -/
def subscribers (cfg : Cfg) : Nat := cfg.reg.toNat

/-- the MSIN of subscriber `j`: the IMSI without MCC and MNC -/
def msinOf (cfg : Cfg) (j : Nat) : Option (List Nat) :=
  (supiDigits cfg j).map fun ds => ds.drop (cfg.mcc.length + cfg.mnc.length)

/-- the PLMN of the configuration in the 3-octet NAS layout -/
def plmnOf (cfg : Cfg) : Option Bytes :=
  match digitsOf cfg.mcc, digitsOf cfg.mnc with
  | some c, some n => Spec.Identity.plmn3 c n
  | _, _ => none

/-! ### 5G-AKA at the network side -/

/-- OPc of the subscription: configured, or OP ⊕ E_K(OP) -/
def opcOf (P : Prims) (cfg : Cfg) : Option Bytes :=
  match hexText cfg.k with
  | none => none
  | some k =>
    if cfg.opc.isEmpty then (hexText cfg.op).map fun op => Spec.Ts35206.opc P.aes k op
    else hexText cfg.opc

/-- selected algorithms: 5G-EA0 and 128-5G-IA2 (the only ones the emulated UE announces) -/
def selectedEa : Nat := 0
def selectedIa : Nat := 2

/-- the authentication vector and key hierarchy for subscriber `j` under choice `ch` -/
def vector (P : Prims) (cfg : Cfg) (j : Nat) (ch : Choice) : Option Spec.Ts33501A.Aka :=
  match hexText cfg.k, opcOf P cfg, supiDigits cfg j with
  | some k, some opc, some supi =>
    let ak := Spec.Ts35206.f5 P.aes k opc ch.rand
    some (Spec.Ts33501A.aka P.aes P.hmac k opc ch.rand (xorBytes ch.sqn ak) cfg.mcc cfg.mnc (asciiDigits supi)
      (UInt8.ofNat selectedEa) (UInt8.ofNat selectedIa))
  | _, _, _ => none

/-- AUTN the network sends -/
def autnOf (P : Prims) (cfg : Cfg) (ch : Choice) : Option Bytes :=
  match hexText cfg.k, opcOf P cfg with
  | some k, some opc => some (Spec.Ts35206.autn P.aes k opc ch.rand ch.sqn ch.amf)
  | _, _ => none

/-! ### NGAP: decoding and the IE walker -/

def specSchema : Env := Spec.Ts38413.patchSchema Gen.Ngap.schema

def ngapFuel : Nat := 8 * (Gen.Ngap.schema.length + 1) + 1

/-- the received PDU as a value: found with the decoder, accepted when X.691 maps it back to the received octets -/
def decodeNgap (b : Bytes) : Option Val :=
  match Aper.unmarshal Gen.Ngap.schema ngapFuel (.struct Gen.Ngap.pduId) Gen.Ngap.decoderParams b with
  | .ok v =>
    if Spec.X691.encodePdu specSchema ngapFuel (.struct Gen.Ngap.pduId) Gen.Ngap.encoderParams v == some b then some v else none
  | .error _ => none

open Spec.Ts38413 in
/-- the messages an AMF can receive from the emulated gNB -/
def uplinkMsgs : List Msg :=
  [.NGSetupRequest, .InitialUEMessage, .UplinkNASTransport, .InitialContextSetupResponse, .PDUSessionResourceSetupResponse,
   .PDUSessionResourceReleaseResponse, .UEContextReleaseComplete]

/-- which TS 38.413 message the PDU is (class + procedure code, clause 9.4.3) -/
def msgOf (v : Val) : Option Spec.Ts38413.Msg :=
  match pduPresent v, pduProc v with
  | some p, some code =>
    uplinkMsgs.find? fun m => (Spec.Ts38413.msgClass m).index + 1 == p && (Spec.Ts38413.procCode m : Int) == code
  | _, _ => none

/-- first mandatory IE of the message that is absent or carries another criticality (TS 38.413 10.3) -/
def missingMandatory (m : Spec.Ts38413.Msg) (v : Val) : Option Nat :=
  match Spec.Ts38413.mandatory m, headers v with
  | some ms, some hs => (ms.find? fun (id, crit) => !(hs.any fun h => h == some ((id : Int), crit))).map (·.1)
  | _, _ => some 0

/-- the INTEGER inside the first IE with this id (AMF-UE-NGAP-ID, RAN-UE-NGAP-ID) -/
def ieInt (v : Val) (id : Nat) : Option Int :=
  match ieValuesById v id with
  | some (some (.struct (.int n :: _)) :: _) => some n
  | _ => none

/-- the OCTET STRING inside the first IE with this id (NAS-PDU) -/
def ieOcts (v : Val) (id : Nat) : Option Bytes :=
  match ieValuesById v id with
  | some (some (.struct (.octs b :: _)) :: _) => some b
  | _ => none

/-- PDU session identities of the items of the list IE with this id; `none` = IE absent -/
def iePsis (v : Val) (id : Nat) : Option (List Int) :=
  match ieValuesById v id with
  | some (some (.struct (.slice items :: _)) :: _) =>
    some (items.filterMap fun it => match it with
      | .struct (.struct (.int n :: _) :: _) => some n
      | _ => none)
  | _ => none

/-- the PLMN identity inside Global RAN Node ID (globalGNB-ID alternative) -/
def ngSetupPlmn (v : Val) : Option Bytes :=
  match ieValuesById v Spec.Ts38413.ieGlobalRANNodeID with
  | some (some g :: _) =>
    match Val.at [1, 0, 0, 0] g with
    | some (.octs p) => some p
    | _ => none
  | _ => none

/-! ### NAS -/

open Spec.Ts24501 in
def parseNas (t : Table) (b : Bytes) : Option SMsg := t.wire.bind fun w => parse w b

def optIE (m : Spec.Ts24501.SMsg) (iei : Nat) : Option Bytes := (m.opt.find? (·.1 == iei)).map (·.2)

/-- a SUCI (value part of the 5GS mobile identity) names subscriber `j` -/
def suciIs (cfg : Cfg) (j : Nat) (mi : Bytes) : Bool :=
  match Spec.Identity.decodeSuci mi, digitsOf cfg.mcc, digitsOf cfg.mnc, msinOf cfg j with
  | some s, some mcc, some mnc, some msin => s.mcc == mcc && s.mnc == mnc && s.msin == msin
  | _, _, _, _ => false

/-- the configured subscriber a SUCI names -/
def subscriberOf (cfg : Cfg) (mi : Bytes) : Option Nat :=
  (List.range (subscribers cfg)).find? fun j => suciIs cfg j mi

/-! ### state -/

inductive Reg where
  | authSent | smcSent
  /-- INITIAL CONTEXT SETUP REQUEST (Registration Accept) sent: response seen? Registration Complete seen? -/
  | ctxSetup (ics complete : Bool)
  | registered
  /-- Deregistration Accept + UE CONTEXT RELEASE COMMAND sent -/
  | deregistering
  | deregistered
  deriving DecidableEq, Repr

inductive Sess where
  | none | requested | established
  /-- release requested: NGAP response seen? Release Complete seen? -/
  | releasing (resp compl : Bool)
  | released
  deriving DecidableEq, Repr

structure UeSt where
  j : Nat
  ran : Int
  ch : Choice
  aka : Spec.Ts33501A.Aka
  reg : Reg := .authSent
  /-- last accepted uplink NAS COUNT under the current keys -/
  last : Option Nat := none
  used : List Nat := []
  sess : Sess := .none
  psi : Nat := 0
  /-- an INITIAL CONTEXT SETUP RESPONSE is awaited after a Service Request -/
  svcPending : Bool := false
  deriving Repr

structure St where
  ngSetup : Bool := false
  ues : List UeSt := []
  /-- failing clauses, most recent first -/
  fails : List (Nat × String) := []
  /-- subscribers whose session was set up, in order -/
  established : List Nat := []
  services : Nat := 0
  releases : Nat := 0
  deregs : Nat := 0
  deriving Repr

def St.fail (s : St) (k : Nat) (clause : String) : St := { s with fails := (k, clause) :: s.fails }

def St.setUe (s : St) (u : UeSt) : St := { s with ues := s.ues.map fun x => if x.j == u.j then u else x }

def ctxOf (u : UeSt) : Spec.NasSecurity.SecCtx :=
  { ia := selectedIa, ea := selectedEa, kNasInt := u.aka.knasInt, kNasEnc := u.aka.knasEnc }

def byteAt (b : Bytes) (i : Nat) : Nat := match b[i]? with | some x => x.toNat | none => 0

/-- the NAS COUNT the receiver expects / estimates for a message with this header type and sequence number:
    0 when the message takes a new context into use; during registration (`strict`, C01) exactly one above the last
    accepted; otherwise the estimate of TS 24.501 4.4.3.1 from the sequence number. `none` = no security context yet. -/
def expectedCount (u : UeSt) (strict : Bool) (sht sqn : Nat) : Option Nat :=
  if Spec.NasSecurity.newContext sht then some 0
  else u.last.map fun c => if strict then c + 1 else Spec.NasSecurity.estimate c sqn

/-- replay protection: under an existing context the COUNT is strictly above the last accepted one and was never used -/
def fresh (u : UeSt) (sht c : Nat) : Bool :=
  Spec.NasSecurity.newContext sht || ((match u.last with | some l => l < c | none => true) && !u.used.contains c)

/-- a protected uplink NAS message: the plain message and the COUNT it was accepted under, or the failing clause.
    Header type among the `allowed` ones, COUNT as expected and fresh, then the receiver of Spec/NasSecurity.lean
    (sequence number = COUNT mod 256, MAC under K_NASint, deciphering under the ciphered header types). -/
def receiveUl (P : Prims) (u : UeSt) (strict : Bool) (allowed : List Nat) (msg : Bytes) : Except String (Bytes × Nat) :=
  let sht := byteAt msg 1
  let sqn := byteAt msg 6
  if !allowed.contains sht then .error "security-header-type" else
  match expectedCount u strict sht sqn with
  | none => .error "no-security-context"
  | some c =>
    if !fresh u sht c then .error (if u.used.contains c then "nas-count-reuse" else "nas-count") else
    match Spec.NasSecurity.receive P (ctxOf u) Spec.NasSecurity.uplink c msg with
    | some plain => .ok (plain, c)
    | none => .error (if sqn != Spec.NasSecurity.sqnOf c then "nas-count" else "mac")

def accepted (u : UeSt) (sht : Nat) (c : Nat) : UeSt :=
  if Spec.NasSecurity.newContext sht then { u with last := some c, used := [c] } else { u with last := some c, used := c :: u.used }

/-- TS 24.501 7.3.2 / 9.4: PDU session identity values 1..15 are assignable -/
def psiAssignable (psi : Nat) : Bool := 1 ≤ psi && psi ≤ 15
/-- TS 24.501 7.3.1 / 9.6: procedure transaction identity values 1..254 are assignable -/
def ptiAssignable (pti : Nat) : Bool := 1 ≤ pti && pti ≤ 254

/-! ### one uplink message -/

def isRegisteredOrLater (u : UeSt) : Bool :=
  match u.reg with | .registered | .deregistering | .deregistered => true | _ => false


/-- the ids every UE-associated message but INITIAL UE MESSAGE carries -/
def checkIds (s : St) (k : Nat) (v : Val) (u : UeSt) : St :=
  let s := if ieInt v Spec.Ts38413.ieAMFUENGAPID == some (u.ch.amfUeNgapId : Int) then s else s.fail k "amf-ue-ngap-id"
  if ieInt v Spec.Ts38413.ieRANUENGAPID == some u.ran then s else s.fail k "ran-ue-ngap-id"

def ueByRan (s : St) (v : Val) : Option UeSt :=
  match ieInt v Spec.Ts38413.ieRANUENGAPID with
  | some r => s.ues.find? (·.ran == r)
  | none => none

/-- the registration request: identify the subscriber, derive the vector, open the UE's state -/
def onRegistrationRequest (P : Prims) (cfg : Cfg) (chs : List Choice) (s : St) (k : Nat) (v : Val) (nas : Bytes) : St :=
  match parseNas Spec.Ts24501.registrationRequest nas with
  | none => s.fail k "nas-parse"
  | some m =>
    match m.mand[4]? with
    | none => s.fail k "nas-parse"
    | some mi =>
      match subscriberOf cfg mi with
      | none => s.fail k "suci-subscriber"
      | some j =>
        match chs[j]?, ieInt v Spec.Ts38413.ieRANUENGAPID with
        | some ch, some ran =>
          match vector P cfg j ch with
          | none => s.fail k "subscription-data"
          | some aka =>
            let s := if s.ues.any (·.j == j) then s.fail k "supi-reused" else s
            let s := if s.ues.any (·.ran == ran) then s.fail k "ran-ue-ngap-id-reused" else s
            -- the selected algorithms must be among the announced ones (UE security capability, 9.11.3.54)
            let s := match optIE m 0x2E with
              | some cap => if Spec.Identity.eaSupported cap selectedEa && Spec.Identity.iaSupported cap selectedIa then s
                            else s.fail k "ue-security-capability"
              | none => s.fail k "ue-security-capability"
            { s with ues := s.ues ++ [{ j := j, ran := ran, ch := ch, aka := aka }] }
        | _, _ => s.fail k "no-choice-for-subscriber"

def onPlainUplink (s : St) (k : Nat) (u : UeSt) (nas : Bytes) : St :=
  -- the only plain message after the Registration Request: AUTHENTICATION RESPONSE (message type 0x57)
  match parseNas Spec.Ts24501.authenticationResponse nas with
  | none => s.fail k (if byteAt nas 2 != 0x57 then "unexpected-plain-nas" else "nas-parse")
  | some m =>
    if m.mand[2]? != some [0x57] then s.fail k "unexpected-plain-nas" else
    if u.reg != .authSent then s.fail k "unexpected-authentication-response" else
    let s := if optIE m 0x2D == some u.aka.resStar then s else s.fail k "res-star"
    s.setUe { u with reg := .smcSent }

/-- a 5GSM message inside UL NAS TRANSPORT -/
def onSessionMessage (s : St) (k : Nat) (u : UeSt) (m : Spec.Ts24501.SMsg) : St :=
  let payload := (m.mand[4]?).getD []
  let psiIe := match optIE m 0x12 with | some [p] => some p.toNat | _ => none
  let psi := byteAt payload 1
  let pti := byteAt payload 2
  let ty := byteAt payload 3
  let s := if byteAt payload 0 == 0x2E && payload.length ≥ 4 then s else s.fail k "gsm-parse"
  let s := if psiIe == some psi then s else s.fail k "psi-mismatch"
  let s := if psiAssignable psi then s else s.fail k "psi-reserved"
  let s := if ptiAssignable pti then s else s.fail k "pti-unassigned"
  if ty == 0xC1 then
    let s := if (parseNas Spec.Ts24501.pduSessionEstablishmentRequest payload).isSome then s else s.fail k "gsm-parse"
    -- TS 24.501 6.4.1.7: an initial request for an existing PDU session makes the SMF release that session locally and
    -- proceed, so a registered UE may ask again; what must not happen is a request before registration is complete
    let s := if u.reg == .registered && (u.sess == .none || u.sess == .established || u.sess == .released) then s
             else s.fail k "prerequisite"
    s.setUe { u with sess := .requested, psi := psi }
  else if ty == 0xD1 then
    let s := if (parseNas Spec.Ts24501.pduSessionReleaseRequest payload).isSome then s else s.fail k "gsm-parse"
    let s := if u.sess == .established then s else s.fail k "prerequisite"
    let s := if psi == u.psi then s else s.fail k "psi-mismatch"
    s.setUe { u with sess := .releasing false false }
  else if ty == 0xD4 then
    let s := if (parseNas Spec.Ts24501.pduSessionReleaseComplete payload).isSome then s else s.fail k "gsm-parse"
    let s := if psi == u.psi then s else s.fail k "psi-mismatch"
    match u.sess with
    | .releasing r _ =>
      let s := { s with releases := if r then s.releases + 1 else s.releases }
      s.setUe { u with sess := if r then .released else .releasing r true }
    | _ => s.fail k "prerequisite"
  else s.fail k "unexpected-5gsm"

/-- a protected 5GMM message from a UE that has a security context -/
def onProtectedUplink (P : Prims) (cfg : Cfg) (s : St) (k : Nat) (u : UeSt) (initial : Bool) (nas : Bytes) : St :=
  let sht := byteAt nas 1 % 16
  -- Security Mode Complete answers the Security Mode Command: header type 4, COUNT 0
  let expectSmc := u.reg == .smcSent
  let strict := match u.reg with | .smcSent | .ctxSetup _ _ => true | _ => false
  let allowed := if expectSmc then [4] else if initial then [1, 2] else [2]
  match receiveUl P u strict allowed nas with
  | .error c => s.fail k c
  | .ok (plain, c) =>
    let u := accepted u sht c
    let ty := byteAt plain 2
    if byteAt plain 0 != 0x7E || byteAt plain 1 % 16 != 0 then (s.setUe u).fail k "nas-parse" else
    if expectSmc then
      if ty != 0x5E then (s.setUe u).fail k "unexpected-nas" else
      match parseNas Spec.Ts24501.securityModeComplete plain with
      | none => (s.fail k "nas-parse").setUe { u with reg := .ctxSetup false false }
      | some m =>
        -- TS 24.501 4.4.6 / 8.2.26: the NAS message container (IEI 0x71) carries the COMPLETE Registration Request, which
        -- the AMF uses from then on: it must parse as one, name the same subscriber and announce the selected algorithms
        let s := match optIE m 0x71 with
          | none => s
          | some inner =>
            match parseNas Spec.Ts24501.registrationRequest inner with
            | none => s.fail k "smc-container-parse"
            | some r =>
              let s := if suciIs cfg u.j ((r.mand[4]?).getD []) then s else s.fail k "smc-container-suci"
              match optIE r 0x2E with
              | some cap => if Spec.Identity.eaSupported cap selectedEa && Spec.Identity.iaSupported cap selectedIa then s
                            else s.fail k "smc-container-capability"
              | none => s.fail k "smc-container-capability"
        s.setUe { u with reg := .ctxSetup false false }
    else if ty == 0x5E then (s.setUe u).fail k "unexpected-nas"
    else if ty == 0x43 then
      let s := if (parseNas Spec.Ts24501.registrationComplete plain).isSome then s else s.fail k "nas-parse"
      match u.reg with
      | .ctxSetup ics _ => s.setUe { u with reg := if ics then .registered else .ctxSetup ics true }
      | _ => (s.setUe u).fail k "unexpected-nas"
    else if ty == 0x67 then
      match parseNas Spec.Ts24501.ulNasTransport plain with
      | none => (s.setUe u).fail k "nas-parse"
      | some m =>
        -- payload container type: N1 SM information
        let s := s.setUe u
        let s := if byteAt ((m.mand[3]?).getD []) 0 % 16 == 1 then s else s.fail k "payload-container-type"
        onSessionMessage s k u m
    else if ty == 0x4C then
      match parseNas Spec.Ts24501.serviceRequest plain with
      | none => (s.setUe u).fail k "nas-parse"
      | some m =>
        let s := s.setUe u
        let s := if initial then s else s.fail k "service-request-not-initial"
        -- 9.11.3.4: the 5G-S-TMSI's type of identity (TS 24.501 7.5: a mandatory IE that is syntactically incorrect)
        let s := if byteAt ((m.mand[4]?).getD []) 0 % 8 == 4 then s else s.fail k "tmsi-type"
        let s := if u.reg == .registered && u.sess == .established then s else s.fail k "prerequisite"
        s.setUe { u with svcPending := true }
    else if ty == 0x45 then
      match parseNas Spec.Ts24501.deregistrationRequestUEOriginating plain with
      | none => (s.setUe u).fail k "nas-parse"
      | some m =>
        let s := s.setUe u
        let s := if u.reg == .registered then s else s.fail k "prerequisite"
        let s := if suciIs cfg u.j ((m.mand[4]?).getD []) then s else s.fail k "deregistration-identity"
        s.setUe { u with reg := .deregistering }
    else (s.setUe u).fail k "unexpected-nas"

def step (P : Prims) (cfg : Cfg) (chs : List Choice) (s : St) (k : Nat) (ul : Bytes) : St :=
  match decodeNgap ul with
  | none => s.fail k "ngap-decode"
  | some v =>
    match msgOf v with
    | none => s.fail k "unexpected-ngap-message"
    | some m =>
      let s := match missingMandatory m v with
        | some id => s.fail k ("mandatory-ie-" ++ toString id)
        | none => s
      match m with
      | .NGSetupRequest =>
        let s := if s.ngSetup then s.fail k "second-ng-setup" else s
        let s := if ngSetupPlmn v == plmnOf cfg && (plmnOf cfg).isSome then s else s.fail k "plmn"
        { s with ngSetup := true }
      | .InitialUEMessage =>
        let s := if s.ngSetup then s else s.fail k "before-ng-setup"
        match ieOcts v Spec.Ts38413.ieNASPDU with
        | none => s.fail k "nas-pdu"
        | some nas =>
          if byteAt nas 1 % 16 == 0 then
            if byteAt nas 2 == 0x41 then onRegistrationRequest P cfg chs s k v nas
            else s.fail k "unexpected-initial-nas"
          else
            match ueByRan s v with
            | none => s.fail k "unknown-ue"
            | some u => onProtectedUplink P cfg s k u true nas
      | .UplinkNASTransport =>
        match ueByRan s v with
        | none => s.fail k "unknown-ue"
        | some u =>
          let s := checkIds s k v u
          match ieOcts v Spec.Ts38413.ieNASPDU with
          | none => s.fail k "nas-pdu"
          | some nas =>
            if byteAt nas 1 % 16 == 0 then onPlainUplink s k u nas
            else onProtectedUplink P cfg s k u false nas
      | .InitialContextSetupResponse =>
        match ueByRan s v with
        | none => s.fail k "unknown-ue"
        | some u =>
          let s := checkIds s k v u
          if u.svcPending then
            let s := match iePsis v Spec.Ts38413.iePDUSessionResourceSetupListCxtRes with
              | some ps => if ps.all (· == (u.psi : Int)) then s else s.fail k "psi-mismatch"
              | none => s
            { s.setUe { u with svcPending := false } with services := s.services + 1 }
          else
            match u.reg with
            | .ctxSetup false c => s.setUe { u with reg := if c then .registered else .ctxSetup true c }
            | _ => s.fail k "unexpected-initial-context-setup-response"
      | .PDUSessionResourceSetupResponse =>
        match ueByRan s v with
        | none => s.fail k "unknown-ue"
        | some u =>
          let s := checkIds s k v u
          let s := match iePsis v Spec.Ts38413.iePDUSessionResourceSetupListSURes with
            | some ps => if ps == [(u.psi : Int)] then s else s.fail k "psi-mismatch"
            | none => s.fail k "no-session-in-response"
          if u.sess == .requested then { s.setUe { u with sess := .established } with established := s.established ++ [u.j] }
          else s.fail k "prerequisite"
      | .PDUSessionResourceReleaseResponse =>
        match ueByRan s v with
        | none => s.fail k "unknown-ue"
        | some u =>
          let s := checkIds s k v u
          let s := match iePsis v Spec.Ts38413.iePDUSessionResourceReleasedListRelRes with
            | some ps => if ps == [(u.psi : Int)] then s else s.fail k "psi-mismatch"
            | none => s.fail k "no-session-in-response"
          match u.sess with
          | .releasing _ c =>
            let s := { s with releases := if c then s.releases + 1 else s.releases }
            s.setUe { u with sess := if c then .released else .releasing true c }
          | _ => s.fail k "prerequisite"
      | .UEContextReleaseComplete =>
        match ueByRan s v with
        | none => s.fail k "unknown-ue"
        | some u =>
          let s := checkIds s k v u
          if u.reg == .deregistering then { s.setUe { u with reg := .deregistered } with deregs := s.deregs + 1 }
          else s.fail k "prerequisite"
      | _ => s.fail k "unexpected-ngap-message"

/-- does the message belong to NG Setup / registration (C01) rather than to the life cycle after it (C02)?
    NG SETUP REQUEST, a Registration Request, and every message of a UE that has not reached REGISTERED yet.
    `none` = cannot be attributed (undecodable, unknown UE): charged to both properties. -/
def registrationPhase (s : St) (ul : Bytes) : Option Bool :=
  match decodeNgap ul with
  | none => none
  | some v =>
    match msgOf v with
    | some .NGSetupRequest => some true
    | some _ =>
      match ueByRan s v with
      | some u => some (!isRegisteredOrLater u)
      | none =>
        match ieOcts v Spec.Ts38413.ieNASPDU with
        | some nas => if byteAt nas 1 % 16 == 0 && byteAt nas 2 == 0x41 then some true else none
        | none => none
    | none => none

/-- the whole transcript; only the clauses of the property judged are kept (`life`: C02, else C01) -/
def run (P : Prims) (life : Bool) (cfg : Cfg) (chs : List Choice) : St → Nat → List Bytes → St
  | s, _, [] => s
  | s, k, ul :: rest =>
    let s' := step P cfg chs s k ul
    let fresh := s'.fails.take (s'.fails.length - s.fails.length)
    let keep := match registrationPhase s ul with
      | none => fresh
      | some r => if r != life then fresh else []
    run P life cfg chs { s' with fails := keep ++ s.fails } (k + 1) rest

/-! ### completion and reports -/

def natMin (a b : Int) : Nat := (if a ≤ b then a else b).toNat

/-- how many procedures of each kind the requested counts allow -/
def expectedEstablished (cfg : Cfg) : Nat := if cfg.hist then (if cfg.reg ≤ 0 then 0 else cfg.pdu.toNat) else natMin cfg.reg cfg.pdu
def expectedServices (cfg : Cfg) : Nat := natMin (expectedEstablished cfg) cfg.svc
def expectedReleases (cfg : Cfg) : Nat := natMin (expectedEstablished cfg) cfg.rel
def expectedDeregs (cfg : Cfg) : Nat := natMin cfg.reg cfg.dereg

def finish (life : Bool) (cfg : Cfg) (chs : List Choice) (s : St) (n : Nat) (reported : Option (List Reported)) (exit0 : Bool) : St :=
  if !life then
    let s := if s.ngSetup then s else s.fail n "incomplete-ng-setup"
    let s := if s.ues.length == subscribers cfg && s.ues.all isRegisteredOrLater then s else s.fail n "incomplete-registration"
    -- the exit status speaks about registration only when nothing is requested after it
    if exit0 || expectedEstablished cfg != 0 || expectedDeregs cfg != 0 then s else s.fail n "incomplete-exit"
  else
    let s := if s.established.length == expectedEstablished cfg then s else s.fail n "incomplete-establishment"
    let s := if s.services == expectedServices cfg then s else s.fail n "incomplete-service-request"
    let s := if s.releases == expectedReleases cfg then s else s.fail n "incomplete-release"
    let s := if s.deregs == expectedDeregs cfg then s else s.fail n "incomplete-deregistration"
    let s := if exit0 then s else s.fail n "incomplete-exit"
    match reported with
    | none => s
    | some rs =>
      let assigned := s.established.filterMap fun j => chs[j]?.map fun ch => ({ ip := ch.ueIp, teid := ch.teid, upf := ch.upfIp } : Reported)
      if rs == assigned then s else s.fail n "report-mismatch"

/-- all failing clauses in uplink order -/
def clauses (P : Prims) (life : Bool) (cfg : Cfg) (chs : List Choice) (uls : List Bytes) (reported : Option (List Reported)) (exit0 : Bool) :
    List (Nat × String) :=
  (finish life cfg chs (run P life cfg chs {} 0 uls) uls.length reported exit0).fails.reverse

def judge (P : Prims) (life : Bool) (cfg : Cfg) (chs : List Choice) (uls : List Bytes) (reported : Option (List Reported)) (exit0 : Bool) : Verdict :=
  match clauses P life cfg chs uls reported exit0 with
  | [] => .accept
  | cs => .refuse (" ".intercalate (cs.map fun (k, c) => "ul" ++ toString k ++ ":" ++ c))

end Stgutg.Spec.Amf
