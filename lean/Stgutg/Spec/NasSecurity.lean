/-
  NAS security envelope, written from the specifications (not from the code):

  TS 24.501 9.1.1 / 9.2 / 9.3 / 9.8 / 9.10: a security protected 5GS NAS message is
      EPD (1) ‖ security header type (1) ‖ message authentication code (4) ‖ sequence number (1) ‖ NAS message
    header types: 0 plain, 1 integrity protected, 2 integrity protected and ciphered,
      3 integrity protected with new 5G NAS security context, 4 integrity protected and ciphered with new context.
  TS 24.501 4.4.3.1: NAS COUNT (24 bit) = NAS overflow counter (16) ‖ NAS sequence number (8); the sender uses its
      stored NAS COUNT and increases it by one after each message; the receiver estimates the NAS COUNT from the
      received sequence number, incrementing the overflow counter when the sequence number wraps.
      Both NAS COUNTs are 0 when a new security context is taken into use.
  TS 24.501 4.4.4 / 4.4.5: integrity covers sequence number ‖ NAS message *as sent* (after ciphering);
      ciphering covers the NAS message only.
  TS 33.501 6.4.3.1 / 6.4.4.1: inputs KEY, COUNT = 0x00 ‖ NAS COUNT, BEARER = 0x01 for 3GPP access,
      DIRECTION = 0 uplink / 1 downlink; algorithms 128-NIA / 128-NEA (Spec/NasAlg.lean).
-/
import Stgutg.Spec.NasAlg

namespace Stgutg.Spec.NasSecurity
open Stgutg.Spec

/-- BEARER for NAS over 3GPP access -/
def bearer3gpp : Nat := 1
def uplink : Nat := 0
def downlink : Nat := 1

/-- NAS COUNT values live in 0 … 2^24 − 1 -/
def countMod : Nat := 2 ^ 24

/-- NAS sequence number = the 8 least significant bits of the NAS COUNT -/
def sqnOf (count : Nat) : Nat := count % 256
/-- NAS overflow counter = the 16 most significant bits of the 24-bit NAS COUNT -/
def overflowOf (count : Nat) : Nat := count / 256 % 65536
/-- the 32-bit COUNT input of the algorithms: 0x00 ‖ NAS COUNT -/
def count32 (count : Nat) : UInt32 := UInt32.ofNat (count % countMod)

/-- a 5G NAS security context as far as message protection is concerned -/
structure SecCtx where
  /-- selected 5G-IA identifier -/
  ia : Nat
  /-- selected 5G-EA identifier -/
  ea : Nat
  kNasInt : Bytes
  kNasEnc : Bytes
  deriving DecidableEq, Repr

/-- header types under which the NAS message is ciphered -/
def ciphered (sht : Nat) : Bool := sht == 2 || sht == 4
/-- header types that announce a new 5G NAS security context -/
def newContext (sht : Nat) : Bool := sht == 3 || sht == 4
/-- header types of a security protected NAS message -/
def protectedType (sht : Nat) : Bool := sht == 1 || sht == 2 || sht == 3 || sht == 4

/-- the NAS message as sent: ciphered with NEA(K_NASenc, COUNT, BEARER, DIRECTION) under types 2 and 4, else in clear -/
def bodyAsSent (P : Prims) (ctx : SecCtx) (dir count sht : Nat) (plain : Bytes) : Option Bytes :=
  if ciphered sht then NasAlg.nea P ctx.ea ctx.kNasEnc (count32 count) bearer3gpp dir plain else some plain

/-- MAC = NIA(K_NASint, COUNT, BEARER, DIRECTION, sequence number ‖ NAS message as sent) -/
def macOf (P : Prims) (ctx : SecCtx) (dir count : Nat) (body : Bytes) : Option Bytes :=
  NasAlg.nia P ctx.ia ctx.kNasInt (count32 count) bearer3gpp dir (UInt8.ofNat (sqnOf count) :: body)

/-- the security protected NAS message for `plain` under NAS COUNT `count` -/
def protect (P : Prims) (ctx : SecCtx) (dir count : Nat) (epd : UInt8) (sht : Nat) (plain : Bytes) : Option Bytes :=
  if !protectedType sht then none else
  match bodyAsSent P ctx dir count sht plain with
  | none => none
  | some body =>
    match macOf P ctx dir count body with
    | none => none
    | some mac => some ([epd, UInt8.ofNat sht] ++ mac ++ [UInt8.ofNat (sqnOf count)] ++ body)

/-- a conformant receiver that holds the same context and estimates the NAS COUNT `count`:
    checks the sequence number against the estimate, verifies the MAC over sequence number ‖ message as
    received, deciphers under the ciphered header types and returns the plain NAS message.
    A message with header type 0 is the plain NAS message itself. -/
def receive (P : Prims) (ctx : SecCtx) (dir count : Nat) (msg : Bytes) : Option Bytes :=
  match msg with
  | epd :: sht :: rest =>
    if sht.toNat == 0 then some (epd :: sht :: rest)
    else if !protectedType sht.toNat then none
    else match rest with
      | m0 :: m1 :: m2 :: m3 :: sqn :: body =>
        if sqn.toNat != sqnOf count then none
        else match macOf P ctx dir count body with
          | none => none
          | some mac =>
            if mac != [m0, m1, m2, m3] then none
            else if ciphered sht.toNat then NasAlg.nea P ctx.ea ctx.kNasEnc (count32 count) bearer3gpp dir body
            else some body
      | _ => none
  | _ => none

/-- the receiver's NAS COUNT estimate (4.4.3.1): keep the overflow counter, take the received sequence number,
    and increment the overflow counter (mod 2^16) if the sequence number wrapped. -/
def estimate (prev sqn : Nat) : Nat :=
  let ov := overflowOf prev
  let ov' := if sqn < sqnOf prev then (ov + 1) % 65536 else ov
  ov' * 256 + sqn

/-! ### Senders (one NAS COUNT per direction) -/

/-- the sender's stored NAS COUNT for one direction: the value the next protected message will use -/
structure Sender where
  count : Nat
  deriving DecidableEq, Repr

/-- conformant UE, uplink: without a security context the message leaves unchanged; otherwise it is protected
    under the stored UL NAS COUNT (0 if a new context is taken into use with this message), which is then
    increased by one modulo 2^24. Returns (new state, COUNT used, octets). -/
def ueProtect (P : Prims) (ctx : SecCtx) (s : Sender) (ctxAvail newCtx : Bool) (epd : UInt8) (sht : Nat) (plain : Bytes) :
    Sender × Option Nat × Option Bytes :=
  if !ctxAvail then (s, none, some plain)
  else
    let c := if newCtx then 0 else s.count
    ({ count := (c + 1) % countMod }, some c, protect P ctx uplink c epd sht plain)

/-- conformant AMF, downlink: header type 0 sends the plain message and consumes no COUNT. Otherwise `lost`
    earlier protected messages (each consumed one COUNT value) did not reach the UE; a new-context header
    type restarts the DL NAS COUNT at 0 first. Returns (new state, COUNT used, octets). -/
def amfProtect (P : Prims) (ctx : SecCtx) (s : Sender) (lost : Nat) (epd : UInt8) (sht : Nat) (plain : Bytes) :
    Sender × Option Nat × Option Bytes :=
  if sht == 0 then (s, none, some plain)
  else
    let base := if newContext sht then 0 else s.count
    let c := (base + lost) % countMod
    ({ count := (c + 1) % countMod }, some c, protect P ctx downlink c epd sht plain)

/-! ### histories -/

/-- one uplink send request -/
structure UlSend where
  ctxAvail : Bool
  newCtx : Bool
  epd : UInt8
  sht : Nat
  plain : Bytes
  deriving DecidableEq, Repr

/-- the conformant UE over a history: final state, and per message the COUNT used and the octets -/
def ueRun (P : Prims) (ctx : SecCtx) : Sender → List UlSend → Sender × List (Option Nat × Option Bytes)
  | s, [] => (s, [])
  | s, m :: ms =>
    let r := ueProtect P ctx s m.ctxAvail m.newCtx m.epd m.sht m.plain
    let rs := ueRun P ctx r.1 ms
    (rs.1, r.2 :: rs.2)

/-- one downlink message of the AMF; `lost` = protected messages sent before it that never reached the UE -/
structure DlSend where
  lost : Nat
  epd : UInt8
  sht : Nat
  plain : Bytes
  deriving DecidableEq, Repr

/-- the conformant AMF over a history of delivered messages -/
def amfRun (P : Prims) (ctx : SecCtx) : Sender → List DlSend → Sender × List (Option Nat × Option Bytes)
  | s, [] => (s, [])
  | s, m :: ms =>
    let r := amfProtect P ctx s m.lost m.epd m.sht m.plain
    let rs := amfRun P ctx r.1 ms
    (rs.1, r.2 :: rs.2)

end Stgutg.Spec.NasSecurity
