/-
  The reference IE walker: how the things C13 speaks about are found in an NGAP-PDU *value* (the `Val` the decoder
  model returns for the library's Go types), following the ASN.1 of TS 38.413 clause 9.4.4:

    NGAP-PDU ::= CHOICE { initiatingMessage, successfulOutcome, unsuccessfulOutcome }           -- field k = alternative k
    InitiatingMessage ::= SEQUENCE { procedureCode, criticality, value }                        -- value: CHOICE of messages
    <Message> ::= SEQUENCE { protocolIEs ProtocolIE-Container }                                 -- SEQUENCE OF ProtocolIE-Field
    ProtocolIE-Field ::= SEQUENCE { id, criticality, value }                                    -- value: CHOICE of IE types

  A Go CHOICE struct is `struct (int present :: alternatives)`, alternatives are pointers; positions: struct field /
  list element index, `0` through a pointer. Independent of the builders. Core Lean only.
-/
import Stgutg.Model.AperTypes

namespace Stgutg.Spec.NgapView
open Stgutg Stgutg.Aper

/-- the sub-value at a position -/
def Val.at : List Nat → Val → Option Val
  | [], v => some v
  | i :: p, .struct fs =>
    match fs[i]? with
    | some x => Val.at p x
    | none => none
  | i :: p, .slice fs =>
    match fs[i]? with
    | some x => Val.at p x
    | none => none
  | 0 :: p, .ptr x => Val.at p x
  | _, _ => none

def intAt (p : List Nat) (v : Val) : Option Int :=
  match Val.at p v with
  | some (.int n) => some n
  | _ => none

/-- `Present` of the NGAP-PDU: 1 initiating message, 2 successful outcome, 3 unsuccessful outcome -/
def pduPresent (v : Val) : Option Nat := (intAt [0] v).map Int.toNat

/-- the procedure code -/
def pduProc (v : Val) : Option Int := (pduPresent v).bind fun p => intAt [p, 0, 0, 0] v

/-- which message of the class it is (`Present` of the value CHOICE) -/
def pduMsgIndex (v : Val) : Option Nat := (pduPresent v).bind fun p => (intAt [p, 0, 2, 0] v).map Int.toNat

/-- the protocol IE list -/
def pduIEs (v : Val) : Option (List Val) :=
  (pduPresent v).bind fun p => (pduMsgIndex v).bind fun m =>
    match Val.at [p, 0, 2, m, 0, 0, 0] v with
    | some (.slice l) => some l
    | _ => none

/-- (IE id, criticality) of one protocol IE -/
def ieHeader (ie : Val) : Option (Int × Nat) :=
  match Val.at [0, 0] ie, Val.at [1, 0] ie with
  | some (.int id), some (.enum c) => some (id, c)
  | _, _ => none

/-- the value of one protocol IE: the pointee of the present alternative -/
def ieValue (ie : Val) : Option Val :=
  match intAt [2, 0] ie with
  | some k => Val.at [2, k.toNat, 0] ie
  | none => none

/-- headers of all IEs, in order -/
def headers (v : Val) : Option (List (Option (Int × Nat))) := (pduIEs v).map fun l => l.map ieHeader

/-- does a header carry the IE id? -/
def hasId (id : Int) : Option (Int × Nat) → Bool
  | some (i, _) => i == id
  | none => false

/-- the values of the IEs with a given id, in order -/
def ieValuesById (v : Val) (id : Int) : Option (List (Option Val)) :=
  (pduIEs v).map fun l => (l.filter fun ie => hasId id (ieHeader ie)).map ieValue

end Stgutg.Spec.NgapView
