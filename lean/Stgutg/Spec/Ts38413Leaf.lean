/-
  TS 38.413 (NGAP, Rel-15) clause 9.4.5 — PER-visible constraints of the simple types, written by hand from
  the specification (not from the struct tags). `patchSchema` overrides the constraints of the regenerated
  schema with these; C03 proves that nothing changes (the tags ARE the standard's constraints for every type
  tabled here) and the X.691 oracle of the correspondence run encodes under the tabled constraints, so a tag
  that drifts from the standard yields a concrete failing value.
-/
import Stgutg.Model.AperTypes

namespace Stgutg.Spec.Ts38413
open Stgutg.Aper

def int (lb ub : Int) : Params := { valueLB := some lb, valueUB := some ub }
def intExt (lb ub : Int) : Params := { valueExt := true, valueLB := some lb, valueUB := some ub }
/-- ENUMERATED with `n` root values, not extensible / extensible -/
def enum (n : Nat) : Params := { valueLB := some 0, valueUB := some ((n : Int) - 1) }
def enumExt (n : Nat) : Params := { valueExt := true, valueLB := some 0, valueUB := some ((n : Int) - 1) }
def size (lb ub : Int) : Params := { sizeLB := some lb, sizeUB := some ub }
def sizeExt (lb ub : Int) : Params := { sizeExt := true, sizeLB := some lb, sizeUB := some ub }
def unbounded : Params := {}

/-- (type name, constraint of its value) for the simple types of 9.4.5 -/
def leafTable : List (String × Params) := [
  -- identifiers
  ("AMFUENGAPID", int 0 1099511627775), ("RANUENGAPID", int 0 4294967295), ("PDUSessionID", int 0 255),
  ("ProcedureCode", int 0 255), ("ProtocolIEID", int 0 65535), ("ProtocolExtensionID", int 0 65535),
  ("Criticality", enum 3), ("Presence", enum 3), ("TriggeringMessage", enum 3),
  ("QosFlowIdentifier", intExt 0 63), ("DRBID", intExt 1 32), ("ERABID", intExt 0 15),
  -- PLMN, areas, cells, AMF identity
  ("PLMNIdentity", size 3 3), ("TAC", size 3 3), ("EPSTAC", size 2 2), ("EmergencyAreaID", size 3 3),
  ("NRCellIdentity", size 36 36), ("EUTRACellIdentity", size 28 28),
  ("AMFRegionID", size 8 8), ("AMFSetID", size 10 10), ("AMFPointer", size 6 6), ("FiveGTMSI", size 4 4),
  ("AMFName", sizeExt 1 150), ("RANNodeName", sizeExt 1 150), ("RelativeAMFCapacity", int 0 255),
  ("SST", size 1 1), ("SD", size 3 3),
  -- transport
  ("TransportLayerAddress", sizeExt 1 160), ("GTPTEID", size 4 4), ("PortNumber", size 2 2),
  -- QoS
  ("BitRate", intExt 0 4000000000000), ("FiveQI", intExt 0 255), ("PriorityLevelARP", int 1 15),
  ("PriorityLevelQos", intExt 1 127), ("AveragingWindow", intExt 0 4095), ("MaximumDataBurstVolume", intExt 0 4095),
  ("PacketDelayBudget", intExt 0 1023), ("PacketLossRate", intExt 0 1000),
  ("PreEmptionCapability", enumExt 2), ("PreEmptionVulnerability", enumExt 2), ("DelayCritical", enumExt 2),
  ("NotificationControl", enumExt 1), ("ReflectiveQosAttribute", enumExt 1), ("AdditionalQosFlowInformation", enumExt 1),
  ("PDUSessionType", enumExt 5), ("MaximumIntegrityProtectedDataRate", enumExt 2),
  ("IntegrityProtectionIndication", enumExt 3), ("ConfidentialityProtectionIndication", enumExt 3),
  ("IntegrityProtectionResult", enumExt 2), ("ConfidentialityProtectionResult", enumExt 2),
  -- security, UE context
  ("SecurityKey", size 256 256), ("NextHopChainingCount", int 0 7), ("MaskedIMEISV", size 64 64),
  ("NRencryptionAlgorithms", sizeExt 16 16), ("NRintegrityProtectionAlgorithms", sizeExt 16 16),
  ("EUTRAencryptionAlgorithms", sizeExt 16 16), ("EUTRAintegrityProtectionAlgorithms", sizeExt 16 16),
  ("IndexToRFSP", intExt 1 256), ("RANPagingPriority", int 1 256), ("RATRestrictionInformation", sizeExt 8 8),
  ("PeriodicRegistrationUpdateTimer", size 8 8), ("UEContextRequest", enumExt 1), ("RRCEstablishmentCause", enumExt 10),
  ("MICOModeIndication", enumExt 1), ("NewSecurityContextInd", enumExt 1), ("IMSVoiceSupportIndicator", enumExt 2),
  ("EmergencyFallbackRequestIndicator", enumExt 1), ("EmergencyServiceTargetCN", enumExt 2),
  ("ExpectedActivityPeriod", intExt 1 181), ("ExpectedIdlePeriod", intExt 1 181),
  ("ExpectedHOInterval", enumExt 7), ("ExpectedUEMobility", enumExt 2), ("SourceOfUEActivityBehaviourInformation", enumExt 2),
  ("RRCInactiveTransitionReportRequest", enumExt 3), ("RRCState", enumExt 2), ("UEPresence", enumExt 3),
  -- causes
  ("CauseRadioNetwork", enumExt 45), ("CauseTransport", enumExt 2), ("CauseNas", enumExt 4),
  ("CauseProtocol", enumExt 7), ("CauseMisc", enumExt 6), ("TypeOfError", enumExt 2),
  -- paging, overload, timers
  ("PagingDRX", enumExt 4), ("PagingPriority", enumExt 8), ("PagingOrigin", enumExt 1),
  ("PagingAttemptCount", intExt 1 16), ("IntendedNumberOfPagingAttempts", intExt 1 16), ("NextPagingAreaScope", enumExt 2),
  ("TimeToWait", enumExt 6), ("OverloadAction", enumExt 4), ("TrafficLoadReductionIndication", int 1 99),
  ("TNLAddressWeightFactor", int 0 255), ("TNLAssociationUsage", enumExt 3), ("TimerApproachForGUAMIRemoval", enumExt 1),
  -- handover, location, trace
  ("HandoverType", enumExt 3), ("DirectForwardingPathAvailability", enumExt 1), ("DataForwardingAccepted", enumExt 1),
  ("DataForwardingNotPossible", enumExt 1), ("DLForwarding", enumExt 1), ("DLNGUTNLInformationReused", enumExt 1),
  ("TimeUEStayedInCell", int 0 4095), ("TimeUEStayedInCellEnhancedGranularity", int 0 40950),
  ("EventType", enumExt 6), ("ReportArea", enumExt 1), ("LocationReportingReferenceID", intExt 1 64), ("ReferenceID", intExt 1 64),
  ("NGRANTraceID", size 8 8), ("InterfacesToTrace", size 8 8), ("TraceDepth", enumExt 6), ("TimeStamp", size 4 4),
  ("NetworkInstance", intExt 1 256), ("NotificationCause", enumExt 2), ("ResetAll", enumExt 1),
  ("SONInformationRequest", enumExt 1),
  -- warning messages (PWS)
  ("MessageIdentifier", size 16 16), ("SerialNumber", size 16 16), ("DataCodingScheme", size 8 8),
  ("RepetitionPeriod", int 0 131071), ("NumberOfBroadcastsRequested", int 0 65535), ("NumberOfBroadcasts", int 0 65535),
  ("WarningType", size 2 2), ("WarningSecurityInfo", size 50 50), ("WarningMessageContents", size 1 9600),
  ("WarningAreaCoordinates", size 1 1024), ("ConcurrentWarningMessageInd", enumExt 1), ("CancelAllWarningMessages", enumExt 1),
  ("CellSize", enumExt 4),
  -- opaque containers
  ("NASPDU", unbounded), ("RRCContainer", unbounded), ("NRPPaPDU", unbounded), ("RoutingID", unbounded),
  ("UERadioCapability", unbounded), ("UERadioCapabilityForPagingOfNR", unbounded), ("UERadioCapabilityForPagingOfEUTRA", unbounded),
  ("SourceToTargetTransparentContainer", unbounded), ("TargetToSourceTransparentContainer", unbounded),
  ("NASSecurityParametersFromNGRAN", unbounded), ("LastVisitedEUTRANCellInformation", unbounded),
  ("LastVisitedUTRANCellInformation", unbounded), ("LastVisitedGERANCellInformation", unbounded)
]

/-- SEQUENCE (SIZE(lb..ub)) OF bounds of the list types of 9.4.5 (struct name → size of its `List` field) -/
def listTable : List (String × Int × Int) := [
  ("SupportedTAList", 1, 256), ("BroadcastPLMNList", 1, 12), ("SliceSupportList", 1, 1024), ("PLMNSupportList", 1, 12),
  ("ServedGUAMIList", 1, 256), ("TAIListForPaging", 1, 16), ("AllowedNSSAI", 1, 8),
  ("PDUSessionResourceSetupListSUReq", 1, 256), ("PDUSessionResourceSetupListSURes", 1, 256),
  ("PDUSessionResourceSetupListCxtReq", 1, 256), ("PDUSessionResourceSetupListCxtRes", 1, 256),
  ("PDUSessionResourceReleasedListRelRes", 1, 256), ("PDUSessionResourceToReleaseListRelCmd", 1, 256),
  ("QosFlowSetupRequestList", 1, 64), ("QosFlowList", 1, 64), ("AssociatedQosFlowList", 1, 64),
  ("UEAssociatedLogicalNGConnectionList", 1, 65536), ("TAIListForInactive", 1, 16), ("EquivalentPLMNs", 1, 15),
  ("ForbiddenAreaInformation", 1, 16), ("ForbiddenTACs", 1, 4096), ("AllowedTACs", 1, 16), ("NotAllowedTACs", 1, 16),
  ("ServiceAreaInformation", 1, 16), ("RATRestrictions", 0, 16), ("EmergencyAreaIDList", 1, 65535),
  ("AMFTNLAssociationToAddList", 1, 32), ("AMFTNLAssociationToRemoveList", 1, 32), ("AMFTNLAssociationToUpdateList", 1, 32),
  ("UnavailableGUAMIList", 1, 256), ("OverloadStartNSSAIList", 1, 1024), ("CriticalityDiagnosticsIEList", 1, 256)
]

/-- override the constraint of a leaf wrapper `{ Value T }` / a list wrapper `{ List []T }` with the tabled one;
    field-level flags that are not constraints of the simple type (none for these wrappers) are kept -/
def patchStruct (sd : StructDef) : StructDef :=
  match sd.fields with
  | [f] =>
    if f.name == "Value" then
      match leafTable.lookup sd.name with
      | some p => { sd with fields := [{ f with params := p }] }
      | none => sd
    else if f.name == "List" then
      match listTable.lookup sd.name with
      | some (lb, ub) => { sd with fields := [{ f with params := { f.params with sizeLB := some lb, sizeUB := some ub } }] }
      | none => sd
    else sd
  | _ => sd

def patchSchema (env : Env) : Env := env.map patchStruct

def paramsEq (a b : Params) : Bool :=
  a.optional == b.optional && a.sizeExt == b.sizeExt && a.valueExt == b.valueExt &&
  a.sizeLB == b.sizeLB && a.sizeUB == b.sizeUB && a.valueLB == b.valueLB && a.valueUB == b.valueUB &&
  a.openType == b.openType && a.refField == b.refField && a.refValue == b.refValue

/-- the struct's tag carries exactly the tabled constraint (true for untabled structs) -/
def agrees (sd : StructDef) : Bool :=
  match sd.fields with
  | [f] =>
    if f.name == "Value" then
      match leafTable.lookup sd.name with
      | some p => paramsEq p f.params
      | none => true
    else if f.name == "List" then
      match listTable.lookup sd.name with
      | some (lb, ub) => f.params.sizeLB == some lb && f.params.sizeUB == some ub
      | none => true
    else true
  | _ => true

/-- is this struct a tabled wrapper? -/
def tabled (sd : StructDef) : Bool :=
  match sd.fields with
  | [f] =>
    if f.name == "Value" then (leafTable.lookup sd.name).isSome
    else if f.name == "List" then (listTable.lookup sd.name).isSome
    else false
  | _ => false

/-- one pass over the schema: (number of tabled wrappers found, all of them agree with the table) -/
def checkTable (env : Env) : Nat × Bool :=
  env.foldl (fun (acc : Nat × Bool) sd => (if tabled sd then acc.1 + 1 else acc.1, acc.2 && agrees sd)) (0, true)

end Stgutg.Spec.Ts38413
