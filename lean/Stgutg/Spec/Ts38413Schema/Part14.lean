-- TS 38.413 (v15) abstract syntax of NGAP as a PER-visible schema: a frozen transcription, see Spec/Ts38413Schema.lean for its provenance.
import Stgutg.Model.AperTypes
namespace Stgutg.Spec.Ts38413Schema
open Stgutg.Aper

def schema14 : List StructDef := [
  ⟨"TargetNGRANNodeToSourceNGRANNodeTransparentContainerExtIEs", [
    ⟨"Id", {}, (.struct 7)⟩,
    ⟨"Criticality", {}, (.struct 1)⟩,
    ⟨"ExtensionValue", { openType := true, refField := "Id" }, (.struct 1399)⟩]⟩, -- 1400
  ⟨"ProtocolExtensionContainerTargetNGRANNodeToSourceNGRANNodeTransparentContainerExtIEs", [
    ⟨"List", { sizeLB := some (1), sizeUB := some (65535) }, (.slice (.struct 1400))⟩]⟩, -- 1401
  ⟨"QosCharacteristicsExtIEsValue", [
    ⟨"Present", {}, .int⟩]⟩, -- 1402
  ⟨"QosCharacteristicsExtIEs", [
    ⟨"Id", {}, (.struct 0)⟩,
    ⟨"Criticality", {}, (.struct 1)⟩,
    ⟨"Value", { openType := true, refField := "Id" }, (.struct 1402)⟩]⟩, -- 1403
  ⟨"QosFlowSetupResponseItemSURes", [
    ⟨"QosFlowIdentifier", {}, (.struct 211)⟩,
    ⟨"IEExtensions", { optional := true }, (.ptr (.struct 1395))⟩]⟩, -- 1404
  ⟨"QosFlowSetupResponseListSURes", [
    ⟨"List", { valueExt := true, sizeLB := some (1), sizeUB := some (64) }, (.slice (.struct 1404))⟩]⟩, -- 1405
  ⟨"RRCContainer", [
    ⟨"Value", {}, .octs⟩]⟩, -- 1406
  ⟨"ReferenceID", [
    ⟨"Value", { valueExt := true, valueLB := some (1), valueUB := some (64) }, .int⟩]⟩, -- 1407
  ⟨"ResetTypeExtIEsValue", [
    ⟨"Present", {}, .int⟩]⟩, -- 1408
  ⟨"ResetTypeExtIEs", [
    ⟨"Id", {}, (.struct 0)⟩,
    ⟨"Criticality", {}, (.struct 1)⟩,
    ⟨"Value", { openType := true, refField := "Id" }, (.struct 1408)⟩]⟩, -- 1409
  ⟨"SONInformationExtIEsValue", [
    ⟨"Present", {}, .int⟩]⟩, -- 1410
  ⟨"SONInformationExtIEs", [
    ⟨"Id", {}, (.struct 0)⟩,
    ⟨"Criticality", {}, (.struct 1)⟩,
    ⟨"Value", { openType := true, refField := "Id" }, (.struct 1410)⟩]⟩, -- 1411
  ⟨"UEHistoryInformation", [
    ⟨"List", { valueExt := true, sizeLB := some (1), sizeUB := some (16) }, (.slice (.struct 1089))⟩]⟩, -- 1412
  ⟨"SourceNGRANNodeToTargetNGRANNodeTransparentContainer", [
    ⟨"RRCContainer", {}, (.struct 1406)⟩,
    ⟨"PDUSessionResourceInformationList", { optional := true }, (.ptr (.struct 1259))⟩,
    ⟨"ERABInformationList", { optional := true }, (.ptr (.struct 565))⟩,
    ⟨"TargetCellID", { valueLB := some (0), valueUB := some (2) }, (.struct 166)⟩,
    ⟨"IndexToRFSP", { optional := true }, (.ptr (.struct 482))⟩,
    ⟨"UEHistoryInformation", {}, (.struct 1412)⟩,
    ⟨"IEExtensions", { optional := true }, (.ptr (.struct 1398))⟩]⟩, -- 1413
  ⟨"TargetIDExtIEsValue", [
    ⟨"Present", {}, .int⟩]⟩, -- 1414
  ⟨"TargetIDExtIEs", [
    ⟨"Id", {}, (.struct 0)⟩,
    ⟨"Criticality", {}, (.struct 1)⟩,
    ⟨"Value", { openType := true, refField := "Id" }, (.struct 1414)⟩]⟩, -- 1415
  ⟨"TargetNGRANNodeToSourceNGRANNodeTransparentContainer", [
    ⟨"RRCContainer", {}, (.struct 1406)⟩,
    ⟨"IEExtensions", { optional := true }, (.ptr (.struct 1401))⟩]⟩, -- 1416
  ⟨"UEIdentityIndexValueExtIEsValue", [
    ⟨"Present", {}, .int⟩]⟩, -- 1417
  ⟨"UEIdentityIndexValueExtIEs", [
    ⟨"Id", {}, (.struct 0)⟩,
    ⟨"Criticality", {}, (.struct 1)⟩,
    ⟨"Value", { openType := true, refField := "Id" }, (.struct 1417)⟩]⟩, -- 1418
  ⟨"UENGAPIDsExtIEsValue", [
    ⟨"Present", {}, .int⟩]⟩, -- 1419
  ⟨"UENGAPIDsExtIEs", [
    ⟨"Id", {}, (.struct 0)⟩,
    ⟨"Criticality", {}, (.struct 1)⟩,
    ⟨"Value", { openType := true, refField := "Id" }, (.struct 1419)⟩]⟩, -- 1420
  ⟨"UEPagingIdentityExtIEsValue", [
    ⟨"Present", {}, .int⟩]⟩, -- 1421
  ⟨"UEPagingIdentityExtIEs", [
    ⟨"Id", {}, (.struct 0)⟩,
    ⟨"Criticality", {}, (.struct 1)⟩,
    ⟨"Value", { openType := true, refField := "Id" }, (.struct 1421)⟩]⟩, -- 1422
  ⟨"UPTNLInformationExtIEsValue", [
    ⟨"Present", {}, .int⟩]⟩, -- 1423
  ⟨"UPTNLInformationExtIEs", [
    ⟨"Id", {}, (.struct 0)⟩,
    ⟨"Criticality", {}, (.struct 1)⟩,
    ⟨"Value", { openType := true, refField := "Id" }, (.struct 1423)⟩]⟩, -- 1424
  ⟨"UPTransportLayerInformationExtIEsValue", [
    ⟨"Present", {}, .int⟩]⟩, -- 1425
  ⟨"UPTransportLayerInformationExtIEs", [
    ⟨"Id", {}, (.struct 0)⟩,
    ⟨"Criticality", {}, (.struct 1)⟩,
    ⟨"Value", { openType := true, refField := "Id" }, (.struct 1425)⟩]⟩, -- 1426
  ⟨"UserLocationInformationExtIEsValue", [
    ⟨"Present", {}, .int⟩]⟩, -- 1427
  ⟨"UserLocationInformationExtIEs", [
    ⟨"Id", {}, (.struct 0)⟩,
    ⟨"Criticality", {}, (.struct 1)⟩,
    ⟨"Value", { openType := true, refField := "Id" }, (.struct 1427)⟩]⟩, -- 1428
  ⟨"WarningAreaListExtIEsValue", [
    ⟨"Present", {}, .int⟩]⟩, -- 1429
  ⟨"WarningAreaListExtIEs", [
    ⟨"Id", {}, (.struct 0)⟩,
    ⟨"Criticality", {}, (.struct 1)⟩,
    ⟨"Value", { openType := true, refField := "Id" }, (.struct 1429)⟩]⟩ -- 1430
]

end Stgutg.Spec.Ts38413Schema
