-- TS 38.413 (v15) abstract syntax of NGAP as a PER-visible schema: a frozen transcription, see Spec/Ts38413Schema.lean for its provenance.
import Stgutg.Model.AperTypes
namespace Stgutg.Spec.Ts38413Schema
open Stgutg.Aper

def schema13 : List StructDef := [
  ⟨"QosFlowAddOrModifyRequestItemExtIEsExtensionValue", [
    ⟨"Present", {}, .int⟩]⟩, -- 1300
  ⟨"QosFlowAddOrModifyRequestItemExtIEs", [
    ⟨"Id", {}, (.struct 7)⟩,
    ⟨"Criticality", {}, (.struct 1)⟩,
    ⟨"ExtensionValue", { openType := true, refField := "Id" }, (.struct 1300)⟩]⟩, -- 1301
  ⟨"ProtocolExtensionContainerQosFlowAddOrModifyRequestItemExtIEs", [
    ⟨"List", { sizeLB := some (1), sizeUB := some (65535) }, (.slice (.struct 1301))⟩]⟩, -- 1302
  ⟨"QosFlowAddOrModifyRequestItem", [
    ⟨"QosFlowIdentifier", {}, (.struct 211)⟩,
    ⟨"QosFlowLevelQosParameters", { optional := true, valueExt := true }, (.ptr (.struct 1299))⟩,
    ⟨"ERABID", { optional := true }, (.ptr (.struct 560))⟩,
    ⟨"IEExtensions", { optional := true }, (.ptr (.struct 1302))⟩]⟩, -- 1303
  ⟨"QosFlowAddOrModifyRequestList", [
    ⟨"List", { valueExt := true, sizeLB := some (1), sizeUB := some (64) }, (.slice (.struct 1303))⟩]⟩, -- 1304
  ⟨"PDUSessionResourceModifyRequestTransferIEsValue", [
    ⟨"Present", {}, .int⟩,
    ⟨"PDUSessionAggregateMaximumBitRate", { valueExt := true, refValue := some (130) }, (.ptr (.struct 1249))⟩,
    ⟨"ULNGUUPTNLModifyList", { refValue := some (140) }, (.ptr (.struct 1292))⟩,
    ⟨"NetworkInstance", { refValue := some (129) }, (.ptr (.struct 1236))⟩,
    ⟨"QosFlowAddOrModifyRequestList", { refValue := some (135) }, (.ptr (.struct 1304))⟩,
    ⟨"QosFlowToReleaseList", { refValue := some (137) }, (.ptr (.struct 728))⟩,
    ⟨"AdditionalULNGUUPTNLInformation", { valueLB := some (0), valueUB := some (1), refValue := some (126) }, (.ptr (.struct 445))⟩]⟩, -- 1305
  ⟨"PDUSessionResourceModifyRequestTransferIEs", [
    ⟨"Id", {}, (.struct 0)⟩,
    ⟨"Criticality", {}, (.struct 1)⟩,
    ⟨"Value", { openType := true, refField := "Id" }, (.struct 1305)⟩]⟩, -- 1306
  ⟨"ProtocolIEContainerPDUSessionResourceModifyRequestTransferIEs", [
    ⟨"List", { sizeLB := some (0), sizeUB := some (65535) }, (.slice (.struct 1306))⟩]⟩, -- 1307
  ⟨"PDUSessionResourceModifyRequestTransfer", [
    ⟨"ProtocolIEs", {}, (.struct 1307)⟩]⟩, -- 1308
  ⟨"QosFlowAddOrModifyResponseItemExtIEsExtensionValue", [
    ⟨"Present", {}, .int⟩]⟩, -- 1309
  ⟨"QosFlowAddOrModifyResponseItemExtIEs", [
    ⟨"Id", {}, (.struct 7)⟩,
    ⟨"Criticality", {}, (.struct 1)⟩,
    ⟨"ExtensionValue", { openType := true, refField := "Id" }, (.struct 1309)⟩]⟩, -- 1310
  ⟨"ProtocolExtensionContainerQosFlowAddOrModifyResponseItemExtIEs", [
    ⟨"List", { sizeLB := some (1), sizeUB := some (65535) }, (.slice (.struct 1310))⟩]⟩, -- 1311
  ⟨"QosFlowAddOrModifyResponseItem", [
    ⟨"QosFlowIdentifier", {}, (.struct 211)⟩,
    ⟨"IEExtensions", { optional := true }, (.ptr (.struct 1311))⟩]⟩, -- 1312
  ⟨"QosFlowAddOrModifyResponseList", [
    ⟨"List", { valueExt := true, sizeLB := some (1), sizeUB := some (64) }, (.slice (.struct 1312))⟩]⟩, -- 1313
  ⟨"PDUSessionResourceModifyResponseTransferExtIEsExtensionValue", [
    ⟨"Present", {}, .int⟩]⟩, -- 1314
  ⟨"PDUSessionResourceModifyResponseTransferExtIEs", [
    ⟨"Id", {}, (.struct 7)⟩,
    ⟨"Criticality", {}, (.struct 1)⟩,
    ⟨"ExtensionValue", { openType := true, refField := "Id" }, (.struct 1314)⟩]⟩, -- 1315
  ⟨"ProtocolExtensionContainerPDUSessionResourceModifyResponseTransferExtIEs", [
    ⟨"List", { sizeLB := some (1), sizeUB := some (65535) }, (.slice (.struct 1315))⟩]⟩, -- 1316
  ⟨"PDUSessionResourceModifyResponseTransfer", [
    ⟨"DLNGUUPTNLInformation", { optional := true, valueLB := some (0), valueUB := some (1) }, (.ptr (.struct 445))⟩,
    ⟨"ULNGUUPTNLInformation", { optional := true, valueLB := some (0), valueUB := some (1) }, (.ptr (.struct 445))⟩,
    ⟨"QosFlowAddOrModifyResponseList", { optional := true }, (.ptr (.struct 1313))⟩,
    ⟨"AdditionalQosFlowPerTNLInformation", { optional := true, valueExt := true }, (.ptr (.struct 1094))⟩,
    ⟨"QosFlowFailedToAddOrModifyList", { optional := true }, (.ptr (.struct 728))⟩,
    ⟨"IEExtensions", { optional := true }, (.ptr (.struct 1316))⟩]⟩, -- 1317
  ⟨"PDUSessionResourceModifyUnsuccessfulTransferExtIEsExtensionValue", [
    ⟨"Present", {}, .int⟩]⟩, -- 1318
  ⟨"PDUSessionResourceModifyUnsuccessfulTransferExtIEs", [
    ⟨"Id", {}, (.struct 7)⟩,
    ⟨"Criticality", {}, (.struct 1)⟩,
    ⟨"ExtensionValue", { openType := true, refField := "Id" }, (.struct 1318)⟩]⟩, -- 1319
  ⟨"ProtocolExtensionContainerPDUSessionResourceModifyUnsuccessfulTransferExtIEs", [
    ⟨"List", { sizeLB := some (1), sizeUB := some (65535) }, (.slice (.struct 1319))⟩]⟩, -- 1320
  ⟨"PDUSessionResourceModifyUnsuccessfulTransfer", [
    ⟨"Cause", { valueLB := some (0), valueUB := some (5) }, (.struct 69)⟩,
    ⟨"CriticalityDiagnostics", { optional := true, valueExt := true }, (.ptr (.struct 86))⟩,
    ⟨"IEExtensions", { optional := true }, (.ptr (.struct 1320))⟩]⟩, -- 1321
  ⟨"PDUSessionResourceNotifyReleasedTransferExtIEsExtensionValue", [
    ⟨"Present", {}, .int⟩]⟩, -- 1322
  ⟨"PDUSessionResourceNotifyReleasedTransferExtIEs", [
    ⟨"Id", {}, (.struct 7)⟩,
    ⟨"Criticality", {}, (.struct 1)⟩,
    ⟨"ExtensionValue", { openType := true, refField := "Id" }, (.struct 1322)⟩]⟩, -- 1323
  ⟨"ProtocolExtensionContainerPDUSessionResourceNotifyReleasedTransferExtIEs", [
    ⟨"List", { sizeLB := some (1), sizeUB := some (65535) }, (.slice (.struct 1323))⟩]⟩, -- 1324
  ⟨"PDUSessionResourceNotifyReleasedTransfer", [
    ⟨"Cause", { valueLB := some (0), valueUB := some (5) }, (.struct 69)⟩,
    ⟨"IEExtensions", { optional := true }, (.ptr (.struct 1324))⟩]⟩, -- 1325
  ⟨"QosFlowNotifyItemExtIEsExtensionValue", [
    ⟨"Present", {}, .int⟩]⟩, -- 1326
  ⟨"QosFlowNotifyItemExtIEs", [
    ⟨"Id", {}, (.struct 7)⟩,
    ⟨"Criticality", {}, (.struct 1)⟩,
    ⟨"ExtensionValue", { openType := true, refField := "Id" }, (.struct 1326)⟩]⟩, -- 1327
  ⟨"ProtocolExtensionContainerQosFlowNotifyItemExtIEs", [
    ⟨"List", { sizeLB := some (1), sizeUB := some (65535) }, (.slice (.struct 1327))⟩]⟩, -- 1328
  ⟨"QosFlowNotifyItem", [
    ⟨"QosFlowIdentifier", {}, (.struct 211)⟩,
    ⟨"NotificationCause", {}, (.struct 1243)⟩,
    ⟨"IEExtensions", { optional := true }, (.ptr (.struct 1328))⟩]⟩, -- 1329
  ⟨"QosFlowNotifyList", [
    ⟨"List", { valueExt := true, sizeLB := some (1), sizeUB := some (64) }, (.slice (.struct 1329))⟩]⟩, -- 1330
  ⟨"PDUSessionResourceNotifyTransferExtIEsExtensionValue", [
    ⟨"Present", {}, .int⟩]⟩, -- 1331
  ⟨"PDUSessionResourceNotifyTransferExtIEs", [
    ⟨"Id", {}, (.struct 7)⟩,
    ⟨"Criticality", {}, (.struct 1)⟩,
    ⟨"ExtensionValue", { openType := true, refField := "Id" }, (.struct 1331)⟩]⟩, -- 1332
  ⟨"ProtocolExtensionContainerPDUSessionResourceNotifyTransferExtIEs", [
    ⟨"List", { sizeLB := some (1), sizeUB := some (65535) }, (.slice (.struct 1332))⟩]⟩, -- 1333
  ⟨"PDUSessionResourceNotifyTransfer", [
    ⟨"QosFlowNotifyList", { optional := true }, (.ptr (.struct 1330))⟩,
    ⟨"QosFlowReleasedList", { optional := true }, (.ptr (.struct 728))⟩,
    ⟨"IEExtensions", { optional := true }, (.ptr (.struct 1333))⟩]⟩, -- 1334
  ⟨"PDUSessionResourceReleaseCommandTransferExtIEsExtensionValue", [
    ⟨"Present", {}, .int⟩]⟩, -- 1335
  ⟨"PDUSessionResourceReleaseCommandTransferExtIEs", [
    ⟨"Id", {}, (.struct 7)⟩,
    ⟨"Criticality", {}, (.struct 1)⟩,
    ⟨"ExtensionValue", { openType := true, refField := "Id" }, (.struct 1335)⟩]⟩, -- 1336
  ⟨"ProtocolExtensionContainerPDUSessionResourceReleaseCommandTransferExtIEs", [
    ⟨"List", { sizeLB := some (1), sizeUB := some (65535) }, (.slice (.struct 1336))⟩]⟩, -- 1337
  ⟨"PDUSessionResourceReleaseCommandTransfer", [
    ⟨"Cause", { valueLB := some (0), valueUB := some (5) }, (.struct 69)⟩,
    ⟨"IEExtensions", { optional := true }, (.ptr (.struct 1337))⟩]⟩, -- 1338
  ⟨"PDUSessionResourceReleaseResponseTransferExtIEsExtensionValue", [
    ⟨"Present", {}, .int⟩]⟩, -- 1339
  ⟨"PDUSessionResourceReleaseResponseTransferExtIEs", [
    ⟨"Id", {}, (.struct 7)⟩,
    ⟨"Criticality", {}, (.struct 1)⟩,
    ⟨"ExtensionValue", { openType := true, refField := "Id" }, (.struct 1339)⟩]⟩, -- 1340
  ⟨"ProtocolExtensionContainerPDUSessionResourceReleaseResponseTransferExtIEs", [
    ⟨"List", { sizeLB := some (1), sizeUB := some (65535) }, (.slice (.struct 1340))⟩]⟩, -- 1341
  ⟨"PDUSessionResourceReleaseResponseTransfer", [
    ⟨"IEExtensions", { optional := true }, (.ptr (.struct 1341))⟩]⟩, -- 1342
  ⟨"PDUSessionType", [
    ⟨"Value", { valueExt := true, valueLB := some (0), valueUB := some (4) }, .enum⟩]⟩, -- 1343
  ⟨"SecurityIndicationExtIEsExtensionValue", [
    ⟨"Present", {}, .int⟩]⟩, -- 1344
  ⟨"SecurityIndicationExtIEs", [
    ⟨"Id", {}, (.struct 7)⟩,
    ⟨"Criticality", {}, (.struct 1)⟩,
    ⟨"ExtensionValue", { openType := true, refField := "Id" }, (.struct 1344)⟩]⟩, -- 1345
  ⟨"ProtocolExtensionContainerSecurityIndicationExtIEs", [
    ⟨"List", { sizeLB := some (1), sizeUB := some (65535) }, (.slice (.struct 1345))⟩]⟩, -- 1346
  ⟨"SecurityIndication", [
    ⟨"IntegrityProtectionIndication", {}, (.struct 1072)⟩,
    ⟨"ConfidentialityProtectionIndication", {}, (.struct 365)⟩,
    ⟨"MaximumIntegrityProtectedDataRate", { optional := true }, (.ptr (.struct 1090))⟩,
    ⟨"IEExtensions", { optional := true }, (.ptr (.struct 1346))⟩]⟩, -- 1347
  ⟨"QosFlowSetupRequestItemExtIEsExtensionValue", [
    ⟨"Present", {}, .int⟩]⟩, -- 1348
  ⟨"QosFlowSetupRequestItemExtIEs", [
    ⟨"Id", {}, (.struct 7)⟩,
    ⟨"Criticality", {}, (.struct 1)⟩,
    ⟨"ExtensionValue", { openType := true, refField := "Id" }, (.struct 1348)⟩]⟩, -- 1349
  ⟨"ProtocolExtensionContainerQosFlowSetupRequestItemExtIEs", [
    ⟨"List", { sizeLB := some (1), sizeUB := some (65535) }, (.slice (.struct 1349))⟩]⟩, -- 1350
  ⟨"QosFlowSetupRequestItem", [
    ⟨"QosFlowIdentifier", {}, (.struct 211)⟩,
    ⟨"QosFlowLevelQosParameters", { valueExt := true }, (.struct 1299)⟩,
    ⟨"ERABID", { optional := true }, (.ptr (.struct 560))⟩,
    ⟨"IEExtensions", { optional := true }, (.ptr (.struct 1350))⟩]⟩, -- 1351
  ⟨"QosFlowSetupRequestList", [
    ⟨"List", { valueExt := true, sizeLB := some (1), sizeUB := some (64) }, (.slice (.struct 1351))⟩]⟩, -- 1352
  ⟨"PDUSessionResourceSetupRequestTransferIEsValue", [
    ⟨"Present", {}, .int⟩,
    ⟨"PDUSessionAggregateMaximumBitRate", { valueExt := true, refValue := some (130) }, (.ptr (.struct 1249))⟩,
    ⟨"ULNGUUPTNLInformation", { valueLB := some (0), valueUB := some (1), refValue := some (139) }, (.ptr (.struct 445))⟩,
    ⟨"AdditionalULNGUUPTNLInformation", { valueLB := some (0), valueUB := some (1), refValue := some (126) }, (.ptr (.struct 445))⟩,
    ⟨"DataForwardingNotPossible", { refValue := some (127) }, (.ptr (.struct 438))⟩,
    ⟨"PDUSessionType", { refValue := some (134) }, (.ptr (.struct 1343))⟩,
    ⟨"SecurityIndication", { valueExt := true, refValue := some (138) }, (.ptr (.struct 1347))⟩,
    ⟨"NetworkInstance", { refValue := some (129) }, (.ptr (.struct 1236))⟩,
    ⟨"QosFlowSetupRequestList", { refValue := some (136) }, (.ptr (.struct 1352))⟩]⟩, -- 1353
  ⟨"PDUSessionResourceSetupRequestTransferIEs", [
    ⟨"Id", {}, (.struct 0)⟩,
    ⟨"Criticality", {}, (.struct 1)⟩,
    ⟨"Value", { openType := true, refField := "Id" }, (.struct 1353)⟩]⟩, -- 1354
  ⟨"ProtocolIEContainerPDUSessionResourceSetupRequestTransferIEs", [
    ⟨"List", { sizeLB := some (0), sizeUB := some (65535) }, (.slice (.struct 1354))⟩]⟩, -- 1355
  ⟨"PDUSessionResourceSetupRequestTransfer", [
    ⟨"ProtocolIEs", {}, (.struct 1355)⟩]⟩, -- 1356
  ⟨"PDUSessionResourceSetupResponseTransferExtIEsExtensionValue", [
    ⟨"Present", {}, .int⟩]⟩, -- 1357
  ⟨"PDUSessionResourceSetupResponseTransferExtIEs", [
    ⟨"Id", {}, (.struct 7)⟩,
    ⟨"Criticality", {}, (.struct 1)⟩,
    ⟨"ExtensionValue", { openType := true, refField := "Id" }, (.struct 1357)⟩]⟩, -- 1358
  ⟨"ProtocolExtensionContainerPDUSessionResourceSetupResponseTransferExtIEs", [
    ⟨"List", { sizeLB := some (1), sizeUB := some (65535) }, (.slice (.struct 1358))⟩]⟩, -- 1359
  ⟨"PDUSessionResourceSetupResponseTransfer", [
    ⟨"QosFlowPerTNLInformation", { valueExt := true }, (.struct 1094)⟩,
    ⟨"AdditionalQosFlowPerTNLInformation", { optional := true, valueExt := true }, (.ptr (.struct 1094))⟩,
    ⟨"SecurityResult", { optional := true, valueExt := true }, (.ptr (.struct 718))⟩,
    ⟨"QosFlowFailedToSetupList", { optional := true }, (.ptr (.struct 728))⟩,
    ⟨"IEExtensions", { optional := true }, (.ptr (.struct 1359))⟩]⟩, -- 1360
  ⟨"PDUSessionResourceSetupUnsuccessfulTransferExtIEsExtensionValue", [
    ⟨"Present", {}, .int⟩]⟩, -- 1361
  ⟨"PDUSessionResourceSetupUnsuccessfulTransferExtIEs", [
    ⟨"Id", {}, (.struct 7)⟩,
    ⟨"Criticality", {}, (.struct 1)⟩,
    ⟨"ExtensionValue", { openType := true, refField := "Id" }, (.struct 1361)⟩]⟩, -- 1362
  ⟨"ProtocolExtensionContainerPDUSessionResourceSetupUnsuccessfulTransferExtIEs", [
    ⟨"List", { sizeLB := some (1), sizeUB := some (65535) }, (.slice (.struct 1362))⟩]⟩, -- 1363
  ⟨"PDUSessionResourceSetupUnsuccessfulTransfer", [
    ⟨"Cause", { valueLB := some (0), valueUB := some (5) }, (.struct 69)⟩,
    ⟨"CriticalityDiagnostics", { optional := true, valueExt := true }, (.ptr (.struct 86))⟩,
    ⟨"IEExtensions", { optional := true }, (.ptr (.struct 1363))⟩]⟩, -- 1364
  ⟨"PWSFailedCellIDListExtIEsValue", [
    ⟨"Present", {}, .int⟩]⟩, -- 1365
  ⟨"PWSFailedCellIDListExtIEs", [
    ⟨"Id", {}, (.struct 0)⟩,
    ⟨"Criticality", {}, (.struct 1)⟩,
    ⟨"Value", { openType := true, refField := "Id" }, (.struct 1365)⟩]⟩, -- 1366
  ⟨"PathSwitchRequestAcknowledgeTransferExtIEsExtensionValue", [
    ⟨"Present", {}, .int⟩]⟩, -- 1367
  ⟨"PathSwitchRequestAcknowledgeTransferExtIEs", [
    ⟨"Id", {}, (.struct 7)⟩,
    ⟨"Criticality", {}, (.struct 1)⟩,
    ⟨"ExtensionValue", { openType := true, refField := "Id" }, (.struct 1367)⟩]⟩, -- 1368
  ⟨"ProtocolExtensionContainerPathSwitchRequestAcknowledgeTransferExtIEs", [
    ⟨"List", { sizeLB := some (1), sizeUB := some (65535) }, (.slice (.struct 1368))⟩]⟩, -- 1369
  ⟨"PathSwitchRequestAcknowledgeTransfer", [
    ⟨"ULNGUUPTNLInformation", { optional := true, valueLB := some (0), valueUB := some (1) }, (.ptr (.struct 445))⟩,
    ⟨"SecurityIndication", { optional := true, valueExt := true }, (.ptr (.struct 1347))⟩,
    ⟨"IEExtensions", { optional := true }, (.ptr (.struct 1369))⟩]⟩, -- 1370
  ⟨"PathSwitchRequestSetupFailedTransferExtIEsExtensionValue", [
    ⟨"Present", {}, .int⟩]⟩, -- 1371
  ⟨"PathSwitchRequestSetupFailedTransferExtIEs", [
    ⟨"Id", {}, (.struct 7)⟩,
    ⟨"Criticality", {}, (.struct 1)⟩,
    ⟨"ExtensionValue", { openType := true, refField := "Id" }, (.struct 1371)⟩]⟩, -- 1372
  ⟨"ProtocolExtensionContainerPathSwitchRequestSetupFailedTransferExtIEs", [
    ⟨"List", { sizeLB := some (1), sizeUB := some (65535) }, (.slice (.struct 1372))⟩]⟩, -- 1373
  ⟨"PathSwitchRequestSetupFailedTransfer", [
    ⟨"Cause", { valueLB := some (0), valueUB := some (5) }, (.struct 69)⟩,
    ⟨"IEExtensions", { optional := true }, (.ptr (.struct 1373))⟩]⟩, -- 1374
  ⟨"UserPlaneSecurityInformationExtIEsExtensionValue", [
    ⟨"Present", {}, .int⟩]⟩, -- 1375
  ⟨"UserPlaneSecurityInformationExtIEs", [
    ⟨"Id", {}, (.struct 7)⟩,
    ⟨"Criticality", {}, (.struct 1)⟩,
    ⟨"ExtensionValue", { openType := true, refField := "Id" }, (.struct 1375)⟩]⟩, -- 1376
  ⟨"ProtocolExtensionContainerUserPlaneSecurityInformationExtIEs", [
    ⟨"List", { sizeLB := some (1), sizeUB := some (65535) }, (.slice (.struct 1376))⟩]⟩, -- 1377
  ⟨"UserPlaneSecurityInformation", [
    ⟨"SecurityResult", { valueExt := true }, (.struct 718)⟩,
    ⟨"SecurityIndication", { valueExt := true }, (.struct 1347)⟩,
    ⟨"IEExtensions", { optional := true }, (.ptr (.struct 1377))⟩]⟩, -- 1378
  ⟨"QosFlowAcceptedItemExtIEsExtensionValue", [
    ⟨"Present", {}, .int⟩]⟩, -- 1379
  ⟨"QosFlowAcceptedItemExtIEs", [
    ⟨"Id", {}, (.struct 7)⟩,
    ⟨"Criticality", {}, (.struct 1)⟩,
    ⟨"ExtensionValue", { openType := true, refField := "Id" }, (.struct 1379)⟩]⟩, -- 1380
  ⟨"ProtocolExtensionContainerQosFlowAcceptedItemExtIEs", [
    ⟨"List", { sizeLB := some (1), sizeUB := some (65535) }, (.slice (.struct 1380))⟩]⟩, -- 1381
  ⟨"QosFlowAcceptedItem", [
    ⟨"QosFlowIdentifier", {}, (.struct 211)⟩,
    ⟨"IEExtensions", { optional := true }, (.ptr (.struct 1381))⟩]⟩, -- 1382
  ⟨"QosFlowAcceptedList", [
    ⟨"List", { valueExt := true, sizeLB := some (1), sizeUB := some (64) }, (.slice (.struct 1382))⟩]⟩, -- 1383
  ⟨"PathSwitchRequestTransferExtIEsExtensionValue", [
    ⟨"Present", {}, .int⟩]⟩, -- 1384
  ⟨"PathSwitchRequestTransferExtIEs", [
    ⟨"Id", {}, (.struct 7)⟩,
    ⟨"Criticality", {}, (.struct 1)⟩,
    ⟨"ExtensionValue", { openType := true, refField := "Id" }, (.struct 1384)⟩]⟩, -- 1385
  ⟨"ProtocolExtensionContainerPathSwitchRequestTransferExtIEs", [
    ⟨"List", { sizeLB := some (1), sizeUB := some (65535) }, (.slice (.struct 1385))⟩]⟩, -- 1386
  ⟨"PathSwitchRequestTransfer", [
    ⟨"DLNGUUPTNLInformation", { valueLB := some (0), valueUB := some (1) }, (.struct 445)⟩,
    ⟨"DLNGUTNLInformationReused", { optional := true }, (.ptr (.struct 400))⟩,
    ⟨"UserPlaneSecurityInformation", { optional := true, valueExt := true }, (.ptr (.struct 1378))⟩,
    ⟨"QosFlowAcceptedList", {}, (.struct 1383)⟩,
    ⟨"IEExtensions", { optional := true }, (.ptr (.struct 1386))⟩]⟩, -- 1387
  ⟨"PathSwitchRequestUnsuccessfulTransferExtIEsExtensionValue", [
    ⟨"Present", {}, .int⟩]⟩, -- 1388
  ⟨"PathSwitchRequestUnsuccessfulTransferExtIEs", [
    ⟨"Id", {}, (.struct 7)⟩,
    ⟨"Criticality", {}, (.struct 1)⟩,
    ⟨"ExtensionValue", { openType := true, refField := "Id" }, (.struct 1388)⟩]⟩, -- 1389
  ⟨"ProtocolExtensionContainerPathSwitchRequestUnsuccessfulTransferExtIEs", [
    ⟨"List", { sizeLB := some (1), sizeUB := some (65535) }, (.slice (.struct 1389))⟩]⟩, -- 1390
  ⟨"PathSwitchRequestUnsuccessfulTransfer", [
    ⟨"Cause", { valueLB := some (0), valueUB := some (5) }, (.struct 69)⟩,
    ⟨"IEExtensions", { optional := true }, (.ptr (.struct 1390))⟩]⟩, -- 1391
  ⟨"Presence", [
    ⟨"Value", { valueLB := some (0), valueUB := some (2) }, .enum⟩]⟩, -- 1392
  ⟨"QosFlowSetupResponseItemSUResExtIEsExtensionValue", [
    ⟨"Present", {}, .int⟩]⟩, -- 1393
  ⟨"QosFlowSetupResponseItemSUResExtIEs", [
    ⟨"Id", {}, (.struct 7)⟩,
    ⟨"Criticality", {}, (.struct 1)⟩,
    ⟨"ExtensionValue", { openType := true, refField := "Id" }, (.struct 1393)⟩]⟩, -- 1394
  ⟨"ProtocolExtensionContainerQosFlowSetupResponseItemSUResExtIEs", [
    ⟨"List", { sizeLB := some (1), sizeUB := some (65535) }, (.slice (.struct 1394))⟩]⟩, -- 1395
  ⟨"SourceNGRANNodeToTargetNGRANNodeTransparentContainerExtIEsExtensionValue", [
    ⟨"Present", {}, .int⟩]⟩, -- 1396
  ⟨"SourceNGRANNodeToTargetNGRANNodeTransparentContainerExtIEs", [
    ⟨"Id", {}, (.struct 7)⟩,
    ⟨"Criticality", {}, (.struct 1)⟩,
    ⟨"ExtensionValue", { openType := true, refField := "Id" }, (.struct 1396)⟩]⟩, -- 1397
  ⟨"ProtocolExtensionContainerSourceNGRANNodeToTargetNGRANNodeTransparentContainerExtIEs", [
    ⟨"List", { sizeLB := some (1), sizeUB := some (65535) }, (.slice (.struct 1397))⟩]⟩, -- 1398
  ⟨"TargetNGRANNodeToSourceNGRANNodeTransparentContainerExtIEsExtensionValue", [
    ⟨"Present", {}, .int⟩]⟩ -- 1399
]

end Stgutg.Spec.Ts38413Schema
