-- TS 38.413 (v15) abstract syntax of NGAP as a PER-visible schema: a frozen transcription, see Spec/Ts38413Schema.lean for its provenance.
import Stgutg.Model.AperTypes
namespace Stgutg.Spec.Ts38413Schema
open Stgutg.Aper

def schema4 : List StructDef := [
  ⟨"DLNGUTNLInformationReused", [
    ⟨"Value", { valueExt := true, valueLB := some (0), valueUB := some (0) }, .enum⟩]⟩, -- 400
  ⟨"DRBID", [
    ⟨"Value", { valueExt := true, valueLB := some (1), valueUB := some (32) }, .int⟩]⟩, -- 401
  ⟨"DRBStatusDL12ExtIEsExtensionValue", [
    ⟨"Present", {}, .int⟩]⟩, -- 402
  ⟨"DRBStatusDL12ExtIEs", [
    ⟨"Id", {}, (.struct 7)⟩,
    ⟨"Criticality", {}, (.struct 1)⟩,
    ⟨"ExtensionValue", { openType := true, refField := "Id" }, (.struct 402)⟩]⟩, -- 403
  ⟨"ProtocolExtensionContainerDRBStatusDL12ExtIEs", [
    ⟨"List", { sizeLB := some (1), sizeUB := some (65535) }, (.slice (.struct 403))⟩]⟩, -- 404
  ⟨"DRBStatusDL12", [
    ⟨"DLCOUNTValue", { valueExt := true }, (.struct 337)⟩,
    ⟨"IEExtension", { optional := true }, (.ptr (.struct 404))⟩]⟩, -- 405
  ⟨"DRBStatusDL18ExtIEsExtensionValue", [
    ⟨"Present", {}, .int⟩]⟩, -- 406
  ⟨"DRBStatusDL18ExtIEs", [
    ⟨"Id", {}, (.struct 7)⟩,
    ⟨"Criticality", {}, (.struct 1)⟩,
    ⟨"ExtensionValue", { openType := true, refField := "Id" }, (.struct 406)⟩]⟩, -- 407
  ⟨"ProtocolExtensionContainerDRBStatusDL18ExtIEs", [
    ⟨"List", { sizeLB := some (1), sizeUB := some (65535) }, (.slice (.struct 407))⟩]⟩, -- 408
  ⟨"DRBStatusDL18", [
    ⟨"DLCOUNTValue", { valueExt := true }, (.struct 341)⟩,
    ⟨"IEExtension", { optional := true }, (.ptr (.struct 408))⟩]⟩, -- 409
  ⟨"ProtocolIESingleContainerDRBStatusDLExtIEs", []⟩, -- 410
  ⟨"DRBStatusDL", [
    ⟨"Present", {}, .int⟩,
    ⟨"DRBStatusDL12", { valueExt := true }, (.ptr (.struct 405))⟩,
    ⟨"DRBStatusDL18", { valueExt := true }, (.ptr (.struct 409))⟩,
    ⟨"ChoiceExtensions", {}, (.ptr (.struct 410))⟩]⟩, -- 411
  ⟨"DRBStatusDLExtIEsValue", [
    ⟨"Present", {}, .int⟩]⟩, -- 412
  ⟨"DRBStatusDLExtIEs", [
    ⟨"Id", {}, (.struct 0)⟩,
    ⟨"Criticality", {}, (.struct 1)⟩,
    ⟨"Value", { openType := true, refField := "Id" }, (.struct 412)⟩]⟩, -- 413
  ⟨"DRBStatusUL12ExtIEsExtensionValue", [
    ⟨"Present", {}, .int⟩]⟩, -- 414
  ⟨"DRBStatusUL12ExtIEs", [
    ⟨"Id", {}, (.struct 7)⟩,
    ⟨"Criticality", {}, (.struct 1)⟩,
    ⟨"ExtensionValue", { openType := true, refField := "Id" }, (.struct 414)⟩]⟩, -- 415
  ⟨"ProtocolExtensionContainerDRBStatusUL12ExtIEs", [
    ⟨"List", { sizeLB := some (1), sizeUB := some (65535) }, (.slice (.struct 415))⟩]⟩, -- 416
  ⟨"DRBStatusUL12", [
    ⟨"ULCOUNTValue", { valueExt := true }, (.struct 337)⟩,
    ⟨"ReceiveStatusOfULPDCPSDUs", { optional := true, sizeLB := some (1), sizeUB := some (2048) }, (.ptr .bits)⟩,
    ⟨"IEExtension", { optional := true }, (.ptr (.struct 416))⟩]⟩, -- 417
  ⟨"DRBStatusUL18ExtIEsExtensionValue", [
    ⟨"Present", {}, .int⟩]⟩, -- 418
  ⟨"DRBStatusUL18ExtIEs", [
    ⟨"Id", {}, (.struct 7)⟩,
    ⟨"Criticality", {}, (.struct 1)⟩,
    ⟨"ExtensionValue", { openType := true, refField := "Id" }, (.struct 418)⟩]⟩, -- 419
  ⟨"ProtocolExtensionContainerDRBStatusUL18ExtIEs", [
    ⟨"List", { sizeLB := some (1), sizeUB := some (65535) }, (.slice (.struct 419))⟩]⟩, -- 420
  ⟨"DRBStatusUL18", [
    ⟨"ULCOUNTValue", { valueExt := true }, (.struct 341)⟩,
    ⟨"ReceiveStatusOfULPDCPSDUs", { optional := true, sizeLB := some (1), sizeUB := some (131072) }, (.ptr .bits)⟩,
    ⟨"IEExtension", { optional := true }, (.ptr (.struct 420))⟩]⟩, -- 421
  ⟨"ProtocolIESingleContainerDRBStatusULExtIEs", []⟩, -- 422
  ⟨"DRBStatusUL", [
    ⟨"Present", {}, .int⟩,
    ⟨"DRBStatusUL12", { valueExt := true }, (.ptr (.struct 417))⟩,
    ⟨"DRBStatusUL18", { valueExt := true }, (.ptr (.struct 421))⟩,
    ⟨"ChoiceExtensions", {}, (.ptr (.struct 422))⟩]⟩, -- 423
  ⟨"DRBStatusULExtIEsValue", [
    ⟨"Present", {}, .int⟩]⟩, -- 424
  ⟨"DRBStatusULExtIEs", [
    ⟨"Id", {}, (.struct 0)⟩,
    ⟨"Criticality", {}, (.struct 1)⟩,
    ⟨"Value", { openType := true, refField := "Id" }, (.struct 424)⟩]⟩, -- 425
  ⟨"DRBsSubjectToStatusTransferItemExtIEsExtensionValue", [
    ⟨"Present", {}, .int⟩]⟩, -- 426
  ⟨"DRBsSubjectToStatusTransferItemExtIEs", [
    ⟨"Id", {}, (.struct 7)⟩,
    ⟨"Criticality", {}, (.struct 1)⟩,
    ⟨"ExtensionValue", { openType := true, refField := "Id" }, (.struct 426)⟩]⟩, -- 427
  ⟨"ProtocolExtensionContainerDRBsSubjectToStatusTransferItemExtIEs", [
    ⟨"List", { sizeLB := some (1), sizeUB := some (65535) }, (.slice (.struct 427))⟩]⟩, -- 428
  ⟨"DRBsSubjectToStatusTransferItem", [
    ⟨"DRBID", {}, (.struct 401)⟩,
    ⟨"DRBStatusUL", { valueLB := some (0), valueUB := some (2) }, (.struct 423)⟩,
    ⟨"DRBStatusDL", { valueLB := some (0), valueUB := some (2) }, (.struct 411)⟩,
    ⟨"IEExtension", { optional := true }, (.ptr (.struct 428))⟩]⟩, -- 429
  ⟨"DRBsSubjectToStatusTransferList", [
    ⟨"List", { valueExt := true, sizeLB := some (1), sizeUB := some (32) }, (.slice (.struct 429))⟩]⟩, -- 430
  ⟨"DRBsToQosFlowsMappingItemExtIEsExtensionValue", [
    ⟨"Present", {}, .int⟩]⟩, -- 431
  ⟨"DRBsToQosFlowsMappingItemExtIEs", [
    ⟨"Id", {}, (.struct 7)⟩,
    ⟨"Criticality", {}, (.struct 1)⟩,
    ⟨"ExtensionValue", { openType := true, refField := "Id" }, (.struct 431)⟩]⟩, -- 432
  ⟨"ProtocolExtensionContainerDRBsToQosFlowsMappingItemExtIEs", [
    ⟨"List", { sizeLB := some (1), sizeUB := some (65535) }, (.slice (.struct 432))⟩]⟩, -- 433
  ⟨"DRBsToQosFlowsMappingItem", [
    ⟨"DRBID", {}, (.struct 401)⟩,
    ⟨"AssociatedQosFlowList", {}, (.struct 216)⟩,
    ⟨"IEExtensions", { optional := true }, (.ptr (.struct 433))⟩]⟩, -- 434
  ⟨"DRBsToQosFlowsMappingList", [
    ⟨"List", { valueExt := true, sizeLB := some (1), sizeUB := some (32) }, (.slice (.struct 434))⟩]⟩, -- 435
  ⟨"DataCodingScheme", [
    ⟨"Value", { sizeLB := some (8), sizeUB := some (8) }, .bits⟩]⟩, -- 436
  ⟨"DataForwardingAccepted", [
    ⟨"Value", { valueExt := true, valueLB := some (0), valueUB := some (0) }, .enum⟩]⟩, -- 437
  ⟨"DataForwardingNotPossible", [
    ⟨"Value", { valueExt := true, valueLB := some (0), valueUB := some (0) }, .enum⟩]⟩, -- 438
  ⟨"GTPTEID", [
    ⟨"Value", { sizeLB := some (4), sizeUB := some (4) }, .octs⟩]⟩, -- 439
  ⟨"GTPTunnelExtIEsExtensionValue", [
    ⟨"Present", {}, .int⟩]⟩, -- 440
  ⟨"GTPTunnelExtIEs", [
    ⟨"Id", {}, (.struct 7)⟩,
    ⟨"Criticality", {}, (.struct 1)⟩,
    ⟨"ExtensionValue", { openType := true, refField := "Id" }, (.struct 440)⟩]⟩, -- 441
  ⟨"ProtocolExtensionContainerGTPTunnelExtIEs", [
    ⟨"List", { sizeLB := some (1), sizeUB := some (65535) }, (.slice (.struct 441))⟩]⟩, -- 442
  ⟨"GTPTunnel", [
    ⟨"TransportLayerAddress", {}, (.struct 34)⟩,
    ⟨"GTPTEID", {}, (.struct 439)⟩,
    ⟨"IEExtensions", { optional := true }, (.ptr (.struct 442))⟩]⟩, -- 443
  ⟨"ProtocolIESingleContainerUPTransportLayerInformationExtIEs", []⟩, -- 444
  ⟨"UPTransportLayerInformation", [
    ⟨"Present", {}, .int⟩,
    ⟨"GTPTunnel", { valueExt := true }, (.ptr (.struct 443))⟩,
    ⟨"ChoiceExtensions", {}, (.ptr (.struct 444))⟩]⟩, -- 445
  ⟨"DataForwardingResponseDRBItemExtIEsExtensionValue", [
    ⟨"Present", {}, .int⟩]⟩, -- 446
  ⟨"DataForwardingResponseDRBItemExtIEs", [
    ⟨"Id", {}, (.struct 7)⟩,
    ⟨"Criticality", {}, (.struct 1)⟩,
    ⟨"ExtensionValue", { openType := true, refField := "Id" }, (.struct 446)⟩]⟩, -- 447
  ⟨"ProtocolExtensionContainerDataForwardingResponseDRBItemExtIEs", [
    ⟨"List", { sizeLB := some (1), sizeUB := some (65535) }, (.slice (.struct 447))⟩]⟩, -- 448
  ⟨"DataForwardingResponseDRBItem", [
    ⟨"DRBID", {}, (.struct 401)⟩,
    ⟨"DLForwardingUPTNLInformation", { optional := true, valueLB := some (0), valueUB := some (1) }, (.ptr (.struct 445))⟩,
    ⟨"ULForwardingUPTNLInformation", { optional := true, valueLB := some (0), valueUB := some (1) }, (.ptr (.struct 445))⟩,
    ⟨"IEExtensions", { optional := true }, (.ptr (.struct 448))⟩]⟩, -- 449
  ⟨"DataForwardingResponseDRBList", [
    ⟨"List", { valueExt := true, sizeLB := some (1), sizeUB := some (32) }, (.slice (.struct 449))⟩]⟩, -- 450
  ⟨"DeactivateTraceIEsValue", [
    ⟨"Present", {}, .int⟩,
    ⟨"AMFUENGAPID", { refValue := some (10) }, (.ptr (.struct 135))⟩,
    ⟨"RANUENGAPID", { refValue := some (85) }, (.ptr (.struct 354))⟩,
    ⟨"NGRANTraceID", { refValue := some (44) }, (.ptr (.struct 355))⟩]⟩, -- 451
  ⟨"DeactivateTraceIEs", [
    ⟨"Id", {}, (.struct 0)⟩,
    ⟨"Criticality", {}, (.struct 1)⟩,
    ⟨"Value", { openType := true, refField := "Id" }, (.struct 451)⟩]⟩, -- 452
  ⟨"ProtocolIEContainerDeactivateTraceIEs", [
    ⟨"List", { sizeLB := some (0), sizeUB := some (65535) }, (.slice (.struct 452))⟩]⟩, -- 453
  ⟨"DeactivateTrace", [
    ⟨"ProtocolIEs", {}, (.struct 453)⟩]⟩, -- 454
  ⟨"DelayCritical", [
    ⟨"Value", { valueExt := true, valueLB := some (0), valueUB := some (1) }, .enum⟩]⟩, -- 455
  ⟨"DirectForwardingPathAvailability", [
    ⟨"Value", { valueExt := true, valueLB := some (0), valueUB := some (0) }, .enum⟩]⟩, -- 456
  ⟨"RANPagingPriority", [
    ⟨"Value", { valueLB := some (1), valueUB := some (256) }, .int⟩]⟩, -- 457
  ⟨"NASPDU", [
    ⟨"Value", {}, .octs⟩]⟩, -- 458
  ⟨"EquivalentPLMNs", [
    ⟨"List", { sizeLB := some (1), sizeUB := some (15) }, (.slice (.struct 3))⟩]⟩, -- 459
  ⟨"RATRestrictionInformation", [
    ⟨"Value", { sizeExt := true, sizeLB := some (8), sizeUB := some (8) }, .bits⟩]⟩, -- 460
  ⟨"RATRestrictionsItemExtIEsExtensionValue", [
    ⟨"Present", {}, .int⟩]⟩, -- 461
  ⟨"RATRestrictionsItemExtIEs", [
    ⟨"Id", {}, (.struct 7)⟩,
    ⟨"Criticality", {}, (.struct 1)⟩,
    ⟨"ExtensionValue", { openType := true, refField := "Id" }, (.struct 461)⟩]⟩, -- 462
  ⟨"ProtocolExtensionContainerRATRestrictionsItemExtIEs", [
    ⟨"List", { sizeLB := some (1), sizeUB := some (65535) }, (.slice (.struct 462))⟩]⟩, -- 463
  ⟨"RATRestrictionsItem", [
    ⟨"PLMNIdentity", {}, (.struct 3)⟩,
    ⟨"RATRestrictionInformation", {}, (.struct 460)⟩,
    ⟨"IEExtensions", { optional := true }, (.ptr (.struct 463))⟩]⟩, -- 464
  ⟨"RATRestrictions", [
    ⟨"List", { valueExt := true, sizeLB := some (0), sizeUB := some (16) }, (.slice (.struct 464))⟩]⟩, -- 465
  ⟨"ForbiddenTACs", [
    ⟨"List", { sizeLB := some (1), sizeUB := some (4096) }, (.slice (.struct 116))⟩]⟩, -- 466
  ⟨"ForbiddenAreaInformationItemExtIEsExtensionValue", [
    ⟨"Present", {}, .int⟩]⟩, -- 467
  ⟨"ForbiddenAreaInformationItemExtIEs", [
    ⟨"Id", {}, (.struct 7)⟩,
    ⟨"Criticality", {}, (.struct 1)⟩,
    ⟨"ExtensionValue", { openType := true, refField := "Id" }, (.struct 467)⟩]⟩, -- 468
  ⟨"ProtocolExtensionContainerForbiddenAreaInformationItemExtIEs", [
    ⟨"List", { sizeLB := some (1), sizeUB := some (65535) }, (.slice (.struct 468))⟩]⟩, -- 469
  ⟨"ForbiddenAreaInformationItem", [
    ⟨"PLMNIdentity", {}, (.struct 3)⟩,
    ⟨"ForbiddenTACs", {}, (.struct 466)⟩,
    ⟨"IEExtensions", { optional := true }, (.ptr (.struct 469))⟩]⟩, -- 470
  ⟨"ForbiddenAreaInformation", [
    ⟨"List", { valueExt := true, sizeLB := some (1), sizeUB := some (16) }, (.slice (.struct 470))⟩]⟩, -- 471
  ⟨"NotAllowedTACs", [
    ⟨"List", { sizeLB := some (1), sizeUB := some (16) }, (.slice (.struct 116))⟩]⟩, -- 472
  ⟨"ServiceAreaInformationItemExtIEsExtensionValue", [
    ⟨"Present", {}, .int⟩]⟩, -- 473
  ⟨"ServiceAreaInformationItemExtIEs", [
    ⟨"Id", {}, (.struct 7)⟩,
    ⟨"Criticality", {}, (.struct 1)⟩,
    ⟨"ExtensionValue", { openType := true, refField := "Id" }, (.struct 473)⟩]⟩, -- 474
  ⟨"ProtocolExtensionContainerServiceAreaInformationItemExtIEs", [
    ⟨"List", { sizeLB := some (1), sizeUB := some (65535) }, (.slice (.struct 474))⟩]⟩, -- 475
  ⟨"ServiceAreaInformationItem", [
    ⟨"PLMNIdentity", {}, (.struct 3)⟩,
    ⟨"AllowedTACs", { optional := true }, (.ptr (.struct 149))⟩,
    ⟨"NotAllowedTACs", { optional := true }, (.ptr (.struct 472))⟩,
    ⟨"IEExtensions", { optional := true }, (.ptr (.struct 475))⟩]⟩, -- 476
  ⟨"ServiceAreaInformation", [
    ⟨"List", { valueExt := true, sizeLB := some (1), sizeUB := some (16) }, (.slice (.struct 476))⟩]⟩, -- 477
  ⟨"MobilityRestrictionListExtIEsExtensionValue", [
    ⟨"Present", {}, .int⟩]⟩, -- 478
  ⟨"MobilityRestrictionListExtIEs", [
    ⟨"Id", {}, (.struct 7)⟩,
    ⟨"Criticality", {}, (.struct 1)⟩,
    ⟨"ExtensionValue", { openType := true, refField := "Id" }, (.struct 478)⟩]⟩, -- 479
  ⟨"ProtocolExtensionContainerMobilityRestrictionListExtIEs", [
    ⟨"List", { sizeLB := some (1), sizeUB := some (65535) }, (.slice (.struct 479))⟩]⟩, -- 480
  ⟨"MobilityRestrictionList", [
    ⟨"ServingPLMN", {}, (.struct 3)⟩,
    ⟨"EquivalentPLMNs", { optional := true }, (.ptr (.struct 459))⟩,
    ⟨"RATRestrictions", { optional := true }, (.ptr (.struct 465))⟩,
    ⟨"ForbiddenAreaInformation", { optional := true }, (.ptr (.struct 471))⟩,
    ⟨"ServiceAreaInformation", { optional := true }, (.ptr (.struct 477))⟩,
    ⟨"IEExtensions", { optional := true }, (.ptr (.struct 480))⟩]⟩, -- 481
  ⟨"IndexToRFSP", [
    ⟨"Value", { valueExt := true, valueLB := some (1), valueUB := some (256) }, .int⟩]⟩, -- 482
  ⟨"UEAggregateMaximumBitRateExtIEsExtensionValue", [
    ⟨"Present", {}, .int⟩]⟩, -- 483
  ⟨"UEAggregateMaximumBitRateExtIEs", [
    ⟨"Id", {}, (.struct 7)⟩,
    ⟨"Criticality", {}, (.struct 1)⟩,
    ⟨"ExtensionValue", { openType := true, refField := "Id" }, (.struct 483)⟩]⟩, -- 484
  ⟨"ProtocolExtensionContainerUEAggregateMaximumBitRateExtIEs", [
    ⟨"List", { sizeLB := some (1), sizeUB := some (65535) }, (.slice (.struct 484))⟩]⟩, -- 485
  ⟨"UEAggregateMaximumBitRate", [
    ⟨"UEAggregateMaximumBitRateDL", {}, (.struct 218)⟩,
    ⟨"UEAggregateMaximumBitRateUL", {}, (.struct 218)⟩,
    ⟨"IEExtensions", { optional := true }, (.ptr (.struct 485))⟩]⟩, -- 486
  ⟨"DownlinkNASTransportIEsValue", [
    ⟨"Present", {}, .int⟩,
    ⟨"AMFUENGAPID", { refValue := some (10) }, (.ptr (.struct 135))⟩,
    ⟨"RANUENGAPID", { refValue := some (85) }, (.ptr (.struct 354))⟩,
    ⟨"OldAMF", { refValue := some (48) }, (.ptr (.struct 2))⟩,
    ⟨"RANPagingPriority", { refValue := some (83) }, (.ptr (.struct 457))⟩,
    ⟨"NASPDU", { refValue := some (38) }, (.ptr (.struct 458))⟩,
    ⟨"MobilityRestrictionList", { valueExt := true, refValue := some (36) }, (.ptr (.struct 481))⟩,
    ⟨"IndexToRFSP", { refValue := some (31) }, (.ptr (.struct 482))⟩,
    ⟨"UEAggregateMaximumBitRate", { valueExt := true, refValue := some (110) }, (.ptr (.struct 486))⟩,
    ⟨"AllowedNSSAI", { refValue := some (0) }, (.ptr (.struct 148))⟩]⟩, -- 487
  ⟨"DownlinkNASTransportIEs", [
    ⟨"Id", {}, (.struct 0)⟩,
    ⟨"Criticality", {}, (.struct 1)⟩,
    ⟨"Value", { openType := true, refField := "Id" }, (.struct 487)⟩]⟩, -- 488
  ⟨"ProtocolIEContainerDownlinkNASTransportIEs", [
    ⟨"List", { sizeLB := some (0), sizeUB := some (65535) }, (.slice (.struct 488))⟩]⟩, -- 489
  ⟨"DownlinkNASTransport", [
    ⟨"ProtocolIEs", {}, (.struct 489)⟩]⟩, -- 490
  ⟨"RoutingID", [
    ⟨"Value", {}, .octs⟩]⟩, -- 491
  ⟨"NRPPaPDU", [
    ⟨"Value", {}, .octs⟩]⟩, -- 492
  ⟨"DownlinkNonUEAssociatedNRPPaTransportIEsValue", [
    ⟨"Present", {}, .int⟩,
    ⟨"RoutingID", { refValue := some (89) }, (.ptr (.struct 491))⟩,
    ⟨"NRPPaPDU", { refValue := some (46) }, (.ptr (.struct 492))⟩]⟩, -- 493
  ⟨"DownlinkNonUEAssociatedNRPPaTransportIEs", [
    ⟨"Id", {}, (.struct 0)⟩,
    ⟨"Criticality", {}, (.struct 1)⟩,
    ⟨"Value", { openType := true, refField := "Id" }, (.struct 493)⟩]⟩, -- 494
  ⟨"ProtocolIEContainerDownlinkNonUEAssociatedNRPPaTransportIEs", [
    ⟨"List", { sizeLB := some (0), sizeUB := some (65535) }, (.slice (.struct 494))⟩]⟩, -- 495
  ⟨"DownlinkNonUEAssociatedNRPPaTransport", [
    ⟨"ProtocolIEs", {}, (.struct 495)⟩]⟩, -- 496
  ⟨"TargetRANNodeIDExtIEsExtensionValue", [
    ⟨"Present", {}, .int⟩]⟩, -- 497
  ⟨"TargetRANNodeIDExtIEs", [
    ⟨"Id", {}, (.struct 7)⟩,
    ⟨"Criticality", {}, (.struct 1)⟩,
    ⟨"ExtensionValue", { openType := true, refField := "Id" }, (.struct 497)⟩]⟩, -- 498
  ⟨"ProtocolExtensionContainerTargetRANNodeIDExtIEs", [
    ⟨"List", { sizeLB := some (1), sizeUB := some (65535) }, (.slice (.struct 498))⟩]⟩ -- 499
]

end Stgutg.Spec.Ts38413Schema
