-- TS 38.413 (v15) abstract syntax of NGAP as a PER-visible schema: a frozen transcription, see Spec/Ts38413Schema.lean for its provenance.
import Stgutg.Model.AperTypes
namespace Stgutg.Spec.Ts38413Schema
open Stgutg.Aper

def schema10 : List StructDef := [
  ⟨"PrivateIEID", [
    ⟨"Present", {}, .int⟩,
    ⟨"Local", { valueLB := some (0), valueUB := some (65535) }, (.ptr .int)⟩,
    ⟨"Global", {}, (.ptr .oid)⟩]⟩, -- 1000
  ⟨"PrivateMessageIEsValue", [
    ⟨"Present", {}, .int⟩]⟩, -- 1001
  ⟨"PrivateMessageIEs", [
    ⟨"Id", {}, (.struct 1000)⟩,
    ⟨"Criticality", {}, (.struct 1)⟩,
    ⟨"Value", { openType := true, refField := "Id" }, (.struct 1001)⟩]⟩, -- 1002
  ⟨"PrivateIEContainerPrivateMessageIEs", [
    ⟨"List", { sizeLB := some (1), sizeUB := some (65535) }, (.slice (.struct 1002))⟩]⟩, -- 1003
  ⟨"PrivateMessage", [
    ⟨"PrivateIEs", {}, (.struct 1003)⟩]⟩, -- 1004
  ⟨"ProtocolIESingleContainerPWSFailedCellIDListExtIEs", []⟩, -- 1005
  ⟨"PWSFailedCellIDList", [
    ⟨"Present", {}, .int⟩,
    ⟨"EUTRACGIPWSFailedList", {}, (.ptr (.struct 347))⟩,
    ⟨"NRCGIPWSFailedList", {}, (.ptr (.struct 348))⟩,
    ⟨"ChoiceExtensions", {}, (.ptr (.struct 1005))⟩]⟩, -- 1006
  ⟨"PWSFailureIndicationIEsValue", [
    ⟨"Present", {}, .int⟩,
    ⟨"PWSFailedCellIDList", { valueLB := some (0), valueUB := some (2), refValue := some (81) }, (.ptr (.struct 1006))⟩,
    ⟨"GlobalRANNodeID", { valueLB := some (0), valueUB := some (3), refValue := some (27) }, (.ptr (.struct 115))⟩]⟩, -- 1007
  ⟨"PWSFailureIndicationIEs", [
    ⟨"Id", {}, (.struct 0)⟩,
    ⟨"Criticality", {}, (.struct 1)⟩,
    ⟨"Value", { openType := true, refField := "Id" }, (.struct 1007)⟩]⟩, -- 1008
  ⟨"ProtocolIEContainerPWSFailureIndicationIEs", [
    ⟨"List", { sizeLB := some (0), sizeUB := some (65535) }, (.slice (.struct 1008))⟩]⟩, -- 1009
  ⟨"PWSFailureIndication", [
    ⟨"ProtocolIEs", {}, (.struct 1009)⟩]⟩, -- 1010
  ⟨"TAIListForRestart", [
    ⟨"List", { valueExt := true, sizeLB := some (1), sizeUB := some (2048) }, (.slice (.struct 120))⟩]⟩, -- 1011
  ⟨"PWSRestartIndicationIEsValue", [
    ⟨"Present", {}, .int⟩,
    ⟨"CellIDListForRestart", { valueLB := some (0), valueUB := some (2), refValue := some (16) }, (.ptr (.struct 350))⟩,
    ⟨"GlobalRANNodeID", { valueLB := some (0), valueUB := some (3), refValue := some (27) }, (.ptr (.struct 115))⟩,
    ⟨"TAIListForRestart", { refValue := some (104) }, (.ptr (.struct 1011))⟩,
    ⟨"EmergencyAreaIDListForRestart", { refValue := some (23) }, (.ptr (.struct 570))⟩]⟩, -- 1012
  ⟨"PWSRestartIndicationIEs", [
    ⟨"Id", {}, (.struct 0)⟩,
    ⟨"Criticality", {}, (.struct 1)⟩,
    ⟨"Value", { openType := true, refField := "Id" }, (.struct 1012)⟩]⟩, -- 1013
  ⟨"ProtocolIEContainerPWSRestartIndicationIEs", [
    ⟨"List", { sizeLB := some (0), sizeUB := some (65535) }, (.slice (.struct 1013))⟩]⟩, -- 1014
  ⟨"PWSRestartIndication", [
    ⟨"ProtocolIEs", {}, (.struct 1014)⟩]⟩, -- 1015
  ⟨"RerouteNASRequestIEsValue", [
    ⟨"Present", {}, .int⟩,
    ⟨"RANUENGAPID", { refValue := some (85) }, (.ptr (.struct 354))⟩,
    ⟨"AMFUENGAPID", { refValue := some (10) }, (.ptr (.struct 135))⟩,
    ⟨"NGAPMessage", { refValue := some (42) }, (.ptr .octs)⟩,
    ⟨"AMFSetID", { refValue := some (3) }, (.ptr (.struct 5))⟩,
    ⟨"AllowedNSSAI", { refValue := some (0) }, (.ptr (.struct 148))⟩]⟩, -- 1016
  ⟨"RerouteNASRequestIEs", [
    ⟨"Id", {}, (.struct 0)⟩,
    ⟨"Criticality", {}, (.struct 1)⟩,
    ⟨"Value", { openType := true, refField := "Id" }, (.struct 1016)⟩]⟩, -- 1017
  ⟨"ProtocolIEContainerRerouteNASRequestIEs", [
    ⟨"List", { sizeLB := some (0), sizeUB := some (65535) }, (.slice (.struct 1017))⟩]⟩, -- 1018
  ⟨"RerouteNASRequest", [
    ⟨"ProtocolIEs", {}, (.struct 1018)⟩]⟩, -- 1019
  ⟨"RRCState", [
    ⟨"Value", { valueExt := true, valueLB := some (0), valueUB := some (1) }, .enum⟩]⟩, -- 1020
  ⟨"RRCInactiveTransitionReportIEsValue", [
    ⟨"Present", {}, .int⟩,
    ⟨"AMFUENGAPID", { refValue := some (10) }, (.ptr (.struct 135))⟩,
    ⟨"RANUENGAPID", { refValue := some (85) }, (.ptr (.struct 354))⟩,
    ⟨"RRCState", { refValue := some (92) }, (.ptr (.struct 1020))⟩,
    ⟨"UserLocationInformation", { valueLB := some (0), valueUB := some (3), refValue := some (121) }, (.ptr (.struct 651))⟩]⟩, -- 1021
  ⟨"RRCInactiveTransitionReportIEs", [
    ⟨"Id", {}, (.struct 0)⟩,
    ⟨"Criticality", {}, (.struct 1)⟩,
    ⟨"Value", { openType := true, refField := "Id" }, (.struct 1021)⟩]⟩, -- 1022
  ⟨"ProtocolIEContainerRRCInactiveTransitionReportIEs", [
    ⟨"List", { sizeLB := some (0), sizeUB := some (65535) }, (.slice (.struct 1022))⟩]⟩, -- 1023
  ⟨"RRCInactiveTransitionReport", [
    ⟨"ProtocolIEs", {}, (.struct 1023)⟩]⟩, -- 1024
  ⟨"TraceFailureIndicationIEsValue", [
    ⟨"Present", {}, .int⟩,
    ⟨"AMFUENGAPID", { refValue := some (10) }, (.ptr (.struct 135))⟩,
    ⟨"RANUENGAPID", { refValue := some (85) }, (.ptr (.struct 354))⟩,
    ⟨"NGRANTraceID", { refValue := some (44) }, (.ptr (.struct 355))⟩,
    ⟨"Cause", { valueLB := some (0), valueUB := some (5), refValue := some (15) }, (.ptr (.struct 69))⟩]⟩, -- 1025
  ⟨"TraceFailureIndicationIEs", [
    ⟨"Id", {}, (.struct 0)⟩,
    ⟨"Criticality", {}, (.struct 1)⟩,
    ⟨"Value", { openType := true, refField := "Id" }, (.struct 1025)⟩]⟩, -- 1026
  ⟨"ProtocolIEContainerTraceFailureIndicationIEs", [
    ⟨"List", { sizeLB := some (0), sizeUB := some (65535) }, (.slice (.struct 1026))⟩]⟩, -- 1027
  ⟨"TraceFailureIndication", [
    ⟨"ProtocolIEs", {}, (.struct 1027)⟩]⟩, -- 1028
  ⟨"TraceStartIEsValue", [
    ⟨"Present", {}, .int⟩,
    ⟨"AMFUENGAPID", { refValue := some (10) }, (.ptr (.struct 135))⟩,
    ⟨"RANUENGAPID", { refValue := some (85) }, (.ptr (.struct 354))⟩,
    ⟨"TraceActivation", { valueExt := true, refValue := some (108) }, (.ptr (.struct 687))⟩]⟩, -- 1029
  ⟨"TraceStartIEs", [
    ⟨"Id", {}, (.struct 0)⟩,
    ⟨"Criticality", {}, (.struct 1)⟩,
    ⟨"Value", { openType := true, refField := "Id" }, (.struct 1029)⟩]⟩, -- 1030
  ⟨"ProtocolIEContainerTraceStartIEs", [
    ⟨"List", { sizeLB := some (0), sizeUB := some (65535) }, (.slice (.struct 1030))⟩]⟩, -- 1031
  ⟨"TraceStart", [
    ⟨"ProtocolIEs", {}, (.struct 1031)⟩]⟩, -- 1032
  ⟨"PDUSessionResourceItemCxtRelReqExtIEsExtensionValue", [
    ⟨"Present", {}, .int⟩]⟩, -- 1033
  ⟨"PDUSessionResourceItemCxtRelReqExtIEs", [
    ⟨"Id", {}, (.struct 7)⟩,
    ⟨"Criticality", {}, (.struct 1)⟩,
    ⟨"ExtensionValue", { openType := true, refField := "Id" }, (.struct 1033)⟩]⟩, -- 1034
  ⟨"ProtocolExtensionContainerPDUSessionResourceItemCxtRelReqExtIEs", [
    ⟨"List", { sizeLB := some (1), sizeUB := some (65535) }, (.slice (.struct 1034))⟩]⟩, -- 1035
  ⟨"PDUSessionResourceItemCxtRelReq", [
    ⟨"PDUSessionID", {}, (.struct 607)⟩,
    ⟨"IEExtensions", { optional := true }, (.ptr (.struct 1035))⟩]⟩, -- 1036
  ⟨"PDUSessionResourceListCxtRelReq", [
    ⟨"List", { valueExt := true, sizeLB := some (1), sizeUB := some (256) }, (.slice (.struct 1036))⟩]⟩, -- 1037
  ⟨"UEContextReleaseRequestIEsValue", [
    ⟨"Present", {}, .int⟩,
    ⟨"AMFUENGAPID", { refValue := some (10) }, (.ptr (.struct 135))⟩,
    ⟨"RANUENGAPID", { refValue := some (85) }, (.ptr (.struct 354))⟩,
    ⟨"PDUSessionResourceListCxtRelReq", { refValue := some (133) }, (.ptr (.struct 1037))⟩,
    ⟨"Cause", { valueLB := some (0), valueUB := some (5), refValue := some (15) }, (.ptr (.struct 69))⟩]⟩, -- 1038
  ⟨"UEContextReleaseRequestIEs", [
    ⟨"Id", {}, (.struct 0)⟩,
    ⟨"Criticality", {}, (.struct 1)⟩,
    ⟨"Value", { openType := true, refField := "Id" }, (.struct 1038)⟩]⟩, -- 1039
  ⟨"ProtocolIEContainerUEContextReleaseRequestIEs", [
    ⟨"List", { sizeLB := some (0), sizeUB := some (65535) }, (.slice (.struct 1039))⟩]⟩, -- 1040
  ⟨"UEContextReleaseRequest", [
    ⟨"ProtocolIEs", {}, (.struct 1040)⟩]⟩, -- 1041
  ⟨"UERadioCapabilityInfoIndicationIEsValue", [
    ⟨"Present", {}, .int⟩,
    ⟨"AMFUENGAPID", { refValue := some (10) }, (.ptr (.struct 135))⟩,
    ⟨"RANUENGAPID", { refValue := some (85) }, (.ptr (.struct 354))⟩,
    ⟨"UERadioCapability", { refValue := some (117) }, (.ptr (.struct 784))⟩,
    ⟨"UERadioCapabilityForPaging", { valueExt := true, refValue := some (118) }, (.ptr (.struct 790))⟩]⟩, -- 1042
  ⟨"UERadioCapabilityInfoIndicationIEs", [
    ⟨"Id", {}, (.struct 0)⟩,
    ⟨"Criticality", {}, (.struct 1)⟩,
    ⟨"Value", { openType := true, refField := "Id" }, (.struct 1042)⟩]⟩, -- 1043
  ⟨"ProtocolIEContainerUERadioCapabilityInfoIndicationIEs", [
    ⟨"List", { sizeLB := some (0), sizeUB := some (65535) }, (.slice (.struct 1043))⟩]⟩, -- 1044
  ⟨"UERadioCapabilityInfoIndication", [
    ⟨"ProtocolIEs", {}, (.struct 1044)⟩]⟩, -- 1045
  ⟨"UETNLABindingReleaseRequestIEsValue", [
    ⟨"Present", {}, .int⟩,
    ⟨"AMFUENGAPID", { refValue := some (10) }, (.ptr (.struct 135))⟩,
    ⟨"RANUENGAPID", { refValue := some (85) }, (.ptr (.struct 354))⟩]⟩, -- 1046
  ⟨"UETNLABindingReleaseRequestIEs", [
    ⟨"Id", {}, (.struct 0)⟩,
    ⟨"Criticality", {}, (.struct 1)⟩,
    ⟨"Value", { openType := true, refField := "Id" }, (.struct 1046)⟩]⟩, -- 1047
  ⟨"ProtocolIEContainerUETNLABindingReleaseRequestIEs", [
    ⟨"List", { sizeLB := some (0), sizeUB := some (65535) }, (.slice (.struct 1047))⟩]⟩, -- 1048
  ⟨"UETNLABindingReleaseRequest", [
    ⟨"ProtocolIEs", {}, (.struct 1048)⟩]⟩, -- 1049
  ⟨"UplinkNASTransportIEsValue", [
    ⟨"Present", {}, .int⟩,
    ⟨"AMFUENGAPID", { refValue := some (10) }, (.ptr (.struct 135))⟩,
    ⟨"RANUENGAPID", { refValue := some (85) }, (.ptr (.struct 354))⟩,
    ⟨"NASPDU", { refValue := some (38) }, (.ptr (.struct 458))⟩,
    ⟨"UserLocationInformation", { valueLB := some (0), valueUB := some (3), refValue := some (121) }, (.ptr (.struct 651))⟩]⟩, -- 1050
  ⟨"UplinkNASTransportIEs", [
    ⟨"Id", {}, (.struct 0)⟩,
    ⟨"Criticality", {}, (.struct 1)⟩,
    ⟨"Value", { openType := true, refField := "Id" }, (.struct 1050)⟩]⟩, -- 1051
  ⟨"ProtocolIEContainerUplinkNASTransportIEs", [
    ⟨"List", { sizeLB := some (0), sizeUB := some (65535) }, (.slice (.struct 1051))⟩]⟩, -- 1052
  ⟨"UplinkNASTransport", [
    ⟨"ProtocolIEs", {}, (.struct 1052)⟩]⟩, -- 1053
  ⟨"UplinkNonUEAssociatedNRPPaTransportIEsValue", [
    ⟨"Present", {}, .int⟩,
    ⟨"RoutingID", { refValue := some (89) }, (.ptr (.struct 491))⟩,
    ⟨"NRPPaPDU", { refValue := some (46) }, (.ptr (.struct 492))⟩]⟩, -- 1054
  ⟨"UplinkNonUEAssociatedNRPPaTransportIEs", [
    ⟨"Id", {}, (.struct 0)⟩,
    ⟨"Criticality", {}, (.struct 1)⟩,
    ⟨"Value", { openType := true, refField := "Id" }, (.struct 1054)⟩]⟩, -- 1055
  ⟨"ProtocolIEContainerUplinkNonUEAssociatedNRPPaTransportIEs", [
    ⟨"List", { sizeLB := some (0), sizeUB := some (65535) }, (.slice (.struct 1055))⟩]⟩, -- 1056
  ⟨"UplinkNonUEAssociatedNRPPaTransport", [
    ⟨"ProtocolIEs", {}, (.struct 1056)⟩]⟩, -- 1057
  ⟨"UplinkRANConfigurationTransferIEsValue", [
    ⟨"Present", {}, .int⟩,
    ⟨"SONConfigurationTransferUL", { valueExt := true, refValue := some (99) }, (.ptr (.struct 526))⟩]⟩, -- 1058
  ⟨"UplinkRANConfigurationTransferIEs", [
    ⟨"Id", {}, (.struct 0)⟩,
    ⟨"Criticality", {}, (.struct 1)⟩,
    ⟨"Value", { openType := true, refField := "Id" }, (.struct 1058)⟩]⟩, -- 1059
  ⟨"ProtocolIEContainerUplinkRANConfigurationTransferIEs", [
    ⟨"List", { sizeLB := some (0), sizeUB := some (65535) }, (.slice (.struct 1059))⟩]⟩, -- 1060
  ⟨"UplinkRANConfigurationTransfer", [
    ⟨"ProtocolIEs", {}, (.struct 1060)⟩]⟩, -- 1061
  ⟨"UplinkRANStatusTransferIEsValue", [
    ⟨"Present", {}, .int⟩,
    ⟨"AMFUENGAPID", { refValue := some (10) }, (.ptr (.struct 135))⟩,
    ⟨"RANUENGAPID", { refValue := some (85) }, (.ptr (.struct 354))⟩,
    ⟨"RANStatusTransferTransparentContainer", { valueExt := true, refValue := some (84) }, (.ptr (.struct 534))⟩]⟩, -- 1062
  ⟨"UplinkRANStatusTransferIEs", [
    ⟨"Id", {}, (.struct 0)⟩,
    ⟨"Criticality", {}, (.struct 1)⟩,
    ⟨"Value", { openType := true, refField := "Id" }, (.struct 1062)⟩]⟩, -- 1063
  ⟨"ProtocolIEContainerUplinkRANStatusTransferIEs", [
    ⟨"List", { sizeLB := some (0), sizeUB := some (65535) }, (.slice (.struct 1063))⟩]⟩, -- 1064
  ⟨"UplinkRANStatusTransfer", [
    ⟨"ProtocolIEs", {}, (.struct 1064)⟩]⟩, -- 1065
  ⟨"UplinkUEAssociatedNRPPaTransportIEsValue", [
    ⟨"Present", {}, .int⟩,
    ⟨"AMFUENGAPID", { refValue := some (10) }, (.ptr (.struct 135))⟩,
    ⟨"RANUENGAPID", { refValue := some (85) }, (.ptr (.struct 354))⟩,
    ⟨"RoutingID", { refValue := some (89) }, (.ptr (.struct 491))⟩,
    ⟨"NRPPaPDU", { refValue := some (46) }, (.ptr (.struct 492))⟩]⟩, -- 1066
  ⟨"UplinkUEAssociatedNRPPaTransportIEs", [
    ⟨"Id", {}, (.struct 0)⟩,
    ⟨"Criticality", {}, (.struct 1)⟩,
    ⟨"Value", { openType := true, refField := "Id" }, (.struct 1066)⟩]⟩, -- 1067
  ⟨"ProtocolIEContainerUplinkUEAssociatedNRPPaTransportIEs", [
    ⟨"List", { sizeLB := some (0), sizeUB := some (65535) }, (.slice (.struct 1067))⟩]⟩, -- 1068
  ⟨"UplinkUEAssociatedNRPPaTransport", [
    ⟨"ProtocolIEs", {}, (.struct 1068)⟩]⟩, -- 1069
  ⟨"InitiatingMessageValue", [
    ⟨"Present", {}, .int⟩,
    ⟨"AMFConfigurationUpdate", { valueExt := true, refValue := some (0) }, (.ptr (.struct 57))⟩,
    ⟨"HandoverCancel", { valueExt := true, refValue := some (10) }, (.ptr (.struct 600))⟩,
    ⟨"HandoverRequired", { valueExt := true, refValue := some (12) }, (.ptr (.struct 747))⟩,
    ⟨"HandoverRequest", { valueExt := true, refValue := some (13) }, (.ptr (.struct 699))⟩,
    ⟨"InitialContextSetupRequest", { valueExt := true, refValue := some (14) }, (.ptr (.struct 794))⟩,
    ⟨"NGReset", { valueExt := true, refValue := some (20) }, (.ptr (.struct 826))⟩,
    ⟨"NGSetupRequest", { valueExt := true, refValue := some (21) }, (.ptr (.struct 836))⟩,
    ⟨"PathSwitchRequest", { valueExt := true, refValue := some (25) }, (.ptr (.struct 850))⟩,
    ⟨"PDUSessionResourceModifyRequest", { valueExt := true, refValue := some (26) }, (.ptr (.struct 859))⟩,
    ⟨"PDUSessionResourceModifyIndication", { valueExt := true, refValue := some (27) }, (.ptr (.struct 868))⟩,
    ⟨"PDUSessionResourceReleaseCommand", { valueExt := true, refValue := some (28) }, (.ptr (.struct 877))⟩,
    ⟨"PDUSessionResourceSetupRequest", { valueExt := true, refValue := some (29) }, (.ptr (.struct 886))⟩,
    ⟨"PWSCancelRequest", { valueExt := true, refValue := some (32) }, (.ptr (.struct 896))⟩,
    ⟨"RANConfigurationUpdate", { valueExt := true, refValue := some (35) }, (.ptr (.struct 900))⟩,
    ⟨"UEContextModificationRequest", { valueExt := true, refValue := some (40) }, (.ptr (.struct 904))⟩,
    ⟨"UEContextReleaseCommand", { valueExt := true, refValue := some (41) }, (.ptr (.struct 914))⟩,
    ⟨"UERadioCapabilityCheckRequest", { valueExt := true, refValue := some (43) }, (.ptr (.struct 918))⟩,
    ⟨"WriteReplaceWarningRequest", { valueExt := true, refValue := some (51) }, (.ptr (.struct 928))⟩,
    ⟨"AMFStatusIndication", { valueExt := true, refValue := some (1) }, (.ptr (.struct 134))⟩,
    ⟨"CellTrafficTrace", { valueExt := true, refValue := some (2) }, (.ptr (.struct 359))⟩,
    ⟨"DeactivateTrace", { valueExt := true, refValue := some (3) }, (.ptr (.struct 454))⟩,
    ⟨"DownlinkNASTransport", { valueExt := true, refValue := some (4) }, (.ptr (.struct 490))⟩,
    ⟨"DownlinkNonUEAssociatedNRPPaTransport", { valueExt := true, refValue := some (5) }, (.ptr (.struct 496))⟩,
    ⟨"DownlinkRANConfigurationTransfer", { valueExt := true, refValue := some (6) }, (.ptr (.struct 530))⟩,
    ⟨"DownlinkRANStatusTransfer", { valueExt := true, refValue := some (7) }, (.ptr (.struct 538))⟩,
    ⟨"DownlinkUEAssociatedNRPPaTransport", { valueExt := true, refValue := some (8) }, (.ptr (.struct 542))⟩,
    ⟨"ErrorIndication", { valueExt := true, refValue := some (9) }, (.ptr (.struct 580))⟩,
    ⟨"HandoverNotify", { valueExt := true, refValue := some (11) }, (.ptr (.struct 655))⟩,
    ⟨"InitialUEMessage", { valueExt := true, refValue := some (15) }, (.ptr (.struct 814))⟩,
    ⟨"LocationReport", { valueExt := true, refValue := some (18) }, (.ptr (.struct 938))⟩,
    ⟨"LocationReportingControl", { valueExt := true, refValue := some (16) }, (.ptr (.struct 942))⟩,
    ⟨"LocationReportingFailureIndication", { valueExt := true, refValue := some (17) }, (.ptr (.struct 946))⟩,
    ⟨"NASNonDeliveryIndication", { valueExt := true, refValue := some (19) }, (.ptr (.struct 950))⟩,
    ⟨"OverloadStart", { valueExt := true, refValue := some (22) }, (.ptr (.struct 968))⟩,
    ⟨"OverloadStop", { valueExt := true, refValue := some (23) }, (.ptr (.struct 972))⟩,
    ⟨"Paging", { valueExt := true, refValue := some (24) }, (.ptr (.struct 985))⟩,
    ⟨"PDUSessionResourceNotify", { valueExt := true, refValue := some (30) }, (.ptr (.struct 999))⟩,
    ⟨"PrivateMessage", { valueExt := true, refValue := some (31) }, (.ptr (.struct 1004))⟩,
    ⟨"PWSFailureIndication", { valueExt := true, refValue := some (33) }, (.ptr (.struct 1010))⟩,
    ⟨"PWSRestartIndication", { valueExt := true, refValue := some (34) }, (.ptr (.struct 1015))⟩,
    ⟨"RerouteNASRequest", { valueExt := true, refValue := some (36) }, (.ptr (.struct 1019))⟩,
    ⟨"RRCInactiveTransitionReport", { valueExt := true, refValue := some (37) }, (.ptr (.struct 1024))⟩,
    ⟨"TraceFailureIndication", { valueExt := true, refValue := some (38) }, (.ptr (.struct 1028))⟩,
    ⟨"TraceStart", { valueExt := true, refValue := some (39) }, (.ptr (.struct 1032))⟩,
    ⟨"UEContextReleaseRequest", { valueExt := true, refValue := some (42) }, (.ptr (.struct 1041))⟩,
    ⟨"UERadioCapabilityInfoIndication", { valueExt := true, refValue := some (44) }, (.ptr (.struct 1045))⟩,
    ⟨"UETNLABindingReleaseRequest", { valueExt := true, refValue := some (45) }, (.ptr (.struct 1049))⟩,
    ⟨"UplinkNASTransport", { valueExt := true, refValue := some (46) }, (.ptr (.struct 1053))⟩,
    ⟨"UplinkNonUEAssociatedNRPPaTransport", { valueExt := true, refValue := some (47) }, (.ptr (.struct 1057))⟩,
    ⟨"UplinkRANConfigurationTransfer", { valueExt := true, refValue := some (48) }, (.ptr (.struct 1061))⟩,
    ⟨"UplinkRANStatusTransfer", { valueExt := true, refValue := some (49) }, (.ptr (.struct 1065))⟩,
    ⟨"UplinkUEAssociatedNRPPaTransport", { valueExt := true, refValue := some (50) }, (.ptr (.struct 1069))⟩]⟩, -- 1070
  ⟨"InitiatingMessage", [
    ⟨"ProcedureCode", {}, (.struct 75)⟩,
    ⟨"Criticality", {}, (.struct 1)⟩,
    ⟨"Value", { openType := true, refField := "ProcedureCode" }, (.struct 1070)⟩]⟩, -- 1071
  ⟨"IntegrityProtectionIndication", [
    ⟨"Value", { valueExt := true, valueLB := some (0), valueUB := some (2) }, .enum⟩]⟩, -- 1072
  ⟨"TimeUEStayedInCell", [
    ⟨"Value", { valueLB := some (0), valueUB := some (4095) }, .int⟩]⟩, -- 1073
  ⟨"TimeUEStayedInCellEnhancedGranularity", [
    ⟨"Value", { valueLB := some (0), valueUB := some (40950) }, .int⟩]⟩, -- 1074
  ⟨"LastVisitedNGRANCellInformationExtIEsExtensionValue", [
    ⟨"Present", {}, .int⟩]⟩, -- 1075
  ⟨"LastVisitedNGRANCellInformationExtIEs", [
    ⟨"Id", {}, (.struct 7)⟩,
    ⟨"Criticality", {}, (.struct 1)⟩,
    ⟨"ExtensionValue", { openType := true, refField := "Id" }, (.struct 1075)⟩]⟩, -- 1076
  ⟨"ProtocolExtensionContainerLastVisitedNGRANCellInformationExtIEs", [
    ⟨"List", { sizeLB := some (1), sizeUB := some (65535) }, (.slice (.struct 1076))⟩]⟩, -- 1077
  ⟨"LastVisitedNGRANCellInformation", [
    ⟨"GlobalCellID", { valueLB := some (0), valueUB := some (2) }, (.struct 166)⟩,
    ⟨"CellType", { valueExt := true }, (.struct 363)⟩,
    ⟨"TimeUEStayedInCell", {}, (.struct 1073)⟩,
    ⟨"TimeUEStayedInCellEnhancedGranularity", { optional := true }, (.ptr (.struct 1074))⟩,
    ⟨"HOCauseValue", { optional := true, valueLB := some (0), valueUB := some (5) }, (.ptr (.struct 69))⟩,
    ⟨"IEExtensions", { optional := true }, (.ptr (.struct 1077))⟩]⟩, -- 1078
  ⟨"LastVisitedEUTRANCellInformation", [
    ⟨"Value", {}, .octs⟩]⟩, -- 1079
  ⟨"LastVisitedUTRANCellInformation", [
    ⟨"Value", {}, .octs⟩]⟩, -- 1080
  ⟨"LastVisitedGERANCellInformation", [
    ⟨"Value", {}, .octs⟩]⟩, -- 1081
  ⟨"ProtocolIESingleContainerLastVisitedCellInformationExtIEs", []⟩, -- 1082
  ⟨"LastVisitedCellInformation", [
    ⟨"Present", {}, .int⟩,
    ⟨"NGRANCell", { valueExt := true }, (.ptr (.struct 1078))⟩,
    ⟨"EUTRANCell", {}, (.ptr (.struct 1079))⟩,
    ⟨"UTRANCell", {}, (.ptr (.struct 1080))⟩,
    ⟨"GERANCell", {}, (.ptr (.struct 1081))⟩,
    ⟨"ChoiceExtensions", {}, (.ptr (.struct 1082))⟩]⟩, -- 1083
  ⟨"LastVisitedCellInformationExtIEsValue", [
    ⟨"Present", {}, .int⟩]⟩, -- 1084
  ⟨"LastVisitedCellInformationExtIEs", [
    ⟨"Id", {}, (.struct 0)⟩,
    ⟨"Criticality", {}, (.struct 1)⟩,
    ⟨"Value", { openType := true, refField := "Id" }, (.struct 1084)⟩]⟩, -- 1085
  ⟨"LastVisitedCellItemExtIEsExtensionValue", [
    ⟨"Present", {}, .int⟩]⟩, -- 1086
  ⟨"LastVisitedCellItemExtIEs", [
    ⟨"Id", {}, (.struct 7)⟩,
    ⟨"Criticality", {}, (.struct 1)⟩,
    ⟨"ExtensionValue", { openType := true, refField := "Id" }, (.struct 1086)⟩]⟩, -- 1087
  ⟨"ProtocolExtensionContainerLastVisitedCellItemExtIEs", [
    ⟨"List", { sizeLB := some (1), sizeUB := some (65535) }, (.slice (.struct 1087))⟩]⟩, -- 1088
  ⟨"LastVisitedCellItem", [
    ⟨"LastVisitedCellInformation", { valueLB := some (0), valueUB := some (4) }, (.struct 1083)⟩,
    ⟨"IEExtensions", { optional := true }, (.ptr (.struct 1088))⟩]⟩, -- 1089
  ⟨"MaximumIntegrityProtectedDataRate", [
    ⟨"Value", { valueExt := true, valueLB := some (0), valueUB := some (1) }, .enum⟩]⟩, -- 1090
  ⟨"QosFlowPerTNLInformationExtIEsExtensionValue", [
    ⟨"Present", {}, .int⟩]⟩, -- 1091
  ⟨"QosFlowPerTNLInformationExtIEs", [
    ⟨"Id", {}, (.struct 7)⟩,
    ⟨"Criticality", {}, (.struct 1)⟩,
    ⟨"ExtensionValue", { openType := true, refField := "Id" }, (.struct 1091)⟩]⟩, -- 1092
  ⟨"ProtocolExtensionContainerQosFlowPerTNLInformationExtIEs", [
    ⟨"List", { sizeLB := some (1), sizeUB := some (65535) }, (.slice (.struct 1092))⟩]⟩, -- 1093
  ⟨"QosFlowPerTNLInformation", [
    ⟨"UPTransportLayerInformation", { valueLB := some (0), valueUB := some (1) }, (.struct 445)⟩,
    ⟨"AssociatedQosFlowList", {}, (.struct 216)⟩,
    ⟨"IEExtensions", { optional := true }, (.ptr (.struct 1093))⟩]⟩, -- 1094
  ⟨"TNLInformationItemExtIEsExtensionValue", [
    ⟨"Present", {}, .int⟩]⟩, -- 1095
  ⟨"TNLInformationItemExtIEs", [
    ⟨"Id", {}, (.struct 7)⟩,
    ⟨"Criticality", {}, (.struct 1)⟩,
    ⟨"ExtensionValue", { openType := true, refField := "Id" }, (.struct 1095)⟩]⟩, -- 1096
  ⟨"ProtocolExtensionContainerTNLInformationItemExtIEs", [
    ⟨"List", { sizeLB := some (1), sizeUB := some (65535) }, (.slice (.struct 1096))⟩]⟩, -- 1097
  ⟨"TNLInformationItem", [
    ⟨"QosFlowPerTNLInformation", { valueExt := true }, (.struct 1094)⟩,
    ⟨"IEExtensions", { optional := true }, (.ptr (.struct 1097))⟩]⟩, -- 1098
  ⟨"TNLInformationList", [
    ⟨"List", { valueExt := true, sizeLB := some (1), sizeUB := some (4) }, (.slice (.struct 1098))⟩]⟩ -- 1099
]

end Stgutg.Spec.Ts38413Schema
