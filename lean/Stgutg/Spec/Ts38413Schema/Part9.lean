-- TS 38.413 (v15) abstract syntax of NGAP as a PER-visible schema: a frozen transcription, see Spec/Ts38413Schema.lean for its provenance.
import Stgutg.Model.AperTypes
namespace Stgutg.Spec.Ts38413Schema
open Stgutg.Aper

def schema9 : List StructDef := [
  ⟨"RANConfigurationUpdate", [
    ⟨"ProtocolIEs", {}, (.struct 899)⟩]⟩, -- 900
  ⟨"UEContextModificationRequestIEsValue", [
    ⟨"Present", {}, .int⟩,
    ⟨"AMFUENGAPID", { refValue := some (10) }, (.ptr (.struct 135))⟩,
    ⟨"RANUENGAPID", { refValue := some (85) }, (.ptr (.struct 354))⟩,
    ⟨"RANPagingPriority", { refValue := some (83) }, (.ptr (.struct 457))⟩,
    ⟨"SecurityKey", { refValue := some (94) }, (.ptr (.struct 671))⟩,
    ⟨"IndexToRFSP", { refValue := some (31) }, (.ptr (.struct 482))⟩,
    ⟨"UEAggregateMaximumBitRate", { valueExt := true, refValue := some (110) }, (.ptr (.struct 486))⟩,
    ⟨"UESecurityCapabilities", { valueExt := true, refValue := some (119) }, (.ptr (.struct 669))⟩,
    ⟨"CoreNetworkAssistanceInformation", { valueExt := true, refValue := some (18) }, (.ptr (.struct 398))⟩,
    ⟨"EmergencyFallbackIndicator", { valueExt := true, refValue := some (24) }, (.ptr (.struct 576))⟩,
    ⟨"NewAMFUENGAPID", { refValue := some (40) }, (.ptr (.struct 135))⟩,
    ⟨"RRCInactiveTransitionReportRequest", { refValue := some (91) }, (.ptr (.struct 695))⟩]⟩, -- 901
  ⟨"UEContextModificationRequestIEs", [
    ⟨"Id", {}, (.struct 0)⟩,
    ⟨"Criticality", {}, (.struct 1)⟩,
    ⟨"Value", { openType := true, refField := "Id" }, (.struct 901)⟩]⟩, -- 902
  ⟨"ProtocolIEContainerUEContextModificationRequestIEs", [
    ⟨"List", { sizeLB := some (0), sizeUB := some (65535) }, (.slice (.struct 902))⟩]⟩, -- 903
  ⟨"UEContextModificationRequest", [
    ⟨"ProtocolIEs", {}, (.struct 903)⟩]⟩, -- 904
  ⟨"UENGAPIDPairExtIEsExtensionValue", [
    ⟨"Present", {}, .int⟩]⟩, -- 905
  ⟨"UENGAPIDPairExtIEs", [
    ⟨"Id", {}, (.struct 7)⟩,
    ⟨"Criticality", {}, (.struct 1)⟩,
    ⟨"ExtensionValue", { openType := true, refField := "Id" }, (.struct 905)⟩]⟩, -- 906
  ⟨"ProtocolExtensionContainerUENGAPIDPairExtIEs", [
    ⟨"List", { sizeLB := some (1), sizeUB := some (65535) }, (.slice (.struct 906))⟩]⟩, -- 907
  ⟨"UENGAPIDPair", [
    ⟨"AMFUENGAPID", {}, (.struct 135)⟩,
    ⟨"RANUENGAPID", {}, (.struct 354)⟩,
    ⟨"IEExtensions", { optional := true }, (.ptr (.struct 907))⟩]⟩, -- 908
  ⟨"ProtocolIESingleContainerUENGAPIDsExtIEs", []⟩, -- 909
  ⟨"UENGAPIDs", [
    ⟨"Present", {}, .int⟩,
    ⟨"UENGAPIDPair", { valueExt := true }, (.ptr (.struct 908))⟩,
    ⟨"AMFUENGAPID", {}, (.ptr (.struct 135))⟩,
    ⟨"ChoiceExtensions", {}, (.ptr (.struct 909))⟩]⟩, -- 910
  ⟨"UEContextReleaseCommandIEsValue", [
    ⟨"Present", {}, .int⟩,
    ⟨"UENGAPIDs", { valueLB := some (0), valueUB := some (2), refValue := some (114) }, (.ptr (.struct 910))⟩,
    ⟨"Cause", { valueLB := some (0), valueUB := some (5), refValue := some (15) }, (.ptr (.struct 69))⟩]⟩, -- 911
  ⟨"UEContextReleaseCommandIEs", [
    ⟨"Id", {}, (.struct 0)⟩,
    ⟨"Criticality", {}, (.struct 1)⟩,
    ⟨"Value", { openType := true, refField := "Id" }, (.struct 911)⟩]⟩, -- 912
  ⟨"ProtocolIEContainerUEContextReleaseCommandIEs", [
    ⟨"List", { sizeLB := some (0), sizeUB := some (65535) }, (.slice (.struct 912))⟩]⟩, -- 913
  ⟨"UEContextReleaseCommand", [
    ⟨"ProtocolIEs", {}, (.struct 913)⟩]⟩, -- 914
  ⟨"UERadioCapabilityCheckRequestIEsValue", [
    ⟨"Present", {}, .int⟩,
    ⟨"AMFUENGAPID", { refValue := some (10) }, (.ptr (.struct 135))⟩,
    ⟨"RANUENGAPID", { refValue := some (85) }, (.ptr (.struct 354))⟩,
    ⟨"UERadioCapability", { refValue := some (117) }, (.ptr (.struct 784))⟩]⟩, -- 915
  ⟨"UERadioCapabilityCheckRequestIEs", [
    ⟨"Id", {}, (.struct 0)⟩,
    ⟨"Criticality", {}, (.struct 1)⟩,
    ⟨"Value", { openType := true, refField := "Id" }, (.struct 915)⟩]⟩, -- 916
  ⟨"ProtocolIEContainerUERadioCapabilityCheckRequestIEs", [
    ⟨"List", { sizeLB := some (0), sizeUB := some (65535) }, (.slice (.struct 916))⟩]⟩, -- 917
  ⟨"UERadioCapabilityCheckRequest", [
    ⟨"ProtocolIEs", {}, (.struct 917)⟩]⟩, -- 918
  ⟨"RepetitionPeriod", [
    ⟨"Value", { valueLB := some (0), valueUB := some (131071) }, .int⟩]⟩, -- 919
  ⟨"NumberOfBroadcastsRequested", [
    ⟨"Value", { valueLB := some (0), valueUB := some (65535) }, .int⟩]⟩, -- 920
  ⟨"WarningType", [
    ⟨"Value", { sizeLB := some (2), sizeUB := some (2) }, .octs⟩]⟩, -- 921
  ⟨"WarningSecurityInfo", [
    ⟨"Value", { sizeLB := some (50), sizeUB := some (50) }, .octs⟩]⟩, -- 922
  ⟨"WarningMessageContents", [
    ⟨"Value", { sizeLB := some (1), sizeUB := some (9600) }, .octs⟩]⟩, -- 923
  ⟨"WarningAreaCoordinates", [
    ⟨"Value", { sizeLB := some (1), sizeUB := some (1024) }, .octs⟩]⟩, -- 924
  ⟨"WriteReplaceWarningRequestIEsValue", [
    ⟨"Present", {}, .int⟩,
    ⟨"MessageIdentifier", { refValue := some (35) }, (.ptr (.struct 887))⟩,
    ⟨"SerialNumber", { refValue := some (95) }, (.ptr (.struct 888))⟩,
    ⟨"WarningAreaList", { valueLB := some (0), valueUB := some (4), refValue := some (122) }, (.ptr (.struct 892))⟩,
    ⟨"RepetitionPeriod", { refValue := some (87) }, (.ptr (.struct 919))⟩,
    ⟨"NumberOfBroadcastsRequested", { refValue := some (47) }, (.ptr (.struct 920))⟩,
    ⟨"WarningType", { refValue := some (125) }, (.ptr (.struct 921))⟩,
    ⟨"WarningSecurityInfo", { refValue := some (124) }, (.ptr (.struct 922))⟩,
    ⟨"DataCodingScheme", { refValue := some (20) }, (.ptr (.struct 436))⟩,
    ⟨"WarningMessageContents", { refValue := some (123) }, (.ptr (.struct 923))⟩,
    ⟨"ConcurrentWarningMessageInd", { refValue := some (17) }, (.ptr (.struct 364))⟩,
    ⟨"WarningAreaCoordinates", { refValue := some (141) }, (.ptr (.struct 924))⟩]⟩, -- 925
  ⟨"WriteReplaceWarningRequestIEs", [
    ⟨"Id", {}, (.struct 0)⟩,
    ⟨"Criticality", {}, (.struct 1)⟩,
    ⟨"Value", { openType := true, refField := "Id" }, (.struct 925)⟩]⟩, -- 926
  ⟨"ProtocolIEContainerWriteReplaceWarningRequestIEs", [
    ⟨"List", { sizeLB := some (0), sizeUB := some (65535) }, (.slice (.struct 926))⟩]⟩, -- 927
  ⟨"WriteReplaceWarningRequest", [
    ⟨"ProtocolIEs", {}, (.struct 927)⟩]⟩, -- 928
  ⟨"UEPresence", [
    ⟨"Value", { valueExt := true, valueLB := some (0), valueUB := some (2) }, .enum⟩]⟩, -- 929
  ⟨"UEPresenceInAreaOfInterestItemExtIEsExtensionValue", [
    ⟨"Present", {}, .int⟩]⟩, -- 930
  ⟨"UEPresenceInAreaOfInterestItemExtIEs", [
    ⟨"Id", {}, (.struct 7)⟩,
    ⟨"Criticality", {}, (.struct 1)⟩,
    ⟨"ExtensionValue", { openType := true, refField := "Id" }, (.struct 930)⟩]⟩, -- 931
  ⟨"ProtocolExtensionContainerUEPresenceInAreaOfInterestItemExtIEs", [
    ⟨"List", { sizeLB := some (1), sizeUB := some (65535) }, (.slice (.struct 931))⟩]⟩, -- 932
  ⟨"UEPresenceInAreaOfInterestItem", [
    ⟨"LocationReportingReferenceID", {}, (.struct 181)⟩,
    ⟨"UEPresence", {}, (.struct 929)⟩,
    ⟨"IEExtensions", { optional := true }, (.ptr (.struct 932))⟩]⟩, -- 933
  ⟨"UEPresenceInAreaOfInterestList", [
    ⟨"List", { valueExt := true, sizeLB := some (1), sizeUB := some (64) }, (.slice (.struct 933))⟩]⟩, -- 934
  ⟨"LocationReportIEsValue", [
    ⟨"Present", {}, .int⟩,
    ⟨"AMFUENGAPID", { refValue := some (10) }, (.ptr (.struct 135))⟩,
    ⟨"RANUENGAPID", { refValue := some (85) }, (.ptr (.struct 354))⟩,
    ⟨"UserLocationInformation", { valueLB := some (0), valueUB := some (3), refValue := some (121) }, (.ptr (.struct 651))⟩,
    ⟨"UEPresenceInAreaOfInterestList", { refValue := some (116) }, (.ptr (.struct 934))⟩,
    ⟨"LocationReportingRequestType", { valueExt := true, refValue := some (33) }, (.ptr (.struct 694))⟩]⟩, -- 935
  ⟨"LocationReportIEs", [
    ⟨"Id", {}, (.struct 0)⟩,
    ⟨"Criticality", {}, (.struct 1)⟩,
    ⟨"Value", { openType := true, refField := "Id" }, (.struct 935)⟩]⟩, -- 936
  ⟨"ProtocolIEContainerLocationReportIEs", [
    ⟨"List", { sizeLB := some (0), sizeUB := some (65535) }, (.slice (.struct 936))⟩]⟩, -- 937
  ⟨"LocationReport", [
    ⟨"ProtocolIEs", {}, (.struct 937)⟩]⟩, -- 938
  ⟨"LocationReportingControlIEsValue", [
    ⟨"Present", {}, .int⟩,
    ⟨"AMFUENGAPID", { refValue := some (10) }, (.ptr (.struct 135))⟩,
    ⟨"RANUENGAPID", { refValue := some (85) }, (.ptr (.struct 354))⟩,
    ⟨"LocationReportingRequestType", { valueExt := true, refValue := some (33) }, (.ptr (.struct 694))⟩]⟩, -- 939
  ⟨"LocationReportingControlIEs", [
    ⟨"Id", {}, (.struct 0)⟩,
    ⟨"Criticality", {}, (.struct 1)⟩,
    ⟨"Value", { openType := true, refField := "Id" }, (.struct 939)⟩]⟩, -- 940
  ⟨"ProtocolIEContainerLocationReportingControlIEs", [
    ⟨"List", { sizeLB := some (0), sizeUB := some (65535) }, (.slice (.struct 940))⟩]⟩, -- 941
  ⟨"LocationReportingControl", [
    ⟨"ProtocolIEs", {}, (.struct 941)⟩]⟩, -- 942
  ⟨"LocationReportingFailureIndicationIEsValue", [
    ⟨"Present", {}, .int⟩,
    ⟨"AMFUENGAPID", { refValue := some (10) }, (.ptr (.struct 135))⟩,
    ⟨"RANUENGAPID", { refValue := some (85) }, (.ptr (.struct 354))⟩,
    ⟨"Cause", { valueLB := some (0), valueUB := some (5), refValue := some (15) }, (.ptr (.struct 69))⟩]⟩, -- 943
  ⟨"LocationReportingFailureIndicationIEs", [
    ⟨"Id", {}, (.struct 0)⟩,
    ⟨"Criticality", {}, (.struct 1)⟩,
    ⟨"Value", { openType := true, refField := "Id" }, (.struct 943)⟩]⟩, -- 944
  ⟨"ProtocolIEContainerLocationReportingFailureIndicationIEs", [
    ⟨"List", { sizeLB := some (0), sizeUB := some (65535) }, (.slice (.struct 944))⟩]⟩, -- 945
  ⟨"LocationReportingFailureIndication", [
    ⟨"ProtocolIEs", {}, (.struct 945)⟩]⟩, -- 946
  ⟨"NASNonDeliveryIndicationIEsValue", [
    ⟨"Present", {}, .int⟩,
    ⟨"AMFUENGAPID", { refValue := some (10) }, (.ptr (.struct 135))⟩,
    ⟨"RANUENGAPID", { refValue := some (85) }, (.ptr (.struct 354))⟩,
    ⟨"NASPDU", { refValue := some (38) }, (.ptr (.struct 458))⟩,
    ⟨"Cause", { valueLB := some (0), valueUB := some (5), refValue := some (15) }, (.ptr (.struct 69))⟩]⟩, -- 947
  ⟨"NASNonDeliveryIndicationIEs", [
    ⟨"Id", {}, (.struct 0)⟩,
    ⟨"Criticality", {}, (.struct 1)⟩,
    ⟨"Value", { openType := true, refField := "Id" }, (.struct 947)⟩]⟩, -- 948
  ⟨"ProtocolIEContainerNASNonDeliveryIndicationIEs", [
    ⟨"List", { sizeLB := some (0), sizeUB := some (65535) }, (.slice (.struct 948))⟩]⟩, -- 949
  ⟨"NASNonDeliveryIndication", [
    ⟨"ProtocolIEs", {}, (.struct 949)⟩]⟩, -- 950
  ⟨"OverloadAction", [
    ⟨"Value", { valueExt := true, valueLB := some (0), valueUB := some (3) }, .enum⟩]⟩, -- 951
  ⟨"ProtocolIESingleContainerOverloadResponseExtIEs", []⟩, -- 952
  ⟨"OverloadResponse", [
    ⟨"Present", {}, .int⟩,
    ⟨"OverloadAction", {}, (.ptr (.struct 951))⟩,
    ⟨"ChoiceExtensions", {}, (.ptr (.struct 952))⟩]⟩, -- 953
  ⟨"TrafficLoadReductionIndication", [
    ⟨"Value", { valueLB := some (1), valueUB := some (99) }, .int⟩]⟩, -- 954
  ⟨"SliceOverloadItemExtIEsExtensionValue", [
    ⟨"Present", {}, .int⟩]⟩, -- 955
  ⟨"SliceOverloadItemExtIEs", [
    ⟨"Id", {}, (.struct 7)⟩,
    ⟨"Criticality", {}, (.struct 1)⟩,
    ⟨"ExtensionValue", { openType := true, refField := "Id" }, (.struct 955)⟩]⟩, -- 956
  ⟨"ProtocolExtensionContainerSliceOverloadItemExtIEs", [
    ⟨"List", { sizeLB := some (1), sizeUB := some (65535) }, (.slice (.struct 956))⟩]⟩, -- 957
  ⟨"SliceOverloadItem", [
    ⟨"SNSSAI", { valueExt := true }, (.struct 23)⟩,
    ⟨"IEExtensions", { optional := true }, (.ptr (.struct 957))⟩]⟩, -- 958
  ⟨"SliceOverloadList", [
    ⟨"List", { valueExt := true, sizeLB := some (1), sizeUB := some (1024) }, (.slice (.struct 958))⟩]⟩, -- 959
  ⟨"OverloadStartNSSAIItemExtIEsExtensionValue", [
    ⟨"Present", {}, .int⟩]⟩, -- 960
  ⟨"OverloadStartNSSAIItemExtIEs", [
    ⟨"Id", {}, (.struct 7)⟩,
    ⟨"Criticality", {}, (.struct 1)⟩,
    ⟨"ExtensionValue", { openType := true, refField := "Id" }, (.struct 960)⟩]⟩, -- 961
  ⟨"ProtocolExtensionContainerOverloadStartNSSAIItemExtIEs", [
    ⟨"List", { sizeLB := some (1), sizeUB := some (65535) }, (.slice (.struct 961))⟩]⟩, -- 962
  ⟨"OverloadStartNSSAIItem", [
    ⟨"SliceOverloadList", {}, (.struct 959)⟩,
    ⟨"SliceOverloadResponse", { optional := true, valueLB := some (0), valueUB := some (1) }, (.ptr (.struct 953))⟩,
    ⟨"SliceTrafficLoadReductionIndication", { optional := true }, (.ptr (.struct 954))⟩,
    ⟨"IEExtensions", { optional := true }, (.ptr (.struct 962))⟩]⟩, -- 963
  ⟨"OverloadStartNSSAIList", [
    ⟨"List", { valueExt := true, sizeLB := some (1), sizeUB := some (1024) }, (.slice (.struct 963))⟩]⟩, -- 964
  ⟨"OverloadStartIEsValue", [
    ⟨"Present", {}, .int⟩,
    ⟨"AMFOverloadResponse", { valueLB := some (0), valueUB := some (1), refValue := some (2) }, (.ptr (.struct 953))⟩,
    ⟨"AMFTrafficLoadReductionIndication", { refValue := some (9) }, (.ptr (.struct 954))⟩,
    ⟨"OverloadStartNSSAIList", { refValue := some (49) }, (.ptr (.struct 964))⟩]⟩, -- 965
  ⟨"OverloadStartIEs", [
    ⟨"Id", {}, (.struct 0)⟩,
    ⟨"Criticality", {}, (.struct 1)⟩,
    ⟨"Value", { openType := true, refField := "Id" }, (.struct 965)⟩]⟩, -- 966
  ⟨"ProtocolIEContainerOverloadStartIEs", [
    ⟨"List", { sizeLB := some (0), sizeUB := some (65535) }, (.slice (.struct 966))⟩]⟩, -- 967
  ⟨"OverloadStart", [
    ⟨"ProtocolIEs", {}, (.struct 967)⟩]⟩, -- 968
  ⟨"OverloadStopIEsValue", [
    ⟨"Present", {}, .int⟩]⟩, -- 969
  ⟨"OverloadStopIEs", [
    ⟨"Id", {}, (.struct 0)⟩,
    ⟨"Criticality", {}, (.struct 1)⟩,
    ⟨"Value", { openType := true, refField := "Id" }, (.struct 969)⟩]⟩, -- 970
  ⟨"ProtocolIEContainerOverloadStopIEs", [
    ⟨"List", { sizeLB := some (0), sizeUB := some (65535) }, (.slice (.struct 970))⟩]⟩, -- 971
  ⟨"OverloadStop", [
    ⟨"ProtocolIEs", {}, (.struct 971)⟩]⟩, -- 972
  ⟨"ProtocolIESingleContainerUEPagingIdentityExtIEs", []⟩, -- 973
  ⟨"UEPagingIdentity", [
    ⟨"Present", {}, .int⟩,
    ⟨"FiveGSTMSI", { valueExt := true }, (.ptr (.struct 586))⟩,
    ⟨"ChoiceExtensions", {}, (.ptr (.struct 973))⟩]⟩, -- 974
  ⟨"TAIListForPagingItemExtIEsExtensionValue", [
    ⟨"Present", {}, .int⟩]⟩, -- 975
  ⟨"TAIListForPagingItemExtIEs", [
    ⟨"Id", {}, (.struct 7)⟩,
    ⟨"Criticality", {}, (.struct 1)⟩,
    ⟨"ExtensionValue", { openType := true, refField := "Id" }, (.struct 975)⟩]⟩, -- 976
  ⟨"ProtocolExtensionContainerTAIListForPagingItemExtIEs", [
    ⟨"List", { sizeLB := some (1), sizeUB := some (65535) }, (.slice (.struct 976))⟩]⟩, -- 977
  ⟨"TAIListForPagingItem", [
    ⟨"TAI", { valueExt := true }, (.struct 120)⟩,
    ⟨"IEExtensions", { optional := true }, (.ptr (.struct 977))⟩]⟩, -- 978
  ⟨"TAIListForPaging", [
    ⟨"List", { valueExt := true, sizeLB := some (1), sizeUB := some (16) }, (.slice (.struct 978))⟩]⟩, -- 979
  ⟨"PagingPriority", [
    ⟨"Value", { valueExt := true, valueLB := some (0), valueUB := some (7) }, .enum⟩]⟩, -- 980
  ⟨"PagingOrigin", [
    ⟨"Value", { valueExt := true, valueLB := some (0), valueUB := some (0) }, .enum⟩]⟩, -- 981
  ⟨"PagingIEsValue", [
    ⟨"Present", {}, .int⟩,
    ⟨"UEPagingIdentity", { valueLB := some (0), valueUB := some (1), refValue := some (115) }, (.ptr (.struct 974))⟩,
    ⟨"PagingDRX", { refValue := some (50) }, (.ptr (.struct 369))⟩,
    ⟨"TAIListForPaging", { refValue := some (103) }, (.ptr (.struct 979))⟩,
    ⟨"PagingPriority", { refValue := some (52) }, (.ptr (.struct 980))⟩,
    ⟨"UERadioCapabilityForPaging", { valueExt := true, refValue := some (118) }, (.ptr (.struct 790))⟩,
    ⟨"PagingOrigin", { refValue := some (51) }, (.ptr (.struct 981))⟩,
    ⟨"AssistanceDataForPaging", { valueExt := true, refValue := some (11) }, (.ptr (.struct 210))⟩]⟩, -- 982
  ⟨"PagingIEs", [
    ⟨"Id", {}, (.struct 0)⟩,
    ⟨"Criticality", {}, (.struct 1)⟩,
    ⟨"Value", { openType := true, refField := "Id" }, (.struct 982)⟩]⟩, -- 983
  ⟨"ProtocolIEContainerPagingIEs", [
    ⟨"List", { sizeLB := some (0), sizeUB := some (65535) }, (.slice (.struct 983))⟩]⟩, -- 984
  ⟨"Paging", [
    ⟨"ProtocolIEs", {}, (.struct 984)⟩]⟩, -- 985
  ⟨"PDUSessionResourceNotifyItemExtIEsExtensionValue", [
    ⟨"Present", {}, .int⟩]⟩, -- 986
  ⟨"PDUSessionResourceNotifyItemExtIEs", [
    ⟨"Id", {}, (.struct 7)⟩,
    ⟨"Criticality", {}, (.struct 1)⟩,
    ⟨"ExtensionValue", { openType := true, refField := "Id" }, (.struct 986)⟩]⟩, -- 987
  ⟨"ProtocolExtensionContainerPDUSessionResourceNotifyItemExtIEs", [
    ⟨"List", { sizeLB := some (1), sizeUB := some (65535) }, (.slice (.struct 987))⟩]⟩, -- 988
  ⟨"PDUSessionResourceNotifyItem", [
    ⟨"PDUSessionID", {}, (.struct 607)⟩,
    ⟨"PDUSessionResourceNotifyTransfer", {}, .octs⟩,
    ⟨"IEExtensions", { optional := true }, (.ptr (.struct 988))⟩]⟩, -- 989
  ⟨"PDUSessionResourceNotifyList", [
    ⟨"List", { valueExt := true, sizeLB := some (1), sizeUB := some (256) }, (.slice (.struct 989))⟩]⟩, -- 990
  ⟨"PDUSessionResourceReleasedItemNotExtIEsExtensionValue", [
    ⟨"Present", {}, .int⟩]⟩, -- 991
  ⟨"PDUSessionResourceReleasedItemNotExtIEs", [
    ⟨"Id", {}, (.struct 7)⟩,
    ⟨"Criticality", {}, (.struct 1)⟩,
    ⟨"ExtensionValue", { openType := true, refField := "Id" }, (.struct 991)⟩]⟩, -- 992
  ⟨"ProtocolExtensionContainerPDUSessionResourceReleasedItemNotExtIEs", [
    ⟨"List", { sizeLB := some (1), sizeUB := some (65535) }, (.slice (.struct 992))⟩]⟩, -- 993
  ⟨"PDUSessionResourceReleasedItemNot", [
    ⟨"PDUSessionID", {}, (.struct 607)⟩,
    ⟨"PDUSessionResourceNotifyReleasedTransfer", {}, .octs⟩,
    ⟨"IEExtensions", { optional := true }, (.ptr (.struct 993))⟩]⟩, -- 994
  ⟨"PDUSessionResourceReleasedListNot", [
    ⟨"List", { valueExt := true, sizeLB := some (1), sizeUB := some (256) }, (.slice (.struct 994))⟩]⟩, -- 995
  ⟨"PDUSessionResourceNotifyIEsValue", [
    ⟨"Present", {}, .int⟩,
    ⟨"AMFUENGAPID", { refValue := some (10) }, (.ptr (.struct 135))⟩,
    ⟨"RANUENGAPID", { refValue := some (85) }, (.ptr (.struct 354))⟩,
    ⟨"PDUSessionResourceNotifyList", { refValue := some (66) }, (.ptr (.struct 990))⟩,
    ⟨"PDUSessionResourceReleasedListNot", { refValue := some (67) }, (.ptr (.struct 995))⟩,
    ⟨"UserLocationInformation", { valueLB := some (0), valueUB := some (3), refValue := some (121) }, (.ptr (.struct 651))⟩]⟩, -- 996
  ⟨"PDUSessionResourceNotifyIEs", [
    ⟨"Id", {}, (.struct 0)⟩,
    ⟨"Criticality", {}, (.struct 1)⟩,
    ⟨"Value", { openType := true, refField := "Id" }, (.struct 996)⟩]⟩, -- 997
  ⟨"ProtocolIEContainerPDUSessionResourceNotifyIEs", [
    ⟨"List", { sizeLB := some (0), sizeUB := some (65535) }, (.slice (.struct 997))⟩]⟩, -- 998
  ⟨"PDUSessionResourceNotify", [
    ⟨"ProtocolIEs", {}, (.struct 998)⟩]⟩ -- 999
]

end Stgutg.Spec.Ts38413Schema
