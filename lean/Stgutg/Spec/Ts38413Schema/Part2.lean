-- TS 38.413 (v15) abstract syntax of NGAP as a PER-visible schema: a frozen transcription, see Spec/Ts38413Schema.lean for its provenance.
import Stgutg.Model.AperTypes
namespace Stgutg.Spec.Ts38413Schema
open Stgutg.Aper

def schema2 : List StructDef := [
  ⟨"PagingAttemptCount", [
    ⟨"Value", { valueExt := true, valueLB := some (1), valueUB := some (16) }, .int⟩]⟩, -- 200
  ⟨"IntendedNumberOfPagingAttempts", [
    ⟨"Value", { valueExt := true, valueLB := some (1), valueUB := some (16) }, .int⟩]⟩, -- 201
  ⟨"NextPagingAreaScope", [
    ⟨"Value", { valueExt := true, valueLB := some (0), valueUB := some (1) }, .enum⟩]⟩, -- 202
  ⟨"PagingAttemptInformationExtIEsExtensionValue", [
    ⟨"Present", {}, .int⟩]⟩, -- 203
  ⟨"PagingAttemptInformationExtIEs", [
    ⟨"Id", {}, (.struct 7)⟩,
    ⟨"Criticality", {}, (.struct 1)⟩,
    ⟨"ExtensionValue", { openType := true, refField := "Id" }, (.struct 203)⟩]⟩, -- 204
  ⟨"ProtocolExtensionContainerPagingAttemptInformationExtIEs", [
    ⟨"List", { sizeLB := some (1), sizeUB := some (65535) }, (.slice (.struct 204))⟩]⟩, -- 205
  ⟨"PagingAttemptInformation", [
    ⟨"PagingAttemptCount", {}, (.struct 200)⟩,
    ⟨"IntendedNumberOfPagingAttempts", {}, (.struct 201)⟩,
    ⟨"NextPagingAreaScope", { optional := true }, (.ptr (.struct 202))⟩,
    ⟨"IEExtensions", { optional := true }, (.ptr (.struct 205))⟩]⟩, -- 206
  ⟨"AssistanceDataForPagingExtIEsExtensionValue", [
    ⟨"Present", {}, .int⟩]⟩, -- 207
  ⟨"AssistanceDataForPagingExtIEs", [
    ⟨"Id", {}, (.struct 7)⟩,
    ⟨"Criticality", {}, (.struct 1)⟩,
    ⟨"ExtensionValue", { openType := true, refField := "Id" }, (.struct 207)⟩]⟩, -- 208
  ⟨"ProtocolExtensionContainerAssistanceDataForPagingExtIEs", [
    ⟨"List", { sizeLB := some (1), sizeUB := some (65535) }, (.slice (.struct 208))⟩]⟩, -- 209
  ⟨"AssistanceDataForPaging", [
    ⟨"AssistanceDataForRecommendedCells", { optional := true, valueExt := true }, (.ptr (.struct 199))⟩,
    ⟨"PagingAttemptInformation", { optional := true, valueExt := true }, (.ptr (.struct 206))⟩,
    ⟨"IEExtensions", { optional := true }, (.ptr (.struct 209))⟩]⟩, -- 210
  ⟨"QosFlowIdentifier", [
    ⟨"Value", { valueExt := true, valueLB := some (0), valueUB := some (63) }, .int⟩]⟩, -- 211
  ⟨"AssociatedQosFlowItemExtIEsExtensionValue", [
    ⟨"Present", {}, .int⟩]⟩, -- 212
  ⟨"AssociatedQosFlowItemExtIEs", [
    ⟨"Id", {}, (.struct 7)⟩,
    ⟨"Criticality", {}, (.struct 1)⟩,
    ⟨"ExtensionValue", { openType := true, refField := "Id" }, (.struct 212)⟩]⟩, -- 213
  ⟨"ProtocolExtensionContainerAssociatedQosFlowItemExtIEs", [
    ⟨"List", { sizeLB := some (1), sizeUB := some (65535) }, (.slice (.struct 213))⟩]⟩, -- 214
  ⟨"AssociatedQosFlowItem", [
    ⟨"QosFlowIdentifier", {}, (.struct 211)⟩,
    ⟨"QosFlowMappingIndication", { optional := true, valueExt := true, valueLB := some (0), valueUB := some (1) }, (.ptr .enum)⟩,
    ⟨"IEExtensions", { optional := true }, (.ptr (.struct 214))⟩]⟩, -- 215
  ⟨"AssociatedQosFlowList", [
    ⟨"List", { valueExt := true, sizeLB := some (1), sizeUB := some (64) }, (.slice (.struct 215))⟩]⟩, -- 216
  ⟨"AveragingWindow", [
    ⟨"Value", { valueExt := true, valueLB := some (0), valueUB := some (4095) }, .int⟩]⟩, -- 217
  ⟨"BitRate", [
    ⟨"Value", { valueExt := true, valueLB := some (0), valueUB := some (4000000000000) }, .int⟩]⟩, -- 218
  ⟨"NumberOfBroadcasts", [
    ⟨"Value", { valueLB := some (0), valueUB := some (65535) }, .int⟩]⟩, -- 219
  ⟨"CellIDCancelledEUTRAItemExtIEsExtensionValue", [
    ⟨"Present", {}, .int⟩]⟩, -- 220
  ⟨"CellIDCancelledEUTRAItemExtIEs", [
    ⟨"Id", {}, (.struct 7)⟩,
    ⟨"Criticality", {}, (.struct 1)⟩,
    ⟨"ExtensionValue", { openType := true, refField := "Id" }, (.struct 220)⟩]⟩, -- 221
  ⟨"ProtocolExtensionContainerCellIDCancelledEUTRAItemExtIEs", [
    ⟨"List", { sizeLB := some (1), sizeUB := some (65535) }, (.slice (.struct 221))⟩]⟩, -- 222
  ⟨"CellIDCancelledEUTRAItem", [
    ⟨"EUTRACGI", { valueExt := true }, (.struct 164)⟩,
    ⟨"NumberOfBroadcasts", {}, (.struct 219)⟩,
    ⟨"IEExtensions", { optional := true }, (.ptr (.struct 222))⟩]⟩, -- 223
  ⟨"CellIDCancelledEUTRA", [
    ⟨"List", { valueExt := true, sizeLB := some (1), sizeUB := some (65535) }, (.slice (.struct 223))⟩]⟩, -- 224
  ⟨"CancelledCellsInTAIEUTRAItemExtIEsExtensionValue", [
    ⟨"Present", {}, .int⟩]⟩, -- 225
  ⟨"CancelledCellsInTAIEUTRAItemExtIEs", [
    ⟨"Id", {}, (.struct 7)⟩,
    ⟨"Criticality", {}, (.struct 1)⟩,
    ⟨"ExtensionValue", { openType := true, refField := "Id" }, (.struct 225)⟩]⟩, -- 226
  ⟨"ProtocolExtensionContainerCancelledCellsInTAIEUTRAItemExtIEs", [
    ⟨"List", { sizeLB := some (1), sizeUB := some (65535) }, (.slice (.struct 226))⟩]⟩, -- 227
  ⟨"CancelledCellsInTAIEUTRAItem", [
    ⟨"EUTRACGI", { valueExt := true }, (.struct 164)⟩,
    ⟨"NumberOfBroadcasts", {}, (.struct 219)⟩,
    ⟨"IEExtensions", { optional := true }, (.ptr (.struct 227))⟩]⟩, -- 228
  ⟨"CancelledCellsInTAIEUTRA", [
    ⟨"List", { valueExt := true, sizeLB := some (1), sizeUB := some (65535) }, (.slice (.struct 228))⟩]⟩, -- 229
  ⟨"TAICancelledEUTRAItemExtIEsExtensionValue", [
    ⟨"Present", {}, .int⟩]⟩, -- 230
  ⟨"TAICancelledEUTRAItemExtIEs", [
    ⟨"Id", {}, (.struct 7)⟩,
    ⟨"Criticality", {}, (.struct 1)⟩,
    ⟨"ExtensionValue", { openType := true, refField := "Id" }, (.struct 230)⟩]⟩, -- 231
  ⟨"ProtocolExtensionContainerTAICancelledEUTRAItemExtIEs", [
    ⟨"List", { sizeLB := some (1), sizeUB := some (65535) }, (.slice (.struct 231))⟩]⟩, -- 232
  ⟨"TAICancelledEUTRAItem", [
    ⟨"TAI", { valueExt := true }, (.struct 120)⟩,
    ⟨"CancelledCellsInTAIEUTRA", {}, (.struct 229)⟩,
    ⟨"IEExtensions", { optional := true }, (.ptr (.struct 232))⟩]⟩, -- 233
  ⟨"TAICancelledEUTRA", [
    ⟨"List", { valueExt := true, sizeLB := some (1), sizeUB := some (65535) }, (.slice (.struct 233))⟩]⟩, -- 234
  ⟨"EmergencyAreaID", [
    ⟨"Value", { sizeLB := some (3), sizeUB := some (3) }, .octs⟩]⟩, -- 235
  ⟨"CancelledCellsInEAIEUTRAItemExtIEsExtensionValue", [
    ⟨"Present", {}, .int⟩]⟩, -- 236
  ⟨"CancelledCellsInEAIEUTRAItemExtIEs", [
    ⟨"Id", {}, (.struct 7)⟩,
    ⟨"Criticality", {}, (.struct 1)⟩,
    ⟨"ExtensionValue", { openType := true, refField := "Id" }, (.struct 236)⟩]⟩, -- 237
  ⟨"ProtocolExtensionContainerCancelledCellsInEAIEUTRAItemExtIEs", [
    ⟨"List", { sizeLB := some (1), sizeUB := some (65535) }, (.slice (.struct 237))⟩]⟩, -- 238
  ⟨"CancelledCellsInEAIEUTRAItem", [
    ⟨"EUTRACGI", { valueExt := true }, (.struct 164)⟩,
    ⟨"NumberOfBroadcasts", {}, (.struct 219)⟩,
    ⟨"IEExtensions", { optional := true }, (.ptr (.struct 238))⟩]⟩, -- 239
  ⟨"CancelledCellsInEAIEUTRA", [
    ⟨"List", { valueExt := true, sizeLB := some (1), sizeUB := some (65535) }, (.slice (.struct 239))⟩]⟩, -- 240
  ⟨"EmergencyAreaIDCancelledEUTRAItemExtIEsExtensionValue", [
    ⟨"Present", {}, .int⟩]⟩, -- 241
  ⟨"EmergencyAreaIDCancelledEUTRAItemExtIEs", [
    ⟨"Id", {}, (.struct 7)⟩,
    ⟨"Criticality", {}, (.struct 1)⟩,
    ⟨"ExtensionValue", { openType := true, refField := "Id" }, (.struct 241)⟩]⟩, -- 242
  ⟨"ProtocolExtensionContainerEmergencyAreaIDCancelledEUTRAItemExtIEs", [
    ⟨"List", { sizeLB := some (1), sizeUB := some (65535) }, (.slice (.struct 242))⟩]⟩, -- 243
  ⟨"EmergencyAreaIDCancelledEUTRAItem", [
    ⟨"EmergencyAreaID", {}, (.struct 235)⟩,
    ⟨"CancelledCellsInEAIEUTRA", {}, (.struct 240)⟩,
    ⟨"IEExtensions", { optional := true }, (.ptr (.struct 243))⟩]⟩, -- 244
  ⟨"EmergencyAreaIDCancelledEUTRA", [
    ⟨"List", { valueExt := true, sizeLB := some (1), sizeUB := some (65535) }, (.slice (.struct 244))⟩]⟩, -- 245
  ⟨"CellIDCancelledNRItemExtIEsExtensionValue", [
    ⟨"Present", {}, .int⟩]⟩, -- 246
  ⟨"CellIDCancelledNRItemExtIEs", [
    ⟨"Id", {}, (.struct 7)⟩,
    ⟨"Criticality", {}, (.struct 1)⟩,
    ⟨"ExtensionValue", { openType := true, refField := "Id" }, (.struct 246)⟩]⟩, -- 247
  ⟨"ProtocolExtensionContainerCellIDCancelledNRItemExtIEs", [
    ⟨"List", { sizeLB := some (1), sizeUB := some (65535) }, (.slice (.struct 247))⟩]⟩, -- 248
  ⟨"CellIDCancelledNRItem", [
    ⟨"NRCGI", { valueExt := true }, (.struct 159)⟩,
    ⟨"NumberOfBroadcasts", {}, (.struct 219)⟩,
    ⟨"IEExtensions", { optional := true }, (.ptr (.struct 248))⟩]⟩, -- 249
  ⟨"CellIDCancelledNR", [
    ⟨"List", { valueExt := true, sizeLB := some (1), sizeUB := some (65535) }, (.slice (.struct 249))⟩]⟩, -- 250
  ⟨"CancelledCellsInTAINRItemExtIEsExtensionValue", [
    ⟨"Present", {}, .int⟩]⟩, -- 251
  ⟨"CancelledCellsInTAINRItemExtIEs", [
    ⟨"Id", {}, (.struct 7)⟩,
    ⟨"Criticality", {}, (.struct 1)⟩,
    ⟨"ExtensionValue", { openType := true, refField := "Id" }, (.struct 251)⟩]⟩, -- 252
  ⟨"ProtocolExtensionContainerCancelledCellsInTAINRItemExtIEs", [
    ⟨"List", { sizeLB := some (1), sizeUB := some (65535) }, (.slice (.struct 252))⟩]⟩, -- 253
  ⟨"CancelledCellsInTAINRItem", [
    ⟨"NRCGI", { valueExt := true }, (.struct 159)⟩,
    ⟨"NumberOfBroadcasts", {}, (.struct 219)⟩,
    ⟨"IEExtensions", { optional := true }, (.ptr (.struct 253))⟩]⟩, -- 254
  ⟨"CancelledCellsInTAINR", [
    ⟨"List", { valueExt := true, sizeLB := some (1), sizeUB := some (65535) }, (.slice (.struct 254))⟩]⟩, -- 255
  ⟨"TAICancelledNRItemExtIEsExtensionValue", [
    ⟨"Present", {}, .int⟩]⟩, -- 256
  ⟨"TAICancelledNRItemExtIEs", [
    ⟨"Id", {}, (.struct 7)⟩,
    ⟨"Criticality", {}, (.struct 1)⟩,
    ⟨"ExtensionValue", { openType := true, refField := "Id" }, (.struct 256)⟩]⟩, -- 257
  ⟨"ProtocolExtensionContainerTAICancelledNRItemExtIEs", [
    ⟨"List", { sizeLB := some (1), sizeUB := some (65535) }, (.slice (.struct 257))⟩]⟩, -- 258
  ⟨"TAICancelledNRItem", [
    ⟨"TAI", { valueExt := true }, (.struct 120)⟩,
    ⟨"CancelledCellsInTAINR", {}, (.struct 255)⟩,
    ⟨"IEExtensions", { optional := true }, (.ptr (.struct 258))⟩]⟩, -- 259
  ⟨"TAICancelledNR", [
    ⟨"List", { valueExt := true, sizeLB := some (1), sizeUB := some (65535) }, (.slice (.struct 259))⟩]⟩, -- 260
  ⟨"CancelledCellsInEAINRItemExtIEsExtensionValue", [
    ⟨"Present", {}, .int⟩]⟩, -- 261
  ⟨"CancelledCellsInEAINRItemExtIEs", [
    ⟨"Id", {}, (.struct 7)⟩,
    ⟨"Criticality", {}, (.struct 1)⟩,
    ⟨"ExtensionValue", { openType := true, refField := "Id" }, (.struct 261)⟩]⟩, -- 262
  ⟨"ProtocolExtensionContainerCancelledCellsInEAINRItemExtIEs", [
    ⟨"List", { sizeLB := some (1), sizeUB := some (65535) }, (.slice (.struct 262))⟩]⟩, -- 263
  ⟨"CancelledCellsInEAINRItem", [
    ⟨"NRCGI", { valueExt := true }, (.struct 159)⟩,
    ⟨"NumberOfBroadcasts", {}, (.struct 219)⟩,
    ⟨"IEExtensions", { optional := true }, (.ptr (.struct 263))⟩]⟩, -- 264
  ⟨"CancelledCellsInEAINR", [
    ⟨"List", { valueExt := true, sizeLB := some (1), sizeUB := some (65535) }, (.slice (.struct 264))⟩]⟩, -- 265
  ⟨"EmergencyAreaIDCancelledNRItemExtIEsExtensionValue", [
    ⟨"Present", {}, .int⟩]⟩, -- 266
  ⟨"EmergencyAreaIDCancelledNRItemExtIEs", [
    ⟨"Id", {}, (.struct 7)⟩,
    ⟨"Criticality", {}, (.struct 1)⟩,
    ⟨"ExtensionValue", { openType := true, refField := "Id" }, (.struct 266)⟩]⟩, -- 267
  ⟨"ProtocolExtensionContainerEmergencyAreaIDCancelledNRItemExtIEs", [
    ⟨"List", { sizeLB := some (1), sizeUB := some (65535) }, (.slice (.struct 267))⟩]⟩, -- 268
  ⟨"EmergencyAreaIDCancelledNRItem", [
    ⟨"EmergencyAreaID", {}, (.struct 235)⟩,
    ⟨"CancelledCellsInEAINR", {}, (.struct 265)⟩,
    ⟨"IEExtensions", { optional := true }, (.ptr (.struct 268))⟩]⟩, -- 269
  ⟨"EmergencyAreaIDCancelledNR", [
    ⟨"List", { valueExt := true, sizeLB := some (1), sizeUB := some (65535) }, (.slice (.struct 269))⟩]⟩, -- 270
  ⟨"ProtocolIESingleContainerBroadcastCancelledAreaListExtIEs", []⟩, -- 271
  ⟨"BroadcastCancelledAreaList", [
    ⟨"Present", {}, .int⟩,
    ⟨"CellIDCancelledEUTRA", {}, (.ptr (.struct 224))⟩,
    ⟨"TAICancelledEUTRA", {}, (.ptr (.struct 234))⟩,
    ⟨"EmergencyAreaIDCancelledEUTRA", {}, (.ptr (.struct 245))⟩,
    ⟨"CellIDCancelledNR", {}, (.ptr (.struct 250))⟩,
    ⟨"TAICancelledNR", {}, (.ptr (.struct 260))⟩,
    ⟨"EmergencyAreaIDCancelledNR", {}, (.ptr (.struct 270))⟩,
    ⟨"ChoiceExtensions", {}, (.ptr (.struct 271))⟩]⟩, -- 272
  ⟨"BroadcastCancelledAreaListExtIEsValue", [
    ⟨"Present", {}, .int⟩]⟩, -- 273
  ⟨"BroadcastCancelledAreaListExtIEs", [
    ⟨"Id", {}, (.struct 0)⟩,
    ⟨"Criticality", {}, (.struct 1)⟩,
    ⟨"Value", { openType := true, refField := "Id" }, (.struct 273)⟩]⟩, -- 274
  ⟨"CellIDBroadcastEUTRAItemExtIEsExtensionValue", [
    ⟨"Present", {}, .int⟩]⟩, -- 275
  ⟨"CellIDBroadcastEUTRAItemExtIEs", [
    ⟨"Id", {}, (.struct 7)⟩,
    ⟨"Criticality", {}, (.struct 1)⟩,
    ⟨"ExtensionValue", { openType := true, refField := "Id" }, (.struct 275)⟩]⟩, -- 276
  ⟨"ProtocolExtensionContainerCellIDBroadcastEUTRAItemExtIEs", [
    ⟨"List", { sizeLB := some (1), sizeUB := some (65535) }, (.slice (.struct 276))⟩]⟩, -- 277
  ⟨"CellIDBroadcastEUTRAItem", [
    ⟨"EUTRACGI", { valueExt := true }, (.struct 164)⟩,
    ⟨"IEExtensions", { optional := true }, (.ptr (.struct 277))⟩]⟩, -- 278
  ⟨"CellIDBroadcastEUTRA", [
    ⟨"List", { valueExt := true, sizeLB := some (1), sizeUB := some (65535) }, (.slice (.struct 278))⟩]⟩, -- 279
  ⟨"CompletedCellsInTAIEUTRAItemExtIEsExtensionValue", [
    ⟨"Present", {}, .int⟩]⟩, -- 280
  ⟨"CompletedCellsInTAIEUTRAItemExtIEs", [
    ⟨"Id", {}, (.struct 7)⟩,
    ⟨"Criticality", {}, (.struct 1)⟩,
    ⟨"ExtensionValue", { openType := true, refField := "Id" }, (.struct 280)⟩]⟩, -- 281
  ⟨"ProtocolExtensionContainerCompletedCellsInTAIEUTRAItemExtIEs", [
    ⟨"List", { sizeLB := some (1), sizeUB := some (65535) }, (.slice (.struct 281))⟩]⟩, -- 282
  ⟨"CompletedCellsInTAIEUTRAItem", [
    ⟨"EUTRACGI", { valueExt := true }, (.struct 164)⟩,
    ⟨"IEExtensions", { optional := true }, (.ptr (.struct 282))⟩]⟩, -- 283
  ⟨"CompletedCellsInTAIEUTRA", [
    ⟨"List", { valueExt := true, sizeLB := some (1), sizeUB := some (65535) }, (.slice (.struct 283))⟩]⟩, -- 284
  ⟨"TAIBroadcastEUTRAItemExtIEsExtensionValue", [
    ⟨"Present", {}, .int⟩]⟩, -- 285
  ⟨"TAIBroadcastEUTRAItemExtIEs", [
    ⟨"Id", {}, (.struct 7)⟩,
    ⟨"Criticality", {}, (.struct 1)⟩,
    ⟨"ExtensionValue", { openType := true, refField := "Id" }, (.struct 285)⟩]⟩, -- 286
  ⟨"ProtocolExtensionContainerTAIBroadcastEUTRAItemExtIEs", [
    ⟨"List", { sizeLB := some (1), sizeUB := some (65535) }, (.slice (.struct 286))⟩]⟩, -- 287
  ⟨"TAIBroadcastEUTRAItem", [
    ⟨"TAI", { valueExt := true }, (.struct 120)⟩,
    ⟨"CompletedCellsInTAIEUTRA", {}, (.struct 284)⟩,
    ⟨"IEExtensions", { optional := true }, (.ptr (.struct 287))⟩]⟩, -- 288
  ⟨"TAIBroadcastEUTRA", [
    ⟨"List", { valueExt := true, sizeLB := some (1), sizeUB := some (65535) }, (.slice (.struct 288))⟩]⟩, -- 289
  ⟨"CompletedCellsInEAIEUTRAItemExtIEsExtensionValue", [
    ⟨"Present", {}, .int⟩]⟩, -- 290
  ⟨"CompletedCellsInEAIEUTRAItemExtIEs", [
    ⟨"Id", {}, (.struct 7)⟩,
    ⟨"Criticality", {}, (.struct 1)⟩,
    ⟨"ExtensionValue", { openType := true, refField := "Id" }, (.struct 290)⟩]⟩, -- 291
  ⟨"ProtocolExtensionContainerCompletedCellsInEAIEUTRAItemExtIEs", [
    ⟨"List", { sizeLB := some (1), sizeUB := some (65535) }, (.slice (.struct 291))⟩]⟩, -- 292
  ⟨"CompletedCellsInEAIEUTRAItem", [
    ⟨"EUTRACGI", { valueExt := true }, (.struct 164)⟩,
    ⟨"IEExtensions", { optional := true }, (.ptr (.struct 292))⟩]⟩, -- 293
  ⟨"CompletedCellsInEAIEUTRA", [
    ⟨"List", { valueExt := true, sizeLB := some (1), sizeUB := some (65535) }, (.slice (.struct 293))⟩]⟩, -- 294
  ⟨"EmergencyAreaIDBroadcastEUTRAItemExtIEsExtensionValue", [
    ⟨"Present", {}, .int⟩]⟩, -- 295
  ⟨"EmergencyAreaIDBroadcastEUTRAItemExtIEs", [
    ⟨"Id", {}, (.struct 7)⟩,
    ⟨"Criticality", {}, (.struct 1)⟩,
    ⟨"ExtensionValue", { openType := true, refField := "Id" }, (.struct 295)⟩]⟩, -- 296
  ⟨"ProtocolExtensionContainerEmergencyAreaIDBroadcastEUTRAItemExtIEs", [
    ⟨"List", { sizeLB := some (1), sizeUB := some (65535) }, (.slice (.struct 296))⟩]⟩, -- 297
  ⟨"EmergencyAreaIDBroadcastEUTRAItem", [
    ⟨"EmergencyAreaID", {}, (.struct 235)⟩,
    ⟨"CompletedCellsInEAIEUTRA", {}, (.struct 294)⟩,
    ⟨"IEExtensions", { optional := true }, (.ptr (.struct 297))⟩]⟩, -- 298
  ⟨"EmergencyAreaIDBroadcastEUTRA", [
    ⟨"List", { valueExt := true, sizeLB := some (1), sizeUB := some (65535) }, (.slice (.struct 298))⟩]⟩ -- 299
]

end Stgutg.Spec.Ts38413Schema
