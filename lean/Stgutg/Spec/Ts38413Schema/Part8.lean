-- TS 38.413 (v15) abstract syntax of NGAP as a PER-visible schema: a frozen transcription, see Spec/Ts38413Schema.lean for its provenance.
import Stgutg.Model.AperTypes
namespace Stgutg.Spec.Ts38413Schema
open Stgutg.Aper

def schema8 : List StructDef := [
  ⟨"PDUSessionResourceFailedToSetupItemCxtResExtIEsExtensionValue", [
    ⟨"Present", {}, .int⟩]⟩, -- 800
  ⟨"PDUSessionResourceFailedToSetupItemCxtResExtIEs", [
    ⟨"Id", {}, (.struct 7)⟩,
    ⟨"Criticality", {}, (.struct 1)⟩,
    ⟨"ExtensionValue", { openType := true, refField := "Id" }, (.struct 800)⟩]⟩, -- 801
  ⟨"ProtocolExtensionContainerPDUSessionResourceFailedToSetupItemCxtResExtIEs", [
    ⟨"List", { sizeLB := some (1), sizeUB := some (65535) }, (.slice (.struct 801))⟩]⟩, -- 802
  ⟨"PDUSessionResourceFailedToSetupItemCxtRes", [
    ⟨"PDUSessionID", {}, (.struct 607)⟩,
    ⟨"PDUSessionResourceSetupUnsuccessfulTransfer", {}, .octs⟩,
    ⟨"IEExtensions", { optional := true }, (.ptr (.struct 802))⟩]⟩, -- 803
  ⟨"PDUSessionResourceFailedToSetupListCxtRes", [
    ⟨"List", { valueExt := true, sizeLB := some (1), sizeUB := some (256) }, (.slice (.struct 803))⟩]⟩, -- 804
  ⟨"InitialContextSetupResponseIEsValue", [
    ⟨"Present", {}, .int⟩,
    ⟨"AMFUENGAPID", { refValue := some (10) }, (.ptr (.struct 135))⟩,
    ⟨"RANUENGAPID", { refValue := some (85) }, (.ptr (.struct 354))⟩,
    ⟨"PDUSessionResourceSetupListCxtRes", { refValue := some (72) }, (.ptr (.struct 799))⟩,
    ⟨"PDUSessionResourceFailedToSetupListCxtRes", { refValue := some (55) }, (.ptr (.struct 804))⟩,
    ⟨"CriticalityDiagnostics", { valueExt := true, refValue := some (19) }, (.ptr (.struct 86))⟩]⟩, -- 805
  ⟨"InitialContextSetupResponseIEs", [
    ⟨"Id", {}, (.struct 0)⟩,
    ⟨"Criticality", {}, (.struct 1)⟩,
    ⟨"Value", { openType := true, refField := "Id" }, (.struct 805)⟩]⟩, -- 806
  ⟨"ProtocolIEContainerInitialContextSetupResponseIEs", [
    ⟨"List", { sizeLB := some (0), sizeUB := some (65535) }, (.slice (.struct 806))⟩]⟩, -- 807
  ⟨"InitialContextSetupResponse", [
    ⟨"ProtocolIEs", {}, (.struct 807)⟩]⟩, -- 808
  ⟨"RRCEstablishmentCause", [
    ⟨"Value", { valueExt := true, valueLB := some (0), valueUB := some (9) }, .enum⟩]⟩, -- 809
  ⟨"UEContextRequest", [
    ⟨"Value", { valueExt := true, valueLB := some (0), valueUB := some (0) }, .enum⟩]⟩, -- 810
  ⟨"InitialUEMessageIEsValue", [
    ⟨"Present", {}, .int⟩,
    ⟨"RANUENGAPID", { refValue := some (85) }, (.ptr (.struct 354))⟩,
    ⟨"NASPDU", { refValue := some (38) }, (.ptr (.struct 458))⟩,
    ⟨"UserLocationInformation", { valueLB := some (0), valueUB := some (3), refValue := some (121) }, (.ptr (.struct 651))⟩,
    ⟨"RRCEstablishmentCause", { refValue := some (90) }, (.ptr (.struct 809))⟩,
    ⟨"FiveGSTMSI", { valueExt := true, refValue := some (26) }, (.ptr (.struct 586))⟩,
    ⟨"AMFSetID", { refValue := some (3) }, (.ptr (.struct 5))⟩,
    ⟨"UEContextRequest", { refValue := some (112) }, (.ptr (.struct 810))⟩,
    ⟨"AllowedNSSAI", { refValue := some (0) }, (.ptr (.struct 148))⟩]⟩, -- 811
  ⟨"InitialUEMessageIEs", [
    ⟨"Id", {}, (.struct 0)⟩,
    ⟨"Criticality", {}, (.struct 1)⟩,
    ⟨"Value", { openType := true, refField := "Id" }, (.struct 811)⟩]⟩, -- 812
  ⟨"ProtocolIEContainerInitialUEMessageIEs", [
    ⟨"List", { sizeLB := some (0), sizeUB := some (65535) }, (.slice (.struct 812))⟩]⟩, -- 813
  ⟨"InitialUEMessage", [
    ⟨"ProtocolIEs", {}, (.struct 813)⟩]⟩, -- 814
  ⟨"ResetAll", [
    ⟨"Value", { valueExt := true, valueLB := some (0), valueUB := some (0) }, .enum⟩]⟩, -- 815
  ⟨"UEAssociatedLogicalNGConnectionItemExtIEsExtensionValue", [
    ⟨"Present", {}, .int⟩]⟩, -- 816
  ⟨"UEAssociatedLogicalNGConnectionItemExtIEs", [
    ⟨"Id", {}, (.struct 7)⟩,
    ⟨"Criticality", {}, (.struct 1)⟩,
    ⟨"ExtensionValue", { openType := true, refField := "Id" }, (.struct 816)⟩]⟩, -- 817
  ⟨"ProtocolExtensionContainerUEAssociatedLogicalNGConnectionItemExtIEs", [
    ⟨"List", { sizeLB := some (1), sizeUB := some (65535) }, (.slice (.struct 817))⟩]⟩, -- 818
  ⟨"UEAssociatedLogicalNGConnectionItem", [
    ⟨"AMFUENGAPID", { optional := true }, (.ptr (.struct 135))⟩,
    ⟨"RANUENGAPID", { optional := true }, (.ptr (.struct 354))⟩,
    ⟨"IEExtensions", { optional := true }, (.ptr (.struct 818))⟩]⟩, -- 819
  ⟨"UEAssociatedLogicalNGConnectionList", [
    ⟨"List", { valueExt := true, sizeLB := some (1), sizeUB := some (65536) }, (.slice (.struct 819))⟩]⟩, -- 820
  ⟨"ProtocolIESingleContainerResetTypeExtIEs", []⟩, -- 821
  ⟨"ResetType", [
    ⟨"Present", {}, .int⟩,
    ⟨"NGInterface", {}, (.ptr (.struct 815))⟩,
    ⟨"PartOfNGInterface", {}, (.ptr (.struct 820))⟩,
    ⟨"ChoiceExtensions", {}, (.ptr (.struct 821))⟩]⟩, -- 822
  ⟨"NGResetIEsValue", [
    ⟨"Present", {}, .int⟩,
    ⟨"Cause", { valueLB := some (0), valueUB := some (5), refValue := some (15) }, (.ptr (.struct 69))⟩,
    ⟨"ResetType", { valueLB := some (0), valueUB := some (2), refValue := some (88) }, (.ptr (.struct 822))⟩]⟩, -- 823
  ⟨"NGResetIEs", [
    ⟨"Id", {}, (.struct 0)⟩,
    ⟨"Criticality", {}, (.struct 1)⟩,
    ⟨"Value", { openType := true, refField := "Id" }, (.struct 823)⟩]⟩, -- 824
  ⟨"ProtocolIEContainerNGResetIEs", [
    ⟨"List", { sizeLB := some (0), sizeUB := some (65535) }, (.slice (.struct 824))⟩]⟩, -- 825
  ⟨"NGReset", [
    ⟨"ProtocolIEs", {}, (.struct 825)⟩]⟩, -- 826
  ⟨"RANNodeName", [
    ⟨"Value", { sizeExt := true, sizeLB := some (1), sizeUB := some (150) }, .str⟩]⟩, -- 827
  ⟨"SupportedTAItemExtIEsExtensionValue", [
    ⟨"Present", {}, .int⟩]⟩, -- 828
  ⟨"SupportedTAItemExtIEs", [
    ⟨"Id", {}, (.struct 7)⟩,
    ⟨"Criticality", {}, (.struct 1)⟩,
    ⟨"ExtensionValue", { openType := true, refField := "Id" }, (.struct 828)⟩]⟩, -- 829
  ⟨"ProtocolExtensionContainerSupportedTAItemExtIEs", [
    ⟨"List", { sizeLB := some (1), sizeUB := some (65535) }, (.slice (.struct 829))⟩]⟩, -- 830
  ⟨"SupportedTAItem", [
    ⟨"TAC", {}, (.struct 116)⟩,
    ⟨"BroadcastPLMNList", {}, (.struct 333)⟩,
    ⟨"IEExtensions", { optional := true }, (.ptr (.struct 830))⟩]⟩, -- 831
  ⟨"SupportedTAList", [
    ⟨"List", { valueExt := true, sizeLB := some (1), sizeUB := some (256) }, (.slice (.struct 831))⟩]⟩, -- 832
  ⟨"NGSetupRequestIEsValue", [
    ⟨"Present", {}, .int⟩,
    ⟨"GlobalRANNodeID", { valueLB := some (0), valueUB := some (3), refValue := some (27) }, (.ptr (.struct 115))⟩,
    ⟨"RANNodeName", { refValue := some (82) }, (.ptr (.struct 827))⟩,
    ⟨"SupportedTAList", { refValue := some (102) }, (.ptr (.struct 832))⟩,
    ⟨"DefaultPagingDRX", { refValue := some (21) }, (.ptr (.struct 369))⟩]⟩, -- 833
  ⟨"NGSetupRequestIEs", [
    ⟨"Id", {}, (.struct 0)⟩,
    ⟨"Criticality", {}, (.struct 1)⟩,
    ⟨"Value", { openType := true, refField := "Id" }, (.struct 833)⟩]⟩, -- 834
  ⟨"ProtocolIEContainerNGSetupRequestIEs", [
    ⟨"List", { sizeLB := some (0), sizeUB := some (65535) }, (.slice (.struct 834))⟩]⟩, -- 835
  ⟨"NGSetupRequest", [
    ⟨"ProtocolIEs", {}, (.struct 835)⟩]⟩, -- 836
  ⟨"PDUSessionResourceToBeSwitchedDLItemExtIEsExtensionValue", [
    ⟨"Present", {}, .int⟩]⟩, -- 837
  ⟨"PDUSessionResourceToBeSwitchedDLItemExtIEs", [
    ⟨"Id", {}, (.struct 7)⟩,
    ⟨"Criticality", {}, (.struct 1)⟩,
    ⟨"ExtensionValue", { openType := true, refField := "Id" }, (.struct 837)⟩]⟩, -- 838
  ⟨"ProtocolExtensionContainerPDUSessionResourceToBeSwitchedDLItemExtIEs", [
    ⟨"List", { sizeLB := some (1), sizeUB := some (65535) }, (.slice (.struct 838))⟩]⟩, -- 839
  ⟨"PDUSessionResourceToBeSwitchedDLItem", [
    ⟨"PDUSessionID", {}, (.struct 607)⟩,
    ⟨"PathSwitchRequestTransfer", {}, .octs⟩,
    ⟨"IEExtensions", { optional := true }, (.ptr (.struct 839))⟩]⟩, -- 840
  ⟨"PDUSessionResourceToBeSwitchedDLList", [
    ⟨"List", { valueExt := true, sizeLB := some (1), sizeUB := some (256) }, (.slice (.struct 840))⟩]⟩, -- 841
  ⟨"PDUSessionResourceFailedToSetupItemPSReqExtIEsExtensionValue", [
    ⟨"Present", {}, .int⟩]⟩, -- 842
  ⟨"PDUSessionResourceFailedToSetupItemPSReqExtIEs", [
    ⟨"Id", {}, (.struct 7)⟩,
    ⟨"Criticality", {}, (.struct 1)⟩,
    ⟨"ExtensionValue", { openType := true, refField := "Id" }, (.struct 842)⟩]⟩, -- 843
  ⟨"ProtocolExtensionContainerPDUSessionResourceFailedToSetupItemPSReqExtIEs", [
    ⟨"List", { sizeLB := some (1), sizeUB := some (65535) }, (.slice (.struct 843))⟩]⟩, -- 844
  ⟨"PDUSessionResourceFailedToSetupItemPSReq", [
    ⟨"PDUSessionID", {}, (.struct 607)⟩,
    ⟨"PathSwitchRequestSetupFailedTransfer", {}, .octs⟩,
    ⟨"IEExtensions", { optional := true }, (.ptr (.struct 844))⟩]⟩, -- 845
  ⟨"PDUSessionResourceFailedToSetupListPSReq", [
    ⟨"List", { valueExt := true, sizeLB := some (1), sizeUB := some (256) }, (.slice (.struct 845))⟩]⟩, -- 846
  ⟨"PathSwitchRequestIEsValue", [
    ⟨"Present", {}, .int⟩,
    ⟨"RANUENGAPID", { refValue := some (85) }, (.ptr (.struct 354))⟩,
    ⟨"SourceAMFUENGAPID", { refValue := some (100) }, (.ptr (.struct 135))⟩,
    ⟨"UserLocationInformation", { valueLB := some (0), valueUB := some (3), refValue := some (121) }, (.ptr (.struct 651))⟩,
    ⟨"UESecurityCapabilities", { valueExt := true, refValue := some (119) }, (.ptr (.struct 669))⟩,
    ⟨"PDUSessionResourceToBeSwitchedDLList", { refValue := some (76) }, (.ptr (.struct 841))⟩,
    ⟨"PDUSessionResourceFailedToSetupListPSReq", { refValue := some (57) }, (.ptr (.struct 846))⟩]⟩, -- 847
  ⟨"PathSwitchRequestIEs", [
    ⟨"Id", {}, (.struct 0)⟩,
    ⟨"Criticality", {}, (.struct 1)⟩,
    ⟨"Value", { openType := true, refField := "Id" }, (.struct 847)⟩]⟩, -- 848
  ⟨"ProtocolIEContainerPathSwitchRequestIEs", [
    ⟨"List", { sizeLB := some (0), sizeUB := some (65535) }, (.slice (.struct 848))⟩]⟩, -- 849
  ⟨"PathSwitchRequest", [
    ⟨"ProtocolIEs", {}, (.struct 849)⟩]⟩, -- 850
  ⟨"PDUSessionResourceModifyItemModReqExtIEsExtensionValue", [
    ⟨"Present", {}, .int⟩]⟩, -- 851
  ⟨"PDUSessionResourceModifyItemModReqExtIEs", [
    ⟨"Id", {}, (.struct 7)⟩,
    ⟨"Criticality", {}, (.struct 1)⟩,
    ⟨"ExtensionValue", { openType := true, refField := "Id" }, (.struct 851)⟩]⟩, -- 852
  ⟨"ProtocolExtensionContainerPDUSessionResourceModifyItemModReqExtIEs", [
    ⟨"List", { sizeLB := some (1), sizeUB := some (65535) }, (.slice (.struct 852))⟩]⟩, -- 853
  ⟨"PDUSessionResourceModifyItemModReq", [
    ⟨"PDUSessionID", {}, (.struct 607)⟩,
    ⟨"NASPDU", { optional := true }, (.ptr (.struct 458))⟩,
    ⟨"PDUSessionResourceModifyRequestTransfer", {}, .octs⟩,
    ⟨"IEExtensions", { optional := true }, (.ptr (.struct 853))⟩]⟩, -- 854
  ⟨"PDUSessionResourceModifyListModReq", [
    ⟨"List", { valueExt := true, sizeLB := some (1), sizeUB := some (256) }, (.slice (.struct 854))⟩]⟩, -- 855
  ⟨"PDUSessionResourceModifyRequestIEsValue", [
    ⟨"Present", {}, .int⟩,
    ⟨"AMFUENGAPID", { refValue := some (10) }, (.ptr (.struct 135))⟩,
    ⟨"RANUENGAPID", { refValue := some (85) }, (.ptr (.struct 354))⟩,
    ⟨"RANPagingPriority", { refValue := some (83) }, (.ptr (.struct 457))⟩,
    ⟨"PDUSessionResourceModifyListModReq", { refValue := some (64) }, (.ptr (.struct 855))⟩]⟩, -- 856
  ⟨"PDUSessionResourceModifyRequestIEs", [
    ⟨"Id", {}, (.struct 0)⟩,
    ⟨"Criticality", {}, (.struct 1)⟩,
    ⟨"Value", { openType := true, refField := "Id" }, (.struct 856)⟩]⟩, -- 857
  ⟨"ProtocolIEContainerPDUSessionResourceModifyRequestIEs", [
    ⟨"List", { sizeLB := some (0), sizeUB := some (65535) }, (.slice (.struct 857))⟩]⟩, -- 858
  ⟨"PDUSessionResourceModifyRequest", [
    ⟨"ProtocolIEs", {}, (.struct 858)⟩]⟩, -- 859
  ⟨"PDUSessionResourceModifyItemModIndExtIEsExtensionValue", [
    ⟨"Present", {}, .int⟩]⟩, -- 860
  ⟨"PDUSessionResourceModifyItemModIndExtIEs", [
    ⟨"Id", {}, (.struct 7)⟩,
    ⟨"Criticality", {}, (.struct 1)⟩,
    ⟨"ExtensionValue", { openType := true, refField := "Id" }, (.struct 860)⟩]⟩, -- 861
  ⟨"ProtocolExtensionContainerPDUSessionResourceModifyItemModIndExtIEs", [
    ⟨"List", { sizeLB := some (1), sizeUB := some (65535) }, (.slice (.struct 861))⟩]⟩, -- 862
  ⟨"PDUSessionResourceModifyItemModInd", [
    ⟨"PDUSessionID", {}, (.struct 607)⟩,
    ⟨"PDUSessionResourceModifyIndicationTransfer", {}, .octs⟩,
    ⟨"IEExtensions", { optional := true }, (.ptr (.struct 862))⟩]⟩, -- 863
  ⟨"PDUSessionResourceModifyListModInd", [
    ⟨"List", { valueExt := true, sizeLB := some (1), sizeUB := some (256) }, (.slice (.struct 863))⟩]⟩, -- 864
  ⟨"PDUSessionResourceModifyIndicationIEsValue", [
    ⟨"Present", {}, .int⟩,
    ⟨"AMFUENGAPID", { refValue := some (10) }, (.ptr (.struct 135))⟩,
    ⟨"RANUENGAPID", { refValue := some (85) }, (.ptr (.struct 354))⟩,
    ⟨"PDUSessionResourceModifyListModInd", { refValue := some (63) }, (.ptr (.struct 864))⟩]⟩, -- 865
  ⟨"PDUSessionResourceModifyIndicationIEs", [
    ⟨"Id", {}, (.struct 0)⟩,
    ⟨"Criticality", {}, (.struct 1)⟩,
    ⟨"Value", { openType := true, refField := "Id" }, (.struct 865)⟩]⟩, -- 866
  ⟨"ProtocolIEContainerPDUSessionResourceModifyIndicationIEs", [
    ⟨"List", { sizeLB := some (0), sizeUB := some (65535) }, (.slice (.struct 866))⟩]⟩, -- 867
  ⟨"PDUSessionResourceModifyIndication", [
    ⟨"ProtocolIEs", {}, (.struct 867)⟩]⟩, -- 868
  ⟨"PDUSessionResourceToReleaseItemRelCmdExtIEsExtensionValue", [
    ⟨"Present", {}, .int⟩]⟩, -- 869
  ⟨"PDUSessionResourceToReleaseItemRelCmdExtIEs", [
    ⟨"Id", {}, (.struct 7)⟩,
    ⟨"Criticality", {}, (.struct 1)⟩,
    ⟨"ExtensionValue", { openType := true, refField := "Id" }, (.struct 869)⟩]⟩, -- 870
  ⟨"ProtocolExtensionContainerPDUSessionResourceToReleaseItemRelCmdExtIEs", [
    ⟨"List", { sizeLB := some (1), sizeUB := some (65535) }, (.slice (.struct 870))⟩]⟩, -- 871
  ⟨"PDUSessionResourceToReleaseItemRelCmd", [
    ⟨"PDUSessionID", {}, (.struct 607)⟩,
    ⟨"PDUSessionResourceReleaseCommandTransfer", {}, .octs⟩,
    ⟨"IEExtensions", { optional := true }, (.ptr (.struct 871))⟩]⟩, -- 872
  ⟨"PDUSessionResourceToReleaseListRelCmd", [
    ⟨"List", { valueExt := true, sizeLB := some (1), sizeUB := some (256) }, (.slice (.struct 872))⟩]⟩, -- 873
  ⟨"PDUSessionResourceReleaseCommandIEsValue", [
    ⟨"Present", {}, .int⟩,
    ⟨"AMFUENGAPID", { refValue := some (10) }, (.ptr (.struct 135))⟩,
    ⟨"RANUENGAPID", { refValue := some (85) }, (.ptr (.struct 354))⟩,
    ⟨"RANPagingPriority", { refValue := some (83) }, (.ptr (.struct 457))⟩,
    ⟨"NASPDU", { refValue := some (38) }, (.ptr (.struct 458))⟩,
    ⟨"PDUSessionResourceToReleaseListRelCmd", { refValue := some (79) }, (.ptr (.struct 873))⟩]⟩, -- 874
  ⟨"PDUSessionResourceReleaseCommandIEs", [
    ⟨"Id", {}, (.struct 0)⟩,
    ⟨"Criticality", {}, (.struct 1)⟩,
    ⟨"Value", { openType := true, refField := "Id" }, (.struct 874)⟩]⟩, -- 875
  ⟨"ProtocolIEContainerPDUSessionResourceReleaseCommandIEs", [
    ⟨"List", { sizeLB := some (0), sizeUB := some (65535) }, (.slice (.struct 875))⟩]⟩, -- 876
  ⟨"PDUSessionResourceReleaseCommand", [
    ⟨"ProtocolIEs", {}, (.struct 876)⟩]⟩, -- 877
  ⟨"PDUSessionResourceSetupItemSUReqExtIEsExtensionValue", [
    ⟨"Present", {}, .int⟩]⟩, -- 878
  ⟨"PDUSessionResourceSetupItemSUReqExtIEs", [
    ⟨"Id", {}, (.struct 7)⟩,
    ⟨"Criticality", {}, (.struct 1)⟩,
    ⟨"ExtensionValue", { openType := true, refField := "Id" }, (.struct 878)⟩]⟩, -- 879
  ⟨"ProtocolExtensionContainerPDUSessionResourceSetupItemSUReqExtIEs", [
    ⟨"List", { sizeLB := some (1), sizeUB := some (65535) }, (.slice (.struct 879))⟩]⟩, -- 880
  ⟨"PDUSessionResourceSetupItemSUReq", [
    ⟨"PDUSessionID", {}, (.struct 607)⟩,
    ⟨"PDUSessionNASPDU", { optional := true }, (.ptr (.struct 458))⟩,
    ⟨"SNSSAI", { valueExt := true }, (.struct 23)⟩,
    ⟨"PDUSessionResourceSetupRequestTransfer", {}, .octs⟩,
    ⟨"IEExtensions", { optional := true }, (.ptr (.struct 880))⟩]⟩, -- 881
  ⟨"PDUSessionResourceSetupListSUReq", [
    ⟨"List", { valueExt := true, sizeLB := some (1), sizeUB := some (256) }, (.slice (.struct 881))⟩]⟩, -- 882
  ⟨"PDUSessionResourceSetupRequestIEsValue", [
    ⟨"Present", {}, .int⟩,
    ⟨"AMFUENGAPID", { refValue := some (10) }, (.ptr (.struct 135))⟩,
    ⟨"RANUENGAPID", { refValue := some (85) }, (.ptr (.struct 354))⟩,
    ⟨"RANPagingPriority", { refValue := some (83) }, (.ptr (.struct 457))⟩,
    ⟨"NASPDU", { refValue := some (38) }, (.ptr (.struct 458))⟩,
    ⟨"PDUSessionResourceSetupListSUReq", { refValue := some (74) }, (.ptr (.struct 882))⟩]⟩, -- 883
  ⟨"PDUSessionResourceSetupRequestIEs", [
    ⟨"Id", {}, (.struct 0)⟩,
    ⟨"Criticality", {}, (.struct 1)⟩,
    ⟨"Value", { openType := true, refField := "Id" }, (.struct 883)⟩]⟩, -- 884
  ⟨"ProtocolIEContainerPDUSessionResourceSetupRequestIEs", [
    ⟨"List", { sizeLB := some (0), sizeUB := some (65535) }, (.slice (.struct 884))⟩]⟩, -- 885
  ⟨"PDUSessionResourceSetupRequest", [
    ⟨"ProtocolIEs", {}, (.struct 885)⟩]⟩, -- 886
  ⟨"MessageIdentifier", [
    ⟨"Value", { sizeLB := some (16), sizeUB := some (16) }, .bits⟩]⟩, -- 887
  ⟨"SerialNumber", [
    ⟨"Value", { sizeLB := some (16), sizeUB := some (16) }, .bits⟩]⟩, -- 888
  ⟨"NRCGIListForWarning", [
    ⟨"List", { valueExt := true, sizeLB := some (1), sizeUB := some (65535) }, (.slice (.struct 159))⟩]⟩, -- 889
  ⟨"TAIListForWarning", [
    ⟨"List", { valueExt := true, sizeLB := some (1), sizeUB := some (65535) }, (.slice (.struct 120))⟩]⟩, -- 890
  ⟨"ProtocolIESingleContainerWarningAreaListExtIEs", []⟩, -- 891
  ⟨"WarningAreaList", [
    ⟨"Present", {}, .int⟩,
    ⟨"EUTRACGIListForWarning", {}, (.ptr (.struct 566))⟩,
    ⟨"NRCGIListForWarning", {}, (.ptr (.struct 889))⟩,
    ⟨"TAIListForWarning", {}, (.ptr (.struct 890))⟩,
    ⟨"EmergencyAreaIDList", {}, (.ptr (.struct 569))⟩,
    ⟨"ChoiceExtensions", {}, (.ptr (.struct 891))⟩]⟩, -- 892
  ⟨"PWSCancelRequestIEsValue", [
    ⟨"Present", {}, .int⟩,
    ⟨"MessageIdentifier", { refValue := some (35) }, (.ptr (.struct 887))⟩,
    ⟨"SerialNumber", { refValue := some (95) }, (.ptr (.struct 888))⟩,
    ⟨"WarningAreaList", { valueLB := some (0), valueUB := some (4), refValue := some (122) }, (.ptr (.struct 892))⟩,
    ⟨"CancelAllWarningMessages", { refValue := some (14) }, (.ptr (.struct 344))⟩]⟩, -- 893
  ⟨"PWSCancelRequestIEs", [
    ⟨"Id", {}, (.struct 0)⟩,
    ⟨"Criticality", {}, (.struct 1)⟩,
    ⟨"Value", { openType := true, refField := "Id" }, (.struct 893)⟩]⟩, -- 894
  ⟨"ProtocolIEContainerPWSCancelRequestIEs", [
    ⟨"List", { sizeLB := some (0), sizeUB := some (65535) }, (.slice (.struct 894))⟩]⟩, -- 895
  ⟨"PWSCancelRequest", [
    ⟨"ProtocolIEs", {}, (.struct 895)⟩]⟩, -- 896
  ⟨"RANConfigurationUpdateIEsValue", [
    ⟨"Present", {}, .int⟩,
    ⟨"RANNodeName", { refValue := some (82) }, (.ptr (.struct 827))⟩,
    ⟨"SupportedTAList", { refValue := some (102) }, (.ptr (.struct 832))⟩,
    ⟨"DefaultPagingDRX", { refValue := some (21) }, (.ptr (.struct 369))⟩]⟩, -- 897
  ⟨"RANConfigurationUpdateIEs", [
    ⟨"Id", {}, (.struct 0)⟩,
    ⟨"Criticality", {}, (.struct 1)⟩,
    ⟨"Value", { openType := true, refField := "Id" }, (.struct 897)⟩]⟩, -- 898
  ⟨"ProtocolIEContainerRANConfigurationUpdateIEs", [
    ⟨"List", { sizeLB := some (0), sizeUB := some (65535) }, (.slice (.struct 898))⟩]⟩ -- 899
]

end Stgutg.Spec.Ts38413Schema
