-- TS 38.413 (v15) abstract syntax of NGAP as a PER-visible schema: a frozen transcription, see Spec/Ts38413Schema.lean for its provenance.
import Stgutg.Model.AperTypes
namespace Stgutg.Spec.Ts38413Schema
open Stgutg.Aper

def schema0 : List StructDef := [
  ⟨"ProtocolIEID", [
    ⟨"Value", { valueLB := some (0), valueUB := some (65535) }, .int⟩]⟩, -- 0
  ⟨"Criticality", [
    ⟨"Value", { valueLB := some (0), valueUB := some (2) }, .enum⟩]⟩, -- 1
  ⟨"AMFName", [
    ⟨"Value", { sizeExt := true, sizeLB := some (1), sizeUB := some (150) }, .str⟩]⟩, -- 2
  ⟨"PLMNIdentity", [
    ⟨"Value", { sizeLB := some (3), sizeUB := some (3) }, .octs⟩]⟩, -- 3
  ⟨"AMFRegionID", [
    ⟨"Value", { sizeLB := some (8), sizeUB := some (8) }, .bits⟩]⟩, -- 4
  ⟨"AMFSetID", [
    ⟨"Value", { sizeLB := some (10), sizeUB := some (10) }, .bits⟩]⟩, -- 5
  ⟨"AMFPointer", [
    ⟨"Value", { sizeLB := some (6), sizeUB := some (6) }, .bits⟩]⟩, -- 6
  ⟨"ProtocolExtensionID", [
    ⟨"Value", { valueLB := some (0), valueUB := some (65535) }, .int⟩]⟩, -- 7
  ⟨"GUAMIExtIEsExtensionValue", [
    ⟨"Present", {}, .int⟩]⟩, -- 8
  ⟨"GUAMIExtIEs", [
    ⟨"Id", {}, (.struct 7)⟩,
    ⟨"Criticality", {}, (.struct 1)⟩,
    ⟨"ExtensionValue", { openType := true, refField := "Id" }, (.struct 8)⟩]⟩, -- 9
  ⟨"ProtocolExtensionContainerGUAMIExtIEs", [
    ⟨"List", { sizeLB := some (1), sizeUB := some (65535) }, (.slice (.struct 9))⟩]⟩, -- 10
  ⟨"GUAMI", [
    ⟨"PLMNIdentity", {}, (.struct 3)⟩,
    ⟨"AMFRegionID", {}, (.struct 4)⟩,
    ⟨"AMFSetID", {}, (.struct 5)⟩,
    ⟨"AMFPointer", {}, (.struct 6)⟩,
    ⟨"IEExtensions", { optional := true }, (.ptr (.struct 10))⟩]⟩, -- 11
  ⟨"ServedGUAMIItemExtIEsExtensionValue", [
    ⟨"Present", {}, .int⟩]⟩, -- 12
  ⟨"ServedGUAMIItemExtIEs", [
    ⟨"Id", {}, (.struct 7)⟩,
    ⟨"Criticality", {}, (.struct 1)⟩,
    ⟨"ExtensionValue", { openType := true, refField := "Id" }, (.struct 12)⟩]⟩, -- 13
  ⟨"ProtocolExtensionContainerServedGUAMIItemExtIEs", [
    ⟨"List", { sizeLB := some (1), sizeUB := some (65535) }, (.slice (.struct 13))⟩]⟩, -- 14
  ⟨"ServedGUAMIItem", [
    ⟨"GUAMI", { valueExt := true }, (.struct 11)⟩,
    ⟨"BackupAMFName", { optional := true }, (.ptr (.struct 2))⟩,
    ⟨"IEExtensions", { optional := true }, (.ptr (.struct 14))⟩]⟩, -- 15
  ⟨"ServedGUAMIList", [
    ⟨"List", { valueExt := true, sizeLB := some (1), sizeUB := some (256) }, (.slice (.struct 15))⟩]⟩, -- 16
  ⟨"RelativeAMFCapacity", [
    ⟨"Value", { valueLB := some (0), valueUB := some (255) }, .int⟩]⟩, -- 17
  ⟨"SST", [
    ⟨"Value", { sizeLB := some (1), sizeUB := some (1) }, .octs⟩]⟩, -- 18
  ⟨"SD", [
    ⟨"Value", { sizeLB := some (3), sizeUB := some (3) }, .octs⟩]⟩, -- 19
  ⟨"SNSSAIExtIEsExtensionValue", [
    ⟨"Present", {}, .int⟩]⟩, -- 20
  ⟨"SNSSAIExtIEs", [
    ⟨"Id", {}, (.struct 7)⟩,
    ⟨"Criticality", {}, (.struct 1)⟩,
    ⟨"ExtensionValue", { openType := true, refField := "Id" }, (.struct 20)⟩]⟩, -- 21
  ⟨"ProtocolExtensionContainerSNSSAIExtIEs", [
    ⟨"List", { sizeLB := some (1), sizeUB := some (65535) }, (.slice (.struct 21))⟩]⟩, -- 22
  ⟨"SNSSAI", [
    ⟨"SST", {}, (.struct 18)⟩,
    ⟨"SD", { optional := true }, (.ptr (.struct 19))⟩,
    ⟨"IEExtensions", { optional := true }, (.ptr (.struct 22))⟩]⟩, -- 23
  ⟨"SliceSupportItemExtIEsExtensionValue", [
    ⟨"Present", {}, .int⟩]⟩, -- 24
  ⟨"SliceSupportItemExtIEs", [
    ⟨"Id", {}, (.struct 7)⟩,
    ⟨"Criticality", {}, (.struct 1)⟩,
    ⟨"ExtensionValue", { openType := true, refField := "Id" }, (.struct 24)⟩]⟩, -- 25
  ⟨"ProtocolExtensionContainerSliceSupportItemExtIEs", [
    ⟨"List", { sizeLB := some (1), sizeUB := some (65535) }, (.slice (.struct 25))⟩]⟩, -- 26
  ⟨"SliceSupportItem", [
    ⟨"SNSSAI", { valueExt := true }, (.struct 23)⟩,
    ⟨"IEExtensions", { optional := true }, (.ptr (.struct 26))⟩]⟩, -- 27
  ⟨"SliceSupportList", [
    ⟨"List", { valueExt := true, sizeLB := some (1), sizeUB := some (1024) }, (.slice (.struct 27))⟩]⟩, -- 28
  ⟨"PLMNSupportItemExtIEsExtensionValue", [
    ⟨"Present", {}, .int⟩]⟩, -- 29
  ⟨"PLMNSupportItemExtIEs", [
    ⟨"Id", {}, (.struct 7)⟩,
    ⟨"Criticality", {}, (.struct 1)⟩,
    ⟨"ExtensionValue", { openType := true, refField := "Id" }, (.struct 29)⟩]⟩, -- 30
  ⟨"ProtocolExtensionContainerPLMNSupportItemExtIEs", [
    ⟨"List", { sizeLB := some (1), sizeUB := some (65535) }, (.slice (.struct 30))⟩]⟩, -- 31
  ⟨"PLMNSupportItem", [
    ⟨"PLMNIdentity", {}, (.struct 3)⟩,
    ⟨"SliceSupportList", {}, (.struct 28)⟩,
    ⟨"IEExtensions", { optional := true }, (.ptr (.struct 31))⟩]⟩, -- 32
  ⟨"PLMNSupportList", [
    ⟨"List", { valueExt := true, sizeLB := some (1), sizeUB := some (12) }, (.slice (.struct 32))⟩]⟩, -- 33
  ⟨"TransportLayerAddress", [
    ⟨"Value", { sizeExt := true, sizeLB := some (1), sizeUB := some (160) }, .bits⟩]⟩, -- 34
  ⟨"ProtocolIESingleContainerCPTransportLayerInformationExtIEs", []⟩, -- 35
  ⟨"CPTransportLayerInformation", [
    ⟨"Present", {}, .int⟩,
    ⟨"EndpointIPAddress", {}, (.ptr (.struct 34))⟩,
    ⟨"ChoiceExtensions", {}, (.ptr (.struct 35))⟩]⟩, -- 36
  ⟨"TNLAssociationUsage", [
    ⟨"Value", { valueExt := true, valueLB := some (0), valueUB := some (2) }, .enum⟩]⟩, -- 37
  ⟨"TNLAddressWeightFactor", [
    ⟨"Value", { valueLB := some (0), valueUB := some (255) }, .int⟩]⟩, -- 38
  ⟨"AMFTNLAssociationToAddItemExtIEsExtensionValue", [
    ⟨"Present", {}, .int⟩]⟩, -- 39
  ⟨"AMFTNLAssociationToAddItemExtIEs", [
    ⟨"Id", {}, (.struct 7)⟩,
    ⟨"Criticality", {}, (.struct 1)⟩,
    ⟨"ExtensionValue", { openType := true, refField := "Id" }, (.struct 39)⟩]⟩, -- 40
  ⟨"ProtocolExtensionContainerAMFTNLAssociationToAddItemExtIEs", [
    ⟨"List", { sizeLB := some (1), sizeUB := some (65535) }, (.slice (.struct 40))⟩]⟩, -- 41
  ⟨"AMFTNLAssociationToAddItem", [
    ⟨"AMFTNLAssociationAddress", { valueLB := some (0), valueUB := some (1) }, (.struct 36)⟩,
    ⟨"TNLAssociationUsage", { optional := true }, (.ptr (.struct 37))⟩,
    ⟨"TNLAddressWeightFactor", {}, (.struct 38)⟩,
    ⟨"IEExtensions", { optional := true }, (.ptr (.struct 41))⟩]⟩, -- 42
  ⟨"AMFTNLAssociationToAddList", [
    ⟨"List", { valueExt := true, sizeLB := some (1), sizeUB := some (32) }, (.slice (.struct 42))⟩]⟩, -- 43
  ⟨"AMFTNLAssociationToRemoveItemExtIEsExtensionValue", [
    ⟨"Present", {}, .int⟩]⟩, -- 44
  ⟨"AMFTNLAssociationToRemoveItemExtIEs", [
    ⟨"Id", {}, (.struct 7)⟩,
    ⟨"Criticality", {}, (.struct 1)⟩,
    ⟨"ExtensionValue", { openType := true, refField := "Id" }, (.struct 44)⟩]⟩, -- 45
  ⟨"ProtocolExtensionContainerAMFTNLAssociationToRemoveItemExtIEs", [
    ⟨"List", { sizeLB := some (1), sizeUB := some (65535) }, (.slice (.struct 45))⟩]⟩, -- 46
  ⟨"AMFTNLAssociationToRemoveItem", [
    ⟨"AMFTNLAssociationAddress", { valueLB := some (0), valueUB := some (1) }, (.struct 36)⟩,
    ⟨"IEExtensions", { optional := true }, (.ptr (.struct 46))⟩]⟩, -- 47
  ⟨"AMFTNLAssociationToRemoveList", [
    ⟨"List", { valueExt := true, sizeLB := some (1), sizeUB := some (32) }, (.slice (.struct 47))⟩]⟩, -- 48
  ⟨"AMFTNLAssociationToUpdateItemExtIEsExtensionValue", [
    ⟨"Present", {}, .int⟩]⟩, -- 49
  ⟨"AMFTNLAssociationToUpdateItemExtIEs", [
    ⟨"Id", {}, (.struct 7)⟩,
    ⟨"Criticality", {}, (.struct 1)⟩,
    ⟨"ExtensionValue", { openType := true, refField := "Id" }, (.struct 49)⟩]⟩, -- 50
  ⟨"ProtocolExtensionContainerAMFTNLAssociationToUpdateItemExtIEs", [
    ⟨"List", { sizeLB := some (1), sizeUB := some (65535) }, (.slice (.struct 50))⟩]⟩, -- 51
  ⟨"AMFTNLAssociationToUpdateItem", [
    ⟨"AMFTNLAssociationAddress", { valueLB := some (0), valueUB := some (1) }, (.struct 36)⟩,
    ⟨"TNLAssociationUsage", { optional := true }, (.ptr (.struct 37))⟩,
    ⟨"TNLAddressWeightFactor", { optional := true }, (.ptr (.struct 38))⟩,
    ⟨"IEExtensions", { optional := true }, (.ptr (.struct 51))⟩]⟩, -- 52
  ⟨"AMFTNLAssociationToUpdateList", [
    ⟨"List", { valueExt := true, sizeLB := some (1), sizeUB := some (32) }, (.slice (.struct 52))⟩]⟩, -- 53
  ⟨"AMFConfigurationUpdateIEsValue", [
    ⟨"Present", {}, .int⟩,
    ⟨"AMFName", { refValue := some (1) }, (.ptr (.struct 2))⟩,
    ⟨"ServedGUAMIList", { refValue := some (96) }, (.ptr (.struct 16))⟩,
    ⟨"RelativeAMFCapacity", { refValue := some (86) }, (.ptr (.struct 17))⟩,
    ⟨"PLMNSupportList", { refValue := some (80) }, (.ptr (.struct 33))⟩,
    ⟨"AMFTNLAssociationToAddList", { refValue := some (6) }, (.ptr (.struct 43))⟩,
    ⟨"AMFTNLAssociationToRemoveList", { refValue := some (7) }, (.ptr (.struct 48))⟩,
    ⟨"AMFTNLAssociationToUpdateList", { refValue := some (8) }, (.ptr (.struct 53))⟩]⟩, -- 54
  ⟨"AMFConfigurationUpdateIEs", [
    ⟨"Id", {}, (.struct 0)⟩,
    ⟨"Criticality", {}, (.struct 1)⟩,
    ⟨"Value", { openType := true, refField := "Id" }, (.struct 54)⟩]⟩, -- 55
  ⟨"ProtocolIEContainerAMFConfigurationUpdateIEs", [
    ⟨"List", { sizeLB := some (0), sizeUB := some (65535) }, (.slice (.struct 55))⟩]⟩, -- 56
  ⟨"AMFConfigurationUpdate", [
    ⟨"ProtocolIEs", {}, (.struct 56)⟩]⟩, -- 57
  ⟨"AMFTNLAssociationSetupItemExtIEsExtensionValue", [
    ⟨"Present", {}, .int⟩]⟩, -- 58
  ⟨"AMFTNLAssociationSetupItemExtIEs", [
    ⟨"Id", {}, (.struct 7)⟩,
    ⟨"Criticality", {}, (.struct 1)⟩,
    ⟨"ExtensionValue", { openType := true, refField := "Id" }, (.struct 58)⟩]⟩, -- 59
  ⟨"ProtocolExtensionContainerAMFTNLAssociationSetupItemExtIEs", [
    ⟨"List", { sizeLB := some (1), sizeUB := some (65535) }, (.slice (.struct 59))⟩]⟩, -- 60
  ⟨"AMFTNLAssociationSetupItem", [
    ⟨"AMFTNLAssociationAddress", { valueLB := some (0), valueUB := some (1) }, (.struct 36)⟩,
    ⟨"IEExtensions", { optional := true }, (.ptr (.struct 60))⟩]⟩, -- 61
  ⟨"AMFTNLAssociationSetupList", [
    ⟨"List", { valueExt := true, sizeLB := some (1), sizeUB := some (32) }, (.slice (.struct 61))⟩]⟩, -- 62
  ⟨"CauseRadioNetwork", [
    ⟨"Value", { valueExt := true, valueLB := some (0), valueUB := some (44) }, .enum⟩]⟩, -- 63
  ⟨"CauseTransport", [
    ⟨"Value", { valueExt := true, valueLB := some (0), valueUB := some (1) }, .enum⟩]⟩, -- 64
  ⟨"CauseNas", [
    ⟨"Value", { valueExt := true, valueLB := some (0), valueUB := some (3) }, .enum⟩]⟩, -- 65
  ⟨"CauseProtocol", [
    ⟨"Value", { valueExt := true, valueLB := some (0), valueUB := some (6) }, .enum⟩]⟩, -- 66
  ⟨"CauseMisc", [
    ⟨"Value", { valueExt := true, valueLB := some (0), valueUB := some (5) }, .enum⟩]⟩, -- 67
  ⟨"ProtocolIESingleContainerCauseExtIEs", []⟩, -- 68
  ⟨"Cause", [
    ⟨"Present", {}, .int⟩,
    ⟨"RadioNetwork", {}, (.ptr (.struct 63))⟩,
    ⟨"Transport", {}, (.ptr (.struct 64))⟩,
    ⟨"Nas", {}, (.ptr (.struct 65))⟩,
    ⟨"Protocol", {}, (.ptr (.struct 66))⟩,
    ⟨"Misc", {}, (.ptr (.struct 67))⟩,
    ⟨"ChoiceExtensions", {}, (.ptr (.struct 68))⟩]⟩, -- 69
  ⟨"TNLAssociationItemExtIEsExtensionValue", [
    ⟨"Present", {}, .int⟩]⟩, -- 70
  ⟨"TNLAssociationItemExtIEs", [
    ⟨"Id", {}, (.struct 7)⟩,
    ⟨"Criticality", {}, (.struct 1)⟩,
    ⟨"ExtensionValue", { openType := true, refField := "Id" }, (.struct 70)⟩]⟩, -- 71
  ⟨"ProtocolExtensionContainerTNLAssociationItemExtIEs", [
    ⟨"List", { sizeLB := some (1), sizeUB := some (65535) }, (.slice (.struct 71))⟩]⟩, -- 72
  ⟨"TNLAssociationItem", [
    ⟨"TNLAssociationAddress", { valueLB := some (0), valueUB := some (1) }, (.struct 36)⟩,
    ⟨"Cause", { valueLB := some (0), valueUB := some (5) }, (.struct 69)⟩,
    ⟨"IEExtensions", { optional := true }, (.ptr (.struct 72))⟩]⟩, -- 73
  ⟨"TNLAssociationList", [
    ⟨"List", { valueExt := true, sizeLB := some (1), sizeUB := some (32) }, (.slice (.struct 73))⟩]⟩, -- 74
  ⟨"ProcedureCode", [
    ⟨"Value", { valueLB := some (0), valueUB := some (255) }, .int⟩]⟩, -- 75
  ⟨"TriggeringMessage", [
    ⟨"Value", { valueLB := some (0), valueUB := some (2) }, .enum⟩]⟩, -- 76
  ⟨"TypeOfError", [
    ⟨"Value", { valueExt := true, valueLB := some (0), valueUB := some (1) }, .enum⟩]⟩, -- 77
  ⟨"CriticalityDiagnosticsIEItemExtIEsExtensionValue", [
    ⟨"Present", {}, .int⟩]⟩, -- 78
  ⟨"CriticalityDiagnosticsIEItemExtIEs", [
    ⟨"Id", {}, (.struct 7)⟩,
    ⟨"Criticality", {}, (.struct 1)⟩,
    ⟨"ExtensionValue", { openType := true, refField := "Id" }, (.struct 78)⟩]⟩, -- 79
  ⟨"ProtocolExtensionContainerCriticalityDiagnosticsIEItemExtIEs", [
    ⟨"List", { sizeLB := some (1), sizeUB := some (65535) }, (.slice (.struct 79))⟩]⟩, -- 80
  ⟨"CriticalityDiagnosticsIEItem", [
    ⟨"IECriticality", {}, (.struct 1)⟩,
    ⟨"IEID", {}, (.struct 0)⟩,
    ⟨"TypeOfError", {}, (.struct 77)⟩,
    ⟨"IEExtensions", { optional := true }, (.ptr (.struct 80))⟩]⟩, -- 81
  ⟨"CriticalityDiagnosticsIEList", [
    ⟨"List", { valueExt := true, sizeLB := some (1), sizeUB := some (256) }, (.slice (.struct 81))⟩]⟩, -- 82
  ⟨"CriticalityDiagnosticsExtIEsExtensionValue", [
    ⟨"Present", {}, .int⟩]⟩, -- 83
  ⟨"CriticalityDiagnosticsExtIEs", [
    ⟨"Id", {}, (.struct 7)⟩,
    ⟨"Criticality", {}, (.struct 1)⟩,
    ⟨"ExtensionValue", { openType := true, refField := "Id" }, (.struct 83)⟩]⟩, -- 84
  ⟨"ProtocolExtensionContainerCriticalityDiagnosticsExtIEs", [
    ⟨"List", { sizeLB := some (1), sizeUB := some (65535) }, (.slice (.struct 84))⟩]⟩, -- 85
  ⟨"CriticalityDiagnostics", [
    ⟨"ProcedureCode", { optional := true }, (.ptr (.struct 75))⟩,
    ⟨"TriggeringMessage", { optional := true }, (.ptr (.struct 76))⟩,
    ⟨"ProcedureCriticality", { optional := true }, (.ptr (.struct 1))⟩,
    ⟨"IEsCriticalityDiagnostics", { optional := true }, (.ptr (.struct 82))⟩,
    ⟨"IEExtensions", { optional := true }, (.ptr (.struct 85))⟩]⟩, -- 86
  ⟨"AMFConfigurationUpdateAcknowledgeIEsValue", [
    ⟨"Present", {}, .int⟩,
    ⟨"AMFTNLAssociationSetupList", { refValue := some (5) }, (.ptr (.struct 62))⟩,
    ⟨"AMFTNLAssociationFailedToSetupList", { refValue := some (4) }, (.ptr (.struct 74))⟩,
    ⟨"CriticalityDiagnostics", { valueExt := true, refValue := some (19) }, (.ptr (.struct 86))⟩]⟩, -- 87
  ⟨"AMFConfigurationUpdateAcknowledgeIEs", [
    ⟨"Id", {}, (.struct 0)⟩,
    ⟨"Criticality", {}, (.struct 1)⟩,
    ⟨"Value", { openType := true, refField := "Id" }, (.struct 87)⟩]⟩, -- 88
  ⟨"ProtocolIEContainerAMFConfigurationUpdateAcknowledgeIEs", [
    ⟨"List", { sizeLB := some (0), sizeUB := some (65535) }, (.slice (.struct 88))⟩]⟩, -- 89
  ⟨"AMFConfigurationUpdateAcknowledge", [
    ⟨"ProtocolIEs", {}, (.struct 89)⟩]⟩, -- 90
  ⟨"TimeToWait", [
    ⟨"Value", { valueExt := true, valueLB := some (0), valueUB := some (5) }, .enum⟩]⟩, -- 91
  ⟨"AMFConfigurationUpdateFailureIEsValue", [
    ⟨"Present", {}, .int⟩,
    ⟨"Cause", { valueLB := some (0), valueUB := some (5), refValue := some (15) }, (.ptr (.struct 69))⟩,
    ⟨"TimeToWait", { refValue := some (107) }, (.ptr (.struct 91))⟩,
    ⟨"CriticalityDiagnostics", { valueExt := true, refValue := some (19) }, (.ptr (.struct 86))⟩]⟩, -- 92
  ⟨"AMFConfigurationUpdateFailureIEs", [
    ⟨"Id", {}, (.struct 0)⟩,
    ⟨"Criticality", {}, (.struct 1)⟩,
    ⟨"Value", { openType := true, refField := "Id" }, (.struct 92)⟩]⟩, -- 93
  ⟨"ProtocolIEContainerAMFConfigurationUpdateFailureIEs", [
    ⟨"List", { sizeLB := some (0), sizeUB := some (65535) }, (.slice (.struct 93))⟩]⟩, -- 94
  ⟨"AMFConfigurationUpdateFailure", [
    ⟨"ProtocolIEs", {}, (.struct 94)⟩]⟩, -- 95
  ⟨"ProtocolIESingleContainerGNBIDExtIEs", []⟩, -- 96
  ⟨"GNBID", [
    ⟨"Present", {}, .int⟩,
    ⟨"GNBID", { sizeLB := some (22), sizeUB := some (32) }, (.ptr .bits)⟩,
    ⟨"ChoiceExtensions", {}, (.ptr (.struct 96))⟩]⟩, -- 97
  ⟨"GlobalGNBIDExtIEsExtensionValue", [
    ⟨"Present", {}, .int⟩]⟩, -- 98
  ⟨"GlobalGNBIDExtIEs", [
    ⟨"Id", {}, (.struct 7)⟩,
    ⟨"Criticality", {}, (.struct 1)⟩,
    ⟨"ExtensionValue", { openType := true, refField := "Id" }, (.struct 98)⟩]⟩ -- 99
]

end Stgutg.Spec.Ts38413Schema
