-- TS 38.413 (v15) abstract syntax of NGAP as a PER-visible schema: a frozen transcription, see Spec/Ts38413Schema.lean for its provenance.
import Stgutg.Model.AperTypes
namespace Stgutg.Spec.Ts38413Schema
open Stgutg.Aper

def schema6 : List StructDef := [
  ⟨"HandoverCancel", [
    ⟨"ProtocolIEs", {}, (.struct 599)⟩]⟩, -- 600
  ⟨"HandoverCancelAcknowledgeIEsValue", [
    ⟨"Present", {}, .int⟩,
    ⟨"AMFUENGAPID", { refValue := some (10) }, (.ptr (.struct 135))⟩,
    ⟨"RANUENGAPID", { refValue := some (85) }, (.ptr (.struct 354))⟩,
    ⟨"CriticalityDiagnostics", { valueExt := true, refValue := some (19) }, (.ptr (.struct 86))⟩]⟩, -- 601
  ⟨"HandoverCancelAcknowledgeIEs", [
    ⟨"Id", {}, (.struct 0)⟩,
    ⟨"Criticality", {}, (.struct 1)⟩,
    ⟨"Value", { openType := true, refField := "Id" }, (.struct 601)⟩]⟩, -- 602
  ⟨"ProtocolIEContainerHandoverCancelAcknowledgeIEs", [
    ⟨"List", { sizeLB := some (0), sizeUB := some (65535) }, (.slice (.struct 602))⟩]⟩, -- 603
  ⟨"HandoverCancelAcknowledge", [
    ⟨"ProtocolIEs", {}, (.struct 603)⟩]⟩, -- 604
  ⟨"HandoverType", [
    ⟨"Value", { valueExt := true, valueLB := some (0), valueUB := some (2) }, .enum⟩]⟩, -- 605
  ⟨"NASSecurityParametersFromNGRAN", [
    ⟨"Value", {}, .octs⟩]⟩, -- 606
  ⟨"PDUSessionID", [
    ⟨"Value", { valueLB := some (0), valueUB := some (255) }, .int⟩]⟩, -- 607
  ⟨"PDUSessionResourceHandoverItemExtIEsExtensionValue", [
    ⟨"Present", {}, .int⟩]⟩, -- 608
  ⟨"PDUSessionResourceHandoverItemExtIEs", [
    ⟨"Id", {}, (.struct 7)⟩,
    ⟨"Criticality", {}, (.struct 1)⟩,
    ⟨"ExtensionValue", { openType := true, refField := "Id" }, (.struct 608)⟩]⟩, -- 609
  ⟨"ProtocolExtensionContainerPDUSessionResourceHandoverItemExtIEs", [
    ⟨"List", { sizeLB := some (1), sizeUB := some (65535) }, (.slice (.struct 609))⟩]⟩, -- 610
  ⟨"PDUSessionResourceHandoverItem", [
    ⟨"PDUSessionID", {}, (.struct 607)⟩,
    ⟨"HandoverCommandTransfer", {}, .octs⟩,
    ⟨"IEExtensions", { optional := true }, (.ptr (.struct 610))⟩]⟩, -- 611
  ⟨"PDUSessionResourceHandoverList", [
    ⟨"List", { valueExt := true, sizeLB := some (1), sizeUB := some (256) }, (.slice (.struct 611))⟩]⟩, -- 612
  ⟨"PDUSessionResourceToReleaseItemHOCmdExtIEsExtensionValue", [
    ⟨"Present", {}, .int⟩]⟩, -- 613
  ⟨"PDUSessionResourceToReleaseItemHOCmdExtIEs", [
    ⟨"Id", {}, (.struct 7)⟩,
    ⟨"Criticality", {}, (.struct 1)⟩,
    ⟨"ExtensionValue", { openType := true, refField := "Id" }, (.struct 613)⟩]⟩, -- 614
  ⟨"ProtocolExtensionContainerPDUSessionResourceToReleaseItemHOCmdExtIEs", [
    ⟨"List", { sizeLB := some (1), sizeUB := some (65535) }, (.slice (.struct 614))⟩]⟩, -- 615
  ⟨"PDUSessionResourceToReleaseItemHOCmd", [
    ⟨"PDUSessionID", {}, (.struct 607)⟩,
    ⟨"HandoverPreparationUnsuccessfulTransfer", {}, .octs⟩,
    ⟨"IEExtensions", { optional := true }, (.ptr (.struct 615))⟩]⟩, -- 616
  ⟨"PDUSessionResourceToReleaseListHOCmd", [
    ⟨"List", { valueExt := true, sizeLB := some (1), sizeUB := some (256) }, (.slice (.struct 616))⟩]⟩, -- 617
  ⟨"TargetToSourceTransparentContainer", [
    ⟨"Value", {}, .octs⟩]⟩, -- 618
  ⟨"HandoverCommandIEsValue", [
    ⟨"Present", {}, .int⟩,
    ⟨"AMFUENGAPID", { refValue := some (10) }, (.ptr (.struct 135))⟩,
    ⟨"RANUENGAPID", { refValue := some (85) }, (.ptr (.struct 354))⟩,
    ⟨"HandoverType", { refValue := some (29) }, (.ptr (.struct 605))⟩,
    ⟨"NASSecurityParametersFromNGRAN", { refValue := some (39) }, (.ptr (.struct 606))⟩,
    ⟨"PDUSessionResourceHandoverList", { refValue := some (59) }, (.ptr (.struct 612))⟩,
    ⟨"PDUSessionResourceToReleaseListHOCmd", { refValue := some (78) }, (.ptr (.struct 617))⟩,
    ⟨"TargetToSourceTransparentContainer", { refValue := some (106) }, (.ptr (.struct 618))⟩,
    ⟨"CriticalityDiagnostics", { valueExt := true, refValue := some (19) }, (.ptr (.struct 86))⟩]⟩, -- 619
  ⟨"HandoverCommandIEs", [
    ⟨"Id", {}, (.struct 0)⟩,
    ⟨"Criticality", {}, (.struct 1)⟩,
    ⟨"Value", { openType := true, refField := "Id" }, (.struct 619)⟩]⟩, -- 620
  ⟨"ProtocolIEContainerHandoverCommandIEs", [
    ⟨"List", { sizeLB := some (0), sizeUB := some (65535) }, (.slice (.struct 620))⟩]⟩, -- 621
  ⟨"HandoverCommand", [
    ⟨"ProtocolIEs", {}, (.struct 621)⟩]⟩, -- 622
  ⟨"QosFlowToBeForwardedItemExtIEsExtensionValue", [
    ⟨"Present", {}, .int⟩]⟩, -- 623
  ⟨"QosFlowToBeForwardedItemExtIEs", [
    ⟨"Id", {}, (.struct 7)⟩,
    ⟨"Criticality", {}, (.struct 1)⟩,
    ⟨"ExtensionValue", { openType := true, refField := "Id" }, (.struct 623)⟩]⟩, -- 624
  ⟨"ProtocolExtensionContainerQosFlowToBeForwardedItemExtIEs", [
    ⟨"List", { sizeLB := some (1), sizeUB := some (65535) }, (.slice (.struct 624))⟩]⟩, -- 625
  ⟨"QosFlowToBeForwardedItem", [
    ⟨"QosFlowIdentifier", {}, (.struct 211)⟩,
    ⟨"IEExtensions", { optional := true }, (.ptr (.struct 625))⟩]⟩, -- 626
  ⟨"QosFlowToBeForwardedList", [
    ⟨"List", { valueExt := true, sizeLB := some (1), sizeUB := some (64) }, (.slice (.struct 626))⟩]⟩, -- 627
  ⟨"HandoverCommandTransferExtIEsExtensionValue", [
    ⟨"Present", {}, .int⟩]⟩, -- 628
  ⟨"HandoverCommandTransferExtIEs", [
    ⟨"Id", {}, (.struct 7)⟩,
    ⟨"Criticality", {}, (.struct 1)⟩,
    ⟨"ExtensionValue", { openType := true, refField := "Id" }, (.struct 628)⟩]⟩, -- 629
  ⟨"ProtocolExtensionContainerHandoverCommandTransferExtIEs", [
    ⟨"List", { sizeLB := some (1), sizeUB := some (65535) }, (.slice (.struct 629))⟩]⟩, -- 630
  ⟨"HandoverCommandTransfer", [
    ⟨"DLForwardingUPTNLInformation", { optional := true, valueLB := some (0), valueUB := some (1) }, (.ptr (.struct 445))⟩,
    ⟨"QosFlowToBeForwardedList", { optional := true }, (.ptr (.struct 627))⟩,
    ⟨"DataForwardingResponseDRBList", { optional := true }, (.ptr (.struct 450))⟩,
    ⟨"IEExtensions", { optional := true }, (.ptr (.struct 630))⟩]⟩, -- 631
  ⟨"HandoverFailureIEsValue", [
    ⟨"Present", {}, .int⟩,
    ⟨"AMFUENGAPID", { refValue := some (10) }, (.ptr (.struct 135))⟩,
    ⟨"Cause", { valueLB := some (0), valueUB := some (5), refValue := some (15) }, (.ptr (.struct 69))⟩,
    ⟨"CriticalityDiagnostics", { valueExt := true, refValue := some (19) }, (.ptr (.struct 86))⟩]⟩, -- 632
  ⟨"HandoverFailureIEs", [
    ⟨"Id", {}, (.struct 0)⟩,
    ⟨"Criticality", {}, (.struct 1)⟩,
    ⟨"Value", { openType := true, refField := "Id" }, (.struct 632)⟩]⟩, -- 633
  ⟨"ProtocolIEContainerHandoverFailureIEs", [
    ⟨"List", { sizeLB := some (0), sizeUB := some (65535) }, (.slice (.struct 633))⟩]⟩, -- 634
  ⟨"HandoverFailure", [
    ⟨"ProtocolIEs", {}, (.struct 634)⟩]⟩, -- 635
  ⟨"TimeStamp", [
    ⟨"Value", { sizeLB := some (4), sizeUB := some (4) }, .octs⟩]⟩, -- 636
  ⟨"UserLocationInformationEUTRAExtIEsExtensionValue", [
    ⟨"Present", {}, .int⟩]⟩, -- 637
  ⟨"UserLocationInformationEUTRAExtIEs", [
    ⟨"Id", {}, (.struct 7)⟩,
    ⟨"Criticality", {}, (.struct 1)⟩,
    ⟨"ExtensionValue", { openType := true, refField := "Id" }, (.struct 637)⟩]⟩, -- 638
  ⟨"ProtocolExtensionContainerUserLocationInformationEUTRAExtIEs", [
    ⟨"List", { sizeLB := some (1), sizeUB := some (65535) }, (.slice (.struct 638))⟩]⟩, -- 639
  ⟨"UserLocationInformationEUTRA", [
    ⟨"EUTRACGI", { valueExt := true }, (.struct 164)⟩,
    ⟨"TAI", { valueExt := true }, (.struct 120)⟩,
    ⟨"TimeStamp", { optional := true }, (.ptr (.struct 636))⟩,
    ⟨"IEExtensions", { optional := true }, (.ptr (.struct 639))⟩]⟩, -- 640
  ⟨"UserLocationInformationNRExtIEsExtensionValue", [
    ⟨"Present", {}, .int⟩]⟩, -- 641
  ⟨"UserLocationInformationNRExtIEs", [
    ⟨"Id", {}, (.struct 7)⟩,
    ⟨"Criticality", {}, (.struct 1)⟩,
    ⟨"ExtensionValue", { openType := true, refField := "Id" }, (.struct 641)⟩]⟩, -- 642
  ⟨"ProtocolExtensionContainerUserLocationInformationNRExtIEs", [
    ⟨"List", { sizeLB := some (1), sizeUB := some (65535) }, (.slice (.struct 642))⟩]⟩, -- 643
  ⟨"UserLocationInformationNR", [
    ⟨"NRCGI", { valueExt := true }, (.struct 159)⟩,
    ⟨"TAI", { valueExt := true }, (.struct 120)⟩,
    ⟨"TimeStamp", { optional := true }, (.ptr (.struct 636))⟩,
    ⟨"IEExtensions", { optional := true }, (.ptr (.struct 643))⟩]⟩, -- 644
  ⟨"PortNumber", [
    ⟨"Value", { sizeLB := some (2), sizeUB := some (2) }, .octs⟩]⟩, -- 645
  ⟨"UserLocationInformationN3IWFExtIEsExtensionValue", [
    ⟨"Present", {}, .int⟩]⟩, -- 646
  ⟨"UserLocationInformationN3IWFExtIEs", [
    ⟨"Id", {}, (.struct 7)⟩,
    ⟨"Criticality", {}, (.struct 1)⟩,
    ⟨"ExtensionValue", { openType := true, refField := "Id" }, (.struct 646)⟩]⟩, -- 647
  ⟨"ProtocolExtensionContainerUserLocationInformationN3IWFExtIEs", [
    ⟨"List", { sizeLB := some (1), sizeUB := some (65535) }, (.slice (.struct 647))⟩]⟩, -- 648
  ⟨"UserLocationInformationN3IWF", [
    ⟨"IPAddress", {}, (.struct 34)⟩,
    ⟨"PortNumber", {}, (.struct 645)⟩,
    ⟨"IEExtensions", { optional := true }, (.ptr (.struct 648))⟩]⟩, -- 649
  ⟨"ProtocolIESingleContainerUserLocationInformationExtIEs", []⟩, -- 650
  ⟨"UserLocationInformation", [
    ⟨"Present", {}, .int⟩,
    ⟨"UserLocationInformationEUTRA", { valueExt := true }, (.ptr (.struct 640))⟩,
    ⟨"UserLocationInformationNR", { valueExt := true }, (.ptr (.struct 644))⟩,
    ⟨"UserLocationInformationN3IWF", { valueExt := true }, (.ptr (.struct 649))⟩,
    ⟨"ChoiceExtensions", {}, (.ptr (.struct 650))⟩]⟩, -- 651
  ⟨"HandoverNotifyIEsValue", [
    ⟨"Present", {}, .int⟩,
    ⟨"AMFUENGAPID", { refValue := some (10) }, (.ptr (.struct 135))⟩,
    ⟨"RANUENGAPID", { refValue := some (85) }, (.ptr (.struct 354))⟩,
    ⟨"UserLocationInformation", { valueLB := some (0), valueUB := some (3), refValue := some (121) }, (.ptr (.struct 651))⟩]⟩, -- 652
  ⟨"HandoverNotifyIEs", [
    ⟨"Id", {}, (.struct 0)⟩,
    ⟨"Criticality", {}, (.struct 1)⟩,
    ⟨"Value", { openType := true, refField := "Id" }, (.struct 652)⟩]⟩, -- 653
  ⟨"ProtocolIEContainerHandoverNotifyIEs", [
    ⟨"List", { sizeLB := some (0), sizeUB := some (65535) }, (.slice (.struct 653))⟩]⟩, -- 654
  ⟨"HandoverNotify", [
    ⟨"ProtocolIEs", {}, (.struct 654)⟩]⟩, -- 655
  ⟨"HandoverPreparationFailureIEsValue", [
    ⟨"Present", {}, .int⟩,
    ⟨"AMFUENGAPID", { refValue := some (10) }, (.ptr (.struct 135))⟩,
    ⟨"RANUENGAPID", { refValue := some (85) }, (.ptr (.struct 354))⟩,
    ⟨"Cause", { valueLB := some (0), valueUB := some (5), refValue := some (15) }, (.ptr (.struct 69))⟩,
    ⟨"CriticalityDiagnostics", { valueExt := true, refValue := some (19) }, (.ptr (.struct 86))⟩]⟩, -- 656
  ⟨"HandoverPreparationFailureIEs", [
    ⟨"Id", {}, (.struct 0)⟩,
    ⟨"Criticality", {}, (.struct 1)⟩,
    ⟨"Value", { openType := true, refField := "Id" }, (.struct 656)⟩]⟩, -- 657
  ⟨"ProtocolIEContainerHandoverPreparationFailureIEs", [
    ⟨"List", { sizeLB := some (0), sizeUB := some (65535) }, (.slice (.struct 657))⟩]⟩, -- 658
  ⟨"HandoverPreparationFailure", [
    ⟨"ProtocolIEs", {}, (.struct 658)⟩]⟩, -- 659
  ⟨"HandoverPreparationUnsuccessfulTransferExtIEsExtensionValue", [
    ⟨"Present", {}, .int⟩]⟩, -- 660
  ⟨"HandoverPreparationUnsuccessfulTransferExtIEs", [
    ⟨"Id", {}, (.struct 7)⟩,
    ⟨"Criticality", {}, (.struct 1)⟩,
    ⟨"ExtensionValue", { openType := true, refField := "Id" }, (.struct 660)⟩]⟩, -- 661
  ⟨"ProtocolExtensionContainerHandoverPreparationUnsuccessfulTransferExtIEs", [
    ⟨"List", { sizeLB := some (1), sizeUB := some (65535) }, (.slice (.struct 661))⟩]⟩, -- 662
  ⟨"HandoverPreparationUnsuccessfulTransfer", [
    ⟨"Cause", { valueLB := some (0), valueUB := some (5) }, (.struct 69)⟩,
    ⟨"IEExtensions", { optional := true }, (.ptr (.struct 662))⟩]⟩, -- 663
  ⟨"NRencryptionAlgorithms", [
    ⟨"Value", { sizeExt := true, sizeLB := some (16), sizeUB := some (16) }, .bits⟩]⟩, -- 664
  ⟨"NRintegrityProtectionAlgorithms", [
    ⟨"Value", { sizeExt := true, sizeLB := some (16), sizeUB := some (16) }, .bits⟩]⟩, -- 665
  ⟨"UESecurityCapabilitiesExtIEsExtensionValue", [
    ⟨"Present", {}, .int⟩]⟩, -- 666
  ⟨"UESecurityCapabilitiesExtIEs", [
    ⟨"Id", {}, (.struct 7)⟩,
    ⟨"Criticality", {}, (.struct 1)⟩,
    ⟨"ExtensionValue", { openType := true, refField := "Id" }, (.struct 666)⟩]⟩, -- 667
  ⟨"ProtocolExtensionContainerUESecurityCapabilitiesExtIEs", [
    ⟨"List", { sizeLB := some (1), sizeUB := some (65535) }, (.slice (.struct 667))⟩]⟩, -- 668
  ⟨"UESecurityCapabilities", [
    ⟨"NRencryptionAlgorithms", {}, (.struct 664)⟩,
    ⟨"NRintegrityProtectionAlgorithms", {}, (.struct 665)⟩,
    ⟨"EUTRAencryptionAlgorithms", {}, (.struct 567)⟩,
    ⟨"EUTRAintegrityProtectionAlgorithms", {}, (.struct 568)⟩,
    ⟨"IEExtensions", { optional := true }, (.ptr (.struct 668))⟩]⟩, -- 669
  ⟨"NextHopChainingCount", [
    ⟨"Value", { valueLB := some (0), valueUB := some (7) }, .int⟩]⟩, -- 670
  ⟨"SecurityKey", [
    ⟨"Value", { sizeLB := some (256), sizeUB := some (256) }, .bits⟩]⟩, -- 671
  ⟨"SecurityContextExtIEsExtensionValue", [
    ⟨"Present", {}, .int⟩]⟩, -- 672
  ⟨"SecurityContextExtIEs", [
    ⟨"Id", {}, (.struct 7)⟩,
    ⟨"Criticality", {}, (.struct 1)⟩,
    ⟨"ExtensionValue", { openType := true, refField := "Id" }, (.struct 672)⟩]⟩, -- 673
  ⟨"ProtocolExtensionContainerSecurityContextExtIEs", [
    ⟨"List", { sizeLB := some (1), sizeUB := some (65535) }, (.slice (.struct 673))⟩]⟩, -- 674
  ⟨"SecurityContext", [
    ⟨"NextHopChainingCount", {}, (.struct 670)⟩,
    ⟨"NextHopNH", {}, (.struct 671)⟩,
    ⟨"IEExtensions", { optional := true }, (.ptr (.struct 674))⟩]⟩, -- 675
  ⟨"NewSecurityContextInd", [
    ⟨"Value", { valueExt := true, valueLB := some (0), valueUB := some (0) }, .enum⟩]⟩, -- 676
  ⟨"PDUSessionResourceSetupItemHOReqExtIEsExtensionValue", [
    ⟨"Present", {}, .int⟩]⟩, -- 677
  ⟨"PDUSessionResourceSetupItemHOReqExtIEs", [
    ⟨"Id", {}, (.struct 7)⟩,
    ⟨"Criticality", {}, (.struct 1)⟩,
    ⟨"ExtensionValue", { openType := true, refField := "Id" }, (.struct 677)⟩]⟩, -- 678
  ⟨"ProtocolExtensionContainerPDUSessionResourceSetupItemHOReqExtIEs", [
    ⟨"List", { sizeLB := some (1), sizeUB := some (65535) }, (.slice (.struct 678))⟩]⟩, -- 679
  ⟨"PDUSessionResourceSetupItemHOReq", [
    ⟨"PDUSessionID", {}, (.struct 607)⟩,
    ⟨"SNSSAI", { valueExt := true }, (.struct 23)⟩,
    ⟨"HandoverRequestTransfer", {}, .octs⟩,
    ⟨"IEExtensions", { optional := true }, (.ptr (.struct 679))⟩]⟩, -- 680
  ⟨"PDUSessionResourceSetupListHOReq", [
    ⟨"List", { valueExt := true, sizeLB := some (1), sizeUB := some (256) }, (.slice (.struct 680))⟩]⟩, -- 681
  ⟨"InterfacesToTrace", [
    ⟨"Value", { sizeLB := some (8), sizeUB := some (8) }, .bits⟩]⟩, -- 682
  ⟨"TraceDepth", [
    ⟨"Value", { valueExt := true, valueLB := some (0), valueUB := some (5) }, .enum⟩]⟩, -- 683
  ⟨"TraceActivationExtIEsExtensionValue", [
    ⟨"Present", {}, .int⟩]⟩, -- 684
  ⟨"TraceActivationExtIEs", [
    ⟨"Id", {}, (.struct 7)⟩,
    ⟨"Criticality", {}, (.struct 1)⟩,
    ⟨"ExtensionValue", { openType := true, refField := "Id" }, (.struct 684)⟩]⟩, -- 685
  ⟨"ProtocolExtensionContainerTraceActivationExtIEs", [
    ⟨"List", { sizeLB := some (1), sizeUB := some (65535) }, (.slice (.struct 685))⟩]⟩, -- 686
  ⟨"TraceActivation", [
    ⟨"NGRANTraceID", {}, (.struct 355)⟩,
    ⟨"InterfacesToTrace", {}, (.struct 682)⟩,
    ⟨"TraceDepth", {}, (.struct 683)⟩,
    ⟨"TraceCollectionEntityIPAddress", {}, (.struct 34)⟩,
    ⟨"IEExtensions", { optional := true }, (.ptr (.struct 686))⟩]⟩, -- 687
  ⟨"MaskedIMEISV", [
    ⟨"Value", { sizeLB := some (64), sizeUB := some (64) }, .bits⟩]⟩, -- 688
  ⟨"SourceToTargetTransparentContainer", [
    ⟨"Value", {}, .octs⟩]⟩, -- 689
  ⟨"ReportArea", [
    ⟨"Value", { valueExt := true, valueLB := some (0), valueUB := some (0) }, .enum⟩]⟩, -- 690
  ⟨"LocationReportingRequestTypeExtIEsExtensionValue", [
    ⟨"Present", {}, .int⟩]⟩, -- 691
  ⟨"LocationReportingRequestTypeExtIEs", [
    ⟨"Id", {}, (.struct 7)⟩,
    ⟨"Criticality", {}, (.struct 1)⟩,
    ⟨"ExtensionValue", { openType := true, refField := "Id" }, (.struct 691)⟩]⟩, -- 692
  ⟨"ProtocolExtensionContainerLocationReportingRequestTypeExtIEs", [
    ⟨"List", { sizeLB := some (1), sizeUB := some (65535) }, (.slice (.struct 692))⟩]⟩, -- 693
  ⟨"LocationReportingRequestType", [
    ⟨"EventType", {}, (.struct 581)⟩,
    ⟨"ReportArea", {}, (.struct 690)⟩,
    ⟨"AreaOfInterestList", { optional := true }, (.ptr (.struct 186))⟩,
    ⟨"LocationReportingReferenceIDToBeCancelled", { optional := true }, (.ptr (.struct 181))⟩,
    ⟨"IEExtensions", { optional := true }, (.ptr (.struct 693))⟩]⟩, -- 694
  ⟨"RRCInactiveTransitionReportRequest", [
    ⟨"Value", { valueExt := true, valueLB := some (0), valueUB := some (2) }, .enum⟩]⟩, -- 695
  ⟨"HandoverRequestIEsValue", [
    ⟨"Present", {}, .int⟩,
    ⟨"AMFUENGAPID", { refValue := some (10) }, (.ptr (.struct 135))⟩,
    ⟨"HandoverType", { refValue := some (29) }, (.ptr (.struct 605))⟩,
    ⟨"Cause", { valueLB := some (0), valueUB := some (5), refValue := some (15) }, (.ptr (.struct 69))⟩,
    ⟨"UEAggregateMaximumBitRate", { valueExt := true, refValue := some (110) }, (.ptr (.struct 486))⟩,
    ⟨"CoreNetworkAssistanceInformation", { valueExt := true, refValue := some (18) }, (.ptr (.struct 398))⟩,
    ⟨"UESecurityCapabilities", { valueExt := true, refValue := some (119) }, (.ptr (.struct 669))⟩,
    ⟨"SecurityContext", { valueExt := true, refValue := some (93) }, (.ptr (.struct 675))⟩,
    ⟨"NewSecurityContextInd", { refValue := some (41) }, (.ptr (.struct 676))⟩,
    ⟨"NASC", { refValue := some (37) }, (.ptr (.struct 458))⟩,
    ⟨"PDUSessionResourceSetupListHOReq", { refValue := some (73) }, (.ptr (.struct 681))⟩,
    ⟨"AllowedNSSAI", { refValue := some (0) }, (.ptr (.struct 148))⟩,
    ⟨"TraceActivation", { valueExt := true, refValue := some (108) }, (.ptr (.struct 687))⟩,
    ⟨"MaskedIMEISV", { refValue := some (34) }, (.ptr (.struct 688))⟩,
    ⟨"SourceToTargetTransparentContainer", { refValue := some (101) }, (.ptr (.struct 689))⟩,
    ⟨"MobilityRestrictionList", { valueExt := true, refValue := some (36) }, (.ptr (.struct 481))⟩,
    ⟨"LocationReportingRequestType", { valueExt := true, refValue := some (33) }, (.ptr (.struct 694))⟩,
    ⟨"RRCInactiveTransitionReportRequest", { refValue := some (91) }, (.ptr (.struct 695))⟩,
    ⟨"GUAMI", { valueExt := true, refValue := some (28) }, (.ptr (.struct 11))⟩]⟩, -- 696
  ⟨"HandoverRequestIEs", [
    ⟨"Id", {}, (.struct 0)⟩,
    ⟨"Criticality", {}, (.struct 1)⟩,
    ⟨"Value", { openType := true, refField := "Id" }, (.struct 696)⟩]⟩, -- 697
  ⟨"ProtocolIEContainerHandoverRequestIEs", [
    ⟨"List", { sizeLB := some (0), sizeUB := some (65535) }, (.slice (.struct 697))⟩]⟩, -- 698
  ⟨"HandoverRequest", [
    ⟨"ProtocolIEs", {}, (.struct 698)⟩]⟩ -- 699
]

end Stgutg.Spec.Ts38413Schema
