-- TS 38.413 (v15) abstract syntax of NGAP as a PER-visible schema: a frozen transcription, see Spec/Ts38413Schema.lean for its provenance.
import Stgutg.Model.AperTypes
namespace Stgutg.Spec.Ts38413Schema
open Stgutg.Aper

def schema11 : List StructDef := [
  ⟨"MultipleTNLInformationExtIEsExtensionValue", [
    ⟨"Present", {}, .int⟩]⟩, -- 1100
  ⟨"MultipleTNLInformationExtIEs", [
    ⟨"Id", {}, (.struct 7)⟩,
    ⟨"Criticality", {}, (.struct 1)⟩,
    ⟨"ExtensionValue", { openType := true, refField := "Id" }, (.struct 1100)⟩]⟩, -- 1101
  ⟨"ProtocolExtensionContainerMultipleTNLInformationExtIEs", [
    ⟨"List", { sizeLB := some (1), sizeUB := some (65535) }, (.slice (.struct 1101))⟩]⟩, -- 1102
  ⟨"MultipleTNLInformation", [
    ⟨"TNLInformationList", {}, (.struct 1099)⟩,
    ⟨"IEExtensions", { optional := true }, (.ptr (.struct 1102))⟩]⟩, -- 1103
  ⟨"N3IWFIDExtIEsValue", [
    ⟨"Present", {}, .int⟩]⟩, -- 1104
  ⟨"N3IWFIDExtIEs", [
    ⟨"Id", {}, (.struct 0)⟩,
    ⟨"Criticality", {}, (.struct 1)⟩,
    ⟨"Value", { openType := true, refField := "Id" }, (.struct 1104)⟩]⟩, -- 1105
  ⟨"NGResetAcknowledgeIEsValue", [
    ⟨"Present", {}, .int⟩,
    ⟨"UEAssociatedLogicalNGConnectionList", { refValue := some (111) }, (.ptr (.struct 820))⟩,
    ⟨"CriticalityDiagnostics", { valueExt := true, refValue := some (19) }, (.ptr (.struct 86))⟩]⟩, -- 1106
  ⟨"NGResetAcknowledgeIEs", [
    ⟨"Id", {}, (.struct 0)⟩,
    ⟨"Criticality", {}, (.struct 1)⟩,
    ⟨"Value", { openType := true, refField := "Id" }, (.struct 1106)⟩]⟩, -- 1107
  ⟨"ProtocolIEContainerNGResetAcknowledgeIEs", [
    ⟨"List", { sizeLB := some (0), sizeUB := some (65535) }, (.slice (.struct 1107))⟩]⟩, -- 1108
  ⟨"NGResetAcknowledge", [
    ⟨"ProtocolIEs", {}, (.struct 1108)⟩]⟩, -- 1109
  ⟨"NGSetupResponseIEsValue", [
    ⟨"Present", {}, .int⟩,
    ⟨"AMFName", { refValue := some (1) }, (.ptr (.struct 2))⟩,
    ⟨"ServedGUAMIList", { refValue := some (96) }, (.ptr (.struct 16))⟩,
    ⟨"RelativeAMFCapacity", { refValue := some (86) }, (.ptr (.struct 17))⟩,
    ⟨"PLMNSupportList", { refValue := some (80) }, (.ptr (.struct 33))⟩,
    ⟨"CriticalityDiagnostics", { valueExt := true, refValue := some (19) }, (.ptr (.struct 86))⟩]⟩, -- 1110
  ⟨"NGSetupResponseIEs", [
    ⟨"Id", {}, (.struct 0)⟩,
    ⟨"Criticality", {}, (.struct 1)⟩,
    ⟨"Value", { openType := true, refField := "Id" }, (.struct 1110)⟩]⟩, -- 1111
  ⟨"ProtocolIEContainerNGSetupResponseIEs", [
    ⟨"List", { sizeLB := some (0), sizeUB := some (65535) }, (.slice (.struct 1111))⟩]⟩, -- 1112
  ⟨"NGSetupResponse", [
    ⟨"ProtocolIEs", {}, (.struct 1112)⟩]⟩, -- 1113
  ⟨"PDUSessionResourceSwitchedItemExtIEsExtensionValue", [
    ⟨"Present", {}, .int⟩]⟩, -- 1114
  ⟨"PDUSessionResourceSwitchedItemExtIEs", [
    ⟨"Id", {}, (.struct 7)⟩,
    ⟨"Criticality", {}, (.struct 1)⟩,
    ⟨"ExtensionValue", { openType := true, refField := "Id" }, (.struct 1114)⟩]⟩, -- 1115
  ⟨"ProtocolExtensionContainerPDUSessionResourceSwitchedItemExtIEs", [
    ⟨"List", { sizeLB := some (1), sizeUB := some (65535) }, (.slice (.struct 1115))⟩]⟩, -- 1116
  ⟨"PDUSessionResourceSwitchedItem", [
    ⟨"PDUSessionID", {}, (.struct 607)⟩,
    ⟨"PathSwitchRequestAcknowledgeTransfer", {}, .octs⟩,
    ⟨"IEExtensions", { optional := true }, (.ptr (.struct 1116))⟩]⟩, -- 1117
  ⟨"PDUSessionResourceSwitchedList", [
    ⟨"List", { valueExt := true, sizeLB := some (1), sizeUB := some (256) }, (.slice (.struct 1117))⟩]⟩, -- 1118
  ⟨"PDUSessionResourceReleasedItemPSAckExtIEsExtensionValue", [
    ⟨"Present", {}, .int⟩]⟩, -- 1119
  ⟨"PDUSessionResourceReleasedItemPSAckExtIEs", [
    ⟨"Id", {}, (.struct 7)⟩,
    ⟨"Criticality", {}, (.struct 1)⟩,
    ⟨"ExtensionValue", { openType := true, refField := "Id" }, (.struct 1119)⟩]⟩, -- 1120
  ⟨"ProtocolExtensionContainerPDUSessionResourceReleasedItemPSAckExtIEs", [
    ⟨"List", { sizeLB := some (1), sizeUB := some (65535) }, (.slice (.struct 1120))⟩]⟩, -- 1121
  ⟨"PDUSessionResourceReleasedItemPSAck", [
    ⟨"PDUSessionID", {}, (.struct 607)⟩,
    ⟨"PathSwitchRequestUnsuccessfulTransfer", {}, .octs⟩,
    ⟨"IEExtensions", { optional := true }, (.ptr (.struct 1121))⟩]⟩, -- 1122
  ⟨"PDUSessionResourceReleasedListPSAck", [
    ⟨"List", { valueExt := true, sizeLB := some (1), sizeUB := some (256) }, (.slice (.struct 1122))⟩]⟩, -- 1123
  ⟨"PathSwitchRequestAcknowledgeIEsValue", [
    ⟨"Present", {}, .int⟩,
    ⟨"AMFUENGAPID", { refValue := some (10) }, (.ptr (.struct 135))⟩,
    ⟨"RANUENGAPID", { refValue := some (85) }, (.ptr (.struct 354))⟩,
    ⟨"UESecurityCapabilities", { valueExt := true, refValue := some (119) }, (.ptr (.struct 669))⟩,
    ⟨"SecurityContext", { valueExt := true, refValue := some (93) }, (.ptr (.struct 675))⟩,
    ⟨"NewSecurityContextInd", { refValue := some (41) }, (.ptr (.struct 676))⟩,
    ⟨"PDUSessionResourceSwitchedList", { refValue := some (77) }, (.ptr (.struct 1118))⟩,
    ⟨"PDUSessionResourceReleasedListPSAck", { refValue := some (68) }, (.ptr (.struct 1123))⟩,
    ⟨"AllowedNSSAI", { refValue := some (0) }, (.ptr (.struct 148))⟩,
    ⟨"CoreNetworkAssistanceInformation", { valueExt := true, refValue := some (18) }, (.ptr (.struct 398))⟩,
    ⟨"RRCInactiveTransitionReportRequest", { refValue := some (91) }, (.ptr (.struct 695))⟩,
    ⟨"CriticalityDiagnostics", { valueExt := true, refValue := some (19) }, (.ptr (.struct 86))⟩]⟩, -- 1124
  ⟨"PathSwitchRequestAcknowledgeIEs", [
    ⟨"Id", {}, (.struct 0)⟩,
    ⟨"Criticality", {}, (.struct 1)⟩,
    ⟨"Value", { openType := true, refField := "Id" }, (.struct 1124)⟩]⟩, -- 1125
  ⟨"ProtocolIEContainerPathSwitchRequestAcknowledgeIEs", [
    ⟨"List", { sizeLB := some (0), sizeUB := some (65535) }, (.slice (.struct 1125))⟩]⟩, -- 1126
  ⟨"PathSwitchRequestAcknowledge", [
    ⟨"ProtocolIEs", {}, (.struct 1126)⟩]⟩, -- 1127
  ⟨"PDUSessionResourceModifyItemModResExtIEsExtensionValue", [
    ⟨"Present", {}, .int⟩]⟩, -- 1128
  ⟨"PDUSessionResourceModifyItemModResExtIEs", [
    ⟨"Id", {}, (.struct 7)⟩,
    ⟨"Criticality", {}, (.struct 1)⟩,
    ⟨"ExtensionValue", { openType := true, refField := "Id" }, (.struct 1128)⟩]⟩, -- 1129
  ⟨"ProtocolExtensionContainerPDUSessionResourceModifyItemModResExtIEs", [
    ⟨"List", { sizeLB := some (1), sizeUB := some (65535) }, (.slice (.struct 1129))⟩]⟩, -- 1130
  ⟨"PDUSessionResourceModifyItemModRes", [
    ⟨"PDUSessionID", {}, (.struct 607)⟩,
    ⟨"PDUSessionResourceModifyResponseTransfer", { optional := true }, (.ptr .octs)⟩,
    ⟨"IEExtensions", { optional := true }, (.ptr (.struct 1130))⟩]⟩, -- 1131
  ⟨"PDUSessionResourceModifyListModRes", [
    ⟨"List", { valueExt := true, sizeLB := some (1), sizeUB := some (256) }, (.slice (.struct 1131))⟩]⟩, -- 1132
  ⟨"PDUSessionResourceFailedToModifyItemModResExtIEsExtensionValue", [
    ⟨"Present", {}, .int⟩]⟩, -- 1133
  ⟨"PDUSessionResourceFailedToModifyItemModResExtIEs", [
    ⟨"Id", {}, (.struct 7)⟩,
    ⟨"Criticality", {}, (.struct 1)⟩,
    ⟨"ExtensionValue", { openType := true, refField := "Id" }, (.struct 1133)⟩]⟩, -- 1134
  ⟨"ProtocolExtensionContainerPDUSessionResourceFailedToModifyItemModResExtIEs", [
    ⟨"List", { sizeLB := some (1), sizeUB := some (65535) }, (.slice (.struct 1134))⟩]⟩, -- 1135
  ⟨"PDUSessionResourceFailedToModifyItemModRes", [
    ⟨"PDUSessionID", {}, (.struct 607)⟩,
    ⟨"PDUSessionResourceModifyUnsuccessfulTransfer", {}, .octs⟩,
    ⟨"IEExtensions", { optional := true }, (.ptr (.struct 1135))⟩]⟩, -- 1136
  ⟨"PDUSessionResourceFailedToModifyListModRes", [
    ⟨"List", { valueExt := true, sizeLB := some (1), sizeUB := some (256) }, (.slice (.struct 1136))⟩]⟩, -- 1137
  ⟨"PDUSessionResourceModifyResponseIEsValue", [
    ⟨"Present", {}, .int⟩,
    ⟨"AMFUENGAPID", { refValue := some (10) }, (.ptr (.struct 135))⟩,
    ⟨"RANUENGAPID", { refValue := some (85) }, (.ptr (.struct 354))⟩,
    ⟨"PDUSessionResourceModifyListModRes", { refValue := some (65) }, (.ptr (.struct 1132))⟩,
    ⟨"PDUSessionResourceFailedToModifyListModRes", { refValue := some (54) }, (.ptr (.struct 1137))⟩,
    ⟨"UserLocationInformation", { valueLB := some (0), valueUB := some (3), refValue := some (121) }, (.ptr (.struct 651))⟩,
    ⟨"CriticalityDiagnostics", { valueExt := true, refValue := some (19) }, (.ptr (.struct 86))⟩]⟩, -- 1138
  ⟨"PDUSessionResourceModifyResponseIEs", [
    ⟨"Id", {}, (.struct 0)⟩,
    ⟨"Criticality", {}, (.struct 1)⟩,
    ⟨"Value", { openType := true, refField := "Id" }, (.struct 1138)⟩]⟩, -- 1139
  ⟨"ProtocolIEContainerPDUSessionResourceModifyResponseIEs", [
    ⟨"List", { sizeLB := some (0), sizeUB := some (65535) }, (.slice (.struct 1139))⟩]⟩, -- 1140
  ⟨"PDUSessionResourceModifyResponse", [
    ⟨"ProtocolIEs", {}, (.struct 1140)⟩]⟩, -- 1141
  ⟨"PDUSessionResourceModifyItemModCfmExtIEsExtensionValue", [
    ⟨"Present", {}, .int⟩]⟩, -- 1142
  ⟨"PDUSessionResourceModifyItemModCfmExtIEs", [
    ⟨"Id", {}, (.struct 7)⟩,
    ⟨"Criticality", {}, (.struct 1)⟩,
    ⟨"ExtensionValue", { openType := true, refField := "Id" }, (.struct 1142)⟩]⟩, -- 1143
  ⟨"ProtocolExtensionContainerPDUSessionResourceModifyItemModCfmExtIEs", [
    ⟨"List", { sizeLB := some (1), sizeUB := some (65535) }, (.slice (.struct 1143))⟩]⟩, -- 1144
  ⟨"PDUSessionResourceModifyItemModCfm", [
    ⟨"PDUSessionID", {}, (.struct 607)⟩,
    ⟨"PDUSessionResourceModifyConfirmTransfer", {}, .octs⟩,
    ⟨"IEExtensions", { optional := true }, (.ptr (.struct 1144))⟩]⟩, -- 1145
  ⟨"PDUSessionResourceModifyListModCfm", [
    ⟨"List", { valueExt := true, sizeLB := some (1), sizeUB := some (256) }, (.slice (.struct 1145))⟩]⟩, -- 1146
  ⟨"PDUSessionResourceFailedToModifyItemModCfmExtIEsExtensionValue", [
    ⟨"Present", {}, .int⟩]⟩, -- 1147
  ⟨"PDUSessionResourceFailedToModifyItemModCfmExtIEs", [
    ⟨"Id", {}, (.struct 7)⟩,
    ⟨"Criticality", {}, (.struct 1)⟩,
    ⟨"ExtensionValue", { openType := true, refField := "Id" }, (.struct 1147)⟩]⟩, -- 1148
  ⟨"ProtocolExtensionContainerPDUSessionResourceFailedToModifyItemModCfmExtIEs", [
    ⟨"List", { sizeLB := some (1), sizeUB := some (65535) }, (.slice (.struct 1148))⟩]⟩, -- 1149
  ⟨"PDUSessionResourceFailedToModifyItemModCfm", [
    ⟨"PDUSessionID", {}, (.struct 607)⟩,
    ⟨"PDUSessionResourceModifyIndicationUnsuccessfulTransfer", {}, .octs⟩,
    ⟨"IEExtensions", { optional := true }, (.ptr (.struct 1149))⟩]⟩, -- 1150
  ⟨"PDUSessionResourceFailedToModifyListModCfm", [
    ⟨"List", { valueExt := true, sizeLB := some (1), sizeUB := some (256) }, (.slice (.struct 1150))⟩]⟩, -- 1151
  ⟨"PDUSessionResourceModifyConfirmIEsValue", [
    ⟨"Present", {}, .int⟩,
    ⟨"AMFUENGAPID", { refValue := some (10) }, (.ptr (.struct 135))⟩,
    ⟨"RANUENGAPID", { refValue := some (85) }, (.ptr (.struct 354))⟩,
    ⟨"PDUSessionResourceModifyListModCfm", { refValue := some (62) }, (.ptr (.struct 1146))⟩,
    ⟨"PDUSessionResourceFailedToModifyListModCfm", { refValue := some (131) }, (.ptr (.struct 1151))⟩,
    ⟨"CriticalityDiagnostics", { valueExt := true, refValue := some (19) }, (.ptr (.struct 86))⟩]⟩, -- 1152
  ⟨"PDUSessionResourceModifyConfirmIEs", [
    ⟨"Id", {}, (.struct 0)⟩,
    ⟨"Criticality", {}, (.struct 1)⟩,
    ⟨"Value", { openType := true, refField := "Id" }, (.struct 1152)⟩]⟩, -- 1153
  ⟨"ProtocolIEContainerPDUSessionResourceModifyConfirmIEs", [
    ⟨"List", { sizeLB := some (0), sizeUB := some (65535) }, (.slice (.struct 1153))⟩]⟩, -- 1154
  ⟨"PDUSessionResourceModifyConfirm", [
    ⟨"ProtocolIEs", {}, (.struct 1154)⟩]⟩, -- 1155
  ⟨"PDUSessionResourceReleasedItemRelResExtIEsExtensionValue", [
    ⟨"Present", {}, .int⟩]⟩, -- 1156
  ⟨"PDUSessionResourceReleasedItemRelResExtIEs", [
    ⟨"Id", {}, (.struct 7)⟩,
    ⟨"Criticality", {}, (.struct 1)⟩,
    ⟨"ExtensionValue", { openType := true, refField := "Id" }, (.struct 1156)⟩]⟩, -- 1157
  ⟨"ProtocolExtensionContainerPDUSessionResourceReleasedItemRelResExtIEs", [
    ⟨"List", { sizeLB := some (1), sizeUB := some (65535) }, (.slice (.struct 1157))⟩]⟩, -- 1158
  ⟨"PDUSessionResourceReleasedItemRelRes", [
    ⟨"PDUSessionID", {}, (.struct 607)⟩,
    ⟨"PDUSessionResourceReleaseResponseTransfer", {}, .octs⟩,
    ⟨"IEExtensions", { optional := true }, (.ptr (.struct 1158))⟩]⟩, -- 1159
  ⟨"PDUSessionResourceReleasedListRelRes", [
    ⟨"List", { valueExt := true, sizeLB := some (1), sizeUB := some (256) }, (.slice (.struct 1159))⟩]⟩, -- 1160
  ⟨"PDUSessionResourceReleaseResponseIEsValue", [
    ⟨"Present", {}, .int⟩,
    ⟨"AMFUENGAPID", { refValue := some (10) }, (.ptr (.struct 135))⟩,
    ⟨"RANUENGAPID", { refValue := some (85) }, (.ptr (.struct 354))⟩,
    ⟨"PDUSessionResourceReleasedListRelRes", { refValue := some (70) }, (.ptr (.struct 1160))⟩,
    ⟨"UserLocationInformation", { valueLB := some (0), valueUB := some (3), refValue := some (121) }, (.ptr (.struct 651))⟩,
    ⟨"CriticalityDiagnostics", { valueExt := true, refValue := some (19) }, (.ptr (.struct 86))⟩]⟩, -- 1161
  ⟨"PDUSessionResourceReleaseResponseIEs", [
    ⟨"Id", {}, (.struct 0)⟩,
    ⟨"Criticality", {}, (.struct 1)⟩,
    ⟨"Value", { openType := true, refField := "Id" }, (.struct 1161)⟩]⟩, -- 1162
  ⟨"ProtocolIEContainerPDUSessionResourceReleaseResponseIEs", [
    ⟨"List", { sizeLB := some (0), sizeUB := some (65535) }, (.slice (.struct 1162))⟩]⟩, -- 1163
  ⟨"PDUSessionResourceReleaseResponse", [
    ⟨"ProtocolIEs", {}, (.struct 1163)⟩]⟩, -- 1164
  ⟨"PDUSessionResourceSetupItemSUResExtIEsExtensionValue", [
    ⟨"Present", {}, .int⟩]⟩, -- 1165
  ⟨"PDUSessionResourceSetupItemSUResExtIEs", [
    ⟨"Id", {}, (.struct 7)⟩,
    ⟨"Criticality", {}, (.struct 1)⟩,
    ⟨"ExtensionValue", { openType := true, refField := "Id" }, (.struct 1165)⟩]⟩, -- 1166
  ⟨"ProtocolExtensionContainerPDUSessionResourceSetupItemSUResExtIEs", [
    ⟨"List", { sizeLB := some (1), sizeUB := some (65535) }, (.slice (.struct 1166))⟩]⟩, -- 1167
  ⟨"PDUSessionResourceSetupItemSURes", [
    ⟨"PDUSessionID", {}, (.struct 607)⟩,
    ⟨"PDUSessionResourceSetupResponseTransfer", {}, .octs⟩,
    ⟨"IEExtensions", { optional := true }, (.ptr (.struct 1167))⟩]⟩, -- 1168
  ⟨"PDUSessionResourceSetupListSURes", [
    ⟨"List", { valueExt := true, sizeLB := some (1), sizeUB := some (256) }, (.slice (.struct 1168))⟩]⟩, -- 1169
  ⟨"PDUSessionResourceFailedToSetupItemSUResExtIEsExtensionValue", [
    ⟨"Present", {}, .int⟩]⟩, -- 1170
  ⟨"PDUSessionResourceFailedToSetupItemSUResExtIEs", [
    ⟨"Id", {}, (.struct 7)⟩,
    ⟨"Criticality", {}, (.struct 1)⟩,
    ⟨"ExtensionValue", { openType := true, refField := "Id" }, (.struct 1170)⟩]⟩, -- 1171
  ⟨"ProtocolExtensionContainerPDUSessionResourceFailedToSetupItemSUResExtIEs", [
    ⟨"List", { sizeLB := some (1), sizeUB := some (65535) }, (.slice (.struct 1171))⟩]⟩, -- 1172
  ⟨"PDUSessionResourceFailedToSetupItemSURes", [
    ⟨"PDUSessionID", {}, (.struct 607)⟩,
    ⟨"PDUSessionResourceSetupUnsuccessfulTransfer", {}, .octs⟩,
    ⟨"IEExtensions", { optional := true }, (.ptr (.struct 1172))⟩]⟩, -- 1173
  ⟨"PDUSessionResourceFailedToSetupListSURes", [
    ⟨"List", { valueExt := true, sizeLB := some (1), sizeUB := some (256) }, (.slice (.struct 1173))⟩]⟩, -- 1174
  ⟨"PDUSessionResourceSetupResponseIEsValue", [
    ⟨"Present", {}, .int⟩,
    ⟨"AMFUENGAPID", { refValue := some (10) }, (.ptr (.struct 135))⟩,
    ⟨"RANUENGAPID", { refValue := some (85) }, (.ptr (.struct 354))⟩,
    ⟨"PDUSessionResourceSetupListSURes", { refValue := some (75) }, (.ptr (.struct 1169))⟩,
    ⟨"PDUSessionResourceFailedToSetupListSURes", { refValue := some (58) }, (.ptr (.struct 1174))⟩,
    ⟨"CriticalityDiagnostics", { valueExt := true, refValue := some (19) }, (.ptr (.struct 86))⟩]⟩, -- 1175
  ⟨"PDUSessionResourceSetupResponseIEs", [
    ⟨"Id", {}, (.struct 0)⟩,
    ⟨"Criticality", {}, (.struct 1)⟩,
    ⟨"Value", { openType := true, refField := "Id" }, (.struct 1175)⟩]⟩, -- 1176
  ⟨"ProtocolIEContainerPDUSessionResourceSetupResponseIEs", [
    ⟨"List", { sizeLB := some (0), sizeUB := some (65535) }, (.slice (.struct 1176))⟩]⟩, -- 1177
  ⟨"PDUSessionResourceSetupResponse", [
    ⟨"ProtocolIEs", {}, (.struct 1177)⟩]⟩, -- 1178
  ⟨"PWSCancelResponseIEsValue", [
    ⟨"Present", {}, .int⟩,
    ⟨"MessageIdentifier", { refValue := some (35) }, (.ptr (.struct 887))⟩,
    ⟨"SerialNumber", { refValue := some (95) }, (.ptr (.struct 888))⟩,
    ⟨"BroadcastCancelledAreaList", { valueLB := some (0), valueUB := some (6), refValue := some (12) }, (.ptr (.struct 272))⟩,
    ⟨"CriticalityDiagnostics", { valueExt := true, refValue := some (19) }, (.ptr (.struct 86))⟩]⟩, -- 1179
  ⟨"PWSCancelResponseIEs", [
    ⟨"Id", {}, (.struct 0)⟩,
    ⟨"Criticality", {}, (.struct 1)⟩,
    ⟨"Value", { openType := true, refField := "Id" }, (.struct 1179)⟩]⟩, -- 1180
  ⟨"ProtocolIEContainerPWSCancelResponseIEs", [
    ⟨"List", { sizeLB := some (0), sizeUB := some (65535) }, (.slice (.struct 1180))⟩]⟩, -- 1181
  ⟨"PWSCancelResponse", [
    ⟨"ProtocolIEs", {}, (.struct 1181)⟩]⟩, -- 1182
  ⟨"RANConfigurationUpdateAcknowledgeIEsValue", [
    ⟨"Present", {}, .int⟩,
    ⟨"CriticalityDiagnostics", { valueExt := true, refValue := some (19) }, (.ptr (.struct 86))⟩]⟩, -- 1183
  ⟨"RANConfigurationUpdateAcknowledgeIEs", [
    ⟨"Id", {}, (.struct 0)⟩,
    ⟨"Criticality", {}, (.struct 1)⟩,
    ⟨"Value", { openType := true, refField := "Id" }, (.struct 1183)⟩]⟩, -- 1184
  ⟨"ProtocolIEContainerRANConfigurationUpdateAcknowledgeIEs", [
    ⟨"List", { sizeLB := some (0), sizeUB := some (65535) }, (.slice (.struct 1184))⟩]⟩, -- 1185
  ⟨"RANConfigurationUpdateAcknowledge", [
    ⟨"ProtocolIEs", {}, (.struct 1185)⟩]⟩, -- 1186
  ⟨"UEContextModificationResponseIEsValue", [
    ⟨"Present", {}, .int⟩,
    ⟨"AMFUENGAPID", { refValue := some (10) }, (.ptr (.struct 135))⟩,
    ⟨"RANUENGAPID", { refValue := some (85) }, (.ptr (.struct 354))⟩,
    ⟨"RRCState", { refValue := some (92) }, (.ptr (.struct 1020))⟩,
    ⟨"UserLocationInformation", { valueLB := some (0), valueUB := some (3), refValue := some (121) }, (.ptr (.struct 651))⟩,
    ⟨"CriticalityDiagnostics", { valueExt := true, refValue := some (19) }, (.ptr (.struct 86))⟩]⟩, -- 1187
  ⟨"UEContextModificationResponseIEs", [
    ⟨"Id", {}, (.struct 0)⟩,
    ⟨"Criticality", {}, (.struct 1)⟩,
    ⟨"Value", { openType := true, refField := "Id" }, (.struct 1187)⟩]⟩, -- 1188
  ⟨"ProtocolIEContainerUEContextModificationResponseIEs", [
    ⟨"List", { sizeLB := some (0), sizeUB := some (65535) }, (.slice (.struct 1188))⟩]⟩, -- 1189
  ⟨"UEContextModificationResponse", [
    ⟨"ProtocolIEs", {}, (.struct 1189)⟩]⟩, -- 1190
  ⟨"PDUSessionResourceItemCxtRelCplExtIEsExtensionValue", [
    ⟨"Present", {}, .int⟩]⟩, -- 1191
  ⟨"PDUSessionResourceItemCxtRelCplExtIEs", [
    ⟨"Id", {}, (.struct 7)⟩,
    ⟨"Criticality", {}, (.struct 1)⟩,
    ⟨"ExtensionValue", { openType := true, refField := "Id" }, (.struct 1191)⟩]⟩, -- 1192
  ⟨"ProtocolExtensionContainerPDUSessionResourceItemCxtRelCplExtIEs", [
    ⟨"List", { sizeLB := some (1), sizeUB := some (65535) }, (.slice (.struct 1192))⟩]⟩, -- 1193
  ⟨"PDUSessionResourceItemCxtRelCpl", [
    ⟨"PDUSessionID", {}, (.struct 607)⟩,
    ⟨"IEExtensions", { optional := true }, (.ptr (.struct 1193))⟩]⟩, -- 1194
  ⟨"PDUSessionResourceListCxtRelCpl", [
    ⟨"List", { valueExt := true, sizeLB := some (1), sizeUB := some (256) }, (.slice (.struct 1194))⟩]⟩, -- 1195
  ⟨"UEContextReleaseCompleteIEsValue", [
    ⟨"Present", {}, .int⟩,
    ⟨"AMFUENGAPID", { refValue := some (10) }, (.ptr (.struct 135))⟩,
    ⟨"RANUENGAPID", { refValue := some (85) }, (.ptr (.struct 354))⟩,
    ⟨"UserLocationInformation", { valueLB := some (0), valueUB := some (3), refValue := some (121) }, (.ptr (.struct 651))⟩,
    ⟨"InfoOnRecommendedCellsAndRANNodesForPaging", { valueExt := true, refValue := some (32) }, (.ptr (.struct 769))⟩,
    ⟨"PDUSessionResourceListCxtRelCpl", { refValue := some (60) }, (.ptr (.struct 1195))⟩,
    ⟨"CriticalityDiagnostics", { valueExt := true, refValue := some (19) }, (.ptr (.struct 86))⟩]⟩, -- 1196
  ⟨"UEContextReleaseCompleteIEs", [
    ⟨"Id", {}, (.struct 0)⟩,
    ⟨"Criticality", {}, (.struct 1)⟩,
    ⟨"Value", { openType := true, refField := "Id" }, (.struct 1196)⟩]⟩, -- 1197
  ⟨"ProtocolIEContainerUEContextReleaseCompleteIEs", [
    ⟨"List", { sizeLB := some (0), sizeUB := some (65535) }, (.slice (.struct 1197))⟩]⟩, -- 1198
  ⟨"UEContextReleaseComplete", [
    ⟨"ProtocolIEs", {}, (.struct 1198)⟩]⟩ -- 1199
]

end Stgutg.Spec.Ts38413Schema
