-- TS 38.413 (v15) abstract syntax of NGAP as a PER-visible schema: a frozen transcription, see Spec/Ts38413Schema.lean for its provenance.
import Stgutg.Model.AperTypes
namespace Stgutg.Spec.Ts38413Schema
open Stgutg.Aper

def schema5 : List StructDef := [
  ⟨"TargetRANNodeID", [
    ⟨"GlobalRANNodeID", { valueLB := some (0), valueUB := some (3) }, (.struct 115)⟩,
    ⟨"SelectedTAI", { valueExt := true }, (.struct 120)⟩,
    ⟨"IEExtensions", { optional := true }, (.ptr (.struct 499))⟩]⟩, -- 500
  ⟨"SourceRANNodeIDExtIEsExtensionValue", [
    ⟨"Present", {}, .int⟩]⟩, -- 501
  ⟨"SourceRANNodeIDExtIEs", [
    ⟨"Id", {}, (.struct 7)⟩,
    ⟨"Criticality", {}, (.struct 1)⟩,
    ⟨"ExtensionValue", { openType := true, refField := "Id" }, (.struct 501)⟩]⟩, -- 502
  ⟨"ProtocolExtensionContainerSourceRANNodeIDExtIEs", [
    ⟨"List", { sizeLB := some (1), sizeUB := some (65535) }, (.slice (.struct 502))⟩]⟩, -- 503
  ⟨"SourceRANNodeID", [
    ⟨"GlobalRANNodeID", { valueLB := some (0), valueUB := some (3) }, (.struct 115)⟩,
    ⟨"SelectedTAI", { valueExt := true }, (.struct 120)⟩,
    ⟨"IEExtensions", { optional := true }, (.ptr (.struct 503))⟩]⟩, -- 504
  ⟨"SONInformationRequest", [
    ⟨"Value", { valueExt := true, valueLB := some (0), valueUB := some (0) }, .enum⟩]⟩, -- 505
  ⟨"XnTLAs", [
    ⟨"List", { sizeLB := some (1), sizeUB := some (16) }, (.slice (.struct 34))⟩]⟩, -- 506
  ⟨"XnGTPTLAs", [
    ⟨"List", { sizeLB := some (1), sizeUB := some (16) }, (.slice (.struct 34))⟩]⟩, -- 507
  ⟨"XnExtTLAItemExtIEsExtensionValue", [
    ⟨"Present", {}, .int⟩]⟩, -- 508
  ⟨"XnExtTLAItemExtIEs", [
    ⟨"Id", {}, (.struct 7)⟩,
    ⟨"Criticality", {}, (.struct 1)⟩,
    ⟨"ExtensionValue", { openType := true, refField := "Id" }, (.struct 508)⟩]⟩, -- 509
  ⟨"ProtocolExtensionContainerXnExtTLAItemExtIEs", [
    ⟨"List", { sizeLB := some (1), sizeUB := some (65535) }, (.slice (.struct 509))⟩]⟩, -- 510
  ⟨"XnExtTLAItem", [
    ⟨"IPsecTLA", { optional := true }, (.ptr (.struct 34))⟩,
    ⟨"GTPTLAs", { optional := true }, (.ptr (.struct 507))⟩,
    ⟨"IEExtensions", { optional := true }, (.ptr (.struct 510))⟩]⟩, -- 511
  ⟨"XnExtTLAs", [
    ⟨"List", { valueExt := true, sizeLB := some (1), sizeUB := some (2) }, (.slice (.struct 511))⟩]⟩, -- 512
  ⟨"XnTNLConfigurationInfoExtIEsExtensionValue", [
    ⟨"Present", {}, .int⟩]⟩, -- 513
  ⟨"XnTNLConfigurationInfoExtIEs", [
    ⟨"Id", {}, (.struct 7)⟩,
    ⟨"Criticality", {}, (.struct 1)⟩,
    ⟨"ExtensionValue", { openType := true, refField := "Id" }, (.struct 513)⟩]⟩, -- 514
  ⟨"ProtocolExtensionContainerXnTNLConfigurationInfoExtIEs", [
    ⟨"List", { sizeLB := some (1), sizeUB := some (65535) }, (.slice (.struct 514))⟩]⟩, -- 515
  ⟨"XnTNLConfigurationInfo", [
    ⟨"XnTransportLayerAddresses", {}, (.struct 506)⟩,
    ⟨"XnExtendedTransportLayerAddresses", { optional := true }, (.ptr (.struct 512))⟩,
    ⟨"IEExtensions", { optional := true }, (.ptr (.struct 515))⟩]⟩, -- 516
  ⟨"SONInformationReplyExtIEsExtensionValue", [
    ⟨"Present", {}, .int⟩]⟩, -- 517
  ⟨"SONInformationReplyExtIEs", [
    ⟨"Id", {}, (.struct 7)⟩,
    ⟨"Criticality", {}, (.struct 1)⟩,
    ⟨"ExtensionValue", { openType := true, refField := "Id" }, (.struct 517)⟩]⟩, -- 518
  ⟨"ProtocolExtensionContainerSONInformationReplyExtIEs", [
    ⟨"List", { sizeLB := some (1), sizeUB := some (65535) }, (.slice (.struct 518))⟩]⟩, -- 519
  ⟨"SONInformationReply", [
    ⟨"XnTNLConfigurationInfo", { optional := true, valueExt := true }, (.ptr (.struct 516))⟩,
    ⟨"IEExtensions", { optional := true }, (.ptr (.struct 519))⟩]⟩, -- 520
  ⟨"ProtocolIESingleContainerSONInformationExtIEs", []⟩, -- 521
  ⟨"SONInformation", [
    ⟨"Present", {}, .int⟩,
    ⟨"SONInformationRequest", {}, (.ptr (.struct 505))⟩,
    ⟨"SONInformationReply", { valueExt := true }, (.ptr (.struct 520))⟩,
    ⟨"ChoiceExtensions", {}, (.ptr (.struct 521))⟩]⟩, -- 522
  ⟨"SONConfigurationTransferExtIEsExtensionValue", [
    ⟨"Present", {}, .int⟩]⟩, -- 523
  ⟨"SONConfigurationTransferExtIEs", [
    ⟨"Id", {}, (.struct 7)⟩,
    ⟨"Criticality", {}, (.struct 1)⟩,
    ⟨"ExtensionValue", { openType := true, refField := "Id" }, (.struct 523)⟩]⟩, -- 524
  ⟨"ProtocolExtensionContainerSONConfigurationTransferExtIEs", [
    ⟨"List", { sizeLB := some (1), sizeUB := some (65535) }, (.slice (.struct 524))⟩]⟩, -- 525
  ⟨"SONConfigurationTransfer", [
    ⟨"TargetRANNodeID", { valueExt := true }, (.struct 500)⟩,
    ⟨"SourceRANNodeID", { valueExt := true }, (.struct 504)⟩,
    ⟨"SONInformation", { valueLB := some (0), valueUB := some (2) }, (.struct 522)⟩,
    ⟨"XnTNLConfigurationInfo", { valueExt := true }, (.struct 516)⟩,
    ⟨"IEExtensions", { optional := true }, (.ptr (.struct 525))⟩]⟩, -- 526
  ⟨"DownlinkRANConfigurationTransferIEsValue", [
    ⟨"Present", {}, .int⟩,
    ⟨"SONConfigurationTransferDL", { valueExt := true, refValue := some (98) }, (.ptr (.struct 526))⟩]⟩, -- 527
  ⟨"DownlinkRANConfigurationTransferIEs", [
    ⟨"Id", {}, (.struct 0)⟩,
    ⟨"Criticality", {}, (.struct 1)⟩,
    ⟨"Value", { openType := true, refField := "Id" }, (.struct 527)⟩]⟩, -- 528
  ⟨"ProtocolIEContainerDownlinkRANConfigurationTransferIEs", [
    ⟨"List", { sizeLB := some (0), sizeUB := some (65535) }, (.slice (.struct 528))⟩]⟩, -- 529
  ⟨"DownlinkRANConfigurationTransfer", [
    ⟨"ProtocolIEs", {}, (.struct 529)⟩]⟩, -- 530
  ⟨"RANStatusTransferTransparentContainerExtIEsExtensionValue", [
    ⟨"Present", {}, .int⟩]⟩, -- 531
  ⟨"RANStatusTransferTransparentContainerExtIEs", [
    ⟨"Id", {}, (.struct 7)⟩,
    ⟨"Criticality", {}, (.struct 1)⟩,
    ⟨"ExtensionValue", { openType := true, refField := "Id" }, (.struct 531)⟩]⟩, -- 532
  ⟨"ProtocolExtensionContainerRANStatusTransferTransparentContainerExtIEs", [
    ⟨"List", { sizeLB := some (1), sizeUB := some (65535) }, (.slice (.struct 532))⟩]⟩, -- 533
  ⟨"RANStatusTransferTransparentContainer", [
    ⟨"DRBsSubjectToStatusTransferList", {}, (.struct 430)⟩,
    ⟨"IEExtensions", { optional := true }, (.ptr (.struct 533))⟩]⟩, -- 534
  ⟨"DownlinkRANStatusTransferIEsValue", [
    ⟨"Present", {}, .int⟩,
    ⟨"AMFUENGAPID", { refValue := some (10) }, (.ptr (.struct 135))⟩,
    ⟨"RANUENGAPID", { refValue := some (85) }, (.ptr (.struct 354))⟩,
    ⟨"RANStatusTransferTransparentContainer", { valueExt := true, refValue := some (84) }, (.ptr (.struct 534))⟩]⟩, -- 535
  ⟨"DownlinkRANStatusTransferIEs", [
    ⟨"Id", {}, (.struct 0)⟩,
    ⟨"Criticality", {}, (.struct 1)⟩,
    ⟨"Value", { openType := true, refField := "Id" }, (.struct 535)⟩]⟩, -- 536
  ⟨"ProtocolIEContainerDownlinkRANStatusTransferIEs", [
    ⟨"List", { sizeLB := some (0), sizeUB := some (65535) }, (.slice (.struct 536))⟩]⟩, -- 537
  ⟨"DownlinkRANStatusTransfer", [
    ⟨"ProtocolIEs", {}, (.struct 537)⟩]⟩, -- 538
  ⟨"DownlinkUEAssociatedNRPPaTransportIEsValue", [
    ⟨"Present", {}, .int⟩,
    ⟨"AMFUENGAPID", { refValue := some (10) }, (.ptr (.struct 135))⟩,
    ⟨"RANUENGAPID", { refValue := some (85) }, (.ptr (.struct 354))⟩,
    ⟨"RoutingID", { refValue := some (89) }, (.ptr (.struct 491))⟩,
    ⟨"NRPPaPDU", { refValue := some (46) }, (.ptr (.struct 492))⟩]⟩, -- 539
  ⟨"DownlinkUEAssociatedNRPPaTransportIEs", [
    ⟨"Id", {}, (.struct 0)⟩,
    ⟨"Criticality", {}, (.struct 1)⟩,
    ⟨"Value", { openType := true, refField := "Id" }, (.struct 539)⟩]⟩, -- 540
  ⟨"ProtocolIEContainerDownlinkUEAssociatedNRPPaTransportIEs", [
    ⟨"List", { sizeLB := some (0), sizeUB := some (65535) }, (.slice (.struct 540))⟩]⟩, -- 541
  ⟨"DownlinkUEAssociatedNRPPaTransport", [
    ⟨"ProtocolIEs", {}, (.struct 541)⟩]⟩, -- 542
  ⟨"PriorityLevelQos", [
    ⟨"Value", { valueExt := true, valueLB := some (1), valueUB := some (127) }, .int⟩]⟩, -- 543
  ⟨"PacketDelayBudget", [
    ⟨"Value", { valueExt := true, valueLB := some (0), valueUB := some (1023) }, .int⟩]⟩, -- 544
  ⟨"PacketErrorRateExtIEsExtensionValue", [
    ⟨"Present", {}, .int⟩]⟩, -- 545
  ⟨"PacketErrorRateExtIEs", [
    ⟨"Id", {}, (.struct 7)⟩,
    ⟨"Criticality", {}, (.struct 1)⟩,
    ⟨"ExtensionValue", { openType := true, refField := "Id" }, (.struct 545)⟩]⟩, -- 546
  ⟨"ProtocolExtensionContainerPacketErrorRateExtIEs", [
    ⟨"List", { sizeLB := some (1), sizeUB := some (65535) }, (.slice (.struct 546))⟩]⟩, -- 547
  ⟨"PacketErrorRate", [
    ⟨"PERScalar", { valueExt := true, valueLB := some (0), valueUB := some (9) }, .int⟩,
    ⟨"PERExponent", { valueExt := true, valueLB := some (0), valueUB := some (9) }, .int⟩,
    ⟨"IEExtensions", { optional := true }, (.ptr (.struct 547))⟩]⟩, -- 548
  ⟨"FiveQI", [
    ⟨"Value", { valueExt := true, valueLB := some (0), valueUB := some (255) }, .int⟩]⟩, -- 549
  ⟨"MaximumDataBurstVolume", [
    ⟨"Value", { valueExt := true, valueLB := some (0), valueUB := some (4095) }, .int⟩]⟩, -- 550
  ⟨"Dynamic5QIDescriptorExtIEsExtensionValue", [
    ⟨"Present", {}, .int⟩]⟩, -- 551
  ⟨"Dynamic5QIDescriptorExtIEs", [
    ⟨"Id", {}, (.struct 7)⟩,
    ⟨"Criticality", {}, (.struct 1)⟩,
    ⟨"ExtensionValue", { openType := true, refField := "Id" }, (.struct 551)⟩]⟩, -- 552
  ⟨"ProtocolExtensionContainerDynamic5QIDescriptorExtIEs", [
    ⟨"List", { sizeLB := some (1), sizeUB := some (65535) }, (.slice (.struct 552))⟩]⟩, -- 553
  ⟨"Dynamic5QIDescriptor", [
    ⟨"PriorityLevelQos", {}, (.struct 543)⟩,
    ⟨"PacketDelayBudget", {}, (.struct 544)⟩,
    ⟨"PacketErrorRate", { valueExt := true }, (.struct 548)⟩,
    ⟨"FiveQI", { optional := true }, (.ptr (.struct 549))⟩,
    ⟨"DelayCritical", { optional := true }, (.ptr (.struct 455))⟩,
    ⟨"AveragingWindow", { optional := true }, (.ptr (.struct 217))⟩,
    ⟨"MaximumDataBurstVolume", { optional := true }, (.ptr (.struct 550))⟩,
    ⟨"IEExtensions", { optional := true }, (.ptr (.struct 553))⟩]⟩, -- 554
  ⟨"EPSTAC", [
    ⟨"Value", { sizeLB := some (2), sizeUB := some (2) }, .octs⟩]⟩, -- 555
  ⟨"EPSTAIExtIEsExtensionValue", [
    ⟨"Present", {}, .int⟩]⟩, -- 556
  ⟨"EPSTAIExtIEs", [
    ⟨"Id", {}, (.struct 7)⟩,
    ⟨"Criticality", {}, (.struct 1)⟩,
    ⟨"ExtensionValue", { openType := true, refField := "Id" }, (.struct 556)⟩]⟩, -- 557
  ⟨"ProtocolExtensionContainerEPSTAIExtIEs", [
    ⟨"List", { sizeLB := some (1), sizeUB := some (65535) }, (.slice (.struct 557))⟩]⟩, -- 558
  ⟨"EPSTAI", [
    ⟨"PLMNIdentity", {}, (.struct 3)⟩,
    ⟨"EPSTAC", {}, (.struct 555)⟩,
    ⟨"IEExtensions", { optional := true }, (.ptr (.struct 558))⟩]⟩, -- 559
  ⟨"ERABID", [
    ⟨"Value", { valueExt := true, valueLB := some (0), valueUB := some (15) }, .int⟩]⟩, -- 560
  ⟨"ERABInformationItemExtIEsExtensionValue", [
    ⟨"Present", {}, .int⟩]⟩, -- 561
  ⟨"ERABInformationItemExtIEs", [
    ⟨"Id", {}, (.struct 7)⟩,
    ⟨"Criticality", {}, (.struct 1)⟩,
    ⟨"ExtensionValue", { openType := true, refField := "Id" }, (.struct 561)⟩]⟩, -- 562
  ⟨"ProtocolExtensionContainerERABInformationItemExtIEs", [
    ⟨"List", { sizeLB := some (1), sizeUB := some (65535) }, (.slice (.struct 562))⟩]⟩, -- 563
  ⟨"ERABInformationItem", [
    ⟨"ERABID", {}, (.struct 560)⟩,
    ⟨"DLForwarding", { optional := true }, (.ptr (.struct 399))⟩,
    ⟨"IEExtensions", { optional := true }, (.ptr (.struct 563))⟩]⟩, -- 564
  ⟨"ERABInformationList", [
    ⟨"List", { valueExt := true, sizeLB := some (1), sizeUB := some (256) }, (.slice (.struct 564))⟩]⟩, -- 565
  ⟨"EUTRACGIListForWarning", [
    ⟨"List", { valueExt := true, sizeLB := some (1), sizeUB := some (65535) }, (.slice (.struct 164))⟩]⟩, -- 566
  ⟨"EUTRAencryptionAlgorithms", [
    ⟨"Value", { sizeExt := true, sizeLB := some (16), sizeUB := some (16) }, .bits⟩]⟩, -- 567
  ⟨"EUTRAintegrityProtectionAlgorithms", [
    ⟨"Value", { sizeExt := true, sizeLB := some (16), sizeUB := some (16) }, .bits⟩]⟩, -- 568
  ⟨"EmergencyAreaIDList", [
    ⟨"List", { sizeLB := some (1), sizeUB := some (65535) }, (.slice (.struct 235))⟩]⟩, -- 569
  ⟨"EmergencyAreaIDListForRestart", [
    ⟨"List", { sizeLB := some (1), sizeUB := some (256) }, (.slice (.struct 235))⟩]⟩, -- 570
  ⟨"EmergencyFallbackRequestIndicator", [
    ⟨"Value", { valueExt := true, valueLB := some (0), valueUB := some (0) }, .enum⟩]⟩, -- 571
  ⟨"EmergencyServiceTargetCN", [
    ⟨"Value", { valueExt := true, valueLB := some (0), valueUB := some (1) }, .enum⟩]⟩, -- 572
  ⟨"EmergencyFallbackIndicatorExtIEsExtensionValue", [
    ⟨"Present", {}, .int⟩]⟩, -- 573
  ⟨"EmergencyFallbackIndicatorExtIEs", [
    ⟨"Id", {}, (.struct 7)⟩,
    ⟨"Criticality", {}, (.struct 1)⟩,
    ⟨"ExtensionValue", { openType := true, refField := "Id" }, (.struct 573)⟩]⟩, -- 574
  ⟨"ProtocolExtensionContainerEmergencyFallbackIndicatorExtIEs", [
    ⟨"List", { sizeLB := some (1), sizeUB := some (65535) }, (.slice (.struct 574))⟩]⟩, -- 575
  ⟨"EmergencyFallbackIndicator", [
    ⟨"EmergencyFallbackRequestIndicator", {}, (.struct 571)⟩,
    ⟨"EmergencyServiceTargetCN", { optional := true }, (.ptr (.struct 572))⟩,
    ⟨"IEExtensions", { optional := true }, (.ptr (.struct 575))⟩]⟩, -- 576
  ⟨"ErrorIndicationIEsValue", [
    ⟨"Present", {}, .int⟩,
    ⟨"AMFUENGAPID", { refValue := some (10) }, (.ptr (.struct 135))⟩,
    ⟨"RANUENGAPID", { refValue := some (85) }, (.ptr (.struct 354))⟩,
    ⟨"Cause", { valueLB := some (0), valueUB := some (5), refValue := some (15) }, (.ptr (.struct 69))⟩,
    ⟨"CriticalityDiagnostics", { valueExt := true, refValue := some (19) }, (.ptr (.struct 86))⟩]⟩, -- 577
  ⟨"ErrorIndicationIEs", [
    ⟨"Id", {}, (.struct 0)⟩,
    ⟨"Criticality", {}, (.struct 1)⟩,
    ⟨"Value", { openType := true, refField := "Id" }, (.struct 577)⟩]⟩, -- 578
  ⟨"ProtocolIEContainerErrorIndicationIEs", [
    ⟨"List", { sizeLB := some (0), sizeUB := some (65535) }, (.slice (.struct 578))⟩]⟩, -- 579
  ⟨"ErrorIndication", [
    ⟨"ProtocolIEs", {}, (.struct 579)⟩]⟩, -- 580
  ⟨"EventType", [
    ⟨"Value", { valueExt := true, valueLB := some (0), valueUB := some (5) }, .enum⟩]⟩, -- 581
  ⟨"FiveGTMSI", [
    ⟨"Value", { sizeLB := some (4), sizeUB := some (4) }, .octs⟩]⟩, -- 582
  ⟨"FiveGSTMSIExtIEsExtensionValue", [
    ⟨"Present", {}, .int⟩]⟩, -- 583
  ⟨"FiveGSTMSIExtIEs", [
    ⟨"Id", {}, (.struct 7)⟩,
    ⟨"Criticality", {}, (.struct 1)⟩,
    ⟨"ExtensionValue", { openType := true, refField := "Id" }, (.struct 583)⟩]⟩, -- 584
  ⟨"ProtocolExtensionContainerFiveGSTMSIExtIEs", [
    ⟨"List", { sizeLB := some (1), sizeUB := some (65535) }, (.slice (.struct 584))⟩]⟩, -- 585
  ⟨"FiveGSTMSI", [
    ⟨"AMFSetID", {}, (.struct 5)⟩,
    ⟨"AMFPointer", {}, (.struct 6)⟩,
    ⟨"FiveGTMSI", {}, (.struct 582)⟩,
    ⟨"IEExtensions", { optional := true }, (.ptr (.struct 585))⟩]⟩, -- 586
  ⟨"NotificationControl", [
    ⟨"Value", { valueExt := true, valueLB := some (0), valueUB := some (0) }, .enum⟩]⟩, -- 587
  ⟨"PacketLossRate", [
    ⟨"Value", { valueExt := true, valueLB := some (0), valueUB := some (1000) }, .int⟩]⟩, -- 588
  ⟨"GBRQosInformationExtIEsExtensionValue", [
    ⟨"Present", {}, .int⟩]⟩, -- 589
  ⟨"GBRQosInformationExtIEs", [
    ⟨"Id", {}, (.struct 7)⟩,
    ⟨"Criticality", {}, (.struct 1)⟩,
    ⟨"ExtensionValue", { openType := true, refField := "Id" }, (.struct 589)⟩]⟩, -- 590
  ⟨"ProtocolExtensionContainerGBRQosInformationExtIEs", [
    ⟨"List", { sizeLB := some (1), sizeUB := some (65535) }, (.slice (.struct 590))⟩]⟩, -- 591
  ⟨"GBRQosInformation", [
    ⟨"MaximumFlowBitRateDL", {}, (.struct 218)⟩,
    ⟨"MaximumFlowBitRateUL", {}, (.struct 218)⟩,
    ⟨"GuaranteedFlowBitRateDL", {}, (.struct 218)⟩,
    ⟨"GuaranteedFlowBitRateUL", {}, (.struct 218)⟩,
    ⟨"NotificationControl", { optional := true }, (.ptr (.struct 587))⟩,
    ⟨"MaximumPacketLossRateDL", { optional := true }, (.ptr (.struct 588))⟩,
    ⟨"MaximumPacketLossRateUL", { optional := true }, (.ptr (.struct 588))⟩,
    ⟨"IEExtensions", { optional := true }, (.ptr (.struct 591))⟩]⟩, -- 592
  ⟨"GNBIDExtIEsValue", [
    ⟨"Present", {}, .int⟩]⟩, -- 593
  ⟨"GNBIDExtIEs", [
    ⟨"Id", {}, (.struct 0)⟩,
    ⟨"Criticality", {}, (.struct 1)⟩,
    ⟨"Value", { openType := true, refField := "Id" }, (.struct 593)⟩]⟩, -- 594
  ⟨"GlobalRANNodeIDExtIEsValue", [
    ⟨"Present", {}, .int⟩]⟩, -- 595
  ⟨"GlobalRANNodeIDExtIEs", [
    ⟨"Id", {}, (.struct 0)⟩,
    ⟨"Criticality", {}, (.struct 1)⟩,
    ⟨"Value", { openType := true, refField := "Id" }, (.struct 595)⟩]⟩, -- 596
  ⟨"HandoverCancelIEsValue", [
    ⟨"Present", {}, .int⟩,
    ⟨"AMFUENGAPID", { refValue := some (10) }, (.ptr (.struct 135))⟩,
    ⟨"RANUENGAPID", { refValue := some (85) }, (.ptr (.struct 354))⟩,
    ⟨"Cause", { valueLB := some (0), valueUB := some (5), refValue := some (15) }, (.ptr (.struct 69))⟩]⟩, -- 597
  ⟨"HandoverCancelIEs", [
    ⟨"Id", {}, (.struct 0)⟩,
    ⟨"Criticality", {}, (.struct 1)⟩,
    ⟨"Value", { openType := true, refField := "Id" }, (.struct 597)⟩]⟩, -- 598
  ⟨"ProtocolIEContainerHandoverCancelIEs", [
    ⟨"List", { sizeLB := some (0), sizeUB := some (65535) }, (.slice (.struct 598))⟩]⟩ -- 599
]

end Stgutg.Spec.Ts38413Schema
