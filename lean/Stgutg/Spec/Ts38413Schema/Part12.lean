-- TS 38.413 (v15) abstract syntax of NGAP as a PER-visible schema: a frozen transcription, see Spec/Ts38413Schema.lean for its provenance.
import Stgutg.Model.AperTypes
namespace Stgutg.Spec.Ts38413Schema
open Stgutg.Aper

def schema12 : List StructDef := [
  ⟨"UERadioCapabilityCheckResponseIEsValue", [
    ⟨"Present", {}, .int⟩,
    ⟨"AMFUENGAPID", { refValue := some (10) }, (.ptr (.struct 135))⟩,
    ⟨"RANUENGAPID", { refValue := some (85) }, (.ptr (.struct 354))⟩,
    ⟨"IMSVoiceSupportIndicator", { refValue := some (30) }, (.ptr (.struct 756))⟩,
    ⟨"CriticalityDiagnostics", { valueExt := true, refValue := some (19) }, (.ptr (.struct 86))⟩]⟩, -- 1200
  ⟨"UERadioCapabilityCheckResponseIEs", [
    ⟨"Id", {}, (.struct 0)⟩,
    ⟨"Criticality", {}, (.struct 1)⟩,
    ⟨"Value", { openType := true, refField := "Id" }, (.struct 1200)⟩]⟩, -- 1201
  ⟨"ProtocolIEContainerUERadioCapabilityCheckResponseIEs", [
    ⟨"List", { sizeLB := some (0), sizeUB := some (65535) }, (.slice (.struct 1201))⟩]⟩, -- 1202
  ⟨"UERadioCapabilityCheckResponse", [
    ⟨"ProtocolIEs", {}, (.struct 1202)⟩]⟩, -- 1203
  ⟨"WriteReplaceWarningResponseIEsValue", [
    ⟨"Present", {}, .int⟩,
    ⟨"MessageIdentifier", { refValue := some (35) }, (.ptr (.struct 887))⟩,
    ⟨"SerialNumber", { refValue := some (95) }, (.ptr (.struct 888))⟩,
    ⟨"BroadcastCompletedAreaList", { valueLB := some (0), valueUB := some (6), refValue := some (13) }, (.ptr (.struct 326))⟩,
    ⟨"CriticalityDiagnostics", { valueExt := true, refValue := some (19) }, (.ptr (.struct 86))⟩]⟩, -- 1204
  ⟨"WriteReplaceWarningResponseIEs", [
    ⟨"Id", {}, (.struct 0)⟩,
    ⟨"Criticality", {}, (.struct 1)⟩,
    ⟨"Value", { openType := true, refField := "Id" }, (.struct 1204)⟩]⟩, -- 1205
  ⟨"ProtocolIEContainerWriteReplaceWarningResponseIEs", [
    ⟨"List", { sizeLB := some (0), sizeUB := some (65535) }, (.slice (.struct 1205))⟩]⟩, -- 1206
  ⟨"WriteReplaceWarningResponse", [
    ⟨"ProtocolIEs", {}, (.struct 1206)⟩]⟩, -- 1207
  ⟨"SuccessfulOutcomeValue", [
    ⟨"Present", {}, .int⟩,
    ⟨"AMFConfigurationUpdateAcknowledge", { valueExt := true, refValue := some (0) }, (.ptr (.struct 90))⟩,
    ⟨"HandoverCancelAcknowledge", { valueExt := true, refValue := some (10) }, (.ptr (.struct 604))⟩,
    ⟨"HandoverCommand", { valueExt := true, refValue := some (12) }, (.ptr (.struct 622))⟩,
    ⟨"HandoverRequestAcknowledge", { valueExt := true, refValue := some (13) }, (.ptr (.struct 713))⟩,
    ⟨"InitialContextSetupResponse", { valueExt := true, refValue := some (14) }, (.ptr (.struct 808))⟩,
    ⟨"NGResetAcknowledge", { valueExt := true, refValue := some (20) }, (.ptr (.struct 1109))⟩,
    ⟨"NGSetupResponse", { valueExt := true, refValue := some (21) }, (.ptr (.struct 1113))⟩,
    ⟨"PathSwitchRequestAcknowledge", { valueExt := true, refValue := some (25) }, (.ptr (.struct 1127))⟩,
    ⟨"PDUSessionResourceModifyResponse", { valueExt := true, refValue := some (26) }, (.ptr (.struct 1141))⟩,
    ⟨"PDUSessionResourceModifyConfirm", { valueExt := true, refValue := some (27) }, (.ptr (.struct 1155))⟩,
    ⟨"PDUSessionResourceReleaseResponse", { valueExt := true, refValue := some (28) }, (.ptr (.struct 1164))⟩,
    ⟨"PDUSessionResourceSetupResponse", { valueExt := true, refValue := some (29) }, (.ptr (.struct 1178))⟩,
    ⟨"PWSCancelResponse", { valueExt := true, refValue := some (32) }, (.ptr (.struct 1182))⟩,
    ⟨"RANConfigurationUpdateAcknowledge", { valueExt := true, refValue := some (35) }, (.ptr (.struct 1186))⟩,
    ⟨"UEContextModificationResponse", { valueExt := true, refValue := some (40) }, (.ptr (.struct 1190))⟩,
    ⟨"UEContextReleaseComplete", { valueExt := true, refValue := some (41) }, (.ptr (.struct 1199))⟩,
    ⟨"UERadioCapabilityCheckResponse", { valueExt := true, refValue := some (43) }, (.ptr (.struct 1203))⟩,
    ⟨"WriteReplaceWarningResponse", { valueExt := true, refValue := some (51) }, (.ptr (.struct 1207))⟩]⟩, -- 1208
  ⟨"SuccessfulOutcome", [
    ⟨"ProcedureCode", {}, (.struct 75)⟩,
    ⟨"Criticality", {}, (.struct 1)⟩,
    ⟨"Value", { openType := true, refField := "ProcedureCode" }, (.struct 1208)⟩]⟩, -- 1209
  ⟨"NGSetupFailureIEsValue", [
    ⟨"Present", {}, .int⟩,
    ⟨"Cause", { valueLB := some (0), valueUB := some (5), refValue := some (15) }, (.ptr (.struct 69))⟩,
    ⟨"TimeToWait", { refValue := some (107) }, (.ptr (.struct 91))⟩,
    ⟨"CriticalityDiagnostics", { valueExt := true, refValue := some (19) }, (.ptr (.struct 86))⟩]⟩, -- 1210
  ⟨"NGSetupFailureIEs", [
    ⟨"Id", {}, (.struct 0)⟩,
    ⟨"Criticality", {}, (.struct 1)⟩,
    ⟨"Value", { openType := true, refField := "Id" }, (.struct 1210)⟩]⟩, -- 1211
  ⟨"ProtocolIEContainerNGSetupFailureIEs", [
    ⟨"List", { sizeLB := some (0), sizeUB := some (65535) }, (.slice (.struct 1211))⟩]⟩, -- 1212
  ⟨"NGSetupFailure", [
    ⟨"ProtocolIEs", {}, (.struct 1212)⟩]⟩, -- 1213
  ⟨"PDUSessionResourceReleasedItemPSFailExtIEsExtensionValue", [
    ⟨"Present", {}, .int⟩]⟩, -- 1214
  ⟨"PDUSessionResourceReleasedItemPSFailExtIEs", [
    ⟨"Id", {}, (.struct 7)⟩,
    ⟨"Criticality", {}, (.struct 1)⟩,
    ⟨"ExtensionValue", { openType := true, refField := "Id" }, (.struct 1214)⟩]⟩, -- 1215
  ⟨"ProtocolExtensionContainerPDUSessionResourceReleasedItemPSFailExtIEs", [
    ⟨"List", { sizeLB := some (1), sizeUB := some (65535) }, (.slice (.struct 1215))⟩]⟩, -- 1216
  ⟨"PDUSessionResourceReleasedItemPSFail", [
    ⟨"PDUSessionID", {}, (.struct 607)⟩,
    ⟨"PathSwitchRequestUnsuccessfulTransfer", {}, .octs⟩,
    ⟨"IEExtensions", { optional := true }, (.ptr (.struct 1216))⟩]⟩, -- 1217
  ⟨"PDUSessionResourceReleasedListPSFail", [
    ⟨"List", { valueExt := true, sizeLB := some (1), sizeUB := some (256) }, (.slice (.struct 1217))⟩]⟩, -- 1218
  ⟨"PathSwitchRequestFailureIEsValue", [
    ⟨"Present", {}, .int⟩,
    ⟨"AMFUENGAPID", { refValue := some (10) }, (.ptr (.struct 135))⟩,
    ⟨"RANUENGAPID", { refValue := some (85) }, (.ptr (.struct 354))⟩,
    ⟨"PDUSessionResourceReleasedListPSFail", { refValue := some (69) }, (.ptr (.struct 1218))⟩,
    ⟨"CriticalityDiagnostics", { valueExt := true, refValue := some (19) }, (.ptr (.struct 86))⟩]⟩, -- 1219
  ⟨"PathSwitchRequestFailureIEs", [
    ⟨"Id", {}, (.struct 0)⟩,
    ⟨"Criticality", {}, (.struct 1)⟩,
    ⟨"Value", { openType := true, refField := "Id" }, (.struct 1219)⟩]⟩, -- 1220
  ⟨"ProtocolIEContainerPathSwitchRequestFailureIEs", [
    ⟨"List", { sizeLB := some (0), sizeUB := some (65535) }, (.slice (.struct 1220))⟩]⟩, -- 1221
  ⟨"PathSwitchRequestFailure", [
    ⟨"ProtocolIEs", {}, (.struct 1221)⟩]⟩, -- 1222
  ⟨"RANConfigurationUpdateFailureIEsValue", [
    ⟨"Present", {}, .int⟩,
    ⟨"Cause", { valueLB := some (0), valueUB := some (5), refValue := some (15) }, (.ptr (.struct 69))⟩,
    ⟨"TimeToWait", { refValue := some (107) }, (.ptr (.struct 91))⟩,
    ⟨"CriticalityDiagnostics", { valueExt := true, refValue := some (19) }, (.ptr (.struct 86))⟩]⟩, -- 1223
  ⟨"RANConfigurationUpdateFailureIEs", [
    ⟨"Id", {}, (.struct 0)⟩,
    ⟨"Criticality", {}, (.struct 1)⟩,
    ⟨"Value", { openType := true, refField := "Id" }, (.struct 1223)⟩]⟩, -- 1224
  ⟨"ProtocolIEContainerRANConfigurationUpdateFailureIEs", [
    ⟨"List", { sizeLB := some (0), sizeUB := some (65535) }, (.slice (.struct 1224))⟩]⟩, -- 1225
  ⟨"RANConfigurationUpdateFailure", [
    ⟨"ProtocolIEs", {}, (.struct 1225)⟩]⟩, -- 1226
  ⟨"UEContextModificationFailureIEsValue", [
    ⟨"Present", {}, .int⟩,
    ⟨"AMFUENGAPID", { refValue := some (10) }, (.ptr (.struct 135))⟩,
    ⟨"RANUENGAPID", { refValue := some (85) }, (.ptr (.struct 354))⟩,
    ⟨"Cause", { valueLB := some (0), valueUB := some (5), refValue := some (15) }, (.ptr (.struct 69))⟩,
    ⟨"CriticalityDiagnostics", { valueExt := true, refValue := some (19) }, (.ptr (.struct 86))⟩]⟩, -- 1227
  ⟨"UEContextModificationFailureIEs", [
    ⟨"Id", {}, (.struct 0)⟩,
    ⟨"Criticality", {}, (.struct 1)⟩,
    ⟨"Value", { openType := true, refField := "Id" }, (.struct 1227)⟩]⟩, -- 1228
  ⟨"ProtocolIEContainerUEContextModificationFailureIEs", [
    ⟨"List", { sizeLB := some (0), sizeUB := some (65535) }, (.slice (.struct 1228))⟩]⟩, -- 1229
  ⟨"UEContextModificationFailure", [
    ⟨"ProtocolIEs", {}, (.struct 1229)⟩]⟩, -- 1230
  ⟨"UnsuccessfulOutcomeValue", [
    ⟨"Present", {}, .int⟩,
    ⟨"AMFConfigurationUpdateFailure", { valueExt := true, refValue := some (0) }, (.ptr (.struct 95))⟩,
    ⟨"HandoverPreparationFailure", { valueExt := true, refValue := some (12) }, (.ptr (.struct 659))⟩,
    ⟨"HandoverFailure", { valueExt := true, refValue := some (13) }, (.ptr (.struct 635))⟩,
    ⟨"InitialContextSetupFailure", { valueExt := true, refValue := some (14) }, (.ptr (.struct 778))⟩,
    ⟨"NGSetupFailure", { valueExt := true, refValue := some (21) }, (.ptr (.struct 1213))⟩,
    ⟨"PathSwitchRequestFailure", { valueExt := true, refValue := some (25) }, (.ptr (.struct 1222))⟩,
    ⟨"RANConfigurationUpdateFailure", { valueExt := true, refValue := some (35) }, (.ptr (.struct 1226))⟩,
    ⟨"UEContextModificationFailure", { valueExt := true, refValue := some (40) }, (.ptr (.struct 1230))⟩]⟩, -- 1231
  ⟨"UnsuccessfulOutcome", [
    ⟨"ProcedureCode", {}, (.struct 75)⟩,
    ⟨"Criticality", {}, (.struct 1)⟩,
    ⟨"Value", { openType := true, refField := "ProcedureCode" }, (.struct 1231)⟩]⟩, -- 1232
  ⟨"NGAPPDU", [
    ⟨"Present", {}, .int⟩,
    ⟨"InitiatingMessage", {}, (.ptr (.struct 1071))⟩,
    ⟨"SuccessfulOutcome", {}, (.ptr (.struct 1209))⟩,
    ⟨"UnsuccessfulOutcome", {}, (.ptr (.struct 1232))⟩]⟩, -- 1233
  ⟨"NGRANCGIExtIEsValue", [
    ⟨"Present", {}, .int⟩]⟩, -- 1234
  ⟨"NGRANCGIExtIEs", [
    ⟨"Id", {}, (.struct 0)⟩,
    ⟨"Criticality", {}, (.struct 1)⟩,
    ⟨"Value", { openType := true, refField := "Id" }, (.struct 1234)⟩]⟩, -- 1235
  ⟨"NetworkInstance", [
    ⟨"Value", { valueExt := true, valueLB := some (1), valueUB := some (256) }, .int⟩]⟩, -- 1236
  ⟨"NgENBIDExtIEsValue", [
    ⟨"Present", {}, .int⟩]⟩, -- 1237
  ⟨"NgENBIDExtIEs", [
    ⟨"Id", {}, (.struct 0)⟩,
    ⟨"Criticality", {}, (.struct 1)⟩,
    ⟨"Value", { openType := true, refField := "Id" }, (.struct 1237)⟩]⟩, -- 1238
  ⟨"NonDynamic5QIDescriptorExtIEsExtensionValue", [
    ⟨"Present", {}, .int⟩]⟩, -- 1239
  ⟨"NonDynamic5QIDescriptorExtIEs", [
    ⟨"Id", {}, (.struct 7)⟩,
    ⟨"Criticality", {}, (.struct 1)⟩,
    ⟨"ExtensionValue", { openType := true, refField := "Id" }, (.struct 1239)⟩]⟩, -- 1240
  ⟨"ProtocolExtensionContainerNonDynamic5QIDescriptorExtIEs", [
    ⟨"List", { sizeLB := some (1), sizeUB := some (65535) }, (.slice (.struct 1240))⟩]⟩, -- 1241
  ⟨"NonDynamic5QIDescriptor", [
    ⟨"FiveQI", {}, (.struct 549)⟩,
    ⟨"PriorityLevelQos", { optional := true }, (.ptr (.struct 543))⟩,
    ⟨"AveragingWindow", { optional := true }, (.ptr (.struct 217))⟩,
    ⟨"MaximumDataBurstVolume", { optional := true }, (.ptr (.struct 550))⟩,
    ⟨"IEExtensions", { optional := true }, (.ptr (.struct 1241))⟩]⟩, -- 1242
  ⟨"NotificationCause", [
    ⟨"Value", { valueExt := true, valueLB := some (0), valueUB := some (1) }, .enum⟩]⟩, -- 1243
  ⟨"OverloadResponseExtIEsValue", [
    ⟨"Present", {}, .int⟩]⟩, -- 1244
  ⟨"OverloadResponseExtIEs", [
    ⟨"Id", {}, (.struct 0)⟩,
    ⟨"Criticality", {}, (.struct 1)⟩,
    ⟨"Value", { openType := true, refField := "Id" }, (.struct 1244)⟩]⟩, -- 1245
  ⟨"PDUSessionAggregateMaximumBitRateExtIEsExtensionValue", [
    ⟨"Present", {}, .int⟩]⟩, -- 1246
  ⟨"PDUSessionAggregateMaximumBitRateExtIEs", [
    ⟨"Id", {}, (.struct 7)⟩,
    ⟨"Criticality", {}, (.struct 1)⟩,
    ⟨"ExtensionValue", { openType := true, refField := "Id" }, (.struct 1246)⟩]⟩, -- 1247
  ⟨"ProtocolExtensionContainerPDUSessionAggregateMaximumBitRateExtIEs", [
    ⟨"List", { sizeLB := some (1), sizeUB := some (65535) }, (.slice (.struct 1247))⟩]⟩, -- 1248
  ⟨"PDUSessionAggregateMaximumBitRate", [
    ⟨"PDUSessionAggregateMaximumBitRateDL", {}, (.struct 218)⟩,
    ⟨"PDUSessionAggregateMaximumBitRateUL", {}, (.struct 218)⟩,
    ⟨"IEExtensions", { optional := true }, (.ptr (.struct 1248))⟩]⟩, -- 1249
  ⟨"QosFlowInformationItemExtIEsExtensionValue", [
    ⟨"Present", {}, .int⟩]⟩, -- 1250
  ⟨"QosFlowInformationItemExtIEs", [
    ⟨"Id", {}, (.struct 7)⟩,
    ⟨"Criticality", {}, (.struct 1)⟩,
    ⟨"ExtensionValue", { openType := true, refField := "Id" }, (.struct 1250)⟩]⟩, -- 1251
  ⟨"ProtocolExtensionContainerQosFlowInformationItemExtIEs", [
    ⟨"List", { sizeLB := some (1), sizeUB := some (65535) }, (.slice (.struct 1251))⟩]⟩, -- 1252
  ⟨"QosFlowInformationItem", [
    ⟨"QosFlowIdentifier", {}, (.struct 211)⟩,
    ⟨"DLForwarding", { optional := true }, (.ptr (.struct 399))⟩,
    ⟨"IEExtensions", { optional := true }, (.ptr (.struct 1252))⟩]⟩, -- 1253
  ⟨"QosFlowInformationList", [
    ⟨"List", { valueExt := true, sizeLB := some (1), sizeUB := some (64) }, (.slice (.struct 1253))⟩]⟩, -- 1254
  ⟨"PDUSessionResourceInformationItemExtIEsExtensionValue", [
    ⟨"Present", {}, .int⟩]⟩, -- 1255
  ⟨"PDUSessionResourceInformationItemExtIEs", [
    ⟨"Id", {}, (.struct 7)⟩,
    ⟨"Criticality", {}, (.struct 1)⟩,
    ⟨"ExtensionValue", { openType := true, refField := "Id" }, (.struct 1255)⟩]⟩, -- 1256
  ⟨"ProtocolExtensionContainerPDUSessionResourceInformationItemExtIEs", [
    ⟨"List", { sizeLB := some (1), sizeUB := some (65535) }, (.slice (.struct 1256))⟩]⟩, -- 1257
  ⟨"PDUSessionResourceInformationItem", [
    ⟨"PDUSessionID", {}, (.struct 607)⟩,
    ⟨"QosFlowInformationList", {}, (.struct 1254)⟩,
    ⟨"DRBsToQosFlowsMappingList", { optional := true }, (.ptr (.struct 435))⟩,
    ⟨"IEExtensions", { optional := true }, (.ptr (.struct 1257))⟩]⟩, -- 1258
  ⟨"PDUSessionResourceInformationList", [
    ⟨"List", { valueExt := true, sizeLB := some (1), sizeUB := some (256) }, (.slice (.struct 1258))⟩]⟩, -- 1259
  ⟨"QosFlowModifyConfirmItemExtIEsExtensionValue", [
    ⟨"Present", {}, .int⟩]⟩, -- 1260
  ⟨"QosFlowModifyConfirmItemExtIEs", [
    ⟨"Id", {}, (.struct 7)⟩,
    ⟨"Criticality", {}, (.struct 1)⟩,
    ⟨"ExtensionValue", { openType := true, refField := "Id" }, (.struct 1260)⟩]⟩, -- 1261
  ⟨"ProtocolExtensionContainerQosFlowModifyConfirmItemExtIEs", [
    ⟨"List", { sizeLB := some (1), sizeUB := some (65535) }, (.slice (.struct 1261))⟩]⟩, -- 1262
  ⟨"QosFlowModifyConfirmItem", [
    ⟨"QosFlowIdentifier", {}, (.struct 211)⟩,
    ⟨"IEExtensions", { optional := true }, (.ptr (.struct 1262))⟩]⟩, -- 1263
  ⟨"QosFlowModifyConfirmList", [
    ⟨"List", { valueExt := true, sizeLB := some (1), sizeUB := some (64) }, (.slice (.struct 1263))⟩]⟩, -- 1264
  ⟨"TNLMappingItemExtIEsExtensionValue", [
    ⟨"Present", {}, .int⟩]⟩, -- 1265
  ⟨"TNLMappingItemExtIEs", [
    ⟨"Id", {}, (.struct 7)⟩,
    ⟨"Criticality", {}, (.struct 1)⟩,
    ⟨"ExtensionValue", { openType := true, refField := "Id" }, (.struct 1265)⟩]⟩, -- 1266
  ⟨"ProtocolExtensionContainerTNLMappingItemExtIEs", [
    ⟨"List", { sizeLB := some (1), sizeUB := some (65535) }, (.slice (.struct 1266))⟩]⟩, -- 1267
  ⟨"TNLMappingItem", [
    ⟨"DLNGUUPTNLInformation", { valueLB := some (0), valueUB := some (1) }, (.struct 445)⟩,
    ⟨"ULNGUUPTNLInformation", { valueLB := some (0), valueUB := some (1) }, (.struct 445)⟩,
    ⟨"IEExtensions", { optional := true }, (.ptr (.struct 1267))⟩]⟩, -- 1268
  ⟨"TNLMappingList", [
    ⟨"List", { valueExt := true, sizeLB := some (1), sizeUB := some (4) }, (.slice (.struct 1268))⟩]⟩, -- 1269
  ⟨"PDUSessionResourceModifyConfirmTransferExtIEsExtensionValue", [
    ⟨"Present", {}, .int⟩]⟩, -- 1270
  ⟨"PDUSessionResourceModifyConfirmTransferExtIEs", [
    ⟨"Id", {}, (.struct 7)⟩,
    ⟨"Criticality", {}, (.struct 1)⟩,
    ⟨"ExtensionValue", { openType := true, refField := "Id" }, (.struct 1270)⟩]⟩, -- 1271
  ⟨"ProtocolExtensionContainerPDUSessionResourceModifyConfirmTransferExtIEs", [
    ⟨"List", { sizeLB := some (1), sizeUB := some (65535) }, (.slice (.struct 1271))⟩]⟩, -- 1272
  ⟨"PDUSessionResourceModifyConfirmTransfer", [
    ⟨"QosFlowModifyConfirmList", {}, (.struct 1264)⟩,
    ⟨"TNLMappingList", { optional := true }, (.ptr (.struct 1269))⟩,
    ⟨"QosFlowFailedToModifyList", { optional := true }, (.ptr (.struct 728))⟩,
    ⟨"IEExtensions", { optional := true }, (.ptr (.struct 1272))⟩]⟩, -- 1273
  ⟨"SingleTNLInformationExtIEsExtensionValue", [
    ⟨"Present", {}, .int⟩]⟩, -- 1274
  ⟨"SingleTNLInformationExtIEs", [
    ⟨"Id", {}, (.struct 7)⟩,
    ⟨"Criticality", {}, (.struct 1)⟩,
    ⟨"ExtensionValue", { openType := true, refField := "Id" }, (.struct 1274)⟩]⟩, -- 1275
  ⟨"ProtocolExtensionContainerSingleTNLInformationExtIEs", [
    ⟨"List", { sizeLB := some (1), sizeUB := some (65535) }, (.slice (.struct 1275))⟩]⟩, -- 1276
  ⟨"SingleTNLInformation", [
    ⟨"UPTransportLayerInformation", { valueLB := some (0), valueUB := some (1) }, (.struct 445)⟩,
    ⟨"IEExtensions", { optional := true }, (.ptr (.struct 1276))⟩]⟩, -- 1277
  ⟨"ProtocolIESingleContainerUPTNLInformationExtIEs", []⟩, -- 1278
  ⟨"UPTNLInformation", [
    ⟨"Present", {}, .int⟩,
    ⟨"SingleTNLInformation", { valueExt := true }, (.ptr (.struct 1277))⟩,
    ⟨"MultipleTNLInformation", { valueExt := true }, (.ptr (.struct 1103))⟩,
    ⟨"ChoiceExtensions", {}, (.ptr (.struct 1278))⟩]⟩, -- 1279
  ⟨"PDUSessionResourceModifyIndicationTransferExtIEsExtensionValue", [
    ⟨"Present", {}, .int⟩]⟩, -- 1280
  ⟨"PDUSessionResourceModifyIndicationTransferExtIEs", [
    ⟨"Id", {}, (.struct 7)⟩,
    ⟨"Criticality", {}, (.struct 1)⟩,
    ⟨"ExtensionValue", { openType := true, refField := "Id" }, (.struct 1280)⟩]⟩, -- 1281
  ⟨"ProtocolExtensionContainerPDUSessionResourceModifyIndicationTransferExtIEs", [
    ⟨"List", { sizeLB := some (1), sizeUB := some (65535) }, (.slice (.struct 1281))⟩]⟩, -- 1282
  ⟨"PDUSessionResourceModifyIndicationTransfer", [
    ⟨"DLUPTNLInformation", { optional := true, valueLB := some (0), valueUB := some (2) }, (.ptr (.struct 1279))⟩,
    ⟨"IEExtensions", { optional := true }, (.ptr (.struct 1282))⟩]⟩, -- 1283
  ⟨"PDUSessionResourceModifyIndicationUnsuccessfulTransferExtIEsExtensionValue", [
    ⟨"Present", {}, .int⟩]⟩, -- 1284
  ⟨"PDUSessionResourceModifyIndicationUnsuccessfulTransferExtIEs", [
    ⟨"Id", {}, (.struct 7)⟩,
    ⟨"Criticality", {}, (.struct 1)⟩,
    ⟨"ExtensionValue", { openType := true, refField := "Id" }, (.struct 1284)⟩]⟩, -- 1285
  ⟨"ProtocolExtensionContainerPDUSessionResourceModifyIndicationUnsuccessfulTransferExtIEs", [
    ⟨"List", { sizeLB := some (1), sizeUB := some (65535) }, (.slice (.struct 1285))⟩]⟩, -- 1286
  ⟨"PDUSessionResourceModifyIndicationUnsuccessfulTransfer", [
    ⟨"Cause", { valueLB := some (0), valueUB := some (5) }, (.struct 69)⟩,
    ⟨"IEExtensions", { optional := true }, (.ptr (.struct 1286))⟩]⟩, -- 1287
  ⟨"ULNGUUPTNLModifyItemExtIEsExtensionValue", [
    ⟨"Present", {}, .int⟩]⟩, -- 1288
  ⟨"ULNGUUPTNLModifyItemExtIEs", [
    ⟨"Id", {}, (.struct 7)⟩,
    ⟨"Criticality", {}, (.struct 1)⟩,
    ⟨"ExtensionValue", { openType := true, refField := "Id" }, (.struct 1288)⟩]⟩, -- 1289
  ⟨"ProtocolExtensionContainerULNGUUPTNLModifyItemExtIEs", [
    ⟨"List", { sizeLB := some (1), sizeUB := some (65535) }, (.slice (.struct 1289))⟩]⟩, -- 1290
  ⟨"ULNGUUPTNLModifyItem", [
    ⟨"ULNGUUPTNLInformation", { valueLB := some (0), valueUB := some (1) }, (.struct 445)⟩,
    ⟨"DLNGUUPTNLInformation", { valueLB := some (0), valueUB := some (1) }, (.struct 445)⟩,
    ⟨"IEExtensions", { optional := true }, (.ptr (.struct 1290))⟩]⟩, -- 1291
  ⟨"ULNGUUPTNLModifyList", [
    ⟨"List", { valueExt := true, sizeLB := some (0), sizeUB := some (4) }, (.slice (.struct 1291))⟩]⟩, -- 1292
  ⟨"ProtocolIESingleContainerQosCharacteristicsExtIEs", []⟩, -- 1293
  ⟨"QosCharacteristics", [
    ⟨"Present", {}, .int⟩,
    ⟨"NonDynamic5QI", { valueExt := true }, (.ptr (.struct 1242))⟩,
    ⟨"Dynamic5QI", { valueExt := true }, (.ptr (.struct 554))⟩,
    ⟨"ChoiceExtensions", {}, (.ptr (.struct 1293))⟩]⟩, -- 1294
  ⟨"ReflectiveQosAttribute", [
    ⟨"Value", { valueExt := true, valueLB := some (0), valueUB := some (0) }, .enum⟩]⟩, -- 1295
  ⟨"QosFlowLevelQosParametersExtIEsExtensionValue", [
    ⟨"Present", {}, .int⟩]⟩, -- 1296
  ⟨"QosFlowLevelQosParametersExtIEs", [
    ⟨"Id", {}, (.struct 7)⟩,
    ⟨"Criticality", {}, (.struct 1)⟩,
    ⟨"ExtensionValue", { openType := true, refField := "Id" }, (.struct 1296)⟩]⟩, -- 1297
  ⟨"ProtocolExtensionContainerQosFlowLevelQosParametersExtIEs", [
    ⟨"List", { sizeLB := some (1), sizeUB := some (65535) }, (.slice (.struct 1297))⟩]⟩, -- 1298
  ⟨"QosFlowLevelQosParameters", [
    ⟨"QosCharacteristics", { valueLB := some (0), valueUB := some (2) }, (.struct 1294)⟩,
    ⟨"AllocationAndRetentionPriority", { valueExt := true }, (.struct 143)⟩,
    ⟨"GBRQosInformation", { optional := true, valueExt := true }, (.ptr (.struct 592))⟩,
    ⟨"ReflectiveQosAttribute", { optional := true }, (.ptr (.struct 1295))⟩,
    ⟨"AdditionalQosFlowInformation", { optional := true }, (.ptr (.struct 136))⟩,
    ⟨"IEExtensions", { optional := true }, (.ptr (.struct 1298))⟩]⟩ -- 1299
]

end Stgutg.Spec.Ts38413Schema
