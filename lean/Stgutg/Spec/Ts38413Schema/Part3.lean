-- TS 38.413 (v15) abstract syntax of NGAP as a PER-visible schema: a frozen transcription, see Spec/Ts38413Schema.lean for its provenance.
import Stgutg.Model.AperTypes
namespace Stgutg.Spec.Ts38413Schema
open Stgutg.Aper

def schema3 : List StructDef := [
  ⟨"CellIDBroadcastNRItemExtIEsExtensionValue", [
    ⟨"Present", {}, .int⟩]⟩, -- 300
  ⟨"CellIDBroadcastNRItemExtIEs", [
    ⟨"Id", {}, (.struct 7)⟩,
    ⟨"Criticality", {}, (.struct 1)⟩,
    ⟨"ExtensionValue", { openType := true, refField := "Id" }, (.struct 300)⟩]⟩, -- 301
  ⟨"ProtocolExtensionContainerCellIDBroadcastNRItemExtIEs", [
    ⟨"List", { sizeLB := some (1), sizeUB := some (65535) }, (.slice (.struct 301))⟩]⟩, -- 302
  ⟨"CellIDBroadcastNRItem", [
    ⟨"NRCGI", { valueExt := true }, (.struct 159)⟩,
    ⟨"IEExtensions", { optional := true }, (.ptr (.struct 302))⟩]⟩, -- 303
  ⟨"CellIDBroadcastNR", [
    ⟨"List", { valueExt := true, sizeLB := some (1), sizeUB := some (65535) }, (.slice (.struct 303))⟩]⟩, -- 304
  ⟨"CompletedCellsInTAINRItemExtIEsExtensionValue", [
    ⟨"Present", {}, .int⟩]⟩, -- 305
  ⟨"CompletedCellsInTAINRItemExtIEs", [
    ⟨"Id", {}, (.struct 7)⟩,
    ⟨"Criticality", {}, (.struct 1)⟩,
    ⟨"ExtensionValue", { openType := true, refField := "Id" }, (.struct 305)⟩]⟩, -- 306
  ⟨"ProtocolExtensionContainerCompletedCellsInTAINRItemExtIEs", [
    ⟨"List", { sizeLB := some (1), sizeUB := some (65535) }, (.slice (.struct 306))⟩]⟩, -- 307
  ⟨"CompletedCellsInTAINRItem", [
    ⟨"NRCGI", { valueExt := true }, (.struct 159)⟩,
    ⟨"IEExtensions", { optional := true }, (.ptr (.struct 307))⟩]⟩, -- 308
  ⟨"CompletedCellsInTAINR", [
    ⟨"List", { valueExt := true, sizeLB := some (1), sizeUB := some (65535) }, (.slice (.struct 308))⟩]⟩, -- 309
  ⟨"TAIBroadcastNRItemExtIEsExtensionValue", [
    ⟨"Present", {}, .int⟩]⟩, -- 310
  ⟨"TAIBroadcastNRItemExtIEs", [
    ⟨"Id", {}, (.struct 7)⟩,
    ⟨"Criticality", {}, (.struct 1)⟩,
    ⟨"ExtensionValue", { openType := true, refField := "Id" }, (.struct 310)⟩]⟩, -- 311
  ⟨"ProtocolExtensionContainerTAIBroadcastNRItemExtIEs", [
    ⟨"List", { sizeLB := some (1), sizeUB := some (65535) }, (.slice (.struct 311))⟩]⟩, -- 312
  ⟨"TAIBroadcastNRItem", [
    ⟨"TAI", { valueExt := true }, (.struct 120)⟩,
    ⟨"CompletedCellsInTAINR", {}, (.struct 309)⟩,
    ⟨"IEExtensions", { optional := true }, (.ptr (.struct 312))⟩]⟩, -- 313
  ⟨"TAIBroadcastNR", [
    ⟨"List", { valueExt := true, sizeLB := some (1), sizeUB := some (65535) }, (.slice (.struct 313))⟩]⟩, -- 314
  ⟨"CompletedCellsInEAINRItemExtIEsExtensionValue", [
    ⟨"Present", {}, .int⟩]⟩, -- 315
  ⟨"CompletedCellsInEAINRItemExtIEs", [
    ⟨"Id", {}, (.struct 7)⟩,
    ⟨"Criticality", {}, (.struct 1)⟩,
    ⟨"ExtensionValue", { openType := true, refField := "Id" }, (.struct 315)⟩]⟩, -- 316
  ⟨"ProtocolExtensionContainerCompletedCellsInEAINRItemExtIEs", [
    ⟨"List", { sizeLB := some (1), sizeUB := some (65535) }, (.slice (.struct 316))⟩]⟩, -- 317
  ⟨"CompletedCellsInEAINRItem", [
    ⟨"NRCGI", { valueExt := true }, (.struct 159)⟩,
    ⟨"IEExtensions", { optional := true }, (.ptr (.struct 317))⟩]⟩, -- 318
  ⟨"CompletedCellsInEAINR", [
    ⟨"List", { valueExt := true, sizeLB := some (1), sizeUB := some (65535) }, (.slice (.struct 318))⟩]⟩, -- 319
  ⟨"EmergencyAreaIDBroadcastNRItemExtIEsExtensionValue", [
    ⟨"Present", {}, .int⟩]⟩, -- 320
  ⟨"EmergencyAreaIDBroadcastNRItemExtIEs", [
    ⟨"Id", {}, (.struct 7)⟩,
    ⟨"Criticality", {}, (.struct 1)⟩,
    ⟨"ExtensionValue", { openType := true, refField := "Id" }, (.struct 320)⟩]⟩, -- 321
  ⟨"ProtocolExtensionContainerEmergencyAreaIDBroadcastNRItemExtIEs", [
    ⟨"List", { sizeLB := some (1), sizeUB := some (65535) }, (.slice (.struct 321))⟩]⟩, -- 322
  ⟨"EmergencyAreaIDBroadcastNRItem", [
    ⟨"EmergencyAreaID", {}, (.struct 235)⟩,
    ⟨"CompletedCellsInEAINR", {}, (.struct 319)⟩,
    ⟨"IEExtensions", { optional := true }, (.ptr (.struct 322))⟩]⟩, -- 323
  ⟨"EmergencyAreaIDBroadcastNR", [
    ⟨"List", { valueExt := true, sizeLB := some (1), sizeUB := some (65535) }, (.slice (.struct 323))⟩]⟩, -- 324
  ⟨"ProtocolIESingleContainerBroadcastCompletedAreaListExtIEs", []⟩, -- 325
  ⟨"BroadcastCompletedAreaList", [
    ⟨"Present", {}, .int⟩,
    ⟨"CellIDBroadcastEUTRA", {}, (.ptr (.struct 279))⟩,
    ⟨"TAIBroadcastEUTRA", {}, (.ptr (.struct 289))⟩,
    ⟨"EmergencyAreaIDBroadcastEUTRA", {}, (.ptr (.struct 299))⟩,
    ⟨"CellIDBroadcastNR", {}, (.ptr (.struct 304))⟩,
    ⟨"TAIBroadcastNR", {}, (.ptr (.struct 314))⟩,
    ⟨"EmergencyAreaIDBroadcastNR", {}, (.ptr (.struct 324))⟩,
    ⟨"ChoiceExtensions", {}, (.ptr (.struct 325))⟩]⟩, -- 326
  ⟨"BroadcastCompletedAreaListExtIEsValue", [
    ⟨"Present", {}, .int⟩]⟩, -- 327
  ⟨"BroadcastCompletedAreaListExtIEs", [
    ⟨"Id", {}, (.struct 0)⟩,
    ⟨"Criticality", {}, (.struct 1)⟩,
    ⟨"Value", { openType := true, refField := "Id" }, (.struct 327)⟩]⟩, -- 328
  ⟨"BroadcastPLMNItemExtIEsExtensionValue", [
    ⟨"Present", {}, .int⟩]⟩, -- 329
  ⟨"BroadcastPLMNItemExtIEs", [
    ⟨"Id", {}, (.struct 7)⟩,
    ⟨"Criticality", {}, (.struct 1)⟩,
    ⟨"ExtensionValue", { openType := true, refField := "Id" }, (.struct 329)⟩]⟩, -- 330
  ⟨"ProtocolExtensionContainerBroadcastPLMNItemExtIEs", [
    ⟨"List", { sizeLB := some (1), sizeUB := some (65535) }, (.slice (.struct 330))⟩]⟩, -- 331
  ⟨"BroadcastPLMNItem", [
    ⟨"PLMNIdentity", {}, (.struct 3)⟩,
    ⟨"TAISliceSupportList", {}, (.struct 28)⟩,
    ⟨"IEExtensions", { optional := true }, (.ptr (.struct 331))⟩]⟩, -- 332
  ⟨"BroadcastPLMNList", [
    ⟨"List", { valueExt := true, sizeLB := some (1), sizeUB := some (12) }, (.slice (.struct 332))⟩]⟩, -- 333
  ⟨"COUNTValueForPDCPSN12ExtIEsExtensionValue", [
    ⟨"Present", {}, .int⟩]⟩, -- 334
  ⟨"COUNTValueForPDCPSN12ExtIEs", [
    ⟨"Id", {}, (.struct 7)⟩,
    ⟨"Criticality", {}, (.struct 1)⟩,
    ⟨"ExtensionValue", { openType := true, refField := "Id" }, (.struct 334)⟩]⟩, -- 335
  ⟨"ProtocolExtensionContainerCOUNTValueForPDCPSN12ExtIEs", [
    ⟨"List", { sizeLB := some (1), sizeUB := some (65535) }, (.slice (.struct 335))⟩]⟩, -- 336
  ⟨"COUNTValueForPDCPSN12", [
    ⟨"PDCPSN12", { valueLB := some (0), valueUB := some (4095) }, .int⟩,
    ⟨"HFNPDCPSN12", { valueLB := some (0), valueUB := some (1048575) }, .int⟩,
    ⟨"IEExtensions", { optional := true }, (.ptr (.struct 336))⟩]⟩, -- 337
  ⟨"COUNTValueForPDCPSN18ExtIEsExtensionValue", [
    ⟨"Present", {}, .int⟩]⟩, -- 338
  ⟨"COUNTValueForPDCPSN18ExtIEs", [
    ⟨"Id", {}, (.struct 7)⟩,
    ⟨"Criticality", {}, (.struct 1)⟩,
    ⟨"ExtensionValue", { openType := true, refField := "Id" }, (.struct 338)⟩]⟩, -- 339
  ⟨"ProtocolExtensionContainerCOUNTValueForPDCPSN18ExtIEs", [
    ⟨"List", { sizeLB := some (1), sizeUB := some (65535) }, (.slice (.struct 339))⟩]⟩, -- 340
  ⟨"COUNTValueForPDCPSN18", [
    ⟨"PDCPSN18", { valueLB := some (0), valueUB := some (262143) }, .int⟩,
    ⟨"HFNPDCPSN18", { valueLB := some (0), valueUB := some (16383) }, .int⟩,
    ⟨"IEExtensions", { optional := true }, (.ptr (.struct 340))⟩]⟩, -- 341
  ⟨"CPTransportLayerInformationExtIEsValue", [
    ⟨"Present", {}, .int⟩]⟩, -- 342
  ⟨"CPTransportLayerInformationExtIEs", [
    ⟨"Id", {}, (.struct 0)⟩,
    ⟨"Criticality", {}, (.struct 1)⟩,
    ⟨"Value", { openType := true, refField := "Id" }, (.struct 342)⟩]⟩, -- 343
  ⟨"CancelAllWarningMessages", [
    ⟨"Value", { valueExt := true, valueLB := some (0), valueUB := some (0) }, .enum⟩]⟩, -- 344
  ⟨"CauseExtIEsValue", [
    ⟨"Present", {}, .int⟩]⟩, -- 345
  ⟨"CauseExtIEs", [
    ⟨"Id", {}, (.struct 0)⟩,
    ⟨"Criticality", {}, (.struct 1)⟩,
    ⟨"Value", { openType := true, refField := "Id" }, (.struct 345)⟩]⟩, -- 346
  ⟨"EUTRACGIList", [
    ⟨"List", { valueExt := true, sizeLB := some (1), sizeUB := some (256) }, (.slice (.struct 164))⟩]⟩, -- 347
  ⟨"NRCGIList", [
    ⟨"List", { valueExt := true, sizeLB := some (1), sizeUB := some (16384) }, (.slice (.struct 159))⟩]⟩, -- 348
  ⟨"ProtocolIESingleContainerCellIDListForRestartExtIEs", []⟩, -- 349
  ⟨"CellIDListForRestart", [
    ⟨"Present", {}, .int⟩,
    ⟨"EUTRACGIListforRestart", {}, (.ptr (.struct 347))⟩,
    ⟨"NRCGIListforRestart", {}, (.ptr (.struct 348))⟩,
    ⟨"ChoiceExtensions", {}, (.ptr (.struct 349))⟩]⟩, -- 350
  ⟨"CellIDListForRestartExtIEsValue", [
    ⟨"Present", {}, .int⟩]⟩, -- 351
  ⟨"CellIDListForRestartExtIEs", [
    ⟨"Id", {}, (.struct 0)⟩,
    ⟨"Criticality", {}, (.struct 1)⟩,
    ⟨"Value", { openType := true, refField := "Id" }, (.struct 351)⟩]⟩, -- 352
  ⟨"CellSize", [
    ⟨"Value", { valueExt := true, valueLB := some (0), valueUB := some (3) }, .enum⟩]⟩, -- 353
  ⟨"RANUENGAPID", [
    ⟨"Value", { valueLB := some (0), valueUB := some (4294967295) }, .int⟩]⟩, -- 354
  ⟨"NGRANTraceID", [
    ⟨"Value", { sizeLB := some (8), sizeUB := some (8) }, .octs⟩]⟩, -- 355
  ⟨"CellTrafficTraceIEsValue", [
    ⟨"Present", {}, .int⟩,
    ⟨"AMFUENGAPID", { refValue := some (10) }, (.ptr (.struct 135))⟩,
    ⟨"RANUENGAPID", { refValue := some (85) }, (.ptr (.struct 354))⟩,
    ⟨"NGRANTraceID", { refValue := some (44) }, (.ptr (.struct 355))⟩,
    ⟨"NGRANCGI", { valueLB := some (0), valueUB := some (2), refValue := some (43) }, (.ptr (.struct 166))⟩,
    ⟨"TraceCollectionEntityIPAddress", { refValue := some (109) }, (.ptr (.struct 34))⟩]⟩, -- 356
  ⟨"CellTrafficTraceIEs", [
    ⟨"Id", {}, (.struct 0)⟩,
    ⟨"Criticality", {}, (.struct 1)⟩,
    ⟨"Value", { openType := true, refField := "Id" }, (.struct 356)⟩]⟩, -- 357
  ⟨"ProtocolIEContainerCellTrafficTraceIEs", [
    ⟨"List", { sizeLB := some (0), sizeUB := some (65535) }, (.slice (.struct 357))⟩]⟩, -- 358
  ⟨"CellTrafficTrace", [
    ⟨"ProtocolIEs", {}, (.struct 358)⟩]⟩, -- 359
  ⟨"CellTypeExtIEsExtensionValue", [
    ⟨"Present", {}, .int⟩]⟩, -- 360
  ⟨"CellTypeExtIEs", [
    ⟨"Id", {}, (.struct 7)⟩,
    ⟨"Criticality", {}, (.struct 1)⟩,
    ⟨"ExtensionValue", { openType := true, refField := "Id" }, (.struct 360)⟩]⟩, -- 361
  ⟨"ProtocolExtensionContainerCellTypeExtIEs", [
    ⟨"List", { sizeLB := some (1), sizeUB := some (65535) }, (.slice (.struct 361))⟩]⟩, -- 362
  ⟨"CellType", [
    ⟨"CellSize", {}, (.struct 353)⟩,
    ⟨"IEExtensions", { optional := true }, (.ptr (.struct 362))⟩]⟩, -- 363
  ⟨"ConcurrentWarningMessageInd", [
    ⟨"Value", { valueExt := true, valueLB := some (0), valueUB := some (0) }, .enum⟩]⟩, -- 364
  ⟨"ConfidentialityProtectionIndication", [
    ⟨"Value", { valueExt := true, valueLB := some (0), valueUB := some (2) }, .enum⟩]⟩, -- 365
  ⟨"ConfidentialityProtectionResult", [
    ⟨"Value", { valueExt := true, valueLB := some (0), valueUB := some (1) }, .enum⟩]⟩, -- 366
  ⟨"ProtocolIESingleContainerUEIdentityIndexValueExtIEs", []⟩, -- 367
  ⟨"UEIdentityIndexValue", [
    ⟨"Present", {}, .int⟩,
    ⟨"IndexLength10", { sizeLB := some (10), sizeUB := some (10) }, (.ptr .bits)⟩,
    ⟨"ChoiceExtensions", {}, (.ptr (.struct 367))⟩]⟩, -- 368
  ⟨"PagingDRX", [
    ⟨"Value", { valueExt := true, valueLB := some (0), valueUB := some (3) }, .enum⟩]⟩, -- 369
  ⟨"PeriodicRegistrationUpdateTimer", [
    ⟨"Value", { sizeLB := some (8), sizeUB := some (8) }, .bits⟩]⟩, -- 370
  ⟨"MICOModeIndication", [
    ⟨"Value", { valueExt := true, valueLB := some (0), valueUB := some (0) }, .enum⟩]⟩, -- 371
  ⟨"TAIListForInactiveItemExtIEsExtensionValue", [
    ⟨"Present", {}, .int⟩]⟩, -- 372
  ⟨"TAIListForInactiveItemExtIEs", [
    ⟨"Id", {}, (.struct 7)⟩,
    ⟨"Criticality", {}, (.struct 1)⟩,
    ⟨"ExtensionValue", { openType := true, refField := "Id" }, (.struct 372)⟩]⟩, -- 373
  ⟨"ProtocolExtensionContainerTAIListForInactiveItemExtIEs", [
    ⟨"List", { sizeLB := some (1), sizeUB := some (65535) }, (.slice (.struct 373))⟩]⟩, -- 374
  ⟨"TAIListForInactiveItem", [
    ⟨"TAI", { valueExt := true }, (.struct 120)⟩,
    ⟨"IEExtensions", { optional := true }, (.ptr (.struct 374))⟩]⟩, -- 375
  ⟨"TAIListForInactive", [
    ⟨"List", { valueExt := true, sizeLB := some (1), sizeUB := some (16) }, (.slice (.struct 375))⟩]⟩, -- 376
  ⟨"ExpectedActivityPeriod", [
    ⟨"Value", { valueExt := true, valueLB := some (1), valueUB := some (181) }, .int⟩]⟩, -- 377
  ⟨"ExpectedIdlePeriod", [
    ⟨"Value", { valueExt := true, valueLB := some (1), valueUB := some (181) }, .int⟩]⟩, -- 378
  ⟨"SourceOfUEActivityBehaviourInformation", [
    ⟨"Value", { valueExt := true, valueLB := some (0), valueUB := some (1) }, .enum⟩]⟩, -- 379
  ⟨"ExpectedUEActivityBehaviourExtIEsExtensionValue", [
    ⟨"Present", {}, .int⟩]⟩, -- 380
  ⟨"ExpectedUEActivityBehaviourExtIEs", [
    ⟨"Id", {}, (.struct 7)⟩,
    ⟨"Criticality", {}, (.struct 1)⟩,
    ⟨"ExtensionValue", { openType := true, refField := "Id" }, (.struct 380)⟩]⟩, -- 381
  ⟨"ProtocolExtensionContainerExpectedUEActivityBehaviourExtIEs", [
    ⟨"List", { sizeLB := some (1), sizeUB := some (65535) }, (.slice (.struct 381))⟩]⟩, -- 382
  ⟨"ExpectedUEActivityBehaviour", [
    ⟨"ExpectedActivityPeriod", { optional := true }, (.ptr (.struct 377))⟩,
    ⟨"ExpectedIdlePeriod", { optional := true }, (.ptr (.struct 378))⟩,
    ⟨"SourceOfUEActivityBehaviourInformation", { optional := true }, (.ptr (.struct 379))⟩,
    ⟨"IEExtensions", { optional := true }, (.ptr (.struct 382))⟩]⟩, -- 383
  ⟨"ExpectedHOInterval", [
    ⟨"Value", { valueExt := true, valueLB := some (0), valueUB := some (6) }, .enum⟩]⟩, -- 384
  ⟨"ExpectedUEMobility", [
    ⟨"Value", { valueExt := true, valueLB := some (0), valueUB := some (1) }, .enum⟩]⟩, -- 385
  ⟨"ExpectedUEMovingTrajectoryItemExtIEsExtensionValue", [
    ⟨"Present", {}, .int⟩]⟩, -- 386
  ⟨"ExpectedUEMovingTrajectoryItemExtIEs", [
    ⟨"Id", {}, (.struct 7)⟩,
    ⟨"Criticality", {}, (.struct 1)⟩,
    ⟨"ExtensionValue", { openType := true, refField := "Id" }, (.struct 386)⟩]⟩, -- 387
  ⟨"ProtocolExtensionContainerExpectedUEMovingTrajectoryItemExtIEs", [
    ⟨"List", { sizeLB := some (1), sizeUB := some (65535) }, (.slice (.struct 387))⟩]⟩, -- 388
  ⟨"ExpectedUEMovingTrajectoryItem", [
    ⟨"NGRANCGI", { valueLB := some (0), valueUB := some (2) }, (.struct 166)⟩,
    ⟨"TimeStayedInCell", { optional := true, valueLB := some (0), valueUB := some (4095) }, (.ptr .int)⟩,
    ⟨"IEExtensions", { optional := true }, (.ptr (.struct 388))⟩]⟩, -- 389
  ⟨"ExpectedUEMovingTrajectory", [
    ⟨"List", { valueExt := true, sizeLB := some (1), sizeUB := some (16) }, (.slice (.struct 389))⟩]⟩, -- 390
  ⟨"ExpectedUEBehaviourExtIEsExtensionValue", [
    ⟨"Present", {}, .int⟩]⟩, -- 391
  ⟨"ExpectedUEBehaviourExtIEs", [
    ⟨"Id", {}, (.struct 7)⟩,
    ⟨"Criticality", {}, (.struct 1)⟩,
    ⟨"ExtensionValue", { openType := true, refField := "Id" }, (.struct 391)⟩]⟩, -- 392
  ⟨"ProtocolExtensionContainerExpectedUEBehaviourExtIEs", [
    ⟨"List", { sizeLB := some (1), sizeUB := some (65535) }, (.slice (.struct 392))⟩]⟩, -- 393
  ⟨"ExpectedUEBehaviour", [
    ⟨"ExpectedUEActivityBehaviour", { optional := true, valueExt := true }, (.ptr (.struct 383))⟩,
    ⟨"ExpectedHOInterval", { optional := true }, (.ptr (.struct 384))⟩,
    ⟨"ExpectedUEMobility", { optional := true }, (.ptr (.struct 385))⟩,
    ⟨"ExpectedUEMovingTrajectory", { optional := true }, (.ptr (.struct 390))⟩,
    ⟨"IEExtensions", { optional := true }, (.ptr (.struct 393))⟩]⟩, -- 394
  ⟨"CoreNetworkAssistanceInformationExtIEsExtensionValue", [
    ⟨"Present", {}, .int⟩]⟩, -- 395
  ⟨"CoreNetworkAssistanceInformationExtIEs", [
    ⟨"Id", {}, (.struct 7)⟩,
    ⟨"Criticality", {}, (.struct 1)⟩,
    ⟨"ExtensionValue", { openType := true, refField := "Id" }, (.struct 395)⟩]⟩, -- 396
  ⟨"ProtocolExtensionContainerCoreNetworkAssistanceInformationExtIEs", [
    ⟨"List", { sizeLB := some (1), sizeUB := some (65535) }, (.slice (.struct 396))⟩]⟩, -- 397
  ⟨"CoreNetworkAssistanceInformation", [
    ⟨"UEIdentityIndexValue", { valueLB := some (0), valueUB := some (1) }, (.struct 368)⟩,
    ⟨"UESpecificDRX", { optional := true }, (.ptr (.struct 369))⟩,
    ⟨"PeriodicRegistrationUpdateTimer", {}, (.struct 370)⟩,
    ⟨"MICOModeIndication", { optional := true }, (.ptr (.struct 371))⟩,
    ⟨"TAIListForInactive", {}, (.struct 376)⟩,
    ⟨"ExpectedUEBehaviour", { optional := true, valueExt := true }, (.ptr (.struct 394))⟩,
    ⟨"IEExtensions", { optional := true }, (.ptr (.struct 397))⟩]⟩, -- 398
  ⟨"DLForwarding", [
    ⟨"Value", { valueExt := true, valueLB := some (0), valueUB := some (0) }, .enum⟩]⟩ -- 399
]

end Stgutg.Spec.Ts38413Schema
