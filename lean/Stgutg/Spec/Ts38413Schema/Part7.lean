-- TS 38.413 (v15) abstract syntax of NGAP as a PER-visible schema: a frozen transcription, see Spec/Ts38413Schema.lean for its provenance.
import Stgutg.Model.AperTypes
namespace Stgutg.Spec.Ts38413Schema
open Stgutg.Aper

def schema7 : List StructDef := [
  ⟨"PDUSessionResourceAdmittedItemExtIEsExtensionValue", [
    ⟨"Present", {}, .int⟩]⟩, -- 700
  ⟨"PDUSessionResourceAdmittedItemExtIEs", [
    ⟨"Id", {}, (.struct 7)⟩,
    ⟨"Criticality", {}, (.struct 1)⟩,
    ⟨"ExtensionValue", { openType := true, refField := "Id" }, (.struct 700)⟩]⟩, -- 701
  ⟨"ProtocolExtensionContainerPDUSessionResourceAdmittedItemExtIEs", [
    ⟨"List", { sizeLB := some (1), sizeUB := some (65535) }, (.slice (.struct 701))⟩]⟩, -- 702
  ⟨"PDUSessionResourceAdmittedItem", [
    ⟨"PDUSessionID", {}, (.struct 607)⟩,
    ⟨"HandoverRequestAcknowledgeTransfer", {}, .octs⟩,
    ⟨"IEExtensions", { optional := true }, (.ptr (.struct 702))⟩]⟩, -- 703
  ⟨"PDUSessionResourceAdmittedList", [
    ⟨"List", { valueExt := true, sizeLB := some (1), sizeUB := some (256) }, (.slice (.struct 703))⟩]⟩, -- 704
  ⟨"PDUSessionResourceFailedToSetupItemHOAckExtIEsExtensionValue", [
    ⟨"Present", {}, .int⟩]⟩, -- 705
  ⟨"PDUSessionResourceFailedToSetupItemHOAckExtIEs", [
    ⟨"Id", {}, (.struct 7)⟩,
    ⟨"Criticality", {}, (.struct 1)⟩,
    ⟨"ExtensionValue", { openType := true, refField := "Id" }, (.struct 705)⟩]⟩, -- 706
  ⟨"ProtocolExtensionContainerPDUSessionResourceFailedToSetupItemHOAckExtIEs", [
    ⟨"List", { sizeLB := some (1), sizeUB := some (65535) }, (.slice (.struct 706))⟩]⟩, -- 707
  ⟨"PDUSessionResourceFailedToSetupItemHOAck", [
    ⟨"PDUSessionID", {}, (.struct 607)⟩,
    ⟨"HandoverResourceAllocationUnsuccessfulTransfer", {}, .octs⟩,
    ⟨"IEExtensions", { optional := true }, (.ptr (.struct 707))⟩]⟩, -- 708
  ⟨"PDUSessionResourceFailedToSetupListHOAck", [
    ⟨"List", { valueExt := true, sizeLB := some (1), sizeUB := some (256) }, (.slice (.struct 708))⟩]⟩, -- 709
  ⟨"HandoverRequestAcknowledgeIEsValue", [
    ⟨"Present", {}, .int⟩,
    ⟨"AMFUENGAPID", { refValue := some (10) }, (.ptr (.struct 135))⟩,
    ⟨"RANUENGAPID", { refValue := some (85) }, (.ptr (.struct 354))⟩,
    ⟨"PDUSessionResourceAdmittedList", { refValue := some (53) }, (.ptr (.struct 704))⟩,
    ⟨"PDUSessionResourceFailedToSetupListHOAck", { refValue := some (56) }, (.ptr (.struct 709))⟩,
    ⟨"TargetToSourceTransparentContainer", { refValue := some (106) }, (.ptr (.struct 618))⟩,
    ⟨"CriticalityDiagnostics", { valueExt := true, refValue := some (19) }, (.ptr (.struct 86))⟩]⟩, -- 710
  ⟨"HandoverRequestAcknowledgeIEs", [
    ⟨"Id", {}, (.struct 0)⟩,
    ⟨"Criticality", {}, (.struct 1)⟩,
    ⟨"Value", { openType := true, refField := "Id" }, (.struct 710)⟩]⟩, -- 711
  ⟨"ProtocolIEContainerHandoverRequestAcknowledgeIEs", [
    ⟨"List", { sizeLB := some (0), sizeUB := some (65535) }, (.slice (.struct 711))⟩]⟩, -- 712
  ⟨"HandoverRequestAcknowledge", [
    ⟨"ProtocolIEs", {}, (.struct 712)⟩]⟩, -- 713
  ⟨"IntegrityProtectionResult", [
    ⟨"Value", { valueExt := true, valueLB := some (0), valueUB := some (1) }, .enum⟩]⟩, -- 714
  ⟨"SecurityResultExtIEsExtensionValue", [
    ⟨"Present", {}, .int⟩]⟩, -- 715
  ⟨"SecurityResultExtIEs", [
    ⟨"Id", {}, (.struct 7)⟩,
    ⟨"Criticality", {}, (.struct 1)⟩,
    ⟨"ExtensionValue", { openType := true, refField := "Id" }, (.struct 715)⟩]⟩, -- 716
  ⟨"ProtocolExtensionContainerSecurityResultExtIEs", [
    ⟨"List", { sizeLB := some (1), sizeUB := some (65535) }, (.slice (.struct 716))⟩]⟩, -- 717
  ⟨"SecurityResult", [
    ⟨"IntegrityProtectionResult", {}, (.struct 714)⟩,
    ⟨"ConfidentialityProtectionResult", {}, (.struct 366)⟩,
    ⟨"IEExtensions", { optional := true }, (.ptr (.struct 717))⟩]⟩, -- 718
  ⟨"QosFlowSetupResponseItemHOReqAckExtIEsExtensionValue", [
    ⟨"Present", {}, .int⟩]⟩, -- 719
  ⟨"QosFlowSetupResponseItemHOReqAckExtIEs", [
    ⟨"Id", {}, (.struct 7)⟩,
    ⟨"Criticality", {}, (.struct 1)⟩,
    ⟨"ExtensionValue", { openType := true, refField := "Id" }, (.struct 719)⟩]⟩, -- 720
  ⟨"ProtocolExtensionContainerQosFlowSetupResponseItemHOReqAckExtIEs", [
    ⟨"List", { sizeLB := some (1), sizeUB := some (65535) }, (.slice (.struct 720))⟩]⟩, -- 721
  ⟨"QosFlowSetupResponseItemHOReqAck", [
    ⟨"QosFlowIdentifier", {}, (.struct 211)⟩,
    ⟨"DataForwardingAccepted", { optional := true }, (.ptr (.struct 437))⟩,
    ⟨"IEExtensions", { optional := true }, (.ptr (.struct 721))⟩]⟩, -- 722
  ⟨"QosFlowSetupResponseListHOReqAck", [
    ⟨"List", { valueExt := true, sizeLB := some (1), sizeUB := some (64) }, (.slice (.struct 722))⟩]⟩, -- 723
  ⟨"QosFlowItemExtIEsExtensionValue", [
    ⟨"Present", {}, .int⟩]⟩, -- 724
  ⟨"QosFlowItemExtIEs", [
    ⟨"Id", {}, (.struct 7)⟩,
    ⟨"Criticality", {}, (.struct 1)⟩,
    ⟨"ExtensionValue", { openType := true, refField := "Id" }, (.struct 724)⟩]⟩, -- 725
  ⟨"ProtocolExtensionContainerQosFlowItemExtIEs", [
    ⟨"List", { sizeLB := some (1), sizeUB := some (65535) }, (.slice (.struct 725))⟩]⟩, -- 726
  ⟨"QosFlowItem", [
    ⟨"QosFlowIdentifier", {}, (.struct 211)⟩,
    ⟨"Cause", { valueLB := some (0), valueUB := some (5) }, (.struct 69)⟩,
    ⟨"IEExtensions", { optional := true }, (.ptr (.struct 726))⟩]⟩, -- 727
  ⟨"QosFlowList", [
    ⟨"List", { valueExt := true, sizeLB := some (1), sizeUB := some (64) }, (.slice (.struct 727))⟩]⟩, -- 728
  ⟨"HandoverRequestAcknowledgeTransferExtIEsExtensionValue", [
    ⟨"Present", {}, .int⟩]⟩, -- 729
  ⟨"HandoverRequestAcknowledgeTransferExtIEs", [
    ⟨"Id", {}, (.struct 7)⟩,
    ⟨"Criticality", {}, (.struct 1)⟩,
    ⟨"ExtensionValue", { openType := true, refField := "Id" }, (.struct 729)⟩]⟩, -- 730
  ⟨"ProtocolExtensionContainerHandoverRequestAcknowledgeTransferExtIEs", [
    ⟨"List", { sizeLB := some (1), sizeUB := some (65535) }, (.slice (.struct 730))⟩]⟩, -- 731
  ⟨"HandoverRequestAcknowledgeTransfer", [
    ⟨"DLNGUUPTNLInformation", { valueLB := some (0), valueUB := some (1) }, (.struct 445)⟩,
    ⟨"DLForwardingUPTNLInformation", { optional := true, valueLB := some (0), valueUB := some (1) }, (.ptr (.struct 445))⟩,
    ⟨"SecurityResult", { optional := true, valueExt := true }, (.ptr (.struct 718))⟩,
    ⟨"QosFlowSetupResponseList", {}, (.struct 723)⟩,
    ⟨"QosFlowFailedToSetupList", { optional := true }, (.ptr (.struct 728))⟩,
    ⟨"DataForwardingResponseDRBList", { optional := true }, (.ptr (.struct 450))⟩,
    ⟨"IEExtensions", { optional := true }, (.ptr (.struct 731))⟩]⟩, -- 732
  ⟨"TargeteNBIDExtIEsExtensionValue", [
    ⟨"Present", {}, .int⟩]⟩, -- 733
  ⟨"TargeteNBIDExtIEs", [
    ⟨"Id", {}, (.struct 7)⟩,
    ⟨"Criticality", {}, (.struct 1)⟩,
    ⟨"ExtensionValue", { openType := true, refField := "Id" }, (.struct 733)⟩]⟩, -- 734
  ⟨"ProtocolExtensionContainerTargeteNBIDExtIEs", [
    ⟨"List", { sizeLB := some (1), sizeUB := some (65535) }, (.slice (.struct 734))⟩]⟩, -- 735
  ⟨"TargeteNBID", [
    ⟨"GlobalENBID", { valueExt := true }, (.struct 107)⟩,
    ⟨"SelectedEPSTAI", { valueExt := true }, (.struct 559)⟩,
    ⟨"IEExtensions", { optional := true }, (.ptr (.struct 735))⟩]⟩, -- 736
  ⟨"ProtocolIESingleContainerTargetIDExtIEs", []⟩, -- 737
  ⟨"TargetID", [
    ⟨"Present", {}, .int⟩,
    ⟨"TargetRANNodeID", { valueExt := true }, (.ptr (.struct 500))⟩,
    ⟨"TargeteNBID", { valueExt := true }, (.ptr (.struct 736))⟩,
    ⟨"ChoiceExtensions", {}, (.ptr (.struct 737))⟩]⟩, -- 738
  ⟨"PDUSessionResourceItemHORqdExtIEsExtensionValue", [
    ⟨"Present", {}, .int⟩]⟩, -- 739
  ⟨"PDUSessionResourceItemHORqdExtIEs", [
    ⟨"Id", {}, (.struct 7)⟩,
    ⟨"Criticality", {}, (.struct 1)⟩,
    ⟨"ExtensionValue", { openType := true, refField := "Id" }, (.struct 739)⟩]⟩, -- 740
  ⟨"ProtocolExtensionContainerPDUSessionResourceItemHORqdExtIEs", [
    ⟨"List", { sizeLB := some (1), sizeUB := some (65535) }, (.slice (.struct 740))⟩]⟩, -- 741
  ⟨"PDUSessionResourceItemHORqd", [
    ⟨"PDUSessionID", {}, (.struct 607)⟩,
    ⟨"HandoverRequiredTransfer", {}, .octs⟩,
    ⟨"IEExtensions", { optional := true }, (.ptr (.struct 741))⟩]⟩, -- 742
  ⟨"PDUSessionResourceListHORqd", [
    ⟨"List", { valueExt := true, sizeLB := some (1), sizeUB := some (256) }, (.slice (.struct 742))⟩]⟩, -- 743
  ⟨"HandoverRequiredIEsValue", [
    ⟨"Present", {}, .int⟩,
    ⟨"AMFUENGAPID", { refValue := some (10) }, (.ptr (.struct 135))⟩,
    ⟨"RANUENGAPID", { refValue := some (85) }, (.ptr (.struct 354))⟩,
    ⟨"HandoverType", { refValue := some (29) }, (.ptr (.struct 605))⟩,
    ⟨"Cause", { valueLB := some (0), valueUB := some (5), refValue := some (15) }, (.ptr (.struct 69))⟩,
    ⟨"TargetID", { valueLB := some (0), valueUB := some (2), refValue := some (105) }, (.ptr (.struct 738))⟩,
    ⟨"DirectForwardingPathAvailability", { refValue := some (22) }, (.ptr (.struct 456))⟩,
    ⟨"PDUSessionResourceListHORqd", { refValue := some (61) }, (.ptr (.struct 743))⟩,
    ⟨"SourceToTargetTransparentContainer", { refValue := some (101) }, (.ptr (.struct 689))⟩]⟩, -- 744
  ⟨"HandoverRequiredIEs", [
    ⟨"Id", {}, (.struct 0)⟩,
    ⟨"Criticality", {}, (.struct 1)⟩,
    ⟨"Value", { openType := true, refField := "Id" }, (.struct 744)⟩]⟩, -- 745
  ⟨"ProtocolIEContainerHandoverRequiredIEs", [
    ⟨"List", { sizeLB := some (0), sizeUB := some (65535) }, (.slice (.struct 745))⟩]⟩, -- 746
  ⟨"HandoverRequired", [
    ⟨"ProtocolIEs", {}, (.struct 746)⟩]⟩, -- 747
  ⟨"HandoverRequiredTransferExtIEsExtensionValue", [
    ⟨"Present", {}, .int⟩]⟩, -- 748
  ⟨"HandoverRequiredTransferExtIEs", [
    ⟨"Id", {}, (.struct 7)⟩,
    ⟨"Criticality", {}, (.struct 1)⟩,
    ⟨"ExtensionValue", { openType := true, refField := "Id" }, (.struct 748)⟩]⟩, -- 749
  ⟨"ProtocolExtensionContainerHandoverRequiredTransferExtIEs", [
    ⟨"List", { sizeLB := some (1), sizeUB := some (65535) }, (.slice (.struct 749))⟩]⟩, -- 750
  ⟨"HandoverRequiredTransfer", [
    ⟨"DirectForwardingPathAvailability", { optional := true }, (.ptr (.struct 456))⟩,
    ⟨"IEExtensions", { optional := true }, (.ptr (.struct 750))⟩]⟩, -- 751
  ⟨"HandoverResourceAllocationUnsuccessfulTransferExtIEsExtensionValue", [
    ⟨"Present", {}, .int⟩]⟩, -- 752
  ⟨"HandoverResourceAllocationUnsuccessfulTransferExtIEs", [
    ⟨"Id", {}, (.struct 7)⟩,
    ⟨"Criticality", {}, (.struct 1)⟩,
    ⟨"ExtensionValue", { openType := true, refField := "Id" }, (.struct 752)⟩]⟩, -- 753
  ⟨"ProtocolExtensionContainerHandoverResourceAllocationUnsuccessfulTransferExtIEs", [
    ⟨"List", { sizeLB := some (1), sizeUB := some (65535) }, (.slice (.struct 753))⟩]⟩, -- 754
  ⟨"HandoverResourceAllocationUnsuccessfulTransfer", [
    ⟨"Cause", { valueLB := some (0), valueUB := some (5) }, (.struct 69)⟩,
    ⟨"CriticalityDiagnostics", { optional := true, valueExt := true }, (.ptr (.struct 86))⟩,
    ⟨"IEExtensions", { optional := true }, (.ptr (.struct 754))⟩]⟩, -- 755
  ⟨"IMSVoiceSupportIndicator", [
    ⟨"Value", { valueExt := true, valueLB := some (0), valueUB := some (1) }, .enum⟩]⟩, -- 756
  ⟨"RecommendedRANNodeItemExtIEsExtensionValue", [
    ⟨"Present", {}, .int⟩]⟩, -- 757
  ⟨"RecommendedRANNodeItemExtIEs", [
    ⟨"Id", {}, (.struct 7)⟩,
    ⟨"Criticality", {}, (.struct 1)⟩,
    ⟨"ExtensionValue", { openType := true, refField := "Id" }, (.struct 757)⟩]⟩, -- 758
  ⟨"ProtocolExtensionContainerRecommendedRANNodeItemExtIEs", [
    ⟨"List", { sizeLB := some (1), sizeUB := some (65535) }, (.slice (.struct 758))⟩]⟩, -- 759
  ⟨"RecommendedRANNodeItem", [
    ⟨"AMFPagingTarget", { valueLB := some (0), valueUB := some (2) }, (.struct 122)⟩,
    ⟨"IEExtensions", { optional := true }, (.ptr (.struct 759))⟩]⟩, -- 760
  ⟨"RecommendedRANNodeList", [
    ⟨"List", { valueExt := true, sizeLB := some (1), sizeUB := some (16) }, (.slice (.struct 760))⟩]⟩, -- 761
  ⟨"RecommendedRANNodesForPagingExtIEsExtensionValue", [
    ⟨"Present", {}, .int⟩]⟩, -- 762
  ⟨"RecommendedRANNodesForPagingExtIEs", [
    ⟨"Id", {}, (.struct 7)⟩,
    ⟨"Criticality", {}, (.struct 1)⟩,
    ⟨"ExtensionValue", { openType := true, refField := "Id" }, (.struct 762)⟩]⟩, -- 763
  ⟨"ProtocolExtensionContainerRecommendedRANNodesForPagingExtIEs", [
    ⟨"List", { sizeLB := some (1), sizeUB := some (65535) }, (.slice (.struct 763))⟩]⟩, -- 764
  ⟨"RecommendedRANNodesForPaging", [
    ⟨"RecommendedRANNodeList", {}, (.struct 761)⟩,
    ⟨"IEExtensions", { optional := true }, (.ptr (.struct 764))⟩]⟩, -- 765
  ⟨"InfoOnRecommendedCellsAndRANNodesForPagingExtIEsExtensionValue", [
    ⟨"Present", {}, .int⟩]⟩, -- 766
  ⟨"InfoOnRecommendedCellsAndRANNodesForPagingExtIEs", [
    ⟨"Id", {}, (.struct 7)⟩,
    ⟨"Criticality", {}, (.struct 1)⟩,
    ⟨"ExtensionValue", { openType := true, refField := "Id" }, (.struct 766)⟩]⟩, -- 767
  ⟨"ProtocolExtensionContainerInfoOnRecommendedCellsAndRANNodesForPagingExtIEs", [
    ⟨"List", { sizeLB := some (1), sizeUB := some (65535) }, (.slice (.struct 767))⟩]⟩, -- 768
  ⟨"InfoOnRecommendedCellsAndRANNodesForPaging", [
    ⟨"RecommendedCellsForPaging", { valueExt := true }, (.struct 195)⟩,
    ⟨"RecommendRANNodesForPaging", { valueExt := true }, (.struct 765)⟩,
    ⟨"IEExtensions", { optional := true }, (.ptr (.struct 768))⟩]⟩, -- 769
  ⟨"PDUSessionResourceFailedToSetupItemCxtFailExtIEsExtensionValue", [
    ⟨"Present", {}, .int⟩]⟩, -- 770
  ⟨"PDUSessionResourceFailedToSetupItemCxtFailExtIEs", [
    ⟨"Id", {}, (.struct 7)⟩,
    ⟨"Criticality", {}, (.struct 1)⟩,
    ⟨"ExtensionValue", { openType := true, refField := "Id" }, (.struct 770)⟩]⟩, -- 771
  ⟨"ProtocolExtensionContainerPDUSessionResourceFailedToSetupItemCxtFailExtIEs", [
    ⟨"List", { sizeLB := some (1), sizeUB := some (65535) }, (.slice (.struct 771))⟩]⟩, -- 772
  ⟨"PDUSessionResourceFailedToSetupItemCxtFail", [
    ⟨"PDUSessionID", {}, (.struct 607)⟩,
    ⟨"PDUSessionResourceSetupUnsuccessfulTransfer", {}, .octs⟩,
    ⟨"IEExtensions", { optional := true }, (.ptr (.struct 772))⟩]⟩, -- 773
  ⟨"PDUSessionResourceFailedToSetupListCxtFail", [
    ⟨"List", { valueExt := true, sizeLB := some (1), sizeUB := some (256) }, (.slice (.struct 773))⟩]⟩, -- 774
  ⟨"InitialContextSetupFailureIEsValue", [
    ⟨"Present", {}, .int⟩,
    ⟨"AMFUENGAPID", { refValue := some (10) }, (.ptr (.struct 135))⟩,
    ⟨"RANUENGAPID", { refValue := some (85) }, (.ptr (.struct 354))⟩,
    ⟨"PDUSessionResourceFailedToSetupListCxtFail", { refValue := some (132) }, (.ptr (.struct 774))⟩,
    ⟨"Cause", { valueLB := some (0), valueUB := some (5), refValue := some (15) }, (.ptr (.struct 69))⟩,
    ⟨"CriticalityDiagnostics", { valueExt := true, refValue := some (19) }, (.ptr (.struct 86))⟩]⟩, -- 775
  ⟨"InitialContextSetupFailureIEs", [
    ⟨"Id", {}, (.struct 0)⟩,
    ⟨"Criticality", {}, (.struct 1)⟩,
    ⟨"Value", { openType := true, refField := "Id" }, (.struct 775)⟩]⟩, -- 776
  ⟨"ProtocolIEContainerInitialContextSetupFailureIEs", [
    ⟨"List", { sizeLB := some (0), sizeUB := some (65535) }, (.slice (.struct 776))⟩]⟩, -- 777
  ⟨"InitialContextSetupFailure", [
    ⟨"ProtocolIEs", {}, (.struct 777)⟩]⟩, -- 778
  ⟨"PDUSessionResourceSetupItemCxtReqExtIEsExtensionValue", [
    ⟨"Present", {}, .int⟩]⟩, -- 779
  ⟨"PDUSessionResourceSetupItemCxtReqExtIEs", [
    ⟨"Id", {}, (.struct 7)⟩,
    ⟨"Criticality", {}, (.struct 1)⟩,
    ⟨"ExtensionValue", { openType := true, refField := "Id" }, (.struct 779)⟩]⟩, -- 780
  ⟨"ProtocolExtensionContainerPDUSessionResourceSetupItemCxtReqExtIEs", [
    ⟨"List", { sizeLB := some (1), sizeUB := some (65535) }, (.slice (.struct 780))⟩]⟩, -- 781
  ⟨"PDUSessionResourceSetupItemCxtReq", [
    ⟨"PDUSessionID", {}, (.struct 607)⟩,
    ⟨"NASPDU", { optional := true }, (.ptr (.struct 458))⟩,
    ⟨"SNSSAI", { valueExt := true }, (.struct 23)⟩,
    ⟨"PDUSessionResourceSetupRequestTransfer", {}, .octs⟩,
    ⟨"IEExtensions", { optional := true }, (.ptr (.struct 781))⟩]⟩, -- 782
  ⟨"PDUSessionResourceSetupListCxtReq", [
    ⟨"List", { valueExt := true, sizeLB := some (1), sizeUB := some (256) }, (.slice (.struct 782))⟩]⟩, -- 783
  ⟨"UERadioCapability", [
    ⟨"Value", {}, .octs⟩]⟩, -- 784
  ⟨"UERadioCapabilityForPagingOfNR", [
    ⟨"Value", {}, .octs⟩]⟩, -- 785
  ⟨"UERadioCapabilityForPagingOfEUTRA", [
    ⟨"Value", {}, .octs⟩]⟩, -- 786
  ⟨"UERadioCapabilityForPagingExtIEsExtensionValue", [
    ⟨"Present", {}, .int⟩]⟩, -- 787
  ⟨"UERadioCapabilityForPagingExtIEs", [
    ⟨"Id", {}, (.struct 7)⟩,
    ⟨"Criticality", {}, (.struct 1)⟩,
    ⟨"ExtensionValue", { openType := true, refField := "Id" }, (.struct 787)⟩]⟩, -- 788
  ⟨"ProtocolExtensionContainerUERadioCapabilityForPagingExtIEs", [
    ⟨"List", { sizeLB := some (1), sizeUB := some (65535) }, (.slice (.struct 788))⟩]⟩, -- 789
  ⟨"UERadioCapabilityForPaging", [
    ⟨"UERadioCapabilityForPagingOfNR", { optional := true }, (.ptr (.struct 785))⟩,
    ⟨"UERadioCapabilityForPagingOfEUTRA", { optional := true }, (.ptr (.struct 786))⟩,
    ⟨"IEExtensions", { optional := true }, (.ptr (.struct 789))⟩]⟩, -- 790
  ⟨"InitialContextSetupRequestIEsValue", [
    ⟨"Present", {}, .int⟩,
    ⟨"AMFUENGAPID", { refValue := some (10) }, (.ptr (.struct 135))⟩,
    ⟨"RANUENGAPID", { refValue := some (85) }, (.ptr (.struct 354))⟩,
    ⟨"OldAMF", { refValue := some (48) }, (.ptr (.struct 2))⟩,
    ⟨"UEAggregateMaximumBitRate", { valueExt := true, refValue := some (110) }, (.ptr (.struct 486))⟩,
    ⟨"CoreNetworkAssistanceInformation", { valueExt := true, refValue := some (18) }, (.ptr (.struct 398))⟩,
    ⟨"GUAMI", { valueExt := true, refValue := some (28) }, (.ptr (.struct 11))⟩,
    ⟨"PDUSessionResourceSetupListCxtReq", { refValue := some (71) }, (.ptr (.struct 783))⟩,
    ⟨"AllowedNSSAI", { refValue := some (0) }, (.ptr (.struct 148))⟩,
    ⟨"UESecurityCapabilities", { valueExt := true, refValue := some (119) }, (.ptr (.struct 669))⟩,
    ⟨"SecurityKey", { refValue := some (94) }, (.ptr (.struct 671))⟩,
    ⟨"TraceActivation", { valueExt := true, refValue := some (108) }, (.ptr (.struct 687))⟩,
    ⟨"MobilityRestrictionList", { valueExt := true, refValue := some (36) }, (.ptr (.struct 481))⟩,
    ⟨"UERadioCapability", { refValue := some (117) }, (.ptr (.struct 784))⟩,
    ⟨"IndexToRFSP", { refValue := some (31) }, (.ptr (.struct 482))⟩,
    ⟨"MaskedIMEISV", { refValue := some (34) }, (.ptr (.struct 688))⟩,
    ⟨"NASPDU", { refValue := some (38) }, (.ptr (.struct 458))⟩,
    ⟨"EmergencyFallbackIndicator", { valueExt := true, refValue := some (24) }, (.ptr (.struct 576))⟩,
    ⟨"RRCInactiveTransitionReportRequest", { refValue := some (91) }, (.ptr (.struct 695))⟩,
    ⟨"UERadioCapabilityForPaging", { valueExt := true, refValue := some (118) }, (.ptr (.struct 790))⟩]⟩, -- 791
  ⟨"InitialContextSetupRequestIEs", [
    ⟨"Id", {}, (.struct 0)⟩,
    ⟨"Criticality", {}, (.struct 1)⟩,
    ⟨"Value", { openType := true, refField := "Id" }, (.struct 791)⟩]⟩, -- 792
  ⟨"ProtocolIEContainerInitialContextSetupRequestIEs", [
    ⟨"List", { sizeLB := some (0), sizeUB := some (65535) }, (.slice (.struct 792))⟩]⟩, -- 793
  ⟨"InitialContextSetupRequest", [
    ⟨"ProtocolIEs", {}, (.struct 793)⟩]⟩, -- 794
  ⟨"PDUSessionResourceSetupItemCxtResExtIEsExtensionValue", [
    ⟨"Present", {}, .int⟩]⟩, -- 795
  ⟨"PDUSessionResourceSetupItemCxtResExtIEs", [
    ⟨"Id", {}, (.struct 7)⟩,
    ⟨"Criticality", {}, (.struct 1)⟩,
    ⟨"ExtensionValue", { openType := true, refField := "Id" }, (.struct 795)⟩]⟩, -- 796
  ⟨"ProtocolExtensionContainerPDUSessionResourceSetupItemCxtResExtIEs", [
    ⟨"List", { sizeLB := some (1), sizeUB := some (65535) }, (.slice (.struct 796))⟩]⟩, -- 797
  ⟨"PDUSessionResourceSetupItemCxtRes", [
    ⟨"PDUSessionID", {}, (.struct 607)⟩,
    ⟨"PDUSessionResourceSetupResponseTransfer", {}, .octs⟩,
    ⟨"IEExtensions", { optional := true }, (.ptr (.struct 797))⟩]⟩, -- 798
  ⟨"PDUSessionResourceSetupListCxtRes", [
    ⟨"List", { valueExt := true, sizeLB := some (1), sizeUB := some (256) }, (.slice (.struct 798))⟩]⟩ -- 799
]

end Stgutg.Spec.Ts38413Schema
