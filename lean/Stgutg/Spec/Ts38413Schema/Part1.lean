-- TS 38.413 (v15) abstract syntax of NGAP as a PER-visible schema: a frozen transcription, see Spec/Ts38413Schema.lean for its provenance.
import Stgutg.Model.AperTypes
namespace Stgutg.Spec.Ts38413Schema
open Stgutg.Aper

def schema1 : List StructDef := [
  ⟨"ProtocolExtensionContainerGlobalGNBIDExtIEs", [
    ⟨"List", { sizeLB := some (1), sizeUB := some (65535) }, (.slice (.struct 99))⟩]⟩, -- 100
  ⟨"GlobalGNBID", [
    ⟨"PLMNIdentity", {}, (.struct 3)⟩,
    ⟨"GNBID", { valueLB := some (0), valueUB := some (1) }, (.struct 97)⟩,
    ⟨"IEExtensions", { optional := true }, (.ptr (.struct 100))⟩]⟩, -- 101
  ⟨"ProtocolIESingleContainerNgENBIDExtIEs", []⟩, -- 102
  ⟨"NgENBID", [
    ⟨"Present", {}, .int⟩,
    ⟨"MacroNgENBID", { sizeLB := some (20), sizeUB := some (20) }, (.ptr .bits)⟩,
    ⟨"ShortMacroNgENBID", { sizeLB := some (18), sizeUB := some (18) }, (.ptr .bits)⟩,
    ⟨"LongMacroNgENBID", { sizeLB := some (21), sizeUB := some (21) }, (.ptr .bits)⟩,
    ⟨"ChoiceExtensions", {}, (.ptr (.struct 102))⟩]⟩, -- 103
  ⟨"GlobalNgENBIDExtIEsExtensionValue", [
    ⟨"Present", {}, .int⟩]⟩, -- 104
  ⟨"GlobalNgENBIDExtIEs", [
    ⟨"Id", {}, (.struct 7)⟩,
    ⟨"Criticality", {}, (.struct 1)⟩,
    ⟨"ExtensionValue", { openType := true, refField := "Id" }, (.struct 104)⟩]⟩, -- 105
  ⟨"ProtocolExtensionContainerGlobalNgENBIDExtIEs", [
    ⟨"List", { sizeLB := some (1), sizeUB := some (65535) }, (.slice (.struct 105))⟩]⟩, -- 106
  ⟨"GlobalNgENBID", [
    ⟨"PLMNIdentity", {}, (.struct 3)⟩,
    ⟨"NgENBID", { valueLB := some (0), valueUB := some (3) }, (.struct 103)⟩,
    ⟨"IEExtensions", { optional := true }, (.ptr (.struct 106))⟩]⟩, -- 107
  ⟨"ProtocolIESingleContainerN3IWFIDExtIEs", []⟩, -- 108
  ⟨"N3IWFID", [
    ⟨"Present", {}, .int⟩,
    ⟨"N3IWFID", { sizeLB := some (16), sizeUB := some (16) }, (.ptr .bits)⟩,
    ⟨"ChoiceExtensions", {}, (.ptr (.struct 108))⟩]⟩, -- 109
  ⟨"GlobalN3IWFIDExtIEsExtensionValue", [
    ⟨"Present", {}, .int⟩]⟩, -- 110
  ⟨"GlobalN3IWFIDExtIEs", [
    ⟨"Id", {}, (.struct 7)⟩,
    ⟨"Criticality", {}, (.struct 1)⟩,
    ⟨"ExtensionValue", { openType := true, refField := "Id" }, (.struct 110)⟩]⟩, -- 111
  ⟨"ProtocolExtensionContainerGlobalN3IWFIDExtIEs", [
    ⟨"List", { sizeLB := some (1), sizeUB := some (65535) }, (.slice (.struct 111))⟩]⟩, -- 112
  ⟨"GlobalN3IWFID", [
    ⟨"PLMNIdentity", {}, (.struct 3)⟩,
    ⟨"N3IWFID", { valueLB := some (0), valueUB := some (1) }, (.struct 109)⟩,
    ⟨"IEExtensions", { optional := true }, (.ptr (.struct 112))⟩]⟩, -- 113
  ⟨"ProtocolIESingleContainerGlobalRANNodeIDExtIEs", []⟩, -- 114
  ⟨"GlobalRANNodeID", [
    ⟨"Present", {}, .int⟩,
    ⟨"GlobalGNBID", { valueExt := true }, (.ptr (.struct 101))⟩,
    ⟨"GlobalNgENBID", { valueExt := true }, (.ptr (.struct 107))⟩,
    ⟨"GlobalN3IWFID", { valueExt := true }, (.ptr (.struct 113))⟩,
    ⟨"ChoiceExtensions", {}, (.ptr (.struct 114))⟩]⟩, -- 115
  ⟨"TAC", [
    ⟨"Value", { sizeLB := some (3), sizeUB := some (3) }, .octs⟩]⟩, -- 116
  ⟨"TAIExtIEsExtensionValue", [
    ⟨"Present", {}, .int⟩]⟩, -- 117
  ⟨"TAIExtIEs", [
    ⟨"Id", {}, (.struct 7)⟩,
    ⟨"Criticality", {}, (.struct 1)⟩,
    ⟨"ExtensionValue", { openType := true, refField := "Id" }, (.struct 117)⟩]⟩, -- 118
  ⟨"ProtocolExtensionContainerTAIExtIEs", [
    ⟨"List", { sizeLB := some (1), sizeUB := some (65535) }, (.slice (.struct 118))⟩]⟩, -- 119
  ⟨"TAI", [
    ⟨"PLMNIdentity", {}, (.struct 3)⟩,
    ⟨"TAC", {}, (.struct 116)⟩,
    ⟨"IEExtensions", { optional := true }, (.ptr (.struct 119))⟩]⟩, -- 120
  ⟨"ProtocolIESingleContainerAMFPagingTargetExtIEs", []⟩, -- 121
  ⟨"AMFPagingTarget", [
    ⟨"Present", {}, .int⟩,
    ⟨"GlobalRANNodeID", { valueLB := some (0), valueUB := some (3) }, (.ptr (.struct 115))⟩,
    ⟨"TAI", { valueExt := true }, (.ptr (.struct 120))⟩,
    ⟨"ChoiceExtensions", {}, (.ptr (.struct 121))⟩]⟩, -- 122
  ⟨"AMFPagingTargetExtIEsValue", [
    ⟨"Present", {}, .int⟩]⟩, -- 123
  ⟨"AMFPagingTargetExtIEs", [
    ⟨"Id", {}, (.struct 0)⟩,
    ⟨"Criticality", {}, (.struct 1)⟩,
    ⟨"Value", { openType := true, refField := "Id" }, (.struct 123)⟩]⟩, -- 124
  ⟨"TimerApproachForGUAMIRemoval", [
    ⟨"Value", { valueExt := true, valueLB := some (0), valueUB := some (0) }, .enum⟩]⟩, -- 125
  ⟨"UnavailableGUAMIItemExtIEsExtensionValue", [
    ⟨"Present", {}, .int⟩]⟩, -- 126
  ⟨"UnavailableGUAMIItemExtIEs", [
    ⟨"Id", {}, (.struct 7)⟩,
    ⟨"Criticality", {}, (.struct 1)⟩,
    ⟨"ExtensionValue", { openType := true, refField := "Id" }, (.struct 126)⟩]⟩, -- 127
  ⟨"ProtocolExtensionContainerUnavailableGUAMIItemExtIEs", [
    ⟨"List", { sizeLB := some (1), sizeUB := some (65535) }, (.slice (.struct 127))⟩]⟩, -- 128
  ⟨"UnavailableGUAMIItem", [
    ⟨"GUAMI", { valueExt := true }, (.struct 11)⟩,
    ⟨"TimerApproachForGUAMIRemoval", { optional := true }, (.ptr (.struct 125))⟩,
    ⟨"BackupAMFName", { optional := true }, (.ptr (.struct 2))⟩,
    ⟨"IEExtensions", { optional := true }, (.ptr (.struct 128))⟩]⟩, -- 129
  ⟨"UnavailableGUAMIList", [
    ⟨"List", { valueExt := true, sizeLB := some (1), sizeUB := some (256) }, (.slice (.struct 129))⟩]⟩, -- 130
  ⟨"AMFStatusIndicationIEsValue", [
    ⟨"Present", {}, .int⟩,
    ⟨"UnavailableGUAMIList", { refValue := some (120) }, (.ptr (.struct 130))⟩]⟩, -- 131
  ⟨"AMFStatusIndicationIEs", [
    ⟨"Id", {}, (.struct 0)⟩,
    ⟨"Criticality", {}, (.struct 1)⟩,
    ⟨"Value", { openType := true, refField := "Id" }, (.struct 131)⟩]⟩, -- 132
  ⟨"ProtocolIEContainerAMFStatusIndicationIEs", [
    ⟨"List", { sizeLB := some (0), sizeUB := some (65535) }, (.slice (.struct 132))⟩]⟩, -- 133
  ⟨"AMFStatusIndication", [
    ⟨"ProtocolIEs", {}, (.struct 133)⟩]⟩, -- 134
  ⟨"AMFUENGAPID", [
    ⟨"Value", { valueLB := some (0), valueUB := some (1099511627775) }, .int⟩]⟩, -- 135
  ⟨"AdditionalQosFlowInformation", [
    ⟨"Value", { valueExt := true, valueLB := some (0), valueUB := some (0) }, .enum⟩]⟩, -- 136
  ⟨"PriorityLevelARP", [
    ⟨"Value", { valueLB := some (1), valueUB := some (15) }, .int⟩]⟩, -- 137
  ⟨"PreEmptionCapability", [
    ⟨"Value", { valueExt := true, valueLB := some (0), valueUB := some (1) }, .enum⟩]⟩, -- 138
  ⟨"PreEmptionVulnerability", [
    ⟨"Value", { valueExt := true, valueLB := some (0), valueUB := some (1) }, .enum⟩]⟩, -- 139
  ⟨"AllocationAndRetentionPriorityExtIEsExtensionValue", [
    ⟨"Present", {}, .int⟩]⟩, -- 140
  ⟨"AllocationAndRetentionPriorityExtIEs", [
    ⟨"Id", {}, (.struct 7)⟩,
    ⟨"Criticality", {}, (.struct 1)⟩,
    ⟨"ExtensionValue", { openType := true, refField := "Id" }, (.struct 140)⟩]⟩, -- 141
  ⟨"ProtocolExtensionContainerAllocationAndRetentionPriorityExtIEs", [
    ⟨"List", { sizeLB := some (1), sizeUB := some (65535) }, (.slice (.struct 141))⟩]⟩, -- 142
  ⟨"AllocationAndRetentionPriority", [
    ⟨"PriorityLevelARP", {}, (.struct 137)⟩,
    ⟨"PreEmptionCapability", {}, (.struct 138)⟩,
    ⟨"PreEmptionVulnerability", {}, (.struct 139)⟩,
    ⟨"IEExtensions", { optional := true }, (.ptr (.struct 142))⟩]⟩, -- 143
  ⟨"AllowedNSSAIItemExtIEsExtensionValue", [
    ⟨"Present", {}, .int⟩]⟩, -- 144
  ⟨"AllowedNSSAIItemExtIEs", [
    ⟨"Id", {}, (.struct 7)⟩,
    ⟨"Criticality", {}, (.struct 1)⟩,
    ⟨"ExtensionValue", { openType := true, refField := "Id" }, (.struct 144)⟩]⟩, -- 145
  ⟨"ProtocolExtensionContainerAllowedNSSAIItemExtIEs", [
    ⟨"List", { sizeLB := some (1), sizeUB := some (65535) }, (.slice (.struct 145))⟩]⟩, -- 146
  ⟨"AllowedNSSAIItem", [
    ⟨"SNSSAI", { valueExt := true }, (.struct 23)⟩,
    ⟨"IEExtensions", { optional := true }, (.ptr (.struct 146))⟩]⟩, -- 147
  ⟨"AllowedNSSAI", [
    ⟨"List", { valueExt := true, sizeLB := some (1), sizeUB := some (8) }, (.slice (.struct 147))⟩]⟩, -- 148
  ⟨"AllowedTACs", [
    ⟨"List", { sizeLB := some (1), sizeUB := some (16) }, (.slice (.struct 116))⟩]⟩, -- 149
  ⟨"AreaOfInterestTAIItemExtIEsExtensionValue", [
    ⟨"Present", {}, .int⟩]⟩, -- 150
  ⟨"AreaOfInterestTAIItemExtIEs", [
    ⟨"Id", {}, (.struct 7)⟩,
    ⟨"Criticality", {}, (.struct 1)⟩,
    ⟨"ExtensionValue", { openType := true, refField := "Id" }, (.struct 150)⟩]⟩, -- 151
  ⟨"ProtocolExtensionContainerAreaOfInterestTAIItemExtIEs", [
    ⟨"List", { sizeLB := some (1), sizeUB := some (65535) }, (.slice (.struct 151))⟩]⟩, -- 152
  ⟨"AreaOfInterestTAIItem", [
    ⟨"TAI", { valueExt := true }, (.struct 120)⟩,
    ⟨"IEExtensions", { optional := true }, (.ptr (.struct 152))⟩]⟩, -- 153
  ⟨"AreaOfInterestTAIList", [
    ⟨"List", { valueExt := true, sizeLB := some (1), sizeUB := some (16) }, (.slice (.struct 153))⟩]⟩, -- 154
  ⟨"NRCellIdentity", [
    ⟨"Value", { sizeLB := some (36), sizeUB := some (36) }, .bits⟩]⟩, -- 155
  ⟨"NRCGIExtIEsExtensionValue", [
    ⟨"Present", {}, .int⟩]⟩, -- 156
  ⟨"NRCGIExtIEs", [
    ⟨"Id", {}, (.struct 7)⟩,
    ⟨"Criticality", {}, (.struct 1)⟩,
    ⟨"ExtensionValue", { openType := true, refField := "Id" }, (.struct 156)⟩]⟩, -- 157
  ⟨"ProtocolExtensionContainerNRCGIExtIEs", [
    ⟨"List", { sizeLB := some (1), sizeUB := some (65535) }, (.slice (.struct 157))⟩]⟩, -- 158
  ⟨"NRCGI", [
    ⟨"PLMNIdentity", {}, (.struct 3)⟩,
    ⟨"NRCellIdentity", {}, (.struct 155)⟩,
    ⟨"IEExtensions", { optional := true }, (.ptr (.struct 158))⟩]⟩, -- 159
  ⟨"EUTRACellIdentity", [
    ⟨"Value", { sizeLB := some (28), sizeUB := some (28) }, .bits⟩]⟩, -- 160
  ⟨"EUTRACGIExtIEsExtensionValue", [
    ⟨"Present", {}, .int⟩]⟩, -- 161
  ⟨"EUTRACGIExtIEs", [
    ⟨"Id", {}, (.struct 7)⟩,
    ⟨"Criticality", {}, (.struct 1)⟩,
    ⟨"ExtensionValue", { openType := true, refField := "Id" }, (.struct 161)⟩]⟩, -- 162
  ⟨"ProtocolExtensionContainerEUTRACGIExtIEs", [
    ⟨"List", { sizeLB := some (1), sizeUB := some (65535) }, (.slice (.struct 162))⟩]⟩, -- 163
  ⟨"EUTRACGI", [
    ⟨"PLMNIdentity", {}, (.struct 3)⟩,
    ⟨"EUTRACellIdentity", {}, (.struct 160)⟩,
    ⟨"IEExtensions", { optional := true }, (.ptr (.struct 163))⟩]⟩, -- 164
  ⟨"ProtocolIESingleContainerNGRANCGIExtIEs", []⟩, -- 165
  ⟨"NGRANCGI", [
    ⟨"Present", {}, .int⟩,
    ⟨"NRCGI", { valueExt := true }, (.ptr (.struct 159))⟩,
    ⟨"EUTRACGI", { valueExt := true }, (.ptr (.struct 164))⟩,
    ⟨"ChoiceExtensions", {}, (.ptr (.struct 165))⟩]⟩, -- 166
  ⟨"AreaOfInterestCellItemExtIEsExtensionValue", [
    ⟨"Present", {}, .int⟩]⟩, -- 167
  ⟨"AreaOfInterestCellItemExtIEs", [
    ⟨"Id", {}, (.struct 7)⟩,
    ⟨"Criticality", {}, (.struct 1)⟩,
    ⟨"ExtensionValue", { openType := true, refField := "Id" }, (.struct 167)⟩]⟩, -- 168
  ⟨"ProtocolExtensionContainerAreaOfInterestCellItemExtIEs", [
    ⟨"List", { sizeLB := some (1), sizeUB := some (65535) }, (.slice (.struct 168))⟩]⟩, -- 169
  ⟨"AreaOfInterestCellItem", [
    ⟨"NGRANCGI", { valueLB := some (0), valueUB := some (2) }, (.struct 166)⟩,
    ⟨"IEExtensions", { optional := true }, (.ptr (.struct 169))⟩]⟩, -- 170
  ⟨"AreaOfInterestCellList", [
    ⟨"List", { valueExt := true, sizeLB := some (1), sizeUB := some (256) }, (.slice (.struct 170))⟩]⟩, -- 171
  ⟨"AreaOfInterestRANNodeItemExtIEsExtensionValue", [
    ⟨"Present", {}, .int⟩]⟩, -- 172
  ⟨"AreaOfInterestRANNodeItemExtIEs", [
    ⟨"Id", {}, (.struct 7)⟩,
    ⟨"Criticality", {}, (.struct 1)⟩,
    ⟨"ExtensionValue", { openType := true, refField := "Id" }, (.struct 172)⟩]⟩, -- 173
  ⟨"ProtocolExtensionContainerAreaOfInterestRANNodeItemExtIEs", [
    ⟨"List", { sizeLB := some (1), sizeUB := some (65535) }, (.slice (.struct 173))⟩]⟩, -- 174
  ⟨"AreaOfInterestRANNodeItem", [
    ⟨"GlobalRANNodeID", { valueLB := some (0), valueUB := some (3) }, (.struct 115)⟩,
    ⟨"IEExtensions", { optional := true }, (.ptr (.struct 174))⟩]⟩, -- 175
  ⟨"AreaOfInterestRANNodeList", [
    ⟨"List", { valueExt := true, sizeLB := some (1), sizeUB := some (64) }, (.slice (.struct 175))⟩]⟩, -- 176
  ⟨"AreaOfInterestExtIEsExtensionValue", [
    ⟨"Present", {}, .int⟩]⟩, -- 177
  ⟨"AreaOfInterestExtIEs", [
    ⟨"Id", {}, (.struct 7)⟩,
    ⟨"Criticality", {}, (.struct 1)⟩,
    ⟨"ExtensionValue", { openType := true, refField := "Id" }, (.struct 177)⟩]⟩, -- 178
  ⟨"ProtocolExtensionContainerAreaOfInterestExtIEs", [
    ⟨"List", { sizeLB := some (1), sizeUB := some (65535) }, (.slice (.struct 178))⟩]⟩, -- 179
  ⟨"AreaOfInterest", [
    ⟨"AreaOfInterestTAIList", { optional := true }, (.ptr (.struct 154))⟩,
    ⟨"AreaOfInterestCellList", { optional := true }, (.ptr (.struct 171))⟩,
    ⟨"AreaOfInterestRANNodeList", { optional := true }, (.ptr (.struct 176))⟩,
    ⟨"IEExtensions", { optional := true }, (.ptr (.struct 179))⟩]⟩, -- 180
  ⟨"LocationReportingReferenceID", [
    ⟨"Value", { valueExt := true, valueLB := some (1), valueUB := some (64) }, .int⟩]⟩, -- 181
  ⟨"AreaOfInterestItemExtIEsExtensionValue", [
    ⟨"Present", {}, .int⟩]⟩, -- 182
  ⟨"AreaOfInterestItemExtIEs", [
    ⟨"Id", {}, (.struct 7)⟩,
    ⟨"Criticality", {}, (.struct 1)⟩,
    ⟨"ExtensionValue", { openType := true, refField := "Id" }, (.struct 182)⟩]⟩, -- 183
  ⟨"ProtocolExtensionContainerAreaOfInterestItemExtIEs", [
    ⟨"List", { sizeLB := some (1), sizeUB := some (65535) }, (.slice (.struct 183))⟩]⟩, -- 184
  ⟨"AreaOfInterestItem", [
    ⟨"AreaOfInterest", { valueExt := true }, (.struct 180)⟩,
    ⟨"LocationReportingReferenceID", {}, (.struct 181)⟩,
    ⟨"IEExtensions", { optional := true }, (.ptr (.struct 184))⟩]⟩, -- 185
  ⟨"AreaOfInterestList", [
    ⟨"List", { valueExt := true, sizeLB := some (1), sizeUB := some (64) }, (.slice (.struct 185))⟩]⟩, -- 186
  ⟨"RecommendedCellItemExtIEsExtensionValue", [
    ⟨"Present", {}, .int⟩]⟩, -- 187
  ⟨"RecommendedCellItemExtIEs", [
    ⟨"Id", {}, (.struct 7)⟩,
    ⟨"Criticality", {}, (.struct 1)⟩,
    ⟨"ExtensionValue", { openType := true, refField := "Id" }, (.struct 187)⟩]⟩, -- 188
  ⟨"ProtocolExtensionContainerRecommendedCellItemExtIEs", [
    ⟨"List", { sizeLB := some (1), sizeUB := some (65535) }, (.slice (.struct 188))⟩]⟩, -- 189
  ⟨"RecommendedCellItem", [
    ⟨"NGRANCGI", { valueLB := some (0), valueUB := some (2) }, (.struct 166)⟩,
    ⟨"TimeStayedInCell", { optional := true, valueLB := some (0), valueUB := some (4095) }, (.ptr .int)⟩,
    ⟨"IEExtensions", { optional := true }, (.ptr (.struct 189))⟩]⟩, -- 190
  ⟨"RecommendedCellList", [
    ⟨"List", { valueExt := true, sizeLB := some (1), sizeUB := some (16) }, (.slice (.struct 190))⟩]⟩, -- 191
  ⟨"RecommendedCellsForPagingExtIEsExtensionValue", [
    ⟨"Present", {}, .int⟩]⟩, -- 192
  ⟨"RecommendedCellsForPagingExtIEs", [
    ⟨"Id", {}, (.struct 7)⟩,
    ⟨"Criticality", {}, (.struct 1)⟩,
    ⟨"ExtensionValue", { openType := true, refField := "Id" }, (.struct 192)⟩]⟩, -- 193
  ⟨"ProtocolExtensionContainerRecommendedCellsForPagingExtIEs", [
    ⟨"List", { sizeLB := some (1), sizeUB := some (65535) }, (.slice (.struct 193))⟩]⟩, -- 194
  ⟨"RecommendedCellsForPaging", [
    ⟨"RecommendedCellList", {}, (.struct 191)⟩,
    ⟨"IEExtensions", { optional := true }, (.ptr (.struct 194))⟩]⟩, -- 195
  ⟨"AssistanceDataForRecommendedCellsExtIEsExtensionValue", [
    ⟨"Present", {}, .int⟩]⟩, -- 196
  ⟨"AssistanceDataForRecommendedCellsExtIEs", [
    ⟨"Id", {}, (.struct 7)⟩,
    ⟨"Criticality", {}, (.struct 1)⟩,
    ⟨"ExtensionValue", { openType := true, refField := "Id" }, (.struct 196)⟩]⟩, -- 197
  ⟨"ProtocolExtensionContainerAssistanceDataForRecommendedCellsExtIEs", [
    ⟨"List", { sizeLB := some (1), sizeUB := some (65535) }, (.slice (.struct 197))⟩]⟩, -- 198
  ⟨"AssistanceDataForRecommendedCells", [
    ⟨"RecommendedCellsForPaging", { valueExt := true }, (.struct 195)⟩,
    ⟨"IEExtensions", { optional := true }, (.ptr (.struct 198))⟩]⟩ -- 199
]

end Stgutg.Spec.Ts38413Schema
