import Stgutg.Base.Prims
import Stgutg.Crypto.Aes
import Stgutg.Crypto.Sha256
namespace Stgutg.Crypto
/-- the executable instantiation of the primitives used by the driver (comparator only) -/
def prims (hmac : Bytes → Bytes → Bytes := hmacSha256) : Prims :=
  { aes := aes128, ctr := ctrMode aes128, cmac := cmacMode aes128, hmac := hmac }
end Stgutg.Crypto
