import Stgutg.Base.Prims
import Stgutg.Crypto.Aes
namespace Stgutg.Crypto
/-- hmac is filled in by Crypto/Sha256.lean users via `primsWith`. -/
def prims (hmac : Bytes → Bytes → Bytes := fun _ _ => []) : Prims :=
  { aes := aes128, ctr := ctrMode aes128, cmac := cmacMode aes128, hmac := hmac }
end Stgutg.Crypto
