/-
  Executable AES-128 block encryption (FIPS-197), CTR (SP 800-38A) and CMAC (SP 800-38B / RFC 4493).
  Part of the *comparator* only: every security theorem is parametric in these primitives; this
  file instantiates them so that the driver can be run against the real Go libraries.
-/
import Stgutg.Base.Hex
import Stgutg.Spec.Snow3g

namespace Stgutg.Crypto

/-- Rijndael S-box, by formula. -/
def sboxArr : Array UInt8 := (Spec.Snow3g.SRtable.map UInt8.ofNat).toArray
def sb (b : UInt8) : UInt8 := sboxArr.getD b.toNat 0

def xt (b : UInt8) : UInt8 := if b &&& 0x80 != 0 then (b <<< 1) ^^^ 0x1b else b <<< 1

def rcon : List UInt8 := [0x01, 0x02, 0x04, 0x08, 0x10, 0x20, 0x40, 0x80, 0x1b, 0x36]

/-- next round key (16 bytes, column-major as in FIPS-197) -/
def nextKey (k : Bytes) (rc : UInt8) : Bytes :=
  let g (i : Nat) := k.getD i 0
  let t0 := sb (g 13) ^^^ rc
  let t1 := sb (g 14)
  let t2 := sb (g 15)
  let t3 := sb (g 12)
  let w0 := [g 0 ^^^ t0, g 1 ^^^ t1, g 2 ^^^ t2, g 3 ^^^ t3]
  let w1 := List.zipWith (· ^^^ ·) w0 [g 4, g 5, g 6, g 7]
  let w2 := List.zipWith (· ^^^ ·) w1 [g 8, g 9, g 10, g 11]
  let w3 := List.zipWith (· ^^^ ·) w2 [g 12, g 13, g 14, g 15]
  w0 ++ w1 ++ w2 ++ w3

def roundKeys (k : Bytes) : List Bytes :=
  (rcon.foldl (fun (acc : List Bytes × Bytes) rc => let nk := nextKey acc.2 rc; (nk :: acc.1, nk)) ([k], k)).1.reverse

def subShift (s : Bytes) : Bytes :=
  let g (i : Nat) := sb (s.getD i 0)
  [g 0, g 5, g 10, g 15, g 4, g 9, g 14, g 3, g 8, g 13, g 2, g 7, g 12, g 1, g 6, g 11]

def mixCol (a0 a1 a2 a3 : UInt8) : Bytes :=
  [xt a0 ^^^ (xt a1 ^^^ a1) ^^^ a2 ^^^ a3,
   a0 ^^^ xt a1 ^^^ (xt a2 ^^^ a2) ^^^ a3,
   a0 ^^^ a1 ^^^ xt a2 ^^^ (xt a3 ^^^ a3),
   (xt a0 ^^^ a0) ^^^ a1 ^^^ a2 ^^^ xt a3]

def mixColumns (s : Bytes) : Bytes :=
  let g (i : Nat) := s.getD i 0
  mixCol (g 0) (g 1) (g 2) (g 3) ++ mixCol (g 4) (g 5) (g 6) (g 7) ++
  mixCol (g 8) (g 9) (g 10) (g 11) ++ mixCol (g 12) (g 13) (g 14) (g 15)

/-- AES-128 encryption of one 16-octet block. -/
def aes128 (key blk : Bytes) : Bytes :=
  match roundKeys key with
  | k0 :: rest =>
    let s := xorBytes blk k0
    let mids := rest.take 9
    let s := mids.foldl (fun s rk => xorBytes (mixColumns (subShift s)) rk) s
    match rest.drop 9 with
    | [k10] => xorBytes (subShift s) k10
    | _ => []
  | [] => []

/-- increment a 128-bit big-endian counter block -/
def incBlock (b : Bytes) : Bytes := natBE 16 ((beNat b + 1) % 2 ^ 128)

/-- SP 800-38A CTR keystream of `n` octets. -/
def ctrStream (aes : Bytes → Bytes → Bytes) (key : Bytes) : Nat → Bytes → Nat → Bytes
  | 0, _, _ => []
  | fuel + 1, ctr, n => if n = 0 then [] else
      let blk := aes key ctr
      blk.take n ++ ctrStream aes key fuel (incBlock ctr) (n - 16)

def ctrMode (aes : Bytes → Bytes → Bytes) (key iv msg : Bytes) : Bytes :=
  xorBytes msg (ctrStream aes key (msg.length / 16 + 1) iv msg.length)

/-- shift a 16-octet block left by one bit -/
def shl1 (b : Bytes) : Bytes := natBE 16 ((beNat b * 2) % 2 ^ 128)

def cmacSubkey (l : Bytes) : Bytes :=
  let s := shl1 l
  if (l.getD 0 0) &&& 0x80 != 0 then xorBytes s (natBE 16 0x87) else s

def chunks16 : Nat → Bytes → List Bytes
  | 0, _ => []
  | fuel + 1, m => if m.length ≤ 16 then [m] else m.take 16 :: chunks16 fuel (m.drop 16)

/-- RFC 4493 AES-CMAC (full 16-octet tag). -/
def cmacMode (aes : Bytes → Bytes → Bytes) (key msg : Bytes) : Bytes :=
  let l := aes key (List.replicate 16 0)
  let k1 := cmacSubkey l
  let k2 := cmacSubkey k1
  let blocks := chunks16 (msg.length / 16 + 1) msg
  let initB := blocks.dropLast
  let lastB := blocks.getLast?.getD []
  let lastX := if lastB.length = 16 then xorBytes lastB k1
               else xorBytes (lastB ++ [0x80] ++ List.replicate (15 - lastB.length) 0) k2
  let x := initB.foldl (fun x b => aes key (xorBytes x b)) (List.replicate 16 0)
  aes key (xorBytes x lastX)

end Stgutg.Crypto
