/-
  Executable SHA-256 (FIPS 180-4) and HMAC-SHA-256 (RFC 2104 / FIPS 198-1) over `Bytes`.
  Part of the *comparator* only: every key-derivation theorem is parametric in `Prims.hmac`; this
  file instantiates it so that the driver can be run against Go's crypto/hmac + crypto/sha256.
  The `#guard`s below are known-answer tests of the comparator (FIPS 180 examples, RFC 4231).
-/
import Stgutg.Base.Hex

namespace Stgutg.Crypto

/-- first 32 bits of the fractional parts of the cube roots of the first 64 primes -/
def sha256K : Array UInt32 := #[
  0x428a2f98, 0x71374491, 0xb5c0fbcf, 0xe9b5dba5, 0x3956c25b, 0x59f111f1, 0x923f82a4, 0xab1c5ed5,
  0xd807aa98, 0x12835b01, 0x243185be, 0x550c7dc3, 0x72be5d74, 0x80deb1fe, 0x9bdc06a7, 0xc19bf174,
  0xe49b69c1, 0xefbe4786, 0x0fc19dc6, 0x240ca1cc, 0x2de92c6f, 0x4a7484aa, 0x5cb0a9dc, 0x76f988da,
  0x983e5152, 0xa831c66d, 0xb00327c8, 0xbf597fc7, 0xc6e00bf3, 0xd5a79147, 0x06ca6351, 0x14292967,
  0x27b70a85, 0x2e1b2138, 0x4d2c6dfc, 0x53380d13, 0x650a7354, 0x766a0abb, 0x81c2c92e, 0x92722c85,
  0xa2bfe8a1, 0xa81a664b, 0xc24b8b70, 0xc76c51a3, 0xd192e819, 0xd6990624, 0xf40e3585, 0x106aa070,
  0x19a4c116, 0x1e376c08, 0x2748774c, 0x34b0bcb5, 0x391c0cb3, 0x4ed8aa4a, 0x5b9cca4f, 0x682e6ff3,
  0x748f82ee, 0x78a5636f, 0x84c87814, 0x8cc70208, 0x90befffa, 0xa4506ceb, 0xbef9a3f7, 0xc67178f2]

/-- first 32 bits of the fractional parts of the square roots of the first 8 primes -/
def sha256H0 : List UInt32 :=
  [0x6a09e667, 0xbb67ae85, 0x3c6ef372, 0xa54ff53a, 0x510e527f, 0x9b05688c, 0x1f83d9ab, 0x5be0cd19]

/-- ROTR^n on 32-bit words, 0 < n < 32 -/
def rotr32 (x : UInt32) (n : UInt32) : UInt32 := (x >>> n) ||| (x <<< (32 - n))

def bigSigma0 (x : UInt32) : UInt32 := rotr32 x 2 ^^^ rotr32 x 13 ^^^ rotr32 x 22
def bigSigma1 (x : UInt32) : UInt32 := rotr32 x 6 ^^^ rotr32 x 11 ^^^ rotr32 x 25
def smallSigma0 (x : UInt32) : UInt32 := rotr32 x 7 ^^^ rotr32 x 18 ^^^ (x >>> 3)
def smallSigma1 (x : UInt32) : UInt32 := rotr32 x 17 ^^^ rotr32 x 19 ^^^ (x >>> 10)
def ch (x y z : UInt32) : UInt32 := (x &&& y) ^^^ (~~~x &&& z)
def maj (x y z : UInt32) : UInt32 := (x &&& y) ^^^ (x &&& z) ^^^ (y &&& z)

def word32 (b : Bytes) : UInt32 := b.foldl (fun a x => (a <<< 8) ||| x.toUInt32) 0
def word32Bytes (w : UInt32) : Bytes := [(w >>> 24).toUInt8, (w >>> 16).toUInt8, (w >>> 8).toUInt8, w.toUInt8]

/-- the 16 message words of one 64-octet block -/
def blockWords (blk : Bytes) : Array UInt32 :=
  ((List.range 16).map fun i => word32 ((blk.drop (4 * i)).take 4)).toArray

/-- message schedule W_0 … W_63 -/
def schedule (blk : Bytes) : Array UInt32 :=
  (List.range 48).foldl (fun (w : Array UInt32) j =>
    let t := j + 16
    w.push (smallSigma1 (w.getD (t - 2) 0) + w.getD (t - 7) 0 + smallSigma0 (w.getD (t - 15) 0) + w.getD (t - 16) 0))
    (blockWords blk)

structure Sha256State where
  a : UInt32
  b : UInt32
  c : UInt32
  d : UInt32
  e : UInt32
  f : UInt32
  g : UInt32
  h : UInt32

def Sha256State.ofList : List UInt32 → Sha256State
  | [a, b, c, d, e, f, g, h] => ⟨a, b, c, d, e, f, g, h⟩
  | _ => ⟨0, 0, 0, 0, 0, 0, 0, 0⟩

def Sha256State.toList (s : Sha256State) : List UInt32 := [s.a, s.b, s.c, s.d, s.e, s.f, s.g, s.h]

/-- one application of the compression function to a 64-octet block -/
def compress (st : Sha256State) (blk : Bytes) : Sha256State :=
  let w := schedule blk
  let r := (List.range 64).foldl (fun (s : Sha256State) t =>
    let t1 := s.h + bigSigma1 s.e + ch s.e s.f s.g + sha256K.getD t 0 + w.getD t 0
    let t2 := bigSigma0 s.a + maj s.a s.b s.c
    ⟨t1 + t2, s.a, s.b, s.c, s.d + t1, s.e, s.f, s.g⟩) st
  ⟨st.a + r.a, st.b + r.b, st.c + r.c, st.d + r.d, st.e + r.e, st.f + r.f, st.g + r.g, st.h + r.h⟩

/-- FIPS 180-4 5.1.1: append 1, k zero bits, and the 64-bit big-endian bit length -/
def sha256Pad (msg : Bytes) : Bytes :=
  let l := msg.length
  let k := (64 - (l + 9) % 64) % 64
  msg ++ [0x80] ++ List.replicate k 0 ++ natBE 8 (8 * l)

def sha256Blocks : Nat → Sha256State → Bytes → Sha256State
  | 0, st, _ => st
  | fuel + 1, st, m => if m.isEmpty then st else sha256Blocks fuel (compress st (m.take 64)) (m.drop 64)

def sha256 (msg : Bytes) : Bytes :=
  let p := sha256Pad msg
  (sha256Blocks (p.length / 64 + 1) (Sha256State.ofList sha256H0) p).toList.flatMap word32Bytes

/-- HMAC (RFC 2104) with H = SHA-256, B = 64. -/
def hmacSha256 (key msg : Bytes) : Bytes :=
  let k0 := if key.length > 64 then sha256 key else key
  let k0 := k0 ++ List.replicate (64 - k0.length) 0
  let ipad := k0.map (· ^^^ 0x36)
  let opad := k0.map (· ^^^ 0x5c)
  sha256 (opad ++ sha256 (ipad ++ msg))

/-! Known answers: FIPS 180-4 examples ("abc", empty, 448-bit message, 1000 × 'a') -/
#guard toHex (sha256 "abc".toUTF8.toList) = "ba7816bf8f01cfea414140de5dae2223b00361a396177a9cb410ff61f20015ad"
#guard toHex (sha256 []) = "e3b0c44298fc1c149afbf4c8996fb92427ae41e4649b934ca495991b7852b855"
#guard toHex (sha256 "abcdbcdecdefdefgefghfghighijhijkijkljklmklmnlmnomnopnopq".toUTF8.toList)
  = "248d6a61d20638b8e5c026930c3e6039a33ce45964ff2167f6ecedd419db06c1"
#guard toHex (sha256 (List.replicate 1000 0x61)) = "41edece42d63e8d9bf515a9ba6932e1c20cbc9f5a5d134645adb5db1b9737ea3"
/-! RFC 4231 test cases 1, 2 and 6 -/
#guard toHex (hmacSha256 (List.replicate 20 0x0b) "Hi There".toUTF8.toList)
  = "b0344c61d8db38535ca8afceaf0bf12b881dc200c9833da726e9376c2e32cff7"
#guard toHex (hmacSha256 "Jefe".toUTF8.toList "what do ya want for nothing?".toUTF8.toList)
  = "5bdcc146bf60754e6a042426089575c75a003f089d2739839dec58b964ec3843"
#guard toHex (hmacSha256 (List.replicate 131 0xaa)
    "Test Using Larger Than Block-Size Key - Hash Key First".toUTF8.toList)
  = "60e431591ee0b67f0d8a26aacbf5b77f8e0bc6213728c5140546040f0ee37f54"

end Stgutg.Crypto
