/-
  Known answers of 3GPP TS 35.208 (MILENAGE conformance test data, test sets 1 and 19) evaluated on the
  specification `Spec/Ts35206.lean` and on the model `Model/Milenage.lean`, both instantiated with the executable
  AES-128 of `Crypto/Aes.lean`. These are tests of the comparator and of the transcription, not proofs.
-/
import Stgutg.Model.Milenage
import Stgutg.Spec.Ts35206
import Stgutg.Crypto.Prims

namespace Stgutg.Crypto.MilenageKat
open Stgutg Stgutg.Spec.Ts35206

def h (s : String) : Bytes := (ofHex? s).getD []

/-- OPc ‖ f1 ‖ f1* ‖ f2 ‖ f3 ‖ f4 ‖ f5 ‖ f5* from the specification -/
def specAll (k rand sqn amf op : String) : String :=
  let E := aes128
  let opc := opc E (h k) (h op)
  toHex (opc ++ f1 E (h k) opc (h rand) (h sqn) (h amf) ++ f1star E (h k) opc (h rand) (h sqn) (h amf) ++
    f2 E (h k) opc (h rand) ++ f3 E (h k) opc (h rand) ++ f4 E (h k) opc (h rand) ++ f5 E (h k) opc (h rand) ++
    f5star E (h k) opc (h rand))

/-- the same from the model of milenage.go -/
def modelAll (k rand sqn amf op : String) : String :=
  let P := prims
  match Model.Milenage.GenerateOPC P (h k) (h op) with
  | .ok opc =>
    match Model.Milenage.F1 P opc (h k) (h rand) (h sqn) (h amf),
          Model.Milenage.F2345 P opc (h k) (h rand) true true true true true with
    | .ok (a, s), .ok o =>
      toHex (opc ++ a ++ s ++ o.res.getD [] ++ o.ck.getD [] ++ o.ik.getD [] ++ o.ak.getD [] ++ o.akstar.getD [])
    | _, _ => "error"
  | _ => "error"

def set1 : String := "cd63cb71954a9f4e48a5994e37a02baf" ++ "4a9ffac354dfafb3" ++ "01cfaf9ec4e871e9" ++ "a54211d5e3ba50bf" ++
  "b40ba9a3c58b2a05bbf0d987b21bf8cb" ++ "f769bcd751044604127672711c6d3441" ++ "aa689c648370" ++ "451e8beca43b"
def set19 : String := "981d464c7c52eb6e5036234984ad0bcf" ++ "2a5c23d15ee351d5" ++ "62dae3853f3af9d2" ++ "28d7b0f2a2ec3de5" ++
  "5349fbe098649f948f5d2e973a81c00f" ++ "9744871ad32bf9bbd1dd5ce54e3e2e5a" ++ "ada15aeb7bb8" ++ "d461bc15475d"

#guard specAll "465b5ce8b199b49faa5f0a2ee238a6bc" "23553cbe9637a89d218ae64dae47bf35" "ff9bb4d0b607" "b9b9"
  "cdc202d5123e20f62b6d676ac72cb318" = set1
#guard modelAll "465b5ce8b199b49faa5f0a2ee238a6bc" "23553cbe9637a89d218ae64dae47bf35" "ff9bb4d0b607" "b9b9"
  "cdc202d5123e20f62b6d676ac72cb318" = set1
#guard specAll "5122250214c33e723a5dd523fc145fc0" "81e92b6c0ee0e12ebceba8d92a99dfa5" "16f3b3f70fc2" "c3ab"
  "c9e8763286b5b9ffbdf56e1297d0887b" = set19
#guard modelAll "5122250214c33e723a5dd523fc145fc0" "81e92b6c0ee0e12ebceba8d92a99dfa5" "16f3b3f70fc2" "c3ab"
  "c9e8763286b5b9ffbdf56e1297d0887b" = set19

end Stgutg.Crypto.MilenageKat
