/-
  C04, composite round trip — CHOICE (index) and open types (`encOpenType` / `openTypeOctets`, the inner value
  decoded from its own buffer, alternative found through the reference value).
-/
import Stgutg.Proofs.AperRTCompSeq

namespace Stgutg.Proofs.AperRTComp
open Stgutg Stgutg.Aper Stgutg.Proofs.Bits Stgutg.Proofs.AperRT

theorem alignBits_length (pos : Nat) : (alignBits pos).length = padLen pos := by
  simp [alignBits]

theorem alignBits_of_aligned (pos : Nat) (h : pos % 8 = 0) : alignBits pos = [] := by
  unfold alignBits padLen
  have : (8 - pos % 8) % 8 = 0 := by omega
  rw [this]; rfl

theorem padded_length (inner : Bits) : (inner ++ alignBits inner.length).length = (inner.length + 7) / 8 * 8 := by
  rw [List.length_append, alignBits_length]
  unfold padLen
  omega

/-- an unfragmented open type: length determinant, alignment, the padded inner encoding; the decoder returns its octets -/
theorem RT_openType (pos1 : Nat) (inner bits : Bits) (fuel : Nat) (hne : inner ≠ [])
    (hlen : (inner.length + 7) / 8 < 16384) (h : encOpenType pos1 inner = .ok bits) :
    RT bits pos1 (openTypeOctets (fuel + 1) []) (bitsToBytes (inner ++ alignBits inner.length)) := by
  unfold encOpenType at h
  dsimp only at h
  have hfl := fragLoop_small 8 (-1) 0 ((inner.length + 7) / 8 / 16384 + 1) pos1 ((inner.length + 7) / 8)
    (inner ++ alignBits inner.length) hlen
  rw [hfl] at h
  have hpos : 0 < inner.length := by
    cases inner with
    | nil => exact absurd rfl hne
    | cons x xs => simp
  have hn0 : ¬ ((inner.length + 7) / 8 + 0 = 0) := by omega
  cases hL : appendLength pos1 (-1) ((inner.length + 7) / 8) with
  | error e => rw [hL] at h; simp at h
  | ok lenBits =>
    rw [hL] at h
    simp only [hn0, if_false, Except.ok.injEq] at h
    have hpl := padded_length inner
    have htake : (inner ++ alignBits inner.length).take (((inner.length + 7) / 8 + 0) * 8) = inner ++ alignBits inner.length := by
      apply List.take_of_length_le
      rw [hpl]; omega
    rw [htake] at h
    rw [← h, List.append_assoc]
    unfold openTypeOctets
    refine RT_bind (RT_length pos1 (-1) _ lenBits hlen hL) ?_
    dsimp only
    have hn0' : ¬ ((inner.length + 7) / 8 = 0) := by omega
    simp only [hn0', if_false, Bool.false_eq_true, List.nil_append]
    refine RT_seq (RT_align _) ?_
    -- the octets
    have hmod : (inner ++ alignBits inner.length).length % 8 = 0 := by rw [hpl]; omega
    have hbb := bytesToBits_bitsToBytes_aligned _ hmod
    have hbl := bitsToBytes_length_aligned _ hmod
    have hcount : (bitsToBytes (inner ++ alignBits inner.length)).length = (inner.length + 7) / 8 := by
      rw [hpl] at hbl; omega
    have hoct := RT_takeOctets (pos1 + lenBits.length + (alignBits (pos1 + lenBits.length)).length)
      (bitsToBytes (inner ++ alignBits inner.length))
    rw [hbb, hcount] at hoct
    have hal : (pos1 + lenBits.length + (alignBits (pos1 + lenBits.length)).length +
        (inner ++ alignBits inner.length).length) % 8 = 0 := by
      rw [hpl, alignBits_length]; unfold padLen; omega
    have hfin := RT_bind (f := fun b => (parseAlignBits >>= fun _ => (pure b : D Bytes))) hoct
      (c := bitsToBytes (inner ++ alignBits inner.length)) (b2 := []) (by
        have := RT_seq (k := (pure (bitsToBytes (inner ++ alignBits inner.length)) : D Bytes)) (RT_align _) (RT_pure _ _)
          (pos := pos1 + lenBits.length + (alignBits (pos1 + lenBits.length)).length + (inner ++ alignBits inner.length).length)
        rw [alignBits_of_aligned _ hal, List.append_nil] at this
        exact this)
    rw [List.append_nil] at hfin
    exact hfin

/-- the CHOICE index -/
theorem RT_choiceIndex (pos present : Nat) (ext : Bool) (ubP : Option Int) (ib : Bits) (hd : Rd → Nat × Rd)
    (hp : 0 < present) (h : appendChoiceIndex pos present ext ubP = .ok ib) :
    RT ib pos (D.catchErr (getChoiceIndex false ubP) hd) present := by
  unfold appendChoiceIndex at h
  apply RT_catchErr
  unfold getChoiceIndex
  simp only [Bool.false_eq_true, if_false]
  split at h
  · simp [err] at h
  · rename_i ub
    dsimp only
    split at h
    · simp [err] at h
    · rename_i hub
      simp only [hub, if_false]
      split at h
      · simp [err] at h
      · have := RT_map (fun raw => raw + 1) (RT_constraintValue _ _ _ _ h)
        have e : present - 1 + 1 = present := by omega
        rw [e] at this
        exact this

theorem altsOKFrom_spec (fields : List Field) : ∀ (l : List Field) (j0 : Nat), altsOKFrom fields j0 l = true →
    ∀ k (f : Aper.Field) rv, l[k]? = some f → f.params.refValue = some rv → findAlt fields rv = some (j0 + k) := by
  intro l
  induction l with
  | nil => intro j0 _ k f rv h; simp at h
  | cons x xs ih =>
    intro j0 hok k f rv hk hrv
    simp only [altsOKFrom, Bool.and_eq_true] at hok
    cases k with
    | zero =>
      simp only [List.getElem?_cons_zero, Option.some.injEq] at hk
      subst hk
      rw [hrv] at hok
      simpa using hok.1
    | succ k =>
      simp only [List.getElem?_cons_succ] at hk
      have := ih (j0 + 1) hok.2 k f rv hk hrv
      rw [this]; congr 1; omega

theorem findAlt_of_altsOK (fields : List Field) (h : altsOKFrom fields 1 (fields.drop 1) = true)
    (j : Nat) (fd : Aper.Field) (rv : Int) (hj : 0 < j) (hfd : fields[j]? = some fd) (hrv : fd.params.refValue = some rv) :
    findAlt fields rv = some j := by
  have := altsOKFrom_spec fields (fields.drop 1) 1 h (j - 1) fd rv (by
    rw [List.getElem?_drop]
    have : 1 + (j - 1) = j := by omega
    rw [this]; exact hfd) hrv
  rw [this]; congr 1; omega

/-- facts the encoder's success gives about a CHOICE value -/
theorem encChoice_inv (f : Nat → Ty → Params → Val → Res Bits) (sd : StructDef) (params : Params)
    (pos1 : Nat) (fs : List Val) (b : Bits) (h : encChoice f sd params pos1 fs = .ok b) :
    ∃ (p : Int) (rest : List Val) (fd : Aper.Field) (alt : Val), fs = .int p :: rest ∧ 0 < p ∧ p.toNat < sd.fields.length ∧
      sd.fields[p.toNat]? = some fd ∧ fs[p.toNat]? = some alt ∧
      ((params.openType = true ∧ ∃ rv inner, params.refValue = some rv ∧ fd.params.refValue = some rv ∧
          f 0 fd.ty fd.params alt = .ok inner ∧ encOpenType pos1 inner = .ok b) ∨
       (params.openType = false ∧ ∃ ib ab, appendChoiceIndex pos1 p.toNat params.valueExt params.valueUB = .ok ib ∧
          f (pos1 + ib.length) fd.ty fd.params alt = .ok ab ∧ b = ib ++ ab)) := by
  unfold encChoice at h
  split at h
  · rename_i p rest
    split at h
    · simp [err] at h
    · rename_i hp0
      split at h
      · simp [err] at h
      · rename_i hplen
        split at h
        · rename_i fd alt hfd halt
          refine ⟨p, rest, fd, alt, rfl, by omega, by omega, hfd, halt, ?_⟩
          split at h
          · rename_i hot
            left
            refine ⟨hot, ?_⟩
            split at h
            · simp [err] at h
            · rename_i rv hrv
              split at h
              · simp [err] at h
              · rename_i hfrv
                split at h
                · simp at h
                · rename_i inner hinner
                  refine ⟨rv, inner, hrv, ?_, hinner, h⟩
                  simpa using hfrv
          · rename_i hot
            right
            refine ⟨by simpa using hot, ?_⟩
            split at h
            · simp at h
            · rename_i ib hib
              split at h
              · simp at h
              · rename_i ab hab
                simp only [Except.ok.injEq] at h
                exact ⟨ib, ab, hib, hab, h.symm⟩
        · simp [err] at h
  · simp [err] at h

/-- CHOICE / open type body of `decStruct` -/
theorem RT_decStruct_choice (f : Nat → Ty → Params → Val → Res Bits) (g : Ty → Params → D Val) (rfv : Ty → Val → Res Int)
    (zero : Ty → Val) (sd : StructDef) (params : Params) (pos1 : Nat) (fs : List Val) (b : Bits)
    (hc : isChoice sd = true) (hopt0 : optCountOf sd = 0)
    (halts : altsOKFrom sd.fields 1 (sd.fields.drop 1) = true)
    (Halt : ∀ (p : Int) (fd : Aper.Field) (alt : Val) (pos : Nat) (a : Bits), fs[0]? = some (.int p) → 0 < p →
      sd.fields[p.toNat]? = some fd → fs[p.toNat]? = some alt →
      f pos fd.ty fd.params alt = .ok a →
        a ≠ [] ∧ RT' a pos (g fd.ty fd.params) alt)
    (hshape : ∀ (p : Int) (alt : Val), fs[0]? = some (.int p) → 0 < p → fs[p.toNat]? = some alt →
      setAt (setAt (sd.fields.map fun fd => zero fd.ty) 0 (.int p)) p.toNat alt = fs)
    (h : encChoice f sd params pos1 fs = .ok b) :
    RT b pos1 (decStruct g rfv zero sd params false) (.struct fs) := by
  obtain ⟨p, rest, fd, alt, hfs, hp0, hplen, hfd, halt, hcase⟩ := encChoice_inv f sd params pos1 fs b h
  have hfs0 : fs[0]? = some (.int p) := by rw [hfs]; rfl
  have hsh := hshape p alt hfs0 hp0 halt
  have hpi : ((p.toNat : Nat) : Int) = p := by omega
  have hsh' : setAt (setAt (sd.fields.map fun fd => zero fd.ty) 0 (.int ↑p.toNat)) p.toNat alt = fs := by
    rw [hpi]; exact hsh
  unfold decStruct
  dsimp only
  unfold optCountOf at hopt0
  rw [hopt0]
  have hb0 : RT [] pos1 (if 0 > 0 then getBitsValue 0 else pure 0 : D Nat) 0 := by
    simp only [Nat.lt_irrefl, if_false]; exact RT_pure _ _
  rw [← List.nil_append b]
  refine RT_bind hb0 ?_
  simp only [hc, if_true, List.length_nil, Nat.add_zero]
  rcases hcase with ⟨hot, rv, inner, hrv, hfrv, hinner, hopen⟩ | ⟨hot, ib, ab, hib, hab, hbeq⟩
  · -- open type
    simp only [hot, if_true, hrv]
    rw [findAlt_of_altsOK sd.fields halts p.toNat fd rv (by omega) hfd hfrv]
    simp only [hfd]
    obtain ⟨hine, hirt⟩ := Halt p fd alt 0 inner hfs0 hp0 hfd halt hinner
    apply RT_get_len
    intro r0 hr0
    have hoct := RT_openType_any pos1 inner b (r0.len + 1 + 1)
      (by have := encOpenType_length pos1 inner b hopen; omega) hopen
    have hpl := padded_length inner
    have hmod : (inner ++ alignBits inner.length).length % 8 = 0 := by rw [hpl]; omega
    have hrd : Rd.ofBytes (bitsToBytes (inner ++ alignBits inner.length)) = mkRd (inner ++ alignBits inner.length) 0 := by
      unfold Rd.ofBytes mkRd
      rw [bytesToBits_bitsToBytes_aligned _ hmod, bitsToBytes_length_aligned _ hmod]
    have hdec := hirt (alignBits inner.length) (by
      rw [Nat.zero_add, ← List.length_append]; exact hmod) (by simp [hine])
    have := RT_bind (f := fun octs =>
        (match g fd.ty fd.params (Rd.ofBytes octs) with
          | .error e => D.fail e
          | .ok (v, _) => pure (.struct (setAt (setAt (sd.fields.map fun fd => zero fd.ty) 0 (.int ↑p.toNat)) p.toNat v)) : D Val))
      hoct (c := .struct fs) (b2 := []) (by
        rw [hrd, hdec]
        dsimp only
        rw [hsh']
        exact RT_pure _ _)
    rw [List.append_nil] at this
    exact this
  · -- CHOICE index, then the alternative
    have hot' : ¬ (params.openType = true) := by rw [hot]; simp
    simp only [hot', if_false]
    rw [hbeq]
    refine RT_bind (RT_choiceIndex pos1 p.toNat params.valueExt params.valueUB ib _ (by omega) hib) ?_
    have h1 : ¬ (p.toNat = 0) := by omega
    have h2 : ¬ (p.toNat ≥ sd.fields.length) := by omega
    simp only [h1, if_false, h2, hfd]
    obtain ⟨hane, hart⟩ := Halt p fd alt (pos1 + ib.length) ab hfs0 hp0 hfd halt hab
    have := RT_map (fun v => Val.struct (setAt (setAt (sd.fields.map fun fd => zero fd.ty) 0 (.int ↑p.toNat)) p.toNat v))
      (hart.toRT hane)
    rw [hsh'] at this
    exact this

end Stgutg.Proofs.AperRTComp
