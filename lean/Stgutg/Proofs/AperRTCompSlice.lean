/-
  C04, composite round trip — entry of `parseField`, pointers, and SEQUENCE OF.
-/
import Stgutg.Proofs.AperRTCompNE

namespace Stgutg.Proofs.AperRTComp
open Stgutg Stgutg.Aper Stgutg.Proofs.Bits Stgutg.Proofs.AperRT

theorem RT.toRT' {α : Type} {bits : Bits} {pos : Nat} {m : D α} {a : α} (h : RT bits pos m a) : RT' bits pos m a :=
  fun tail ht _ => h tail ht

theorem RT'.toRT {α : Type} {bits : Bits} {pos : Nat} {m : D α} {a : α} (h : RT' bits pos m a) (hne : bits ≠ []) :
    RT bits pos m a :=
  fun tail ht => h tail ht (by simp [hne])

/-- a computation wrapped in log-and-continue behaves as the computation when it succeeds -/
theorem RT_catchErr {α : Type} {bits : Bits} {pos : Nat} {m : D α} {a : α} (hd : Rd → α × Rd)
    (h : RT bits pos m a) : RT bits pos (D.catchErr m hd) a := by
  intro tail ht
  unfold D.catchErr
  rw [h tail ht]

theorem RT_map {α β : Type} {bits : Bits} {pos : Nat} {m : D α} {a : α} (g : α → β) (h : RT bits pos m a) :
    RT bits pos (m >>= fun x => (pure (g x) : D β)) (g a) := by
  have := RT_bind (f := fun x => (pure (g x) : D β)) h (RT_pure _ (g a))
  rw [List.append_nil] at this
  exact this

theorem RT'_map {α β : Type} {bits : Bits} {pos : Nat} {m : D α} {a : α} (g : α → β) (h : RT' bits pos m a) :
    RT' bits pos (m >>= fun x => (pure (g x) : D β)) (g a) := by
  intro tail ht hne
  rw [D_bind_apply, h tail ht hne]
  rfl

theorem D_bind_assoc_apply {α β γ : Type} (m : D α) (f : α → D β) (g : β → D γ) (r : Rd) :
    ((m >>= f) >>= g) r = (m >>= fun x => f x >>= g) r := by
  rw [D_bind_apply, D_bind_apply, D_bind_apply]
  cases m r with
  | error e => rfl
  | ok x => rfl

theorem mkRd_len_ne {bits tail : Bits} {pos : Nat} (h : bits ++ tail ≠ []) : (mkRd (bits ++ tail) pos).len ≠ 0 := by
  unfold mkRd
  simp only [ne_eq, List.length_eq_zero_iff]
  exact h

/-! ### the entry of `parseField` -/

theorem decField_ptr (env : Env) (fuel : Nat) (t : Ty) (p : Params) (r0 : Rd) (h : r0.len ≠ 0) :
    decField env (fuel + 1) (.ptr t) p r0 = (decField env fuel t p >>= fun v => (pure (.ptr v) : D Val)) r0 := by
  rw [decField]
  simp only [h, if_false]

theorem decField_slice (env : Env) (fuel : Nat) (t : Ty) (p : Params) (r0 : Rd) (h : r0.len ≠ 0) :
    decField env (fuel + 1) (.slice t) p r0 =
      (extBits p true >>= fun x => sliceCount p x.1 >>= fun n =>
        decElems (decField env fuel t (stripSize p)) n >>= fun vs => (pure (.slice vs) : D Val)) r0 := by
  rw [decField]
  simp only [h, if_false]

theorem decField_struct (env : Env) (fuel : Nat) (id : Nat) (sd : StructDef) (p : Params) (r0 : Rd) (h : r0.len ≠ 0)
    (hsd : env[id]? = some sd) :
    decField env (fuel + 1) (.struct id) p r0 =
      (extBits p false >>= fun x =>
        decStruct (decField env fuel) (refFieldValue env fuel) (zeroVal env fuel) sd p x.2) r0 := by
  rw [decField]
  simp only [h, if_false, hsd]

theorem decField_leaf (env : Env) (fuel : Nat) (ty : Ty) (p : Params) (r0 : Rd) (h : r0.len ≠ 0)
    (hl : ty = .int ∨ ty = .enum ∨ ty = .bits ∨ ty = .octs ∨ ty = .str ∨ ty = .bool) :
    decField env (fuel + 1) ty p r0 = leafDec ty p r0 := by
  rw [decField]
  simp only [h, if_false]
  rcases hl with h | h | h | h | h | h <;> subst h <;> rfl

theorem RT'_decField_ptr (env : Env) (fuel : Nat) (t : Ty) (p : Params) (bits : Bits) (pos : Nat) (v : Val)
    (h : RT' bits pos (decField env fuel t p) v) : RT' bits pos (decField env (fuel + 1) (.ptr t) p) (.ptr v) := by
  intro tail ht hne
  rw [decField_ptr _ _ _ _ _ (mkRd_len_ne hne)]
  exact RT'_map Val.ptr h tail ht hne

theorem RT'_decField_leaf (env : Env) (fuel : Nat) (ty : Ty) (p : Params) (bits : Bits) (pos : Nat) (v : Val)
    (hl : ty = .int ∨ ty = .enum ∨ ty = .bits ∨ ty = .octs ∨ ty = .str ∨ ty = .bool)
    (h : RT bits pos (leafDec ty p) v) : RT' bits pos (decField env (fuel + 1) ty p) v := by
  intro tail ht hne
  rw [decField_leaf _ _ _ _ _ (mkRd_len_ne hne) hl]
  exact h tail ht

/-! ### SEQUENCE OF -/

/-- the element count: what `sliceCountBits` wrote is what `sliceCountWith` reads -/
theorem RT_sliceCountWith (pos1 n : Nat) (lb ub sr : Int) (cb : Bits) (hlb : 0 ≤ lb) (hfix : sr = 1 → ub = lb)
    (h : sliceCountBits pos1 n lb ub sr = .ok cb) : RT cb pos1 (sliceCountWith lb sr) n := by
  unfold sliceCountBits at h
  unfold sliceCountWith
  by_cases hlt : (n : Int) < lb
  · simp [hlt, err] at h
  · simp only [hlt, if_false] at h
    by_cases h1 : sr = 1
    · have hn1 : ¬ sr > 1 := by omega
      simp only [h1, if_true] at h
      simp only [h1, if_true]
      split at h
      · simp [err] at h
      · rename_i hub
        simp only [Except.ok.injEq] at h
        rw [← h]
        have : lb.toNat = n := by have := hfix h1; omega
        rw [this]
        exact RT_pure _ _
    · simp only [h1, if_false] at h
      by_cases hpos : sr > 0
      · have hgt : sr > 1 := by omega
        simp only [hpos, if_true] at h
        simp only [hgt, if_true]
        apply RT_catchErr
        have := RT_map (fun k => k + lb.toNat) (RT_constraintValue _ _ _ _ h)
        have e : ((n : Int) - lb).toNat + lb.toNat = n := by omega
        rw [e] at this
        exact this
      · have hn1 : ¬ sr > 1 := by omega
        simp only [hpos, if_false] at h
        simp only [hn1, if_false, h1]
        split at h
        · simp [err] at h
        · rename_i hn
          have hl := RT_length _ _ _ _ (by omega) h
          have := RT_bind (f := fun (x : Nat × Bool) =>
              (match x with | (n, rep) => if rep then D.fail .error else pure n : D Nat)) hl
            (c := n) (b2 := []) (by
              dsimp only
              simp only [Bool.false_eq_true, if_false]
              exact RT_pure _ _)
          rw [List.append_nil] at this
          exact this

theorem sliceCount_eq (p : Params) (se : Bool) :
    sliceCount p se = sliceCountWith (sliceLB p)
      (match p.sizeUB with
       | some u => if ¬ se ∧ u < 65536 then u - sliceLB p + 1 else -1
       | none => -1) := by
  unfold sliceCount sliceLB
  cases p.sizeLB <;> rfl

/-- header (extension bit) and count of a SEQUENCE OF -/
theorem RT_sliceHeader (p : Params) (pos n : Nat) (pre cb : Bits) (lb ub sr : Int) (hok : sliceOK p = true)
    (hh : sliceHeader p n = .ok (pre, lb, ub, sr))
    (hc : sliceCountBits (pos + pre.length) n lb ub sr = .ok cb) :
    RT (pre ++ cb) pos (extBits p true >>= fun x => sliceCount p x.1) n := by
  unfold sliceOK at hok
  simp only [Bool.and_eq_true, decide_eq_true_eq, Bool.or_eq_true, Bool.not_eq_true'] at hok
  obtain ⟨hlb0, hext⟩ := hok
  obtain ⟨hlb, hcase⟩ := sliceHeader_spec _ _ _ _ _ _ hh
  subst hlb
  rcases hcase with ⟨u, hu, hu64, hse, hgt, hpre, hsr⟩ | ⟨u, hu, hu64, hle, hpre, hub, hsr⟩ | ⟨hbig, hpre, hsr⟩
  · -- extended: bit 1, general length
    have hx := RT_extBits_size pos p true true hse (by simp)
    rw [hpre]
    refine RT_bind hx ?_
    dsimp only
    rw [sliceCount_eq, hu]
    simp only [not_true_eq_false, false_and, if_false]
    rw [hpre, hsr] at hc
    exact RT_sliceCountWith _ _ _ _ _ _ hlb0 (by intro h; omega) hc
  · -- within the root: bit 0 (when extensible), constrained count
    have hx := RT_extBits_sized pos p true false (by simp) (fun _ => rfl)
    rw [hpre]
    refine RT_bind hx ?_
    dsimp only
    rw [sliceCount_eq, hu]
    simp only [Bool.false_eq_true, not_false_eq_true, hu64, and_self, if_true]
    rw [hpre, hsr] at hc
    exact RT_sliceCountWith _ _ _ _ _ _ hlb0 (by omega) hc
  · -- no usable upper bound: general length
    have hse : p.sizeExt = false := by
      rcases hext with h | h
      · exact h
      · cases hu : p.sizeUB with
        | none => rw [hu] at h; simp at h
        | some u =>
          rw [hu] at h
          simp only [decide_eq_true_eq] at h
          exact absurd h (hbig u hu)
    have hx := RT_extBits_none pos p true hse (by simp)
    rw [hpre, List.nil_append]
    have := RT_bind (f := fun x => sliceCount p x.1) hx (c := n) (b2 := cb) (by
      dsimp only
      rw [sliceCount_eq]
      rw [hpre, hsr] at hc
      have hsr' : (match p.sizeUB with
          | some u => if ¬ false = true ∧ u < 65536 then u - sliceLB p + 1 else -1
          | none => (-1 : Int)) = -1 := by
        cases hu : p.sizeUB with
        | none => rfl
        | some u => simp [hbig u hu]
      rw [hsr']
      exact RT_sliceCountWith _ _ _ _ _ _ hlb0 (by omega) hc)
    rw [List.nil_append] at this
    exact this

/-- the elements of a SEQUENCE OF -/
theorem RT_decElems (f : Nat → Val → Res Bits) (g : D Val) : ∀ (vs : List Val) (pos : Nat) (eb : Bits),
    (∀ v ∈ vs, ∀ pos bits, f pos v = .ok bits → RT bits pos g v) →
    encElems f pos vs = .ok eb → RT eb pos (decElems g vs.length) vs := by
  intro vs
  induction vs with
  | nil =>
    intro pos eb _ h
    simp only [encElems, Except.ok.injEq] at h
    rw [← h]
    exact RT_pure _ _
  | cons v vs ih =>
    intro pos eb hf h
    unfold encElems at h
    cases ha : f pos v with
    | error e => rw [ha] at h; simp at h
    | ok a =>
      rw [ha] at h
      dsimp only at h
      cases hb : encElems f (pos + a.length) vs with
      | error e => rw [hb] at h; simp at h
      | ok b =>
        rw [hb] at h
        simp only [Except.ok.injEq] at h
        rw [← h]
        simp only [List.length_cons, decElems]
        refine RT_bind (hf v List.mem_cons_self pos a ha) ?_
        have := RT_map (fun l => v :: l) (ih (pos + a.length) b (fun v' hv' => hf v' (List.mem_cons_of_mem _ hv')) hb)
        exact this

/-- SEQUENCE OF as a whole, given the round trip of every element -/
theorem RT'_decField_slice (env : Env) (fuel : Nat) (t : Ty) (p : Params) (bits : Bits) (pos : Nat) (vs : List Val)
    (hok : sliceOK p = true)
    (hel : ∀ v ∈ vs, ∀ pos bits, encField env fuel pos t (stripSizeE p) v = .ok bits →
      RT bits pos (decField env fuel t (stripSize p)) v)
    (h : encSlice (fun q v => encField env fuel q t (stripSizeE p) v) p pos vs = .ok bits) :
    RT' bits pos (decField env (fuel + 1) (.slice t) p) (.slice vs) := by
  intro tail ht hne
  rw [decField_slice _ _ _ _ _ (mkRd_len_ne hne)]
  revert tail
  show RT' bits pos _ _
  apply RT.toRT'
  unfold encSlice at h
  cases hh : sliceHeader p vs.length with
  | error e => rw [hh] at h; simp at h
  | ok x =>
    obtain ⟨pre, lb, ub, sr⟩ := x
    rw [hh] at h
    dsimp only at h
    cases hc : sliceCountBits (pos + pre.length) vs.length lb ub sr with
    | error e => rw [hc] at h; simp at h
    | ok cb =>
      rw [hc] at h
      dsimp only at h
      cases he : encElems (fun q v => encField env fuel q t (stripSizeE p) v) (pos + pre.length + cb.length) vs with
      | error e => rw [he] at h; simp at h
      | ok eb =>
        rw [he] at h
        simp only [Except.ok.injEq] at h
        rw [← h]
        have hhdr := RT_sliceHeader p pos vs.length pre cb lb ub sr hok hh hc
        have hels := RT_decElems (fun q v => encField env fuel q t (stripSizeE p) v) (decField env fuel t (stripSize p))
          vs (pos + pre.length + cb.length) eb hel he
        have h2 := RT_map Val.slice hels
        intro tail ht
        have hb := RT_bind (f := fun n => decElems (decField env fuel t (stripSize p)) n >>= fun vs => (pure (.slice vs) : D Val))
          hhdr (c := .slice vs) (b2 := eb) (by
            rw [List.length_append, ← Nat.add_assoc]
            exact h2) tail ht
        rw [← hb, D_bind_assoc_apply]

end Stgutg.Proofs.AperRTComp
