/-
  Helper lemmas for Props/C16.lean (decimal strings, CreateUE).
-/
import Stgutg.Model.UeIdentity
import Stgutg.Spec.Ts24501Identity
open Stgutg

namespace Stgutg.Proofs.UeIdentity
open Model.UeIdentity

/-- induction from the right end of a list -/
theorem rev_ind {α : Type} {P : List α → Prop} (nil : P []) (snoc : ∀ l a, P l → P (l ++ [a])) : ∀ l, P l := by
  intro l
  rw [← List.reverse_reverse l]
  induction l.reverse with
  | nil => exact nil
  | cons a t ih => rw [List.reverse_cons]; exact snoc _ _ ih

def step (a : Nat) (c : UInt8) : Nat := a * 10 + (c.toNat - 48)

theorem decVal_eq (bs : Bytes) : decVal bs = bs.foldl step 0 := rfl

theorem foldl_step (bs : Bytes) : ∀ acc, bs.foldl step acc = acc * 10 ^ bs.length + bs.foldl step 0 := by
  induction bs with
  | nil => intro acc; simp
  | cons c cs ih =>
    intro acc
    simp only [List.foldl_cons, List.length_cons]
    rw [ih (step acc c), ih (step 0 c)]
    simp only [step, Nat.zero_mul, Nat.zero_add, Nat.pow_succ]
    rw [Nat.add_mul, Nat.mul_right_comm acc 10, ← Nat.mul_assoc]
    omega

theorem decVal_append (a b : Bytes) : decVal (a ++ b) = decVal a * 10 ^ b.length + decVal b := by
  simp only [decVal_eq, List.foldl_append]
  exact foldl_step b _

theorem decVal_snoc (a : Bytes) (c : UInt8) : decVal (a ++ [c]) = decVal a * 10 + (c.toNat - 48) := by
  rw [decVal_append]; simp [decVal_eq, step]

theorem digit_toNat_fin : ∀ d : Fin 10, (UInt8.ofNat (48 + d.val)).toNat = 48 + d.val := by decide
theorem digit_toNat {d : Nat} (h : d < 10) : (UInt8.ofNat (48 + d)).toNat = 48 + d := digit_toNat_fin ⟨d, h⟩
theorem digit_isDigit_fin : ∀ d : Fin 10, isDigitByte (UInt8.ofNat (48 + d.val)) = true := by decide

/-- a digit byte is `'0' + its value` -/
theorem digit_byte (c : UInt8) (h : isDigitByte c = true) : 48 ≤ c.toNat ∧ c.toNat ≤ 57 := by
  simp only [isDigitByte, Bool.and_eq_true, decide_eq_true_eq, UInt8.le_iff_toNat_le] at h
  exact h

theorem digit_byte_eq (c : UInt8) (h : isDigitByte c = true) : UInt8.ofNat (48 + (c.toNat - 48)) = c := by
  have := digit_byte c h
  have e : 48 + (c.toNat - 48) = c.toNat := by omega
  rw [e, UInt8.ofNat_toNat]

theorem decVal_lt (bs : Bytes) (h : ∀ c ∈ bs, isDigitByte c = true) : decVal bs < 10 ^ bs.length := by
  induction bs using rev_ind with
  | nil => simp [decVal_eq]
  | snoc l a ih =>
    have hl := ih (fun c hc => h c (by simp [hc]))
    have ha := digit_byte a (h a (by simp))
    rw [decVal_snoc, List.length_append, List.length_singleton, Nat.pow_succ]
    omega

/-! ### `decW` -/

theorem decW_length : ∀ w n, (decW w n).length = w
  | 0, _ => rfl
  | w + 1, n => by simp [decW, decW_length w]

theorem decW_digits : ∀ w n, ∀ c ∈ decW w n, isDigitByte c = true
  | 0, _ => by simp [decW]
  | w + 1, n => by
    intro c hc
    simp only [decW, List.mem_append, List.mem_singleton] at hc
    rcases hc with hc | rfl
    · exact decW_digits w _ c hc
    · exact digit_isDigit_fin ⟨n % 10, Nat.mod_lt _ (by omega)⟩

theorem decVal_decW : ∀ w n, decVal (decW w n) = n % 10 ^ w
  | 0, n => by simp [decW, decVal_eq, Nat.mod_one]
  | w + 1, n => by
    rw [decW, decVal_snoc, decVal_decW w, digit_toNat (Nat.mod_lt _ (by omega)), Nat.pow_succ, Nat.mul_comm (10 ^ w) 10,
      Nat.mod_mul]
    omega

/-- the digits of `a * 10^m + b` are those of `a` followed by those of `b` -/
theorem decW_split (p : Nat) : ∀ (m a b : Nat), b < 10 ^ m → decW (p + m) (a * 10 ^ m + b) = decW p a ++ decW m b
  | 0, a, b, h => by
    have : b = 0 := by simpa using h
    simp [this, decW]
  | m + 1, a, b, h => by
    have hb : b / 10 < 10 ^ m := by
      rw [Nat.pow_succ] at h; omega
    have e1 : (a * 10 ^ (m + 1) + b) / 10 = a * 10 ^ m + b / 10 := by
      rw [Nat.pow_succ, ← Nat.mul_assoc]; omega
    have e2 : (a * 10 ^ (m + 1) + b) % 10 = b % 10 := by
      rw [Nat.pow_succ, ← Nat.mul_assoc]; omega
    show decW (p + m + 1) _ = _
    rw [decW, e1, e2, decW_split p m a (b / 10) hb, decW, List.append_assoc]

/-- writing the value of a digit string with as many digits gives the string back (leading zeros included) -/
theorem decW_decVal (bs : Bytes) (h : ∀ c ∈ bs, isDigitByte c = true) : decW bs.length (decVal bs) = bs := by
  induction bs using rev_ind with
  | nil => rfl
  | snoc l a ih =>
    have hl := ih (fun c hc => h c (by simp [hc]))
    have ha := digit_byte a (h a (by simp))
    rw [List.length_append, List.length_singleton, decW, decVal_snoc]
    have e1 : (decVal l * 10 + (a.toNat - 48)) / 10 = decVal l := by omega
    have e2 : (decVal l * 10 + (a.toNat - 48)) % 10 = a.toNat - 48 := by omega
    rw [e1, e2, hl, digit_byte_eq a (h a (by simp))]


/-! ### `CreateUE` on a configured decimal IMSI -/

/-- the configured initial IMSI: a non-empty decimal string of at most 18 digits (so that Go's 64-bit `int` holds it;
    real IMSIs have at most 15) -/
structure DecimalImsi (imsi : Bytes) : Prop where
  digits : ∀ c ∈ imsi, isDigitByte c = true
  nonempty : 1 ≤ imsi.length
  short : imsi.length ≤ 18

theorem pow_le_int64 {w : Nat} (h : w ≤ 18) : 10 ^ w < 2 ^ 63 :=
  Nat.lt_of_le_of_lt (Nat.pow_le_pow_right (by omega) h) (by decide)

theorem atoi_decimal {imsi : Bytes} (h : DecimalImsi imsi) : atoi imsi = (((decVal imsi : Nat) : Int), false) := by
  have hlt : decVal imsi < 2 ^ 63 := Nat.lt_trans (decVal_lt imsi h.digits) (pow_le_int64 h.short)
  have hall : imsi.all isDigitByte = true := List.all_eq_true.mpr h.digits
  have hne : imsi.isEmpty = false := by
    have := h.nonempty
    cases imsi <;> simp_all
  have hm : splitSign imsi = (false, imsi) := by
    unfold splitSign
    split
    · exact absurd (digit_byte 43 (h.digits 43 (by simp))) (by decide)
    · exact absurd (digit_byte 45 (h.digits 45 (by simp))) (by decide)
    · rfl
  unfold atoi
  simp only [hm, hne, hall, Bool.not_true, Bool.or_self, Bool.false_eq_true, if_false]
  rw [if_neg (by omega)]

/-- `parsedIMSI + ueNumber` does not wrap for any index below 2^62 -/
theorem createUE_sum {imsi : Bytes} (h : DecimalImsi imsi) (i : Nat) (hi : i < 2 ^ 62) :
    wrap64 ((atoi imsi).1 + (i : Int)) = ((decVal imsi + i : Nat) : Int) := by
  have hlt : decVal imsi < 2 ^ 62 :=
    Nat.lt_trans (decVal_lt imsi h.digits) (Nat.lt_of_le_of_lt (Nat.pow_le_pow_right (by omega) h.short) (by decide))
  rw [atoi_decimal h]
  unfold wrap64; omega

/-- the RAN-UE-NGAP-ID `CreateUE` assigns -/
theorem createUE_ranId {imsi : Bytes} (h : DecimalImsi imsi) (i : Nat) (hi : i < 2 ^ 62) (k opc op : Bytes) :
    (createUE imsi (i : Int) k opc op).ranUeNgapId = (((decVal imsi + i) % 10000 : Nat) : Int) := by
  unfold createUE
  simp only [createUE_sum h i hi, setAuthSubscription, newRanUeContext]
  rw [Int.tmod_eq_emod_of_nonneg (by omega)]
  omega

/-- the SUPI `CreateUE` assigns while the number still has the configured number of digits -/
theorem createUE_supi {imsi : Bytes} (h : DecimalImsi imsi) (i : Nat) (hfit : decVal imsi + i < 10 ^ imsi.length)
    (k opc op : Bytes) :
    (createUE imsi (i : Int) k opc op).supi = imsiPrefix ++ decW imsi.length (decVal imsi + i) := by
  have hi : i < 2 ^ 62 :=
    Nat.lt_of_le_of_lt (Nat.le_add_left _ _) (Nat.lt_trans hfit
      (Nat.lt_of_le_of_lt (Nat.pow_le_pow_right (by omega) h.short) (by decide)))
  unfold createUE
  simp only [createUE_sum h i hi, setAuthSubscription, newRanUeContext]
  unfold fmtPad0
  rw [if_pos (by omega), if_pos ⟨h.nonempty, by rw [Int.toNat_natCast]; exact hfit⟩, Int.toNat_natCast]

/-! ### capability octets -/

theorem cap_fin : ∀ c i : Fin 4, ∀ k : Fin 8,
    Spec.Identity.eaSupported (getUESecurityCapability (UInt8.ofNat c.val) (UInt8.ofNat i.val)).buffer k.val = decide (k.val = c.val) ∧
    Spec.Identity.iaSupported (getUESecurityCapability (UInt8.ofNat c.val) (UInt8.ofNat i.val)).buffer k.val = decide (k.val = i.val) := by
  decide

theorem cap_shape (c i : UInt8) : ∃ a b, (getUESecurityCapability c i).buffer = [a, b] := ⟨_, _, rfl⟩

end Stgutg.Proofs.UeIdentity
