/-
  Helper lemmas for Props/C16.lean (decimal strings, CreateUE).
-/
import Stgutg.Model.UeIdentity
import Stgutg.Spec.Ts24501Identity
import Stgutg.Proofs.Suci
open Stgutg

namespace Stgutg.Proofs.UeIdentity
open Model.UeIdentity
open Stgutg.Proofs.Suci (asc ValidImsi)

/-- induction from the right end of a list -/
theorem rev_ind {α : Type} {P : List α → Prop} (nil : P []) (snoc : ∀ l a, P l → P (l ++ [a])) : ∀ l, P l := by
  intro l
  rw [← List.reverse_reverse l]
  induction l.reverse with
  | nil => exact nil
  | cons a t ih => rw [List.reverse_cons]; exact snoc _ _ ih

def step (a : Nat) (c : UInt8) : Nat := a * 10 + (c.toNat - 48)

theorem decVal_eq (bs : Bytes) : decVal bs = bs.foldl step 0 := rfl

theorem foldl_step (bs : Bytes) : ∀ acc, bs.foldl step acc = acc * 10 ^ bs.length + bs.foldl step 0 := by
  induction bs with
  | nil => intro acc; simp
  | cons c cs ih =>
    intro acc
    simp only [List.foldl_cons, List.length_cons]
    rw [ih (step acc c), ih (step 0 c)]
    simp only [step, Nat.zero_mul, Nat.zero_add, Nat.pow_succ]
    rw [Nat.add_mul, Nat.mul_right_comm acc 10, ← Nat.mul_assoc]
    omega

theorem decVal_append (a b : Bytes) : decVal (a ++ b) = decVal a * 10 ^ b.length + decVal b := by
  simp only [decVal_eq, List.foldl_append]
  exact foldl_step b _

theorem decVal_snoc (a : Bytes) (c : UInt8) : decVal (a ++ [c]) = decVal a * 10 + (c.toNat - 48) := by
  rw [decVal_append]; simp [decVal_eq, step]

theorem digit_toNat_fin : ∀ d : Fin 10, (UInt8.ofNat (48 + d.val)).toNat = 48 + d.val := by decide
theorem digit_toNat {d : Nat} (h : d < 10) : (UInt8.ofNat (48 + d)).toNat = 48 + d := digit_toNat_fin ⟨d, h⟩
theorem digit_isDigit_fin : ∀ d : Fin 10, isDigitByte (UInt8.ofNat (48 + d.val)) = true := by decide

/-- a digit byte is `'0' + its value` -/
theorem digit_byte (c : UInt8) (h : isDigitByte c = true) : 48 ≤ c.toNat ∧ c.toNat ≤ 57 := by
  simp only [isDigitByte, Bool.and_eq_true, decide_eq_true_eq, UInt8.le_iff_toNat_le] at h
  exact h

theorem digit_byte_eq (c : UInt8) (h : isDigitByte c = true) : UInt8.ofNat (48 + (c.toNat - 48)) = c := by
  have := digit_byte c h
  have e : 48 + (c.toNat - 48) = c.toNat := by omega
  rw [e, UInt8.ofNat_toNat]

theorem decVal_lt (bs : Bytes) (h : ∀ c ∈ bs, isDigitByte c = true) : decVal bs < 10 ^ bs.length := by
  induction bs using rev_ind with
  | nil => simp [decVal_eq]
  | snoc l a ih =>
    have hl := ih (fun c hc => h c (by simp [hc]))
    have ha := digit_byte a (h a (by simp))
    rw [decVal_snoc, List.length_append, List.length_singleton, Nat.pow_succ]
    omega

/-! ### `decW` -/

theorem decW_length : ∀ w n, (decW w n).length = w
  | 0, _ => rfl
  | w + 1, n => by simp [decW, decW_length w]

theorem decW_digits : ∀ w n, ∀ c ∈ decW w n, isDigitByte c = true
  | 0, _ => by simp [decW]
  | w + 1, n => by
    intro c hc
    simp only [decW, List.mem_append, List.mem_singleton] at hc
    rcases hc with hc | rfl
    · exact decW_digits w _ c hc
    · exact digit_isDigit_fin ⟨n % 10, Nat.mod_lt _ (by omega)⟩

theorem decVal_decW : ∀ w n, decVal (decW w n) = n % 10 ^ w
  | 0, n => by simp [decW, decVal_eq, Nat.mod_one]
  | w + 1, n => by
    rw [decW, decVal_snoc, decVal_decW w, digit_toNat (Nat.mod_lt _ (by omega)), Nat.pow_succ, Nat.mul_comm (10 ^ w) 10,
      Nat.mod_mul]
    omega

/-- the digits of `a * 10^m + b` are those of `a` followed by those of `b` -/
theorem decW_split (p : Nat) : ∀ (m a b : Nat), b < 10 ^ m → decW (p + m) (a * 10 ^ m + b) = decW p a ++ decW m b
  | 0, a, b, h => by
    have : b = 0 := by simpa using h
    simp [this, decW]
  | m + 1, a, b, h => by
    have hb : b / 10 < 10 ^ m := by
      rw [Nat.pow_succ] at h; omega
    have e1 : (a * 10 ^ (m + 1) + b) / 10 = a * 10 ^ m + b / 10 := by
      rw [Nat.pow_succ, ← Nat.mul_assoc]; omega
    have e2 : (a * 10 ^ (m + 1) + b) % 10 = b % 10 := by
      rw [Nat.pow_succ, ← Nat.mul_assoc]; omega
    show decW (p + m + 1) _ = _
    rw [decW, e1, e2, decW_split p m a (b / 10) hb, decW, List.append_assoc]

/-- writing the value of a digit string with as many digits gives the string back (leading zeros included) -/
theorem decW_decVal (bs : Bytes) (h : ∀ c ∈ bs, isDigitByte c = true) : decW bs.length (decVal bs) = bs := by
  induction bs using rev_ind with
  | nil => rfl
  | snoc l a ih =>
    have hl := ih (fun c hc => h c (by simp [hc]))
    have ha := digit_byte a (h a (by simp))
    rw [List.length_append, List.length_singleton, decW, decVal_snoc]
    have e1 : (decVal l * 10 + (a.toNat - 48)) / 10 = decVal l := by omega
    have e2 : (decVal l * 10 + (a.toNat - 48)) % 10 = a.toNat - 48 := by omega
    rw [e1, e2, hl, digit_byte_eq a (h a (by simp))]


/-! ### `CreateUE` on a configured decimal IMSI -/

/-- the configured initial IMSI: a non-empty decimal string of at most 18 digits (so that Go's 64-bit `int` holds it;
    real IMSIs have at most 15) -/
structure DecimalImsi (imsi : Bytes) : Prop where
  digits : ∀ c ∈ imsi, isDigitByte c = true
  nonempty : 1 ≤ imsi.length
  short : imsi.length ≤ 18

theorem pow_le_int64 {w : Nat} (h : w ≤ 18) : 10 ^ w < 2 ^ 63 :=
  Nat.lt_of_le_of_lt (Nat.pow_le_pow_right (by omega) h) (by decide)

theorem atoi_decimal {imsi : Bytes} (h : DecimalImsi imsi) : atoi imsi = (((decVal imsi : Nat) : Int), false) := by
  have hlt : decVal imsi < 2 ^ 63 := Nat.lt_trans (decVal_lt imsi h.digits) (pow_le_int64 h.short)
  have hall : imsi.all isDigitByte = true := List.all_eq_true.mpr h.digits
  have hne : imsi.isEmpty = false := by
    have := h.nonempty
    cases imsi <;> simp_all
  have hm : splitSign imsi = (false, imsi) := by
    unfold splitSign
    split
    · exact absurd (digit_byte 43 (h.digits 43 (by simp))) (by decide)
    · exact absurd (digit_byte 45 (h.digits 45 (by simp))) (by decide)
    · rfl
  unfold atoi
  simp only [hm, hne, hall, Bool.not_true, Bool.or_self, Bool.false_eq_true, if_false]
  rw [if_neg (by omega)]

/-- `parsedIMSI + ueNumber` does not wrap for any index below 2^62 -/
theorem createUE_sum {imsi : Bytes} (h : DecimalImsi imsi) (i : Nat) (hi : i < 2 ^ 62) :
    wrap64 ((atoi imsi).1 + (i : Int)) = ((decVal imsi + i : Nat) : Int) := by
  have hlt : decVal imsi < 2 ^ 62 :=
    Nat.lt_trans (decVal_lt imsi h.digits) (Nat.lt_of_le_of_lt (Nat.pow_le_pow_right (by omega) h.short) (by decide))
  rw [atoi_decimal h]
  unfold wrap64; omega

/-- the RAN-UE-NGAP-ID `CreateUE` assigns -/
theorem createUE_ranId {imsi : Bytes} (h : DecimalImsi imsi) (i : Nat) (hi : i < 2 ^ 62) (k opc op : Bytes) :
    (createUE imsi (i : Int) k opc op).ranUeNgapId = (((decVal imsi + i) % 10000 : Nat) : Int) := by
  unfold createUE
  simp only [createUE_sum h i hi, setAuthSubscription, newRanUeContext]
  rw [Int.tmod_eq_emod_of_nonneg (by omega)]
  omega

/-- the SUPI `CreateUE` assigns while the number still has the configured number of digits -/
theorem createUE_supi {imsi : Bytes} (h : DecimalImsi imsi) (i : Nat) (hfit : decVal imsi + i < 10 ^ imsi.length)
    (k opc op : Bytes) :
    (createUE imsi (i : Int) k opc op).supi = imsiPrefix ++ decW imsi.length (decVal imsi + i) := by
  have hi : i < 2 ^ 62 :=
    Nat.lt_of_le_of_lt (Nat.le_add_left _ _) (Nat.lt_trans hfit
      (Nat.lt_of_le_of_lt (Nat.pow_le_pow_right (by omega) h.short) (by decide)))
  unfold createUE
  simp only [createUE_sum h i hi, setAuthSubscription, newRanUeContext]
  unfold fmtPad0
  rw [if_pos (by omega), if_pos ⟨h.nonempty, by rw [Int.toNat_natCast]; exact hfit⟩, Int.toNat_natCast]

/-! ### populations -/

/-- the population of `n` UEs fits: the number of the last UE still has the configured number of digits -/
def Fits (imsi : Bytes) (n : Nat) : Prop := decVal imsi + n ≤ 10 ^ imsi.length

/-- the MSIN digits (what follows the first `p` = 3 + |MNC| digits) can accommodate the population -/
def MsinFits (imsi : Bytes) (p n : Nat) : Prop :=
  p ≤ imsi.length ∧ decVal (imsi.drop p) + n ≤ 10 ^ (imsi.length - p)

/-- room in the MSIN is room in the whole number -/
theorem msinFits_fits {imsi : Bytes} {p n : Nat} (h : DecimalImsi imsi) (hf : MsinFits imsi p n) : Fits imsi n := by
  obtain ⟨hp, hf⟩ := hf
  have hsplit : imsi = imsi.take p ++ imsi.drop p := (List.take_append_drop p imsi).symm
  have hpre := decVal_lt (imsi.take p) (fun c hc => h.digits c (List.mem_of_mem_take hc))
  have hlen : (imsi.drop p).length = imsi.length - p := List.length_drop
  have hlt : (imsi.take p).length = p := by rw [List.length_take]; omega
  unfold Fits
  rw [hsplit, decVal_append, List.length_append, hlt, hlen, Nat.pow_add]
  rw [hlt] at hpre
  have : (decVal (imsi.take p) + 1) * 10 ^ (imsi.length - p) ≤ 10 ^ p * 10 ^ (imsi.length - p) :=
    Nat.mul_le_mul_right _ hpre
  rw [Nat.add_mul] at this
  omega

/-! ### the SUCI of a created UE (link to C11) -/

/-- the digit values of a decimal string -/
def digitsOf (bs : Bytes) : List Nat := bs.map fun c => c.toNat - 48

theorem asc_digitsOf (bs : Bytes) (h : ∀ c ∈ bs, isDigitByte c = true) : asc (digitsOf bs) = bs := by
  induction bs with
  | nil => rfl
  | cons c cs ih =>
    simp only [digitsOf, asc, List.map_cons, List.map_map] at ih ⊢
    rw [digit_byte_eq c (h c (by simp))]
    congr 1
    exact ih (fun d hd => h d (by simp [hd]))

theorem digitsOf_lt (bs : Bytes) (h : ∀ c ∈ bs, isDigitByte c = true) : ∀ d ∈ digitsOf bs, d < 10 := by
  intro d hd
  obtain ⟨c, hc, rfl⟩ := List.mem_map.mp hd
  have := digit_byte c (h c hc)
  omega

theorem digitsOf_length (bs : Bytes) : (digitsOf bs).length = bs.length := List.length_map ..

/-- the SUPI of UE `i`, split as MCC ‖ MNC ‖ MSIN + i -/
theorem createUE_supi_split {imsi : Bytes} (h : DecimalImsi imsi) {m n : Nat} (hfit : MsinFits imsi (3 + m) n)
    {i : Nat} (hi : i < n) (k opc op : Bytes) :
    (createUE imsi (i : Int) k opc op).supi =
      imsiPrefix ++ (imsi.take 3 ++ (imsi.drop 3).take m ++ decW (imsi.length - (3 + m)) (decVal (imsi.drop (3 + m)) + i)) := by
  have hF := msinFits_fits h hfit
  obtain ⟨hp, hf⟩ := hfit
  unfold Fits at hF
  rw [createUE_supi h i (by omega)]
  have hsplit : imsi = imsi.take (3 + m) ++ imsi.drop (3 + m) := (List.take_append_drop _ imsi).symm
  have hlt : (imsi.take (3 + m)).length = 3 + m := by rw [List.length_take]; omega
  have hld : (imsi.drop (3 + m)).length = imsi.length - (3 + m) := List.length_drop
  have hval : decVal imsi + i = decVal (imsi.take (3 + m)) * 10 ^ (imsi.length - (3 + m)) + (decVal (imsi.drop (3 + m)) + i) := by
    conv => lhs; rw [hsplit, decVal_append, hld]
    omega
  have hw : imsi.length = (3 + m) + (imsi.length - (3 + m)) := by omega
  have hdig : decW imsi.length (decVal imsi + i)
      = imsi.take (3 + m) ++ decW (imsi.length - (3 + m)) (decVal (imsi.drop (3 + m)) + i) := by
    conv => lhs; rw [hw, hval]
    rw [decW_split (3 + m) _ _ _ (by omega)]
    have := decW_decVal (imsi.take (3 + m)) (fun c hc => h.digits c (List.mem_of_mem_take hc))
    rw [hlt] at this
    rw [this]
  rw [hdig, List.take_add]


/-- what `RegisterUE` / `DeregisterUE` send for UE `i`: `EncodeSuci(TrimPrefix(ue.Supi, "imsi-"), len(mnc))` is read
    by the TS 24.501 decoder as the configured MCC and MNC with MSIN = configured MSIN + i -/
theorem suci_of_created_ue {imsi : Bytes} (h : DecimalImsi imsi) {m n : Nat} (hm : m = 2 ∨ m = 3)
    (hlen : 3 + m < imsi.length) (hfit : MsinFits imsi (3 + m) n) {i : Nat} (hi : i < n) (k opc op : Bytes) :
    ∃ buf, Model.Suci.encodeSuci (Model.Suci.trimImsiPrefix (createUE imsi (i : Int) k opc op).supi) (m : Int) = .ok buf ∧
      Spec.Identity.decodeSuci buf = some (Spec.Identity.nullSchemeSuci (digitsOf (imsi.take 3))
        (digitsOf ((imsi.drop 3).take m)) (digitsOf (decW (imsi.length - (3 + m)) (decVal (imsi.drop (3 + m)) + i)))) := by
  rw [createUE_supi_split h hfit hi]
  have htrim : ∀ x : Bytes, Model.Suci.trimImsiPrefix (imsiPrefix ++ x) = x := fun _ => rfl
  rw [htrim]
  have d1 : ∀ c ∈ imsi.take 3, isDigitByte c = true := fun c hc => h.digits c (List.mem_of_mem_take hc)
  have d2 : ∀ c ∈ (imsi.drop 3).take m, isDigitByte c = true :=
    fun c hc => h.digits c (List.mem_of_mem_drop (List.mem_of_mem_take hc))
  have d3 := decW_digits (imsi.length - (3 + m)) (decVal (imsi.drop (3 + m)) + i)
  have hv : ValidImsi (digitsOf (imsi.take 3)) (digitsOf ((imsi.drop 3).take m))
      (digitsOf (decW (imsi.length - (3 + m)) (decVal (imsi.drop (3 + m)) + i))) := by
    refine ⟨?_, ?_, ?_, ?_⟩
    · rw [digitsOf_length, List.length_take]; omega
    · rw [digitsOf_length, List.length_take, List.length_drop]; omega
    · rw [digitsOf_length, decW_length]; omega
    · intro d hd
      simp only [List.mem_append] at hd
      rcases hd with (hd | hd) | hd
      · exact digitsOf_lt _ d1 d hd
      · exact digitsOf_lt _ d2 d hd
      · exact digitsOf_lt _ d3 d hd
  obtain ⟨buf, hb, hdec⟩ := Stgutg.Proofs.Suci.suci_decodes hv
  refine ⟨buf, ?_, hdec⟩
  have hmlen : (digitsOf ((imsi.drop 3).take m)).length = m := by
    rw [digitsOf_length, List.length_take, List.length_drop]; omega
  rw [hmlen, Stgutg.Proofs.Suci.asc_append, Stgutg.Proofs.Suci.asc_append, asc_digitsOf _ d1, asc_digitsOf _ d2,
    asc_digitsOf _ d3] at hb
  exact hb

/-! ### capability octets -/

theorem cap_fin : ∀ c i : Fin 4, ∀ k : Fin 8,
    Spec.Identity.eaSupported (getUESecurityCapability (UInt8.ofNat c.val) (UInt8.ofNat i.val)).buffer k.val = decide (k.val = c.val) ∧
    Spec.Identity.iaSupported (getUESecurityCapability (UInt8.ofNat c.val) (UInt8.ofNat i.val)).buffer k.val = decide (k.val = i.val) := by
  decide

theorem cap_shape (c i : UInt8) : ∃ a b, (getUESecurityCapability c i).buffer = [a, b] := ⟨_, _, rfl⟩

end Stgutg.Proofs.UeIdentity
