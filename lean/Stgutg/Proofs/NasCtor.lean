/-
  Helper lemmas about the constructor model (Model/NasCtor.lean) for Props/C09.  Core Lean only.
-/
import Stgutg.Model.NasCtor
import Stgutg.Proofs.NasCodec
namespace Stgutg.Nas.Ctor
open Stgutg Stgutg.Nas

theorem copyInto_replicate (c : Bytes) : copyInto (List.replicate c.length 0) c = c := by
  simp [copyInto]

/-- `NewX(iei); SetLen(uintN(len(c))); SetContents(c)` on a `Buffer` shape is the IE (iei, len c, c) -/
theorem bufIE_eq (s : Shape) (iei w : Nat) (c : Bytes) (cp : CopySet) (h1 : s.hasIei = true) (h2 : s.newSetsIei = true)
    (hi : iei < 256) (hw : c.length < w) :
    bufIE s iei w c cp = { iei := iei, len := c.length, data := c } := by
  simp [bufIE, setContents, setLenBuf, newVal, h1, h2, Nat.mod_eq_of_lt hw, copyInto_replicate,
    Shape.zero, toNat_ofNat_lt hi]

end Stgutg.Nas.Ctor
