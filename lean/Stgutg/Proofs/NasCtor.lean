/-
  Helper lemmas about the constructor model (Model/NasCtor.lean) for Props/C09.  Core Lean only.
-/
import Stgutg.Model.NasCtor
import Stgutg.Proofs.NasCodec
import Stgutg.Spec.NasCtorIntended
namespace Stgutg.Nas.Ctor
open Stgutg Stgutg.Nas

theorem copyInto_replicate (c : Bytes) : copyInto (List.replicate c.length 0) c = c := by
  simp [copyInto]

/-- `NewX(iei); SetLen(uintN(len(c))); SetContents(c)` on a `Buffer` shape is the IE (iei, len c, c) -/
theorem bufIE_eq (s : Shape) (iei w : Nat) (c : Bytes) (cp : CopySet) (h1 : s.hasIei = true) (h2 : s.newSetsIei = true)
    (hi : iei < 256) (hw : c.length < w) :
    bufIE s iei w c cp = { iei := iei, len := c.length, data := c } := by
  simp [bufIE, setContents, setLenBuf, newVal, h1, h2, Nat.mod_eq_of_lt hw, copyInto_replicate,
    Shape.zero, toNat_ofNat_lt hi]

end Stgutg.Nas.Ctor

namespace Stgutg.Props.C09
open Stgutg Stgutg.Nas Stgutg.Spec.Ts24501 Stgutg.Gen.Nas Stgutg.Gen

/-! closed evaluations of the constructor model (kernel `decide` over the one-octet arguments) and small algebra -/

theorem copyInto_same (n : Nat) (c : Bytes) (h : c.length = n) : Ctor.copyInto (List.replicate n 0) c = c := by
  subst h; exact Ctor.copyInto_replicate c

theorem deregBase_eval : ∀ acc < 4, ∀ sw < 2, ∀ k < 4,
    Ctor.deregistrationRequestBase (UInt8.ofNat acc) (UInt8.ofNat sw) (UInt8.ofNat (2 * k)) =
      .ok [some ⟨0, 0, [0x7E]⟩, some ⟨0, 0, [0x00]⟩, some ⟨0, 0, [0x45]⟩,
           some ⟨0, 0, Intended.halves (Intended.deregType sw 0 acc) (Intended.ngKSI 0 (2 * k))⟩, some ⟨0, 0, []⟩] := by
  decide +kernel


def regBaseMsg (rt : Nat) : Msg :=
  [some ⟨0, 0, [0x7E]⟩, some ⟨0, 0, [0x00]⟩, some ⟨0, 0, [0x41]⟩,
   some ⟨0, 0, Intended.halves (Intended.regType 1 rt) (Intended.ngKSI 0 7)⟩, some ⟨0, 0, []⟩] ++ List.replicate 20 none

theorem regReqBase_eval : ∀ rt < 8, Ctor.registrationRequestBase (UInt8.ofNat rt) = .ok (regBaseMsg rt) := by
  decide +kernel


theorem u8_and_255_aux : ∀ x < 256, (UInt8.ofNat x &&& (255 : UInt8)) = UInt8.ofNat x := by decide +kernel
theorem u8_and_255 (x : UInt8) : x &&& (255 : UInt8) = x := by
  have := u8_and_255_aux x.toNat x.toNat_lt
  simpa using this

theorem ulHead_eval : ∀ psi < 256, Ctor.ulHead (UInt8.ofNat psi) =
    .ok [some ⟨0, 0, [0x7E]⟩, some ⟨0, 0, [0x00]⟩, some ⟨0, 0, [0x67]⟩, some ⟨0, 0, [0x00]⟩, some ⟨0, 0, []⟩,
         some ⟨0x12, 0, [UInt8.ofNat psi]⟩, none, none, none, none, none] := by
  decide +kernel

theorem ulRequestType_eval : ∀ rt < 8, Ctor.ulRequestTypeIE (UInt8.ofNat rt) = .ok ⟨0, 0, [UInt8.ofNat (0x80 + rt)]⟩ := by
  decide +kernel

theorem ulSnssai_eval (sst : UInt8) (a b c : UInt8) :
    Ctor.ulSnssaiIE ⟨sst, [a, b, c]⟩ = .ok ⟨0x22, 4, [sst, a, b, c, 0, 0, 0, 0]⟩ := by
  simp [Ctor.ulSnssaiIE, Ctor.bits, NasSet.SNSSAI.SetSST, Ctor.setLen, newVal, sh_SNSSAI, Shape.zero, Body.size,
    List.replicate, u8_and_255, Ctor.copyAt, Ctor.copyInto]

theorem ulTail_eval (m : Msg) (payload : Bytes) (h3 : m[3]? = some (some ⟨0, 0, [0x00]⟩)) (h4 : m[4]? = some (some ⟨0, 0, []⟩))
    (hp : payload.length < 65536) :
    Ctor.ulTail m payload = .ok ((m.set 3 (some ⟨0, 0, [0x01]⟩)).set 4 (some ⟨0, payload.length, payload⟩)) := by
  have hb : Ctor.bits NasSet.SpareHalfOctetAndPayloadContainerType.SetPayloadContainerType 1 ⟨0, 0, [0x00]⟩ = .ok ⟨0, 0, [0x01]⟩ := by
    decide +kernel
  have h4' : (m.set 3 (some ⟨0, 0, [0x01]⟩))[4]? = some (some ⟨0, 0, []⟩) := by
    rw [List.getElem?_set_ne (by decide)]; exact h4
  simp [Ctor.ulTail, Ctor.updF, idx_ULNASTransport_SpareHalfOctetAndPayloadContainerType, idx_ULNASTransport_PayloadContainer,
    h3, hb, h4', Ctor.ok1, Ctor.setContents, Ctor.setLenBuf, Nat.mod_eq_of_lt hp, Ctor.copyInto_replicate]

theorem dnnLabels_go_nodot (cur s : Bytes) (h : ∀ c ∈ s, c ≠ 0x2E) :
    Intended.dnnLabels.go cur s = Intended.u8 (cur ++ s).length :: (cur ++ s) := by
  induction s generalizing cur with
  | nil => simp [Intended.dnnLabels.go]
  | cons c rest ih =>
    have hc : c ≠ 0x2E := h c (by simp)
    simp only [Intended.dnnLabels.go, hc, if_false]
    rw [ih (cur ++ [c]) (fun x hx => h x (by simp [hx]))]
    simp

theorem dnnLabels_nodot (s : Bytes) (h : ∀ c ∈ s, c ≠ 0x2E) : Intended.dnnLabels s = Intended.u8 s.length :: s := by
  have := dnnLabels_go_nodot [] s h
  simp at this
  simpa [Intended.dnnLabels] using this


end Stgutg.Props.C09
