/-
  The TS 24.501 / TS 24.007 encoder and parser of Spec/Ts24501.lean are mutually consistent: the parser reads
  back what the encoder writes (a fact about the specification alone, used by Props/C09).  Core Lean only.
-/
import Stgutg.Spec.Ts24501
namespace Stgutg.Spec.Ts24501
open Stgutg

theorem takeN_append {n : Nat} {a rest : Bytes} (h : a.length = n) : takeN n (a ++ rest) = some (a, rest) := by
  subst h; simp [takeN]

theorem u8_toNat_lt {n : Nat} (h : n < 256) : (UInt8.ofNat n).toNat = n := by
  simp [UInt8.toNat_ofNat']; omega

theorem parseMand_encMand : ∀ (ws : List MWire) (vals : List Bytes) (a : Bytes),
    (ws.all fun | .vRest _ => false | _ => true) = true →
    encMand ws vals = some a → ∀ rest, parseMand ws (a ++ rest) = some (vals, rest) := by
  intro ws
  induction ws with
  | nil =>
    intro vals a _ h rest
    cases vals with
    | nil => simp [encMand] at h; subst h; simp [parseMand]
    | cons _ _ => simp [encMand] at h
  | cons w ws ih =>
    intro vals a hnr h rest
    simp only [List.all_cons, Bool.and_eq_true] at hnr
    cases vals with
    | nil => cases w <;> simp [encMand] at h
    | cons b bs =>
      cases w with
      | v n =>
        simp only [encMand] at h
        split at h
        · rename_i hb
          cases he : encMand ws bs with
          | none => simp [he] at h
          | some a' =>
            simp [he] at h; subst h
            simp [parseMand, List.append_assoc, takeN_append hb, ih bs a' hnr.2 he rest]
        · simp at h
      | vRest mn => simp at hnr
      | lv fx =>
        simp only [encMand] at h
        split at h
        · rename_i hb
          cases he : encMand ws bs with
          | none => simp [he] at h
          | some a' =>
            simp [he] at h; subst h
            simp [parseMand, List.append_assoc, u8_toNat_lt hb.1, hb.2, takeN_append rfl, ih bs a' hnr.2 he rest]
        · simp at h
      | lve fx =>
        simp only [encMand] at h
        split at h
        · rename_i hb
          cases he : encMand ws bs with
          | none => simp [he] at h
          | some a' =>
            simp [he] at h; subst h
            have h1 : b.length / 256 % 256 * 256 + b.length % 256 = b.length := by omega
            simp [parseMand, be16, List.append_assoc, UInt8.toNat_ofNat', h1, hb.2, takeN_append rfl, ih bs a' hnr.2 he rest]
        · simp at h

theorem parseOpts_encOpts (ws : List OWire) : ∀ (opts : List (Nat × Bytes)) (b : Bytes),
    encOpts ws opts = some b → ∀ fuel, b.length ≤ fuel → parseOpts ws fuel b = some opts := by
  intro opts
  induction opts with
  | nil => intro b h fuel _; simp [encOpts] at h; subst h; cases fuel <;> simp [parseOpts]
  | cons p opts ih =>
    intro b h fuel hfuel
    obtain ⟨iei, val⟩ := p
    simp only [encOpts] at h
    cases hf : ws.find? (fun x => x.iei == iei) with
    | none => simp [hf] at h
    | some w =>
      have hwi : w.iei = iei := by
        have := List.find?_some hf; simpa using this
      subst hwi
      simp only [hf] at h
      cases he : encOptIE w val with
      | none => simp [he] at h
      | some a =>
        cases hr : encOpts ws opts with
        | none => simp [he, hr] at h
        | some b' =>
          simp [he, hr] at h
          subst h
          unfold encOptIE at he
          cases hk : w.kind with
          | half =>
            simp only [hk] at he
            split at he
            · rename_i x
              split at he
              · rename_i hc
                cases he
                simp at hfuel
                cases fuel with
                | zero => omega
                | succ fuel =>
                  have hb : (UInt8.ofNat (w.iei * 16 + x.toNat)).toNat = w.iei * 16 + x.toNat := u8_toNat_lt (by omega)
                  have hx : UInt8.ofNat x.toNat = x := by simp
                  simp only [List.singleton_append, parseOpts, hb]
                  have h1 : w.iei * 16 + x.toNat ≥ 128 := by omega
                  have h2 : (w.iei * 16 + x.toNat) / 16 = w.iei := by omega
                  have h3 : (w.iei * 16 + x.toNat) % 16 = x.toNat := by omega
                  simp [h1, h2, h3, hf, hk, hx, ih b' hr fuel (by omega)]
              · simp at he
            · simp at he
          | tv n =>
            simp only [hk] at he
            split at he
            · rename_i hc
              cases he
              simp at hfuel
              cases fuel with
              | zero => omega
              | succ fuel =>
                have hb : (UInt8.ofNat w.iei).toNat = w.iei := u8_toNat_lt (by omega)
                simp only [List.cons_append, parseOpts, hb]
                have h1 : ¬ w.iei ≥ 128 := by omega
                simp [h1, hf, hk, takeN_append hc.1, ih b' hr fuel (by omega)]
            · simp at he
          | tlv =>
            simp only [hk] at he
            split at he
            · rename_i hc
              cases he
              simp at hfuel
              cases fuel with
              | zero => omega
              | succ fuel =>
                have hb : (UInt8.ofNat w.iei).toNat = w.iei := u8_toNat_lt (by omega)
                simp only [List.cons_append, parseOpts, hb]
                have h1 : ¬ w.iei ≥ 128 := by omega
                simp [h1, hf, hk, u8_toNat_lt hc.1, takeN_append rfl, ih b' hr fuel (by omega)]
            · simp at he
          | tlve =>
            simp only [hk] at he
            split at he
            · rename_i hc
              cases he
              simp [be16] at hfuel
              cases fuel with
              | zero => omega
              | succ fuel =>
                have hb : (UInt8.ofNat w.iei).toNat = w.iei := u8_toNat_lt (by omega)
                simp only [List.cons_append, parseOpts, hb, be16]
                have h1 : ¬ w.iei ≥ 128 := by omega
                have h2 : val.length / 256 % 256 * 256 + val.length % 256 = val.length := by omega
                simp [h1, hf, hk, UInt8.toNat_ofNat', h2, takeN_append rfl, ih b' hr fuel (by omega)]
            · simp at he

/-- the standard's parser reads back what the standard's encoder writes -/
theorem parse_encode (w : Wire) (sm : SMsg) (bs : Bytes) (hnr : noRest w = true)
    (h : encode w sm = some bs) : parse w bs = some sm := by
  unfold encode at h
  cases h1 : encMand w.mand sm.mand with
  | none => simp [h1] at h
  | some a =>
    cases h2 : encOpts w.opt sm.opt with
    | none => simp [h1, h2] at h
    | some b =>
      simp [h1, h2] at h
      subst h
      simp [parse, parseMand_encMand w.mand sm.mand a hnr h1 b, parseOpts_encOpts w.opt sm.opt b h2 b.length (Nat.le_refl _)]

end Stgutg.Spec.Ts24501
