/-
  C13 helper, part 2: `okV_spec` — the X.691 specification (Spec/X691.lean) encodes every `okV` value, at every bit position.
  With `Proofs.AperSpec.encode_complete` (C03) the encoder model then produces the same bits (`okV_encodes`).
-/
import Stgutg.Proofs.BuildersOk

namespace Stgutg.Proofs.BuildersOk
open Stgutg Stgutg.Aper
open Stgutg.Spec.X691 (constrainedWholeNumber lengthDeterminant integer enumerated sizeConstraint bitString octetString
  components elements encode governor)

theorem cwn_some (pos n r : Nat) (h : n < r) : ∃ b, constrainedWholeNumber pos n r = some b := by
  unfold constrainedWholeNumber
  have : ¬ (r = 0 ∨ n ≥ r) := by omega
  rw [if_neg this]
  split
  · exact ⟨_, rfl⟩
  · split
    · exact ⟨_, rfl⟩
    · split
      · exact ⟨_, rfl⟩
      · split
        · exact ⟨_, rfl⟩
        · exact ⟨_, rfl⟩

theorem integer_some (pos : Nat) (n lb ub : Int) (ext : Bool) (h1 : lb ≤ n) (h2 : n ≤ ub ∨ ext = true) :
    ∃ b, integer pos n ext (some lb) (some ub) = some b := by
  unfold integer
  by_cases hu : n ≤ ub
  · simp only [h1, hu, and_self, if_true]
    obtain ⟨b, hb⟩ := cwn_some (pos + (if ext then 1 else 0)) (n - lb).toNat (ub - lb + 1).toNat (by omega)
    rw [hb]
    exact ⟨_, rfl⟩
  · have he : ext = true := by rcases h2 with h2 | h2; exact absurd h2 hu; exact h2
    simp only
    rw [if_neg (by omega), if_pos ⟨he, by omega⟩]
    exact ⟨_, rfl⟩

theorem enumerated_some (pos n : Nat) (ub : Int) (ext : Bool) (h : (n : Int) ≤ ub) :
    ∃ b, enumerated pos n ext (some 0) (some ub) = some b := by
  unfold enumerated
  simp only [h, if_true]
  obtain ⟨b, hb⟩ := cwn_some (pos + (if ext then 1 else 0)) n (ub + 1).toNat (by omega)
  rw [hb]
  exact ⟨_, rfl⟩

/-- what a size constraint that admits `n` looks like -/
theorem sizeConstraint_some (n : Nat) (ext : Bool) (lbP ubP : Option Int) (x : Bits × Nat × Option Nat)
    (h : sizeConstraint n ext lbP ubP = some x) :
    (∃ u, x.2.2 = some u ∧ x.2.1 ≤ n ∧ n ≤ u) ∨ x.2.2 = none := by
  unfold sizeConstraint at h
  split at h
  · rename_i lb ub
    split at h
    · simp at h
    · split at h
      · rename_i hr
        simp only [Option.some.injEq] at h; subst h
        left; exact ⟨ub.toNat, rfl, by simp only; omega, by omega⟩
      · split at h
        · simp only [Option.some.injEq] at h; subst h; right; rfl
        · simp at h
  · split at h
    · simp at h
    · simp only [Option.some.injEq] at h; subst h; right; rfl
  · simp only [Option.some.injEq] at h; subst h; right; rfl

theorem lengthDeterminant_some (pos n lb u : Nat) (h1 : lb ≤ n) (h2 : n ≤ u) (hu : u < 65536) :
    ∃ b, lengthDeterminant pos n lb (some u) = some b := by
  unfold lengthDeterminant
  simp only [hu, if_true]
  have : ¬ (n < lb ∨ n > u) := by omega
  rw [if_neg this]
  exact cwn_some pos (n - lb) (u - lb + 1) (by omega)

theorem lengthDeterminant_some_small (pos n lb : Nat) (ub : Option Nat) (hn : n < 16384)
    (hr : ∀ u, ub = some u → lb ≤ n ∧ n ≤ u) : ∃ b, lengthDeterminant pos n lb ub = some b := by
  cases ub with
  | none =>
    unfold lengthDeterminant
    simp only
    split
    · exact ⟨_, rfl⟩
    · exact ⟨_, rfl⟩
  | some u =>
    by_cases hu : u < 65536
    · exact lengthDeterminant_some pos n lb u (hr u rfl).1 (hr u rfl).2 hu
    · unfold lengthDeterminant
      simp only [hu, if_false]
      split
      · exact ⟨_, rfl⟩
      · exact ⟨_, rfl⟩

theorem octetString_some (pos : Nat) (b : Bytes) (p : Params) (h : sizeOKn b.length p = true) :
    ∃ bits, octetString pos b p.sizeExt p.sizeLB p.sizeUB = some bits := by
  unfold sizeOKn at h
  unfold octetString
  cases hs : sizeConstraint b.length p.sizeExt p.sizeLB p.sizeUB with
  | none => simp [hs] at h
  | some x =>
    obtain ⟨pre, lb, ub⟩ := x
    simp only
    cases ub with
    | none =>
      simp only [reduceCtorEq, false_and, if_false, Bool.false_eq_true]
      exact ⟨_, rfl⟩
    | some u =>
      rcases sizeConstraint_some _ _ _ _ _ hs with ⟨u', hu', hl, hh⟩ | hnone
      · simp only [Option.some.injEq] at hu'; subst hu'
        simp only at hl hh
        split
        · split
          · exact ⟨_, rfl⟩
          · split <;> exact ⟨_, rfl⟩
        · by_cases hsmall : u < 65536
          · simp only [hsmall, decide_true, if_true]
            obtain ⟨l, hl'⟩ := lengthDeterminant_some (pos + pre.length) b.length lb u hl hh hsmall
            rw [hl']
            simp only
            split <;> exact ⟨_, rfl⟩
          · simp only [hsmall, decide_false, Bool.false_eq_true, if_false]
            exact ⟨_, rfl⟩
      · simp at hnone

theorem bitString_some (pos : Nat) (content : Bits) (p : Params) (h : sizeOKn content.length p = true) :
    ∃ bits, bitString pos content p.sizeExt p.sizeLB p.sizeUB = some bits := by
  unfold sizeOKn at h
  unfold bitString
  cases hs : sizeConstraint content.length p.sizeExt p.sizeLB p.sizeUB with
  | none => simp [hs] at h
  | some x =>
    obtain ⟨pre, lb, ub⟩ := x
    simp only
    cases ub with
    | none =>
      simp only [reduceCtorEq, false_and, if_false, Bool.false_eq_true]
      exact ⟨_, rfl⟩
    | some u =>
      rcases sizeConstraint_some _ _ _ _ _ hs with ⟨u', hu', hl, hh⟩ | hnone
      · simp only [Option.some.injEq] at hu'; subst hu'
        simp only at hl hh
        split
        · split <;> exact ⟨_, rfl⟩
        · by_cases hsmall : u < 65536
          · simp only [hsmall, decide_true, if_true]
            obtain ⟨l, hl'⟩ := lengthDeterminant_some (pos + pre.length) content.length lb u hl hh hsmall
            rw [hl']
            simp only
            split <;> exact ⟨_, rfl⟩
          · simp only [hsmall, decide_false, Bool.false_eq_true, if_false]
            exact ⟨_, rfl⟩
      · simp at hnone

theorem elements_some (enc : Nat → Val → Option Bits) : ∀ (vs : List Val) (pos : Nat),
    (∀ v ∈ vs, ∀ pos, ∃ b, enc pos v = some b) → ∃ b, elements enc pos vs = some b := by
  intro vs
  induction vs with
  | nil => intro pos _; exact ⟨_, rfl⟩
  | cons v rest ih =>
    intro pos h
    obtain ⟨a, ha⟩ := h v (List.mem_cons_self ..) pos
    obtain ⟨b, hb⟩ := ih (pos + a.length) (fun x hx => h x (List.mem_cons_of_mem _ hx))
    exact ⟨a ++ b, by simp [elements, ha, hb]⟩

theorem components_cons (enc : Nat → Ty → Params → Val → Option Bits) (gov : Ty → Val → Option Int)
    (aF : List Field) (aV : List Val) (pos : Nat) (fd : Field) (frest : List Field) (v : Val) (vrest : List Val) :
    components enc gov aF aV pos (fd :: frest) (v :: vrest) =
      if fd.params.optional = true ∧ isNil v = true then components enc gov aF aV pos frest vrest
      else
        match resolveP gov aF aV fd with
        | none => none
        | some p =>
          match enc pos fd.ty p v with
          | none => none
          | some a =>
            match components enc gov aF aV (pos + a.length) frest vrest with
            | none => none
            | some b => some (a ++ b) := by
  obtain ⟨name, params, ty⟩ := fd
  obtain ⟨optional, sizeExt, valueExt, sizeLB, sizeUB, valueLB, valueUB, openType, refField, refValue⟩ := params
  cases optional <;> cases v <;> rfl

theorem components_some (ok : Ty → Params → Val → Bool) (enc : Nat → Ty → Params → Val → Option Bits)
    (gov : Ty → Val → Option Int) (aF : List Field) (aV : List Val)
    (H : ∀ ty p v, ok ty p v = true → ∀ pos, ∃ b, enc pos ty p v = some b) :
    ∀ (fields : List Field) (fs : List Val), okFields ok gov aF aV fields fs = true →
      ∀ pos, ∃ b, components enc gov aF aV pos fields fs = some b := by
  intro fields
  induction fields with
  | nil =>
    intro fs h pos
    cases fs with
    | nil => exact ⟨_, rfl⟩
    | cons _ _ => simp [okFields] at h
  | cons fd frest ih =>
    intro fs h pos
    cases fs with
    | nil => simp [okFields] at h
    | cons v vrest =>
      simp only [okFields, okField, Bool.and_eq_true, Bool.or_eq_true] at h
      rw [components_cons]
      by_cases hskip : fd.params.optional = true ∧ isNil v = true
      · rw [if_pos hskip]; exact ih vrest h.2 pos
      · rw [if_neg hskip]
        rcases h.1 with h1 | h1
        · exact absurd h1 hskip
        · cases hr : resolveP gov aF aV fd with
          | none => simp [hr] at h1
          | some p =>
            simp only [hr] at h1 ⊢
            obtain ⟨a, ha⟩ := H _ _ _ h1 pos
            obtain ⟨b, hb⟩ := ih vrest h.2 (pos + a.length)
            exact ⟨a ++ b, by simp [ha, hb]⟩

theorem zipIdx_all_of_nilExcept (alts : List Val) (k : Nat) (h : AperRTComp.nilExceptFrom 1 k alts = true) :
    (alts.zipIdx.all fun (a, i) => i + 1 = k || (match a with | .nil => true | _ => false)) = true :=
  nilExceptFrom_zipIdx alts 0 k h

theorem mandatory_present (ok : Ty → Params → Val → Bool) (gov : Ty → Val → Option Int) (aF : List Field) (aV : List Val)
    (hnil : ∀ ty p, ok ty p .nil = false) :
    ∀ (fields : List Field) (fs : List Val), okFields ok gov aF aV fields fs = true →
      (List.zip fields fs).all (fun (fd, v) => fd.params.optional || (match v with | .nil => false | _ => true)) = true := by
  intro fields fs h
  rw [List.all_eq_true]
  intro x hx
  rcases okFields_zip ok gov aF aV fields fs h x hx with h1 | ⟨p, _, h1⟩
  · simp [h1.1]
  · obtain ⟨fd, v⟩ := x
    cases v <;> simp at h1 ⊢
    simp [hnil] at h1

/-- **the specification encodes every `okV` value**, at every bit position -/
theorem okV_spec (env : Env) (canon : Bool) : ∀ (fuel : Nat) (ty : Ty) (p : Params) (v : Val),
    okV env canon fuel ty p v = true → ∀ pos, ∃ bits, encode env fuel pos ty p v = some bits := by
  intro fuel
  induction fuel with
  | zero => intro ty p v h; simp [okV] at h
  | succ fuel ih =>
    intro ty p v h pos
    cases ty <;> cases v <;> try (simp [okV] at h; done)
    · -- int
      rename_i n
      simp only [okV, Bool.and_eq_true, decide_eq_true_eq] at h
      simp only [encode]
      cases hl : p.valueLB with
      | none => simp [hl] at h
      | some lb =>
        cases hu : p.valueUB with
        | none => simp [hl, hu] at h
        | some ub =>
          simp only [hl, hu, Bool.and_eq_true, Bool.or_eq_true, decide_eq_true_eq] at h
          exact integer_some pos n lb ub _ h.1.1.1 h.1.1.2
    · -- enum
      rename_i n
      simp only [okV] at h
      simp only [encode]
      cases hl : p.valueLB with
      | none => simp [hl] at h
      | some lb =>
        cases hu : p.valueUB with
        | none => simp [hl, hu] at h
        | some ub =>
          simp only [hl, hu, Bool.and_eq_true, decide_eq_true_eq] at h
          obtain ⟨h0, h1⟩ := h
          subst h0
          exact enumerated_some pos n ub _ h1
    · -- bits
      rename_i bytes len
      simp only [okV, Bool.and_eq_true, decide_eq_true_eq] at h
      simp only [encode]
      rw [if_neg (by simp [h.1.1])]
      have hlen : ((bytesToBits bytes).take len).length = len := by
        rw [List.length_take, Proofs.Bits.bytesToBits_length, h.1.1]; omega
      have := bitString_some pos ((bytesToBits bytes).take len) p (by rw [hlen]; exact h.2)
      exact this
    · -- octs
      simp only [okV] at h
      simp only [encode]
      exact octetString_some pos _ p h
    · -- str
      simp only [okV] at h
      simp only [encode]
      exact octetString_some pos _ p h
    · -- bool
      exact ⟨_, rfl⟩
    · -- struct
      rename_i id fs
      simp only [okV] at h
      simp only [encode]
      cases hsd : env[id]? with
      | none => simp [hsd] at h
      | some sd =>
        simp only [hsd] at h ⊢
        by_cases hch : isChoice sd = true
        · have hch' : Spec.X691.isChoice sd = true := hch
          simp only [hch, hch', if_true] at h ⊢
          unfold okChoice at h
          simp only [Bool.and_eq_true, decide_eq_true_eq] at h
          obtain ⟨hlen, h⟩ := h
          cases fs with
          | nil => simp at h
          | cons f0 alts =>
            cases f0 <;> try (simp at h; done)
            rename_i pv
            simp only [Bool.and_eq_true, decide_eq_true_eq] at h
            obtain ⟨⟨⟨hp1, hp2⟩, hnil⟩, h⟩ := h
            simp only
            rw [if_neg (by omega)]
            rw [if_neg (fun hc => hc (zipIdx_all_of_nilExcept alts pv.toNat hnil))]
            cases hfd : sd.fields[pv.toNat]? with
            | none => simp [hfd] at h
            | some fd =>
              cases halt : (Val.int pv :: alts)[pv.toNat]? with
              | none => simp [hfd, halt] at h
              | some alt =>
                simp only [hfd, halt, Bool.and_eq_true] at h ⊢
                obtain ⟨⟨_, hok⟩, hpar⟩ := h
                by_cases hot : p.openType = true
                · simp only [hot, if_true, Bool.and_eq_true, beq_iff_eq] at hpar ⊢
                  rw [if_neg (by
                    intro hc
                    rcases hc with hc | hc
                    · rw [Option.isNone_iff_eq_none] at hc; rw [hc] at hpar; simp at hpar
                    · exact hc hpar.2)]
                  obtain ⟨inner, hin⟩ := ih _ _ _ hok 0
                  rw [hin]
                  exact ⟨_, rfl⟩
                · simp only [hot, if_false, Bool.false_eq_true] at hpar ⊢
                  cases hub : p.valueUB with
                  | none => simp [hub] at hpar
                  | some ub =>
                    simp only [hub, beq_iff_eq] at hpar ⊢
                    rw [if_neg (by simp [hpar])]
                    obtain ⟨ib, hib⟩ := cwn_some (pos + (if p.valueExt = true then [false] else []).length) (pv.toNat - 1)
                      (sd.fields.length - 1) (by omega)
                    rw [hib]
                    obtain ⟨ab, hab⟩ := ih _ _ _ hok (pos + (if p.valueExt = true then [false] else []).length + ib.length)
                    simp only [hab]
                    exact ⟨_, rfl⟩
        · have hch' : Spec.X691.isChoice sd = false := by
            have : isChoice sd = false := by simpa using hch
            exact this
          simp only [hch, hch', if_false, Bool.false_eq_true, Bool.and_eq_true, decide_eq_true_eq] at h ⊢
          rw [if_neg (by simp [h.1])]
          rw [if_neg (fun hc => hc (mandatory_present _ _ _ _ (fun ty q => okV_nil env canon fuel ty q) _ _ h.2))]
          have hcomp := components_some (okV env canon fuel) (encode env fuel) (governor env fuel) sd.fields fs
            (fun ty q v hv pos => ih ty q v hv pos) sd.fields fs h.2
          exact Exists.elim (hcomp _) fun body hb => by rw [hb]; exact ⟨_, rfl⟩
    · -- ptr
      simp only [okV] at h
      simp only [encode]
      exact ih _ _ _ h pos
    · -- slice
      rename_i t vs
      simp only [okV, Bool.and_eq_true, decide_eq_true_eq, List.all_eq_true] at h
      obtain ⟨⟨hsz, hn⟩, hall⟩ := h
      simp only [encode]
      unfold sizeOKn at hsz
      cases hs : sizeConstraint vs.length p.sizeExt p.sizeLB p.sizeUB with
      | none => simp [hs] at hsz
      | some x =>
        obtain ⟨pre, lb, ub⟩ := x
        simp only
        have hcnt : ∃ c, (if ub = some lb ∧ lb < 65536 then some [] else lengthDeterminant (pos + pre.length) vs.length lb ub) = some c := by
          split
          · exact ⟨_, rfl⟩
          · apply lengthDeterminant_some_small _ _ _ _ hn
            intro u hu
            rcases sizeConstraint_some _ _ _ _ _ hs with ⟨u', hu', hl, hh⟩ | hnone
            · simp only at hu' hl hh
              rw [hu] at hu'
              simp only [Option.some.injEq] at hu'
              subst hu'
              exact ⟨hl, hh⟩
            · simp only at hnone; rw [hu] at hnone; simp at hnone
        obtain ⟨c, hc⟩ := hcnt
        rw [hc]
        simp only
        obtain ⟨es, hes⟩ := elements_some (fun q e => encode env fuel q t { p with sizeExt := false, sizeLB := none, sizeUB := none } e)
          vs (pos + pre.length + c.length) (fun v hv q => ih t (stripSizeE p) v (hall v hv) q)
        rw [hes]
        exact ⟨_, rfl⟩

/-- **every `okV` value is encoded**: `aper.MarshalWithParams` (model) returns octets, and they are the complete X.691
    encoding of the value (C03: `encode_complete`) -/
theorem okV_marshal (env : Env) (canon : Bool) (hwf : AperSpec.specOK env = true) (hwfc : AperSpec.specOKc env = true)
    (fuel : Nat) (ty : Ty) (p : Params) (v : Val)
    (hp : AperSpec.tyParamsOK env ty p = true) (hpc : AperSpec.tyParamsOKc ty p = true)
    (h : okV env canon fuel ty p v = true) :
    ∃ bs, marshal env fuel ty p v = .ok bs ∧ Spec.X691.encodePdu env fuel ty p v = some bs := by
  obtain ⟨bits, hb⟩ := okV_spec env canon fuel ty p v h 0
  have hs : ∃ bs, Spec.X691.encodePdu env fuel ty p v = some bs := by
    unfold Spec.X691.encodePdu
    rw [hb]
    dsimp only
    split <;> exact ⟨_, rfl⟩
  obtain ⟨bs, hbs⟩ := hs
  exact ⟨bs, (AperSpec.marshal_iff env hwf hwfc fuel ty p v bs hp hpc (okV_regular env canon fuel ty p v _ h)).mpr hbs, hbs⟩

end Stgutg.Proofs.BuildersOk
