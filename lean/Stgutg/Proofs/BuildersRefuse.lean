/-
  C13 helper, part 6: refusal. `badV env fuel ty params v`: somewhere on the encoder's path through `v` an INTEGER lies
  below its lower bound, or above the upper bound of a range without extension marker. `badV_refused`: the encoder model
  (`encField`, marshal.go) then returns an error — never bits — whatever the rest of the value looks like (no regularity
  or conformance hypothesis on the other components).
-/
import Stgutg.Model.AperEnc

namespace Stgutg.Proofs.BuildersRefuse
open Stgutg Stgutg.Aper

def badFields (bad : Ty → Params → Val → Bool) : List Field → List Val → Bool
  | fd :: frest, v :: vrest => (!(fd.params.optional && isNil v) && bad fd.ty fd.params v) || badFields bad frest vrest
  | _, _ => false

def badV (env : Env) : Nat → Ty → Params → Val → Bool
  | 0, _, _, _ => false
  | fuel + 1, ty, params, v =>
    match ty, v with
    | .ptr t, .ptr v' => badV env fuel t params v'
    | .int, .int n =>
      (match params.valueLB, params.valueUB with
       | some lb, some ub => decide (n < lb) || (decide (ub < n) && !params.valueExt)
       | _, _ => false)
    | .slice t, .slice vs => vs.any (fun x => badV env fuel t (stripSizeE params) x)
    | .struct id, .struct fs =>
      (match env[id]? with
       | none => false
       | some sd =>
         if isChoice sd then
           (match fs with
            | .int p :: _ =>
              (match sd.fields[p.toNat]?, fs[p.toNat]? with
               | some fd, some alt => badV env fuel fd.ty fd.params alt
               | _, _ => false)
            | _ => false)
         else badFields (badV env fuel) sd.fields fs)
    | _, _ => false

/-- an encoder result that is never bits -/
def Refused (r : Res Bits) : Prop := ∀ bits, r ≠ .ok bits

theorem refused_error (e : Err) : Refused (.error e) := fun _ h => by cases h

theorem badV_refValue (env : Env) (x : Option Int) : ∀ (fuel : Nat) (ty : Ty) (p : Params) (v : Val),
    badV env fuel ty { p with refValue := x } v = badV env fuel ty p v := by
  intro fuel
  induction fuel with
  | zero => intro ty p v; rfl
  | succ fuel ih =>
    intro ty p v
    cases ty <;> cases v <;> try rfl
    · simp only [badV]; exact ih _ _ _
    · simp only [badV]
      congr 1
      funext v
      exact ih _ (stripSizeE p) _

theorem appendInteger_refused (pos : Nat) (n lb ub : Int) (ext : Bool) (h : n < lb ∨ (ub < n ∧ ext = false)) :
    Refused (appendInteger pos n ext (some lb) (some ub)) := by
  unfold appendInteger
  rcases h with h | ⟨h1, h2⟩
  · simp only [h, if_true]
    exact refused_error _
  · by_cases hl : n < lb
    · simp only [hl, if_true]; exact refused_error _
    · have hu : ¬ n ≤ ub := by omega
      simp only [hl, hu, if_false, h2, Bool.not_false, if_true]
      exact refused_error _

theorem encElems_refused (f : Nat → Val → Res Bits) : ∀ (vs : List Val) (pos : Nat),
    (∃ v ∈ vs, ∀ pos, Refused (f pos v)) → Refused (encElems f pos vs) := by
  intro vs
  induction vs with
  | nil => intro pos ⟨v, hv, _⟩; simp at hv
  | cons a rest ih =>
    intro pos ⟨v, hv, hr⟩
    unfold encElems
    cases ha : f pos a with
    | error e => exact refused_error _
    | ok ab =>
      simp only
      rcases List.mem_cons.mp hv with rfl | hv
      · exact absurd ha (hr pos ab)
      · have := ih (pos + ab.length) ⟨v, hv, hr⟩
        cases hb : encElems f (pos + ab.length) rest with
        | error e => exact refused_error _
        | ok b => exact absurd hb (this b)

theorem resolveRef_cases (rfv : Ty → Val → Res Int) (aF : List Field) (aV : List Val) (i : Nat) (fd : Field) (fp : Params)
    (h : resolveRef rfv aF aV i fd = .ok fp) : fp = fd.params ∨ ∃ x, fp = { fd.params with refValue := some x } := by
  unfold resolveRef at h
  split at h
  · split at h
    · cases h
    · split at h
      · split at h
        · cases h
        · rename_i x _
          simp only [Except.ok.injEq] at h
          exact .inr ⟨x, h.symm⟩
      · cases h
  · simp only [Except.ok.injEq] at h; exact .inl h.symm

theorem encSeqFields_refused (bad : Ty → Params → Val → Bool) (f : Nat → Ty → Params → Val → Res Bits)
    (rfv : Ty → Val → Res Int) (aF : List Field) (aV : List Val)
    (H : ∀ (fd : Field) (v : Val) (fp : Params), bad fd.ty fd.params v = true →
      (fp = fd.params ∨ ∃ x, fp = { fd.params with refValue := some x }) → ∀ pos, Refused (f pos fd.ty fp v)) :
    ∀ (fields : List Field) (fs : List Val) (i pos : Nat), badFields bad fields fs = true →
      Refused (encSeqFields f rfv aF aV i pos fields fs) := by
  intro fields
  induction fields with
  | nil => intro fs i pos h; simp [badFields] at h
  | cons fd frest ih =>
    intro fs i pos h
    cases fs with
    | nil => simp [badFields] at h
    | cons v vrest =>
      simp only [badFields, Bool.or_eq_true, Bool.and_eq_true, Bool.not_eq_true'] at h
      unfold encSeqFields
      by_cases hskip : fd.params.optional = true ∧ isNil v = true
      · rw [if_pos hskip]
        rcases h with ⟨hns, _⟩ | h
        · simp [hskip.1, hskip.2] at hns
        · exact ih vrest (i + 1) pos h
      · rw [if_neg hskip]
        cases hr : resolveRef rfv aF aV i fd with
        | error e => exact refused_error _
        | ok fp =>
          simp only
          cases hf : f pos fd.ty fp v with
          | error e => exact refused_error _
          | ok a =>
            simp only
            rcases h with ⟨_, hb⟩ | h
            · exact absurd hf (H fd v fp hb (resolveRef_cases rfv aF aV i fd fp hr) pos a)
            · have := ih vrest (i + 1) (pos + a.length) h
              cases hrest : encSeqFields f rfv aF aV (i + 1) (pos + a.length) frest vrest with
              | error e => exact refused_error _
              | ok b => exact absurd hrest (this b)

/-- **refusal**: a value with an INTEGER outside its (non-extensible) range on the encoder's path is never encoded -/
theorem badV_refused (env : Env) : ∀ (fuel : Nat) (ty : Ty) (p : Params) (v : Val),
    badV env fuel ty p v = true → ∀ pos, Refused (encField env fuel pos ty p v) := by
  intro fuel
  induction fuel with
  | zero => intro ty p v h; simp [badV] at h
  | succ fuel ih =>
    intro ty p v h pos
    cases ty <;> cases v <;> try (simp [badV] at h; done)
    · -- int
      rename_i n
      simp only [badV] at h
      simp only [encField]
      cases hl : p.valueLB with
      | none => simp [hl] at h
      | some lb =>
        cases hu : p.valueUB with
        | none => simp [hl, hu] at h
        | some ub =>
          simp only [hl, hu, Bool.or_eq_true, Bool.and_eq_true, decide_eq_true_eq, Bool.not_eq_true'] at h
          exact appendInteger_refused pos n lb ub _ h
    · -- struct
      rename_i id fs
      simp only [badV] at h
      simp only [encField]
      cases hsd : env[id]? with
      | none => simp [hsd] at h
      | some sd =>
        simp only [hsd] at h ⊢
        suffices hbody : Refused (if (!isChoice sd) = true then
            encSeq (encField env fuel) (refFieldValue env fuel) sd (pos + (if p.valueExt = true then [false] else []).length) fs
          else encChoice (encField env fuel) sd p (pos + (if p.valueExt = true then [false] else []).length) fs) by
          intro bits hb
          split at hb
          · cases hb
          · rename_i b hbb
            exact hbody b hbb
        by_cases hch : isChoice sd = true
        · simp only [hch, if_true, Bool.not_true, Bool.false_eq_true, if_false] at h ⊢
          unfold encChoice
          cases fs with
          | nil => simp at h
          | cons f0 rest =>
            cases f0 <;> try (simp at h; done)
            rename_i pv
            simp only at h ⊢
            split
            · exact refused_error _
            · split
              · exact refused_error _
              · cases hfd : sd.fields[pv.toNat]? with
                | none => simp [hfd] at h
                | some fd =>
                  cases halt : (Val.int pv :: rest)[pv.toNat]? with
                  | none => simp [hfd, halt] at h
                  | some alt =>
                    simp only [hfd, halt] at h ⊢
                    have hr := ih fd.ty fd.params alt h
                    split
                    · split
                      · exact refused_error _
                      · split
                        · exact refused_error _
                        · cases hin : encField env fuel 0 fd.ty fd.params alt with
                          | error e => exact refused_error _
                          | ok inner => exact absurd hin (hr 0 inner)
                    · cases hib : appendChoiceIndex (pos + (if p.valueExt = true then [false] else []).length) pv.toNat p.valueExt p.valueUB with
                      | error e => exact refused_error _
                      | ok ib =>
                        simp only
                        cases hab : encField env fuel (pos + (if p.valueExt = true then [false] else []).length + ib.length) fd.ty fd.params alt with
                        | error e => exact refused_error _
                        | ok ab => exact absurd hab (hr _ ab)
        · simp only [hch, if_false, Bool.false_eq_true, Bool.not_false, if_true] at h ⊢
          unfold encSeq
          split
          · exact refused_error _
          · cases hbm : optBitmap sd.fields fs with
            | error e => exact refused_error _
            | ok bm =>
              simp only
              have := encSeqFields_refused (badV env fuel) (encField env fuel) (refFieldValue env fuel) sd.fields fs
                (fun fd v fp hb hfp pos => by
                  rcases hfp with rfl | ⟨x, rfl⟩
                  · exact ih _ _ _ hb pos
                  · exact ih _ _ _ (by rw [badV_refValue]; exact hb) pos)
                sd.fields fs 0 (pos + (if p.valueExt = true then [false] else []).length + bm.length) h
              cases hbody : encSeqFields (encField env fuel) (refFieldValue env fuel) sd.fields fs 0
                  (pos + (if p.valueExt = true then [false] else []).length + bm.length) sd.fields fs with
              | error e => exact refused_error _
              | ok body => exact absurd hbody (this body)
    · -- ptr
      simp only [badV] at h
      simp only [encField]
      exact ih _ _ _ h pos
    · -- slice
      rename_i t vs
      simp only [badV, List.any_eq_true] at h
      simp only [encField]
      unfold encSlice
      cases hh : sliceHeader p vs.length with
      | error e => exact refused_error _
      | ok x =>
        obtain ⟨pre, lb, ub, sr⟩ := x
        simp only
        cases hc : sliceCountBits (pos + pre.length) vs.length lb ub sr with
        | error e => exact refused_error _
        | ok cb =>
          simp only
          obtain ⟨v, hv, hbv⟩ := h
          have := encElems_refused (fun q v => encField env fuel q t (stripSizeE p) v) vs (pos + pre.length + cb.length)
            ⟨v, hv, fun q => ih _ _ _ hbv q⟩
          cases he : encElems (fun q v => encField env fuel q t (stripSizeE p) v) (pos + pre.length + cb.length) vs with
          | error e => exact refused_error _
          | ok eb => exact absurd he (this eb)

end Stgutg.Proofs.BuildersRefuse
