/-
  C02 helper: test mode for N UEs — the population as functions of the UE index (the judge's records, the emulator's security
  states), the judge's run as a fold over the uplink messages written so far, and the generic loop of test mode
  (`for i := 0; i < n; i++ { proc(ueList[i]) }`) for `EstablishPDU` / `ServiceRequest` / `ReleasePDU`, emulator and judge together
  (`proc_loop`): every iteration is `proc_step` (Props/C02History.lean) for UE `i`, the other UEs' records untouched.
-/
import Stgutg.Props.C02Script
import Stgutg.Proofs.EmulatorLife
import Stgutg.Proofs.EmulatorLifeReenc
import Stgutg.Proofs.EmulatorLifeArgs

namespace Stgutg.Proofs.EmulatorLifeN
open Stgutg Stgutg.Model.Emulator Stgutg.Proofs.Emulator Stgutg.Builders
open Stgutg.Model.NasProtect Stgutg.Proofs.NasProtect Stgutg.Spec.NasSecurity
open Stgutg.Proofs.EmulatorLife Stgutg.Proofs.EmulatorRun Stgutg.Props.C02 Stgutg.Props.C01

/-! ### functions of the UE index, updated at one index -/

def upd {α : Type} (f : Nat → α) (i : Nat) (a : α) : Nat → α := fun j => if j = i then a else f j

theorem upd_same {α : Type} (f : Nat → α) (i : Nat) (a : α) : upd f i a i = a := by simp [upd]
theorem upd_other {α : Type} (f : Nat → α) (i j : Nat) (a : α) (h : j ≠ i) : upd f i a j = f j := by simp [upd, h]

/-! ### the judge's run is a fold -/

/-- one step of `run` (the state after the message, with the clauses of the property judged kept) -/
def runStep (P : Prims) (life : Bool) (cfg : Spec.Amf.Cfg) (chs : List Spec.Amf.Choice) (s : Spec.Amf.St) (k : Nat) (ul : Bytes) :
    Spec.Amf.St :=
  let s' := Spec.Amf.step P cfg chs s k ul
  let fresh := s'.fails.take (s'.fails.length - s.fails.length)
  let keep := match Spec.Amf.registrationPhase s ul with
    | none => fresh
    | some r => if r != life then fresh else []
  { s' with fails := keep ++ s.fails }

theorem run_cons (P : Prims) (life : Bool) (cfg : Spec.Amf.Cfg) (chs : List Spec.Amf.Choice) (s : Spec.Amf.St) (k : Nat)
    (ul : Bytes) (rest : List Bytes) :
    Spec.Amf.run P life cfg chs s k (ul :: rest) = Spec.Amf.run P life cfg chs (runStep P life cfg chs s k ul) (k + 1) rest := by
  conv => lhs; unfold Spec.Amf.run
  unfold runStep
  generalize Spec.Amf.step P cfg chs s k ul = s'
  generalize Spec.Amf.registrationPhase s ul = r
  cases r <;> simp only

theorem run_append (P : Prims) (life : Bool) (cfg : Spec.Amf.Cfg) (chs : List Spec.Amf.Choice) :
    ∀ (l1 : List Bytes) (s : Spec.Amf.St) (k : Nat) (l2 : List Bytes),
      Spec.Amf.run P life cfg chs s k (l1 ++ l2) =
        Spec.Amf.run P life cfg chs (Spec.Amf.run P life cfg chs s k l1) (k + l1.length) l2 := by
  intro l1
  induction l1 with
  | nil => intro s k l2; rw [run_nil]; rfl
  | cons b l ih =>
    intro s k l2
    rw [List.cons_append, run_cons, run_cons, ih, List.length_cons]
    congr 1
    omega

/-- the judge's state after the uplink messages written so far -/
def Judged (P : Prims) (scfg : Spec.Amf.Cfg) (chs : List Spec.Amf.Choice) (wd : World) (s : Spec.Amf.St) : Prop :=
  Spec.Amf.run P true scfg chs {} 0 wd.ulsRev.reverse = s

/-- writing `uls` that take the judge from `s` to `s'` -/
theorem Judged.write {P : Prims} {scfg : Spec.Amf.Cfg} {chs : List Spec.Amf.Choice} {wd wd' : World} {s s' : Spec.Amf.St}
    (h : Judged P scfg chs wd s) (uls : List Bytes) (hw : wd'.ulsRev = uls.reverse ++ wd.ulsRev)
    (hrun : ∀ rest, Spec.Amf.run P true scfg chs s wd.ulsRev.length (uls ++ rest) =
      Spec.Amf.run P true scfg chs s' (wd.ulsRev.length + uls.length) rest) :
    Judged P scfg chs wd' s' := by
  unfold Judged at h ⊢
  rw [hw, List.reverse_append, List.reverse_reverse, run_append, h]
  have := hrun []
  rw [List.append_nil, run_nil] at this
  simpa using this

/-! ### a population as functions of the index -/

theorem find_range_map (uf : Nat → Spec.Amf.UeSt) (ran : Nat → Int) :
    ∀ (N : Nat), (∀ j, j < N → (uf j).ran = ran j) → (∀ i j, i < N → j < N → i ≠ j → ran i ≠ ran j) →
      ∀ i, i < N → ((List.range N).map uf).find? (·.ran == ran i) = some (uf i) := by
  intro N
  induction N with
  | zero => intro _ _ i hi; omega
  | succ N ih =>
    intro hr hinj i hi
    rw [List.range_succ, List.map_append, List.find?_append]
    by_cases hiN : i < N
    · rw [ih (fun j hj => hr j (by omega)) (fun a b ha hb => hinj a b (by omega) (by omega)) i hiN]
      rfl
    · have hiN' : i = N := by omega
      subst hiN'
      have : ((List.range i).map uf).find? (·.ran == ran i) = none := by
        rw [List.find?_eq_none]
        intro x hx
        simp only [List.mem_map, List.mem_range] at hx
        obtain ⟨j, hj, rfl⟩ := hx
        rw [hr j (by omega)]
        have := hinj j i (by omega) (by omega) (by omega)
        simpa using this
      rw [this]
      simp [hr i (by omega)]

theorem setUe_range_map (s : Spec.Amf.St) (N : Nat) (uf : Nat → Spec.Amf.UeSt) (hj : ∀ j, j < N → (uf j).j = j)
    (hs : s.ues = (List.range N).map uf) (i : Nat) (u' : Spec.Amf.UeSt) (hu : u'.j = i) :
    (s.setUe u').ues = (List.range N).map (upd uf i u') := by
  simp only [Spec.Amf.St.setUe, hs, List.map_map]
  apply List.map_congr_left
  intro x hx
  have hxN : x < N := List.mem_range.mp hx
  simp only [Function.comp, hj x hxN, hu, upd]
  by_cases h : x = i
  · simp [h]
  · simp [h]

/-! ### `ueList` of test mode as a function of the index, and the `for i := 0; i < n; i++ { proc(ueList[i]) }` loops -/

/-- the list `main` holds after the registrations: UE `j` is `mk j (secf j)` — everything but the NAS security state is fixed -/
def ueList (N : Nat) (mk : Nat → UeSec → Ue) (secf : Nat → UeSec) : List Ue := (List.range N).map fun j => mk j (secf j)

theorem ueList_get (N : Nat) (mk : Nat → UeSec → Ue) (secf : Nat → UeSec) (i : Nat) (hi : i < N) :
    (ueList N mk secf)[i]? = some (mk i (secf i)) := by
  simp [ueList, hi]

theorem ueList_set (N : Nat) (mk : Nat → UeSec → Ue) (hmk : ∀ j sec sec', { mk j sec with sec := sec' } = mk j sec')
    (secf : Nat → UeSec) (i : Nat) (sec' : UeSec) :
    (ueList N mk secf).set i { mk i (secf i) with sec := sec' } = ueList N mk (upd secf i sec') := by
  apply List.ext_getElem?
  intro n
  rw [List.getElem?_set]
  simp only [ueList, List.getElem?_map, List.length_map, List.length_range]
  by_cases hn : n < N
  · rw [List.getElem?_range hn]
    by_cases h : i = n
    · subst h; simp [hn, upd_same, hmk]
    · simp [h, upd_other _ _ _ _ (Ne.symm h)]
  · have : (List.range N)[n]? = none := by simp; omega
    by_cases h : i = n
    · subst h; simp [hn]
    · simp [h, this]

/-- **a loop of test mode over the first `nEnd` UEs**, by an invariant `Φ i wd secf x` (`x`: whatever else is tracked): when every
    iteration `i < nEnd` preserves it, the loop completes, returns the list with the advanced security states, and the invariant
    holds at `nEnd` -/
theorem forUes_inv {σ : Type} (N : Nat) (mk : Nat → UeSec → Ue) (hmk : ∀ j sec sec', { mk j sec with sec := sec' } = mk j sec')
    (f : Ue → M UeSec) (Φ : Nat → World → (Nat → UeSec) → σ → Prop) (nEnd : Nat) (hN : nEnd ≤ N)
    (step : ∀ i wd secf x, i < nEnd → Φ i wd secf x →
      ∃ wd' sec' x', f (mk i (secf i)) wd = (wd', .ok sec') ∧ Φ (i + 1) wd' (upd secf i sec') x') :
    ∀ (n i : Nat) (wd : World) (secf : Nat → UeSec) (x : σ), i + n = nEnd → Φ i wd secf x →
      ∃ wd' secf' x', forUes f n i (ueList N mk secf) wd = (wd', .ok (ueList N mk secf')) ∧ Φ nEnd wd' secf' x' := by
  intro n
  induction n with
  | zero =>
    intro i wd secf x hi h
    have : i = nEnd := by omega
    subst this
    exact ⟨wd, secf, x, rfl, h⟩
  | succ n ih =>
    intro i wd secf x hi h
    obtain ⟨wd1, sec1, x1, hf, h1⟩ := step i wd secf x (by omega) h
    obtain ⟨wd', secf', x', hloop, h'⟩ := ih (i + 1) wd1 (upd secf i sec1) x1 (by omega) h1
    refine ⟨wd', secf', x', ?_, h'⟩
    simp only [forUes, ueList_get N mk secf i (by omega), bind_apply, hf]
    rw [ueList_set N mk hmk]
    exact hloop

/-! ### the population of test mode: N UEs created from one IMSI, registered, each with the AMF's choice -/

/-- the PDU session identity UE `j` uses in all procedures -/
@[irreducible] def psiOf (cfg : Cfg) (j : Nat) : Nat := (pduIdOf ((Model.UeIdentity.decVal cfg.imsi + j : Nat) : Int)).toNat

@[irreducible] def ranOf (cfg : Cfg) (j : Nat) : Int := (createUE cfg j).ctx.ranUeNgapId

theorem ranOf_eq (cfg : Cfg) (j : Nat) : ranOf cfg j = (createUE cfg j).ctx.ranUeNgapId := by unfold ranOf; rfl

/-- the arguments of UE `j`'s procedures after registration (`C02_calls_are_the_emulators`) -/
def argsOf (cfg : Cfg) (m : Bytes) (chf : Nat → Spec.Amf.Choice) (s1 s2 s3 : UInt8) (j : Nat) : Args :=
  ⟨m, (chf j).amfUeNgapId, ranOf cfg j, psiOf cfg j, cfg.gnbGtp, 1, internet, some ((cfg.sst % 256).toNat, s1, s2, s3)⟩

/-- what is assumed of configuration and choices throughout -/
structure PopOK (cfg : Cfg) (E : Model.Convert.Ext) (N : Nat) (m : Bytes) (chf : Nat → Spec.Amf.Choice) : Prop where
  hd : Proofs.UeIdentity.DecimalImsi cfg.imsi
  hN4 : N ≤ 10000
  hfit : Proofs.UeIdentity.Fits cfg.imsi N
  hm : m.length = 3
  hamf : ∀ j, j < N → (chf j).amfUeNgapId < 2 ^ 40
  hgtp : cls E .ip (.str cfg.gnbGtp) = 2

/-- the hypotheses are satisfiable: the configuration of the recorded registration (IMSI 59903000000006, gNB GTP address
    48.53.100.89) with a population of 5 and any choices with AMF-UE-NGAP-IDs below 2^40 -/
example : PopOK Proofs.EmulatorWitness.reg1Cfg Model.NetExt.goExt 5 [0x95, 0xf9, 0x30] (fun j => ⟨[], [], [], 0, 2 ^ 40 - 1 - j, [], 0, []⟩) :=
  ⟨⟨by decide, by decide, by decide⟩, by decide, by unfold Proofs.UeIdentity.Fits; decide, rfl,
   fun j _ => by show 2 ^ 40 - 1 - j < 2 ^ 40; omega, by decide +kernel⟩

theorem PopOK.fitj {cfg : Cfg} {E : Model.Convert.Ext} {N : Nat} {m : Bytes} {chf : Nat → Spec.Amf.Choice} (h : PopOK cfg E N m chf)
    (j : Nat) (hj : j < N) : Model.UeIdentity.decVal cfg.imsi + j < 10 ^ cfg.imsi.length := by
  have := h.hfit; unfold Proofs.UeIdentity.Fits at this; omega

theorem PopOK.j62 {cfg : Cfg} {E : Model.Convert.Ext} {N : Nat} {m : Bytes} {chf : Nat → Spec.Amf.Choice} (h : PopOK cfg E N m chf)
    (j : Nat) (hj : j < N) : j < 2 ^ 62 := by
  have := h.hN4
  have : (10000 : Nat) < 2 ^ 62 := by decide
  omega

theorem psiOf_facts {cfg : Cfg} {E : Model.Convert.Ext} {N : Nat} {m : Bytes} {chf : Nat → Spec.Amf.Choice} (h : PopOK cfg E N m chf)
    (j : Nat) (hj : j < N) :
    supiInt (createUE cfg j).ctx.supi = some (((Model.UeIdentity.decVal cfg.imsi + j : Nat) : Int), false) ∧
    psi8 (pduIdOf ((Model.UeIdentity.decVal cfg.imsi + j : Nat) : Int)) = UInt8.ofNat (psiOf cfg j) ∧
    ((psiOf cfg j : Nat) : Int) = pduIdOf ((Model.UeIdentity.decVal cfg.imsi + j : Nat) : Int) ∧
    1 ≤ psiOf cfg j ∧ psiOf cfg j ≤ 15 := by
  obtain ⟨h0, h63⟩ := Proofs.EmulatorLifeArgs.supi_range cfg h.hd j (h.fitj j hj)
  obtain ⟨a, _, b, _, c, d⟩ := C02_calls_are_the_emulators _ h0 h63 0 (le_refl 0)
  unfold psiOf
  exact ⟨Proofs.EmulatorLifeArgs.supiInt_created cfg h.hd j (h.fitj j hj), a, b, c, d⟩

theorem argsOf_ok {cfg : Cfg} {E : Model.Convert.Ext} {N : Nat} {m : Bytes} {chf : Nat → Spec.Amf.Choice} (h : PopOK cfg E N m chf)
    (s1 s2 s3 : UInt8) (j : Nat) (hj : j < N) : (argsOf cfg m chf s1 s2 s3 j).OK E := by
  have hr : 0 ≤ ranOf cfg j ∧ ranOf cfg j < 2 ^ 32 := by
    rw [ranOf_eq]; exact Proofs.EmulatorLifeArgs.ran_range cfg h.hd j (h.j62 j hj)
  obtain ⟨_, _, _, hp1, hp15⟩ := psiOf_facts h j hj
  have h8 : (1 : Nat) < 8 := by decide
  have hi1 : internet.length ≤ 99 := by decide
  have hi2 : ∀ c ∈ internet, c ≠ 0x2E := by decide
  have hs : ∀ x, some ((cfg.sst % 256).toNat, s1, s2, s3) = some x → x.1 < 256 := fun x hx => by
    cases hx; show (cfg.sst % 256).toNat < 256; omega
  exact { hplmn := h.hm, ha1 := h.hamf j hj, hr0 := hr.1, hr1 := hr.2, h1 := hp1, h15 := hp15, hip := h.hgtp, hrt := h8,
          hd := ⟨hi1, hi2⟩, hs := hs }

theorem ran_inj {cfg : Cfg} {E : Model.Convert.Ext} {N : Nat} {m : Bytes} {chf : Nat → Spec.Amf.Choice} (h : PopOK cfg E N m chf)
    (i j : Nat) (hi : i < N) (hj : j < N) (hij : i ≠ j) : ranOf cfg i ≠ ranOf cfg j := by
  rw [ranOf_eq, ranOf_eq]
  exact (Props.C16.C16_ran_id_distinct h.hd h.hN4 hi hj hij cfg.k cfg.opc cfg.op cfg.k cfg.opc cfg.op).1

/-- the judge's state and the emulator's security states, UE by UE: NG Setup done, no clause, UE `j`'s record `uf j` (subscriber
    `j`, its RAN-UE-NGAP-ID), and for the UEs not yet de-registered (`k ≤ j`): the AMF's choice, REGISTERED, in step with the
    emulator's security state `secf j` at last accepted COUNT `cf j`, and the session (if any) has the UE's PSI -/
structure Glob (cfg : Cfg) (chf : Nat → Spec.Amf.Choice) (N k : Nat) (s : Spec.Amf.St) (uf : Nat → Spec.Amf.UeSt)
    (secf : Nat → UeSec) (cf : Nat → Nat) : Prop where
  clean : s.fails = []
  setup : s.ngSetup = true
  ues : s.ues = (List.range N).map uf
  idj : ∀ j, j < N → (uf j).j = j ∧ (uf j).ran = ranOf cfg j
  per : ∀ j, k ≤ j → j < N → (uf j).ch = chf j ∧ Live (secf j) (uf j) (cf j) ∧ (uf j).reg = .registered ∧
    ((uf j).sess = .none ∨ (uf j).psi = psiOf cfg j)

theorem Glob.find {cfg : Cfg} {E : Model.Convert.Ext} {m : Bytes} {chf : Nat → Spec.Amf.Choice} {N k : Nat} {s : Spec.Amf.St}
    {uf : Nat → Spec.Amf.UeSt} {secf : Nat → UeSec} {cf : Nat → Nat} (G : Glob cfg chf N k s uf secf cf) (h : PopOK cfg E N m chf)
    (i : Nat) (hi : i < N) : s.ues.find? (·.ran == ranOf cfg i) = some (uf i) := by
  rw [G.ues]
  exact find_range_map uf (ranOf cfg) N (fun j hj => (G.idj j hj).2) (fun a b ha hb hab => ran_inj h a b ha hb hab) i hi

theorem Glob.known {cfg : Cfg} {E : Model.Convert.Ext} {m : Bytes} {chf : Nat → Spec.Amf.Choice} {N k : Nat} {s : Spec.Amf.St}
    {uf : Nat → Spec.Amf.UeSt} {secf : Nat → UeSec} {cf : Nat → Nat} (G : Glob cfg chf N k s uf secf cf) (h : PopOK cfg E N m chf)
    (s1 s2 s3 : UInt8) (i : Nat) (hk : k ≤ i) (hi : i < N) : Known (argsOf cfg m chf s1 s2 s3 i) s (uf i) (secf i) (cf i) := by
  obtain ⟨hch, hl, hr, hp⟩ := G.per i hk hi
  have hamf : (uf i).ch.amfUeNgapId = (chf i).amfUeNgapId := by rw [hch]
  exact { clean := G.clean, setup := G.setup, find := G.find h i hi, amf := hamf, live := hl, reg := hr, psi := hp }

/-- updating UE `i`'s record (same subscriber, same RAN-UE-NGAP-ID) in a state of the population -/
theorem Glob.update {cfg : Cfg} {chf : Nat → Spec.Amf.Choice} {N k : Nat} {s : Spec.Amf.St}
    {uf : Nat → Spec.Amf.UeSt} {secf : Nat → UeSec} {cf : Nat → Nat} (G : Glob cfg chf N k s uf secf cf)
    (i : Nat) (k' : Nat) (hk' : k ≤ k') (s' : Spec.Amf.St) (u' : Spec.Amf.UeSt) (sec' : UeSec) (c' : Nat)
    (hclean : s'.fails = []) (hsetup : s'.ngSetup = true) (hues : s'.ues = (s.setUe u').ues)
    (hj : u'.j = i) (hr : u'.ran = ranOf cfg i)
    (hper : k' ≤ i → u'.ch = chf i ∧ Live sec' u' c' ∧ u'.reg = .registered ∧ (u'.sess = .none ∨ u'.psi = psiOf cfg i)) :
    Glob cfg chf N k' s' (upd uf i u') (upd secf i sec') (upd cf i c') := by
  refine ⟨hclean, hsetup, ?_, ?_, ?_⟩
  · rw [hues]
    exact setUe_range_map s N uf (fun j hj' => (G.idj j hj').1) G.ues i u' hj
  · intro j hjN
    by_cases hji : j = i
    · subst hji; rw [upd_same]; exact ⟨hj, hr⟩
    · rw [upd_other _ _ _ _ hji]; exact G.idj j hjN
  · intro j hkj hjN
    by_cases hji : j = i
    · subst hji; simp only [upd_same]; exact hper hkj
    · simp only [upd_other _ _ _ _ hji]; exact G.per j (by omega) hjN

/-- **one procedure of UE `i` in the population**, judge side: `proc_step` for UE `i`, with the state of the population updated -/
theorem glob_step (P : Prims) (hP : PrimsOk P) (scfg : Spec.Amf.Cfg) (chs : List Spec.Amf.Choice) {cfg : Cfg}
    {E : Model.Convert.Ext} {m : Bytes} {chf : Nat → Spec.Amf.Choice} {N : Nat} {s : Spec.Amf.St}
    {uf : Nat → Spec.Amf.UeSt} {secf : Nat → UeSec} {cf : Nat → Nat} (G : Glob cfg chf N 0 s uf secf cf) (h : PopOK cfg E N m chf)
    (s1 s2 s3 : UInt8) (i : Nat) (hi : i < N) (p : Proc) (se : Spec.Amf.Sess) (hse : sessAfter (uf i).sess p = some se)
    (hc : cf i + p.cost + 1 < 2 ^ 24) (k : Nat) :
    ∃ uls sec', procUls P E (argsOf cfg m chf s1 s2 s3 i) p (secf i) uls sec' ∧ uls.length = p.len ∧
      Glob cfg chf N 0 (stAfter (argsOf cfg m chf s1 s2 s3 i) s (uf i) (cf i) p)
        (upd uf i (ueAfter (argsOf cfg m chf s1 s2 s3 i) (uf i) (cf i) p)) (upd secf i sec') (upd cf i (cf i + p.cost)) ∧
      (ueAfter (argsOf cfg m chf s1 s2 s3 i) (uf i) (cf i) p).sess = se ∧
      ∀ rest, Spec.Amf.run P true scfg chs s k (uls ++ rest) =
        Spec.Amf.run P true scfg chs (stAfter (argsOf cfg m chf s1 s2 s3 i) s (uf i) (cf i) p) (k + uls.length) rest := by
  have hk := G.known h s1 s2 s3 i (Nat.zero_le _) hi
  obtain ⟨uls, sec', hp, hl, hk', hs', hrun⟩ := proc_step P hP true scfg chs E _ (argsOf_ok h s1 s2 s3 i hi) s k (uf i) (secf i) (cf i) hk p
    se hse hc
  obtain ⟨f1, f2, f3, _⟩ := stAfter_facts (argsOf cfg m chf s1 s2 s3 i) s (uf i) (cf i) p
  obtain ⟨g1, g2, g3, _⟩ := ueAfter_facts (argsOf cfg m chf s1 s2 s3 i) (uf i) (cf i) p
  obtain ⟨hch, _⟩ := G.per i (Nat.zero_le _) hi
  refine ⟨uls, sec', hp, hl, ?_, hs', fun rest => by rw [hl]; exact hrun rest⟩
  exact G.update i 0 (Nat.le_refl 0) _ _ sec' _ (by rw [f1]; exact G.clean) (by rw [f2]; exact G.setup) f3
    (by rw [g1]; exact (G.idj i hi).1) (by rw [g2]; exact (G.idj i hi).2)
    (fun _ => ⟨by rw [g3]; exact hch, hk'.live, hk'.reg, hk'.psi⟩)

theorem range'_head (i nEnd : Nat) (h : i < nEnd) : List.range' i (nEnd - i) = i :: List.range' (i + 1) (nEnd - (i + 1)) := by
  have : nEnd - i = (nEnd - (i + 1)) + 1 := by omega
  rw [this, List.range'_succ]

/-- the invariant of a loop of test mode that runs procedure `p` for the UEs `0 … nEnd − 1` -/
def LoopInv (P : Prims) (scfg : Spec.Amf.Cfg) (chs : List Spec.Amf.Choice) (cfg : Cfg) (chf : Nat → Spec.Amf.Choice) (N : Nat) (m : Bytes)
    (p : Proc) (nEnd : Nat) (dlsOf : Nat → List Bytes) (repOf : Nat → List Report) (S seA : Nat → Spec.Amf.Sess) (B : Nat)
    (E0 : List Nat) (V0 R0 D0 : Nat) (RP0 : List Report) (tail : List Bytes)
    (i : Nat) (wd : World) (secf : Nat → UeSec) (x : Spec.Amf.St × (Nat → Spec.Amf.UeSt) × (Nat → Nat)) : Prop :=
  wd.plmn = m ∧ wd.dls = (List.range' i (nEnd - i)).flatMap dlsOf ++ tail ∧ Judged P scfg chs wd x.1 ∧
  Glob cfg chf N 0 x.1 x.2.1 secf x.2.2 ∧
  (∀ j, j < N → (x.2.1 j).sess = if j < i then seA j else S j) ∧
  (∀ j, j < N → x.2.2 j ≤ B + if j < i then p.cost else 0) ∧
  x.1.established = E0 ++ (if p = .establish then List.range i else []) ∧
  x.1.services = V0 + (if p = .service then i else 0) ∧
  x.1.releases = R0 + (if p = .release then i else 0) ∧ x.1.deregs = D0 ∧
  wd.reportsRev = ((List.range i).flatMap repOf).reverse ++ RP0

/-- **a loop of test mode over `EstablishPDU` / `ServiceRequest` / `ReleasePDU`**, emulator and judge together: given what one
    iteration of the emulator does with the calls `procUls` describes (`hemul`), the loop for UEs `0 … nEnd − 1` completes, reads
    the downlink messages `dlsOf 0, …`, and the judge, from the state after the uplink messages written before, raises no clause on
    the messages written and counts every procedure; every UE's record stays in step with the emulator's security state -/
theorem proc_loop (P : Prims) (hP : PrimsOk P) (scfg : Spec.Amf.Cfg) (chs : List Spec.Amf.Choice) {cfg : Cfg}
    {E : Model.Convert.Ext} {m : Bytes} {chf : Nat → Spec.Amf.Choice} {N : Nat} (h : PopOK cfg E N m chf) (s1 s2 s3 : UInt8)
    (mk : Nat → UeSec → Ue) (hmk : ∀ j sec sec', { mk j sec with sec := sec' } = mk j sec')
    (p : Proc) (f : Ue → M UeSec) (nEnd : Nat) (hN : nEnd ≤ N) (dlsOf : Nat → List Bytes) (repOf : Nat → List Report)
    (hemul : ∀ i sec wd uls sec' rest, i < nEnd → wd.plmn = m → wd.dls = dlsOf i ++ rest →
      procUls P E (argsOf cfg m chf s1 s2 s3 i) p sec uls sec' →
      f (mk i sec) wd = ({ wd with dls := rest, ulsRev := uls.reverse ++ wd.ulsRev,
                                   reportsRev := (repOf i).reverse ++ wd.reportsRev }, .ok sec'))
    (S seA : Nat → Spec.Amf.Sess) (hS : ∀ j, j < nEnd → sessAfter (S j) p = some (seA j)) (B : Nat) (hB : B + p.cost + 1 < 2 ^ 24)
    (tail : List Bytes) (wd : World) (secf : Nat → UeSec) (s : Spec.Amf.St) (uf : Nat → Spec.Amf.UeSt) (cf : Nat → Nat)
    (hplmn : wd.plmn = m) (hdls : wd.dls = (List.range nEnd).flatMap dlsOf ++ tail) (hJ : Judged P scfg chs wd s)
    (G : Glob cfg chf N 0 s uf secf cf) (hsess : ∀ j, j < N → (uf j).sess = S j) (hcf : ∀ j, j < N → cf j ≤ B) :
    ∃ wd' secf' s' uf' cf', forUes f nEnd 0 (ueList N mk secf) wd = (wd', .ok (ueList N mk secf')) ∧
      wd'.plmn = m ∧ wd'.dls = tail ∧ Judged P scfg chs wd' s' ∧ Glob cfg chf N 0 s' uf' secf' cf' ∧
      (∀ j, j < N → (uf' j).sess = if j < nEnd then seA j else S j) ∧ (∀ j, j < N → cf' j ≤ B + p.cost) ∧
      s'.established = s.established ++ (if p = .establish then List.range nEnd else []) ∧
      s'.services = s.services + (if p = .service then nEnd else 0) ∧
      s'.releases = s.releases + (if p = .release then nEnd else 0) ∧ s'.deregs = s.deregs ∧
      wd'.reportsRev = ((List.range nEnd).flatMap repOf).reverse ++ wd.reportsRev := by
  have key := forUes_inv N mk hmk f
    (LoopInv P scfg chs cfg chf N m p nEnd dlsOf repOf S seA B s.established s.services s.releases s.deregs wd.reportsRev tail)
    nEnd hN ?step nEnd 0 wd secf (s, uf, cf) (Nat.zero_add _) ?init
  case init =>
    refine ⟨hplmn, by simpa [List.range_eq_range'] using hdls, hJ, G, fun j hj => by simpa using hsess j hj,
      fun j hj => by simpa using hcf j hj, by cases p <;> simp, by cases p <;> simp, by cases p <;> simp, rfl, by simp⟩
  case step =>
    rintro i wd secf ⟨s, uf, cf⟩ hi ⟨hplmn, hdls, hJ, G, hsess, hcf, hE, hV, hR, hD, hRP⟩
    simp only at hJ G hsess hcf hE hV hR hD
    have hiN : i < N := by omega
    have hse : sessAfter (uf i).sess p = some (seA i) := by
      rw [hsess i hiN, if_neg (Nat.lt_irrefl i)]; exact hS i hi
    have hci : cf i ≤ B := by have := hcf i hiN; rwa [if_neg (Nat.lt_irrefl i), Nat.add_zero] at this
    obtain ⟨uls, sec', hp, hl, G', hs', hrun⟩ := glob_step P hP scfg chs G h s1 s2 s3 i hiN p (seA i) hse (by omega) wd.ulsRev.length
    rw [range'_head i nEnd hi, List.flatMap_cons, List.append_assoc] at hdls
    have hf := hemul i (secf i) wd uls sec' _ hi hplmn hdls hp
    obtain ⟨f1, f2, f3, f4, f5, f6, f7⟩ := stAfter_facts (argsOf cfg m chf s1 s2 s3 i) s (uf i) (cf i) p
    refine ⟨_, sec', (stAfter (argsOf cfg m chf s1 s2 s3 i) s (uf i) (cf i) p,
      upd uf i (ueAfter (argsOf cfg m chf s1 s2 s3 i) (uf i) (cf i) p), upd cf i (cf i + p.cost)), hf, hplmn, rfl, ?_, G', ?_, ?_, ?_, ?_, ?_, ?_, ?_⟩
    · exact hJ.write uls rfl hrun
    · intro j hj
      by_cases hji : j = i
      · subst hji; simp only [upd_same]; rw [hs', if_pos (Nat.lt_succ_self j)]
      · simp only [upd_other _ _ _ _ hji]
        rw [hsess j hj]
        by_cases hlt : j < i
        · rw [if_pos hlt, if_pos (by omega)]
        · rw [if_neg hlt, if_neg (by omega)]
    · intro j hj
      by_cases hji : j = i
      · subst hji; simp only [upd_same]; rw [if_pos (Nat.lt_succ_self j)]; omega
      · simp only [upd_other _ _ _ _ hji]
        have := hcf j hj
        by_cases hlt : j < i
        · rw [if_pos hlt] at this; rw [if_pos (by omega)]; exact this
        · rw [if_neg hlt] at this; rw [if_neg (by omega)]; exact this
    · show (stAfter _ s (uf i) (cf i) p).established = _
      rw [f4, hE, (G.idj i hiN).1, List.append_assoc]
      cases p <;> simp [List.range_succ]
    · show (stAfter _ s (uf i) (cf i) p).services = _
      rw [f5, hV]
      cases p <;> simp
      omega
    · show (stAfter _ s (uf i) (cf i) p).releases = _
      rw [f6, hR]
      cases p <;> simp <;> omega
    · show (stAfter _ s (uf i) (cf i) p).deregs = _
      rw [f7, hD]
    · show (repOf i).reverse ++ wd.reportsRev = _
      rw [hRP, List.range_succ, List.flatMap_append]
      simp
  obtain ⟨wd', secf', ⟨s', uf', cf'⟩, hloop, hplmn', hdls', hJ', G', hsess', hcf', hE', hV', hR', hD', hRP'⟩ := key
  simp only [Nat.sub_self, List.range'_zero, List.flatMap_nil, List.nil_append] at hdls'
  refine ⟨wd', secf', s', uf', cf', hloop, hplmn', hdls', hJ', G', hsess', fun j hj => ?_, hE', hV', hR', hD', hRP'⟩
  have := hcf' j hj
  simp only at this
  by_cases hlt : j < nEnd
  · rwa [if_pos hlt] at this
  · rw [if_neg hlt] at this; omega

end Stgutg.Proofs.EmulatorLifeN
