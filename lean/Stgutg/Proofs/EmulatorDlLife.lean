/-
  C02 helper: the emulator's reading of the specified downlink messages of the procedures after registration
  (Spec/AmfDownlink.lean, section "after registration"): PDU SESSION RESOURCE SETUP REQUEST, INITIAL CONTEXT SETUP REQUEST with
  the Service Accept, DOWNLINK NAS TRANSPORT with the Deregistration Accept, UE CONTEXT RELEASE COMMAND.
  NGAP: each value is the evaluation of a skeleton that passes the static analysis of C13, so the specification encodes it and
  the library decoder (model) returns it (C03 + C04). Setup request: `EstablishPDU`'s glue finds the item and the two extractors
  return the assigned triple (C12).
-/
import Stgutg.Proofs.EmulatorDownlinkNas
import Stgutg.Props.C02

namespace Stgutg.Proofs.EmulatorDlLife
open Stgutg Stgutg.Aper Stgutg.Builders Stgutg.Model.Convert Stgutg.Model.Emulator
open Stgutg.Proofs.BuildersOk Stgutg.Proofs.Builders Stgutg.Proofs.BuildersTm Stgutg.Proofs.BuildersRange
open Stgutg.Proofs.BuildersRoles Stgutg.Proofs.BuildersPath Stgutg.Proofs.EmulatorDownlink

/-! ### PDU SESSION RESOURCE SETUP REQUEST -/

def tmSetupReq : Tm := initiating 29 Builders.reject 12 [
  ieT 10 Builders.reject 5 1 (.struct [.hole (.arg 0)]),
  ieT 85 Builders.reject 5 2 (.struct [.hole (.arg 1)]),
  ieT 74 Builders.reject 5 5 (.struct [.slice [.struct [.struct [.hole (.arg 2)], .ptr (.struct [.hole (.argOcts 3)]), snssaiT,
    .hole (.argOcts 4), .nil]]])]

def tSetupReq : Template :=
  { name := "PDUSessionResourceSetupRequest", message := .UplinkNASTransport, roles := [.amf, .ran, .psi, .nas, .nas], dims := [],
    cases := [⟨[], .val tmSetupReq⟩] }

theorem setupReq_eval (E : Ext) (plmn : Bytes) (amf ran psi : Int) (nas tr : Bytes) :
    Spec.AmfDl.pduSessionResourceSetupRequest amf ran psi nas tr =
      eval E ⟨plmn, [.int amf, .int ran, .int psi, .octs nas, .octs tr]⟩ .nil tmSetupReq := rfl

set_option maxRecDepth 1000000 in
theorem setupReq_static :
    (skOK true tmSetupReq && (skObls tmSetupReq).all fun o => explicitOK tSetupReq o && (oblIndex o).isNone) = true := by
  decide +kernel

/-- **PDU SESSION RESOURCE SETUP REQUEST**: identifiers in range, a PDU session ID in 0..255, any NAS-PDU and any transfer octets:
    encoded by the specification, decoded by the emulator -/
theorem setupReq_roundtrip (amf ran psi : Int) (nas tr : Bytes) (ha0 : 0 ≤ amf) (ha1 : amf < 2 ^ 40) (hr0 : 0 ≤ ran)
    (hr1 : ran < 2 ^ 32) (hp0 : 0 ≤ psi) (hp1 : psi ≤ 255) :
    ∃ bs, Spec.AmfDl.ngap (Spec.AmfDl.pduSessionResourceSetupRequest amf ran psi nas tr) = some bs ∧
      ngapDecode bs = .ok (Spec.AmfDl.pduSessionResourceSetupRequest amf ran psi nas tr) := by
  apply ngap_roundtrip
  rw [setupReq_eval Model.NetExt.goExt [0, 0, 0] amf ran psi nas tr]
  apply skeleton_okV _ tSetupReq _ _ setupReq_static
  intro hn
  refine ⟨rfl, ?_, ?_, ?_, ?_, ?_, ?_, ?_, fun i hi _ => absurd hi (hn i)⟩
  · intro i hi
    rcases i with _ | _ | _ | _ | _ | i <;> simp [roleAt, tSetupReq] at hi
    exact ⟨amf, rfl, ha0, ha1⟩
  · intro i hi
    rcases i with _ | _ | _ | _ | _ | i <;> simp [roleAt, tSetupReq] at hi
    exact ⟨ran, rfl, hr0, hr1⟩
  · intro i hi
    rcases i with _ | _ | _ | _ | _ | i <;> simp [roleAt, tSetupReq] at hi
    exact ⟨psi, rfl, hp0, hp1⟩
  · intro i hi; rcases i with _ | _ | _ | _ | _ | i <;> simp [roleAt, tSetupReq] at hi
  · intro i hi; rcases i with _ | _ | _ | _ | _ | i <;> simp [roleAt, tSetupReq] at hi
  · intro i j hi; rcases i with _ | _ | _ | _ | _ | i <;> simp [roleAt, tSetupReq] at hi
  · intro i j hi; rcases i with _ | _ | _ | _ | _ | i <;> simp [roleAt, tSetupReq] at hi

/-! ### UE CONTEXT RELEASE COMMAND -/

def tmUeCtxRel : Tm := initiating 41 Builders.reject 16 [
  ieT 114 Builders.reject 2 1 (choiceT 3 1 (.ptr (.struct [.struct [.hole (.arg 0)], .struct [.hole (.arg 1)], .nil]))),
  ieT 15 Builders.ignore 2 2 (choiceT 6 3 (.ptr (.struct [.enum 2])))]

def tUeCtxRel : Template :=
  { name := "UEContextReleaseCommand", message := .UplinkNASTransport, roles := [.amf, .ran], dims := [],
    cases := [⟨[], .val tmUeCtxRel⟩] }

theorem ueCtxRel_eval (E : Ext) (plmn : Bytes) (amf ran : Int) :
    Spec.AmfDl.ueContextReleaseCommand amf ran = eval E ⟨plmn, [.int amf, .int ran]⟩ .nil tmUeCtxRel := rfl

set_option maxRecDepth 1000000 in
theorem ueCtxRel_static :
    (skOK true tmUeCtxRel && (skObls tmUeCtxRel).all fun o => explicitOK tUeCtxRel o && (oblIndex o).isNone) = true := by
  decide +kernel

/-- **UE CONTEXT RELEASE COMMAND** with the UE NGAP ID pair in range -/
theorem ueCtxRel_roundtrip (amf ran : Int) (ha0 : 0 ≤ amf) (ha1 : amf < 2 ^ 40) (hr0 : 0 ≤ ran) (hr1 : ran < 2 ^ 32) :
    ∃ bs, Spec.AmfDl.ngap (Spec.AmfDl.ueContextReleaseCommand amf ran) = some bs ∧
      ngapDecode bs = .ok (Spec.AmfDl.ueContextReleaseCommand amf ran) := by
  apply ngap_roundtrip
  rw [ueCtxRel_eval Model.NetExt.goExt [0, 0, 0] amf ran]
  apply skeleton_okV _ tUeCtxRel _ _ ueCtxRel_static
  intro hn
  refine ⟨rfl, ?_, ?_, ?_, ?_, ?_, ?_, ?_, fun i hi _ => absurd hi (hn i)⟩
  · intro i hi
    rcases i with _ | _ | i <;> simp [roleAt, tUeCtxRel] at hi
    exact ⟨amf, rfl, ha0, ha1⟩
  · intro i hi
    rcases i with _ | _ | i <;> simp [roleAt, tUeCtxRel] at hi
    exact ⟨ran, rfl, hr0, hr1⟩
  · intro i hi; rcases i with _ | _ | i <;> simp [roleAt, tUeCtxRel] at hi
  · intro i hi; rcases i with _ | _ | i <;> simp [roleAt, tUeCtxRel] at hi
  · intro i hi; rcases i with _ | _ | i <;> simp [roleAt, tUeCtxRel] at hi
  · intro i j hi; rcases i with _ | _ | i <;> simp [roleAt, tUeCtxRel] at hi
  · intro i j hi; rcases i with _ | _ | i <;> simp [roleAt, tUeCtxRel] at hi

/-! ### what `EstablishPDU` extracts from the specified setup request -/

/-- the AMF's type-2 protection under 5G-EA0 / 128-5G-IA2 is TS 24.501 9.1.1's layout with a 4-octet MAC: the form C12 speaks about -/
theorem protectAt_eq (P : Prims) (hP : Proofs.NasProtect.PrimsOk P) (ctx : Spec.NasSecurity.SecCtx) (hia : ctx.ia = 2) (hea : ctx.ea = 0)
    (c : Nat) (plain : Bytes) :
    ∃ mac sqn, mac.length = 4 ∧ Spec.AmfDl.protectAt P ctx c plain = some (Spec.SetupRequest.protect ⟨2, mac, sqn⟩ plain) := by
  refine ⟨(P.cmac ctx.kNasInt (Spec.NasAlg.countBearerDir (Spec.NasSecurity.count32 (c % Spec.NasSecurity.countMod))
      Spec.NasSecurity.bearer3gpp Spec.NasSecurity.downlink ++
      (UInt8.ofNat (Spec.NasSecurity.sqnOf (c % Spec.NasSecurity.countMod)) :: plain))).take 4,
    UInt8.ofNat (Spec.NasSecurity.sqnOf (c % Spec.NasSecurity.countMod)), ?_, ?_⟩
  · have := hP.cmac_len ctx.kNasInt (Spec.NasAlg.countBearerDir (Spec.NasSecurity.count32 (c % Spec.NasSecurity.countMod))
      Spec.NasSecurity.bearer3gpp Spec.NasSecurity.downlink ++
      (UInt8.ofNat (Spec.NasSecurity.sqnOf (c % Spec.NasSecurity.countMod)) :: plain))
    simp only [List.length_take]; omega
  · simp [Spec.AmfDl.protectAt, Spec.NasSecurity.amfProtect, Spec.NasSecurity.newContext, Spec.NasSecurity.protect,
      Spec.NasSecurity.protectedType, Spec.NasSecurity.bodyAsSent, Spec.NasSecurity.ciphered, Spec.NasSecurity.macOf, hia, hea,
      Spec.NasAlg.nea, Spec.NasAlg.nia, Spec.NasAlg.eia2, Spec.SetupRequest.protect]

theorem beNat_natBE4 (n : Nat) (h : n < 2 ^ 32) : beNat (natBE 4 n) = n := by
  have e : natBE 4 n = [UInt8.ofNat (n / 256 ^ 3), UInt8.ofNat (n / 256 ^ 2), UInt8.ofNat (n / 256 ^ 1), UInt8.ofNat (n / 256 ^ 0)] := rfl
  rw [e]
  simp only [beNat, List.foldl_cons, List.foldl_nil, UInt8.toNat_ofNat']
  omega

/-- the setup list `FindPDUSessionResourceSetupListSUReq` finds in the specified message, its first item's NAS-PDU and transfer -/
theorem setupReq_carries (amf ran psi : Int) (nas tr : Bytes) :
    Props.C02.CarriesItem (Spec.AmfDl.pduSessionResourceSetupRequest amf ran psi nas tr) nas tr :=
  ⟨.struct [.slice [.struct [.struct [.int psi], .ptr (.struct [.octs nas]), Spec.AmfDl.snssaiV, .octs tr, .nil]]],
   .struct [.struct [.int psi], .ptr (.struct [.octs nas]), Spec.AmfDl.snssaiV, .octs tr, .nil], [], rfl, rfl, rfl, rfl⟩

/-- **what `EstablishPDU` reports from the specified setup request is the assigned triple**: for every PSI / PTI below 256, UE
    address and UPF address of four octets, TEID below 2^32, DL NAS COUNT and security context with 128-5G-IA2 / 5G-EA0 (C12 through
    the glue of `EstablishPDU`) -/
theorem extractReport_spec (P : Prims) (hP : Proofs.NasProtect.PrimsOk P) (ctx : Spec.NasSecurity.SecCtx) (hia : ctx.ia = 2)
    (hea : ctx.ea = 0) (c psi pti : Nat) (ueIp upfIp : Bytes) (teid : Nat) (hip : ueIp.length = 4) (hupf : upfIp.length = 4)
    (hteid : teid < 2 ^ 32) (amf ran psi' : Int) (n : Bytes)
    (hn : Spec.AmfDl.protectAt P ctx c (Spec.AmfDl.dlNasTransportAccept psi pti ueIp) = some n) :
    extractReport (Spec.AmfDl.pduSessionResourceSetupRequest amf ran psi' n (Spec.AmfDl.setupTransfer upfIp teid).encode) =
      .ok { ip := ueIp, teid := teid, upf := upfIp } := by
  obtain ⟨mac, sqn, hmac, hp⟩ := protectAt_eq P hP ctx hia hea c (Spec.AmfDl.dlNasTransportAccept psi pti ueIp)
  rw [hp] at hn
  cases hn
  have hwf : (Spec.AmfDl.establishmentAccept psi pti ueIp).WellFormed :=
    ⟨by show ([0x01, 0x00, 0x06, 0x31, 0x31, 0x01, 0x01, 0xff, 0x01] : Bytes).length < 65536; decide, rfl⟩
  have hlen : (Spec.AmfDl.establishmentAccept psi pti ueIp).encode.length < 65530 := by
    apply Props.C12.C12_ip_size _ rfl ueIp hip 0x01 rfl
    simp [Spec.AmfDl.establishmentAccept, Spec.AmfDl.snssaiNas, Spec.AmfDl.dnnInternet]
  have htwf : (Spec.AmfDl.setupTransfer upfIp teid).WellFormed := by
    refine ⟨?_, ?_, ?_, ?_, ?_, ?_⟩
    · intro dl ul h; cases h; decide
    · exact Proofs.Extract.natBE_length 4 teid
    · show 1 ≤ upfIp.length; omega
    · show upfIp.length ≤ 20; omega
    · intro p h; cases h; decide
    · intro l h; cases h; simp
  have := Props.C02.C02_reports _ ⟨2, mac, sqn⟩ 1 (Spec.AmfDl.establishmentAccept psi pti ueIp) (some (UInt8.ofNat psi)) none none none
    ueIp (Spec.AmfDl.setupTransfer upfIp teid) hmac hwf rfl hip hlen htwf hupf
    (setupReq_carries amf ran psi' _ _)
  have e : Spec.SetupRequest.protect ⟨2, mac, sqn⟩ (Spec.AmfDl.dlNasTransportAccept psi pti ueIp) =
      Spec.SetupRequest.nasPdu ⟨2, mac, sqn⟩ 1 (Spec.AmfDl.establishmentAccept psi pti ueIp) (some (UInt8.ofNat psi)) := rfl
  rw [e, this]
  show Except.ok ({ ip := ueIp, teid := beNat (natBE 4 teid), upf := upfIp } : Report) = _
  rw [beNat_natBE4 teid hteid]

/-- the hypotheses of `extractReport_spec` are satisfiable: the protected NAS message exists for every plain message -/
example : ∃ n, Spec.AmfDl.protectAt Proofs.NasProtect.toyPrims { ia := 2, ea := 0, kNasInt := [1], kNasEnc := [2] } 3
    (Spec.AmfDl.dlNasTransportAccept 5 1 [10, 45, 0, 2]) = some n := by
  obtain ⟨mac, sqn, _, h⟩ := protectAt_eq Proofs.NasProtect.toyPrims Proofs.NasProtect.toyPrims_ok
    { ia := 2, ea := 0, kNasInt := [1], kNasEnc := [2] } rfl rfl 3 (Spec.AmfDl.dlNasTransportAccept 5 1 [10, 45, 0, 2])
  exact ⟨_, h⟩

end Stgutg.Proofs.EmulatorDlLife
