import Stgutg.Gen.PureExtract
import Stgutg.Model.Extract
import Stgutg.Proofs.GenTieBase

/-!
  Tie by translation of the hand-written extractors of src/stgutg/pdu.go (C12, C02), part 1: the model's slice as the
  translator's carrier, and the runtime operations of Gen/PureRtSl.lean on it. The theorems are in Proofs/GenTieExtract.lean.
-/
namespace Stgutg.Proofs.GenTie.Extract
open Stgutg Stgutg.Gen
open Stgutg.Model.Extract

/-- the model's slice as the translator's carrier (the same two components) -/
def toGo (s : Sl) : Go.Sl := ⟨s.mem, s.len⟩
/-- … and back -/
def ofGo (s : Go.Sl) : Sl := ⟨s.mem, s.len⟩

@[simp] theorem ofGo_toGo (s : Sl) : ofGo (toGo s) = s := rfl
@[simp] theorem toGo_mem (s : Sl) : (toGo s).mem = s.mem := rfl
@[simp] theorem toGo_len (s : Sl) : (toGo s).len = s.len := rfl

@[simp] theorem map_ok {α β : Type} (f : α → β) (a : α) : Except.map f (Except.ok a : Res α) = .ok (f a) := rfl
@[simp] theorem map_error {α β : Type} (f : α → β) (e : Err) : Except.map f (Except.error e : Res α) = .error e := rfl
@[simp] theorem pure_eq {α : Type} (a : α) : (pure a : Res α) = .ok a := rfl

/-! ### the runtime operations on a model slice -/

theorem idx_eq (s : Sl) (i : Int) (n : Nat) (h : i = n) : Go.Sl.idx (toGo s) i = s.idx n := by
  subst h
  simp only [Go.Sl.idx, Sl.idx, toGo, Int.toNat_natCast]
  by_cases c : n < s.len
  · have : (0 : Int) ≤ (n : Int) ∧ (n : Int) < (s.len : Int) := by omega
    simp only [c, this, and_self, if_true]
    cases s.mem[n]? <;> rfl
  · have : ¬ ((0 : Int) ≤ (n : Int) ∧ (n : Int) < (s.len : Int)) := by omega
    simp only [c, this, if_false]

theorem sliceFrom_eq (s : Sl) (i : Int) (n : Nat) (h : i = n) :
    Go.Sl.sliceFrom (toGo s) i = (s.sliceFrom n).map toGo := by
  subst h
  unfold Go.Sl.sliceFrom Sl.sliceFrom
  by_cases c : n ≤ s.len
  · have : (n : Int) ≤ (s.len : Int) := by omega
    simp [c, this, toGo]
  · have : ¬ (n : Int) ≤ (s.len : Int) := by omega
    simp [c, this]

theorem sliceFrom_neg (s : Go.Sl) (i : Int) (h : i < 0) : Go.Sl.sliceFrom s i = .error .panic := by
  unfold Go.Sl.sliceFrom
  have : ¬ (0 ≤ i ∧ i ≤ (s.len : Int)) := by omega
  simp [this]

theorem slice_eq (s : Sl) (i j : Int) (a b : Nat) (hi : i = a) (hj : j = b) :
    Go.Sl.slice (toGo s) i j = (s.slice a b).map toGo := by
  subst hi hj
  unfold Go.Sl.slice Sl.slice
  by_cases c : a ≤ b ∧ b ≤ s.mem.length
  · have : (a : Int) ≤ (b : Int) ∧ (b : Int) ≤ (s.mem.length : Int) := by omega
    simp [c, this, toGo]
  · have : ¬ ((a : Int) ≤ (b : Int) ∧ (b : Int) ≤ (s.mem.length : Int)) := by omega
    simp [c]

theorem slice_neg (s : Go.Sl) (i j : Int) (h : i < 0) : Go.Sl.slice s i j = .error .panic := by
  unfold Go.Sl.slice
  have : ¬ (0 ≤ i ∧ i ≤ j ∧ j ≤ (s.mem.length : Int)) := by omega
  simp [this]

theorem be16_eq (s : Sl) : Go.Sl.be16 (toGo s) = (be16 s).map UInt16.ofNat := by
  unfold Go.Sl.be16 be16
  rw [idx_eq s 1 1 rfl, idx_eq s 0 0 rfl]
  cases s.idx 1 <;> cases s.idx 0 <;> simp

theorem be16_lt (s : Sl) (v : Nat) (h : be16 s = .ok v) : v < 65536 := by
  unfold be16 at h
  cases h1 : s.idx 1 <;> cases h0 : s.idx 0 <;> simp [h1, h0] at h
  rename_i b1 b0
  have := b1.toNat_lt
  have := b0.toNat_lt
  omega

theorem be32_eq (s : Sl) : Go.Sl.be32 (toGo s) = (be32 s).map UInt32.ofNat := by
  unfold Go.Sl.be32 be32
  rw [idx_eq s 3 3 rfl, idx_eq s 0 0 rfl, idx_eq s 1 1 rfl, idx_eq s 2 2 rfl]
  cases s.idx 3 <;> cases s.idx 0 <;> cases s.idx 1 <;> cases s.idx 2 <;> simp

theorem be32_lt (s : Sl) (v : Nat) (h : be32 s = .ok v) : v < 4294967296 := by
  unfold be32 at h
  cases h3 : s.idx 3 <;> cases h0 : s.idx 0 <;> cases h1 : s.idx 1 <;> cases h2 : s.idx 2 <;> simp [h3, h0, h1, h2] at h
  rename_i b3 b0 b1 b2
  have := b3.toNat_lt
  have := b0.toNat_lt
  have := b1.toNat_lt
  have := b2.toNat_lt
  omega


theorem iadd_nat (a b : Nat) (i j : Int) (hi : i = a) (hj : j = b) (h : a + b < 2 ^ 63) :
    Go.iadd i j = ((a + b : Nat) : Int) := by
  subst hi hj; unfold Go.iadd Go.wrapInt; omega

theorem isub_nat (a b : Nat) (i j : Int) (hi : i = a) (hj : j = b) (h : b ≤ a) (ha : a < 2 ^ 63) :
    Go.isub i j = ((a - b : Nat) : Int) := by
  subst hi hj; unfold Go.isub Go.wrapInt; omega

theorem isub_neg (a b : Nat) (i j : Int) (hi : i = a) (hj : j = b) (h : a < b) (hb : b < 2 ^ 63) :
    Go.isub i j < 0 := by
  subst hi hj; unfold Go.isub Go.wrapInt; omega

/-- what the model returns of the generated function's results: the TEID as a number, the visible octets of the address -/
def projXfer (r : UInt32 × Go.Sl) : Nat × Bytes := (r.1.toNat, (ofGo r.2).toBytes)


end Stgutg.Proofs.GenTie.Extract
