/-
  C01 helper: the reference AMF (Spec/Amf.lean) identifies the emulator's UE from its SUCI.
  The judge finds the subscriber by its own decimal arithmetic (`supiDigits`: IMSI digits → number + j → digits;
  `subscriberOf`: first j whose MCC / MNC / MSIN equal the decoded SUCI's). The emulator computes the SUPI of UE i as
  `%0*d` of IMSI + i (Model/UeIdentity.lean). Both agree for every decimal IMSI whose MSIN digits accommodate the population
  (`MsinFits`), and distinct UEs have distinct MSINs, so the judge finds exactly subscriber i.
-/
import Stgutg.Spec.Amf
import Stgutg.Proofs.UeIdentity
import Stgutg.Proofs.Suci

namespace Stgutg.Proofs.EmulatorSubscriber
open Stgutg Stgutg.Model.UeIdentity Stgutg.Proofs.UeIdentity

theorem spec_digitsOf (bs : Bytes) (h : ∀ c ∈ bs, isDigitByte c = true) : Spec.Amf.digitsOf bs = some (digitsOf bs) := by
  unfold Spec.Amf.digitsOf digitsOf
  induction bs with
  | nil => rfl
  | cons c cs ih =>
    have hc : (48 ≤ c && c ≤ 57) = true := h c (by simp)
    rw [List.mapM_cons]
    simp only [hc, if_true]
    rw [ih (fun d hd => h d (by simp [hd]))]
    rfl

theorem digitsVal_digitsOf (bs : Bytes) : Spec.Amf.digitsVal (digitsOf bs) = decVal bs := by
  unfold Spec.Amf.digitsVal digitsOf decVal
  rw [List.foldl_map]

theorem toDigits_eq : ∀ (w n : Nat), Spec.Amf.toDigits w n = digitsOf (decW w n)
  | 0, _ => rfl
  | w + 1, n => by
    simp only [Spec.Amf.toDigits, decW, toDigits_eq w (n / 10), digitsOf, List.map_append, List.map_cons, List.map_nil]
    rw [digit_toNat (Nat.mod_lt n (by omega))]
    simp

/-- the digits of subscriber `j`'s IMSI, as the reference AMF computes them -/
theorem supiDigits_eq (cfg : Spec.Amf.Cfg) (h : DecimalImsi cfg.imsi) (j : Nat) :
    Spec.Amf.supiDigits cfg j = some (digitsOf (decW cfg.imsi.length (decVal cfg.imsi + j))) := by
  unfold Spec.Amf.supiDigits
  rw [spec_digitsOf _ h.digits]
  simp only [Option.map_some, digitsOf_length, digitsVal_digitsOf, toDigits_eq]

/-- IMSI + j keeps MCC ‖ MNC and adds j to the MSIN (no carry out of the MSIN digits) -/
theorem decW_imsi_split {imsi : Bytes} (h : DecimalImsi imsi) {p n : Nat} (hfit : MsinFits imsi p n) {i : Nat} (hi : i < n) :
    decW imsi.length (decVal imsi + i) = imsi.take p ++ decW (imsi.length - p) (decVal (imsi.drop p) + i) := by
  obtain ⟨hp, hf⟩ := hfit
  have hsplit : imsi = imsi.take p ++ imsi.drop p := (List.take_append_drop _ imsi).symm
  have hlt : (imsi.take p).length = p := by rw [List.length_take]; omega
  have hld : (imsi.drop p).length = imsi.length - p := List.length_drop
  have hval : decVal imsi + i = decVal (imsi.take p) * 10 ^ (imsi.length - p) + (decVal (imsi.drop p) + i) := by
    conv => lhs; rw [hsplit, decVal_append, hld]
    omega
  have hw : imsi.length = p + (imsi.length - p) := by omega
  conv => lhs; rw [hw, hval]
  rw [decW_split p _ _ _ (by omega)]
  have := decW_decVal (imsi.take p) (fun c hc => h.digits c (List.mem_of_mem_take hc))
  rw [hlt] at this
  rw [this]

/-- the MSIN of subscriber `j`, as the reference AMF computes it -/
theorem msinOf_eq (cfg : Spec.Amf.Cfg) (h : DecimalImsi cfg.imsi) {m n : Nat} (hmcc : cfg.mcc.length = 3) (hmnc : cfg.mnc.length = m)
    (hfit : MsinFits cfg.imsi (3 + m) n) {j : Nat} (hj : j < n) :
    Spec.Amf.msinOf cfg j = some (digitsOf (decW (cfg.imsi.length - (3 + m)) (decVal (cfg.imsi.drop (3 + m)) + j))) := by
  unfold Spec.Amf.msinOf
  rw [supiDigits_eq cfg h j, decW_imsi_split h hfit hj, hmcc, hmnc]
  simp only [Option.map_some, digitsOf, List.map_append, Option.some.injEq]
  rw [List.drop_left' (by rw [List.length_map, List.length_take]; have := hfit.1; omega)]

theorem find?_range {p : Nat → Bool} : ∀ (n j : Nat), j < n → p j = true → (∀ i, i < j → p i = false) →
    (List.range n).find? p = some j := by
  intro n
  induction n with
  | zero => intro j hj; omega
  | succ n ih =>
    intro j hj hp hlt
    rw [List.range_succ, List.find?_append]
    by_cases hjn : j < n
    · rw [ih j hjn hp hlt]; rfl
    · have : j = n := by omega
      subst this
      have hnone : (List.range j).find? p = none := by
        rw [List.find?_eq_none]
        intro i hi
        rw [List.mem_range] at hi
        simp [hlt i hi]
      rw [hnone]
      simp [hp]

/-- distinct UEs of the population have distinct MSIN digit strings -/
theorem msin_digits_inj (w v i j : Nat) (hi : v + i < 10 ^ w) (hj : v + j < 10 ^ w)
    (h : digitsOf (decW w (v + i)) = digitsOf (decW w (v + j))) : i = j := by
  have h1 := asc_digitsOf _ (decW_digits w (v + i))
  have h2 := asc_digitsOf _ (decW_digits w (v + j))
  rw [h] at h1
  have : decW w (v + i) = decW w (v + j) := h1.symm.trans h2
  have := congrArg decVal this
  rw [decVal_decW, decVal_decW, Nat.mod_eq_of_lt hi, Nat.mod_eq_of_lt hj] at this
  omega

/-- **the reference AMF finds subscriber `j`**: for a decimal IMSI configuration whose MSIN digits accommodate the `n`
    configured subscribers, a SUCI that decodes to the configured MCC, MNC and MSIN + j (what `C01_suci` proves of the
    emulator's UE `j`) is attributed to subscriber `j`, and to no other -/
theorem subscriberOf_eq (cfg : Spec.Amf.Cfg) (h : DecimalImsi cfg.imsi) {m : Nat}
    (hmcc : cfg.mcc = cfg.imsi.take 3) (hmnc : cfg.mnc = (cfg.imsi.drop 3).take m) (hlen : 3 + m < cfg.imsi.length)
    (hfit : MsinFits cfg.imsi (3 + m) (Spec.Amf.subscribers cfg)) {j : Nat} (hj : j < Spec.Amf.subscribers cfg) (buf : Bytes)
    (hdec : Spec.Identity.decodeSuci buf = some (Spec.Identity.nullSchemeSuci (digitsOf (cfg.imsi.take 3))
      (digitsOf ((cfg.imsi.drop 3).take m))
      (digitsOf (decW (cfg.imsi.length - (3 + m)) (decVal (cfg.imsi.drop (3 + m)) + j))))) :
    Spec.Amf.subscriberOf cfg buf = some j := by
  have hmccl : cfg.mcc.length = 3 := by rw [hmcc, List.length_take]; omega
  have hmncl : cfg.mnc.length = m := by rw [hmnc, List.length_take, List.length_drop]; omega
  have d1 : ∀ c ∈ cfg.imsi.take 3, isDigitByte c = true := fun c hc => h.digits c (List.mem_of_mem_take hc)
  have d2 : ∀ c ∈ (cfg.imsi.drop 3).take m, isDigitByte c = true :=
    fun c hc => h.digits c (List.mem_of_mem_drop (List.mem_of_mem_take hc))
  have hsuci : ∀ i, i < Spec.Amf.subscribers cfg → Spec.Amf.suciIs cfg i buf =
      (digitsOf (decW (cfg.imsi.length - (3 + m)) (decVal (cfg.imsi.drop (3 + m)) + j)) ==
        digitsOf (decW (cfg.imsi.length - (3 + m)) (decVal (cfg.imsi.drop (3 + m)) + i))) := by
    intro i hi
    unfold Spec.Amf.suciIs
    rw [hdec, msinOf_eq cfg h hmccl hmncl hfit hi]
    rw [hmcc, hmnc, spec_digitsOf _ d1, spec_digitsOf _ d2]
    simp [Spec.Identity.nullSchemeSuci]
  unfold Spec.Amf.subscriberOf
  apply find?_range _ j hj
  · rw [hsuci j hj]; simp
  · intro i hi
    rw [hsuci i (by omega)]
    simp only [beq_eq_false_iff_ne, ne_eq]
    intro heq
    have hf := hfit.2
    have := msin_digits_inj (cfg.imsi.length - (3 + m)) (decVal (cfg.imsi.drop (3 + m))) j i (by omega) (by omega) heq
    omega

theorem bcdEncode_length : ∀ (ms : List Nat), (Spec.Identity.bcdEncode ms).length ≤ ms.length
  | [] => by simp [Spec.Identity.bcdEncode]
  | [_] => by simp [Spec.Identity.bcdEncode]
  | _ :: _ :: rest => by
    have := bcdEncode_length rest
    simp [Spec.Identity.bcdEncode]
    omega

open Stgutg.Proofs.Suci in
/-- the SUCI buffer of a created UE is short (8 octets + the packed MSIN): it fits every NAS length field -/
theorem suci_of_created_ue_short {imsi : Bytes} (h : DecimalImsi imsi) {m n : Nat} (hm : m = 2 ∨ m = 3)
    (hlen : 3 + m < imsi.length) (hfit : MsinFits imsi (3 + m) n) {i : Nat} (hi : i < n) (k opc op : Bytes) (buf : Bytes)
    (hb : Model.Suci.encodeSuci (Model.Suci.trimImsiPrefix (createUE imsi (i : Int) k opc op).supi) (m : Int) = .ok buf) :
    buf.length ≤ 8 + imsi.length := by
  rw [createUE_supi_split h hfit hi] at hb
  have htrim : ∀ x : Bytes, Model.Suci.trimImsiPrefix (imsiPrefix ++ x) = x := fun _ => rfl
  rw [htrim] at hb
  have d1 : ∀ c ∈ imsi.take 3, isDigitByte c = true := fun c hc => h.digits c (List.mem_of_mem_take hc)
  have d2 : ∀ c ∈ (imsi.drop 3).take m, isDigitByte c = true :=
    fun c hc => h.digits c (List.mem_of_mem_drop (List.mem_of_mem_take hc))
  have d3 := decW_digits (imsi.length - (3 + m)) (decVal (imsi.drop (3 + m)) + i)
  have hv : ValidImsi (digitsOf (imsi.take 3)) (digitsOf ((imsi.drop 3).take m))
      (digitsOf (decW (imsi.length - (3 + m)) (decVal (imsi.drop (3 + m)) + i))) := by
    refine ⟨?_, ?_, ?_, ?_⟩
    · rw [digitsOf_length, List.length_take]; omega
    · rw [digitsOf_length, List.length_take, List.length_drop]; omega
    · rw [digitsOf_length, decW_length]; omega
    · intro d hd
      simp only [List.mem_append] at hd
      rcases hd with (hd | hd) | hd
      · exact digitsOf_lt _ d1 d hd
      · exact digitsOf_lt _ d2 d hd
      · exact digitsOf_lt _ d3 d hd
  obtain ⟨o5, o6, o7, _, hbuf⟩ := suci_buffer hv
  have hmlen : (digitsOf ((imsi.drop 3).take m)).length = m := by
    rw [digitsOf_length, List.length_take, List.length_drop]; omega
  rw [hmlen, asc_append, asc_append, asc_digitsOf _ d1, asc_digitsOf _ d2, asc_digitsOf _ d3] at hbuf
  rw [hbuf] at hb
  simp only [Except.ok.injEq] at hb
  subst hb
  have := bcdEncode_length (digitsOf (decW (imsi.length - (3 + m)) (decVal (imsi.drop (3 + m)) + i)))
  rw [digitsOf_length, decW_length] at this
  simp only [List.length_append, List.length_cons, List.length_nil]
  omega

/-! ### a parsed NAS message is no longer than its values plus the IE overheads -/

open Spec.Ts24501

def mandBound (vs : List Bytes) : Nat := (vs.map fun v => v.length + 2).sum
def optBound (os : List (Nat × Bytes)) : Nat := (os.map fun o => o.2.length + 3).sum

theorem takeN_length (n : Nat) (bs a r : Bytes) (h : takeN n bs = some (a, r)) : bs.length = a.length + r.length := by
  unfold takeN at h
  split at h
  · simp only [Option.some.injEq, Prod.mk.injEq] at h
    obtain ⟨rfl, rfl⟩ := h
    simp only [List.length_take, List.length_drop]
    omega
  · cases h

theorem parseMand_length : ∀ (ws : List MWire) (bs : Bytes) (vs : List Bytes) (r : Bytes),
    parseMand ws bs = some (vs, r) → bs.length ≤ mandBound vs + r.length := by
  intro ws
  induction ws with
  | nil =>
    intro bs vs r h
    simp only [parseMand, Option.some.injEq, Prod.mk.injEq] at h
    obtain ⟨rfl, rfl⟩ := h
    simp [mandBound]
  | cons w ws ih =>
    intro bs vs r h
    cases w with
    | v n =>
      simp only [parseMand] at h
      cases ht : takeN n bs with
      | none => simp [ht] at h
      | some x =>
        obtain ⟨a, r1⟩ := x
        simp only [ht] at h
        cases hp : parseMand ws r1 with
        | none => simp [hp] at h
        | some y =>
          obtain ⟨vs', r'⟩ := y
          simp only [hp, Option.map_some, Option.some.injEq, Prod.mk.injEq] at h
          obtain ⟨rfl, rfl⟩ := h
          have h1 := takeN_length n bs a r1 ht
          have h2 := ih r1 vs' r' hp
          simp only [mandBound, List.map_cons, List.sum_cons] at h2 ⊢
          omega
    | vRest mn =>
      simp only [parseMand] at h
      split at h
      · cases hp : parseMand ws [] with
        | none => simp [hp] at h
        | some y =>
          obtain ⟨vs', r'⟩ := y
          simp only [hp, Option.map_some, Option.some.injEq, Prod.mk.injEq] at h
          obtain ⟨rfl, rfl⟩ := h
          simp only [mandBound, List.map_cons, List.sum_cons]
          omega
      · cases h
    | lv fx =>
      simp only [parseMand] at h
      cases bs with
      | nil => simp at h
      | cons l r0 =>
        simp only at h
        split at h
        · cases h
        · cases ht : takeN l.toNat r0 with
          | none => simp [ht] at h
          | some x =>
            obtain ⟨a, r1⟩ := x
            simp only [ht] at h
            cases hp : parseMand ws r1 with
            | none => simp [hp] at h
            | some y =>
              obtain ⟨vs', r'⟩ := y
              simp only [hp, Option.map_some, Option.some.injEq, Prod.mk.injEq] at h
              obtain ⟨rfl, rfl⟩ := h
              have h1 := takeN_length _ r0 a r1 ht
              have h2 := ih r1 vs' r' hp
              simp only [mandBound, List.map_cons, List.sum_cons, List.length_cons] at h2 ⊢
              omega
    | lve fx =>
      simp only [parseMand] at h
      cases bs with
      | nil => simp at h
      | cons l1 r00 =>
        cases r00 with
        | nil => simp at h
        | cons l2 r0 =>
          simp only at h
          split at h
          · cases h
          · cases ht : takeN (l1.toNat * 256 + l2.toNat) r0 with
            | none => simp [ht] at h
            | some x =>
              obtain ⟨a, r1⟩ := x
              simp only [ht] at h
              cases hp : parseMand ws r1 with
              | none => simp [hp] at h
              | some y =>
                obtain ⟨vs', r'⟩ := y
                simp only [hp, Option.map_some, Option.some.injEq, Prod.mk.injEq] at h
                obtain ⟨rfl, rfl⟩ := h
                have h1 := takeN_length _ r0 a r1 ht
                have h2 := ih r1 vs' r' hp
                simp only [mandBound, List.map_cons, List.sum_cons, List.length_cons] at h2 ⊢
                omega

theorem parseOpts_length (ws : List OWire) : ∀ (fuel : Nat) (bs : Bytes) (os : List (Nat × Bytes)),
    parseOpts ws fuel bs = some os → bs.length ≤ optBound os := by
  intro fuel
  induction fuel with
  | zero =>
    intro bs os h
    cases bs with
    | nil => simp
    | cons _ _ => simp [parseOpts] at h
  | succ fuel ih =>
    intro bs os h
    cases bs with
    | nil => simp
    | cons b r =>
      simp only [parseOpts] at h
      cases hf : ws.find? (fun x => x.iei == if b.toNat ≥ 128 then b.toNat / 16 else b.toNat) with
      | none => simp [hf] at h
      | some w =>
        simp only [hf] at h
        cases hk : w.kind with
        | half =>
          simp only [hk] at h
          split at h
          · cases hp : parseOpts ws fuel r with
            | none => simp [hp] at h
            | some os' =>
              simp only [hp, Option.map_some, Option.some.injEq] at h
              subst h
              have := ih r os' hp
              simp only [optBound, List.map_cons, List.sum_cons, List.length_cons] at this ⊢
              omega
          · cases h
        | tv n =>
          simp only [hk] at h
          split at h
          · cases h
          · cases ht : takeN n r with
            | none => simp [ht] at h
            | some x =>
              obtain ⟨a, r'⟩ := x
              simp only [ht] at h
              cases hp : parseOpts ws fuel r' with
              | none => simp [hp] at h
              | some os' =>
                simp only [hp, Option.map_some, Option.some.injEq] at h
                subst h
                have h1 := takeN_length _ r a r' ht
                have := ih r' os' hp
                simp only [optBound, List.map_cons, List.sum_cons, List.length_cons] at this ⊢
                omega
        | tlv =>
          simp only [hk] at h
          split at h
          · cases h
          · cases r with
            | nil => simp at h
            | cons l r1 =>
              simp only at h
              cases ht : takeN l.toNat r1 with
              | none => simp [ht] at h
              | some x =>
                obtain ⟨a, r'⟩ := x
                simp only [ht] at h
                cases hp : parseOpts ws fuel r' with
                | none => simp [hp] at h
                | some os' =>
                  simp only [hp, Option.map_some, Option.some.injEq] at h
                  subst h
                  have h1 := takeN_length _ r1 a r' ht
                  have := ih r' os' hp
                  simp only [optBound, List.map_cons, List.sum_cons, List.length_cons] at this ⊢
                  omega
        | tlve =>
          simp only [hk] at h
          split at h
          · cases h
          · cases r with
            | nil => simp at h
            | cons l1 r0 =>
              cases r0 with
              | nil => simp at h
              | cons l2 r1 =>
                simp only at h
                cases ht : takeN (l1.toNat * 256 + l2.toNat) r1 with
                | none => simp [ht] at h
                | some x =>
                  obtain ⟨a, r'⟩ := x
                  simp only [ht] at h
                  cases hp : parseOpts ws fuel r' with
                  | none => simp [hp] at h
                  | some os' =>
                    simp only [hp, Option.map_some, Option.some.injEq] at h
                    subst h
                    have h1 := takeN_length _ r1 a r' ht
                    have := ih r' os' hp
                    simp only [optBound, List.map_cons, List.sum_cons, List.length_cons] at this ⊢
                    omega

/-- **length bound**: a message the TS 24.501 parser reads to `m` has at most (value + 2) octets per imperative element and
    (value + 3) per optional IE -/
theorem parse_length (w : Wire) (bs : Bytes) (m : SMsg) (h : parse w bs = some m) :
    bs.length ≤ mandBound m.mand + optBound m.opt := by
  unfold parse at h
  cases hp : parseMand w.mand bs with
  | none => simp [hp] at h
  | some x =>
    obtain ⟨vs, r⟩ := x
    simp only [hp] at h
    cases ho : parseOpts w.opt r.length r with
    | none => simp [ho] at h
    | some os =>
      simp only [ho, Option.map_some, Option.some.injEq] at h
      subst h
      have h1 := parseMand_length w.mand bs vs r hp
      have h2 := parseOpts_length w.opt r.length r os ho
      simp only
      omega

end Stgutg.Proofs.EmulatorSubscriber
